(* Hostile.v -- C16: an endpoint under peer-chosen (and, for the client, caller-chosen) input
   (no proofs in this file).

   One script drives one endpoint in one of three modes:
     MServer  a BaseChannel + Requests: the peer sends requests with arbitrary wire deadlines
              (handler echoes or never ends), duplicate floods, cancels for any id, and probes;
     MClient  a client dispatch: a local caller issues calls with any Instant as deadline, the
              peer sends responses for any id;
     MStream  raw bytes into the framed decoder: frames (any payload), unframed garbage, a cut
              inside the last frame, end of stream.
   What the model predicts for the first two modes is exactly the arithmetic of Time.v: decode
   the deadline, compute (and, if a subscriber listens, render) the rpc.deadline field, arm the
   timer -- each of which may `Panic` -- plus the bookkeeping of which ids are in flight.  For
   the stream mode it is Framing.v.  Payload decoding by the third-party codecs is not
   modelled (that the real decoders do not panic is what the correspondence checks). *)
From Coq Require Import List NArith ZArith Bool.
Import ListNotations.
From TarpcV Require Import Base Schema Time Framing.
Local Open Scope Z_scope.

Inductive hmode := MServer | MClient | MStream.
(* listening: some tracing subscriber records span fields; json: the codec can omit fields;
   hchunks / hcut: as in Shipped.v (stream mode) *)
Record hcfg := { mode : hmode; listening : bool; json : bool; hchunks : list nat; hcut : nat }.

(* the clocks and the timer queue of the endpoint (the harness's virtual clock does not move
   during a C16 script) *)
Record env := { e_now : timespec; e_wall : timespec; e_start : timespec; e_elapsed : Z }.

Inductive hop :=
| SReq (id : N) (w : option (N * N)) (hang : bool)   (* wire deadline: raw (secs : u64, nanos : u32), or absent *)
| SFlood (id : N) (n : nat)
| SCancel (id : N)
| SProbe (id : N)
| CCall (neg : bool) (secs nanos : N)                (* deadline = now +/- (secs, nanos) *)
| CResp (id : N) (ok : bool)
| CWrong (on : bool)                                 (* a generated client gets another method's response variant *)
| MFrame (p : bytes) | MGarbage (b : bytes) | MEof
(* the connection stays QUIET for `secs` seconds: the clocks move, no timer is armed or fires, so
   the timer wheel does not advance.  Only the Age ops that LEAD a script count (they are folded
   into the environment by `hrun`); anywhere else an Age is a no-op, in the model and in the harness. *)
| Age (secs : N).

Inductive cres := RReply | RServerErr | RDeadline | ROther.
Inductive hobs :=
| OStarted (id : N) | OServed (id : N) | OAborted (id : N)
| OReadErr                      (* the transport yielded an error: the connection is over *)
| OPanic
| OCallSent (id secs nanos : N) | OCallDone (id : N) (r : cres) | OCancelSent | ODispatchEnd
| OCallPending
| OYield (k : nat) | OEndErr | OEndClean.

Definition cres_eqb (a b : cres) : bool :=
  match a, b with
  | RReply, RReply | RServerErr, RServerErr | RDeadline, RDeadline | ROther, ROther => true
  | _, _ => false
  end.
Definition hobs_eqb (a b : hobs) : bool :=
  match a, b with
  | OStarted x, OStarted y | OServed x, OServed y | OAborted x, OAborted y => N.eqb x y
  | OReadErr, OReadErr | OPanic, OPanic | OCancelSent, OCancelSent | ODispatchEnd, ODispatchEnd
  | OCallPending, OCallPending | OEndErr, OEndErr | OEndClean, OEndClean => true
  | OCallSent a b c, OCallSent a' b' c' => N.eqb a a' && N.eqb b b' && N.eqb c c'
  | OCallDone a r, OCallDone a' r' => N.eqb a a' && cres_eqb r r'
  | OYield k, OYield k' => Nat.eqb k k'
  | _, _ => false
  end.

(* serde's Duration visitor on the raw pair: check_overflow, then Duration::new (carry) *)
Definition wire_duration (secs nanos : N) : option duration :=
  let s := Z.of_N secs + Z.of_N nanos / NS in
  if u64_max <? s then None else Some {| d_secs := s; d_nanos := Z.of_N nanos mod NS |}.

(* Timespec::checked_sub_duration (Instant::checked_sub, used by the harness's local caller) *)
Definition ts_checked_sub (t : timespec) (d : duration) : option timespec :=
  let secs := t_secs t - d_secs d in
  if secs <? i64_min then None
  else
    let nsec := t_nanos t - d_nanos d in
    if nsec <? 0 then
      if secs - 1 <? i64_min then None
      else Some {| t_secs := secs - 1; t_nanos := nsec + NS |}
    else Some {| t_secs := secs; t_nanos := nsec |}.

Record hst := {
  over : bool;                 (* the connection ended (read error, panic, end of stream) *)
  inflight : list N;           (* server: handlers that have not ended; client: unanswered calls *)
  next_id : N;                 (* client: the id the next call gets *)
  stream : list (bytes * bool) (* stream mode: what was written so far; true = a frame payload *)
}.
Definition hinit : hst := {| over := false; inflight := []; next_id := 0%N; stream := [] |}.
Definition mem (id : N) (l : list N) : bool := existsb (N.eqb id) l.
Definition remove (id : N) (l : list N) : list N := filter (fun x => negb (N.eqb id x)) l.
Definition set_over (s : hst) : hst :=
  {| over := true; inflight := inflight s; next_id := next_id s; stream := stream s |}.
Definition set_inflight (s : hst) (l : list N) : hst :=
  {| over := over s; inflight := l; next_id := next_id s; stream := stream s |}.

(* a timer that is due at once: already expired at insertion, or armed at a tick the clock has
   reached (possible when the wheel lags the clock: the entry then fires at the next poll).
   The wheel's advance after such a firing is not tracked: it only ever shortens the lag, so inside
   dq_env it changes no outcome. *)
Definition due (e : env) (a : armed) : bool :=
  match a with
  | Expired => true
  | Armed w => w * 1000000 <=? ts_ns (e_now e) - ts_ns (e_start e)
  end.

(* ---- server: transport read (decode) ; start_request (span, then timer) ; handler ---- *)
Definition server_request (c : hcfg) (e : env) (s : hst) (id : N) (w : option duration) (hang : bool)
  : hst * list hobs :=
  match de_context_deadline (e_now e) w with
  | Panic _ => (set_over s, [OPanic])
  | Ok D =>
    match deadline_field (listening c) (e_wall e) (e_now e) D with
    | Panic _ => (set_over s, [OPanic])
    | Ok _ =>
      if mem id (inflight s) then (s, [])                (* AlreadyExistsError: ignored *)
      else
        match arm_timer (e_start e) (e_elapsed e) (e_now e) (e_now e) D with
        | Panic _ => (set_over s, [OPanic])
        | Ok a =>
          (* a due timer fires at the next poll of the channel: the request is forgotten before
             the (instant) response is written, a pending handler is aborted *)
          if due e a then (if hang then (s, [OStarted id; OAborted id]) else (s, [OStarted id]))
          else if hang then (set_inflight s (id :: inflight s), [OStarted id])
          else (s, [OStarted id; OServed id])
        end
    end
  end.

Definition server_step (c : hcfg) (e : env) (s : hst) (o : hop) : hst * list hobs :=
  match o with
  | SReq id w hang =>
    match w with
    | None => if json c then server_request c e s id None hang else (s, [])
    | Some (secs, nanos) =>
      match wire_duration secs nanos with
      | None => (set_over s, [OReadErr])          (* "overflow deserializing Duration" *)
      | Some d => server_request c e s id (Some d) hang
      end
    end
  | SFlood id n =>
    match n with
    | O => (s, [])
    | S _ => server_request c e s id (Some (from_secs 3600)) true    (* the copies are duplicates *)
    end
  | SCancel id =>
    if mem id (inflight s) then (set_inflight s (remove id (inflight s)), [OAborted id]) else (s, [])
  | SProbe id => server_request c e s id (Some (from_secs default_deadline_secs)) false
  | _ => (s, [])
  end.

(* ---- client: Channel::call (span) ; dispatch: insert_request (timer), start_send ---- *)
Definition caller_deadline (e : env) (neg : bool) (secs nanos : N) : option timespec :=
  match wire_duration secs nanos with
  | None => None
  | Some d => if neg then ts_checked_sub (e_now e) d else ts_checked_add (e_now e) d
  end.

Definition client_step (c : hcfg) (e : env) (s : hst) (o : hop) : hst * list hobs :=
  match o with
  | CCall neg secs nanos =>
    match caller_deadline e neg secs nanos with
    | None => (s, [])                               (* not an Instant: the caller cannot even build it *)
    | Some D =>
      let id := next_id s in
      let s1 := {| over := over s; inflight := inflight s; next_id := (id + 1)%N; stream := stream s |} in
      match client_send (listening c) (e_start e) (e_elapsed e) (e_wall e) (e_now e) D with
      | Panic _ => (set_over s1, [OPanic])
      | Ok (a, d) =>
        let sent := OCallSent id (Z.to_N (d_secs d)) (Z.to_N (d_nanos d)) in
        if due e a then (s1, [sent; OCallDone id RDeadline])
        else (set_inflight s1 (id :: inflight s1), [sent])
      end
    end
  | CResp id ok =>
    if mem id (inflight s)
    then (set_inflight s (remove id (inflight s)), [OCallDone id (if ok then RReply else RServerErr)])
    else (s, [])                                    (* "No in-flight request found": ignored *)
  | CWrong true => (s, [OCallDone 0%N RServerErr])
  | _ => (s, [])
  end.

(* ---- stream ---- *)
Definition hstream (k : nat) (parts : list (bytes * bool)) : bytes :=
  match rev parts with
  | (p, true) :: front =>
    let f := frame p in
    flat_map (fun q : bytes * bool => if snd q then frame (fst q) else fst q) (rev front)
    ++ (if Nat.eqb k 0 then f else firstn k f)
  | _ => flat_map (fun q : bytes * bool => if snd q then frame (fst q) else fst q) parts
  end.
Definition count_frames (l : list fout) : nat :=
  length (filter (fun o => match o with FFrame _ => true | _ => false end) l).
Definition has_error (l : list fout) : bool :=
  existsb (fun o => match o with FError | FFuel => true | _ => false end) l.

Definition stream_step (c : hcfg) (s : hst) (o : hop) : hst * list hobs :=
  match o with
  | MFrame p =>
    ({| over := over s; inflight := inflight s; next_id := next_id s; stream := stream s ++ [(p, true)] |}, [])
  | MGarbage b =>
    ({| over := over s; inflight := inflight s; next_id := next_id s; stream := stream s ++ [(b, false)] |}, [])
  | MEof =>
    let outs := read_stream max_frame_default (split_chunks (hchunks c) (hstream (hcut c) (stream s))) in
    (set_over s, [OYield (count_frames outs); if has_error outs then OEndErr else OEndClean])
  | _ => (s, [])
  end.

Definition hstep (c : hcfg) (e : env) (s : hst) (o : hop) : hst * list hobs :=
  if over s then (s, [])
  else match mode c with
       | MServer => server_step c e s o
       | MClient => client_step c e s o
       | MStream => stream_step c s o
       end.

Fixpoint hrun_from (c : hcfg) (e : env) (s : hst) (ops : list hop) : list (list hobs) * hst :=
  match ops with
  | [] => ([], s)
  | o :: r => let '(s1, l) := hstep c e s o in
              let '(ls, s2) := hrun_from c e s1 r in (l :: ls, s2)
  end.
(* the quiet age of the connection: the leading Age ops, in seconds *)
Fixpoint quiet_age (ops : list hop) : Z :=
  match ops with
  | Age secs :: r => Z.of_N secs + quiet_age r
  | _ => 0
  end.
Definition shift_secs (t : timespec) (secs : Z) : timespec :=
  {| t_secs := t_secs t + secs; t_nanos := t_nanos t |}.
(* both clocks have moved; the timer queue (its creation instant, its wheel) has not *)
Definition aged_env (e : env) (secs : Z) : env :=
  {| e_now := shift_secs (e_now e) secs; e_wall := shift_secs (e_wall e) secs;
     e_start := e_start e; e_elapsed := e_elapsed e |}.
Definition hrun (c : hcfg) (e : env) (ops : list hop) : list (list hobs) * hst :=
  hrun_from c (aged_env e (quiet_age ops)) hinit ops.

(* ------------------------------------------------------------------------------------------ *)
(* The monitor for C16, over ops and observations only.
     * no observation is a panic;
     * server: a probe is served, unless the connection was ended by input that does not decode
       (a Duration whose seconds overflow) or the probe's id is that of a handler still running;
     * client: every call whose deadline is an Instant is sent;
     * stream: a stream of frames ends cleanly after yielding every frame; cut inside its last
       frame it yields the whole frames and ends with an ERROR; anything else just ends. *)
Definition has_panic (l : list hobs) : bool :=
  existsb (fun o => match o with OPanic => true | _ => false end) l.
Definition has_obs (x : hobs) (l : list hobs) : bool := existsb (hobs_eqb x) l.

(* ids the monitor believes are still running, from what it saw *)
Definition track (l : list N) (os : list hobs) : list N :=
  fold_left (fun acc o => match o with
                          | OStarted id => id :: acc
                          | OServed id | OAborted id => remove id acc
                          | _ => acc end) os l.

Fixpoint mon_server (c : hcfg) (dead : bool) (run : list N) (ops : list hop) (tr : list (list hobs)) : bool :=
  match ops, tr with
  | [], [] => true
  | o :: ops', l :: tr' =>
    negb (has_panic l) &&
    (let undecodable :=
       match o with
       | SReq _ (Some (secs, nanos)) _ => match wire_duration secs nanos with None => true | Some _ => false end
       | _ => false end in
     let probe_ok :=
       match o with
       | SProbe id => dead || mem id run || has_obs (OServed id) l
       | _ => true end in
     probe_ok && mon_server c (dead || undecodable) (track run l) ops' tr')
  | _, _ => false
  end.

Fixpoint mon_client (e : env) (ops : list hop) (tr : list (list hobs)) : bool :=
  match ops, tr with
  | [], [] => true
  | o :: ops', l :: tr' =>
    negb (has_panic l) &&
    (match o with
     | CCall neg secs nanos =>
       match caller_deadline e neg secs nanos with
       | Some _ => existsb (fun x => match x with OCallSent _ _ _ => true | _ => false end) l
       | None => true
       end
     | _ => true
     end) && mon_client e ops' tr'
  | _, _ => false
  end.

Definition all_frames (ops : list hop) : bool :=
  forallb (fun o => match o with MFrame _ | MEof => true | _ => false end) ops.
Definition frames_before_eof (ops : list hop) : list bytes :=
  (fix go (ops : list hop) : list bytes :=
     match ops with
     | MFrame p :: r => p :: go r
     | _ => []
     end) ops.

Fixpoint mon_stream (c : hcfg) (all : list hop) (ended : bool) (ops : list hop) (tr : list (list hobs)) : bool :=
  match ops, tr with
  | [], [] => true
  | o :: ops', l :: tr' =>
    negb (has_panic l) &&
    (if ended then match l with [] => true | _ => false end     (* nothing after the end of the stream *)
     else match o with
     | MEof =>
       match l with
       | [OYield k; e] =>
         if all_frames all then
           let ps := frames_before_eof all in
           let lastlen := match rev ps with p :: _ => (4 + length p)%nat | [] => O end in
           if negb (Nat.eqb (hcut c) 0) && Nat.ltb (hcut c) lastlen
           then Nat.eqb k (length ps - 1) && hobs_eqb e OEndErr      (* cut inside a frame: an error *)
           else Nat.eqb k (length ps) && hobs_eqb e OEndClean
         else hobs_eqb e OEndErr || hobs_eqb e OEndClean
       | _ => false
       end
     | _ => match l with [] => true | _ => false end
     end) &&
    mon_stream c all (ended || match o with MEof => true | _ => false end) ops' tr'
  | _, _ => false
  end.

Definition c16_ok (c : hcfg) (e : env) (ops : list hop) (tr : list (list hobs)) : bool :=
  match mode c with
  | MServer => mon_server c false [] ops tr
  | MClient => mon_client (aged_env e (quiet_age ops)) ops tr
  | MStream => mon_stream c ops false ops tr
  end.

(* the harness's virtual clock: monotonic clock at 1 000 000 s, wall clock at 1 600 000 000 s,
   the endpoint's timer queue created at the same instant, its wheel not yet advanced *)
Definition std_env : env :=
  {| e_now := {| t_secs := 1000000; t_nanos := 0 |};
     e_wall := {| t_secs := 1600000000; t_nanos := 0 |};
     e_start := {| t_secs := 1000000; t_nanos := 0 |};
     e_elapsed := 0 |}.
