(* Server proofs, group A, part 4: InvH along every run (run_invh), and the C08 / C04 statements. *)
From Coq Require Import List Bool Arith NArith Lia.
Import ListNotations.
From TarpcV Require Import Base Transport TimerWheel Server ServerMon ServerFuel ServerContract
     ServerSim ServerSim2 ServerSim3 ServerSim4 ServerSim5 ServerSim6 ServerSim7 ServerSpec
     ServerProofsPB0 ServerProofsPA0 ServerProofsPA1 ServerProofsPA2 ServerProofsPA3.

Section Assembly.
  Context {T C : Type}.
  Variable tp : transport T response cmsg.
  Variable ctl : T -> C -> T.
  Variable tfuel : T -> nat.
  Hypothesis TF : tfuel_ok tp tfuel.
  Variable c : cfg.
  Notation st := (@sstate T).
  Notation lim := (cfg_limit c).

  Lemma topH_step : forall o (s : st) (p : op C) s' l,
    Top o s -> hb_ok s -> TopH o s -> step tp ctl tfuel c s p = (s', l) -> TopH (ostep lim o p l) s'.
  Proof.
    intros o s p s' l HT Hb HH H. destruct p as [|x|k hs|k|k| |dt].
    - eapply (topH_poll tp ctl tfuel TF c); eauto.
    - eapply topH_ctl; eauto.
    - eapply topH_handler_poll; eauto.
    - eapply topH_drop_handler; eauto.
    - eapply topH_drop_yielded; eauto.
    - eapply topH_drop_channel; eauto.
    - eapply topH_advance; eauto.
  Qed.

  Lemma topH_init : forall (t0 : T), TopH o_init (init (T:=T) c t0).
  Proof.
    intros t0 _ _.
    assert (E : forall A (x : A) (i : nat), nth_error (@nil A) i = Some x -> False) by (intros A x [|i]; discriminate).
    split; [intros k hr Hk; exfalso; eapply E; exact Hk|].
    split; [intros k oi Hk; exfalso; eapply E; exact Hk|].
    split; [reflexivity|split; [reflexivity|]]. intros _.
    constructor; unfold Safe; cbn; intros; try contradiction; try (exfalso; eapply E; eassumption); try constructor.
  Qed.
End Assembly.

(* InvH (as TopH) along every run *)
Theorem run_invh : run_invh_statement.
Proof.
  intros T C tp ctl tfuel TF c ops o s HT Hb HH.
  exact (run_gen tp ctl tfuel TF c TopH (topH_step tp ctl tfuel TF c) ops o s HT Hb HH).
Qed.

Lemma reach_topH : forall (T C : Type) (tp : transport T response cmsg) (ctl : T -> C -> T) (tfuel : T -> nat)
    (c : cfg) (t0 : T) (ops : list (op C)),
  tfuel_ok tp tfuel ->
  TopH (orun (cfg_limit c) o_init ops (fst (run tp ctl tfuel c t0 ops))) (snd (run tp ctl tfuel c t0 ops)).
Proof.
  intros T C tp ctl tfuel c t0 ops TF. unfold run.
  destruct (top_init c t0) as (HT & Hb).
  exact (run_invh T C tp ctl tfuel TF c ops o_init (init c t0) HT Hb (topH_init c t0)).
Qed.

(* ---- C08 ------------------------------------------------------------------------------------------- *)
Theorem s_v08_proved : stmt_s_v08.
Proof.
  intros T C tp ctl tfuel c t0 ops TF Hb Hs. unfold observe in *.
  destruct (reach_topH T C tp ctl tfuel c t0 ops TF Hs Hb) as (_ & _ & V8 & _). exact V8.
Qed.

Theorem s_v04_proved : stmt_s_v04.
Proof.
  intros T C tp ctl tfuel c t0 ops TF Hb Hs. unfold observe in *.
  destruct (reach_topH T C tp ctl tfuel c t0 ops TF Hs Hb) as (_ & _ & _ & V4 & _). exact V4.
Qed.

Theorem s08_proved : stmt_s08.
Proof.
  intros T C tp ctl tfuel c t0 ops TF. unfold c08_ok.
  destruct (server_never_early T C tp ctl tfuel c t0 ops TF) as (Vb & _). cbv zeta in Vb. rewrite Vb. cbn [negb andb].
  pose proof (s_v08_proved T C tp ctl tfuel c t0 ops TF) as V8. cbv beta in V8.
  destruct (h_b1 _) eqn:E1; destruct (h_stop _) eqn:E2; cbn; auto.
Qed.

Theorem s04_proved : stmt_s04.
Proof.
  intros T C tp ctl tfuel c t0 ops TF. unfold c04_ok.
  destruct (server_never_early T C tp ctl tfuel c t0 ops TF) as (Vb & _). cbv zeta in Vb. rewrite Vb. cbn [negb andb].
  pose proof (s_v08_proved T C tp ctl tfuel c t0 ops TF) as V8. cbv beta in V8.
  pose proof (s_v04_proved T C tp ctl tfuel c t0 ops TF) as V4. cbv beta in V4.
  destruct (h_b1 _) eqn:E1; destruct (h_stop _) eqn:E2; cbn; auto. rewrite V4, V8; auto.
Qed.

Print Assumptions run_invh.
Print Assumptions s_v08_proved.
Print Assumptions s08_proved.
Print Assumptions s_v04_proved.
Print Assumptions s04_proved.
