(* Client proofs, group G1: C11, the "fully reclaimed" clause, and the theorem c11_holds.
   Without id wrap-around (no_wrap) every tracked request id belongs to exactly one stage
   (id handed out / queued / in flight), its oneshot is unsettled, and it is covered by a call
   future that still awaits it (or is being dropped) or by a queued cancellation. *)
From Coq Require Import List Bool Arith NArith Lia ZifyNat ZifyN.
Import ListNotations.
From TarpcV Require Import Base Transport Client ClientS ClientMon ClientSpec ClientLemmas
  ClientProofsG1Frames ClientSimBase ClientProofsG1C11.

Arguments N.modulo : simpl never.
Arguments N.add : simpl never.
Arguments N.min : simpl never.
Arguments N.sub : simpl never.

(* ================================================================== counting *)
Definition b2n (b : bool) : nat := if b then 1 else 0.

(* lia on the arithmetic hypotheses only (ZifyBool, loaded by ClientSimBase, makes lia slow when
   the context is full of boolean facts) *)
Ltac keep_arith H :=
  lazymatch type of H with
  | @eq nat _ _ => idtac | @eq N _ _ => idtac
  | le _ _ => idtac | lt _ _ => idtac | ge _ _ => idtac | gt _ _ => idtac
  | N.le _ _ => idtac | N.lt _ _ => idtac
  | _ => fail
  end.
Ltac alia :=
  repeat match goal with
         | H : ?P |- _ =>
           lazymatch type of P with
           | Prop => tryif keep_arith H then fail else clear H
           end
         end; lia.

Section Cnt.
  Context {A : Type}.
  Definition cnt (f : A -> bool) (l : list A) : nat := length (filter f l).
  Lemma cnt_nil f : cnt f [] = 0%nat.
  Proof. reflexivity. Qed.
  Lemma cnt_cons f x l : cnt f (x :: l) = (b2n (f x) + cnt f l)%nat.
  Proof. unfold cnt. cbn [filter]. destruct (f x); reflexivity. Qed.
  Lemma cnt_app f l1 l2 : cnt f (l1 ++ l2) = (cnt f l1 + cnt f l2)%nat.
  Proof. unfold cnt. rewrite filter_app, app_length. reflexivity. Qed.
  Lemma cnt_set_nth f i x y l :
    nth_error l i = Some x -> (cnt f (set_nth i y l) + b2n (f x) = cnt f l + b2n (f y))%nat.
  Proof.
    revert i; induction l as [|z r IH]; intros [|i]; cbn [nth_error set_nth]; try discriminate.
    - intros [= ->]. rewrite !cnt_cons. lia.
    - intro H. rewrite !cnt_cons. specialize (IH i H). lia.
  Qed.
  Lemma cnt_pos_In f l : (1 <= cnt f l)%nat <-> exists x, In x l /\ f x = true.
  Proof.
    induction l as [|z r IH]; [cbn; split; [lia|intros (x & [] & _)]|].
    rewrite cnt_cons. split.
    - intro H. destruct (f z) eqn:E; [exists z; split; [left; reflexivity|exact E]|].
      cbn [b2n] in H. destruct (proj1 IH ltac:(lia)) as (x & Hin & Hx). exists x. split; [right|]; assumption.
    - intros (x & [->|Hin] & Hx); [rewrite Hx; cbn; lia|].
      assert (1 <= cnt f r)%nat by (apply IH; exists x; auto). lia.
  Qed.
  Lemma cnt_zero f l : cnt f l = 0%nat <-> forall x, In x l -> f x = false.
  Proof.
    split.
    - intros H x Hin. destruct (f x) eqn:E; [|reflexivity].
      assert (1 <= cnt f l)%nat by (apply cnt_pos_In; exists x; auto). lia.
    - intro H. destruct (cnt f l) eqn:E; [reflexivity|].
      destruct (proj1 (cnt_pos_In f l) ltac:(lia)) as (x & Hin & Hx). rewrite (H x Hin) in Hx.
      discriminate.
  Qed.
End Cnt.

(* occurrences of a request id in the request queue / the in-flight table / the call table *)
Definition cQ (l : list qitem) (id : N) : nat := cnt (fun q => N.eqb (q_id q) id) l.
Definition cI (l : list (N * ifentry)) (id : N) : nat := cnt (fun p => N.eqb (fst p) id) l.
Definition cP (g : phase -> bool) (l : list call) (id : N) : nat :=
  cnt (fun k => g (c_phase k) && N.eqb (c_id k) id) l.

(* id handed out, request not yet queued *)
Definition gS (p : phase) : bool :=
  match p with PAcquiring | PAssigned | PAcqClosed => true | _ => false end.
(* the caller still holds (or is dropping) the response guard *)
Definition gA (p : phase) : bool := match p with PAwaiting | PClosing => true | _ => false end.
Definition gW (p : phase) : bool := match p with PAwaiting => true | _ => false end.

Lemma cI_aremove id m id' : cI (aremove id m) id' = if N.eqb id' id then 0%nat else cI m id'.
Proof.
  unfold cI. induction m as [|[k v] r IH]; cbn [aremove]; [rewrite cnt_nil; destruct (N.eqb id' id); reflexivity|].
  destruct (N.eqb id k) eqn:E.
  - rewrite IH, cnt_cons. cbn [fst]. apply N.eqb_eq in E. subst k.
    destruct (N.eqb id' id) eqn:E2; [reflexivity|].
    rewrite N.eqb_sym, E2. reflexivity.
  - rewrite !cnt_cons, IH. cbn [fst]. destruct (N.eqb id' id) eqn:E2; [|reflexivity].
    apply N.eqb_eq in E2. subst id'. rewrite N.eqb_sym, E. reflexivity.
Qed.
Lemma cI_aset id v m id' : cI (aset id v m) id' = if N.eqb id' id then 1%nat else cI m id'.
Proof.
  unfold aset. unfold cI at 1. rewrite cnt_cons. cbn [fst]. fold (cI (aremove id m) id').
  rewrite cI_aremove, (N.eqb_sym id id'). destruct (N.eqb id' id); reflexivity.
Qed.
Lemma cI_pos_In m id : (1 <= cI m id)%nat <-> In id (map fst m).
Proof.
  unfold cI. rewrite cnt_pos_In, in_map_iff. split.
  - intros (x & Hin & Hx). apply N.eqb_eq in Hx. exists x. auto.
  - intros (x & Hx & Hin). exists x. split; [exact Hin|apply N.eqb_eq, Hx].
Qed.
Lemma cI_zero_nil m : (forall id, cI m id = 0%nat) -> m = [].
Proof.
  destruct m as [|[k v] r]; [reflexivity|]. intro H. specialize (H k).
  unfold cI in H. rewrite cnt_cons in H. cbn [fst] in H. rewrite N.eqb_refl in H. cbn in H. lia.
Qed.
Lemma cQ_pos_In l id : (1 <= cQ l id)%nat <-> exists q, In q l /\ q_id q = id.
Proof.
  unfold cQ. rewrite cnt_pos_In. split; intros (x & Hin & Hx); exists x; split; auto;
    apply N.eqb_eq; exact Hx.
Qed.

Lemma cP_phase_calls g l i k p id :
  nth_error l i = Some k ->
  (cP g (phase_calls l i p) id + b2n (g (c_phase k) && N.eqb (c_id k) id)
   = cP g l id + b2n (g p && N.eqb (c_id k) id))%nat.
Proof.
  intro H. unfold phase_calls, cP. rewrite H.
  apply (cnt_set_nth (fun k0 => g (c_phase k0) && N.eqb (c_id k0) id) i k (with_phase k p) l H).
Qed.
Lemma cP_phase_calls_none g l i p id : nth_error l i = None -> cP g (phase_calls l i p) id = cP g l id.
Proof. intro H. unfold phase_calls. rewrite H. reflexivity. Qed.
Lemma cP_pos g l id :
  (1 <= cP g l id)%nat <-> exists i k, nth_error l i = Some k /\ g (c_phase k) = true /\ c_id k = id.
Proof.
  unfold cP. rewrite cnt_pos_In. split.
  - intros (k & Hin & Hk). apply andb_true_iff in Hk. destruct Hk as [H1 H2].
    apply N.eqb_eq in H2. apply In_nth_error in Hin. destruct Hin as [i Hi]. exists i, k. auto.
  - intros (i & k & Hi & H1 & H2). exists k. split; [eapply nth_error_In, Hi|].
    rewrite H1, H2, N.eqb_refl. reflexivity.
Qed.
Lemma cP_zero_dead g l id :
  (forall i k, nth_error l i = Some k -> g (c_phase k) = false) -> cP g l id = 0%nat.
Proof.
  intro H. apply cnt_zero. intros k Hin. apply In_nth_error in Hin. destruct Hin as [i Hi].
  rewrite (H i k Hi). reflexivity.
Qed.

Definition slot_done (x : slot) : bool :=
  match sl_val x with Some _ => true | None => sl_tx_gone x end.

(* ================================================================== the invariant *)
Section Live.
  Context {T : Type}.
  Variable tp : transport T cmsg resp.
  Notation cstate := (@cstate T).
  Implicit Types s : cstate.

  Definition CS s id := cP gS (calls s) id.
  Definition CA s id := cP gA (calls s) id.
  Definition CW s id := cP gW (calls s) id.
  Definition CQ s id := cQ (queue s) id.
  Definition CI s id := cI (inflight s) id.
  Definition TT s id : nat := (CS s id + CQ s id + CI s id)%nat.

  Record Live s : Prop := {
    l_dropped : dropped s = false;
    l_w : winv s;
    l_uniq : forall id, (TT s id <= 1)%nat;
    l_fresh : forall id, (next_id s <= id)%N -> TT s id = 0%nat;
    l_ndone : forall id, (1 <= TT s id)%nat -> slot_done (get_slot s id) = false;
    l_cov : forall id, (1 <= CI s id)%nat -> In id (cancels s) \/ (1 <= CA s id)%nat;
    l_qcov : forall id, (1 <= CQ s id)%nat ->
                        sl_rx_closed (get_slot s id) = true \/ (1 <= CW s id)%nat }.

  Lemma Live_eq s s' :
    calls s' = calls s -> queue s' = queue s -> inflight s' = inflight s -> slots s' = slots s ->
    cancels s' = cancels s -> waiters s' = waiters s -> next_id s' = next_id s ->
    dropped s' = dropped s -> Live s -> Live s'.
  Proof.
    intros E1 E2 E3 E4 E5 E6 E7 E8 [A B C D E F G].
    constructor; unfold TT, CS, CA, CW, CQ, CI, get_slot in *;
      rewrite ?E1, ?E2, ?E3, ?E4, ?E5, ?E6, ?E7, ?E8; try assumption.
    eapply winv_frame; eassumption.
  Qed.
  Lemma Live_X s s' : XFrame s s' -> Live s -> Live s'.
  Proof.
    intro F. apply Live_eq; try apply F; apply (xf_p _ _ F).
  Qed.
End Live.

(* ================================================================== the dispatch side *)
Lemma map_set_nth_same {A B} (f : A -> B) i x y (l : list A) :
  nth_error l i = Some x -> f y = f x -> map f (set_nth i y l) = map f l.
Proof.
  revert i; induction l as [|z r IH]; intros [|i]; cbn [nth_error set_nth map]; try discriminate.
  - intros [= ->] E. rewrite E. reflexivity.
  - intros H E. rewrite (IH i H E). reflexivity.
Qed.

Lemma Some_inj {A} (x y : A) : Some x = Some y -> x = y.
Proof. congruence. Qed.

Definition pclass (p : phase) := (ph_polled p, ph_aband p, ph_closing p, ph_done p).
Arguments pclass : simpl never.

Lemma cP_gW_le_gA l id : (cP gW l id <= cP gA l id)%nat.
Proof.
  unfold cP. induction l as [|k r IH]; [cbn; lia|]. rewrite !cnt_cons.
  destruct (c_phase k); cbn [gW gA andb b2n]; destruct (N.eqb (c_id k) id); cbn [b2n]; lia.
Qed.

Section Dispatch.
  Context {T : Type}.
  Variable tp : transport T cmsg resp.
  Notation cstate := (@cstate T).
  Implicit Types s : cstate.

  Definition cls s := map (fun k => pclass (c_phase k)) (calls s).

  Lemma cls_phase_calls l i k p :
    nth_error l i = Some k -> pclass p = pclass (c_phase k) ->
    map (fun k => pclass (c_phase k)) (phase_calls l i p) = map (fun k => pclass (c_phase k)) l.
  Proof.
    intros H E. unfold phase_calls. rewrite H.
    apply (map_set_nth_same (fun k0 => pclass (c_phase k0)) i k (with_phase k p) l H). exact E.
  Qed.

  Lemma release_permit_shape s :
    winv s ->
    (waiters s = [] /\ calls (release_permit s) = calls s /\ waiters (release_permit s) = []) \/
    (exists w ws k, waiters s = w :: ws /\ nth_error (calls s) w = Some k /\
       c_phase k = PAcquiring /\ calls (release_permit s) = phase_calls (calls s) w PAssigned /\
       waiters (release_permit s) = ws).
  Proof.
    intros [A N]. unfold release_permit. destruct (waiters s) as [|w ws] eqn:E.
    - left. repeat split.
    - right. destruct (A w (or_introl eq_refl)) as (k & Hk & Hp). exists w, ws, k.
      rewrite set_phase_alt. repeat split; assumption.
  Qed.

  Lemma release_permit_other s :
    queue (release_permit s) = queue s /\ inflight (release_permit s) = inflight s /\
    slots (release_permit s) = slots s /\ cancels (release_permit s) = cancels s /\
    next_id (release_permit s) = next_id s /\ dropped (release_permit s) = dropped s /\
    handles (release_permit s) = handles s.
  Proof.
    unfold release_permit. destruct (waiters s); [repeat split|].
    rewrite set_phase_alt. repeat split.
  Qed.

  Lemma cP_release_permit g s id :
    winv s -> g PAcquiring = g PAssigned ->
    cP g (calls (release_permit s)) id = cP g (calls s) id.
  Proof.
    intros W E. destruct (release_permit_shape s W) as [(_ & -> & _)|(w & ws & k & _ & Hk & Hp & -> & _)];
      [reflexivity|].
    pose proof (cP_phase_calls g _ _ _ PAssigned id Hk) as H. rewrite Hp, E in H. lia.
  Qed.

  Lemma cls_release_permit s : winv s -> cls (release_permit s) = cls s.
  Proof.
    intro W. unfold cls.
    destruct (release_permit_shape s W) as [(_ & -> & _)|(w & ws & k & _ & Hk & Hp & -> & _)];
      [reflexivity|].
    apply (cls_phase_calls _ _ _ _ Hk). rewrite Hp. reflexivity.
  Qed.

  Lemma winv_release_permit s : winv s -> winv (release_permit s).
  Proof.
    intro W. destruct (release_permit_shape s W) as [(_ & Ec & Ew)|(w & ws & k & E & Hk & Hp & Ec & Ew)].
    - constructor; rewrite Ew; [intros ? []|constructor].
    - destruct W as [A N]. rewrite E in A, N. apply NoDup_cons_iff in N. destruct N as [Hni Hnd].
      constructor; rewrite Ew; [|exact Hnd].
      intros w' Hw'. destruct (A w' (or_intror Hw')) as (c & Hc & Hpc). exists c. split; [|exact Hpc].
      rewrite Ec, nth_error_phase_calls. destruct (Nat.eqb w w') eqn:E2; [|exact Hc].
      apply Nat.eqb_eq in E2. subst. contradiction.
  Qed.

  (* a queued request in transit: popped from the queue, not yet skipped or tracked *)
  Record LiveT (q : qitem) s : Prop := {
    lt_live : Live s;
    lt_zero : TT s (q_id q) = 0%nat;
    lt_fresh : (q_id q < next_id s)%N;
    lt_ndone : slot_done (get_slot s (q_id q)) = false;
    lt_cov : sl_rx_closed (get_slot s (q_id q)) = true \/ (1 <= CW s (q_id q))%nat }.

  Lemma Live_pop s q r :
    Live s -> queue s = q :: r ->
    LiveT q (release_permit (upd_q s (permits s) r (waiters s) (rx_closed s))) /\
    cls (release_permit (upd_q s (permits s) r (waiters s) (rx_closed s))) = cls s.
  Proof.
    intros L Eq. set (s0 := upd_q s (permits s) r (waiters s) (rx_closed s)).
    assert (W0 : winv s0) by (eapply winv_frame; [apply L|reflexivity|reflexivity]).
    pose proof (release_permit_other s0) as (R1 & R2 & R3 & R4 & R5 & R6 & R7).
    set (s1 := release_permit s0) in *.
    assert (ES : forall id, CS s1 id = CS s id) by (intro; apply (cP_release_permit gS s0 id W0); reflexivity).
    assert (EA : forall id, CA s1 id = CA s id) by (intro; apply (cP_release_permit gA s0 id W0); reflexivity).
    assert (EW : forall id, CW s1 id = CW s id) by (intro; apply (cP_release_permit gW s0 id W0); reflexivity).
    assert (EQ : forall id, CQ s id = (b2n (N.eqb (q_id q) id) + CQ s1 id)%nat).
    { intro id. unfold CQ. rewrite R1, Eq. unfold cQ. rewrite cnt_cons. reflexivity. }
    assert (EI : forall id, CI s1 id = CI s id) by (intro; unfold CI; rewrite R2; reflexivity).
    assert (EG : forall id, get_slot s1 id = get_slot s id) by (intro; unfold get_slot; rewrite R3; reflexivity).
    assert (ET : forall id, TT s id = (b2n (N.eqb (q_id q) id) + TT s1 id)%nat).
    { intro id. unfold TT. rewrite ES, EI, (EQ id). lia. }
    destruct L as [LD LW LU LF LN LC LQ].
    assert (L1 : Live s1).
    { constructor.
      - rewrite R6. exact LD.
      - apply winv_release_permit, W0.
      - intro id. specialize (LU id). rewrite ET in LU. lia.
      - intros id H. rewrite R5 in H. specialize (LF id H). rewrite ET in LF. lia.
      - intros id H. rewrite EG. apply LN. rewrite ET. lia.
      - intros id H. rewrite R4, EA. apply LC. rewrite <- EI. exact H.
      - intros id H. rewrite EG, EW. apply LQ. rewrite EQ. lia. }
    split; [|apply (cls_release_permit s0 W0)].
    assert (P : (1 <= CQ s (q_id q))%nat) by (rewrite EQ, N.eqb_refl; cbn; lia).
    constructor.
    - exact L1.
    - specialize (LU (q_id q)). rewrite ET, N.eqb_refl in LU. cbn in LU. lia.
    - rewrite R5. destruct (N.lt_ge_cases (q_id q) (next_id s)) as [H|H]; [exact H|].
      specialize (LF _ H). unfold TT in LF. lia.
    - rewrite EG. apply LN. unfold TT. lia.
    - rewrite EG, EW. apply LQ, P.
  Qed.

  (* settling (or resetting) the oneshot of an id that is in no stage *)
  Lemma Live_set_slot_untracked s id x : Live s -> TT s id = 0%nat -> Live (set_slot s id x).
  Proof.
    intros [LD LW LU LF LN LC LQ] Z.
    constructor; try assumption.
    - eapply winv_frame; [exact LW|reflexivity|reflexivity].
    - intros id' H. rewrite get_set_slot. destruct (N.eqb id' id) eqn:E.
      + apply N.eqb_eq in E. subst id'. change (TT (set_slot s id x) id) with (TT s id) in H. lia.
      + apply LN, H.
    - intros id' H. rewrite get_set_slot. destruct (N.eqb id' id) eqn:E.
      + apply N.eqb_eq in E. subst id'. change (CQ (set_slot s id x) id) with (CQ s id) in H.
        unfold TT in Z. lia.
      + apply LQ, H.
  Qed.

  Lemma Live_skip s q : LiveT q s -> Live (slot_tx_drop s (q_id q)).
  Proof. intros [L Z _ _ _]. apply Live_set_slot_untracked; assumption. Qed.

  Lemma Live_insert s q :
    LiveT q s -> sl_rx_closed (get_slot s (q_id q)) = false -> Live (insert_request s q).
  Proof.
    intros [[LD LW LU LF LN LC LQ] Z Fr Nd Cv] Rx. unfold insert_request.
    set (s1 := upd_if s _ _).
    assert (EI : forall id, CI s1 id = if N.eqb id (q_id q) then 1%nat else CI s id).
    { intro id. unfold CI, s1. cbn [inflight upd_if]. apply cI_aset. }
    assert (ET : forall id, TT s1 id = if N.eqb id (q_id q) then 1%nat else TT s id).
    { intro id. unfold TT. rewrite EI. change (CS s1 id) with (CS s id). change (CQ s1 id) with (CQ s id).
      destruct (N.eqb id (q_id q)) eqn:E; [|reflexivity]. apply N.eqb_eq in E. subst id.
      unfold TT in Z. lia. }
    constructor; try assumption.
    - eapply winv_frame; [exact LW|reflexivity|reflexivity].
    - intro id. rewrite ET. destruct (N.eqb id (q_id q)); [lia|apply LU].
    - intros id H. rewrite ET. destruct (N.eqb id (q_id q)) eqn:E; [|apply LF, H].
      apply N.eqb_eq in E. subst id. change (next_id s1) with (next_id s) in H. lia.
    - intros id H. change (get_slot s1 id) with (get_slot s id). rewrite ET in H.
      destruct (N.eqb id (q_id q)) eqn:E; [|apply LN, H]. apply N.eqb_eq in E. subst id. exact Nd.
    - intros id H. change (cancels s1) with (cancels s). change (CA s1 id) with (CA s id).
      rewrite EI in H. destruct (N.eqb id (q_id q)) eqn:E; [|apply LC, H].
      apply N.eqb_eq in E. subst id. right. destruct Cv as [Cv|Cv]; [congruence|].
      pose proof (cP_gW_le_gA (calls s) (q_id q)). unfold CW, CA in *. lia.
  Qed.

  (* an id leaves the in-flight table (any timer table) *)
  Lemma Live_remove s id t : Live s -> Live (upd_if s (aremove id (inflight s)) t).
  Proof.
    intros [LD LW LU LF LN LC LQ]. set (s1 := upd_if s _ _).
    assert (EI : forall id', CI s1 id' = if N.eqb id' id then 0%nat else CI s id').
    { intro id'. unfold CI, s1. cbn [inflight upd_if]. apply cI_aremove. }
    assert (ET : forall id', (TT s1 id' <= TT s id')%nat).
    { intro id'. unfold TT. rewrite EI. change (CS s1 id') with (CS s id').
      change (CQ s1 id') with (CQ s id'). destruct (N.eqb id' id); lia. }
    constructor; try assumption.
    - eapply winv_frame; [exact LW|reflexivity|reflexivity].
    - intro id'. specialize (LU id'). specialize (ET id'). lia.
    - intros id' H. specialize (LF id' H). specialize (ET id'). lia.
    - intros id' H. apply LN. specialize (ET id'). lia.
    - intros id' H. apply LC. rewrite EI in H. destruct (N.eqb id' id); [lia|exact H].
  Qed.
  Lemma TT_remove_zero s id t :
    Live s -> (1 <= CI s id)%nat -> TT (upd_if s (aremove id (inflight s)) t) id = 0%nat.
  Proof.
    intros L H. pose proof (l_uniq _ L id) as U. unfold TT in *.
    change (CS (upd_if s (aremove id (inflight s)) t) id) with (CS s id).
    change (CQ (upd_if s (aremove id (inflight s)) t) id) with (CQ s id).
    unfold CI at 1. cbn [inflight upd_if]. rewrite cI_aremove, N.eqb_refl. lia.
  Qed.

  Lemma Live_slot_send_untracked s id o : Live s -> TT s id = 0%nat -> Live (slot_send s id o).
  Proof. intros L Z. rewrite slot_send_alt. apply Live_set_slot_untracked; assumption. Qed.

  Lemma alookup_some_CI s id e : alookup id (inflight s) = Some e -> (1 <= CI s id)%nat.
  Proof. intro H. apply cI_pos_In. apply alookup_in in H. apply (in_map fst) in H. exact H. Qed.
  Lemma alookup_none_CI s id : alookup id (inflight s) = None -> CI s id = 0%nat.
  Proof.
    intro H. apply alookup_none_notin in H. destruct (CI s id) eqn:E; [reflexivity|].
    exfalso. apply H, cI_pos_In. unfold CI in E. lia.
  Qed.

  Lemma Live_complete_request s id o : Live s -> Live (snd (complete_request s id o)).
  Proof.
    intro L. unfold complete_request. destruct (alookup id (inflight s)) eqn:E; cbn [snd]; [|exact L].
    apply Live_slot_send_untracked; [apply Live_remove, L|].
    apply TT_remove_zero; [exact L|eapply alookup_some_CI, E].
  Qed.
  Lemma calls_complete_request s id o : calls (snd (complete_request s id o)) = calls s.
  Proof. apply (tf_calls _ _ (TFrame_complete_request s id o)). Qed.

  Lemma Live_poll_expired s : Live s -> Live (snd (poll_expired s)).
  Proof.
    intro L. unfold poll_expired. destruct (min_timer (timers s) None) as [[id w]|]; [|exact L].
    destruct (N.leb w (now s)); [|exact L]. cbn [inflight timers upd_if].
    destruct (alookup id (inflight s)) eqn:E; cbn [snd].
    - apply Live_slot_send_untracked.
      + apply (Live_remove (upd_if s (inflight s) (aremove id (timers s))) id).
        eapply Live_eq; [..|exact L]; reflexivity.
      + apply (TT_remove_zero (upd_if s (inflight s) (aremove id (timers s))) id).
        * eapply Live_eq; [..|exact L]; reflexivity.
        * eapply alookup_some_CI, E.
    - eapply Live_eq; [..|exact L]; reflexivity.
  Qed.

  Lemma Live_cancel_pop s id r :
    Live s -> cancels s = id :: r -> Live (snd (cancel_request (upd_cancels s r) id)).
  Proof.
    intros L Ec. unfold cancel_request. cbn [inflight timers upd_cancels].
    destruct (alookup id (inflight s)) eqn:E; cbn [snd].
    - pose proof (Live_remove s id (aremove id (timers s)) L) as [LD LW LU LF LN LC LQ].
      constructor; try assumption.
      { eapply winv_frame; [exact LW|reflexivity|reflexivity]. }
      intros id' H. cbn [cancels upd_if upd_cancels].
      assert (Hne : id' <> id).
      { intro; subst id'. unfold CI in H. cbn [inflight upd_if upd_cancels] in H.
        rewrite cI_aremove, N.eqb_refl in H. lia. }
      destruct (LC id' H) as [X|X]; [|right; exact X].
      cbn [cancels upd_if] in X. rewrite Ec in X. destruct X as [X|X]; [congruence|left; exact X].
    - destruct L as [LD LW LU LF LN LC LQ]. constructor; try assumption.
      { eapply winv_frame; [exact LW|reflexivity|reflexivity]. }
      intros id' H. cbn [cancels upd_cancels].
      assert (Hne : id' <> id).
      { intro; subst id'. pose proof (alookup_none_CI s id E) as Z.
        change (CI (upd_cancels s r) id) with (CI s id) in H. lia. }
      destruct (LC id' H) as [X|X]; [|right; exact X].
      rewrite Ec in X. destruct X as [X|X]; [congruence|left; exact X].
  Qed.

  (* ---------------------------------------------------------------- composites *)
  Lemma cls_eq s s' : calls s' = calls s -> cls s' = cls s.
  Proof. intro E. unfold cls. rewrite E. reflexivity. Qed.

  Definition LC s s' : Prop := Live s' /\ cls s' = cls s.
  Lemma LC_X s s' : XFrame s s' -> Live s -> LC s s'.
  Proof. intros F L. split; [eapply Live_X; eassumption|apply cls_eq, F]. Qed.
  Lemma LC_trans s1 s2 s3 : LC s1 s2 -> (Live s2 -> LC s2 s3) -> LC s1 s3.
  Proof. intros [L1 E1] H. destruct (H L1) as [L2 E2]. split; [exact L2|congruence]. Qed.

  Lemma Live_next_request_loop f : forall s r s',
    Live s -> next_request_loop f s = (r, s') ->
    cls s' = cls s /\
    match r with
    | PSome q => LiveT q s' /\ sl_rx_closed (get_slot s' (q_id q)) = false
    | _ => Live s'
    end.
  Proof.
    induction f as [|f IH]; intros s r s' L; cbn [next_request_loop];
      [intros [= <- <-]; split; [reflexivity|exact L]|].
    unfold q_poll_recv. destruct (queue s) as [|q rest] eqn:Eq.
    - destruct (Nat.eqb _ _); [intros [= <- <-]; split; [reflexivity|exact L]|].
      destruct (_ && _); intros [= <- <-]; (split; [reflexivity|exact L]).
    - destruct (Live_pop s q rest L Eq) as [LT Ec].
      set (s1 := release_permit _) in *.
      destruct (sl_rx_closed (get_slot s1 (q_id q))) eqn:Rx.
      + intro H. apply IH in H; [|apply Live_skip, LT]. destruct H as [E2 H]. split; [|exact H].
        rewrite E2. rewrite <- Ec. apply cls_eq. reflexivity.
      + intros [= <- <-]. split; [exact Ec|]. split; assumption.
  Qed.

  Lemma Live_next_cancel_loop f : forall s r s',
    Live s -> next_cancel_loop f s = (r, s') -> LC s s'.
  Proof.
    induction f as [|f IH]; intros s r s' L; cbn [next_cancel_loop];
      [intros [= <- <-]; split; [exact L|reflexivity]|].
    unfold c_poll_recv. destruct (cancels s) as [|id rest] eqn:Ec.
    - destruct (Nat.eqb _ _); intros [= <- <-]; (split; [exact L|reflexivity]).
    - pose proof (Live_cancel_pop s id rest L Ec) as L2.
      pose proof (tf_calls _ _ (TFrame_cancel_request (upd_cancels s rest) id)) as E2.
      destruct (cancel_request (upd_cancels s rest) id) as [[e|] s2]; cbn [snd] in *.
      + intros [= <- <-]. split; [exact L2|apply cls_eq, E2].
      + intro H. apply IH in H; [|exact L2]. destruct H as [L3 E3]. split; [exact L3|].
        rewrite E3. apply cls_eq, E2.
  Qed.

  Lemma Live_poll_write_request s r s' : Live s -> poll_write_request tp s = (r, s') -> LC s s'.
  Proof.
    intros L H. apply poll_write_request_inv in H.
    destruct H as [_|r s1 _ H1 Hr|r s1 s2 _ H1 H2 Hr|s1 q s2 w s3 _ H1 H2 H3].
    - split; [exact L|reflexivity].
    - apply LC_X; [eapply XFrame_ensure_writeable, H1|exact L].
    - eapply LC_trans; [apply LC_X; [eapply XFrame_ensure_writeable, H1|exact L]|].
      intro L1. destruct (Live_next_request_loop _ _ _ _ L1 H2) as [E2 L2].
      split; [|exact E2]. destruct r; try exact L2. discriminate.
    - eapply LC_trans; [apply LC_X; [eapply XFrame_ensure_writeable, H1|exact L]|].
      intro L1. destruct (Live_next_request_loop _ _ _ _ L1 H2) as [E2 [LT Rx]].
      pose proof (Live_insert s2 q LT Rx) as L3.
      pose proof (XFrame_do_send _ _ _ _ _ H3) as F3.
      assert (L4 : Live s3) by (eapply Live_X; eassumption).
      assert (E4 : cls s3 = cls s1).
      { rewrite <- E2. apply cls_eq. rewrite (xf_calls _ _ F3). reflexivity. }
      destruct w; [split; assumption|].
      split; [apply Live_complete_request, L4|].
      rewrite <- E4. apply cls_eq, calls_complete_request.
  Qed.

  Lemma Live_poll_write_cancel s r s' : Live s -> poll_write_cancel tp s = (r, s') -> LC s s'.
  Proof.
    intros L H. apply poll_write_cancel_inv in H.
    destruct H as [r s1 H1 Hr|r s1 s2 H1 H2 Hr|s1 id e s2 w s3 H1 H2 H3].
    - apply LC_X; [eapply XFrame_ensure_writeable, H1|exact L].
    - eapply LC_trans; [apply LC_X; [eapply XFrame_ensure_writeable, H1|exact L]|].
      intro L1. eapply Live_next_cancel_loop; eassumption.
    - eapply LC_trans; [apply LC_X; [eapply XFrame_ensure_writeable, H1|exact L]|].
      intro L1. eapply LC_trans; [eapply Live_next_cancel_loop; eassumption|].
      intro L2. apply LC_X; [eapply XFrame_do_send, H3|exact L2].
  Qed.

  Lemma LC_poll_expired s e s' : Live s -> poll_expired s = (e, s') -> LC s s'.
  Proof.
    intros L H. pose proof (Live_poll_expired s L) as L1.
    pose proof (tf_calls _ _ (TFrame_poll_expired s)) as E1. rewrite H in L1, E1.
    split; [exact L1|apply cls_eq, E1].
  Qed.

  Lemma Live_pump_write s r s' : Live s -> pump_write tp s = (r, s') -> LC s s'.
  Proof.
    intros L H. apply pump_write_inv in H.
    destruct H as [a s1 H1|u s1 H1|r1 s1 a s2 H1 I1 H2|r1 s1 u s2 H1 I1 H2
                  |r1 s1 r2 s2 id s3 H1 I1 H2 I2 H3|s1 s2 s3 x s4 H1 H2 H3 H4
                  |r1 s1 r2 s2 s3 x s4 H1 I1 H2 I2 I12 H3 H4].
    - eapply Live_poll_write_request; eassumption.
    - eapply Live_poll_write_request; eassumption.
    - eapply LC_trans; [eapply Live_poll_write_request; eassumption|].
      intro L1. eapply Live_poll_write_cancel; eassumption.
    - eapply LC_trans; [eapply Live_poll_write_request; eassumption|].
      intro L1. eapply Live_poll_write_cancel; eassumption.
    - eapply LC_trans; [eapply Live_poll_write_request; eassumption|].
      intro L1. eapply LC_trans; [eapply Live_poll_write_cancel; eassumption|].
      intro L2. eapply LC_poll_expired; eassumption.
    - eapply LC_trans; [eapply Live_poll_write_request; eassumption|].
      intro L1. eapply LC_trans; [eapply Live_poll_write_cancel; eassumption|].
      intro L2. eapply LC_trans; [eapply LC_poll_expired; eassumption|].
      intro L3. apply LC_X; [eapply XFrame_do_close, H4|exact L3].
    - eapply LC_trans; [eapply Live_poll_write_request; eassumption|].
      intro L1. eapply LC_trans; [eapply Live_poll_write_cancel; eassumption|].
      intro L2. eapply LC_trans; [eapply LC_poll_expired; eassumption|].
      intro L3. apply LC_X; [eapply XFrame_do_flush, H4|exact L3].
  Qed.

  Lemma Live_pump_read s r s' : Live s -> pump_read tp s = (r, s') -> LC s s'.
  Proof.
    intros L H. apply pump_read_inv in H. destruct H as (x & s1 & H1 & -> & ->).
    pose proof (LC_X _ _ (XFrame_do_next _ _ _ _ H1) L) as L1.
    destruct x; try exact L1.
    eapply LC_trans; [exact L1|]. intro L2. split; [apply Live_complete_request, L2|].
    apply cls_eq, calls_complete_request.
  Qed.

  Lemma Live_run_loop f : forall s r s', Live s -> run_loop tp f s = (r, s') -> LC s s'.
  Proof.
    induction f as [|f IH]; intros s r s' L H;
      [cbn in H; injection H as _ <-; split; [exact L|reflexivity]|].
    apply run_loop_inv in H.
    destruct H as [a s1 H1|rd s1 a s2 H1 N1 H2|s1 wr s2 H1 H2 N2|rd s1 s2 H1 D1 H2 L2
                  |s1 wr s2 H1 H2 D2|rd s1 wr s2 r s3 H1 H2 D H3].
    - eapply Live_pump_read; eassumption.
    - eapply LC_trans; [eapply Live_pump_read; eassumption|]. intro. eapply Live_pump_write; eassumption.
    - eapply LC_trans; [eapply Live_pump_read; eassumption|]. intro. eapply Live_pump_write; eassumption.
    - eapply LC_trans; [eapply Live_pump_read; eassumption|]. intro. eapply Live_pump_write; eassumption.
    - eapply LC_trans; [eapply Live_pump_read; eassumption|]. intro. eapply Live_pump_write; eassumption.
    - eapply LC_trans; [eapply Live_pump_read; eassumption|]. intro.
      eapply LC_trans; [eapply Live_pump_write; eassumption|]. intro. eapply IH; eassumption.
  Qed.
End Dispatch.

(* ================================================================== a clean idle poll drains
   the cancellation queue *)
Definition cleanc (c : tcall cmsg resp) : bool :=
  match c with
  | CReady TOk | CFlush TOk | CClose TOk | CSend _ SOk => true
  | CNext (RItem _) | CNext RPending => true
  | _ => false
  end.
Lemma clean_log_cleanc l : clean_log l = true -> forallb cleanc l = true.
Proof. unfold clean_log. intro H. apply andb_true_iff in H. apply H. Qed.

Section Drain.
  Context {T : Type}.
  Variable tp : transport T cmsg resp.
  Notation cstate := (@cstate T).
  Implicit Types s : cstate.

  Definition Pre s s' : Prop := exists seg, plog s' = plog s ++ seg.
  Lemma Pre_refl s : Pre s s.
  Proof. exists []. rewrite app_nil_r. reflexivity. Qed.
  Lemma Pre_trans s1 s2 s3 : Pre s1 s2 -> Pre s2 s3 -> Pre s1 s3.
  Proof. intros [a Ha] [b Hb]. exists (a ++ b). rewrite Hb, Ha, app_assoc. reflexivity. Qed.
  Lemma Pre_eq s s' : plog s' = plog s -> Pre s s'.
  Proof. intro E. exists []. rewrite app_nil_r. exact E. Qed.
  Lemma Pre_clean s s' :
    Pre s s' -> forallb cleanc (plog s') = true -> forallb cleanc (plog s) = true.
  Proof. intros [a Ha] H. rewrite Ha, forallb_app in H. apply andb_true_iff in H. apply H. Qed.

  Lemma Pre_do_ready s r s' : do_ready tp s = (r, s') -> Pre s s'.
  Proof. intro H. apply do_ready_eq in H. rewrite H. eexists. reflexivity. Qed.
  Lemma Pre_do_flush s r s' : do_flush tp s = (r, s') -> Pre s s'.
  Proof. intro H. apply do_flush_eq in H. rewrite H. eexists. reflexivity. Qed.
  Lemma Pre_do_close s r s' : do_close tp s = (r, s') -> Pre s s'.
  Proof. intro H. apply do_close_eq in H. rewrite H. eexists. reflexivity. Qed.

  Lemma clean_last s s' x :
    plog s' = plog s ++ [x] -> forallb cleanc (plog s') = true -> cleanc x = true.
  Proof.
    intros E H. rewrite E, forallb_app in H. apply andb_true_iff in H. destruct H as [_ H].
    cbn in H. apply andb_true_iff in H. apply H.
  Qed.

  Lemma plog_do_ready s r s' : do_ready tp s = (r, s') -> plog s' = plog s ++ [CReady r].
  Proof. intro H. apply do_ready_eq in H. rewrite H. reflexivity. Qed.

  Lemma ew_clean s r s' :
    ensure_writeable tp s = (r, s') -> forallb cleanc (plog s') = true -> r = PSome tt.
  Proof.
    intros H C. apply ensure_writeable_inv in H.
    destruct H as [r s1 H1 Hr|s1 s2 H1 H2|s1 s2 H1 H2|s1 s2 r s3 H1 H2 H3].
    - pose proof (clean_last _ _ _ (plog_do_ready _ _ _ H1) C) as X.
      destruct r; try discriminate. reflexivity.
    - exfalso. pose proof (Pre_clean _ _ (Pre_do_flush _ _ _ H2) C) as C1.
      pose proof (clean_last _ _ _ (plog_do_ready _ _ _ H1) C1) as X. discriminate.
    - exfalso. pose proof (Pre_clean _ _ (Pre_do_flush _ _ _ H2) C) as C1.
      pose proof (clean_last _ _ _ (plog_do_ready _ _ _ H1) C1) as X. discriminate.
    - exfalso. pose proof (Pre_clean _ _ (Pre_do_ready _ _ _ H3) C) as C2.
      pose proof (Pre_clean _ _ (Pre_do_flush _ _ _ H2) C2) as C1.
      pose proof (clean_last _ _ _ (plog_do_ready _ _ _ H1) C1) as X. discriminate.
  Qed.

  Lemma ncl_drained f : forall s r s',
    (length (cancels s) < f)%nat -> next_cancel_loop f s = (r, s') -> is_psome r = false ->
    cancels s' = [].
  Proof.
    induction f as [|f IH]; intros s r s' L; [lia|]. cbn [next_cancel_loop].
    unfold c_poll_recv. destruct (cancels s) as [|id rest] eqn:Ec.
    - destruct (Nat.eqb _ _); intros [= <- <-] _; exact Ec.
    - pose proof (tf_cancels _ _ (TFrame_cancel_request (upd_cancels s rest) id)) as E2.
      destruct (cancel_request (upd_cancels s rest) id) as [[e|] s2]; cbn [snd] in E2.
      + intros [= <- <-]. discriminate.
      + apply IH. rewrite E2. cbn [cancels upd_cancels]. cbn in L. lia.
  Qed.

  Lemma pwc_drained s r s' :
    poll_write_cancel tp s = (r, s') -> forallb cleanc (plog s') = true -> idle r ->
    cancels s' = [].
  Proof.
    intros H C I. apply poll_write_cancel_inv in H.
    destruct H as [r s1 H1 Hr|r s1 s2 H1 H2 Hr|s1 id e s2 w s3 H1 H2 H3].
    - apply ew_clean in H1; [|exact C]. subst r. discriminate.
    - eapply ncl_drained; [|exact H2|exact Hr]. lia.
    - exfalso. destruct w; destruct I; discriminate.
  Qed.

  Lemma pw_drained s r s' :
    pump_write tp s = (r, s') -> forallb cleanc (plog s') = true -> idle r -> cancels s' = [].
  Proof.
    intros H C I. apply pump_write_inv in H.
    destruct H as [a s1 H1|u s1 H1|r1 s1 a s2 H1 I1 H2|r1 s1 u s2 H1 I1 H2
                  |r1 s1 r2 s2 id s3 H1 I1 H2 I2 H3|s1 s2 s3 x s4 H1 H2 H3 H4
                  |r1 s1 r2 s2 s3 x s4 H1 I1 H2 I2 I12 H3 H4];
      try (exfalso; destruct I; discriminate).
    - pose proof (TFrame_poll_expired s2) as F3. rewrite H3 in F3. cbn [snd] in F3.
      pose proof (XFrame_do_close _ _ _ _ H4) as F4.
      rewrite (xf_cancels _ _ F4), (tf_cancels _ _ F3).
      eapply pwc_drained; [exact H2| |left; reflexivity].
      eapply Pre_clean; [|exact C].
      eapply Pre_trans; [apply Pre_eq, (if_plog _ _ (tf_i _ _ F3))|eapply Pre_do_close, H4].
    - pose proof (TFrame_poll_expired s2) as F3. rewrite H3 in F3. cbn [snd] in F3.
      pose proof (XFrame_do_flush _ _ _ _ H4) as F4.
      rewrite (xf_cancels _ _ F4), (tf_cancels _ _ F3).
      eapply pwc_drained; [exact H2| |exact I2].
      eapply Pre_clean; [|exact C].
      eapply Pre_trans; [apply Pre_eq, (if_plog _ _ (tf_i _ _ F3))|eapply Pre_do_flush, H4].
  Qed.

  Lemma rl_drained f : forall s s',
    run_loop tp f s = (RunPending, s') -> forallb cleanc (plog s') = true -> cancels s' = [].
  Proof.
    induction f as [|f IH]; intros s s' H C; [cbn in H; discriminate|].
    apply run_loop_inv in H. remember RunPending as rr eqn:Er.
    destruct H as [a s1 H1|rd s1 a s2 H1 N1 H2|s1 wr s2 H1 H2 N2|rd s1 s2 H1 D1 H2 L2
                  |s1 wr s2 H1 H2 D2|rd s1 wr s2 r s3 H1 H2 D H3]; try discriminate.
    - eapply pw_drained; [exact H2|exact C|]. destruct D2 as [-> |[-> _]]; [right|left]; reflexivity.
    - subst r. eapply IH; eassumption.
  Qed.
End Drain.

(* ================================================================== the user side *)
Section User.
  Context {T : Type}.
  Variable tp : transport T cmsg resp.
  Notation cstate := (@cstate T).
  Implicit Types s : cstate.

  (* call i changes phase; its oneshot may change; a cancellation may be queued *)
  Lemma Live_phase s s' i k p1 x extra :
    Live s -> nth_error (calls s) i = Some k ->
    calls s' = phase_calls (calls s) i p1 -> queue s' = queue s -> inflight s' = inflight s ->
    (forall id, get_slot s' id = if N.eqb id (c_id k) then x else get_slot s id) ->
    cancels s' = cancels s ++ extra -> next_id s' = next_id s -> dropped s' = dropped s ->
    winv s' ->
    (gS p1 = true -> gS (c_phase k) = true) ->
    (TT s (c_id k) = 0%nat \/ (gS (c_phase k) = true /\ gS p1 = false) \/
     (slot_done (get_slot s (c_id k)) = false -> slot_done x = false)) ->
    (CQ s (c_id k) = 0%nat \/ sl_rx_closed x = true \/
     ((gW (c_phase k) = true -> gW p1 = true) /\
      (sl_rx_closed (get_slot s (c_id k)) = true -> sl_rx_closed x = true))) ->
    (gA (c_phase k) = true -> gA p1 = false -> In (c_id k) extra \/ CI s (c_id k) = 0%nat) ->
    Live s'.
  Proof.
    intros [LD LW LU LF LN LC LQ] Hk Ec Eq Ei Es Ecan En Ed W' Ha Hnd Hrx Hcov.
    set (id0 := c_id k) in *. set (p0 := c_phase k) in *.
    assert (EP : forall g id, (cP g (calls s') id + b2n (g p0 && N.eqb id0 id)
                               = cP g (calls s) id + b2n (g p1 && N.eqb id0 id))%nat).
    { intros g id. rewrite Ec. apply cP_phase_calls, Hk. }
    assert (EQ : forall id, CQ s' id = CQ s id) by (intro; unfold CQ; rewrite Eq; reflexivity).
    assert (EI : forall id, CI s' id = CI s id) by (intro; unfold CI; rewrite Ei; reflexivity).
    assert (ES : forall id, (CS s' id <= CS s id)%nat).
    { intro id. pose proof (EP gS id) as H. unfold CS. destruct (N.eqb id0 id); cbn [andb b2n] in H.
      - destruct (gS p1) eqn:G1; [rewrite (Ha eq_refl) in H|destruct (gS p0)]; cbn [andb b2n] in H; alia.
      - rewrite !andb_false_r in H. cbn in H. alia. }
    assert (ET : forall id, (TT s' id <= TT s id)%nat).
    { intro id. unfold TT. rewrite EQ, EI. specialize (ES id). alia. }
    assert (Eo : forall g id, id <> id0 -> cP g (calls s') id = cP g (calls s) id).
    { intros g id Hne. pose proof (EP g id) as H.
      assert (N.eqb id0 id = false) by (apply N.eqb_neq; congruence).
      rewrite H0, !andb_false_r in H. cbn in H. alia. }
    constructor.
    - rewrite Ed. exact LD.
    - exact W'.
    - intro id. specialize (LU id). specialize (ET id). alia.
    - intros id H. rewrite En in H. specialize (LF id H). specialize (ET id). alia.
    - intros id H. rewrite Es. destruct (N.eqb id id0) eqn:E.
      + apply N.eqb_eq in E. subst id.
        destruct Hnd as [Z|[[G0 G1]|Hx]].
        * specialize (ET id0). alia.
        * exfalso. pose proof (EP gS id0) as HP. rewrite N.eqb_refl, G0, G1 in HP. cbn in HP.
          specialize (LU id0). unfold TT in H, LU. rewrite EQ, EI in H. unfold CS in *. alia.
        * apply Hx, LN. specialize (ET id0). alia.
      + apply LN. specialize (ET id). alia.
    - intros id H. rewrite EI in H. rewrite Ecan.
      destruct (N.eq_dec id id0) as [->|Hne].
      + destruct (LC id0 H) as [X|X]; [left; apply in_or_app; left; exact X|].
        pose proof (EP gA id0) as HP. rewrite N.eqb_refl in HP. unfold CA in *.
        destruct (gA p0) eqn:G0; destruct (gA p1) eqn:G1; cbn [andb b2n] in HP; try (right; alia).
        destruct (Hcov eq_refl eq_refl) as [Y|Y]; [left; apply in_or_app; right; exact Y|alia].
      + destruct (LC id H) as [X|X]; [left; apply in_or_app; left; exact X|].
        right. unfold CA in *. rewrite (Eo gA id Hne). exact X.
    - intros id H. rewrite EQ in H. rewrite Es.
      destruct (N.eqb id id0) eqn:E.
      + apply N.eqb_eq in E. subst id.
        destruct Hrx as [Z|[Rx|[Gw Rx]]]; [alia|left; exact Rx|].
        destruct (LQ id0 H) as [X|X]; [left; apply Rx, X|right].
        pose proof (EP gW id0) as HP. rewrite N.eqb_refl in HP. unfold CW in *.
        destruct (gW p0) eqn:G0; [rewrite (Gw eq_refl) in HP|destruct (gW p1)]; cbn [andb b2n] in HP; alia.
      + apply N.eqb_neq in E. destruct (LQ id H) as [X|X]; [left; exact X|right].
        unfold CW in *. rewrite (Eo gW id E). exact X.
  Qed.

  Lemma slot_done_tx_gone x r : slot_done {| sl_rx_closed := r; sl_val := sl_val x; sl_tx_gone := sl_tx_gone x |} = slot_done x.
  Proof. reflexivity. Qed.

  Lemma winv_phase_not_waiter s s' i k p1 :
    winv s -> nth_error (calls s) i = Some k -> c_phase k <> PAcquiring ->
    calls s' = phase_calls (calls s) i p1 -> waiters s' = waiters s -> winv s'.
  Proof.
    intros W Hk Hp Ec Ew. eapply winv_phase_other; [exact W|exact Ec|exact Ew|].
    eapply winv_not_acq; eassumption.
  Qed.

  Lemma TT_pos_staged s i k :
    nth_error (calls s) i = Some k -> gS (c_phase k) = true -> (1 <= CS s (c_id k))%nat.
  Proof. intros Hk G. apply cP_pos. exists i, k. auto. Qed.

  (* ---------------------------------------------------------------- ResponseGuard::response *)
  Lemma Live_poll_slot s i k :
    Live s -> nth_error (calls s) i = Some k -> c_phase k = PAwaiting ->
    Live (snd (poll_slot s i (c_id k))).
  Proof.
    intros L Hk Hp. unfold poll_slot.
    assert (Done : slot_done (get_slot s (c_id k)) = true ->
                   Live (set_phase (slot_rx_close s (c_id k)) i PDone)).
    { intro D.
      eapply (Live_phase s _ i k PDone
                {| sl_rx_closed := true; sl_val := sl_val (get_slot s (c_id k));
                   sl_tx_gone := sl_tx_gone (get_slot s (c_id k)) |} []); try exact L; try exact Hk.
      - rewrite set_phase_alt. reflexivity.
      - rewrite set_phase_alt. reflexivity.
      - rewrite set_phase_alt. reflexivity.
      - intro id. rewrite set_phase_alt. unfold slot_rx_close.
        change (get_slot (upd_calls ?a ?b) id) with (get_slot a id). apply get_set_slot.
      - rewrite set_phase_alt, app_nil_r. reflexivity.
      - rewrite set_phase_alt. reflexivity.
      - rewrite set_phase_alt. reflexivity.
      - eapply winv_phase_not_waiter; [apply L|exact Hk|congruence| |];
          rewrite set_phase_alt; reflexivity.
      - discriminate.
      - right; right. intro X. unfold slot_done in *. cbn [sl_val sl_tx_gone]. exact X.
      - right; left. reflexivity.
      - intros _ _. right. destruct (CI s (c_id k)) eqn:E; [reflexivity|exfalso].
        assert (X : slot_done (get_slot s (c_id k)) = false) by (apply L; unfold TT; lia).
        congruence. }
    destruct (sl_val (get_slot s (c_id k))) eqn:V; cbn [snd].
    - apply Done. unfold slot_done. rewrite V. reflexivity.
    - destruct (sl_tx_gone (get_slot s (c_id k))) eqn:G; cbn [snd]; [|exact L].
      apply Done. unfold slot_done. rewrite V. exact G.
  Qed.

  (* ---------------------------------------------------------------- a call that ends in `send` *)
  Lemma Live_fail_shutdown s i k :
    Live s -> nth_error (calls s) i = Some k ->
    gS (c_phase k) = true \/ TT s (c_id k) = 0%nat -> gA (c_phase k) = false ->
    c_phase k <> PAcquiring ->
    Live (snd (fail_shutdown s i (c_id k))).
  Proof.
    intros L Hk Hs Hga Hp. unfold fail_shutdown. cbn [snd].
    eapply (Live_phase s _ i k PDone
              {| sl_rx_closed := true; sl_val := sl_val (get_slot s (c_id k)); sl_tx_gone := true |}
              [c_id k]); try exact L; try exact Hk.
    - rewrite set_phase_alt, push_cancel_alt. reflexivity.
    - rewrite set_phase_alt, push_cancel_alt. reflexivity.
    - rewrite set_phase_alt, push_cancel_alt. reflexivity.
    - intro id. rewrite set_phase_alt, push_cancel_alt.
      change (get_slot (upd_calls (upd_cancels ?a ?c) ?b) id) with (get_slot a id).
      unfold slot_rx_close. rewrite get_set_slot. unfold slot_tx_drop. rewrite !get_set_slot.
      destruct (N.eqb id (c_id k)) eqn:E; [|reflexivity]. rewrite N.eqb_refl. reflexivity.
    - rewrite set_phase_alt, push_cancel_alt.
      cbn [cancels upd_calls upd_cancels dropped slot_rx_close slot_tx_drop set_slot upd_slots].
      rewrite (l_dropped _ L). reflexivity.
    - rewrite set_phase_alt, push_cancel_alt. reflexivity.
    - rewrite set_phase_alt, push_cancel_alt. reflexivity.
    - eapply winv_phase_not_waiter; [apply L|exact Hk|exact Hp| |];
        rewrite set_phase_alt, push_cancel_alt; reflexivity.
    - discriminate.
    - destruct Hs as [G|Z]; [right; left; split; [exact G|reflexivity]|left; exact Z].
    - right; left. reflexivity.
    - intros G. congruence.
  Qed.

  (* ---------------------------------------------------------------- guard drop *)
  Lemma get_slot_same_if s id0 id :
    get_slot s id = if N.eqb id id0 then get_slot s id0 else get_slot s id.
  Proof. destruct (N.eqb id id0) eqn:E; [apply N.eqb_eq in E; subst; reflexivity|reflexivity]. Qed.

  Lemma Live_release_permit s : Live s -> Live (release_permit s).
  Proof.
    intro L. pose proof (l_w _ L) as W.
    pose proof (release_permit_other s) as (R1 & R2 & R3 & R4 & R5 & R6 & R7).
    destruct (release_permit_shape s W) as [(E0 & Ec & Ew)|(w & ws & k & E & Hk & Hp & Ec & Ew)].
    - eapply Live_eq; [exact Ec|exact R1|exact R2|exact R3|exact R4| |exact R5|exact R6|exact L].
      congruence.
    - eapply (Live_phase s _ w k PAssigned (get_slot s (c_id k)) []); try exact L; try exact Hk;
        try assumption.
      + intro id. unfold get_slot at 1. rewrite R3. apply get_slot_same_if.
      + rewrite R4, app_nil_r. reflexivity.
      + apply winv_release_permit, W.
      + intros _. rewrite Hp. reflexivity.
      + right; right. auto.
      + right; right. rewrite Hp. split; [discriminate|auto].
      + rewrite Hp. discriminate.
  Qed.

  Lemma TT_retire s s' i k p1 :
    Live s -> nth_error (calls s) i = Some k -> gS (c_phase k) = true -> gS p1 = false ->
    calls s' = phase_calls (calls s) i p1 -> queue s' = queue s -> inflight s' = inflight s ->
    TT s' (c_id k) = 0%nat.
  Proof.
    intros L Hk G0 G1 Ec Eq Ei.
    pose proof (cP_phase_calls gS _ _ _ p1 (c_id k) Hk) as H. rewrite N.eqb_refl, G0, G1 in H.
    cbn [andb b2n] in H. pose proof (l_uniq _ L (c_id k)) as U. unfold TT, CS, CQ, CI in *.
    rewrite Ec, Eq, Ei. lia.
  Qed.

  Lemma NoDup_filter' {A} (f : A -> bool) l : NoDup l -> NoDup (filter f l).
  Proof.
    induction l as [|x r IH]; cbn; [constructor|]. intro H. inversion H as [|? ? Hn Hd]; subst.
    destruct (f x); [|apply IH, Hd]. constructor; [|apply IH, Hd].
    intro Hin. apply filter_In in Hin. apply Hn, Hin.
  Qed.

  Lemma Live_guard_close s i : Live s -> Live (guard_close s i).
  Proof.
    intro L. unfold guard_close. destruct (nth_error (calls s) i) as [k|] eqn:Hk; [|exact L].
    destruct (c_phase k) eqn:Hp; try exact L.
    - (* PNew *)
      eapply (Live_phase s _ i k PGone (get_slot s (c_id k)) []); try exact L; try exact Hk;
        try (rewrite set_phase_alt; reflexivity).
      + intro id. rewrite set_phase_alt. change (get_slot (upd_calls ?a ?b) id) with (get_slot a id).
        apply get_slot_same_if.
      + rewrite set_phase_alt, app_nil_r. reflexivity.
      + eapply winv_phase_not_waiter; [apply L|exact Hk|congruence| |];
          rewrite set_phase_alt; reflexivity.
      + discriminate.
      + right; right; auto.
      + right; right. rewrite Hp. split; [discriminate|auto].
      + rewrite Hp. discriminate.
    - (* PAcquiring *)
      eapply (Live_phase s _ i k PClosing
                {| sl_rx_closed := true; sl_val := sl_val (get_slot s (c_id k)); sl_tx_gone := true |}
                []); try exact L; try exact Hk;
        try (rewrite set_phase_alt; reflexivity).
      + intro id. rewrite set_phase_alt.
        change (get_slot (upd_calls ?a ?b) id) with (get_slot a id).
        unfold slot_rx_close. rewrite get_set_slot. unfold slot_tx_drop. rewrite !get_set_slot.
        destruct (N.eqb id (c_id k)) eqn:E; [|reflexivity]. rewrite N.eqb_refl. reflexivity.
      + rewrite set_phase_alt, app_nil_r. reflexivity.
      + rewrite set_phase_alt. destruct (l_w _ L) as [A N]. constructor.
        * cbn [waiters calls upd_calls slot_rx_close slot_tx_drop set_slot upd_slots upd_q].
          intros w Hw. unfold remove_waiter in Hw. apply filter_In in Hw. destruct Hw as [Hw Hne].
          destruct (A w Hw) as (c & Hc & Hpc). exists c. split; [|exact Hpc].
          rewrite nth_error_phase_calls. destruct (Nat.eqb i w) eqn:E; [|exact Hc].
          apply Nat.eqb_eq in E. subst w. rewrite Nat.eqb_refl in Hne. discriminate.
        * cbn [waiters calls upd_calls slot_rx_close slot_tx_drop set_slot upd_slots upd_q].
          apply NoDup_filter', N.
      + discriminate.
      + right; left. rewrite Hp. split; reflexivity.
      + right; left. reflexivity.
      + rewrite Hp. discriminate.
    - (* PAssigned: phase, then the permit, then the oneshot *)
      assert (LA : Live (set_phase s i PClosing)).
      { eapply (Live_phase s _ i k PClosing (get_slot s (c_id k)) []); try exact L; try exact Hk;
          try (rewrite set_phase_alt; reflexivity).
        - intro id. rewrite set_phase_alt. change (get_slot (upd_calls ?a ?b) id) with (get_slot a id).
          apply get_slot_same_if.
        - rewrite set_phase_alt, app_nil_r. reflexivity.
        - eapply winv_phase_not_waiter; [apply L|exact Hk|congruence| |];
            rewrite set_phase_alt; reflexivity.
        - discriminate.
        - right; left. rewrite Hp. split; reflexivity.
        - right; right. rewrite Hp. split; [discriminate|auto].
        - rewrite Hp. discriminate. }
      assert (ZA : TT (set_phase s i PClosing) (c_id k) = 0%nat).
      { eapply (TT_retire s _ i k PClosing); try exact L; try exact Hk;
          try (rewrite set_phase_alt; reflexivity); [rewrite Hp; reflexivity|reflexivity]. }
      set (s1 := set_phase s i PClosing) in *.
      set (s2 := if rx_closed s1 then upd_q s1 (S (permits s1)) (queue s1) (waiters s1) true
                 else release_permit s1).
      assert (LB : Live s2 /\ TT s2 (c_id k) = 0%nat).
      { unfold s2. destruct (rx_closed s1).
        - split; [eapply Live_eq; [..|exact LA]; reflexivity|exact ZA].
        - split; [apply Live_release_permit, LA|].
          pose proof (release_permit_other s1) as (R1 & R2 & _).
          unfold TT, CS, CQ, CI in *. rewrite R1, R2.
          rewrite (cP_release_permit gS s1 (c_id k) (l_w _ LA) eq_refl). exact ZA. }
      destruct LB as [LB ZB].
      unfold slot_rx_close. apply Live_set_slot_untracked; [|exact ZB].
      unfold slot_tx_drop. apply Live_set_slot_untracked; [exact LB|exact ZB].
    - (* PAcqClosed *)
      eapply (Live_phase s _ i k PClosing
                {| sl_rx_closed := true; sl_val := sl_val (get_slot s (c_id k)); sl_tx_gone := true |}
                []); try exact L; try exact Hk;
        try (rewrite set_phase_alt; reflexivity).
      + intro id. rewrite set_phase_alt.
        change (get_slot (upd_calls ?a ?b) id) with (get_slot a id).
        unfold slot_rx_close. rewrite get_set_slot. unfold slot_tx_drop. rewrite !get_set_slot.
        destruct (N.eqb id (c_id k)) eqn:E; [|reflexivity]. rewrite N.eqb_refl. reflexivity.
      + rewrite set_phase_alt, app_nil_r. reflexivity.
      + eapply winv_phase_not_waiter; [apply L|exact Hk|congruence| |];
          rewrite set_phase_alt; reflexivity.
      + discriminate.
      + right; left. rewrite Hp. split; reflexivity.
      + right; left. reflexivity.
      + rewrite Hp. discriminate.
    - (* PAwaiting *)
      eapply (Live_phase s _ i k PClosing
                {| sl_rx_closed := true; sl_val := sl_val (get_slot s (c_id k));
                   sl_tx_gone := sl_tx_gone (get_slot s (c_id k)) |} []); try exact L; try exact Hk;
        try (rewrite set_phase_alt; reflexivity).
      + intro id. rewrite set_phase_alt. unfold slot_rx_close.
        change (get_slot (upd_calls ?a ?b) id) with (get_slot a id). apply get_set_slot.
      + rewrite set_phase_alt, app_nil_r. reflexivity.
      + eapply winv_phase_not_waiter; [apply L|exact Hk|congruence| |];
          rewrite set_phase_alt; reflexivity.
      + discriminate.
      + right; right. intro X. exact X.
      + right; left. reflexivity.
      + intros _. discriminate.
  Qed.

  Lemma Live_guard_cancel s i : Live s -> Live (guard_cancel s i).
  Proof.
    intro L. unfold guard_cancel. destruct (nth_error (calls s) i) as [k|] eqn:Hk; [|exact L].
    destruct (c_phase k) eqn:Hp; try exact L.
    eapply (Live_phase s _ i k PGone (get_slot s (c_id k)) [c_id k]); try exact L; try exact Hk;
      try (rewrite set_phase_alt, push_cancel_alt; reflexivity).
    - intro id. rewrite set_phase_alt, push_cancel_alt.
      change (get_slot (upd_calls (upd_cancels ?a ?c) ?b) id) with (get_slot a id).
      apply get_slot_same_if.
    - rewrite set_phase_alt, push_cancel_alt. cbn [cancels upd_calls upd_cancels].
      rewrite (l_dropped _ L). reflexivity.
    - eapply winv_phase_not_waiter; [apply L|exact Hk|congruence| |];
        rewrite set_phase_alt, push_cancel_alt; reflexivity.
    - discriminate.
    - right; right; auto.
    - right; right. rewrite Hp. split; [discriminate|auto].
    - intros _ _. left. left. reflexivity.
  Qed.

  (* ---------------------------------------------------------------- first poll *)
  Definition with_cid (k : call) (id : N) : call :=
    {| c_handle := c_handle k; c_phase := c_phase k; c_id := id; c_rel := c_rel k;
       c_deadline := c_deadline k; c_tc := c_tc k; c_body := c_body k |}.

  Lemma cP_set_nth_dead g l i k k' id :
    nth_error l i = Some k -> g (c_phase k) = false -> g (c_phase k') = false ->
    cP g (set_nth i k' l) id = cP g l id.
  Proof.
    intros Hk G G'. unfold cP.
    pose proof (cnt_set_nth (fun k0 => g (c_phase k0) && N.eqb (c_id k0) id) i k k' l Hk) as H.
    cbn beta in H. rewrite G, G' in H. cbn in H. lia.
  Qed.

  Lemma Live_prologue s i k :
    Live s -> nth_error (calls s) i = Some k -> c_phase k = PNew ->
    (next_id s + 1 < two64)%N ->
    let id := next_id s in
    let s1 := set_slot (with_id (upd_misc s (N.modulo (id + 1) 18446744073709551616) (handles s) (now s))
                                i k id) id slot0 in
    Live s1 /\ TT s1 id = 0%nat /\ get_slot s1 id = slot0 /\ next_id s1 = (id + 1)%N /\
    nth_error (calls s1) i = Some (with_cid k id).
  Proof.
    intros L Hk Hp Hw id s1.
    assert (En : next_id s1 = (id + 1)%N).
    { unfold s1. cbn [next_id set_slot upd_slots with_id upd_calls upd_misc].
      apply N.mod_small. exact Hw. }
    assert (Ec : calls s1 = set_nth i (with_cid k id) (calls s)) by reflexivity.
    assert (EP : forall g id', g PNew = false -> cP g (calls s1) id' = cP g (calls s) id').
    { intros g id' G. rewrite Ec. apply (cP_set_nth_dead g _ _ k); [exact Hk|rewrite Hp; exact G|].
      cbn [c_phase with_cid]. rewrite Hp. exact G. }
    assert (ET : forall id', TT s1 id' = TT s id').
    { intro id'. unfold TT, CS. rewrite (EP gS id' eq_refl). reflexivity. }
    assert (Z : TT s id = 0%nat) by (apply L; unfold id; lia).
    assert (EG : forall id', get_slot s1 id' = if N.eqb id' id then slot0 else get_slot s id').
    { intro id'. unfold s1. rewrite get_set_slot. reflexivity. }
    assert (Hi : (i < length (calls s))%nat) by (apply nth_error_Some; congruence).
    destruct L as [LD LW LU LF LN LC LQ].
    split; [|split; [rewrite ET; exact Z|split; [rewrite EG, N.eqb_refl; reflexivity|split; [exact En|]]]].
    - constructor.
      + exact LD.
      + destruct LW as [A N]. constructor; [|exact N].
        intros w Hw'. destruct (A w Hw') as (c & Hc & Hpc). exists c. split; [|exact Hpc].
        rewrite Ec. rewrite nth_error_set_nth_other; [exact Hc|]. intro; subst w. congruence.
      + intro id'. rewrite ET. apply LU.
      + intros id' H. rewrite ET. apply LF. rewrite En in H. unfold id in H. lia.
      + intros id' H. rewrite ET in H. rewrite EG. destruct (N.eqb id' id) eqn:E; [|apply LN, H].
        apply N.eqb_eq in E. subst id'. lia.
      + intros id' H. change (CI s1 id') with (CI s id') in H. change (cancels s1) with (cancels s).
        unfold CA. rewrite (EP gA id' eq_refl). apply LC, H.
      + intros id' H. change (CQ s1 id') with (CQ s id') in H. rewrite EG. unfold CW.
        rewrite (EP gW id' eq_refl). destruct (N.eqb id' id) eqn:E; [|apply LQ, H].
        apply N.eqb_eq in E. subst id'. unfold TT in Z. lia.
    - rewrite Ec. apply nth_error_set_nth_same, Hi.
  Qed.

  Lemma Live_acquire s i k rc :
    Live s -> nth_error (calls s) i = Some k -> c_phase k = PNew -> TT s (c_id k) = 0%nat ->
    slot_done (get_slot s (c_id k)) = false -> (c_id k < next_id s)%N ->
    Live (set_phase (upd_q s O (queue s) (waiters s ++ [i]) rc) i PAcquiring).
  Proof.
    intros [LD LW LU LF LN LC LQ] Hk Hp Z Nd Fr. rewrite set_phase_alt.
    set (s' := upd_calls _ _). set (id0 := c_id k) in *.
    assert (EP : forall g id, (cP g (calls s') id + b2n (g PNew && N.eqb id0 id)
                               = cP g (calls s) id + b2n (g PAcquiring && N.eqb id0 id))%nat).
    { intros g id. unfold s'. cbn [calls upd_calls upd_q]. rewrite <- Hp. apply cP_phase_calls, Hk. }
    assert (ET : forall id, TT s' id = (TT s id + b2n (N.eqb id0 id))%nat).
    { intro id. unfold TT. change (CQ s' id) with (CQ s id). change (CI s' id) with (CI s id).
      pose proof (EP gS id) as H. cbn [gS andb b2n] in H. unfold CS. lia. }
    constructor.
    - exact LD.
    - destruct LW as [A N]. constructor.
      + cbn [waiters calls s' upd_calls upd_q]. intros w Hw. apply in_app_or in Hw.
        rewrite nth_error_phase_calls. destruct Hw as [Hw|[<-|[]]].
        * destruct (A w Hw) as (c & Hc & Hpc). destruct (Nat.eqb i w) eqn:E.
          { apply Nat.eqb_eq in E. subst w. congruence. }
          exists c. auto.
        * rewrite Nat.eqb_refl, Hk. cbn. eexists. split; reflexivity.
      + cbn [waiters s' upd_calls upd_q]. apply NoDup_app_single; [exact N|].
        intro Hin. destruct (A i Hin) as (c & Hc & Hpc). congruence.
    - intro id. rewrite ET. specialize (LU id). destruct (N.eqb id0 id) eqn:E; cbn [b2n]; [|lia].
      apply N.eqb_eq in E. subst id. lia.
    - intros id H. change (next_id s') with (next_id s) in H. rewrite ET, (LF id H).
      assert (E : N.eqb id0 id = false) by (apply N.eqb_neq; lia). rewrite E. reflexivity.
    - intros id H. change (get_slot s' id) with (get_slot s id). rewrite ET in H.
      destruct (N.eqb id0 id) eqn:E; cbn [b2n] in H.
      + apply N.eqb_eq in E. subst id. exact Nd.
      + apply LN. lia.
    - intros id H. change (CI s' id) with (CI s id) in H. change (cancels s') with (cancels s).
      destruct (LC id H) as [X|X]; [left; exact X|right].
      pose proof (EP gA id) as HP. cbn [gA andb b2n] in HP. unfold CA in *. lia.
    - intros id H. change (CQ s' id) with (CQ s id) in H. change (get_slot s' id) with (get_slot s id).
      destruct (LQ id H) as [X|X]; [left; exact X|right].
      pose proof (EP gW id) as HP. cbn [gW andb b2n] in HP. unfold CW in *. lia.
  Qed.

  Lemma Live_enqueue s i k c0 tc :
    Live s -> nth_error (calls s) i = Some k -> gA (c_phase k) = false ->
    c_phase k <> PAcquiring -> gS (c_phase k) = true \/ TT s (c_id k) = 0%nat ->
    slot_done (get_slot s (c_id k)) = false -> (c_id k < next_id s)%N ->
    fst (enqueue s i c0 (c_id k) tc) = CPending /\ Live (snd (enqueue s i c0 (c_id k) tc)).
  Proof.
    intros L Hk Ga Hp Hs Nd Fr. unfold enqueue.
    set (q := {| q_id := c_id k; q_deadline := c_deadline c0; q_tc := tc; q_body := c_body c0 |}).
    rewrite set_phase_alt. set (s' := upd_calls _ _). set (id0 := c_id k) in *.
    assert (Eg : get_slot s' id0 = get_slot s id0) by reflexivity.
    unfold poll_slot. rewrite Eg. pose proof Nd as Nd0. unfold slot_done in Nd.
    destruct (sl_val (get_slot s id0)) eqn:V; [discriminate|]. rewrite Nd. cbn [fst snd].
    split; [reflexivity|].
    destruct L as [LD LW LU LF LN LC LQ].
    assert (EP : forall g id, (cP g (calls s') id + b2n (g (c_phase k) && N.eqb id0 id)
                               = cP g (calls s) id + b2n (g PAwaiting && N.eqb id0 id))%nat).
    { intros g id. unfold s'. cbn [calls upd_calls upd_q]. apply cP_phase_calls, Hk. }
    assert (EQ : forall id, CQ s' id = (CQ s id + b2n (N.eqb id0 id))%nat).
    { intro id. unfold CQ, s'. cbn [queue upd_calls upd_q]. unfold cQ. rewrite cnt_app, cnt_cons, cnt_nil.
      cbn [q_id q]. lia. }
    assert (U0 : (TT s id0 <= 1)%nat) by apply LU.
    assert (P0 : gS (c_phase k) = true -> (1 <= CS s id0)%nat) by (intro; eapply TT_pos_staged; eassumption).
    assert (ET : forall id, (TT s' id + b2n (gS (c_phase k) && N.eqb id0 id)
                             = TT s id + b2n (N.eqb id0 id))%nat).
    { intro id. unfold TT. rewrite EQ. change (CI s' id) with (CI s id).
      pose proof (EP gS id) as H. cbn [gS andb b2n] in H. unfold CS. lia. }
    constructor.
    - exact LD.
    - eapply winv_phase_not_waiter; [exact LW|exact Hk|exact Hp|reflexivity|reflexivity].
    - intro id. specialize (ET id). specialize (LU id). destruct (N.eqb id0 id) eqn:E.
      + apply N.eqb_eq in E. subst id. rewrite andb_true_r in ET.
        destruct (gS (c_phase k)) eqn:G; cbn [b2n] in ET.
        * lia.
        * destruct Hs as [X|X]; [discriminate|]. lia.
      + rewrite andb_false_r in ET. cbn [b2n] in ET. lia.
    - intros id H. change (next_id s') with (next_id s) in H. specialize (ET id).
      assert (E : N.eqb id0 id = false) by (apply N.eqb_neq; lia).
      rewrite E, andb_false_r in ET. cbn [b2n] in ET. rewrite (LF id H) in ET. lia.
    - intros id H. change (get_slot s' id) with (get_slot s id). specialize (ET id).
      destruct (N.eqb id0 id) eqn:E.
      + apply N.eqb_eq in E. subst id. exact Nd0.
      + rewrite andb_false_r in ET. cbn [b2n] in ET. apply LN. lia.
    - intros id H. change (CI s' id) with (CI s id) in H. change (cancels s') with (cancels s).
      destruct (LC id H) as [X|X]; [left; exact X|right].
      pose proof (EP gA id) as HP. rewrite Ga in HP. cbn [gA andb b2n] in HP. unfold CA in *. lia.
    - intros id H. change (get_slot s' id) with (get_slot s id). rewrite EQ in H.
      pose proof (EP gW id) as HP. cbn [gW andb b2n] in HP. unfold CW in *.
      assert (Gw : gW (c_phase k) = false) by (destruct (c_phase k); try reflexivity; discriminate).
      rewrite Gw in HP. cbn [andb b2n] in HP.
      destruct (N.eqb id0 id) eqn:E; cbn [b2n] in *.
      + right. lia.
      + destruct (LQ id ltac:(lia)) as [X|X]; [left; exact X|right; lia].
  Qed.

  Lemma Live_call s knew :
    Live s -> c_phase knew = PNew \/ c_phase knew = PGone -> Live (upd_calls s (calls s ++ [knew])).
  Proof.
    intros [LD LW LU LF LN LC LQ] Hp. set (s' := upd_calls _ _).
    assert (EP : forall g id, g PNew = false -> g PGone = false ->
                              cP g (calls s') id = cP g (calls s) id).
    { intros g id G1 G2. unfold s', cP. cbn [calls upd_calls]. rewrite cnt_app, cnt_cons, cnt_nil.
      destruct Hp as [-> | ->]; rewrite ?G1, ?G2; cbn; lia. }
    assert (ET : forall id, TT s' id = TT s id).
    { intro id. unfold TT, CS. rewrite (EP gS id eq_refl eq_refl). reflexivity. }
    constructor.
    - exact LD.
    - destruct LW as [A N]. constructor; [|exact N]. intros w Hw.
      destruct (A w Hw) as (c & Hc & Hpc). exists c. split; [|exact Hpc].
      unfold s'. cbn [calls upd_calls]. rewrite nth_error_app1; [exact Hc|].
      apply nth_error_Some. congruence.
    - intro id. rewrite ET. apply LU.
    - intros id H. rewrite ET. apply LF, H.
    - intros id H. rewrite ET in H. apply LN, H.
    - intros id H. unfold CA. rewrite (EP gA id eq_refl eq_refl). apply LC, H.
    - intros id H. unfold CW. rewrite (EP gW id eq_refl eq_refl). apply LQ, H.
  Qed.

  Lemma staged_fresh s i k :
    Live s -> nth_error (calls s) i = Some k -> gS (c_phase k) = true ->
    slot_done (get_slot s (c_id k)) = false /\ (c_id k < next_id s)%N.
  Proof.
    intros L Hk G. pose proof (TT_pos_staged s i k Hk G) as P. split.
    - apply L. unfold TT. lia.
    - destruct (N.lt_ge_cases (c_id k) (next_id s)) as [H|H]; [exact H|].
      pose proof (l_fresh _ L _ H) as Z. unfold TT in Z. lia.
  Qed.

  Lemma Live_poll_call s i :
    Live s -> (next_id s + 1 < two64)%N -> Live (snd (poll_call s i)).
  Proof.
    intros L Hw. unfold poll_call. destruct (nth_error (calls s) i) as [k|] eqn:Hk; [|exact L].
    destruct (c_phase k) eqn:Hp; try exact L.
    - (* PNew *)
      destruct (Live_prologue s i k L Hk Hp Hw) as (L1 & Z1 & G1 & N1 & K1).
      cbn zeta. set (s1 := set_slot _ (next_id s) slot0) in *.
      destruct (rx_closed s1).
      + apply (Live_fail_shutdown s1 i (with_cid k (next_id s)) L1 K1).
        * right. exact Z1.
        * cbn [c_phase with_cid]. rewrite Hp. reflexivity.
        * cbn [c_phase with_cid]. congruence.
      + destruct (permits s1) as [|pm].
        * cbn [snd]. apply (Live_acquire s1 i (with_cid k (next_id s)) false L1 K1).
          -- exact Hp.
          -- exact Z1.
          -- cbn [c_id with_cid]. rewrite G1. reflexivity.
          -- cbn [c_id with_cid]. rewrite N1. lia.
        * apply (Live_enqueue (upd_q s1 pm (queue s1) (waiters s1) false) i
                   (with_cid k (next_id s))).
          -- eapply Live_eq; [..|exact L1]; reflexivity.
          -- exact K1.
          -- cbn [c_phase with_cid]. rewrite Hp. reflexivity.
          -- cbn [c_phase with_cid]. congruence.
          -- right. exact Z1.
          -- cbn [c_id with_cid]. change (get_slot (upd_q s1 ?a ?b ?c ?d) ?id) with (get_slot s1 id).
             rewrite G1. reflexivity.
          -- cbn [c_id with_cid]. change (next_id (upd_q s1 ?a ?b ?c ?d)) with (next_id s1).
             rewrite N1. lia.
    - (* PAssigned *)
      assert (G : gS (c_phase k) = true) by (rewrite Hp; reflexivity).
      destruct (staged_fresh s i k L Hk G) as [Nd Fr].
      destruct (rx_closed s).
      + apply (Live_fail_shutdown (upd_q s (S (permits s)) (queue s) (waiters s) true) i k).
        * eapply Live_eq; [..|exact L]; reflexivity.
        * exact Hk.
        * left. exact G.
        * rewrite Hp. reflexivity.
        * congruence.
      + apply (Live_enqueue s i k k _ L Hk).
        * rewrite Hp. reflexivity.
        * congruence.
        * left. exact G.
        * exact Nd.
        * exact Fr.
    - (* PAcqClosed *)
      apply (Live_fail_shutdown s i k L Hk).
      + left. rewrite Hp. reflexivity.
      + rewrite Hp. reflexivity.
      + congruence.
    - (* PAwaiting *)
      apply Live_poll_slot; assumption.
  Qed.

  Variable fuel_of : cstate -> nat.

  Lemma Live_step_user s o s' os :
    Live s -> (next_id s + 1 < two64)%N -> step tp fuel_of s o = (s', os) ->
    o <> PollDispatch -> o <> DropDispatch -> Live s'.
  Proof.
    intros L Hw H N1 N2. destruct o; cbn [step] in H; try congruence.
    - injection H as <- _. destruct (nth_error _ _) as [[|]|]; try exact L.
      eapply Live_eq; [..|exact L]; reflexivity.
    - injection H as <- _. destruct (nth_error _ _) as [[|]|]; try exact L.
      eapply Live_eq; [..|exact L]; reflexivity.
    - injection H as <- _. apply Live_call; [exact L|].
      cbn [c_phase]. destruct (nth_error _ _) as [[|]|]; auto.
    - pose proof (Live_poll_call s i L Hw) as L'. destruct (poll_call s i) as [r s1].
      injection H as <- _. exact L'.
    - injection H as <- _. destruct (option_map _ _) as [[]|];
        try apply Live_guard_cancel, Live_guard_close, L. exact L.
    - injection H as <- _. destruct (option_map _ _) as [[]|]; try apply Live_guard_close, L. exact L.
    - injection H as <- _. apply Live_guard_cancel, L.
    - injection H as <- _. eapply Live_eq; [..|exact L]; reflexivity.
    - injection H as <- _. eapply Live_eq; [..|exact L]; reflexivity.
  Qed.
End User.

(* ================================================================== what an op does to the
   phases (model only) *)
Section Effects.
  Context {T : Type}.
  Notation cstate := (@cstate T).
  Implicit Types s : cstate.

  Definition ph s (i : nat) : option phase := option_map c_phase (nth_error (calls s) i).

  (* every call other than i keeps its phase class; the handles are untouched *)
  Record Ch (i : nat) s s' : Prop := {
    ch_handles : handles s' = handles s;
    ch_len : length (calls s') = length (calls s);
    ch_other : forall j, j <> i -> nth_error (cls s') j = nth_error (cls s) j }.

  Lemma Ch_refl i s : Ch i s s.
  Proof. constructor; reflexivity. Qed.
  Lemma Ch_trans i s1 s2 s3 : Ch i s1 s2 -> Ch i s2 s3 -> Ch i s1 s3.
  Proof.
    intros [A B C] [A' B' C']. constructor; [congruence|congruence|].
    intros j Hj. rewrite C', C by exact Hj. reflexivity.
  Qed.
  Lemma Ch_eq i s s' : calls s' = calls s -> handles s' = handles s -> Ch i s s'.
  Proof. intros E1 E2. constructor; [exact E2|rewrite E1; reflexivity|]. intros. unfold cls. rewrite E1. reflexivity. Qed.
  Lemma Ch_cls i s s' : cls s' = cls s -> handles s' = handles s -> Ch i s s'.
  Proof.
    intros E1 E2. constructor; [exact E2| |intros; rewrite E1; reflexivity].
    pose proof (f_equal (@length _) E1) as H. unfold cls in H. rewrite !map_length in H. exact H.
  Qed.

  Lemma nth_error_cls s j : nth_error (cls s) j = option_map pclass (ph s j).
  Proof. unfold cls, ph. rewrite nth_error_map. destruct (nth_error (calls s) j); reflexivity. Qed.

  Lemma ph_set_phase s i p j :
    ph (set_phase s i p) j = if Nat.eqb i j then option_map (fun _ => p) (ph s j) else ph s j.
  Proof.
    unfold ph. rewrite set_phase_alt. cbn [calls upd_calls]. rewrite nth_error_phase_calls.
    destruct (Nat.eqb i j); [|reflexivity]. destruct (nth_error (calls s) j); reflexivity.
  Qed.
  Lemma Ch_set_phase i s p : Ch i s (set_phase s i p).
  Proof.
    constructor.
    - rewrite set_phase_alt. reflexivity.
    - rewrite set_phase_alt. cbn [calls upd_calls]. apply phase_calls_length.
    - intros j Hj. rewrite !nth_error_cls, ph_set_phase.
      destruct (Nat.eqb i j) eqn:E; [apply Nat.eqb_eq in E; congruence|reflexivity].
  Qed.
  Lemma ph_set_phase_same s i p : ph s i <> None -> ph (set_phase s i p) i = Some p.
  Proof.
    intro H. rewrite ph_set_phase, Nat.eqb_refl. destruct (ph s i); [reflexivity|congruence].
  Qed.
  Lemma ph_eq s s' i : calls s' = calls s -> ph s' i = ph s i.
  Proof. intro E. unfold ph. rewrite E. reflexivity. Qed.

  Lemma Ch_push_cancel i s id : Ch i s (push_cancel s id).
  Proof. apply Ch_eq; rewrite push_cancel_alt; reflexivity. Qed.

  Lemma fail_shutdown_eff s i id :
    ph s i <> None ->
    fst (fail_shutdown s i id) = CDone OShutdown /\
    Ch i s (snd (fail_shutdown s i id)) /\ ph (snd (fail_shutdown s i id)) i = Some PDone.
  Proof.
    intro H. unfold fail_shutdown. cbn [fst snd]. split; [reflexivity|]. split.
    - eapply Ch_trans; [|apply Ch_set_phase]. apply Ch_eq; rewrite push_cancel_alt; reflexivity.
    - apply ph_set_phase_same. rewrite (ph_eq s); [exact H|]. rewrite push_cancel_alt. reflexivity.
  Qed.

  Lemma poll_slot_eff s i id r s' :
    ph s i <> None -> poll_slot s i id = (r, s') ->
    (r = CPending /\ s' = s) \/ ((exists o, r = CDone o) /\ Ch i s s' /\ ph s' i = Some PDone).
  Proof.
    intros H. unfold poll_slot.
    assert (D : Ch i s (set_phase (slot_rx_close s id) i PDone) /\
                ph (set_phase (slot_rx_close s id) i PDone) i = Some PDone).
    { split.
      - eapply Ch_trans; [|apply Ch_set_phase]. apply Ch_eq; reflexivity.
      - apply ph_set_phase_same. rewrite (ph_eq s); [exact H|reflexivity]. }
    destruct (sl_val (get_slot s id)).
    - intros [= <- <-]. right. split; [eexists; reflexivity|exact D].
    - destruct (sl_tx_gone (get_slot s id)); intros [= <- <-]; [|left; auto].
      right. split; [eexists; reflexivity|exact D].
  Qed.

  Lemma enqueue_eff s i c id tc r s' :
    ph s i <> None -> enqueue s i c id tc = (r, s') ->
    Ch i s s' /\
    ((r = CPending /\ ph s' i = Some PAwaiting) \/ ((exists o, r = CDone o) /\ ph s' i = Some PDone)).
  Proof.
    intros H. unfold enqueue. set (s1 := upd_q s _ _ _ _).
    assert (C1 : Ch i s (set_phase s1 i PAwaiting)).
    { eapply Ch_trans; [|apply Ch_set_phase]. apply Ch_eq; reflexivity. }
    assert (P1 : ph (set_phase s1 i PAwaiting) i = Some PAwaiting).
    { apply ph_set_phase_same. rewrite (ph_eq s); [exact H|reflexivity]. }
    intro E. apply poll_slot_eff in E; [|congruence].
    destruct E as [[-> ->]|(Ho & C2 & P2)].
    - split; [exact C1|left; auto].
    - split; [eapply Ch_trans; eassumption|right; auto].
  Qed.

  Lemma ph_with_id s i k id j :
    nth_error (calls s) i = Some k -> ph (with_id s i k id) j = ph s j.
  Proof.
    intro Hk. unfold ph, with_id. cbn [calls upd_calls].
    destruct (Nat.eq_dec i j) as [<-|Hne].
    - rewrite nth_error_set_nth_same by (apply nth_error_Some; congruence). rewrite Hk. reflexivity.
    - rewrite nth_error_set_nth_other by exact Hne. reflexivity.
  Qed.
  Lemma Ch_with_id i s k id : nth_error (calls s) i = Some k -> Ch i s (with_id s i k id).
  Proof.
    intro Hk. constructor; [reflexivity|unfold with_id; cbn [calls upd_calls]; apply set_nth_length|].
    intros j _. rewrite !nth_error_cls, (ph_with_id s i k id j Hk). reflexivity.
  Qed.

  Definition pc_eff (p : option phase) (r : cpoll) (p' : option phase) : Prop :=
    match p with
    | None => r = CNothing /\ p' = None
    | Some p0 =>
      match r with
      | CNothing => (p0 = PClosing \/ p0 = PDone \/ p0 = PGone) /\ p' = Some p0
      | CPending => (p0 = PNew \/ p0 = PAcquiring \/ p0 = PAssigned \/ p0 = PAwaiting) /\
                    (p' = Some PAcquiring \/ p' = Some PAwaiting)
      | CDone _ => (p0 = PNew \/ p0 = PAssigned \/ p0 = PAcqClosed \/ p0 = PAwaiting) /\
                   p' = Some PDone
      end
    end.

  Lemma poll_call_eff s i r s' :
    poll_call s i = (r, s') -> Ch i s s' /\ pc_eff (ph s i) r (ph s' i).
  Proof.
    intro H. unfold poll_call in H. destruct (nth_error (calls s) i) as [k|] eqn:Hk.
    2:{ injection H as <- <-. split; [apply Ch_refl|]. unfold pc_eff, ph. rewrite Hk. cbn.
        split; reflexivity. }
    assert (Hs : ph s i <> None) by (unfold ph; rewrite Hk; discriminate).
    assert (Hsame : ph s i = Some (c_phase k)) by (unfold ph; rewrite Hk; reflexivity).
    rewrite Hsame. unfold pc_eff.
    destruct (c_phase k) eqn:Hp.
    - (* PNew *)
      cbn zeta in H. set (s0 := with_id _ i k (next_id s)) in H.
      set (s1 := set_slot s0 (next_id s) slot0) in H.
      assert (C1 : Ch i s s1).
      { eapply Ch_trans; [apply (Ch_eq i s (upd_misc s (N.modulo (next_id s + 1) 18446744073709551616) (handles s) (now s))); reflexivity|].
        eapply Ch_trans; [apply (Ch_with_id i _ k (next_id s)); exact Hk|].
        apply Ch_eq; reflexivity. }
      assert (P1 : ph s1 i <> None).
      { unfold s1. rewrite (ph_eq s0) by reflexivity. unfold s0. rewrite ph_with_id by exact Hk.
        rewrite (ph_eq s) by reflexivity. exact Hs. }
      destruct (rx_closed s1).
      + destruct (fail_shutdown_eff s1 i (next_id s) P1) as (E1 & C2 & P2).
        destruct (fail_shutdown s1 i (next_id s)) as [r0 s2]. cbn [fst snd] in *. subst r0.
        injection H as <- <-. split; [eapply Ch_trans; eassumption|]. split; [left; reflexivity|exact P2].
      + destruct (permits s1) as [|pm].
        * injection H as <- <-. split.
          -- eapply Ch_trans; [exact C1|]. eapply Ch_trans; [|apply Ch_set_phase]. apply Ch_eq; reflexivity.
          -- split; [left; reflexivity|left]. apply ph_set_phase_same.
             rewrite (ph_eq s1) by reflexivity. exact P1.
        * apply enqueue_eff in H; [|rewrite (ph_eq s1) by reflexivity; exact P1].
          destruct H as [C2 [[-> P2]|[[o ->] P2]]].
          -- split; [eapply Ch_trans; [exact C1|]; eapply (Ch_trans i s1 (upd_q s1 pm (queue s1) (waiters s1) false)); [apply Ch_eq; reflexivity|exact C2]|].
             split; [left; reflexivity|right; exact P2].
          -- split; [eapply Ch_trans; [exact C1|]; eapply (Ch_trans i s1 (upd_q s1 pm (queue s1) (waiters s1) false)); [apply Ch_eq; reflexivity|exact C2]|].
             split; [left; reflexivity|exact P2].
    - injection H as <- <-. split; [apply Ch_refl|]. split; [right; left; reflexivity|left; exact Hsame].
    - (* PAssigned *)
      destruct (rx_closed s).
      + set (s0 := upd_q s _ _ _ _) in H.
        assert (P0 : ph s0 i <> None) by (rewrite (ph_eq s) by reflexivity; exact Hs).
        destruct (fail_shutdown_eff s0 i (c_id k) P0) as (E1 & C2 & P2).
        destruct (fail_shutdown s0 i (c_id k)) as [r0 s2]. cbn [fst snd] in *. subst r0.
        injection H as <- <-. split; [eapply (Ch_trans i s s0); [apply Ch_eq; reflexivity|exact C2]|].
        split; [right; left; reflexivity|exact P2].
      + apply enqueue_eff in H; [|exact Hs].
        destruct H as [C2 [[-> P2]|[[o ->] P2]]].
        * split; [exact C2|]. split; [right; right; left; reflexivity|right; exact P2].
        * split; [exact C2|]. split; [right; left; reflexivity|exact P2].
    - (* PAcqClosed *)
      destruct (fail_shutdown_eff s i (c_id k) Hs) as (E1 & C2 & P2).
      destruct (fail_shutdown s i (c_id k)) as [r0 s2]. cbn [fst snd] in *. subst r0.
      injection H as <- <-. split; [exact C2|]. split; [right; right; left; reflexivity|exact P2].
    - (* PAwaiting *)
      apply poll_slot_eff in H; [|exact Hs].
      destruct H as [[-> ->]|([o ->] & C2 & P2)].
      + split; [apply Ch_refl|]. split; [right; right; right; reflexivity|right; exact Hsame].
      + split; [exact C2|]. split; [right; right; right; reflexivity|exact P2].
    - injection H as <- <-. split; [apply Ch_refl|]. split; [left; reflexivity|exact Hsame].
    - injection H as <- <-. split; [apply Ch_refl|]. split; [right; left; reflexivity|exact Hsame].
    - injection H as <- <-. split; [apply Ch_refl|]. split; [right; right; reflexivity|exact Hsame].
  Qed.

  Definition gc_phase (p : option phase) : option phase :=
    match p with
    | Some PNew => Some PGone
    | Some PAcquiring | Some PAssigned | Some PAcqClosed | Some PAwaiting => Some PClosing
    | x => x
    end.

  Lemma ph_release_permit s i :
    winv s -> ph s i <> Some PAcquiring -> ph (release_permit s) i = ph s i.
  Proof.
    intros W Hi. destruct (release_permit_shape s W) as [(_ & Ec & _)|(w & ws & k & _ & Hk & Hp & Ec & _)].
    - apply ph_eq, Ec.
    - unfold ph. rewrite Ec, nth_error_phase_calls. destruct (Nat.eqb w i) eqn:E; [|reflexivity].
      apply Nat.eqb_eq in E. subst w. exfalso. apply Hi. unfold ph. rewrite Hk. cbn. congruence.
  Qed.

  Lemma guard_close_eff s i :
    winv s -> Ch i s (guard_close s i) /\ ph (guard_close s i) i = gc_phase (ph s i).
  Proof.
    intro W. unfold guard_close. unfold ph at 2.
    destruct (nth_error (calls s) i) as [k|] eqn:Hk; cbn [option_map];
      [|split; [apply Ch_refl|unfold ph; rewrite Hk; reflexivity]].
    assert (Hs : ph s i <> None) by (unfold ph; rewrite Hk; discriminate).
    assert (Hsame : ph s i = Some (c_phase k)) by (unfold ph; rewrite Hk; reflexivity).
    destruct (c_phase k) eqn:Hp; cbn [gc_phase];
      try (split; [apply Ch_refl|exact Hsame]).
    - split; [apply Ch_set_phase|apply ph_set_phase_same, Hs].
    - split.
      + eapply Ch_trans; [|apply Ch_set_phase]. apply Ch_eq; reflexivity.
      + apply ph_set_phase_same. rewrite (ph_eq s) by reflexivity. exact Hs.
    - set (s1 := set_phase s i PClosing).
      assert (W1 : winv s1).
      { eapply winv_phase_other; [exact W|unfold s1; rewrite set_phase_alt; reflexivity
                                 |unfold s1; rewrite set_phase_alt; reflexivity|].
        eapply winv_not_acq; [exact W|exact Hk|congruence]. }
      assert (P1 : ph s1 i = Some PClosing) by (apply ph_set_phase_same, Hs).
      set (s2 := if rx_closed s1 then _ else _).
      assert (C2 : Ch i s1 s2 /\ ph s2 i = Some PClosing).
      { unfold s2. destruct (rx_closed s1).
        - split; [apply Ch_eq; reflexivity|rewrite (ph_eq s1) by reflexivity; exact P1].
        - split.
          + apply Ch_cls; [apply cls_release_permit, W1|apply release_permit_other].
          + rewrite ph_release_permit; [exact P1|exact W1|congruence]. }
      destruct C2 as [C2 P2]. split.
      + eapply Ch_trans; [apply Ch_set_phase|]. eapply Ch_trans; [exact C2|]. apply Ch_eq; reflexivity.
      + rewrite (ph_eq s2) by reflexivity. exact P2.
    - split.
      + eapply Ch_trans; [|apply Ch_set_phase]. apply Ch_eq; reflexivity.
      + apply ph_set_phase_same. rewrite (ph_eq s) by reflexivity. exact Hs.
    - split.
      + eapply Ch_trans; [|apply Ch_set_phase]. apply Ch_eq; reflexivity.
      + apply ph_set_phase_same. rewrite (ph_eq s) by reflexivity. exact Hs.
  Qed.

  Definition gx_phase (p : option phase) : option phase :=
    match p with Some PClosing => Some PGone | x => x end.

  Lemma guard_cancel_eff s i :
    Ch i s (guard_cancel s i) /\ ph (guard_cancel s i) i = gx_phase (ph s i).
  Proof.
    unfold guard_cancel. unfold ph at 2.
    destruct (nth_error (calls s) i) as [k|] eqn:Hk; cbn [option_map];
      [|split; [apply Ch_refl|unfold ph; rewrite Hk; reflexivity]].
    assert (Hs : ph s i <> None) by (unfold ph; rewrite Hk; discriminate).
    assert (Hsame : ph s i = Some (c_phase k)) by (unfold ph; rewrite Hk; reflexivity).
    destruct (c_phase k) eqn:Hp; cbn [gx_phase]; try (split; [apply Ch_refl|exact Hsame]).
    split.
    - eapply Ch_trans; [apply (Ch_push_cancel i s (c_id k))|apply Ch_set_phase].
    - apply ph_set_phase_same. rewrite (ph_eq s); [exact Hs|]. rewrite push_cancel_alt. reflexivity.
  Qed.

  (* guard_close preserves winv (needed between the two halves of DropCall) *)
End Effects.

(* ================================================================== the observer's view of the
   call phases *)
Section MRel.
  Context {T : Type}.
  Notation cstate := (@cstate T).
  Implicit Types (s : cstate) (m : mst).

  Record Mrel m s : Prop := {
    mr_handles : m_handles m = handles s;
    mr_len : length (m_calls m) = length (calls s);
    mr_phase : forall i p, ph s i = Some p -> disc m i p;
    mr_none : forall i, ph s i = None ->
      mem_nat i (m_polled m) = false /\ mem_nat i (m_abandoned m) = false /\
      mem_nat i (m_closing m) = false /\ done_idx m i = false }.

  Lemma disc_pclass m i p p' : pclass p' = pclass p -> disc m i p -> disc m i p'.
  Proof.
    unfold pclass. intros [= E1 E2 E3 E4] [D1 D2 D3 D4].
    constructor; rewrite ?E1, ?E2, ?E3, ?E4; assumption.
  Qed.

  Lemma ph_lt s i : ph s i <> None <-> (i < length (calls s))%nat.
  Proof.
    unfold ph. rewrite <- nth_error_Some. destruct (nth_error (calls s) i); cbn; split; congruence.
  Qed.

  Lemma Mrel_at m m' s s' i :
    Mrel m s -> Ch i s s' -> m_handles m' = m_handles m -> m_calls m' = m_calls m ->
    (forall j, j <> i ->
       mem_nat j (m_polled m') = mem_nat j (m_polled m) /\
       mem_nat j (m_abandoned m') = mem_nat j (m_abandoned m) /\
       mem_nat j (m_closing m') = mem_nat j (m_closing m) /\ done_idx m' j = done_idx m j) ->
    (forall p, ph s' i = Some p -> disc m' i p) ->
    (ph s' i = None -> mem_nat i (m_polled m') = false /\ mem_nat i (m_abandoned m') = false /\
                       mem_nat i (m_closing m') = false /\ done_idx m' i = false) ->
    Mrel m' s'.
  Proof.
    intros [R1 R2 R3 R4] [C1 C2 C3] Eh Ec Ag Di Ni. constructor.
    - congruence.
    - congruence.
    - intros j p Hj. destruct (Nat.eq_dec j i) as [->|Hne]; [apply Di, Hj|].
      specialize (C3 j Hne). rewrite !nth_error_cls, Hj in C3. cbn in C3.
      destruct (ph s j) as [p0|] eqn:Hp0; [|discriminate]. cbn in C3. apply Some_inj in C3.
      pose proof (R3 j p0 Hp0) as D. apply (disc_pclass m' j p0 p C3).
      destruct (Ag j Hne) as (A1 & A2 & A3 & A4). destruct D as [D1 D2 D3 D4].
      constructor; rewrite ?A1, ?A2, ?A3, ?A4; assumption.
    - intros j Hj. destruct (Nat.eq_dec j i) as [->|Hne]; [apply Ni, Hj|].
      specialize (C3 j Hne). rewrite !nth_error_cls, Hj in C3. cbn in C3.
      destruct (ph s j) as [p0|] eqn:Hp0; [discriminate|].
      destruct (Ag j Hne) as (A1 & A2 & A3 & A4). rewrite A1, A2, A3, A4. apply R4, Hp0.
  Qed.

  Lemma Mrel_same m m' s s' :
    Mrel m s -> handles s' = handles s -> cls s' = cls s ->
    m_handles m' = m_handles m -> m_calls m' = m_calls m -> m_polled m' = m_polled m ->
    m_abandoned m' = m_abandoned m -> m_closing m' = m_closing m -> m_done m' = m_done m ->
    Mrel m' s'.
  Proof.
    intros R Eh Ec M1 M2 M3 M4 M5 M6.
    apply (Mrel_at m m' s s' 0 R); try assumption.
    - apply Ch_cls; assumption.
    - intros j _. unfold done_idx. rewrite M3, M4, M5, M6. auto.
    - intros p Hp. assert (Hp0 : ph s 0 = Some p \/ exists p0, ph s 0 = Some p0 /\ pclass p = pclass p0).
      { pose proof (f_equal (fun l => nth_error l 0) Ec) as E. cbn beta in E.
        rewrite !nth_error_cls, Hp in E. cbn in E. destruct (ph s 0) as [p0|]; [|discriminate].
        right. exists p0. cbn in E. apply Some_inj in E. auto. }
      destruct Hp0 as [Hp0|(p0 & Hp0 & Ep)].
      + destruct (mr_phase _ _ R 0 p Hp0) as [D1 D2 D3 D4].
        constructor; unfold done_idx; rewrite ?M3, ?M4, ?M5, ?M6; assumption.
      + apply (disc_pclass m' 0 p0 p Ep). destruct (mr_phase _ _ R 0 p0 Hp0) as [D1 D2 D3 D4].
        constructor; unfold done_idx; rewrite ?M3, ?M4, ?M5, ?M6; assumption.
    - intro Hp. assert (Hp0 : ph s 0 = None).
      { pose proof (f_equal (fun l => nth_error l 0) Ec) as E. cbn beta in E.
        rewrite !nth_error_cls, Hp in E. cbn in E. destruct (ph s 0); [discriminate|reflexivity]. }
      unfold done_idx. rewrite M3, M4, M5, M6. apply (mr_none _ _ R 0 Hp0).
  Qed.

  Lemma done_idx_snoc m m' i o j :
    m_done m' = m_done m ++ [(i, o)] -> done_idx m' j = done_idx m j || Nat.eqb i j.
  Proof.
    intro E. unfold done_idx. rewrite E, existsb_app. cbn. rewrite orb_false_r. reflexivity.
  Qed.

  Lemma Nat_eqb_neq' i j : j <> i -> Nat.eqb j i = false /\ Nat.eqb i j = false.
  Proof. intro H. split; apply Nat.eqb_neq; congruence. Qed.

  (* ---------------------------------------------------------------- PollCall *)
  Lemma Mrel_poll_call maxif m s i r s' :
    Mrel m s -> poll_call s i = (r, s') ->
    Mrel (snd (chk_obs (T := T) maxif (PollCall i) m
                 (match r with CNothing => [] | _ => [OCall r] end))) s'.
  Proof.
    intros R H. destruct (poll_call_eff s i r s' H) as [C E].
    set (cnd := mem_nat i (m_polled m) || mem_nat i (m_abandoned m) || mem_nat i (m_closing m)
                || (length (m_calls m) <=? i)%nat).
    set (pl := if cnd then m_polled m else m_polled m ++ [i]).
    assert (Ag : forall j, j <> i -> mem_nat j pl = mem_nat j (m_polled m)).
    { intros j Hne. unfold pl. destruct cnd; [reflexivity|].
      rewrite mem_nat_app, mem_nat_single. destruct (Nat_eqb_neq' i j Hne) as [-> _].
      apply orb_false_r. }
    destruct (ph s i) as [p0|] eqn:Hp; unfold pc_eff in E.
    - pose proof (mr_phase _ _ R i p0 Hp) as [D1 D2 D3 D4].
      assert (Hi : (length (m_calls m) <=? i)%nat = false).
      { apply Nat.leb_gt. rewrite (mr_len _ _ R). apply ph_lt. congruence. }
      assert (Hpl : ph_polled p0 <> Some false -> mem_nat i pl = mem_nat i (m_polled m) \/ mem_nat i pl = true).
      { intros _. unfold pl. destruct cnd; [left; reflexivity|right].
        rewrite mem_nat_app, mem_nat_single, Nat.eqb_refl. apply orb_true_r. }
      assert (Hnew : p0 = PNew -> mem_nat i pl = true).
      { intros ->. unfold pl, cnd. rewrite (D1 false eq_refl), D2, D3, Hi.
        cbn [ph_aband ph_closing orb].
        rewrite mem_nat_app, mem_nat_single, Nat.eqb_refl. apply orb_true_r. }
      assert (Hold : forall b, ph_polled p0 = Some b -> b = true -> mem_nat i pl = true).
      { intros b Hb ->. unfold pl, cnd. rewrite (D1 true Hb). cbn [orb]. apply (D1 true Hb). }
      destruct r as [|o|].
      + (* CPending *)
        destruct E as [E0 E1]. unfold chk_obs. cbn [snd].
        eapply (Mrel_at m _ s s' i R C); try reflexivity.
        * intros j Hne. cbn [rec_op m_polled m_abandoned m_closing upd_m]. unfold done_idx.
          cbn [m_done upd_m]. fold cnd. fold pl. rewrite (Ag j Hne). auto.
        * intros p Hp'. assert (Pp : ph_polled p = Some true /\ ph_aband p = false /\
                                       ph_closing p = false /\ ph_done p = false).
          { destruct E1 as [E1|E1]; rewrite E1 in Hp'; injection Hp' as <-; cbn; auto. }
          destruct Pp as (P1 & P2 & P3 & P4).
          assert (Q : mem_nat i pl = true /\ ph_aband p0 = false /\ ph_closing p0 = false /\ ph_done p0 = false).
          { destruct E0 as [-> |[-> |[-> | ->]]]; (split; [|cbn; auto]);
              [apply Hnew; reflexivity|eapply Hold; reflexivity..]. }
          destruct Q as (Q1 & Q2 & Q3 & Q4).
          constructor; cbn [rec_op m_polled m_abandoned m_closing upd_m]; unfold done_idx;
            cbn [m_done upd_m]; fold cnd; fold pl; fold (done_idx m i).
          -- intros b Hb. rewrite P1 in Hb. injection Hb as <-. exact Q1.
          -- rewrite P2, D2. exact Q2.
          -- rewrite P3, D3. exact Q3.
          -- rewrite P4, D4. exact Q4.
        * intro Hn. destruct E1 as [E1|E1]; congruence.
      + (* CDone *)
        destruct E as [E0 E1]. unfold chk_obs. cbn [snd].
        eapply (Mrel_at m _ s s' i R C); try reflexivity.
        * intros j Hne. cbn [rec_op m_polled m_abandoned m_closing upd_m]. unfold done_idx.
          cbn [m_done upd_m]. fold cnd. fold pl. rewrite (Ag j Hne), existsb_app. cbn [existsb fst].
          destruct (Nat_eqb_neq' i j Hne) as [_ ->]. rewrite !orb_false_r. auto.
        * intros p Hp'. rewrite E1 in Hp'. injection Hp' as <-.
          assert (Q : mem_nat i pl = true /\ ph_aband p0 = false /\ ph_closing p0 = false).
          { destruct E0 as [-> |[-> |[-> | ->]]]; (split; [|cbn; auto]);
              [apply Hnew; reflexivity|eapply Hold; reflexivity..]. }
          destruct Q as (Q1 & Q2 & Q3).
          constructor; cbn [rec_op m_polled m_abandoned m_closing upd_m ph_polled ph_aband ph_closing ph_done];
            unfold done_idx; cbn [m_done upd_m]; fold cnd; fold pl.
          -- intros b [= <-]. exact Q1.
          -- rewrite D2. exact Q2.
          -- rewrite D3. exact Q3.
          -- rewrite existsb_app. cbn [existsb fst]. rewrite Nat.eqb_refl. rewrite orb_true_r. reflexivity.
        * intro Hn. congruence.
      + (* CNothing *)
        destruct E as [E0 E1]. unfold chk_obs. cbn [snd].
        assert (Hc : cnd = true).
        { unfold cnd. destruct E0 as [-> |[-> | ->]].
          - rewrite D3. cbn. rewrite !orb_true_r. reflexivity.
          - rewrite (D1 true eq_refl). reflexivity.
          - rewrite D2. cbn. rewrite orb_true_r. reflexivity. }
        eapply (Mrel_at m _ s s' i R C); try reflexivity.
        * intros j Hne. cbn [rec_op m_polled m_abandoned m_closing upd_m]. unfold done_idx.
          cbn [m_done upd_m]. fold cnd. fold pl. rewrite (Ag j Hne). auto.
        * intros p Hp'. rewrite E1 in Hp'. injection Hp' as <-.
          constructor; cbn [rec_op m_polled m_abandoned m_closing upd_m]; unfold done_idx;
            cbn [m_done upd_m]; fold cnd; fold pl; fold (done_idx m i); unfold pl; rewrite ?Hc; assumption.
        * intro Hn. congruence.
    - destruct E as [-> E1]. unfold chk_obs. cbn [snd].
      destruct (mr_none _ _ R i Hp) as (N1 & N2 & N3 & N4).
      assert (Hc : cnd = true).
      { unfold cnd. assert (X : (length (m_calls m) <=? i)%nat = true).
        { apply Nat.leb_le. rewrite (mr_len _ _ R). apply Nat.nlt_ge. intro Hlt.
          apply ph_lt in Hlt. congruence. }
        rewrite X. rewrite !orb_true_r. reflexivity. }
      eapply (Mrel_at m _ s s' i R C); try reflexivity.
      + intros j Hne. cbn [rec_op m_polled m_abandoned m_closing upd_m]. unfold done_idx.
        cbn [m_done upd_m]. fold cnd. fold pl. rewrite (Ag j Hne). auto.
      + intros p Hp'. congruence.
      + intros _. cbn [rec_op m_polled m_abandoned m_closing upd_m]. unfold done_idx.
        cbn [m_done upd_m]. fold cnd. fold pl. fold (done_idx m i). unfold pl. rewrite Hc. auto.
  Qed.

  (* ---------------------------------------------------------------- DropCall / GuardClose / GuardCancel *)
  Lemma ph_option_map s i : option_map c_phase (nth_error (calls s) i) = ph s i.
  Proof. reflexivity. Qed.

  Lemma Mrel_drop_call m s i :
    Mrel m s -> winv s ->
    Mrel (rec_op (T := T) m (DropCall i))
         (match option_map c_phase (nth_error (calls s) i) with
          | Some PClosing => s
          | _ => guard_cancel (guard_close s i) i
          end).
  Proof.
    intros R W. rewrite ph_option_map.
    destruct (guard_close_eff s i W) as [C1 P1].
    destruct (guard_cancel_eff (guard_close s i) i) as [C2 P2]. rewrite P1 in P2.
    pose proof (Ch_trans _ _ _ _ C1 C2) as C.
    cbn [rec_op].
    set (cnd := (length (m_calls m) <=? i)%nat || done_idx m i || mem_nat i (m_abandoned m)
                || mem_nat i (m_closing m)).
    destruct (ph s i) as [p0|] eqn:Hp.
    - pose proof (mr_phase _ _ R i p0 Hp) as [D1 D2 D3 D4].
      assert (Hi : (length (m_calls m) <=? i)%nat = false).
      { apply Nat.leb_gt. rewrite (mr_len _ _ R). apply ph_lt. congruence. }
      assert (Hc : cnd = ph_done p0 || ph_aband p0 || ph_closing p0).
      { unfold cnd. rewrite Hi, D2, D3, D4. reflexivity. }
      assert (Same : cnd = true -> forall s', handles s' = handles s -> cls s' = cls s ->
                     Mrel (if cnd then m else upd_m m (m_now m) (m_calls m) (m_done m) (m_abandoned m ++ [i])
                             (m_closing m) (m_polled m) (m_disp m) (m_disp_dropped m) (m_handles m)
                             (m_contract m)) s').
      { intros -> s' E1 E2. eapply Mrel_same; try eassumption; reflexivity. }
      assert (Gone : cnd = false -> gx_phase (gc_phase (Some p0)) = Some PGone ->
                     Mrel (if cnd then m else upd_m m (m_now m) (m_calls m) (m_done m) (m_abandoned m ++ [i])
                             (m_closing m) (m_polled m) (m_disp m) (m_disp_dropped m) (m_handles m)
                             (m_contract m)) (guard_cancel (guard_close s i) i)).
      { intros Hf Hg. rewrite Hf. rewrite Hc in Hf.
        apply orb_false_iff in Hf. destruct Hf as [Hf F3]. apply orb_false_iff in Hf. destruct Hf as [F1 F2].
        eapply (Mrel_at m _ s _ i R C); try reflexivity.
        - intros j Hne. cbn [m_polled m_abandoned m_closing upd_m]. unfold done_idx. cbn [m_done upd_m].
          rewrite mem_nat_app, mem_nat_single. destruct (Nat_eqb_neq' i j Hne) as [-> _].
          rewrite orb_false_r. auto.
        - intros p Hp'. rewrite P2, Hg in Hp'. injection Hp' as <-.
          constructor; cbn [m_polled m_abandoned m_closing upd_m ph_polled ph_aband ph_closing ph_done];
            unfold done_idx; cbn [m_done upd_m]; fold (done_idx m i).
          + discriminate.
          + rewrite mem_nat_app, mem_nat_single, Nat.eqb_refl. apply orb_true_r.
          + rewrite D3. exact F3.
          + rewrite D4. exact F1.
        - intro Hn. rewrite P2, Hg in Hn. discriminate. }
      destruct p0; cbn [ph_done ph_aband ph_closing orb] in Hc; try (apply (Gone Hc); reflexivity).
      + apply (Same Hc); reflexivity.
      + apply (Same Hc).
        * apply C.
        * apply (f_equal (@Some _)) in P2. clear - C P2 Hp.
          (* PDone: both halves are no-ops *)
          unfold guard_cancel, guard_close in *. unfold ph in Hp.
          destruct (nth_error (calls s) i) as [k|] eqn:Hk; [|discriminate]. cbn in Hp.
          injection Hp as Hp. rewrite Hp. rewrite Hk, Hp. reflexivity.
      + apply (Same Hc).
        * apply C.
        * unfold guard_cancel, guard_close in *. unfold ph in Hp.
          destruct (nth_error (calls s) i) as [k|] eqn:Hk; [|discriminate]. cbn in Hp.
          injection Hp as Hp. rewrite Hp. rewrite Hk, Hp. reflexivity.
    - destruct (mr_none _ _ R i Hp) as (N1 & N2 & N3 & N4).
      assert (Hc : cnd = true).
      { unfold cnd. assert (X : (length (m_calls m) <=? i)%nat = true).
        { apply Nat.leb_le. rewrite (mr_len _ _ R). apply Nat.nlt_ge. intro Hlt.
          apply ph_lt in Hlt. congruence. }
        rewrite X. reflexivity. }
      rewrite Hc. eapply Mrel_same; try exact R; try reflexivity.
      + apply C.
      + unfold guard_cancel, guard_close. unfold ph in Hp.
        destruct (nth_error (calls s) i) as [k|] eqn:Hk; [discriminate|]. rewrite Hk. reflexivity.
  Qed.

  Lemma guard_close_noop s i :
    ph s i = None \/ ph s i = Some PClosing \/ ph s i = Some PDone \/ ph s i = Some PGone ->
    guard_close s i = s.
  Proof.
    unfold guard_close, ph. destruct (nth_error (calls s) i) as [k|]; [|reflexivity]. cbn.
    intros [H|[H|[H|H]]]; try discriminate; injection H as ->; reflexivity.
  Qed.
  Lemma guard_cancel_noop s i : ph s i <> Some PClosing -> guard_cancel s i = s.
  Proof.
    unfold guard_cancel, ph. destruct (nth_error (calls s) i) as [k|]; [|reflexivity]. cbn.
    intro H. destruct (c_phase k); try reflexivity. congruence.
  Qed.

  Lemma Mrel_guard_close m s i :
    Mrel m s -> winv s ->
    Mrel (rec_op (T := T) m (GuardClose i))
         (match option_map c_phase (nth_error (calls s) i) with
          | Some PClosing => s
          | _ => guard_close s i
          end).
  Proof.
    intros R W. rewrite ph_option_map.
    destruct (guard_close_eff s i W) as [C P1].
    cbn [rec_op].
    set (cnd := (length (m_calls m) <=? i)%nat || done_idx m i || mem_nat i (m_abandoned m)
                || mem_nat i (m_closing m)).
    destruct (ph s i) as [p0|] eqn:Hp.
    - pose proof (mr_phase _ _ R i p0 Hp) as [D1 D2 D3 D4].
      assert (Hi : (length (m_calls m) <=? i)%nat = false).
      { apply Nat.leb_gt. rewrite (mr_len _ _ R). apply ph_lt. congruence. }
      assert (Hc : cnd = ph_done p0 || ph_aband p0 || ph_closing p0).
      { unfold cnd. rewrite Hi, D2, D3, D4. reflexivity. }
      assert (Same : cnd = true -> forall X s', s' = s ->
                     Mrel (if cnd then m else X) s').
      { intros -> X s' ->. exact R. }
      assert (Live' : cnd = false -> ph_polled p0 = Some true -> gc_phase (Some p0) = Some PClosing ->
                      Mrel (if cnd then m else
                              if mem_nat i (m_polled m)
                              then upd_m m (m_now m) (m_calls m) (m_done m) (m_abandoned m)
                                         (m_closing m ++ [i]) (m_polled m) (m_disp m) (m_disp_dropped m)
                                         (m_handles m) (m_contract m)
                              else upd_m m (m_now m) (m_calls m) (m_done m) (m_abandoned m ++ [i])
                                         (m_closing m) (m_polled m) (m_disp m) (m_disp_dropped m)
                                         (m_handles m) (m_contract m)) (guard_close s i)).
      { intros Hf Hpol Hg. rewrite Hf, (D1 true Hpol). rewrite Hc in Hf.
        apply orb_false_iff in Hf. destruct Hf as [Hf F3]. apply orb_false_iff in Hf. destruct Hf as [F1 F2].
        eapply (Mrel_at m _ s _ i R C); try reflexivity.
        - intros j Hne. cbn [m_polled m_abandoned m_closing upd_m]. unfold done_idx. cbn [m_done upd_m].
          rewrite mem_nat_app, mem_nat_single. destruct (Nat_eqb_neq' i j Hne) as [-> _].
          rewrite orb_false_r. auto.
        - intros p Hp'. rewrite P1, Hg in Hp'. injection Hp' as <-.
          constructor; cbn [m_polled m_abandoned m_closing upd_m ph_polled ph_aband ph_closing ph_done];
            unfold done_idx; cbn [m_done upd_m]; fold (done_idx m i).
          + intros b [= <-]. apply (D1 true Hpol).
          + rewrite D2. exact F2.
          + rewrite mem_nat_app, mem_nat_single, Nat.eqb_refl. apply orb_true_r.
          + rewrite D4. exact F1.
        - intro Hn. rewrite P1, Hg in Hn. discriminate. }
      destruct p0; cbn [ph_done ph_aband ph_closing orb] in Hc;
        try (apply (Live' Hc); reflexivity).
      + (* PNew *)
        rewrite Hc, (D1 false eq_refl).
        eapply (Mrel_at m _ s _ i R C); try reflexivity.
        * intros j Hne. cbn [m_polled m_abandoned m_closing upd_m]. unfold done_idx. cbn [m_done upd_m].
          rewrite mem_nat_app, mem_nat_single. destruct (Nat_eqb_neq' i j Hne) as [-> _].
          rewrite orb_false_r. auto.
        * intros p Hp'. rewrite P1 in Hp'. cbn in Hp'. injection Hp' as <-.
          constructor; cbn [m_polled m_abandoned m_closing upd_m ph_polled ph_aband ph_closing ph_done];
            unfold done_idx; cbn [m_done upd_m]; fold (done_idx m i).
          -- discriminate.
          -- rewrite mem_nat_app, mem_nat_single, Nat.eqb_refl. apply orb_true_r.
          -- exact D3.
          -- exact D4.
        * intro Hn. rewrite P1 in Hn. discriminate.
      + apply (Same Hc). reflexivity.
      + apply (Same Hc). apply guard_close_noop. auto.
      + apply (Same Hc). apply guard_close_noop. auto.
    - assert (Hc : cnd = true).
      { unfold cnd. assert (X : (length (m_calls m) <=? i)%nat = true).
        { apply Nat.leb_le. rewrite (mr_len _ _ R). apply Nat.nlt_ge. intro Hlt.
          apply ph_lt in Hlt. congruence. }
        rewrite X. reflexivity. }
      rewrite Hc. rewrite guard_close_noop by auto. exact R.
  Qed.

  Lemma Mrel_guard_cancel m s i :
    Mrel m s -> Mrel (rec_op (T := T) m (GuardCancel i)) (guard_cancel s i).
  Proof.
    intros R. destruct (guard_cancel_eff s i) as [C P1]. cbn [rec_op].
    destruct (ph s i) as [p0|] eqn:Hp.
    - pose proof (mr_phase _ _ R i p0 Hp) as [D1 D2 D3 D4]. rewrite D3.
      destruct p0; cbn [ph_closing]; try (rewrite guard_cancel_noop by congruence; exact R).
      eapply (Mrel_at m _ s _ i R C); try reflexivity.
      + intros j Hne. cbn [m_polled m_abandoned m_closing upd_m]. unfold done_idx. cbn [m_done upd_m].
        rewrite mem_nat_app, mem_nat_single, mem_nat_filter_neq.
        destruct (Nat_eqb_neq' i j Hne) as [-> _]. rewrite orb_false_r, andb_true_r. auto.
      + intros p Hp'. rewrite P1 in Hp'. cbn in Hp'. injection Hp' as <-.
        constructor; cbn [m_polled m_abandoned m_closing upd_m ph_polled ph_aband ph_closing ph_done];
          unfold done_idx; cbn [m_done upd_m]; fold (done_idx m i).
        * discriminate.
        * rewrite mem_nat_app, mem_nat_single, Nat.eqb_refl. apply orb_true_r.
        * rewrite mem_nat_filter_neq, Nat.eqb_refl. apply andb_false_r.
        * exact D4.
      + intro Hn. rewrite P1 in Hn. discriminate.
    - destruct (mr_none _ _ R i Hp) as (N1 & N2 & N3 & N4). rewrite N3.
      rewrite guard_cancel_noop by congruence. exact R.
  Qed.

  (* ---------------------------------------------------------------- Call, handles, the rest *)
  Lemma set_nth_b_eq n x l : set_nth_b n x l = set_nth n x l.
  Proof. revert n; induction l as [|y r IH]; intros [|n]; cbn; try reflexivity. rewrite IH. reflexivity. Qed.

  Lemma Mrel_handles m m' s s' hs :
    Mrel m s -> m_handles m' = hs -> handles s' = hs -> calls s' = calls s ->
    m_calls m' = m_calls m -> m_polled m' = m_polled m ->
    m_abandoned m' = m_abandoned m -> m_closing m' = m_closing m -> m_done m' = m_done m ->
    Mrel m' s'.
  Proof.
    intros [R1 R2 R3 R4] E1 E2 E3 M2 M3 M4 M5 M6.
    constructor; unfold ph, done_idx in *; rewrite ?E3, ?M2, ?M3, ?M4, ?M5, ?M6; try assumption.
    - congruence.
    - intros i p Hp. destruct (R3 i p Hp) as [D1 D2 D3 D4].
      constructor; unfold done_idx; rewrite ?M3, ?M4, ?M5, ?M6; assumption.
  Qed.

  Lemma Mrel_call m s h d tid smp body :
    Mrel m s ->
    Mrel (rec_op (T := T) m (Call h d tid smp body))
         (upd_calls s (calls s ++
            [{| c_handle := h;
                c_phase := match nth_error (handles s) h with Some true => PNew | _ => PGone end;
                c_id := 0; c_rel := d; c_deadline := (now s + d)%N;
                c_tc := {| tc_tid := tid; tc_sid := 0; tc_sampled := smp |}; c_body := body |}])).
  Proof.
    intros R. pose proof R as [R1 R2 R3 R4]. cbn [rec_op]. rewrite R1.
    set (n := length (m_calls m)).
    set (alive := match nth_error (handles s) h with Some true => true | _ => false end).
    set (p0 := match nth_error (handles s) h with Some true => PNew | _ => PGone end).
    assert (Hal : p0 = if alive then PNew else PGone).
    { unfold p0, alive. destruct (nth_error (handles s) h) as [[|]|]; reflexivity. }
    set (knew := {| c_handle := h; c_phase := p0; c_id := 0; c_rel := d; c_deadline := (now s + d)%N;
                    c_tc := {| tc_tid := tid; tc_sid := 0; tc_sampled := smp |}; c_body := body |}).
    set (s' := upd_calls s (calls s ++ [knew])).
    assert (Hn : n = length (calls s)) by exact R2.
    assert (Pn : ph s n = None).
    { destruct (ph s n) eqn:E; [|reflexivity]. exfalso.
      assert (X : ph s n <> None) by congruence. apply ph_lt in X. lia. }
    destruct (R4 n Pn) as (N1 & N2 & N3 & N4).
    assert (Eph : forall i, ph s' i = if Nat.eqb i n then Some p0 else ph s i).
    { intro i. unfold ph, s'. cbn [calls upd_calls]. destruct (Nat.eqb i n) eqn:E.
      - apply Nat.eqb_eq in E. subst i. rewrite Hn, nth_error_app_last. reflexivity.
      - apply Nat.eqb_neq in E. destruct (Nat.lt_ge_cases i (length (calls s))) as [Hl|Hg].
        + rewrite nth_error_app1 by exact Hl. reflexivity.
        + rewrite (proj2 (nth_error_None (calls s ++ [knew]) i)) by (rewrite app_length; cbn; lia).
          rewrite (proj2 (nth_error_None (calls s) i)) by lia. reflexivity. }
    assert (Eab : forall i, mem_nat i (if alive then m_abandoned m else m_abandoned m ++ [n])
                            = mem_nat i (m_abandoned m) || (negb alive && Nat.eqb i n)).
    { intro i. destruct alive; cbn [negb andb]; [rewrite orb_false_r; reflexivity|].
      rewrite mem_nat_app, mem_nat_single. reflexivity. }
    constructor.
    - cbn [m_handles upd_m]. reflexivity.
    - cbn [m_calls upd_m]. unfold s'. cbn [calls upd_calls]. rewrite !app_length. cbn. lia.
    - intros i p Hp. rewrite Eph in Hp. destruct (Nat.eqb i n) eqn:E.
      + apply Nat.eqb_eq in E. subst i. injection Hp as <-.
        constructor; cbn [m_polled m_abandoned m_closing upd_m]; unfold done_idx; cbn [m_done upd_m];
          fold (done_idx m n); fold alive; rewrite ?Eab, ?Nat.eqb_refl, ?N1, ?N2, ?N3, ?N4, Hal;
          destruct alive; cbn; try reflexivity; try discriminate.
        intros b [= <-]. reflexivity.
      + destruct (R3 i p Hp) as [D1 D2 D3 D4].
        constructor; cbn [m_polled m_abandoned m_closing upd_m]; unfold done_idx; cbn [m_done upd_m];
          fold (done_idx m i); fold alive; rewrite ?Eab, ?E, ?andb_false_r, ?orb_false_r; assumption.
    - intros i Hp. rewrite Eph in Hp. destruct (Nat.eqb i n) eqn:E; [discriminate|].
      destruct (R4 i Hp) as (A1 & A2 & A3 & A4).
      cbn [m_polled m_abandoned m_closing upd_m]. unfold done_idx. cbn [m_done upd_m].
      fold (done_idx m i). fold alive. rewrite Eab, E, andb_false_r, orb_false_r. auto.
  Qed.
End MRel.

(* ================================================================== assembly *)
Section Top.
  Context {T : Type}.
  Variable tp : transport T cmsg resp.
  Notation cstate := (@cstate T).
  Implicit Types (s : cstate) (m : mst).
  Variable fuel_of : cstate -> nat.

  Definition inact s : bool :=
    match finished s, dropped s with None, false => false | _, _ => true end.

  Definition J m s : Prop :=
    inact s = true \/ (terminal s <> None /\ inflight s = []) \/
    (terminal s = None /\ Live s /\ Mrel m s).

  (* ---------------------------------------------------------------- small model facts *)
  Lemma inflight_fold_slot_send {A} (f : A -> N) o (l : list A) s :
    inflight (fold_left (fun acc p => slot_send acc (f p) o) l s) = inflight s.
  Proof.
    revert s; induction l as [|x r IH]; intro s; cbn [fold_left]; [reflexivity|].
    rewrite IH. apply (qf_inflight _ _ (QFrame_slot_send s (f x) o)).
  Qed.
  Lemma inflight_shut_down s a : inflight (snd (shut_down s a)) = [].
  Proof.
    unfold shut_down. rewrite (qf_inflight _ _ (QFrame_drain_loop _ a _)).
    unfold complete_all. rewrite (inflight_fold_slot_send (A := N * ifentry) fst). reflexivity.
  Qed.

  Lemma nid_set_phase s i p : next_id (set_phase s i p) = next_id s.
  Proof. rewrite set_phase_alt. reflexivity. Qed.
  Lemma nid_fail_shutdown s i id : next_id (snd (fail_shutdown s i id)) = next_id s.
  Proof. unfold fail_shutdown. cbn [snd]. rewrite nid_set_phase, push_cancel_alt. reflexivity. Qed.
  Lemma nid_poll_slot s i id : next_id (snd (poll_slot s i id)) = next_id s.
  Proof.
    unfold poll_slot. destruct (sl_val _); cbn [snd]; [rewrite nid_set_phase; reflexivity|].
    destruct (sl_tx_gone _); cbn [snd]; [rewrite nid_set_phase; reflexivity|reflexivity].
  Qed.
  Lemma nid_enqueue s i c id tc : next_id (snd (enqueue s i c id tc)) = next_id s.
  Proof. unfold enqueue. rewrite nid_poll_slot, nid_set_phase. reflexivity. Qed.
  Lemma nid_poll_call s i :
    (next_id s + 1 < two64)%N ->
    (next_id s <= next_id (snd (poll_call s i)) <= next_id s + 1)%N.
  Proof.
    intro Hw. unfold poll_call. destruct (nth_error (calls s) i) as [k|]; [|cbn; lia].
    destruct (c_phase k); try (cbn [snd]; lia).
    - cbn zeta. set (s1 := set_slot _ (next_id s) slot0).
      assert (E : next_id s1 = (next_id s + 1)%N).
      { unfold s1. cbn [next_id set_slot upd_slots with_id upd_calls upd_misc]. apply N.mod_small, Hw. }
      destruct (rx_closed s1); [rewrite nid_fail_shutdown; lia|].
      destruct (permits s1); [cbn [snd]; rewrite nid_set_phase; cbn [next_id upd_q]; lia|].
      rewrite nid_enqueue. cbn [next_id upd_q]. lia.
    - destruct (rx_closed s); [rewrite nid_fail_shutdown; cbn [next_id upd_q]; lia|].
      rewrite nid_enqueue. lia.
    - rewrite nid_fail_shutdown. lia.
    - rewrite nid_poll_slot. lia.
  Qed.
  Lemma nid_guard_close s i : next_id (guard_close s i) = next_id s.
  Proof.
    unfold guard_close. destruct (nth_error (calls s) i) as [k|]; [|reflexivity].
    destruct (c_phase k); try reflexivity; try (rewrite nid_set_phase; reflexivity).
    set (s1 := set_phase s i PClosing).
    assert (E : next_id s1 = next_id s) by apply nid_set_phase.
    destruct (rx_closed s1); cbn [next_id slot_rx_close slot_tx_drop set_slot upd_slots upd_q];
      [exact E|]. destruct (release_permit_other s1) as (_ & _ & _ & _ & R5 & _). congruence.
  Qed.
  Lemma nid_guard_cancel s i : next_id (guard_cancel s i) = next_id s.
  Proof.
    unfold guard_cancel. destruct (nth_error (calls s) i) as [k|]; [|reflexivity].
    destruct (c_phase k); try reflexivity. rewrite nid_set_phase, push_cancel_alt. reflexivity.
  Qed.

  Lemma nid_poll_dispatch f s r s' : poll_dispatch tp f s = (r, s') -> next_id s' = next_id s.
  Proof.
    unfold poll_dispatch. intro H. destruct (terminal s).
    - pose proof (IFrame_shut_down s a) as F. destruct (shut_down s a) as [b s1]. cbn [snd] in F.
      destruct b; injection H as _ <-; apply F.
    - destruct (run_loop tp f s) as [rr s1] eqn:E. apply PFrame_run_loop in E.
      destruct rr; try (injection H as _ <-; apply E).
      pose proof (IFrame_shut_down (upd_term s1 (Some a)) a) as F.
      destruct (shut_down _ a) as [b s2]. cbn [snd] in F.
      destruct b; injection H as _ <-; rewrite (pf_nid _ _ (if_p _ _ F)); apply E.
  Qed.

  Lemma nid_step s o s' os :
    (next_id s + 1 < two64)%N -> step tp fuel_of s o = (s', os) ->
    (next_id s <= next_id s' <= next_id s + 1)%N.
  Proof.
    intros Hw H. destruct o; cbn [step] in H.
    - injection H as <- _. destruct (nth_error _ _) as [[|]|]; cbn; lia.
    - injection H as <- _. destruct (nth_error _ _) as [[|]|]; cbn; lia.
    - injection H as <- _. cbn. lia.
    - pose proof (nid_poll_call s i Hw) as X. destruct (poll_call s i) as [r s1].
      injection H as <- _. exact X.
    - injection H as <- _. destruct (option_map _ _) as [[]|];
        rewrite ?nid_guard_cancel, ?nid_guard_close; lia.
    - injection H as <- _. destruct (option_map _ _) as [[]|]; rewrite ?nid_guard_close; lia.
    - injection H as <- _. rewrite nid_guard_cancel. lia.
    - destruct (finished s); [injection H as <- _; lia|].
      destruct (dropped s); [injection H as <- _; lia|].
      destruct (poll_dispatch tp _ _) as [r s1] eqn:Ep. apply nid_poll_dispatch in Ep.
      injection H as <- _. cbn [next_id upd_tr] in *.
      assert (X : next_id (match r with DReady d => upd_fin s1 (Some d) (dropped s1) | _ => s1 end)
                  = next_id s1) by (destruct r; reflexivity).
      rewrite X, Ep. cbn. lia.
    - injection H as <- _. destruct (dropped s); [lia|]. unfold drop_dispatch.
      cbn [next_id upd_fin upd_cancels upd_if upd_q].
      rewrite (pf_nid _ _ (TFrame_P _ _ (TFrame_fold_slot_tx_drop fst _ _))).
      rewrite (pf_nid _ _ (TFrame_P _ _ (TFrame_fold_slot_tx_drop q_id _ _))).
      rewrite (pf_nid _ _ (if_p _ _ (IFrame_q_close s))). lia.
    - injection H as <- _. cbn. lia.
    - injection H as <- _. cbn. lia.
  Qed.

  Lemma chk_calls_v11 maxif l : forall m, v11 (fst (chk_calls maxif m l)) = true.
  Proof.
    induction l as [|x r IH]; intro m; cbn [chk_calls]; [reflexivity|].
    specialize (IH (rec_call m x)). destruct (chk_calls maxif (rec_call m x) r) as [v' m'].
    cbn [fst] in *. cbn [vand v11]. rewrite IH.
    destruct x as [r0|[] r0|r0|r0|[]]; reflexivity.
  Qed.

  Lemma Mrel_step_user maxif m s o s' os :
    Mrel m s -> winv s -> step tp fuel_of s o = (s', os) ->
    o <> PollDispatch -> o <> DropDispatch -> Mrel (snd (chk_obs maxif o m os)) s'.
  Proof.
    intros R W H N1 N2. destruct o; cbn [step] in H; try congruence.
    - injection H as <- <-. unfold chk_obs. cbn [snd rec_op]. rewrite (mr_handles _ _ R).
      destruct (nth_error (handles s) h) as [[|]|]; try exact R.
      eapply (Mrel_handles m _ s _ (handles s ++ [true]) R); reflexivity.
    - injection H as <- <-. unfold chk_obs. cbn [snd rec_op]. rewrite (mr_handles _ _ R).
      destruct (nth_error (handles s) h) as [[|]|]; try exact R.
      eapply (Mrel_handles m _ s _ (set_nth h false (handles s)) R); try reflexivity.
      cbn [m_handles upd_m]. apply set_nth_b_eq.
    - injection H as <- <-. unfold chk_obs. cbn [snd]. apply Mrel_call, R.
    - destruct (poll_call s i) as [r s1] eqn:E. injection H as <- <-.
      apply (Mrel_poll_call maxif m s i r s1 R E).
    - injection H as <- <-. unfold chk_obs. cbn [snd]. apply Mrel_drop_call; assumption.
    - injection H as <- <-. unfold chk_obs. cbn [snd]. apply Mrel_guard_close; assumption.
    - injection H as <- <-. unfold chk_obs. cbn [snd]. apply Mrel_guard_cancel; assumption.
    - injection H as <- <-. unfold chk_obs. cbn [snd rec_op].
      eapply Mrel_same; try exact R; reflexivity.
    - injection H as <- <-. unfold chk_obs. cbn [snd rec_op].
      eapply Mrel_same; try exact R; reflexivity.
  Qed.

  Lemma inact_U s s' : UFrame s s' -> inact s' = inact s.
  Proof. intro F. unfold inact. rewrite (uf_finished _ _ F), (uf_dropped _ _ F). reflexivity. Qed.

  (* all calls are done or abandoned, as the observer sees it *)
  Lemma all_dead m s :
    Mrel m s ->
    forallb (fun i => done_idx m i || mem_nat i (m_abandoned m)) (seq 0 (length (m_calls m))) = true ->
    forall i k, nth_error (calls s) i = Some k -> gA (c_phase k) = false.
  Proof.
    intros R H i k Hk. rewrite forallb_forall in H.
    assert (Hi : (i < length (m_calls m))%nat).
    { rewrite (mr_len _ _ R). apply nth_error_Some. congruence. }
    specialize (H i ltac:(apply in_seq; lia)).
    assert (Hp : ph s i = Some (c_phase k)) by (unfold ph; rewrite Hk; reflexivity).
    destruct (mr_phase _ _ R i _ Hp) as [D1 D2 D3 D4]. rewrite D2, D4 in H.
    destruct (c_phase k); try reflexivity; discriminate.
  Qed.

  Lemma reclaimed m s :
    Live s -> Mrel m s -> cancels s = [] ->
    forallb (fun i => done_idx m i || mem_nat i (m_abandoned m)) (seq 0 (length (m_calls m))) = true ->
    inflight s = [].
  Proof.
    intros L R Hc Hd. apply cI_zero_nil. intro id.
    destruct (CI s id) as [|n] eqn:E; [exact E|exfalso].
    destruct (l_cov _ L id ltac:(lia)) as [X|X].
    - rewrite Hc in X. destruct X.
    - unfold CA in X. rewrite (cP_zero_dead gA (calls s) id (all_dead m s R Hd)) in X. lia.
  Qed.

  (* the dispatch poll from a live state *)
  Lemma poll_dispatch_live m f s r s1 :
    terminal s = None -> Live s -> Mrel m s -> poll_dispatch tp f s = (r, s1) ->
    match r with
    | DReady _ => True
    | DPending =>
      (terminal s1 <> None /\ inflight s1 = []) \/
      (terminal s1 = None /\ Live s1 /\ Mrel m s1 /\
       (forallb cleanc (plog s1) = true -> cancels s1 = []))
    | DFuel => terminal s1 = None /\ Live s1 /\ Mrel m s1
    end.
  Proof.
    intros Ht L R. unfold poll_dispatch. rewrite Ht.
    destruct (run_loop tp f s) as [rr s2] eqn:Er.
    destruct (Live_run_loop tp f _ _ _ L Er) as [L2 E2].
    pose proof (PFrame_run_loop _ _ _ _ _ Er) as F2.
    assert (T2 : terminal s2 = None) by (rewrite (pf_terminal _ _ F2); exact Ht).
    assert (R2 : Mrel m s2).
    { eapply Mrel_same; try exact R; try reflexivity; [apply F2|exact E2]. }
    destruct rr.
    - intros [= <- <-]. exact I.
    - pose proof (inflight_shut_down (upd_term s2 (Some a)) a) as Hi.
      pose proof (IFrame_shut_down (upd_term s2 (Some a)) a) as F3.
      destruct (shut_down _ a) as [b s3]. cbn [snd] in *.
      destruct b; intros [= <- <-]; [exact I|].
      left. split; [|exact Hi]. rewrite (pf_terminal _ _ (if_p _ _ F3)). discriminate.
    - intros [= <- <-]. right. split; [exact T2|]. split; [exact L2|]. split; [exact R2|].
      intro C. eapply rl_drained; eassumption.
    - intros [= <- <-]. auto.
  Qed.

  Lemma J_step maxif m s o s' os :
    J m s -> (next_id s + 1 < two64)%N -> step tp fuel_of s o = (s', os) ->
    forallb (gauge_ok maxif) os = true ->
    v11 (fst (chk_obs maxif o m os)) = true /\ J (snd (chk_obs maxif o m os)) s'.
  Proof.
    intros HJ Hw H Hg.
    assert (User : o <> PollDispatch -> o <> DropDispatch -> J (snd (chk_obs maxif o m os)) s').
    { intros N1 N2. pose proof (UFrame_step _ _ _ _ _ _ H N1 N2) as F.
      destruct HJ as [HJ|[[HJ1 HJ2]|(HJ1 & HJ2 & HJ3)]].
      - left. rewrite (inact_U _ _ F). exact HJ.
      - right; left. rewrite (uf_terminal _ _ F), (uf_inflight _ _ F). auto.
      - right; right. rewrite (uf_terminal _ _ F). split; [exact HJ1|]. split.
        + eapply Live_step_user; eassumption.
        + eapply Mrel_step_user; try eassumption. apply HJ2. }
    destruct o; try (split; [|apply User; discriminate]; cbn [step] in H; injection H as _ <-; reflexivity).
    - (* PollCall *)
      split; [|apply User; discriminate]. cbn [step] in H. destruct (poll_call s i) as [r s1].
      injection H as _ <-. destruct r; reflexivity.
    - (* PollDispatch *)
      clear User. cbn [step] in H. unfold chk_obs.
      destruct (finished s) eqn:Ef.
      { injection H as <- <-. cbn [fst snd]. split; [reflexivity|]. left. unfold inact. rewrite Ef. reflexivity. }
      destruct (dropped s) eqn:Ed.
      { injection H as <- <-. cbn [fst snd]. split; [reflexivity|]. left. unfold inact. rewrite Ef, Ed. reflexivity. }
      set (s0 := upd_tr s (tr s) (fused s) []) in *.
      destruct (poll_dispatch tp (fuel_of s0) s0) as [r s1] eqn:Ep.
      set (s2 := match r with DReady d => upd_fin s1 (Some d) (dropped s1) | _ => s1 end) in *.
      injection H as <- <-. unfold gauges in *. cbn [app] in *.
      pose proof (chk_calls_v11 maxif (plog s1) (rec_op (T := T) m PollDispatch)) as V.
      pose proof (chk_calls_snd maxif (rec_op (T := T) m PollDispatch) (plog s1)) as M2.
      destruct (chk_calls maxif (rec_op (T := T) m PollDispatch) (plog s1)) as [v m2].
      cbn [fst snd] in V, M2. destruct (c_poll _ _ _) as [okc c2]. cbn [fst snd vand v11].
      rewrite V. cbn [forallb gauge_ok andb] in Hg. rewrite andb_true_r in Hg. rewrite Hg. cbn [andb].
      assert (Em : m_done m2 = m_done m /\ m_abandoned m2 = m_abandoned m /\ m_calls m2 = m_calls m /\
                   m_polled m2 = m_polled m /\ m_closing m2 = m_closing m /\ m_handles m2 = m_handles m).
      { rewrite M2, mrun_done, mrun_abandoned, mrun_calls, mrun_polled, mrun_closing, mrun_handles.
        cbn [rec_op]. repeat split. }
      destruct Em as (M3 & M4 & M5 & M6 & M7 & M8).
      set (mf := upd_m m2 _ _ _ _ _ _ _ _ _ _).
      assert (Fin : forall s3, Mrel m s3 -> Mrel mf (upd_tr s3 (tr s3) (fused s3) [])).
      { intros s3 R3. eapply Mrel_same; try exact R3; try reflexivity; assumption. }
      assert (Dead : forall d, r = DReady d -> inact (upd_tr s2 (tr s2) (fused s2) []) = true).
      { intros d ->. reflexivity. }
      destruct HJ as [HJ|[[HJ1 HJ2]|(HJ1 & HJ2 & HJ3)]].
      + unfold inact in HJ. rewrite Ef, Ed in HJ. discriminate.
      + (* the dispatch has already failed *)
        assert (Hi : inflight s1 = []).
        { unfold poll_dispatch in Ep. change (terminal s0) with (terminal s) in Ep.
          destruct (terminal s) as [a|]; [|congruence].
          pose proof (inflight_shut_down s0 a) as X. destruct (shut_down s0 a) as [b s3].
          cbn [snd] in X. destruct b; injection Ep as _ <-; exact X. }
        assert (Ht : terminal s1 <> None).
        { unfold poll_dispatch in Ep. change (terminal s0) with (terminal s) in Ep.
          destruct (terminal s) as [a|] eqn:Et; [|congruence].
          pose proof (IFrame_shut_down s0 a) as X. destruct (shut_down s0 a) as [b s3].
          cbn [snd] in X.
          assert (Y : terminal s3 = Some a) by (rewrite (pf_terminal _ _ (if_p _ _ X)); exact Et).
          destruct b; injection Ep as _ <-; congruence. }
        assert (Hi2 : inflight s2 = []) by (unfold s2; destruct r; exact Hi).
        rewrite Hi2. cbn [length N.of_nat N.eqb]. rewrite orb_true_r. split; [reflexivity|].
        destruct r as [d| |]; [left; eapply Dead; reflexivity|right; left|right; left];
          cbn [terminal inflight upd_tr]; auto.
      + (* live *)
        assert (L0 : Live s0) by (eapply Live_X; [apply XFrame_upd_tr|exact HJ2]).
        assert (R0 : Mrel m s0) by (eapply Mrel_same; try exact HJ3; reflexivity).
        pose proof (poll_dispatch_live m _ s0 r s1 HJ1 L0 R0 Ep) as P.
        destruct r as [d| |].
        * cbn [is_pending andb negb orb]. split; [reflexivity|]. left. eapply Dead. reflexivity.
        * destruct P as [[P1 P2]|(P1 & P2 & P3 & P4)].
          -- unfold s2. rewrite P2. cbn [length N.of_nat N.eqb]. rewrite orb_true_r.
             split; [reflexivity|]. right; left. cbn [terminal inflight upd_tr]. auto.
          -- split.
             ++ cbn [is_pending andb]. unfold s2.
                destruct (clean_log (plog s1)) eqn:Cl; [|reflexivity].
                destruct (m_first_err m2); [reflexivity|]. cbn [andb].
                destruct (forallb _ (seq 0 (length (m_calls m2)))) eqn:Fa; [|reflexivity].
                cbn [negb orb].
                assert (Hc : cancels s1 = []) by (apply P4, clean_log_cleanc, Cl).
                assert (Hi : inflight s1 = []).
                { apply (reclaimed m s1 P2 P3 Hc). rewrite <- M5.
                  rewrite forallb_forall in Fa |- *. intros i Hi. specialize (Fa i Hi).
                  unfold done_idx in *. rewrite M3, M4 in Fa. exact Fa. }
                rewrite Hi. reflexivity.
             ++ right; right. cbn [terminal upd_tr]. split; [exact P1|]. split.
                ** eapply Live_X; [apply XFrame_upd_tr|exact P2].
                ** apply Fin, P3.
        * destruct P as (P1 & P2 & P3). cbn [is_pending andb negb orb]. split; [reflexivity|].
          right; right. cbn [terminal upd_tr]. split; [exact P1|]. split.
          -- eapply Live_X; [apply XFrame_upd_tr|exact P2].
          -- apply Fin, P3.
    - (* DropDispatch *)
      clear User. cbn [step] in H. injection H as <- <-. unfold chk_obs. cbn [fst snd].
      split; [reflexivity|]. left. destruct (dropped s) eqn:Ed; unfold inact.
      + rewrite Ed. destruct (finished s); reflexivity.
      + unfold drop_dispatch. cbn [dropped upd_fin finished]. destruct (finished _); reflexivity.
  Qed.

  Lemma run_c11 maxif ops : forall s m,
    J m s -> K s -> max_if s = maxif -> (next_id s + N.of_nat (length ops) < two64)%N ->
    v11 (chk_run maxif m ops (fst (run_from tp fuel_of s ops))) = true.
  Proof.
    induction ops as [|o r IH]; intros s m HJ HK HM Hw; cbn [run_from]; [reflexivity|].
    destruct (step tp fuel_of s o) as [s1 l] eqn:Es.
    destruct (K_step tp fuel_of maxif _ _ _ _ HK HM Es) as (K1 & M1 & G).
    assert (Hw1 : (next_id s + 1 < two64)%N) by (cbn [length] in Hw; lia).
    destruct (J_step maxif m _ _ _ _ HJ Hw1 Es G) as [V J1].
    pose proof (nid_step _ _ _ _ Hw1 Es) as Hn.
    specialize (IH s1 (snd (chk_obs maxif o m l)) J1 K1 M1 ltac:(cbn [length] in Hw; lia)).
    destruct (run_from tp fuel_of s1 r) as [ls s2]. cbn [fst chk_run] in *.
    destruct (chk_obs maxif o m l) as [v m']. cbn [fst snd] in *.
    cbn [vand v11]. rewrite V, IH. reflexivity.
  Qed.
End Top.

Theorem c11_holds {T : Type} : @stmt_c11 T.
Proof.
  unfold stmt_c11, c11_ok, monitors, client_trace, no_wrap.
  intros tp fuel_of t0 qcap maxif ops Hw.
  apply run_c11; try reflexivity.
  - right; right. split; [reflexivity|]. split.
    + constructor; try (cbn; intros; lia); try reflexivity.
      constructor; [intros w []|constructor].
    + constructor; try reflexivity.
      * intros i p H. unfold ph in H. cbn in H. destruct i; discriminate.
      * intros i _. unfold done_idx. cbn. destruct i; auto.
  - constructor; cbn; [reflexivity|lia].
  - cbn [next_id init]. unfold two64. lia.
Qed.
Print Assumptions c11_holds.
