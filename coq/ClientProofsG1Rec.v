(* Client proofs, group G1: C11, the "fully reclaimed" clause, and the theorem c11_holds.
   Without id wrap-around (no_wrap) every tracked request id belongs to exactly one stage
   (id handed out / queued / in flight), its oneshot is unsettled, and it is covered by a call
   future that still awaits it (or is being dropped) or by a queued cancellation. *)
From Coq Require Import List Bool Arith NArith Lia ZifyBool ZifyNat ZifyN.
Import ListNotations.
From TarpcV Require Import Base Transport Client ClientS ClientMon ClientSpec ClientLemmas
  ClientProofsG1Frames ClientSimBase ClientProofsG1C11.

Arguments N.modulo : simpl never.
Arguments N.add : simpl never.
Arguments N.min : simpl never.
Arguments N.sub : simpl never.

(* ================================================================== counting *)
Definition b2n (b : bool) : nat := if b then 1 else 0.

Section Cnt.
  Context {A : Type}.
  Definition cnt (f : A -> bool) (l : list A) : nat := length (filter f l).
  Lemma cnt_nil f : cnt f [] = 0%nat.
  Proof. reflexivity. Qed.
  Lemma cnt_cons f x l : cnt f (x :: l) = (b2n (f x) + cnt f l)%nat.
  Proof. unfold cnt. cbn [filter]. destruct (f x); reflexivity. Qed.
  Lemma cnt_app f l1 l2 : cnt f (l1 ++ l2) = (cnt f l1 + cnt f l2)%nat.
  Proof. unfold cnt. rewrite filter_app, app_length. reflexivity. Qed.
  Lemma cnt_set_nth f i x y l :
    nth_error l i = Some x -> (cnt f (set_nth i y l) + b2n (f x) = cnt f l + b2n (f y))%nat.
  Proof.
    revert i; induction l as [|z r IH]; intros [|i]; cbn [nth_error set_nth]; try discriminate.
    - intros [= ->]. rewrite !cnt_cons. lia.
    - intro H. rewrite !cnt_cons. specialize (IH i H). lia.
  Qed.
  Lemma cnt_pos_In f l : (1 <= cnt f l)%nat <-> exists x, In x l /\ f x = true.
  Proof.
    induction l as [|z r IH]; [cbn; split; [lia|intros (x & [] & _)]|].
    rewrite cnt_cons. split.
    - intro H. destruct (f z) eqn:E; [exists z; split; [left; reflexivity|exact E]|].
      cbn [b2n] in H. destruct (proj1 IH ltac:(lia)) as (x & Hin & Hx). exists x. split; [right|]; assumption.
    - intros (x & [->|Hin] & Hx); [rewrite Hx; cbn; lia|].
      assert (1 <= cnt f r)%nat by (apply IH; exists x; auto). lia.
  Qed.
  Lemma cnt_zero f l : cnt f l = 0%nat <-> forall x, In x l -> f x = false.
  Proof.
    split.
    - intros H x Hin. destruct (f x) eqn:E; [|reflexivity].
      assert (1 <= cnt f l)%nat by (apply cnt_pos_In; exists x; auto). lia.
    - intro H. destruct (cnt f l) eqn:E; [reflexivity|].
      destruct (proj1 (cnt_pos_In f l) ltac:(lia)) as (x & Hin & Hx). rewrite (H x Hin) in Hx.
      discriminate.
  Qed.
End Cnt.

(* occurrences of a request id in the request queue / the in-flight table / the call table *)
Definition cQ (l : list qitem) (id : N) : nat := cnt (fun q => N.eqb (q_id q) id) l.
Definition cI (l : list (N * ifentry)) (id : N) : nat := cnt (fun p => N.eqb (fst p) id) l.
Definition cP (g : phase -> bool) (l : list call) (id : N) : nat :=
  cnt (fun k => g (c_phase k) && N.eqb (c_id k) id) l.

(* id handed out, request not yet queued *)
Definition gS (p : phase) : bool :=
  match p with PAcquiring | PAssigned | PAcqClosed => true | _ => false end.
(* the caller still holds (or is dropping) the response guard *)
Definition gA (p : phase) : bool := match p with PAwaiting | PClosing => true | _ => false end.
Definition gW (p : phase) : bool := match p with PAwaiting => true | _ => false end.

Lemma cI_aremove id m id' : cI (aremove id m) id' = if N.eqb id' id then 0%nat else cI m id'.
Proof.
  unfold cI. induction m as [|[k v] r IH]; cbn [aremove]; [rewrite cnt_nil; destruct (N.eqb id' id); reflexivity|].
  destruct (N.eqb id k) eqn:E.
  - rewrite IH, cnt_cons. cbn [fst]. apply N.eqb_eq in E. subst k.
    destruct (N.eqb id' id) eqn:E2; [reflexivity|].
    rewrite N.eqb_sym, E2. reflexivity.
  - rewrite !cnt_cons, IH. cbn [fst]. destruct (N.eqb id' id) eqn:E2; [|reflexivity].
    apply N.eqb_eq in E2. subst id'. rewrite N.eqb_sym, E. reflexivity.
Qed.
Lemma cI_aset id v m id' : cI (aset id v m) id' = if N.eqb id' id then 1%nat else cI m id'.
Proof.
  unfold aset. unfold cI at 1. rewrite cnt_cons. cbn [fst]. fold (cI (aremove id m) id').
  rewrite cI_aremove, (N.eqb_sym id id'). destruct (N.eqb id' id); reflexivity.
Qed.
Lemma cI_pos_In m id : (1 <= cI m id)%nat <-> In id (map fst m).
Proof.
  unfold cI. rewrite cnt_pos_In, in_map_iff. split.
  - intros (x & Hin & Hx). apply N.eqb_eq in Hx. exists x. auto.
  - intros (x & Hx & Hin). exists x. split; [exact Hin|apply N.eqb_eq, Hx].
Qed.
Lemma cI_zero_nil m : (forall id, cI m id = 0%nat) -> m = [].
Proof.
  destruct m as [|[k v] r]; [reflexivity|]. intro H. specialize (H k).
  unfold cI in H. rewrite cnt_cons in H. cbn [fst] in H. rewrite N.eqb_refl in H. cbn in H. lia.
Qed.
Lemma cQ_pos_In l id : (1 <= cQ l id)%nat <-> exists q, In q l /\ q_id q = id.
Proof.
  unfold cQ. rewrite cnt_pos_In. split; intros (x & Hin & Hx); exists x; split; auto;
    apply N.eqb_eq; exact Hx.
Qed.

Lemma cP_phase_calls g l i k p id :
  nth_error l i = Some k ->
  (cP g (phase_calls l i p) id + b2n (g (c_phase k) && N.eqb (c_id k) id)
   = cP g l id + b2n (g p && N.eqb (c_id k) id))%nat.
Proof.
  intro H. unfold phase_calls, cP. rewrite H.
  apply (cnt_set_nth (fun k0 => g (c_phase k0) && N.eqb (c_id k0) id) i k (with_phase k p) l H).
Qed.
Lemma cP_phase_calls_none g l i p id : nth_error l i = None -> cP g (phase_calls l i p) id = cP g l id.
Proof. intro H. unfold phase_calls. rewrite H. reflexivity. Qed.
Lemma cP_pos g l id :
  (1 <= cP g l id)%nat <-> exists i k, nth_error l i = Some k /\ g (c_phase k) = true /\ c_id k = id.
Proof.
  unfold cP. rewrite cnt_pos_In. split.
  - intros (k & Hin & Hk). apply andb_true_iff in Hk. destruct Hk as [H1 H2].
    apply N.eqb_eq in H2. apply In_nth_error in Hin. destruct Hin as [i Hi]. exists i, k. auto.
  - intros (i & k & Hi & H1 & H2). exists k. split; [eapply nth_error_In, Hi|].
    rewrite H1, H2, N.eqb_refl. reflexivity.
Qed.
Lemma cP_zero_dead g l id :
  (forall i k, nth_error l i = Some k -> g (c_phase k) = false) -> cP g l id = 0%nat.
Proof.
  intro H. apply cnt_zero. intros k Hin. apply In_nth_error in Hin. destruct Hin as [i Hi].
  rewrite (H i k Hi). reflexivity.
Qed.

Definition slot_done (x : slot) : bool :=
  match sl_val x with Some _ => true | None => sl_tx_gone x end.

(* ================================================================== the invariant *)
Section Live.
  Context {T : Type}.
  Variable tp : transport T cmsg resp.
  Notation cstate := (@cstate T).
  Implicit Types s : cstate.

  Definition CS s id := cP gS (calls s) id.
  Definition CA s id := cP gA (calls s) id.
  Definition CW s id := cP gW (calls s) id.
  Definition CQ s id := cQ (queue s) id.
  Definition CI s id := cI (inflight s) id.
  Definition TT s id : nat := (CS s id + CQ s id + CI s id)%nat.

  Record Live s : Prop := {
    l_dropped : dropped s = false;
    l_w : winv s;
    l_uniq : forall id, (TT s id <= 1)%nat;
    l_fresh : forall id, (next_id s <= id)%N -> TT s id = 0%nat;
    l_ndone : forall id, (1 <= TT s id)%nat -> slot_done (get_slot s id) = false;
    l_cov : forall id, (1 <= CI s id)%nat -> In id (cancels s) \/ (1 <= CA s id)%nat;
    l_qcov : forall id, (1 <= CQ s id)%nat ->
                        sl_rx_closed (get_slot s id) = true \/ (1 <= CW s id)%nat }.

  Lemma Live_eq s s' :
    calls s' = calls s -> queue s' = queue s -> inflight s' = inflight s -> slots s' = slots s ->
    cancels s' = cancels s -> waiters s' = waiters s -> next_id s' = next_id s ->
    dropped s' = dropped s -> Live s -> Live s'.
  Proof.
    intros E1 E2 E3 E4 E5 E6 E7 E8 [A B C D E F G].
    constructor; unfold TT, CS, CA, CW, CQ, CI, get_slot in *;
      rewrite ?E1, ?E2, ?E3, ?E4, ?E5, ?E6, ?E7, ?E8; try assumption.
    eapply winv_frame; eassumption.
  Qed.
  Lemma Live_X s s' : XFrame s s' -> Live s -> Live s'.
  Proof.
    intro F. apply Live_eq; try apply F; apply (xf_p _ _ F).
  Qed.
End Live.
