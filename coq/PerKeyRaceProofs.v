(* Proofs about MaxChannelsPerKey under concurrent channel drops (PerKeyRace.v): the limit holds
   for every interleaving; a shed is justified by the count that was READ; a closed channel
   frees capacity.  Reuses the invariant and the per-function lemmas of PerKeyProofs.v. *)
From Coq Require Import List Arith Lia Bool.
Import ListNotations.
From TarpcV Require Import PerKey PerKeyProofs PerKeyRace.

(* ---- the invariant: PerKeyProofs.Inv on the data, plus what the program counter remembers ---- *)
Definition PcOk (b : st) (p : rpc) : Prop :=
  match p with
  | PcUpgrade k t => lookup k (kc b) = Some t /\ strong t (chans b) < lim b
  | _ => True
  end.
Definition RInv (s : rst) : Prop := Inv (rb s) /\ PcOk (rb s) (pc s).

(* what one op does to the things the monitor tracks *)
Definition Eff (b b' : st) (od : list obs) : Prop :=
  lim b' = lim b /\
  (((od = [] \/ od = [OPending] \/ od = [OEnd]) /\ chans b' = chans b)
   \/ (exists k, od = [OShed k] /\ chans b' = chans b /\ alive k (chans b) = lim b)
   \/ (exists k t, od = [OYield (next_cid b) k]
         /\ chans b' = {| c_id := next_cid b; c_key := k; c_tid := t |} :: chans b
         /\ alive k (chans b) < lim b)).

Lemma Eff_frame b0 b b' od :
  chans b0 = chans b -> lim b0 = lim b -> next_cid b0 = next_cid b -> Eff b0 b' od -> Eff b b' od.
Proof. unfold Eff. intros -> -> ->. auto. Qed.

Lemma inv_with_notifs b v : Inv b -> Inv (with_notifs b v).
Proof. intros [A B C D J E]; constructor; cbn; assumption. Qed.

Lemma mon_obs_eff b b' od :
  Eff b b' od -> mon_obs (lim b) (proj (chans b)) od = (true, proj (chans b')).
Proof.
  intros (_ & [([->|[->| ->]] & Hc)|[(k & -> & Hc & Ha)|(k & t & -> & Hc & Ha)]]); cbn [mon_obs]; rewrite Hc.
  - reflexivity.
  - reflexivity.
  - reflexivity.
  - rewrite live_count_proj, Ha, Nat.eqb_refl. reflexivity.
  - rewrite live_count_proj. apply Nat.ltb_lt in Ha. rewrite Ha. reflexivity.
Qed.

(* ---- the atomic actions of the listener task -------------------------------------------------- *)
Lemma listen_spec b w :
  Inv b -> RInv (fst (listen b w)) /\ Eff b (rb (fst (listen b w))) (snd (listen b w)).
Proof.
  intros I. unfold listen. destruct (arrivals b) as [|k r] eqn:Ea.
  - cbn. split; [split; [exact I|exact Logic.I]|]. split; [reflexivity|left; auto].
  - pose proof (inv_pop b I) as I1. set (b1 := pop_arrival b) in *.
    assert (Hc : chans b1 = chans b) by reflexivity.
    assert (Hl : lim b1 = lim b) by reflexivity.
    assert (Hn : next_cid b1 = next_cid b) by reflexivity.
    destruct (lookup k (kc b1)) as [t|] eqn:Ek.
    + pose proof (alive_eq_strong b1 k t I1 Ek) as Ha. pose proof (inv_cap b1 I1 t) as Hcap.
      destruct (lim b1 <=? strong t (chans b1)) eqn:El; cbn [fst snd rb pc].
      * apply Nat.leb_le in El. split; [split; [exact I1|exact Logic.I]|].
        split; [exact Hl|right; left]. exists k. split; [reflexivity|split; [exact Hc|]].
        rewrite <- Hc, <- Hl. lia.
      * apply Nat.leb_gt in El. split; [split; [exact I1|split; [exact Ek|exact El]]|].
        split; [exact Hl|left; auto].
    + cbn [fst snd rb pc].
      pose proof (alive_no_entry b1 k I1 Ek) as Ha.
      split; [split; [|exact Logic.I]|].
      * apply inv_accept_fresh; [exact I1|]. apply alive_zero_no_chan. exact Ha.
      * split; [reflexivity|right; right]. exists k, (next_tid b1).
        split; [reflexivity|split; [reflexivity|]].
        rewrite <- Hc, Ha. pose proof (inv_lim b I). lia.
Qed.

Lemma upgrade_spec b w k t :
  Inv b -> lookup k (kc b) = Some t -> strong t (chans b) < lim b ->
  RInv (fst (upgrade b w k t)) /\ Eff b (rb (fst (upgrade b w k t))) (snd (upgrade b w k t)).
Proof.
  intros I Hk Hlt. unfold upgrade. cbn [fst snd rb pc].
  pose proof (alive_eq_strong b k t I Hk) as Ha.
  destruct (Nat.eqb (strong t (chans b)) 0) eqn:E0.
  - apply Nat.eqb_eq in E0. split; [split; [|exact Logic.I]|].
    + apply inv_accept_fresh; [exact I|]. exact (no_holder_no_chan b k t I Hk E0).
    + split; [reflexivity|right; right]. exists k, (next_tid b).
      split; [reflexivity|split; [reflexivity|lia]].
  - split; [split; [|exact Logic.I]|].
    + apply inv_accept_reuse; assumption.
    + split; [reflexivity|right; right]. exists k, t.
      split; [reflexivity|split; [reflexivity|lia]].
Qed.

Lemma finish_spec b w l c :
  Inv b -> RInv (fst (finish b w l c)) /\ Eff b (rb (fst (finish b w l c))) (fst (snd (finish b w l c))).
Proof.
  intros I. destruct l; try destruct c; cbn; (split; [split; [exact I|exact Logic.I]|]);
    (split; [reflexivity|left; auto]).
Qed.

Lemma lstep_spec s :
  RInv s -> RInv (fst (lstep s)) /\ Eff (rb s) (rb (fst (lstep s))) (fst (snd (lstep s))).
Proof.
  destruct s as [b p w]. intros (I & P). cbn [rb pc] in *. unfold lstep. cbn [pc rb owed].
  destruct p as [| |k t|l|l k].
  - pose proof (listen_spec b w I) as H. destruct (listen b w) as [s' o]. exact H.
  - pose proof (listen_spec b w I) as H. destruct (listen b w) as [s' o]. exact H.
  - destruct P as (Hk & Hlt). pose proof (upgrade_spec b w k t I Hk Hlt) as H.
    destruct (upgrade b w k t) as [s' o]. exact H.
  - destruct (notifs b) as [|k r] eqn:En.
    + exact (finish_spec b w l false I).
    + cbn [fst snd rb pc]. split; [split; [apply inv_with_notifs, I|exact Logic.I]|].
      split; [reflexivity|left; auto].
  - set (b0 := with_notifs b (k :: notifs b)).
    pose proof (inv_closed b0 (inv_with_notifs b _ I)) as I1.
    destruct (closed_frame true b0) as (Hc & Hl & _ & _ & Hn & _). cbv zeta in *.
    destruct (finish_spec (snd (poll_closed true b0)) w l true I1) as (R & E).
    split; [exact R|]. eapply Eff_frame; [| | |exact E].
    + rewrite Hc. reflexivity.
    + rewrite Hl. reflexivity.
    + rewrite Hn. reflexivity.
Qed.

(* ---- the ops of the other threads ------------------------------------------------------------- *)
Lemma arrive_frame b k :
  let b' := fst (step true b (Arrive k)) in
  (Inv b -> Inv b') /\ chans b' = chans b /\ kc b' = kc b /\ lim b' = lim b.
Proof.
  cbn [step fst]. destruct (ended b); [auto|]. split; [|auto].
  intros [A B C D J E]; constructor; cbn; assumption.
Qed.

Lemma endl_frame b :
  let b' := fst (step true b EndListener) in
  (Inv b -> Inv b') /\ chans b' = chans b /\ kc b' = kc b /\ lim b' = lim b.
Proof.
  cbn [step fst]. split; [|auto]. intros [A B C D J E]; constructor; cbn; assumption.
Qed.

Lemma close_kc b cid : kc (close b cid) = kc b.
Proof. unfold close. destruct (find _ (chans b)); reflexivity. Qed.

Lemma PcOk_frame b b' p :
  kc b' = kc b -> lim b' = lim b -> (forall t, strong t (chans b') <= strong t (chans b)) ->
  PcOk b p -> PcOk b' p.
Proof.
  intros Hk Hl Hs. destruct p; cbn; auto. rewrite Hk, Hl. intros (A & B). split; [exact A|].
  specialize (Hs t). lia.
Qed.

(* one op: the invariant is kept and the monitor accepts its decision view *)
Lemma rstep_spec s o :
  RInv s ->
  let s' := fst (rstep s o) in
  RInv s' /\ lim (rb s') = lim (rb s)
  /\ mon_obs (lim (rb s))
       (match to_op o with
        | Close cid => filter (fun p => negb (Nat.eqb (fst p) cid)) (proj (chans (rb s)))
        | _ => proj (chans (rb s)) end)
       (fst (snd (rstep s o)))
     = (true, proj (chans (rb s'))).
Proof.
  intros (I & P). cbv zeta. destruct o as [k|cid|k|cid| |]; cbn [rstep to_op].
  - cbn [fst snd rb pc].
    destruct (arrive_frame (rb s) k) as (A & Hc & Hk & Hl). cbv zeta in *.
    split; [split; [exact (A I)|]|split; [exact Hl|]].
    + eapply PcOk_frame; [exact Hk|exact Hl| |exact P]. intros t. cbn [rb]. rewrite Hc. lia.
    + cbn [mon_obs]. rewrite Hc. reflexivity.
  - (* release: PerKey.close on everything but the notification queue *)
    unfold release. cbn [fst snd rb pc].
    split; [split; [exact (inv_with_notifs _ _ (inv_close _ cid I))|]|split; [apply close_lim|]].
    + eapply PcOk_frame; [apply close_kc|apply close_lim| |exact P].
      intros t. cbn [rb with_notifs chans]. rewrite close_chans. apply strong_filter_le.
    + cbn [mon_obs with_notifs chans]. rewrite close_chans, proj_filter. reflexivity.
  - (* a notification is queued: nothing the invariant or the monitor reads *)
    destruct (existsb (Nat.eqb k) (owed s)); cbn [fst snd rb pc].
    + split; [split; [exact (inv_with_notifs _ _ I)|]|split; [reflexivity|reflexivity]].
      eapply PcOk_frame; [reflexivity|reflexivity| |exact P]. intros t. cbn [rb with_notifs chans]. lia.
    + split; [split; [exact I|exact P]|split; reflexivity].
  - cbn [fst snd rb pc].
    split; [split; [exact (inv_close _ cid I)|]|split; [apply close_lim|]].
    + eapply PcOk_frame; [apply close_kc|apply close_lim| |exact P].
      intros t. cbn [rb]. rewrite close_chans. apply strong_filter_le.
    + cbn [mon_obs]. rewrite close_chans, proj_filter. reflexivity.
  - destruct (lstep_spec s (conj I P)) as (R & E).
    split; [exact R|split; [exact (proj1 E)|]]. exact (mon_obs_eff _ _ _ E).
  - cbn [fst snd rb pc].
    destruct (endl_frame (rb s)) as (A & Hc & Hk & Hl). cbv zeta in *.
    split; [split; [exact (A I)|]|split; [exact Hl|]].
    + eapply PcOk_frame; [exact Hk|exact Hl| |exact P]. intros t. cbn [rb]. rewrite Hc. lia.
    + cbn [mon_obs]. rewrite Hc. reflexivity.
Qed.

Lemma rrun_ok : forall ops s,
  RInv s ->
  mon (lim (rb s)) (proj (chans (rb s))) (map to_op ops) (decision_view (fst (rrun_from s ops))) = true
  /\ RInv (snd (rrun_from s ops)) /\ lim (rb (snd (rrun_from s ops))) = lim (rb s).
Proof.
  induction ops as [|o ops IH]; intros s R; [cbn; auto|].
  cbn [rrun_from]. pose proof (rstep_spec s o R) as H. cbv zeta in H.
  destruct (rstep s o) as [s1 [od orp]]. cbn [fst snd] in H. destruct H as (R1 & Hl & Hm).
  destruct (IH s1 R1) as (M & R2 & Hl2). destruct (rrun_from s1 ops) as [ls s2].
  cbn [fst snd] in *. split; [|split; [exact R2|congruence]].
  cbn [map decision_view fst mon]. unfold decision_view in M.
  destruct (to_op o); rewrite Hm; cbn [andb]; rewrite <- Hl; exact M.
Qed.

Lemma rinv_init n : 1 <= n -> RInv (rinit n).
Proof. intro H. split; [exact (inv_init n H)|exact Logic.I]. Qed.

Lemma rrun_reach n ops :
  1 <= n -> RInv (snd (rrun n ops)) /\ lim (rb (snd (rrun n ops))) = n.
Proof.
  intro H. destruct (rrun_ok ops (rinit n) (rinv_init n H)) as (_ & R & L). split; [exact R|exact L].
Qed.

(* ================================================================== the theorems *)

(* the C13 monitor accepts every interleaving, sheds and yields being observed at the atomic action
   that decides them (the count READ / the channel created) *)
Theorem race_monitor_decision n ops :
  1 <= n -> c13_ok n (map to_op ops) (decision_view (fst (rrun n ops))) = true.
Proof. intro H. exact (proj1 (rrun_ok ops (rinit n) (rinv_init n H))). Qed.

(* at no time more than n live channels of one key (every op list = every interleaving and every
   point in it; a channel counts from the instant it is created inside poll_next) *)
Theorem race_alive_le_n n ops k :
  1 <= n -> alive k (chans (rb (snd (rrun n ops)))) <= n.
Proof.
  intro H. destruct (rrun_reach n ops H) as ((I & _) & L).
  pose proof (inv_alive _ k I) as A. rewrite L in A. exact A.
Qed.

(* a shed is decided only by an action that found n live channels of that key in the state it
   read: s is the state in which the listener's action (the op o) runs *)
Theorem race_shed_only_if_was_full n pre o k :
  1 <= n ->
  let s := snd (rrun n pre) in
  In (OShed k) (fst (snd (rstep s o))) -> alive k (chans (rb s)) = n.
Proof.
  intros H s Hin. destruct (rrun_reach n pre H) as (R & L). fold s in R, L.
  destruct o as [k0|cid|k0|cid| |]; cbn [rstep] in Hin;
    try (destruct (release (rb s) cid)); try (destruct (existsb (Nat.eqb k0) (owed s)));
    cbn [fst snd] in Hin; try contradiction.
  destruct (lstep_spec s R) as (_ & (_ & E)).
  destruct E as [([E|[E|E]] & _)|[(k' & E & _ & Ha)|(k' & t & E & _)]]; rewrite E in Hin;
    cbn in Hin; try contradiction; try (destruct Hin as [Hin|[]]; discriminate).
  destruct Hin as [Hin|[]]. injection Hin as ->. rewrite Ha. exact L.
Qed.

(* the same run seen at report time (when poll_next finishes the iteration): the stronger
   "n alive at the moment the shed is reported" is false under the race.  n = 1: the second
   channel of key 7 is refused on a count of 1; channel 0 is dropped before the iteration ends;
   the shed is reported with no live channel of key 7. *)
Definition race_witness : list rop :=
  [RArrive 7; RListener; RListener;            (* channel 0 of key 7 is yielded *)
   RArrive 7; RListener;                       (* count READ = 1 >= 1: shed decided *)
   RClose 0;                                   (* another thread drops channel 0 *)
   RListener; RListener].                      (* receive + check; the shed is reported *)

Theorem race_shed_at_report_refuted :
  c13_ok 1 (map to_op race_witness) (report_view (fst (rrun 1 race_witness))) = false
  /\ c13_ok 1 (map to_op race_witness) (decision_view (fst (rrun 1 race_witness))) = true
  /\ report_view (fst (rrun 1 race_witness))
     = [[]; []; [OYield 0 7]; []; []; []; []; [OShed 7]]
  /\ alive 7 (chans (rb (snd (rrun 1 race_witness)))) = 0.
Proof. repeat split; vm_compute; reflexivity. Qed.

(* every closed channel frees capacity.  (a) If the key of the next arrival has fewer than n live
   channels when the listener takes it, the arrival is not shed: it is accepted at once, or the
   count was read below the limit.  (b) Once the count was read below the limit the channel is
   accepted, whatever the other threads drop in between. *)
Theorem race_accept_below_n n ops k :
  1 <= n ->
  let s := snd (rrun n ops) in
  pc s = PcIdle \/ pc s = PcLoop ->
  hd_error (arrivals (rb s)) = Some k -> alive k (chans (rb s)) < n ->
  (exists cid, fst (snd (rstep s RListener)) = [OYield cid k])
  \/ (exists t, pc (fst (rstep s RListener)) = PcUpgrade k t).
Proof.
  intros H s Hpc Ha Hlt. destruct (rrun_reach n ops H) as ((I & _) & L). fold s in I, L.
  cbn [rstep]. unfold lstep. cbv zeta.
  assert (Hl : (exists cid, snd (listen (rb s) (owed s)) = [OYield cid k])
               \/ (exists t, pc (fst (listen (rb s) (owed s))) = PcUpgrade k t)).
  { unfold listen. destruct (arrivals (rb s)) as [|k' r] eqn:Ea; [discriminate|]. injection Ha as ->.
    pose proof (inv_pop _ I) as I1. set (b1 := pop_arrival (rb s)) in *.
    destruct (lookup k (kc b1)) as [t|] eqn:Ek; [|left; eexists; reflexivity].
    pose proof (alive_eq_strong b1 k t I1 Ek) as Hs. change (chans b1) with (chans (rb s)) in Hs.
    destruct (lim b1 <=? strong t (chans b1)) eqn:El; [|right; eexists; reflexivity].
    apply Nat.leb_le in El. change (lim b1) with (lim (rb s)) in El.
    change (chans b1) with (chans (rb s)) in El. lia. }
  destruct Hpc as [-> | ->]; destruct (listen (rb s) (owed s)) as [s' o]; exact Hl.
Qed.

Theorem race_accept_after_read : forall env s k t,
  pc s = PcUpgrade k t -> (forall o, In o env -> o <> RListener) ->
  let s1 := snd (rrun_from s env) in
  pc s1 = PcUpgrade k t
  /\ fst (snd (rstep s1 RListener)) = [OYield (next_cid (rb s1)) k].
Proof.
  induction env as [|o env IH]; intros s k t Hpc Hno; cbv zeta.
  - cbn [rrun_from snd]. split; [exact Hpc|]. cbn [rstep]. unfold lstep. rewrite Hpc. reflexivity.
  - cbn [rrun_from].
    assert (H1 : pc (fst (rstep s o)) = PcUpgrade k t).
    { destruct o as [k0|cid|k0|cid| |]; cbn [rstep];
        try (destruct (release (rb s) cid)); try (destruct (existsb (Nat.eqb k0) (owed s)));
        cbn [fst pc]; try exact Hpc.
      exfalso. apply (Hno RListener); [left|]; reflexivity. }
    destruct (rstep s o) as [s1 l]. cbn [fst] in H1.
    specialize (IH s1 k t H1 (fun o' Hin => Hno o' (or_intror Hin))). cbv zeta in IH.
    destruct (rrun_from s1 env) as [ls s2]. exact IH.
Qed.

(* non-vacuity, and the interleaving the repair 7a00572 is needed for: all holders of the tracker
   drop between the READ and upgrade(); upgrade() fails, a new tracker replaces the dead one, and
   the stale notification must not erase the new entry.  n = 2. *)
Example race_stale_notification_kept :
  let ops := [RArrive 7; RListener; RListener;          (* channel 0 *)
              RArrive 7; RListener;                      (* count READ = 1 < 2 *)
              RClose 0;                                  (* last holder gone: key 7 queued *)
              RListener;                                 (* upgrade() = None: new tracker, channel 1 *)
              RListener; RListener;                      (* stale notification: entry kept *)
              RArrive 7; RListener; RListener; RListener;    (* channel 2 shares the new tracker *)
              RArrive 7; RListener] in                   (* third: shed at 2 *)
  decision_view (fst (rrun 2 ops))
  = [[]; [OYield 0 7]; []; []; []; []; [OYield 1 7]; []; []; []; []; [OYield 2 7]; []; []; [OShed 7]]
  /\ alive 7 (chans (rb (snd (rrun 2 ops)))) = 2.
Proof. split; vm_compute; reflexivity. Qed.

(* the notification is DELAYED: the last holder releases channel 0 (count 0, key owed, nothing
   queued); the next arrival of key 7 is accepted on a count of 0 with a new tracker; only then
   does the stale notification arrive, and it must not erase the new entry: the third arrival is
   shed at the limit.  n = 1. *)
Example race_delayed_notification :
  let ops := [RArrive 7; RListener; RListener;          (* channel 0 *)
              RRelease 0;                               (* count 0; Tracker::drop has not sent yet *)
              RArrive 7; RListener; RListener; RListener;   (* READ 0 < 1; upgrade() = None; channel 1 *)
              RNotify 7;                                (* the stale notification arrives *)
              RListener; RListener; RListener;          (* receive + check: entry kept *)
              RArrive 7; RListener] in                  (* READ 1 >= 1: shed *)
  decision_view (fst (rrun 1 ops))
  = [[]; [OYield 0 7]; []; []; []; []; [OYield 1 7]; []; []; []; []; []; []; [OShed 7]]
  /\ owed (snd (rrun 1 ops)) = []
  /\ alive 7 (chans (rb (snd (rrun 1 ops)))) = 1
  /\ c13_ok 1 (map to_op ops) (decision_view (fst (rrun 1 ops))) = true.
Proof. repeat split; vm_compute; reflexivity. Qed.

Print Assumptions race_monitor_decision.
Print Assumptions race_alive_le_n.
Print Assumptions race_shed_only_if_was_full.
Print Assumptions race_shed_at_report_refuted.
Print Assumptions race_accept_below_n.
Print Assumptions race_accept_after_read.
