(* Client proofs, group G1: C11 (tracked request state is bounded, the two tables of
   InFlightRequests have the same keys, and everything is reclaimed). *)
From Coq Require Import List Bool Arith NArith Lia ZifyBool ZifyNat ZifyN.
Import ListNotations.
From TarpcV Require Import Base Transport Client ClientS ClientMon ClientSpec ClientLemmas
  ClientProofsG1Frames.

Arguments N.modulo : simpl never.
Arguments N.add : simpl never.
Arguments N.min : simpl never.
Arguments N.sub : simpl never.

(* ================================================================== bound and key equality *)
Section C11Bound.
  Context {T : Type}.
  Variable tp : transport T cmsg resp.
  Notation cstate := (@cstate T).
  Implicit Types s : cstate.

  Record K s : Prop := {
    k_keys : map fst (timers s) = map fst (inflight s);
    k_bound : (length (inflight s) <= max_if s)%nat }.

  Lemma K_eq s s' :
    inflight s' = inflight s -> timers s' = timers s -> max_if s' = max_if s -> K s -> K s'.
  Proof. intros E1 E2 E3 [A B]. constructor; rewrite ?E1, ?E2, ?E3; assumption. Qed.
  Lemma K_X s s' : XFrame s s' -> K s -> K s'.
  Proof. intro F. apply K_eq; [apply F|apply F|apply (xf_p _ _ F)]. Qed.
  Lemma K_Q s s' : QFrame s s' -> K s -> K s'.
  Proof. intro F. apply K_eq; [apply F|apply F|apply (if_p _ _ (qf_i _ _ F))]. Qed.
  Lemma K_U s s' : UFrame s s' -> K s -> K s'.
  Proof. intro F. apply K_eq; apply F. Qed.

  Lemma length_aset_le' {A} (k : N) (v : A) m : (length (aset k v m) <= S (length m))%nat.
  Proof. unfold aset. cbn [length]. pose proof (length_aremove_le k m). lia. Qed.

  Lemma K_insert_request s q :
    K s -> (length (inflight s) < max_if s)%nat -> K (insert_request s q).
  Proof.
    intros [A B] L. unfold insert_request. constructor; cbn [timers inflight max_if upd_if].
    - apply map_fst_aset_eq, A.
    - pose proof (length_aset_le' (q_id q) {| if_deadline := q_deadline q; if_tc := q_tc q |}
                    (inflight s)). lia.
  Qed.
  Lemma K_remove s id : K s -> K (upd_if s (aremove id (inflight s)) (aremove id (timers s))).
  Proof.
    intros [A B]. constructor; cbn [timers inflight max_if upd_if].
    - apply map_fst_aremove_eq, A.
    - pose proof (length_aremove_le id (inflight s)). lia.
  Qed.
  Lemma K_slot_send s id o : K s -> K (slot_send s id o).
  Proof. apply K_Q, QFrame_slot_send. Qed.
  Lemma K_complete_request s id o : K s -> K (snd (complete_request s id o)).
  Proof.
    intro H. unfold complete_request. destruct (alookup id (inflight s)); cbn [snd]; [|exact H].
    apply K_slot_send, K_remove, H.
  Qed.
  Lemma K_cancel_request s id : K s -> K (snd (cancel_request s id)).
  Proof.
    intro H. unfold cancel_request. destruct (alookup id (inflight s)); cbn [snd]; [|exact H].
    apply K_remove, H.
  Qed.
  Lemma K_empty s : K (upd_if s [] []).
  Proof. constructor; cbn; [reflexivity|lia]. Qed.
  Lemma K_complete_all s o : K (complete_all s o).
  Proof.
    unfold complete_all.
    assert (G : forall (l : list (N * ifentry)) s0, K s0 ->
                K (fold_left (fun acc p => slot_send acc (fst p) o) l s0)).
    { induction l as [|x r IH]; intros s0 H; cbn [fold_left]; [exact H|].
      apply IH, K_slot_send, H. }
    apply G, K_empty.
  Qed.
  Lemma K_poll_expired s : K s -> K (snd (poll_expired s)).
  Proof.
    intro H. unfold poll_expired. destruct (min_timer (timers s) None) as [[id w]|]; [|exact H].
    destruct (N.leb w (now s)); [|exact H].
    cbn [inflight timers upd_if].
    destruct (alookup id (inflight s)) eqn:E; cbn [snd].
    - apply K_slot_send. apply (K_remove s id H).
    - (* the timer of an untracked id: cannot exist, both tables have the same keys *)
      apply alookup_none_notin in E. rewrite <- (k_keys _ H) in E.
      rewrite (aremove_notin _ _ E). destruct H as [A B]. constructor; assumption.
  Qed.

  Lemma K_next_cancel_loop f : forall s, K s -> K (snd (next_cancel_loop f s)).
  Proof.
    induction f as [|f IH]; intros s H; cbn [next_cancel_loop]; [exact H|].
    assert (H1 : K (snd (c_poll_recv s))).
    { unfold c_poll_recv. destruct (cancels s); [destruct (Nat.eqb _ _); exact H|].
      cbn [snd]. destruct H as [A B]. constructor; assumption. }
    destruct (c_poll_recv s) as [x s1]. cbn [snd] in H1.
    destruct x as [id| |]; try exact H1.
    pose proof (K_cancel_request s1 id H1) as H2.
    destruct (cancel_request s1 id) as [[e|] s2]; cbn [snd] in *; [exact H2|apply IH, H2].
  Qed.

  Lemma K_poll_write_request s r s' : poll_write_request tp s = (r, s') -> K s -> K s'.
  Proof.
    intros H HK. apply poll_write_request_inv in H.
    destruct H as [_|r s1 _ H1 Hr|r s1 s2 _ H1 H2 Hr|s1 q s2 w s3 L H1 H2 H3].
    - exact HK.
    - eapply K_X; [eapply XFrame_ensure_writeable, H1|exact HK].
    - pose proof (QFrame_next_request_loop (S (length (queue s1))) s1) as F. rewrite H2 in F.
      eapply K_Q; [exact F|]. eapply K_X; [eapply XFrame_ensure_writeable, H1|exact HK].
    - pose proof (QFrame_next_request_loop (S (length (queue s1))) s1) as F. rewrite H2 in F.
      cbn [snd] in F. apply XFrame_ensure_writeable in H1.
      assert (K2 : K s2) by (eapply K_Q; [exact F|]; eapply K_X; eassumption).
      assert (L2 : (length (inflight s2) < max_if s2)%nat).
      { rewrite (qf_inflight _ _ F), (xf_inflight _ _ H1),
          (pf_maxif _ _ (if_p _ _ (qf_i _ _ F))), (pf_maxif _ _ (xf_p _ _ H1)).
        apply Nat.leb_gt in L. exact L. }
      assert (K3 : K s3).
      { eapply K_X; [eapply XFrame_do_send, H3|]. apply K_insert_request; assumption. }
      destruct w; [exact K3|apply K_complete_request, K3].
  Qed.

  Lemma K_poll_write_cancel s r s' : poll_write_cancel tp s = (r, s') -> K s -> K s'.
  Proof.
    intros H HK. apply poll_write_cancel_inv in H.
    destruct H as [r s1 H1 Hr|r s1 s2 H1 H2 Hr|s1 id e s2 w s3 H1 H2 H3].
    - eapply K_X; [eapply XFrame_ensure_writeable, H1|exact HK].
    - pose proof (K_next_cancel_loop (S (length (cancels s1))) s1) as F. rewrite H2 in F.
      apply F. eapply K_X; [eapply XFrame_ensure_writeable, H1|exact HK].
    - pose proof (K_next_cancel_loop (S (length (cancels s1))) s1) as F. rewrite H2 in F.
      eapply K_X; [eapply XFrame_do_send, H3|]. apply F.
      eapply K_X; [eapply XFrame_ensure_writeable, H1|exact HK].
  Qed.

  Lemma K_pump_write s r s' : pump_write tp s = (r, s') -> K s -> K s'.
  Proof.
    intros H HK. apply pump_write_inv in H.
    destruct H as [a s1 H1|u s1 H1|r1 s1 a s2 H1 I1 H2|r1 s1 u s2 H1 I1 H2
                  |r1 s1 r2 s2 id s3 H1 I1 H2 I2 H3|s1 s2 s3 x s4 H1 H2 H3 H4
                  |r1 s1 r2 s2 s3 x s4 H1 I1 H2 I2 I12 H3 H4];
      repeat match goal with
             | H : poll_write_request _ _ = _ |- _ => apply K_poll_write_request in H; [|assumption]
             | H : poll_write_cancel _ _ = _ |- _ => apply K_poll_write_cancel in H; [|assumption]
             end; try assumption.
    - pose proof (K_poll_expired s2 H2) as K3. rewrite H3 in K3. exact K3.
    - pose proof (K_poll_expired s2 H2) as K3. rewrite H3 in K3.
      eapply K_X; [eapply XFrame_do_close, H4|exact K3].
    - pose proof (K_poll_expired s2 H2) as K3. rewrite H3 in K3.
      eapply K_X; [eapply XFrame_do_flush, H4|exact K3].
  Qed.

  Lemma K_pump_read s r s' : pump_read tp s = (r, s') -> K s -> K s'.
  Proof.
    intros H HK. apply pump_read_inv in H. destruct H as (x & s1 & H1 & -> & ->).
    assert (K1 : K s1) by (eapply K_X; [eapply XFrame_do_next, H1|exact HK]).
    destruct x; try exact K1. apply K_complete_request, K1.
  Qed.

  Lemma K_run_loop f : forall s r s', run_loop tp f s = (r, s') -> K s -> K s'.
  Proof.
    induction f as [|f IH]; intros s r s' H HK; [cbn in H; injection H as _ <-; exact HK|].
    apply run_loop_inv in H.
    destruct H as [a s1 H1|rd s1 a s2 H1 N1 H2|s1 wr s2 H1 H2 N2|rd s1 s2 H1 D1 H2 L2
                  |s1 wr s2 H1 H2 D2|rd s1 wr s2 r s3 H1 H2 D H3];
      apply K_pump_read in H1; try assumption;
      try (apply K_pump_write in H2; [|assumption]); try assumption.
    eapply IH; eassumption.
  Qed.

  Lemma K_shut_down s a : K (snd (shut_down s a)).
  Proof.
    unfold shut_down. eapply K_Q; [apply QFrame_drain_loop|]. apply K_complete_all.
  Qed.

  Lemma K_poll_dispatch f s r s' : poll_dispatch tp f s = (r, s') -> K s -> K s'.
  Proof.
    unfold poll_dispatch. intros H HK. destruct (terminal s).
    - pose proof (K_shut_down s a) as K1. destruct (shut_down s a) as [[] s1];
        injection H as _ <-; exact K1.
    - destruct (run_loop tp f s) as [rr s1] eqn:E. apply K_run_loop in E; [|exact HK].
      destruct rr; try (injection H as _ <-; exact E).
      pose proof (K_shut_down (upd_term s1 (Some a)) a) as K1.
      destruct (shut_down _ a) as [[] s2]; injection H as _ <-; exact K1.
  Qed.

  Variable fuel_of : cstate -> nat.

  Definition gauge_ok (maxif : nat) (o : obs) : bool :=
    match o with OGauge a b => (a <=? N.of_nat maxif)%N && (a =? b)%N | _ => true end.

  Lemma max_if_poll_dispatch f s r s' : poll_dispatch tp f s = (r, s') -> max_if s' = max_if s.
  Proof.
    unfold poll_dispatch. intro H. destruct (terminal s).
    - pose proof (IFrame_shut_down s a) as F. destruct (shut_down s a) as [b s1].
      cbn [snd] in F. destruct b; injection H as _ <-; apply F.
    - destruct (run_loop tp f s) as [rr s1] eqn:E. apply PFrame_run_loop in E.
      destruct rr; try (injection H as _ <-; apply E).
      pose proof (IFrame_shut_down (upd_term s1 (Some a)) a) as F.
      destruct (shut_down _ a) as [b s2]. cbn [snd] in F.
      destruct b; injection H as _ <-; rewrite (pf_maxif _ _ (if_p _ _ F)); apply E.
  Qed.

  Lemma K_step maxif s o s' os :
    K s -> max_if s = maxif -> step tp fuel_of s o = (s', os) ->
    K s' /\ max_if s' = maxif /\ forallb (gauge_ok maxif) os = true.
  Proof.
    intros HK HM H.
    assert (Easy : o <> PollDispatch -> o <> DropDispatch -> os = [] ->
                   K s' /\ max_if s' = maxif /\ forallb (gauge_ok maxif) os = true).
    { intros N1 N2 ->. pose proof (UFrame_step _ _ _ _ _ _ H N1 N2) as F.
      split; [eapply K_U; eassumption|]. split; [rewrite (uf_maxif _ _ F); exact HM|reflexivity]. }
    destruct o; try (apply Easy; try discriminate; cbn [step] in H; congruence).
    - pose proof (UFrame_step _ _ _ _ _ _ H ltac:(discriminate) ltac:(discriminate)) as F.
      split; [eapply K_U; eassumption|]. split; [rewrite (uf_maxif _ _ F); exact HM|].
      cbn [step] in H. destruct (poll_call s i) as [r s1]. injection H as _ <-.
      destruct r; reflexivity.
    - clear Easy. cbn [step] in H.
      destruct (finished s); [injection H as <- <-; split; [exact HK|split; [exact HM|reflexivity]]|].
      destruct (dropped s); [injection H as <- <-; split; [exact HK|split; [exact HM|reflexivity]]|].
      set (s0 := upd_tr s (tr s) (fused s) []) in *.
      assert (K0 : K s0) by (eapply K_X; [apply XFrame_upd_tr|exact HK]).
      destruct (poll_dispatch tp (fuel_of s0) s0) as [r s1] eqn:Ep.
      pose proof (K_poll_dispatch _ _ _ _ Ep K0) as K1.
      pose proof (max_if_poll_dispatch _ _ _ _ Ep) as M1.
      set (s2 := match r with DReady d => upd_fin s1 (Some d) (dropped s1) | _ => s1 end) in *.
      assert (K2 : K s2 /\ max_if s2 = maxif).
      { assert (M1' : max_if s1 = maxif) by (rewrite M1; exact HM).
        unfold s2. destruct r; split; try exact K1; try exact M1'.
        destruct K1 as [A B]. constructor; assumption. }
      destruct K2 as [K2 M2]. injection H as <- <-.
      split; [eapply K_X; [apply XFrame_upd_tr|exact K2]|]. split; [exact M2|].
      unfold gauges. cbn [app forallb gauge_ok andb].
      destruct K2 as [A B].
      assert (L : length (timers s2) = length (inflight s2)).
      { rewrite <- (map_length fst (timers s2)), A. apply map_length. }
      rewrite L, N.eqb_refl. rewrite M2 in B.
      assert (X : (N.of_nat (length (inflight s2)) <=? N.of_nat maxif)%N = true)
        by (apply N.leb_le; lia).
      rewrite X. reflexivity.
    - clear Easy. cbn [step] in H. injection H as <- <-.
      destruct (dropped s); [split; [exact HK|split; [exact HM|reflexivity]]|]. unfold drop_dispatch.
      split; [constructor; cbn; [reflexivity|lia]|]. split; [|reflexivity].
      cbn [max_if upd_fin upd_cancels upd_if upd_q].
      rewrite (pf_maxif _ _ (TFrame_P _ _ (TFrame_fold_slot_tx_drop fst _ _))).
      rewrite (pf_maxif _ _ (TFrame_P _ _ (TFrame_fold_slot_tx_drop q_id _ _))).
      rewrite (pf_maxif _ _ (if_p _ _ (IFrame_q_close s))). exact HM.
  Qed.

  Lemma K_run maxif ops : forall s,
    K s -> max_if s = maxif ->
    Forall (fun os => forallb (gauge_ok maxif) os = true) (fst (run_from tp fuel_of s ops)).
  Proof.
    induction ops as [|o r IH]; intros s HK HM; cbn [run_from]; [constructor|].
    destruct (step tp fuel_of s o) as [s1 l] eqn:Es.
    destruct (K_step maxif _ _ _ _ HK HM Es) as (K1 & M1 & G).
    specialize (IH s1 K1 M1). destruct (run_from tp fuel_of s1 r) as [ls s2]. cbn [fst] in *.
    constructor; assumption.
  Qed.
End C11Bound.

(* every gauge observation of every run: at most max_in_flight tracked requests, and as many
   pending timers as tracked requests *)
Theorem c11_bound_holds {T : Type} :
  forall (tp : transport T cmsg resp) fuel_of t0 qcap maxif ops,
    Forall (fun os => forallb (gauge_ok maxif) os = true)
           (client_trace tp fuel_of t0 qcap maxif ops).
Proof.
  intros. unfold client_trace. apply K_run; [|reflexivity].
  constructor; cbn; [reflexivity|lia].
Qed.
Print Assumptions c11_bound_holds.
