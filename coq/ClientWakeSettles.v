(* C02, third part: the settle loop of the wake-driven runs terminates (never reports WFuel) on
   every reachable state of the scripted instance, and the two C02 theorems of
   ClientWakeProofs.v without their `settled` hypothesis.

   Potential: 4 per call in PNew/PAcquiring/PAssigned, 2 per PAcqClosed, 1 per PAwaiting,
   2 per queued request, 1 per queued cancellation / in-flight entry / inbox item, 1 each for
   "no terminal error yet", "dispatch not finished", "request queue open".  Every function of a
   round is non-increasing in it; if it is unchanged then nothing observable changed (`Same`);
   the only exception, PNew -> PAcquiring, can only happen in the first round. *)
From Coq Require Import List Bool Arith NArith Lia ZifyNat ZifyN.
Import ListNotations.
From TarpcV Require Import Base Transport Client ClientS ClientWake ClientWakeSpec ClientLemmas
  ClientProofsG1Frames ClientProofsG1 ClientProofsG1C11 ClientProofsG1Fuel ClientWakeProofs.

Arguments N.modulo : simpl never.
Arguments N.add : simpl never.
Arguments N.min : simpl never.
Arguments N.sub : simpl never.

(* lia on the arithmetic hypotheses only *)
Ltac keep_arith H :=
  lazymatch type of H with
  | @eq nat _ _ => idtac | @eq N _ _ => idtac
  | le _ _ => idtac | lt _ _ => idtac | ge _ _ => idtac | gt _ _ => idtac
  | N.le _ _ => idtac | N.lt _ _ => idtac
  | _ => fail
  end.
Ltac alia :=
  repeat match goal with
         | H : ?P |- _ =>
           lazymatch type of P with
           | Prop => tryif keep_arith H then fail else clear H
           end
         end; lia.

(* ================================================================== the potential *)
Definition wt (p : phase) : nat :=
  match p with
  | PNew | PAcquiring | PAssigned => 4 | PAcqClosed => 2 | PAwaiting => 1 | _ => 0
  end.
Fixpoint W (l : list call) : nat :=
  match l with [] => 0 | k :: r => wt (c_phase k) + W r end.

Lemma W_set_nth i x y l :
  nth_error l i = Some x -> (W (set_nth i y l) + wt (c_phase x) = W l + wt (c_phase y))%nat.
Proof.
  revert i; induction l as [|z r IH]; intros [|i]; cbn [nth_error set_nth W]; try discriminate.
  - intros [= ->]. lia.
  - intro H. specialize (IH i H). lia.
Qed.
Lemma W_le l : (W l <= 4 * length l)%nat.
Proof. induction l as [|k r IH]; cbn [W length]; [lia|]. destruct (c_phase k); cbn [wt]; lia. Qed.

Definition onone {A} (o : option A) : nat := match o with None => 1 | Some _ => 0 end.
Definition ofalse (b : bool) : nat := if b then 0 else 1.

Lemma sends_snoc (l : list (tcall cmsg resp)) c :
  sends_of (l ++ [c]) = sends_of l ++ match c with CSend m r => [(m, r)] | _ => [] end.
Proof. unfold sends_of. rewrite flat_map_app. cbn. rewrite app_nil_r. reflexivity. Qed.
Lemma reads_snoc (l : list (tcall cmsg resp)) c :
  reads_of (l ++ [c]) = reads_of l ++ match c with CNext (RItem x) => [x] | _ => [] end.
Proof. unfold reads_of. rewrite flat_map_app. cbn. rewrite app_nil_r. reflexivity. Qed.

Section Pot.
  Implicit Types s : sstate.

  Definition Mb s : nat :=
    (W (calls s) + 2 * length (queue s) + length (cancels s) + length (inflight s)
     + length (st_inbox (tr s)) + onone (terminal s) + onone (finished s) + ofalse (rx_closed s))%nat.

  (* nothing a round can observe has changed (between two states of one dispatch poll) *)
  Record Same s s' : Prop := {
    sm_calls : calls s' = calls s;
    sm_queue : queue s' = queue s;
    sm_cancels : cancels s' = cancels s;
    sm_inflight : inflight s' = inflight s;
    sm_waiters : waiters s' = waiters s;
    sm_rxc : rx_closed s' = rx_closed s;
    sm_terminal : terminal s' = terminal s;
    sm_finished : finished s' = finished s;
    sm_sends : sends_of (plog s') = sends_of (plog s);
    sm_reads : reads_of (plog s') = reads_of (plog s) }.

  Lemma Same_refl s : Same s s.
  Proof. constructor; reflexivity. Qed.
  Lemma Same_trans s1 s2 s3 : Same s1 s2 -> Same s2 s3 -> Same s1 s3.
  Proof. intros [] []. constructor; congruence. Qed.

  Definition R s s' : Prop := (Mb s' <= Mb s)%nat /\ (Mb s' = Mb s -> Same s s').
  Lemma R_refl s : R s s.
  Proof. split; [lia|intros _; apply Same_refl]. Qed.
  Lemma R_trans s1 s2 s3 : R s1 s2 -> R s2 s3 -> R s1 s3.
  Proof.
    intros [L1 H1] [L2 H2]. split; [lia|]. intro E.
    eapply Same_trans; [apply H1|apply H2]; lia.
  Qed.
  Lemma R_strict s s' : (Mb s' < Mb s)%nat -> R s s'.
  Proof. intro H. split; [lia|intro E; lia]. Qed.

  Lemma R_fields s s' :
    calls s' = calls s -> queue s' = queue s -> cancels s' = cancels s -> inflight s' = inflight s ->
    waiters s' = waiters s -> rx_closed s' = rx_closed s -> terminal s' = terminal s ->
    finished s' = finished s ->
    (length (st_inbox (tr s')) <= length (st_inbox (tr s)))%nat ->
    (length (st_inbox (tr s')) = length (st_inbox (tr s)) ->
     sends_of (plog s') = sends_of (plog s) /\ reads_of (plog s') = reads_of (plog s)) ->
    R s s'.
  Proof.
    intros E1 E2 E3 E4 E5 E6 E7 E8 L H. unfold R, Mb. rewrite E1, E2, E3, E4, E6, E7, E8.
    split; [lia|]. intro E. destruct H as [H1 H2]; [lia|]. constructor; assumption.
  Qed.

  Lemma Mb_fields s s' :
    calls s' = calls s -> queue s' = queue s -> cancels s' = cancels s -> inflight s' = inflight s ->
    rx_closed s' = rx_closed s -> terminal s' = terminal s -> finished s' = finished s ->
    st_inbox (tr s') = st_inbox (tr s) -> Mb s' = Mb s.
  Proof. intros E1 E2 E3 E4 E6 E7 E8 E9. unfold Mb. rewrite E1, E2, E3, E4, E6, E7, E8, E9. reflexivity. Qed.

  (* ---------------------------------------------------------------- transport wrappers *)
  Lemma R_X s s' c :
    XFrame s s' -> st_inbox (tr s') = st_inbox (tr s) -> plog s' = plog s ++ [c] ->
    (forall m r, c <> CSend m r) -> (forall x, c <> CNext (RItem x)) -> R s s'.
  Proof.
    intros F Ei Ep N1 N2. pose proof (xf_p _ _ F) as P.
    apply R_fields; try apply F; try apply P; [rewrite Ei; lia|]. intros _.
    rewrite Ep, sends_snoc, reads_snoc. split.
    - destruct c; try (rewrite app_nil_r; reflexivity). exfalso. eapply N1; reflexivity.
    - destruct c as [| | | |[]]; try (rewrite app_nil_r; reflexivity). exfalso. eapply N2; reflexivity.
  Qed.
  Lemma R_do_ready s r s' : do_ready stp s = (r, s') -> R s s'.
  Proof.
    intro H. eapply (R_X s s' (CReady r)); [eapply XFrame_do_ready, H|eapply inbox_do_ready, H| |
                                             discriminate|discriminate].
    apply do_ready_eq in H. rewrite H. reflexivity.
  Qed.
  Lemma R_do_flush s r s' : do_flush stp s = (r, s') -> R s s'.
  Proof.
    intro H. eapply (R_X s s' (CFlush r)); [eapply XFrame_do_flush, H|eapply inbox_do_flush, H| |
                                             discriminate|discriminate].
    apply do_flush_eq in H. rewrite H. reflexivity.
  Qed.
  Lemma R_do_close s r s' : do_close stp s = (r, s') -> R s s'.
  Proof.
    intro H. eapply (R_X s s' (CClose r)); [eapply XFrame_do_close, H|eapply inbox_do_close, H| |
                                             discriminate|discriminate].
    apply do_close_eq in H. rewrite H. reflexivity.
  Qed.
  Lemma Mb_do_send s m r s' : do_send stp s m = (r, s') -> Mb s' = Mb s.
  Proof.
    intro H. pose proof (XFrame_do_send _ _ _ _ _ H) as F. pose proof (xf_p _ _ F) as P.
    apply Mb_fields; try apply F; try apply P. eapply inbox_do_send, H.
  Qed.
  Lemma R_do_next s r s' :
    do_next stp s = (r, s') ->
    R s s' /\ (Mb s' + (match r with RItem _ => 1 | _ => 0 end) <= Mb s)%nat.
  Proof.
    intro H. pose proof (XFrame_do_next _ _ _ _ H) as F. pose proof (xf_p _ _ F) as P.
    pose proof (inbox_do_next _ _ _ H) as L.
    assert (M : (Mb s' + (match r with RItem _ => 1 | _ => 0 end) <= Mb s)%nat).
    { unfold Mb. rewrite (xf_calls _ _ F), (xf_queue _ _ F), (xf_cancels _ _ F), (xf_inflight _ _ F),
        (xf_rxc _ _ F), (pf_terminal _ _ P), (pf_finished _ _ P). lia. }
    split; [|exact M].
    apply R_fields; try apply F; try apply P; [lia|]. intro E.
    destruct (do_next_eq _ _ _ _ H) as [(_ & _ & ->)|(_ & Ep)]; [auto|].
    rewrite Ep. cbn [plog upd_tr]. rewrite sends_snoc, reads_snoc, !app_nil_r. split; [reflexivity|].
    destruct r; try (rewrite app_nil_r; reflexivity). lia.
  Qed.

  Lemma R_ensure_writeable s r s' : ensure_writeable stp s = (r, s') -> R s s'.
  Proof.
    intro H. apply ensure_writeable_inv in H.
    destruct H as [r s1 H1 _|s1 s2 H1 H2|s1 s2 H1 H2|s1 s2 r s3 H1 H2 H3];
      repeat match goal with
             | H : do_ready _ _ = _ |- _ => apply R_do_ready in H
             | H : do_flush _ _ = _ |- _ => apply R_do_flush in H
             end; eauto using R_trans.
  Qed.

  Lemma R_of_eq s s' : (Mb s' <= Mb s)%nat -> (Mb s' = Mb s -> s' = s) -> R s s'.
  Proof. intros L H. split; [exact L|]. intro E. rewrite (H E). apply Same_refl. Qed.

  Lemma Mb_T s s' : TFrame s s' -> inflight s' = inflight s -> Mb s' = Mb s.
  Proof.
    intros F Ei. pose proof (tf_i _ _ F) as I. pose proof (if_p _ _ I) as P.
    apply Mb_fields; try apply F; try apply P; try assumption. rewrite (if_tr _ _ I). reflexivity.
  Qed.
  Lemma Mb_T_le s s' :
    TFrame s s' -> (length (inflight s') <= length (inflight s))%nat -> (Mb s' <= Mb s)%nat.
  Proof.
    intros F Li. pose proof (tf_i _ _ F) as I. pose proof (if_p _ _ I) as P. unfold Mb.
    rewrite (tf_calls _ _ F), (tf_queue _ _ F), (tf_cancels _ _ F), (tf_rxc _ _ F),
      (pf_terminal _ _ P), (pf_finished _ _ P), (if_tr _ _ I). lia.
  Qed.

  (* ---------------------------------------------------------------- the request queue *)
  Lemma W_release_permit s :
    (forall w, In w (waiters s) -> exists k, nth_error (calls s) w = Some k /\ c_phase k = PAcquiring) ->
    W (calls (release_permit s)) = W (calls s).
  Proof.
    intro A. unfold release_permit. destruct (waiters s) as [|w r] eqn:Ew; [reflexivity|].
    destruct (A w (or_introl eq_refl)) as (k & Ek & Ep).
    rewrite sp_calls. cbn [calls upd_q]. rewrite Ek.
    pose proof (W_set_nth w k (with_phase k PAssigned) (calls s) Ek) as H.
    rewrite Ep in H. cbn [c_phase with_phase wt] in H. lia.
  Qed.

  Lemma Mb_q_poll_recv s r s' :
    q_poll_recv s = (r, s') -> IX s ->
    match r with RvSome _ => (Mb s' + 2 = Mb s)%nat | _ => s' = s end /\ plog s' = plog s.
  Proof.
    intros H X. pose proof (if_plog _ _ (IFrame_q_poll_recv s)) as Pl. rewrite H in Pl. cbn [snd] in Pl.
    split; [|exact Pl].
    destruct r as [q| |]; try (destruct (q_poll_recv_other _ _ _ H) as [-> _]; [discriminate|reflexivity]).
    destruct (q_poll_recv_some _ _ _ H) as (rest & Eq & ->).
    set (s1 := upd_q s (permits s) rest (waiters s) (rx_closed s)).
    assert (Ew : W (calls (release_permit s1)) = W (calls s)).
    { apply (W_release_permit s1). apply (w_acq _ _ (ix_w _ X)). }
    pose proof (QFrame_release_permit s1) as F. pose proof (qf_i _ _ F) as I.
    unfold Mb. rewrite Ew, rp_queue, rp_cancels, rp_inflight, rp_terminal, rp_finished, rp_rx_closed,
      (if_tr _ _ I). cbn [queue cancels inflight terminal finished rx_closed tr s1 upd_q].
    rewrite Eq. cbn [length]. lia.
  Qed.

  Lemma Mb_slot_tx_drop s id : Mb (slot_tx_drop s id) = Mb s.
  Proof. apply Mb_T; [apply TFrame_slot_tx_drop|apply (QFrame_slot_tx_drop s id)]. Qed.
  Lemma Mb_slot_send s id o : Mb (slot_send s id o) = Mb s.
  Proof. apply Mb_T; [apply TFrame_slot_send|apply (QFrame_slot_send s id o)]. Qed.

  Lemma Mb_next_request_loop f : forall s r s',
    next_request_loop f s = (r, s') -> IX s ->
    (Mb s' + (if is_psome r then 2 else 0) <= Mb s)%nat /\ (Mb s' = Mb s -> s' = s) /\
    plog s' = plog s.
  Proof.
    induction f as [|f IH]; intros s r s' H X; cbn [next_request_loop] in H.
    - injection H as <- <-. cbn. repeat split; lia.
    - destruct (q_poll_recv s) as [x s1] eqn:E.
      destruct (Mb_q_poll_recv _ _ _ E X) as [M1 P1]. pose proof (IX_q_poll_recv _ _ _ E X) as X1.
      destruct x as [q| |]; try (injection H as <- <-; subst s1; cbn; repeat split; lia).
      destruct (sl_rx_closed _).
      + apply IH in H; [|apply IX_slot_tx_drop, X1]. destruct H as (A & B & C).
        rewrite Mb_slot_tx_drop in A. split; [destruct (is_psome r); lia|]. split; [intro; lia|].
        rewrite C. exact P1.
      + injection H as <- <-. cbn. split; [lia|]. split; [intro; lia|exact P1].
  Qed.

  Lemma Mb_insert_request s q : (Mb (insert_request s q) <= Mb s + 1)%nat.
  Proof.
    pose proof (TFrame_insert_request s q) as F. pose proof (tf_i _ _ F) as I. pose proof (if_p _ _ I) as P.
    unfold Mb. rewrite (tf_calls _ _ F), (tf_queue _ _ F), (tf_cancels _ _ F), (tf_rxc _ _ F),
      (pf_terminal _ _ P), (pf_finished _ _ P), (if_tr _ _ I).
    unfold insert_request. cbn [inflight upd_if].
    pose proof (length_aset_le (q_id q) {| if_deadline := q_deadline q; if_tc := q_tc q |} (inflight s)).
    lia.
  Qed.

  Lemma Mb_complete_request s id o :
    (Mb (snd (complete_request s id o)) <= Mb s)%nat /\
    (Mb (snd (complete_request s id o)) = Mb s -> snd (complete_request s id o) = s).
  Proof.
    pose proof (TFrame_complete_request s id o) as F.
    unfold complete_request in *. destruct (alookup id (inflight s)) as [e|] eqn:E; cbn [snd] in *;
      [|split; [lia|reflexivity]].
    assert (L : (length (inflight (slot_send (upd_if s (aremove id (inflight s)) (aremove id (timers s))) id o))
                 < length (inflight s))%nat).
    { rewrite (qf_inflight _ _ (QFrame_slot_send _ id o)). cbn [inflight upd_if].
      apply ClientProofsG1Fuel.length_aremove_lt. eapply alookup_some_in, E. }
    pose proof (tf_i _ _ F) as I. pose proof (if_p _ _ I) as P. unfold Mb.
    rewrite (tf_calls _ _ F), (tf_queue _ _ F), (tf_cancels _ _ F), (tf_rxc _ _ F),
      (pf_terminal _ _ P), (pf_finished _ _ P), (if_tr _ _ I). split; [lia|intro; lia].
  Qed.

  Lemma R_poll_write_request s r s' : poll_write_request stp s = (r, s') -> DI s -> R s s'.
  Proof.
    intros H D. apply poll_write_request_inv in H.
    destruct H as [_|r s1 _ H1 Hr|r s1 s2 _ H1 H2 Hr|s1 q s2 w s3 _ H1 H2 H3].
    - apply R_refl.
    - eapply R_ensure_writeable, H1.
    - destruct (DI_XFrame _ _ (XFrame_ensure_writeable _ _ _ _ H1) D) as [[X1 _] _].
      destruct (Mb_next_request_loop _ _ _ _ H2 X1) as (A & B & _).
      eapply R_trans; [eapply R_ensure_writeable, H1|]. apply R_of_eq; [destruct (is_psome r); lia|exact B].
    - destruct (DI_XFrame _ _ (XFrame_ensure_writeable _ _ _ _ H1) D) as [[X1 _] _].
      destruct (Mb_next_request_loop _ _ _ _ H2 X1) as (A & _ & _). cbn [is_psome] in A.
      pose proof (proj1 (R_ensure_writeable _ _ _ H1)) as L1.
      pose proof (Mb_insert_request s2 q) as L3. pose proof (Mb_do_send _ _ _ _ H3) as L4.
      apply R_strict. destruct w; [lia|].
      pose proof (proj1 (Mb_complete_request s3 (q_id q) OSendErr)). lia.
  Qed.

  (* ---------------------------------------------------------------- the cancellation queue *)
  Lemma Mb_cancel_request s id : (Mb (snd (cancel_request s id)) <= Mb s)%nat.
  Proof.
    apply Mb_T_le; [apply TFrame_cancel_request|].
    unfold cancel_request. destruct (alookup id (inflight s)); cbn [snd inflight upd_if]; [|lia].
    apply length_aremove_le.
  Qed.

  Lemma Mb_next_cancel_loop f : forall s r s',
    next_cancel_loop f s = (r, s') ->
    (Mb s' + (if is_psome r then 1 else 0) <= Mb s)%nat /\ (Mb s' = Mb s -> s' = s).
  Proof.
    induction f as [|f IH]; intros s r s' H; cbn [next_cancel_loop] in H.
    - injection H as <- <-. cbn. split; [lia|reflexivity].
    - unfold c_poll_recv in H. destruct (cancels s) as [|id rest] eqn:Ec.
      + destruct (Nat.eqb _ _); injection H as <- <-; cbn; (split; [lia|reflexivity]).
      + assert (M1 : (Mb (upd_cancels s rest) + 1 = Mb s)%nat).
        { unfold Mb. cbn [calls queue cancels inflight tr terminal finished rx_closed upd_cancels].
          rewrite Ec. cbn [length]. lia. }
        pose proof (Mb_cancel_request (upd_cancels s rest) id) as M2.
        destruct (cancel_request (upd_cancels s rest) id) as [[e|] s2]; cbn [snd] in M2.
        * injection H as <- <-. cbn. split; [lia|intro; lia].
        * apply IH in H. destruct H as [A B]. split; [destruct (is_psome r); lia|intro; lia].
  Qed.

  Lemma R_poll_write_cancel s r s' : poll_write_cancel stp s = (r, s') -> R s s'.
  Proof.
    intro H. apply poll_write_cancel_inv in H.
    destruct H as [r s1 H1 Hr|r s1 s2 H1 H2 Hr|s1 id e s2 w s3 H1 H2 H3].
    - eapply R_ensure_writeable, H1.
    - destruct (Mb_next_cancel_loop _ _ _ _ H2) as (A & B).
      eapply R_trans; [eapply R_ensure_writeable, H1|]. apply R_of_eq; [destruct (is_psome r); lia|exact B].
    - destruct (Mb_next_cancel_loop _ _ _ _ H2) as (A & _). cbn [is_psome] in A.
      pose proof (proj1 (R_ensure_writeable _ _ _ H1)) as L1. pose proof (Mb_do_send _ _ _ _ H3) as L4.
      apply R_strict. lia.
  Qed.

  Lemma R_poll_expired s : R s (snd (poll_expired s)).
  Proof.
    unfold poll_expired. destruct (min_timer (timers s) None) as [[id w]|]; [|apply R_refl].
    destruct (N.leb w (now s)); [|apply R_refl]. cbn [inflight timers upd_if].
    destruct (alookup id (inflight s)) as [e|] eqn:E; cbn [snd].
    - apply R_strict. rewrite Mb_slot_send. unfold Mb.
      cbn [calls queue cancels inflight tr terminal finished rx_closed upd_if].
      assert (L : (length (aremove id (inflight s)) < length (inflight s))%nat).
      { apply ClientProofsG1Fuel.length_aremove_lt. eapply alookup_some_in, E. }
      lia.
    - apply R_fields; try reflexivity; try (cbn; lia); auto.
  Qed.

  Lemma R_pump_write s r s' : pump_write stp s = (r, s') -> DI s -> R s s'.
  Proof.
    intros H D. apply pump_write_inv in H.
    destruct H as [a s1 H1|u s1 H1|r1 s1 a s2 H1 I1 H2|r1 s1 u s2 H1 I1 H2
                  |r1 s1 r2 s2 id s3 H1 I1 H2 I2 H3|s1 s2 s3 x s4 H1 H2 H3 H4
                  |r1 s1 r2 s2 s3 x s4 H1 I1 H2 I2 I12 H3 H4];
      pose proof (R_poll_write_request _ _ _ H1 D) as R1; try exact R1;
      pose proof (R_poll_write_cancel _ _ _ H2) as R2; try (eapply R_trans; eassumption);
      pose proof (R_poll_expired s2) as R3; rewrite H3 in R3; cbn [snd] in R3.
    - eapply R_trans; [exact R1|eapply R_trans; eassumption].
    - eapply R_trans; [exact R1|]. eapply R_trans; [exact R2|]. eapply R_trans; [exact R3|].
      eapply R_do_close, H4.
    - eapply R_trans; [exact R1|]. eapply R_trans; [exact R2|]. eapply R_trans; [exact R3|].
      eapply R_do_flush, H4.
  Qed.

  Lemma R_pump_read s r s' : pump_read stp s = (r, s') -> R s s'.
  Proof.
    intro H. apply pump_read_inv in H. destruct H as (x & s1 & H1 & -> & ->).
    destruct (R_do_next _ _ _ H1) as [R1 M1]. destruct x as [y| | |]; try exact R1.
    apply R_strict. pose proof (proj1 (Mb_complete_request s1 (r_id y)
       (match r_body y with BOk v => OReply v | BErr k => OSrvErr k end))). unfold complete. lia.
  Qed.

  Lemma R_run_loop f : forall s r s', run_loop stp f s = (r, s') -> DI s -> R s s'.
  Proof.
    induction f as [|f IH]; intros s r s' H D; [cbn in H; injection H as _ <-; apply R_refl|].
    apply run_loop_inv in H.
    destruct H as [a s1 H1|rd s1 a s2 H1 N1 H2|s1 wr s2 H1 H2 N2|rd s1 s2 H1 D1 H2 L2
                  |s1 wr s2 H1 H2 D2|rd s1 wr s2 r s3 H1 H2 D' H3];
      pose proof (R_pump_read _ _ _ H1) as R1; try exact R1;
      destruct (DI_pump_read _ _ _ _ H1 D) as [E1 _];
      pose proof (R_pump_write _ _ _ H2 E1) as R2; try (eapply R_trans; eassumption).
    destruct (DI_pump_write _ _ _ _ H2 E1) as [E2 _].
    eapply R_trans; [exact R1|]. eapply R_trans; [exact R2|]. eapply IH; eassumption.
  Qed.

  (* ---------------------------------------------------------------- shut_down *)
  Lemma W_fold_closed l : forall s,
    (forall w, In w l -> exists k, nth_error (calls s) w = Some k /\
                                   (c_phase k = PAcquiring \/ c_phase k = PAcqClosed)) ->
    (W (calls (fold_left (fun acc w => set_phase acc w PAcqClosed) l s)) <= W (calls s))%nat.
  Proof.
    induction l as [|w r IH]; intros s A; cbn [fold_left]; [lia|].
    destruct (A w (or_introl eq_refl)) as (k & Ek & Ep).
    assert (L1 : (W (calls (set_phase s w PAcqClosed)) <= W (calls s))%nat).
    { rewrite sp_calls, Ek. pose proof (W_set_nth w k (with_phase k PAcqClosed) (calls s) Ek) as H.
      cbn [c_phase with_phase wt] in H. destruct Ep as [Ep|Ep]; rewrite Ep in H; cbn [wt] in H; lia. }
    etransitivity; [apply IH|exact L1].
    intros w' Hw'. destruct (A w' (or_intror Hw')) as (k' & Ek' & Ep').
    rewrite nth_set_phase. destruct (Nat.eqb_spec w' w) as [->|Hn].
    - rewrite Ek. cbn. eexists. split; [reflexivity|]. right. reflexivity.
    - exists k'. auto.
  Qed.

  Lemma R_q_close s : IX s -> R s (q_close s).
  Proof.
    intro X. destruct (rx_closed s) eqn:Ec.
    - unfold q_close. rewrite Ec. apply R_refl.
    - apply R_strict. destruct (q_close_fields s) as (F1 & F2 & F3 & F4 & _ & _ & F7 & _).
      pose proof (if_tr _ _ (IFrame_q_close s)) as F8.
      unfold Mb. rewrite F1, F2, F3, F4, F7, F8, q_close_closed, Ec. cbn [ofalse].
      assert (L : (W (calls (q_close s)) <= W (calls s))%nat).
      { unfold q_close. rewrite Ec. cbn [calls upd_q]. apply W_fold_closed.
        intros w Hw. destruct (w_acq _ _ (ix_w _ X) w Hw) as (k & Ek & Ep). exists k. auto. }
      lia.
  Qed.

  Lemma inflight_complete_all s o : inflight (complete_all s o) = [].
  Proof. unfold complete_all. rewrite (inflight_fold_slot_send (A := N * ifentry) fst). reflexivity. Qed.

  Lemma R_complete_all s o : R s (complete_all s o).
  Proof.
    pose proof (TFrame_complete_all s o) as F. pose proof (tf_i _ _ F) as I. pose proof (if_p _ _ I) as P.
    assert (E : (Mb (complete_all s o) + length (inflight s) = Mb s)%nat).
    { unfold Mb. rewrite (tf_calls _ _ F), (tf_queue _ _ F), (tf_cancels _ _ F), (tf_rxc _ _ F),
        (pf_terminal _ _ P), (pf_finished _ _ P), (if_tr _ _ I), inflight_complete_all. cbn [length]. lia. }
    split; [lia|]. intro E2.
    assert (Z : inflight s = []) by (apply length_zero_iff_nil; lia).
    constructor; try apply F; try apply P.
    - rewrite inflight_complete_all, Z. reflexivity.
    - rewrite (if_plog _ _ I). reflexivity.
    - rewrite (if_plog _ _ I). reflexivity.
  Qed.

  Lemma R_drain_loop f a : forall s b s', drain_loop f a s = (b, s') -> IX s -> R s s'.
  Proof.
    induction f as [|f IH]; intros s b s' H X; cbn [drain_loop] in H.
    - injection H as _ <-. apply R_refl.
    - destruct (q_poll_recv s) as [x s1] eqn:E.
      destruct (Mb_q_poll_recv _ _ _ E X) as [M1 _]. pose proof (IX_q_poll_recv _ _ _ E X) as X1.
      destruct x as [q| |]; try (injection H as _ <-; subst s1; apply R_refl).
      apply IH in H; [|apply IX_slot_send, X1]. destruct H as [L _]. rewrite Mb_slot_send in L.
      apply R_strict. lia.
  Qed.

  Lemma R_shut_down s a b s' : shut_down s a = (b, s') -> IX s -> R s s'.
  Proof.
    unfold shut_down. intros H X.
    eapply R_trans; [apply R_q_close, X|]. eapply R_trans; [apply R_complete_all|].
    eapply R_drain_loop; [exact H|].
    eapply IX_TFrame; [apply TFrame_complete_all|apply IX_q_close, X].
  Qed.

  Lemma R_poll_dispatch f s r s1 : poll_dispatch stp f s = (r, s1) -> DI s -> R s s1.
  Proof.
    unfold poll_dispatch. intros H D. destruct (terminal s) as [a|] eqn:Et.
    - destruct (shut_down s a) as [b s'] eqn:Es. apply R_shut_down in Es; [|apply D].
      destruct b; injection H as _ <-; exact Es.
    - destruct (run_loop stp f s) as [rr s'] eqn:Er.
      pose proof (R_run_loop _ _ _ _ Er D) as R1.
      destruct rr as [|a| |]; try (injection H as _ <-; exact R1).
      destruct (DI_run_loop _ _ _ _ _ Er D) as [D1 _].
      pose proof (pf_terminal _ _ (PFrame_run_loop _ _ _ _ _ Er)) as T1. rewrite Et in T1.
      set (s2 := upd_term s' (Some a)) in *.
      assert (M2 : (Mb s2 + 1 = Mb s')%nat).
      { unfold Mb, s2. cbn [calls queue cancels inflight tr terminal finished rx_closed upd_term].
        rewrite T1. cbn [onone]. lia. }
      assert (D2 : DI s2) by (eapply DI_same; [..|exact D1]; reflexivity).
      destruct (shut_down s2 a) as [b s3] eqn:Es. apply R_shut_down in Es; [|apply D2].
      apply R_strict. destruct R1 as [L1 _]. destruct Es as [L3 _].
      assert (s1 = s3) by (destruct b; congruence). subst s1. lia.
  Qed.

  (* ---------------------------------------------------------------- the dispatch half of a round *)
  Record SameD s s' : Prop := {
    sd_calls : calls s' = calls s;
    sd_queue : queue s' = queue s;
    sd_cancels : cancels s' = cancels s;
    sd_inflight : inflight s' = inflight s;
    sd_waiters : waiters s' = waiters s;
    sd_rxc : rx_closed s' = rx_closed s;
    sd_terminal : terminal s' = terminal s;
    sd_finished : finished s' = finished s }.

  Lemma disp_half_pot s o s1 o1 :
    disp_half stp sfuel s o = (s1, o1) -> Inv s ->
    (Mb s1 <= Mb s)%nat /\
    (Mb s1 = Mb s -> SameD s s1 /\ length (so_sent o1) = length (so_sent o) /\
                     length (so_read o1) = length (so_read o)).
  Proof.
    unfold disp_half. intros H I.
    destruct (finished s) eqn:Ef.
    { injection H as <- <-. split; [lia|]. intros _. split; [constructor; reflexivity|auto]. }
    destruct (dropped s) eqn:Ed.
    { injection H as <- <-. split; [lia|]. intros _. split; [constructor; reflexivity|auto]. }
    set (s0 := upd_tr s (tr s) (fused s) []) in *.
    destruct (poll_dispatch stp (sfuel s0) s0) as [res s'] eqn:Ep. injection H as <- <-.
    destruct I as [X G Rr Kk].
    assert (D0 : DI s0) by (eapply DI_same; [..|exact (Build_DI _ X G)]; reflexivity).
    assert (R0 : GR s0) by (eapply GR_frame; [..|exact Rr]; reflexivity).
    destruct (poll_dispatch_spec _ _ _ _ _ Ep D0 R0 Ef Ed) as (_ & _ & F1 & _ & _).
    destruct (R_poll_dispatch _ _ _ _ Ep D0) as [L1 S1].
    assert (M0 : Mb s0 = Mb s) by reflexivity.
    assert (M2 : (Mb (after_pd res s') + (match res with DReady _ => 1 | _ => 0 end) = Mb s')%nat).
    { unfold after_pd, Mb. destruct res;
        cbn [calls queue cancels inflight tr terminal finished rx_closed upd_tr upd_fin];
        rewrite ?F1; cbn [onone]; lia. }
    split; [destruct res; lia|]. intro E.
    assert (E1 : Mb s' = Mb s0) by (destruct res; lia).
    destruct (S1 E1) as [A1 A2 A3 A4 A5 A6 A7 A8 A9 A10].
    assert (Hres : match res with DReady _ => False | _ => True end) by (destruct res; [lia|exact I|exact I]).
    split.
    - unfold after_pd. destruct res; [contradiction| |]; constructor;
        cbn [calls queue cancels inflight waiters terminal finished rx_closed upd_tr]; assumption.
    - cbn [so_sent so_read]. rewrite !app_length, A9, A10. cbn. lia.
  Qed.

  (* ---------------------------------------------------------------- polling a call future *)
  Lemma Mb_set_phase s i p k :
    nth_error (calls s) i = Some k -> (Mb (set_phase s i p) + wt (c_phase k) = Mb s + wt p)%nat.
  Proof.
    intro Ek. unfold Mb. rewrite sp_calls, Ek, sp_queue, sp_cancels, sp_inflight, sp_tr, sp_terminal,
      sp_finished, sp_rx_closed.
    pose proof (W_set_nth i k (with_phase k p) (calls s) Ek) as H. cbn [c_phase with_phase] in H. lia.
  Qed.

  Lemma Mb_fs_pre s id : (Mb (fs_pre s id) <= Mb s + 1)%nat.
  Proof.
    unfold fs_pre, push_cancel.
    destruct (dropped (slot_rx_close (slot_tx_drop s id) id)); unfold Mb;
      cbn [calls queue cancels inflight tr terminal finished rx_closed upd_cancels slot_rx_close
           slot_tx_drop set_slot upd_slots]; rewrite ?app_length; cbn [length]; lia.
  Qed.

  Lemma Mb_fail_shutdown s i id k :
    nth_error (calls s) i = Some k ->
    (Mb (snd (fail_shutdown s i id)) + wt (c_phase k) <= Mb s + 1)%nat.
  Proof.
    intro Ek. rewrite fail_shutdown_eq. cbn [snd].
    assert (Ek' : nth_error (calls (fs_pre s id)) i = Some k) by (rewrite fsp_calls; exact Ek).
    pose proof (Mb_set_phase (fs_pre s id) i PDone k Ek') as H. cbn [wt] in H.
    pose proof (Mb_fs_pre s id). lia.
  Qed.

  Lemma Mb_poll_slot s i id k :
    nth_error (calls s) i = Some k ->
    (snd (poll_slot s i id) = s /\ forall o, fst (poll_slot s i id) <> CDone o) \/
    (Mb (snd (poll_slot s i id)) + wt (c_phase k) = Mb s)%nat.
  Proof.
    intro Ek. destruct (poll_slot_cases s i id) as [E|[o E]]; rewrite E; cbn [fst snd].
    - left. split; [reflexivity|discriminate].
    - right. assert (Ek' : nth_error (calls (slot_rx_close s id)) i = Some k) by exact Ek.
      pose proof (Mb_set_phase (slot_rx_close s id) i PDone k Ek') as H. cbn [wt] in H.
      assert (M : Mb (slot_rx_close s id) = Mb s).
      { apply Mb_T; [apply TFrame_slot_rx_close|apply (QFrame_slot_rx_close s id)]. }
      lia.
  Qed.

  Lemma Mb_enqueue s i c id tc k :
    nth_error (calls s) i = Some k ->
    (Mb (snd (enqueue s i c id tc)) + wt (c_phase k) <= Mb s + 3)%nat.
  Proof.
    intro Ek. rewrite enqueue_eq. unfold enq_state.
    set (s1 := upd_q s (permits s) (queue s ++ [mkq c id tc]) (waiters s) (rx_closed s)).
    assert (M1 : (Mb s1 = Mb s + 2)%nat).
    { unfold Mb, s1. cbn [calls queue cancels inflight tr terminal finished rx_closed upd_q].
      rewrite app_length. cbn [length]. lia. }
    assert (Ek1 : nth_error (calls s1) i = Some k) by exact Ek.
    pose proof (Mb_set_phase s1 i PAwaiting k Ek1) as M2. cbn [wt] in M2.
    assert (Ek2 : nth_error (calls (set_phase s1 i PAwaiting)) i = Some (with_phase k PAwaiting)).
    { rewrite nth_set_phase, Nat.eqb_refl, Ek1. reflexivity. }
    destruct (Mb_poll_slot (set_phase s1 i PAwaiting) i id _ Ek2) as [[E _]|E].
    - rewrite E. lia.
    - cbn [c_phase with_phase wt] in E. lia.
  Qed.

  Lemma W_set_nth_same i x y l :
    nth_error l i = Some x -> c_phase y = c_phase x -> W (set_nth i y l) = W l.
  Proof. intros E P. pose proof (W_set_nth i x y l E) as H. rewrite P in H. lia. Qed.

  Lemma Mb_fp_state s i k : nth_error (calls s) i = Some k -> Mb (fp_state s i k) = Mb s.
  Proof.
    intro Ek. unfold fp_state, Mb, with_id.
    cbn [calls queue cancels inflight tr terminal finished rx_closed set_slot upd_slots upd_calls upd_misc].
    rewrite (W_set_nth_same i k _ (calls s) Ek) by reflexivity. reflexivity.
  Qed.

  Lemma Mb_poll_call s i :
    (Mb (snd (poll_call s i)) <= Mb s)%nat /\
    (forall k, nth_error (calls s) i = Some k -> c_phase k <> PNew ->
               Mb (snd (poll_call s i)) = Mb s ->
               snd (poll_call s i) = s /\ forall o, fst (poll_call s i) <> CDone o).
  Proof.
    destruct (nth_error (calls s) i) as [k|] eqn:Ek.
    2:{ rewrite (poll_call_none _ _ Ek). cbn. split; [lia|]. intros k H. discriminate. }
    destruct (c_phase k) eqn:Hp.
    - (* PNew *)
      split; [|intros k0 [= <-] H; congruence].
      rewrite (poll_call_new s i k Ek Hp). cbv zeta.
      set (s1 := fp_state s i k).
      assert (M1 : Mb s1 = Mb s) by (apply Mb_fp_state, Ek).
      assert (E1 : nth_error (calls s1) i = Some (with_cid k (next_id s))).
      { unfold s1, fp_state, with_id. cbn [calls set_slot upd_slots upd_calls upd_misc].
        rewrite nth_set_nth, Nat.eqb_refl, Ek. reflexivity. }
      assert (P1 : wt (c_phase (with_cid k (next_id s))) = 4%nat) by (cbn; rewrite Hp; reflexivity).
      destruct (rx_closed s1) eqn:Rx.
      + pose proof (Mb_fail_shutdown s1 i (next_id s) _ E1). lia.
      + destruct (permits s1) as [|pm].
        * cbn [snd]. set (s2 := upd_q s1 0 (queue s1) (waiters s1 ++ [i]) false).
          assert (E2 : nth_error (calls s2) i = Some (with_cid k (next_id s))) by exact E1.
          pose proof (Mb_set_phase s2 i PAcquiring _ E2) as H. cbn [wt] in H.
          assert (Mb s2 = Mb s1).
          { unfold Mb, s2. cbn [calls queue cancels inflight tr terminal finished rx_closed upd_q].
            rewrite Rx. reflexivity. }
          lia.
        * set (s2 := upd_q s1 pm (queue s1) (waiters s1) false).
          assert (E2 : nth_error (calls s2) i = Some (with_cid k (next_id s))) by exact E1.
          match goal with |- context [enqueue s2 i k ?id ?tc] =>
            pose proof (Mb_enqueue s2 i k id tc _ E2) as H end.
          assert (Mb s2 = Mb s1).
          { unfold Mb, s2. cbn [calls queue cancels inflight tr terminal finished rx_closed upd_q].
            rewrite Rx. reflexivity. }
          lia.
    - unfold poll_call. rewrite Ek, Hp. cbn [fst snd]. split; [lia|]. intros. split; [reflexivity|discriminate].
    - (* PAssigned: strict *)
      assert (L : (Mb (snd (poll_call s i)) < Mb s)%nat).
      { unfold poll_call. rewrite Ek, Hp. destruct (rx_closed s) eqn:Rx.
        - set (s2 := upd_q s (S (permits s)) (queue s) (waiters s) true).
          assert (E2 : nth_error (calls s2) i = Some k) by exact Ek.
          pose proof (Mb_fail_shutdown s2 i (c_id k) _ E2) as H. rewrite Hp in H. cbn [wt] in H.
          assert (Mb s2 = Mb s).
          { unfold Mb, s2. cbn [calls queue cancels inflight tr terminal finished rx_closed upd_q].
            rewrite Rx. reflexivity. }
          lia.
        - match goal with |- context [enqueue s i k ?id ?tc] =>
            pose proof (Mb_enqueue s i k id tc _ Ek) as H end.
          rewrite Hp in H. cbn [wt] in H. lia. }
      split; [lia|]. intros. lia.
    - (* PAcqClosed: strict *)
      assert (L : (Mb (snd (poll_call s i)) < Mb s)%nat).
      { unfold poll_call. rewrite Ek, Hp.
        pose proof (Mb_fail_shutdown s i (c_id k) _ Ek) as H. rewrite Hp in H. cbn [wt] in H. lia. }
      split; [lia|]. intros. lia.
    - (* PAwaiting *)
      unfold poll_call. rewrite Ek, Hp.
      destruct (Mb_poll_slot s i (c_id k) _ Ek) as [[E N]|E].
      + rewrite E. split; [lia|]. intros. split; [reflexivity|exact N].
      + rewrite Hp in E. cbn [wt] in E. split; [lia|]. intros. lia.
    - unfold poll_call. rewrite Ek, Hp. cbn [fst snd]. split; [lia|]. intros. split; [reflexivity|discriminate].
    - unfold poll_call. rewrite Ek, Hp. cbn [fst snd]. split; [lia|]. intros. split; [reflexivity|discriminate].
    - unfold poll_call. rewrite Ek, Hp. cbn [fst snd]. split; [lia|]. intros. split; [reflexivity|discriminate].
  Qed.

  (* ---------------------------------------------------------------- polling every call *)
  Definition nonew s : Prop := forall j k, nth_error (calls s) j = Some k -> c_phase k <> PNew.

  Lemma Mb_poll_calls n : forall s i acc s2 dn,
    poll_calls s i n acc = (s2, dn) ->
    (Mb s2 <= Mb s)%nat /\ (nonew s -> Mb s2 = Mb s -> s2 = s /\ dn = acc).
  Proof.
    induction n as [|n IH]; intros s i acc s2 dn H.
    - cbn in H. injection H as <- <-. split; [lia|auto].
    - rewrite poll_calls_step in H.
      destruct (nth_error (calls s) i) as [c|] eqn:Ec; [|apply IH in H; exact H].
      destruct (is_live (c_phase c)) eqn:Hl; [|apply IH in H; exact H].
      destruct (Mb_poll_call s i) as [L1 S1].
      destruct (poll_call s i) as [r s1] eqn:Ep. cbn [fst snd] in L1, S1.
      apply IH in H. destruct H as [L2 S2]. split; [lia|]. intros Hn E.
      destruct (S1 c Ec (Hn i c Ec) ltac:(lia)) as [-> Nd].
      assert (Er : match r with CDone o => acc ++ [(i, o)] | _ => acc end = acc).
      { destruct r; try reflexivity. exfalso. eapply Nd; reflexivity. }
      rewrite Er in S2. apply S2; assumption.
  Qed.

  Lemma pc_nonew n : forall s i acc s2 dn,
    poll_calls s i n acc = (s2, dn) ->
    forall j k2, (i <= j < i + n)%nat -> nth_error (calls s2) j = Some k2 -> c_phase k2 <> PNew.
  Proof.
    induction n as [|n IH]; intros s i acc s2 dn H j k2 Hj Ek2; [lia|].
    rewrite poll_calls_step in H.
    (* the state after the step at i, in which call i is not PNew *)
    assert (Step : exists s1 acc1, poll_calls s1 (S i) n acc1 = (s2, dn) /\
                     forall k1, nth_error (calls s1) i = Some k1 -> c_phase k1 <> PNew).
    { destruct (nth_error (calls s) i) as [c|] eqn:Ec.
      - destruct (is_live (c_phase c)) eqn:Hl.
        + destruct (poll_call_shape s i c Ec) as [[Hq Hc]|[[Hq Hc]|(k' & Sk & Hk)]].
          * rewrite Hq in H. exists s, acc. split; [exact H|]. intros k1 E1. rewrite Ec in E1.
            injection E1 as <-. destruct Hc as [Hc|[Hc _]]; congruence.
          * congruence.
          * destruct (poll_call s i) as [r s1] eqn:Ep. cbn [snd] in Sk.
            eexists s1, _. split; [exact H|]. intros k1 E1.
            rewrite (SN_nth _ _ _ _ _ Ec Sk) in E1. injection E1 as <-.
            intro X. rewrite X in Hk. cbn in Hk. lia.
        + exists s, acc. split; [exact H|]. intros k1 E1. rewrite Ec in E1. injection E1 as <-.
          intro X. rewrite X in Hl. discriminate.
      - exists s, acc. split; [exact H|]. intros k1 E1. congruence. }
    destruct Step as (s1 & acc1 & H1 & N1).
    destruct (Nat.eq_dec j i) as [->|Hne]; [|eapply (IH _ _ _ _ _ H1 j); [lia|exact Ek2]].
    pose proof (PM_poll_calls n s1 (S i) acc1) as P. rewrite H1 in P. cbn [fst] in P.
    destruct (PM_nth_back _ _ _ _ P Ek2) as (k1 & E1).
    pose proof (proj2 P _ _ _ E1 Ek2) as Hr. specialize (N1 k1 E1).
    intro X. rewrite X in Hr. cbn in Hr. destruct (c_phase k1); cbn in Hr; try lia. congruence.
  Qed.

  (* ---------------------------------------------------------------- one round *)
  Lemma list_eqb_N_refl (l : list N) : list_eqb N.eqb l l = true.
  Proof. induction l as [|x r IH]; cbn; [reflexivity|]. rewrite N.eqb_refl, IH. reflexivity. Qed.

  Lemma digest_eqb_refl s : digest_eqb (digest s) (digest s) = true.
  Proof.
    unfold digest, digest_eqb. rewrite !Nat.eqb_refl, list_eqb_N_refl, Bool.eqb_reflx. cbn [andb].
    destruct (terminal s) as [[]|]; destruct (finished s) as [[|[]]|]; reflexivity.
  Qed.

  Lemma digest_SameD s s' : SameD s s' -> digest s' = digest s.
  Proof. intros [E1 E2 E3 E4 E5 E6 E7 E8]. unfold digest. rewrite E1, E2, E3, E4, E5, E6, E7, E8. reflexivity. Qed.

  Lemma round_pot s o s2 o2 q :
    round stp sfuel s o = (s2, o2, q) -> Inv s -> NW s ->
    (Mb s2 <= Mb s)%nat /\ nonew s2 /\ (nonew s -> q = false -> (Mb s2 < Mb s)%nat).
  Proof.
    unfold round. intros H I Hnw.
    destruct (disp_half stp sfuel s o) as [s1 o1] eqn:Ed.
    destruct (poll_calls s1 0 (length (calls s1)) []) as [s2' dn] eqn:Ec.
    apply pair_equal_spec in H. destruct H as [H Hq].
    apply pair_equal_spec in H. destruct H as [<- <-].
    destruct (disp_half_pot _ _ _ _ Ed I) as [L1 S1].
    destruct (Mb_poll_calls _ _ _ _ _ _ Ec) as [L2 S2].
    pose proof (PM_poll_calls (length (calls s1)) s1 0 []) as P2. rewrite Ec in P2. cbn [fst] in P2.
    split; [lia|]. split.
    - intros j k2 Ek2. eapply (pc_nonew _ _ _ _ _ _ Ec j); [|exact Ek2].
      split; [lia|]. cbn. rewrite <- (proj1 P2). apply nth_error_Some. congruence.
    - intros Hn Hf. destruct (Nat.eq_dec (Mb s2') (Mb s)) as [E|E]; [exfalso|lia].
      destruct (S1 ltac:(lia)) as (SD & Ls & Lr).
      assert (Hn1 : nonew s1) by (unfold nonew; rewrite (sd_calls _ _ SD); exact Hn).
      destruct (S2 Hn1 ltac:(lia)) as [-> ->].
      rewrite (digest_SameD _ _ SD), digest_eqb_refl in Hq. cbn [length so_sent so_read] in Hq.
      rewrite Ls, Lr, !Nat.eqb_refl in Hq. cbn in Hq. congruence.
  Qed.

  Lemma noisy_nonew n : forall s o, Inv s -> NW s -> nonew s -> all_noisy n s o -> (n <= Mb s)%nat.
  Proof.
    induction n as [|n IH]; intros s o I Hnw Hn A; [lia|]. cbn [all_noisy] in A.
    destruct (round_Inv stp sfuel s o I Hnw) as [I2 P2].
    destruct (round stp sfuel s o) as [[s2 o2] q] eqn:Er. cbn [fst] in I2, P2. destruct A as [Hq A].
    destruct (round_pot _ _ _ _ _ Er I Hnw) as (L & N2 & St).
    specialize (IH s2 o2 I2 (NW_PM _ _ P2 Hnw) N2 A). specialize (St Hn Hq). lia.
  Qed.

  Lemma noisy_any n s o : Inv s -> NW s -> all_noisy n s o -> (n <= Mb s + 1)%nat.
  Proof.
    intros I Hnw A. destruct n as [|n]; [lia|]. cbn [all_noisy] in A.
    destruct (round_Inv stp sfuel s o I Hnw) as [I2 P2].
    destruct (round stp sfuel s o) as [[s2 o2] q] eqn:Er. cbn [fst] in I2, P2. destruct A as [Hq A].
    destruct (round_pot _ _ _ _ _ Er I Hnw) as (L & N2 & _).
    pose proof (noisy_nonew n s2 o2 I2 (NW_PM _ _ P2 Hnw) N2 A). lia.
  Qed.

  Lemma Mb_bound s : (Mb s + 1 < rounds_of s + length (st_inbox (tr s)))%nat.
  Proof.
    unfold Mb, rounds_of. pose proof (W_le (calls s)).
    assert (onone (terminal s) <= 1)%nat by (destruct (terminal s); cbn; lia).
    assert (onone (finished s) <= 1)%nat by (destruct (finished s); cbn; lia).
    assert (ofalse (rx_closed s) <= 1)%nat by (destruct (rx_closed s); cbn; lia).
    lia.
  Qed.

  (* on a reachable state the settle of `wstep` never runs out of rounds *)
  Lemma settle_no_fuel s s' r :
    Inv s -> NW s ->
    settle stp sfuel (rounds_of s + length (st_inbox (tr s))) s sobs0 = (s', r) -> so_fuel r = false.
  Proof.
    intros I Hnw E. destruct (so_fuel r) eqn:Ef; [exfalso|reflexivity].
    apply (c02_settles_partial _ _ _ _ _ E eq_refl) in Ef.
    pose proof (noisy_any _ _ _ I Hnw Ef). pose proof (Mb_bound s). lia.
  Qed.
End Pot.

(* ================================================================== the theorems *)
Theorem c02_settles_holds : stmt_c02_settles.
Proof.
  unfold stmt_c02_settles. intros c ops Hw.
  unfold settled, wrun. rewrite wrun_from_app. set (sF := wfinal_from (cinit c) ops).
  destruct (Inv_wfinal_from ops (cinit c) (Inv_cinit c)) as [IF LF].
  { unfold wno_wrap in Hw. cbn. exact Hw. }
  fold sF in IF, LF. cbn in LF.
  assert (Hnw : NW sF) by (unfold NW, wno_wrap, two64 in *; lia).
  cbn [wrun_from wstep].
  destruct (settle stp sfuel (rounds_of sF + length (st_inbox (tr sF))) sF sobs0) as [s1 r] eqn:Es.
  rewrite last_last. rewrite (settle_no_fuel _ _ _ IF Hnw Es). exact I.
Qed.
Print Assumptions c02_settles_holds.

(* the two C02 theorems of ClientWakeProofs.v without the hypothesis `settled c ops` *)
Theorem c02_dead_unconditional : forall c ops,
  wno_wrap ops ->
  let s := wfinal c (ops ++ [WSettle]) in
  (exists a, finished s = Some (DErr a)) \/ dropped s = true ->
  forall i k, nth_error (calls s) i = Some k -> is_live (c_phase k) = false.
Proof. intros c ops Hw. exact (c02_dead_holds c ops Hw (c02_settles_holds c ops Hw)). Qed.
Print Assumptions c02_dead_unconditional.

Theorem c02_quiescent_unconditional : forall c ops,
  wno_wrap ops ->
  (1 <= cf_qcap c)%nat -> (1 <= cf_maxif c)%nat ->
  let s := wfinal c (ops ++ [WSettle]) in
  writable (tr s) = true -> st_inbox (tr s) = [] -> st_eof (tr s) = false ->
  finished s = None -> dropped s = false ->
  forall i k, nth_error (calls s) i = Some k -> is_live (c_phase k) = true ->
    inflight s <> []
    /\ (forall id w, In (id, w) (timers s) -> (now s < w)%N)
    /\ (In (c_id k) (map fst (inflight s))
        \/ length (inflight s) = max_if s).
Proof.
  intros c ops Hw Hq Hm. exact (c02_quiescent_holds c ops Hw Hq Hm (c02_settles_holds c ops Hw)).
Qed.
Print Assumptions c02_quiescent_unconditional.
