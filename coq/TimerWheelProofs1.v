(* Timer wheel proofs, part 1: the slot lists as finite maps (level, slot) -> stack: what push,
   drop and remove do to `stack_of`, well-formedness (distinct keys, no empty stack), and the
   multiset of entries. *)
From Coq Require Import List Bool Arith NArith Lia Permutation.
Import ListNotations.
From TarpcV Require Import TimerWheel.
Local Open Scope N_scope.

Definition wents (l : list wslot) : list wentry := flat_map ws_stack l.
Definition key (x : wslot) : nat * N := (ws_level x, ws_slot x).
Definition keyb (lv : nat) (sl : N) (lv' : nat) (sl' : N) : bool := Nat.eqb lv' lv && N.eqb sl' sl.

Record wf (l : list wslot) : Prop := {
  wf_keys : NoDup (map key l);
  wf_ne : forall x, In x l -> ws_stack x <> [] }.

Lemma wf_nil : wf []. Proof. split; [constructor|intros ? []]. Qed.

Lemma slot_is_key lv sl x : slot_is lv sl x = true <-> key x = (lv, sl).
Proof.
  unfold slot_is, key. rewrite andb_true_iff, Nat.eqb_eq, N.eqb_eq. split; [intros [-> ->]; reflexivity|intros [= -> ->]; auto].
Qed.
Lemma slot_is_false lv sl x : slot_is lv sl x = false <-> key x <> (lv, sl).
Proof. rewrite <- slot_is_key. destruct (slot_is lv sl x); split; congruence. Qed.
Lemma keyb_true lv sl lv' sl' : keyb lv sl lv' sl' = true <-> (lv', sl') = (lv, sl).
Proof. unfold keyb. rewrite andb_true_iff, Nat.eqb_eq, N.eqb_eq. split; [intros [-> ->]; reflexivity|intros [= -> ->]; auto]. Qed.
Lemma slot_is_keyb lv sl x : slot_is lv sl x = keyb lv sl (ws_level x) (ws_slot x).
Proof. reflexivity. Qed.

(* ---------------------------------------------------------------- stack_of *)
Lemma stack_of_in lv sl l e : In e (stack_of lv sl l) -> exists x, In x l /\ key x = (lv, sl) /\ In e (ws_stack x).
Proof.
  unfold stack_of. destruct (find (slot_is lv sl) l) as [x|] eqn:F; [|intro H; destruct H].
  apply find_some in F. destruct F as [I S]. intro H. exists x. split; [exact I|]. split; [apply slot_is_key, S|exact H].
Qed.
Lemma stack_of_wf l x : NoDup (map key l) -> In x l -> stack_of (ws_level x) (ws_slot x) l = ws_stack x.
Proof.
  unfold stack_of. induction l as [|y r IH]; intros ND HI; [destruct HI|]. destruct HI as [<-|I]; cbn [find].
  - assert (S : slot_is (ws_level y) (ws_slot y) y = true) by (apply slot_is_key; reflexivity). rewrite S. reflexivity.
  - inversion ND as [|? ? NI ND']; subst. destruct (slot_is (ws_level x) (ws_slot x) y) eqn:S.
    + exfalso. apply NI. apply slot_is_key in S. rewrite S. change (ws_level x, ws_slot x) with (key x). apply in_map, I.
    + apply IH; assumption.
Qed.

Lemma stack_of_push lv sl e l lv' sl' :
  stack_of lv' sl' (push_slot lv sl e l) = if keyb lv sl lv' sl' then e :: stack_of lv sl l else stack_of lv' sl' l.
Proof.
  unfold stack_of. induction l as [|y r IH]; cbn [push_slot find].
  - unfold slot_is at 1. cbn [ws_level ws_slot]. fold (keyb lv' sl' lv sl).
    destruct (keyb lv sl lv' sl') eqn:K.
    + apply keyb_true in K. injection K as -> ->. assert (K' : keyb lv sl lv sl = true) by (apply keyb_true; reflexivity). rewrite K'. reflexivity.
    + destruct (keyb lv' sl' lv sl) eqn:K'; [|reflexivity]. apply keyb_true in K'. injection K' as -> ->.
      assert (keyb lv' sl' lv' sl' = true) by (apply keyb_true; reflexivity). congruence.
  - destruct (slot_is lv sl y) eqn:S; cbn [find].
    + unfold slot_is at 1. cbn [ws_level ws_slot]. fold (keyb lv' sl' lv sl).
      destruct (keyb lv sl lv' sl') eqn:K.
      * apply keyb_true in K. injection K as -> ->. assert (K' : keyb lv sl lv sl = true) by (apply keyb_true; reflexivity). rewrite K'. reflexivity.
      * destruct (keyb lv' sl' lv sl) eqn:K'.
        { apply keyb_true in K'. injection K' as -> ->. assert (keyb lv' sl' lv' sl' = true) by (apply keyb_true; reflexivity). congruence. }
        destruct (slot_is lv' sl' y) eqn:S'; [|reflexivity].
        apply slot_is_key in S, S'. rewrite S in S'. injection S' as -> ->.
        assert (keyb lv' sl' lv' sl' = true) by (apply keyb_true; reflexivity). congruence.
    + destruct (slot_is lv' sl' y) eqn:S'.
      * destruct (keyb lv sl lv' sl') eqn:K; [|reflexivity].
        apply keyb_true in K. injection K as -> ->. congruence.
      * exact IH.
Qed.

Lemma stack_of_drop lv sl l lv' sl' :
  stack_of lv' sl' (drop_slot lv sl l) = if keyb lv sl lv' sl' then [] else stack_of lv' sl' l.
Proof.
  unfold stack_of, drop_slot. induction l as [|y r IH]; cbn [filter find].
  - destruct (keyb _ _ _ _); reflexivity.
  - destruct (slot_is lv sl y) eqn:S; cbn [negb find].
    + destruct (slot_is lv' sl' y) eqn:S'; [|exact IH].
      apply slot_is_key in S, S'. rewrite S in S'. injection S' as -> ->.
      assert (K : keyb lv' sl' lv' sl' = true) by (apply keyb_true; reflexivity). rewrite K in *. exact IH.
    + destruct (slot_is lv' sl' y) eqn:S'; [|exact IH].
      destruct (keyb lv sl lv' sl') eqn:K; [|reflexivity].
      apply keyb_true in K. injection K as -> ->. congruence.
Qed.

(* ---------------------------------------------------------------- keys / wf *)
Lemma keys_push lv sl e l :
  map key (push_slot lv sl e l) = if existsb (slot_is lv sl) l then map key l else map key l ++ [(lv, sl)].
Proof.
  induction l as [|y r IH]; cbn [push_slot existsb map app]; [reflexivity|].
  destruct (slot_is lv sl y) eqn:S; cbn [orb map].
  - apply slot_is_key in S. unfold key at 1. cbn [ws_level ws_slot]. rewrite <- S. reflexivity.
  - rewrite IH. destruct (existsb _ r); reflexivity.
Qed.
Lemma NoDup_snoc {X} (l : list X) a : NoDup l -> ~ In a l -> NoDup (l ++ [a]).
Proof.
  induction l as [|x r IH]; intros ND NI; cbn [app]; [constructor; [intros []|constructor]|].
  inversion ND as [|? ? NX ND']; subst. constructor.
  - intro H. apply in_app_or in H. destruct H as [H|[H|[]]]; [exact (NX H)|]. subst. apply NI. left; reflexivity.
  - apply IH; [exact ND'|]. intro H. apply NI. right; exact H.
Qed.
Lemma push_ne lv sl e l : (forall x, In x l -> ws_stack x <> []) -> forall x, In x (push_slot lv sl e l) -> ws_stack x <> [].
Proof.
  induction l as [|y r IH]; intros NE x; cbn [push_slot].
  - intros [<-|[]]. discriminate.
  - destruct (slot_is lv sl y).
    + intros [<-|H]; [discriminate|]. apply NE. right; exact H.
    + intros [<-|H]; [apply NE; left; reflexivity|]. apply IH; [|exact H]. intros z Z. apply NE. right; exact Z.
Qed.
Lemma wf_push lv sl e l : wf l -> wf (push_slot lv sl e l).
Proof.
  intros [K NE]. split; [|apply push_ne, NE].
  rewrite keys_push. destruct (existsb (slot_is lv sl) l) eqn:EX; [exact K|].
  apply NoDup_snoc; [exact K|]. intro H. apply in_map_iff in H. destruct H as (x & Kx & I).
  assert (existsb (slot_is lv sl) l = true); [|congruence].
  apply existsb_exists. exists x. split; [exact I|apply slot_is_key, Kx].
Qed.

Lemma NoDup_map_filter {X Y} (f : X -> Y) (p : X -> bool) l : NoDup (map f l) -> NoDup (map f (filter p l)).
Proof.
  induction l as [|x r IH]; intro ND; cbn [filter map]; [constructor|].
  inversion ND as [|? ? NX ND']; subst. destruct (p x); cbn [map]; [|apply IH, ND'].
  constructor; [|apply IH, ND']. intro H. apply NX. apply in_map_iff in H. destruct H as (y & E & I).
  apply filter_In in I. rewrite <- E. apply in_map, I.
Qed.
Lemma wf_drop lv sl l : wf l -> wf (drop_slot lv sl l).
Proof.
  intros [K NE]. split; [apply NoDup_map_filter, K|]. intros x H. apply filter_In in H. apply NE, H.
Qed.
Lemma wf_cons_replace lv sl st l : wf l -> st <> [] -> wf ({| ws_level := lv; ws_slot := sl; ws_stack := st |} :: drop_slot lv sl l).
Proof.
  intros W NE. destruct (wf_drop lv sl l W) as [K N]. split.
  - cbn [map]. constructor; [|exact K]. intro H. apply in_map_iff in H. destruct H as (x & Kx & I).
    apply filter_In in I. destruct I as [_ I]. apply negb_true_iff, slot_is_false in I. apply I. exact Kx.
  - intros x [<-|H]; [exact NE|apply N, H].
Qed.

(* ---------------------------------------------------------------- the multiset of entries *)
Lemma wents_push lv sl e l : Permutation (wents (push_slot lv sl e l)) (e :: wents l).
Proof.
  unfold wents. induction l as [|y r IH]; cbn [push_slot flat_map]; [reflexivity|].
  destruct (slot_is lv sl y); cbn [flat_map ws_stack app]; [reflexivity|].
  eapply perm_trans; [apply Permutation_app_head, IH|]. symmetry. apply Permutation_middle.
Qed.

Lemma wents_partition p l : Permutation (wents l) (wents (filter p l) ++ wents (filter (fun x => negb (p x)) l)).
Proof.
  unfold wents. induction l as [|y r IH]; cbn [filter flat_map]; [reflexivity|].
  destruct (p y); cbn [negb flat_map].
  - rewrite <- app_assoc. apply Permutation_app_head, IH.
  - eapply perm_trans; [apply Permutation_app_head, IH|].
    rewrite !app_assoc. apply Permutation_app_tail, Permutation_app_comm.
Qed.
Lemma filter_key_wf lv sl l : NoDup (map key l) -> wents (filter (slot_is lv sl) l) = stack_of lv sl l.
Proof.
  unfold stack_of, wents. induction l as [|y r IH]; intro ND; cbn [filter find flat_map]; [reflexivity|].
  inversion ND as [|? ? NX ND']; subst. destruct (slot_is lv sl y) eqn:S; [|apply IH, ND'].
  cbn [flat_map]. assert (E : filter (slot_is lv sl) r = []).
  { apply slot_is_key in S. clear - S NX. induction r as [|z r IH]; cbn [filter]; [reflexivity|].
    destruct (slot_is lv sl z) eqn:Sz.
    - exfalso. apply NX. left. apply slot_is_key in Sz. congruence.
    - apply IH. intro H. apply NX. right; exact H. }
  rewrite E. cbn. apply app_nil_r.
Qed.
Lemma wents_drop lv sl l : wf l -> Permutation (wents l) (stack_of lv sl l ++ wents (drop_slot lv sl l)).
Proof.
  intros [K _]. rewrite <- (filter_key_wf lv sl l K). apply wents_partition.
Qed.

Definition keep (id : N) (e : wentry) : bool := negb (N.eqb (we_id e) id).
Lemma wents_remove id l : wents (remove_entry id l) = filter (keep id) (wents l).
Proof.
  unfold wents, remove_entry. induction l as [|y r IH]; cbn [map filter flat_map]; [reflexivity|].
  rewrite filter_app, <- IH. cbn [ws_stack]. fold (keep id).
  destruct (filter (keep id) (ws_stack y)) eqn:F; cbn [flat_map ws_stack app]; [reflexivity|reflexivity].
Qed.
Lemma keys_remove_sub id l : forall k, In k (map key (remove_entry id l)) -> In k (map key l).
Proof.
  intros k H. apply in_map_iff in H. destruct H as (x & Kx & I). unfold remove_entry in I.
  apply filter_In in I. destruct I as [I _]. apply in_map_iff in I. destruct I as (y & <- & Iy).
  apply in_map_iff. exists y. split; [exact Kx|exact Iy].
Qed.
Lemma wf_remove id l : wf l -> wf (remove_entry id l).
Proof.
  intros [K NE]. split.
  - unfold remove_entry. apply NoDup_map_filter. rewrite map_map. exact K.
  - intros x H. unfold remove_entry in H. apply filter_In in H. destruct H as [_ H]. destruct (ws_stack x); [discriminate|discriminate].
Qed.
Lemma stack_of_remove id l lv sl : wf l -> stack_of lv sl (remove_entry id l) = filter (keep id) (stack_of lv sl l).
Proof.
  intros [K _]. unfold stack_of, remove_entry. induction l as [|y r IH]; cbn [map filter find]; [reflexivity|].
  inversion K as [|? ? NX K']; subst. cbn [ws_stack]. fold (keep id).
  destruct (slot_is lv sl y) eqn:S.
  - destruct (filter (keep id) (ws_stack y)) eqn:F.
    + (* slot vanishes; no other slot has this key *)
      match goal with |- match find ?f ?l with _ => _ end = _ => destruct (find f l) as [z|] eqn:FZ end; [|reflexivity].
      exfalso. apply find_some in FZ. destruct FZ as [I Sz]. apply NX.
      apply slot_is_key in S, Sz. rewrite S, <- Sz.
      apply (keys_remove_sub id r). apply in_map. exact I.
    + cbn [find]. unfold slot_is at 1. cbn [ws_level ws_slot]. fold (slot_is lv sl y). rewrite S. cbn [ws_stack]. reflexivity.
  - destruct (filter (keep id) (ws_stack y)) eqn:F.
    + apply IH, K'.
    + cbn [find]. unfold slot_is at 1. cbn [ws_level ws_slot]. fold (slot_is lv sl y). rewrite S. apply IH, K'.
Qed.
