(* Termination of the server's polling loops: with the fuel `poll_fuel` (linear in the queue
   lengths) no poll of the model runs out of fuel.  For every transport whose fuel measure
   `tfuel` decreases with every item it hands out and is never increased by a call. *)
From Coq Require Import List Bool Arith NArith Lia.
Import ListNotations.
From TarpcV Require Import Base Transport TimerWheel Server.

Ltac sproj :=
  cbn [fst snd s_t s_fused s_inflight s_timers s_dq s_cancels s_aborted s_next_h s_respq
       s_permits s_waiters s_handlers s_now s_dropped s_bad s_log
       set_t set_fused set_inflight set_timers set_dq set_cancels set_aborted set_next_h
       set_respq set_permits set_waiters set_handlers set_now set_dropped set_bad set_log] in *.

Section Fuel.
  Context {T C : Type}.
  Variable tp : transport T response cmsg.
  Variable ctl : T -> C -> T.
  Variable tfuel : T -> nat.

  Definition tfuel_ok : Prop :=
    (forall t, tfuel (snd (t_ready tp t)) <= tfuel t)
    /\ (forall t, tfuel (snd (t_flush tp t)) <= tfuel t)
    /\ (forall t m, tfuel (snd (t_send tp t m)) <= tfuel t)
    /\ (forall t, match fst (t_next tp t) with
                  | RItem _ => S (tfuel (snd (t_next tp t))) <= tfuel t
                  | _ => tfuel (snd (t_next tp t)) <= tfuel t
                  end).
  Hypothesis TF : tfuel_ok.

  Notation st := (@sstate T).
  Definition mu (s : st) : nat :=
    2 * tfuel (s_t s) + length (s_cancels s) + length (s_timers s).

  Lemma filter_len_le : forall A (f : A -> bool) l, length (filter f l) <= length l.
  Proof. induction l; cbn; [lia|]. destruct (f a); cbn; lia. Qed.

  Lemma drop_timer_le : forall id l, length (drop_timer id l) <= length l.
  Proof. intros; unfold drop_timer; apply filter_len_le. Qed.

  Lemma drop_timer_lt : forall id w l, In (id, w) l -> length (drop_timer id l) < length l.
  Proof.
    induction l as [|[i x] l IH]; cbn; intros H; [contradiction|].
    destruct H as [H|H].
    - inversion H; subst. rewrite N.eqb_refl; cbn.
      pose proof (drop_timer_le id l). unfold drop_timer in *. lia.
    - specialize (IH H). destruct (N.eqb i id); cbn; unfold drop_timer in *; lia.
  Qed.

  Lemma mu_remove_request : forall id (s : st),
    mu (snd (remove_request id s)) <= mu s
    /\ s_respq (snd (remove_request id s)) = s_respq s
    /\ s_t (snd (remove_request id s)) = s_t s
    /\ s_cancels (snd (remove_request id s)) = s_cancels s.
  Proof.
    intros; unfold remove_request. destruct (find_entry id s); cbn [snd]; [|repeat split; try reflexivity; lia].
    unfold mu; sproj. pose proof (drop_timer_le id (s_timers s)). repeat split; try reflexivity; lia.
  Qed.

  Lemma mu_cancel_request : forall id (s : st),
    mu (cancel_request id s) <= mu s /\ s_respq (cancel_request id s) = s_respq s.
  Proof.
    intros; unfold cancel_request. destruct (find_entry id s); [|split; try reflexivity; lia].
    unfold mu; sproj. pose proof (drop_timer_le id (s_timers s)). split; try reflexivity; lia.
  Qed.

  Lemma due_in : forall (s : st) p, In p (due s) -> In p (s_timers s).
  Proof. intros s p H; unfold due in H; apply filter_In in H; tauto. Qed.

  Lemma mu_poll_expired : forall (s : st) r s',
    poll_expired s = (r, s') ->
    s_respq s' = s_respq s /\ s_t s' = s_t s /\ s_cancels s' = s_cancels s
    /\ s_fused s' = s_fused s
    /\ match r with RSReady => S (mu s') <= mu s | _ => mu s' <= mu s end.
  Proof.
    intros s r s' H; unfold poll_expired in H.
    destruct (s_timers s) eqn:ET; [inversion H; subst; repeat split; try reflexivity; lia|].
    clear ET.
    destruct (dq_poll (s_now s) (s_dq s)) as [choice dq'].
    destruct (due s) as [|[id0 w0] rest] eqn:ED.
    - inversion H; subst; clear H.
      destruct choice; unfold mu; sproj; repeat split; try reflexivity; lia.
    - assert (Hin0 : In (id0, w0) (s_timers s)) by (apply due_in; rewrite ED; left; reflexivity).
      set (pick := match choice with
                   | DQSome i => if existsb (fun p => N.eqb (fst p) i) ((id0, w0) :: rest)
                                 then (i, true) else (id0, false)
                   | _ => (id0, false) end) in *.
      assert (Hv : exists w, In (fst pick, w) (s_timers s)).
      { subst pick. destruct choice as [i| |]; try (exists w0; exact Hin0).
        destruct (existsb _ _) eqn:EX; [|exists w0; exact Hin0].
        apply existsb_exists in EX. destruct EX as [[i' w'] [Hin Heq]]. cbn in Heq.
        apply N.eqb_eq in Heq; subst. exists w'. apply due_in. rewrite ED. exact Hin. }
      destruct pick as [victim agree]. cbn in Hv. destruct Hv as [w Hw].
      pose proof (drop_timer_lt victim w (s_timers s) Hw) as Hlt.
      destruct agree; cbn in H.
      + match type of H with (_, match ?F with _ => _ end) = _ => destruct F end;
          inversion H; subst; clear H; unfold mu, drop_timer in *; sproj; repeat split; try reflexivity; lia.
      + match type of H with (_, match ?F with _ => _ end) = _ => destruct F end;
          inversion H; subst; clear H; unfold mu, drop_timer in *; sproj; repeat split; try reflexivity; lia.
  Qed.

  Lemma mu_start_request : forall id dl (s : st) h s',
    start_request id dl s = Some (h, s') ->
    s_respq s' = s_respq s /\ s_t s' = s_t s /\ s_cancels s' = s_cancels s
    /\ length (s_timers s') = S (length (s_timers s)).
  Proof.
    intros id dl s h s' H; unfold start_request in H.
    destruct (tracked id s); [discriminate|]. inversion H; subst; sproj.
    rewrite app_length; cbn [length]. repeat split; try reflexivity; lia.
  Qed.

  Lemma TF_next : forall t, match fst (t_next tp t) with
                            | RItem _ => S (tfuel (snd (t_next tp t))) <= tfuel t
                            | _ => tfuel (snd (t_next tp t)) <= tfuel t end.
  Proof. apply TF. Qed.

  (* BaseChannel::poll_next *)
  Lemma base_fuel : forall f (s : st) r s',
    mu s < f -> base_poll_next tp f s = (r, s') ->
    r <> PFuel /\ s_respq s' = s_respq s
    /\ match r with PReady _ => S (mu s') <= mu s | _ => mu s' <= mu s end.
  Proof.
    induction f as [|f IH]; intros s r s' Hmu H; [lia|].
    cbn [base_poll_next] in H.
    (* cancel queue *)
    set (cs := match s_cancels s with
               | id :: r0 => (RSReady, snd (remove_request id (set_cancels s r0)))
               | [] => (RSClosed, s) end) in H.
    assert (Hc : s_respq (snd cs) = s_respq s /\ s_t (snd cs) = s_t s
                 /\ match fst cs with RSReady => S (mu (snd cs)) <= mu s | _ => mu (snd cs) <= mu s end).
    { subst cs. destruct (s_cancels s) as [|id r0] eqn:EC; cbn; [repeat split; lia|].
      destruct (mu_remove_request id (set_cancels s r0)) as (A & B & D & E).
      repeat split; try (rewrite B; reflexivity); try (rewrite D; reflexivity).
      unfold mu in *. cbn in *. rewrite EC. cbn. lia. }
    destruct cs as [cst s1]. cbn [fst snd] in Hc. destruct Hc as (Hc1 & Hc2 & Hc3).
    destruct (poll_expired s1) as [est s2] eqn:EE.
    destruct (mu_poll_expired _ _ _ EE) as (He1 & He2 & He3 & He4 & He5).
    assert (Hstat : forall rst sx,
               s_respq sx = s_respq s2 ->
               (match rst with RSReady => S (mu sx) <= mu s2 | _ => mu sx <= mu s2 end) ->
               forall r s',
               match combine (combine cst est) rst with
               | RSReady => base_poll_next tp f sx
               | RSClosed => (PEnd, sx)
               | RSPending => (PPending, sx)
               end = (r, s') ->
               r <> PFuel /\ s_respq s' = s_respq s
               /\ match r with PReady _ => S (mu s') <= mu s | _ => mu s' <= mu s end).
    { intros rst sx Hq Hm r0 s0 HH.
      assert (Hle : mu sx <= mu s) by (destruct cst, est, rst; lia).
      assert (Hrq : s_respq sx = s_respq s) by congruence.
      destruct (combine (combine cst est) rst) eqn:ECB.
      - assert (Hlt : mu sx < f).
        { destruct cst, est, rst; cbn in ECB; try discriminate; lia. }
        destruct (IH _ _ _ Hlt HH) as (A & B & D). split; [exact A|]. split; [congruence|].
        destruct r0; lia.
      - injection HH as <- <-. repeat split; [discriminate|congruence|lia].
      - injection HH as <- <-. repeat split; [discriminate|congruence|lia]. }
    destruct (s_fused s2) eqn:EF.
    - apply (Hstat RSClosed s2 eq_refl); [lia|exact H].
    - unfold do_next in H.
      pose proof (TF_next (s_t s2)) as Hn.
      destruct (t_next tp (s_t s2)) as [rr t'] eqn:EN. cbn [fst snd] in Hn.
      cbn [fst snd] in H.
      set (s3 := set_log (set_t s2 t') (CNext rr :: s_log s2)) in *.
      assert (Hs3q : s_respq s3 = s_respq s2) by reflexivity.
      assert (Hs3c : length (s_cancels s3) = length (s_cancels s2)) by reflexivity.
      assert (Hs3t : length (s_timers s3) = length (s_timers s2)) by reflexivity.
      assert (Hs3f : s_t s3 = t') by reflexivity.
      destruct rr as [m| | |].
      + (* an item *)
        assert (Hm3 : S (S (mu s3)) <= mu s2) by (unfold mu; rewrite Hs3c, Hs3t, Hs3f; lia).
        destruct m as [id dl tr body|id tr].
        * destruct (start_request id dl s3) as [[h s4]|] eqn:ES.
          -- destruct (mu_start_request _ _ _ _ _ ES) as (A & B & D & E).
             injection H as <- <-. split; [discriminate|]. split; [congruence|].
             unfold mu in *. rewrite B, D, E. destruct cst, est; lia.
          -- assert (Hlt : mu s3 < f) by (destruct cst, est; lia).
             destruct (IH _ _ _ Hlt H) as (A & B & D). split; [exact A|]. split; [congruence|].
             destruct r; destruct cst, est; lia.
        * destruct (mu_cancel_request id s3) as (A & B).
          apply (Hstat RSReady (cancel_request id s3)); [congruence|lia|exact H].
      + injection H as <- <-. split; [discriminate|]. split; [congruence|].
        assert (mu s3 <= mu s2) by (unfold mu; rewrite Hs3c, Hs3t, Hs3f; lia).
        destruct cst, est; lia.
      + apply (Hstat RSClosed (set_fused s3 true)); [reflexivity| |exact H].
        change (mu (set_fused s3 true)) with (mu s3).
        unfold mu; rewrite Hs3c, Hs3t, Hs3f; lia.
      + apply (Hstat RSPending s3); [reflexivity| |exact H].
        unfold mu; rewrite Hs3c, Hs3t, Hs3f; lia.
  Qed.

  Lemma TF_ready : forall t, tfuel (snd (t_ready tp t)) <= tfuel t. Proof. apply TF. Qed.
  Lemma TF_flush : forall t, tfuel (snd (t_flush tp t)) <= tfuel t. Proof. apply TF. Qed.
  Lemma TF_send : forall t m, tfuel (snd (t_send tp t m)) <= tfuel t. Proof. apply TF. Qed.

  Lemma mu_do_ready : forall (s : st) r s', do_ready tp s = (r, s') ->
    mu s' <= mu s /\ s_respq s' = s_respq s.
  Proof.
    intros s r s' H; unfold do_ready in H. pose proof (TF_ready (s_t s)) as Hr.
    destruct (t_ready tp (s_t s)) as [x t']. injection H as <- <-. unfold mu; sproj.
    split; [lia|reflexivity].
  Qed.
  Lemma mu_do_flush : forall (s : st) r s', do_flush tp s = (r, s') ->
    mu s' <= mu s /\ s_respq s' = s_respq s.
  Proof.
    intros s r s' H; unfold do_flush in H. pose proof (TF_flush (s_t s)) as Hr.
    destruct (t_flush tp (s_t s)) as [x t']. injection H as <- <-. unfold mu; sproj.
    split; [lia|reflexivity].
  Qed.
  Lemma mu_do_send : forall m (s : st) r s', do_send tp m s = (r, s') ->
    mu s' <= mu s /\ s_respq s' = s_respq s.
  Proof.
    intros m s r s' H; unfold do_send in H. pose proof (TF_send (s_t s) m) as Hr.
    destruct (t_send tp (s_t s) m) as [x t']. injection H as <- <-. unfold mu; sproj.
    split; [lia|reflexivity].
  Qed.

  Lemma mu_base_start_send : forall m (s : st) e s', base_start_send tp m s = (e, s') ->
    mu s' <= mu s /\ s_respq s' = s_respq s.
  Proof.
    intros m s e s' H; unfold base_start_send in H.
    destruct (mu_remove_request (resp_id m) s) as (A & B & _).
    destruct (remove_request (resp_id m) s) as [was s1]. cbn [snd] in *.
    destruct was.
    - destruct (do_send tp m s1) as [r s2] eqn:ES. destruct (mu_do_send _ _ _ _ ES) as (D & E).
      injection H as <- <-. split; [lia|congruence].
    - injection H as <- <-. split; [lia|congruence].
  Qed.

  (* MaxRequests::poll_next *)
  Lemma maxreq_fuel : forall f limit (s : st) r s',
    mu s < f -> maxreq_poll_next tp f limit s = (r, s') ->
    r <> PFuel /\ s_respq s' = s_respq s
    /\ match r with PReady _ => S (mu s') <= mu s | _ => mu s' <= mu s end.
  Proof.
    induction f as [|f IH]; intros limit s r s' Hmu H; [lia|].
    cbn [maxreq_poll_next] in H.
    destruct (limit <=? length (s_inflight s)).
    - destruct (do_ready tp s) as [x s1] eqn:ER. destruct (mu_do_ready _ _ _ ER) as (A & B).
      destruct x.
      + destruct (base_poll_next tp (S f) s1) as [y s2] eqn:EB.
        assert (Hlt : mu s1 < S f) by lia.
        destruct (base_fuel _ _ _ _ Hlt EB) as (D & E & F).
        destruct y as [q| | | |].
        * destruct (base_start_send tp (mkresp (q_id q) BThrottle) s2) as [e s3] eqn:ESS.
          destruct (mu_base_start_send _ _ _ _ ESS) as (G & I).
          destruct e.
          -- injection H as <- <-. split; [discriminate|]. split; [congruence|lia].
          -- assert (Hlt3 : mu s3 < f) by lia.
             destruct (IH _ _ _ _ Hlt3 H) as (J & K & L). split; [exact J|]. split; [congruence|].
             destruct r; lia.
        * injection H as <- <-. split; [discriminate|]. split; [congruence|lia].
        * injection H as <- <-. split; [discriminate|]. split; [congruence|lia].
        * injection H as <- <-. split; [discriminate|]. split; [congruence|lia].
        * exfalso; apply D; reflexivity.
      + injection H as <- <-. split; [discriminate|]. split; [congruence|lia].
      + injection H as <- <-. split; [discriminate|]. split; [congruence|lia].
    - assert (Hlt : mu s < S f) by lia. exact (base_fuel _ _ _ _ Hlt H).
  Qed.

  Lemma mu_add_permit : forall (s : st), mu (add_permit s) = mu s /\ s_respq (add_permit s) = s_respq s.
  Proof.
    intros s; unfold add_permit. destruct (s_waiters s) as [|k r]; [split; reflexivity|].
    sproj. destruct (nth_error (s_handlers s) k) as [[h i [| |b|b| |]]|]; split; reflexivity.
  Qed.

  Lemma mu_ensure_writeable : forall (s : st) w s', ensure_writeable tp s = (w, s') ->
    mu s' <= mu s /\ s_respq s' = s_respq s.
  Proof.
    intros s w s' H; unfold ensure_writeable in H.
    destruct (do_ready tp s) as [r s1] eqn:E1. destruct (mu_do_ready _ _ _ E1) as (A & B).
    destruct r; try (injection H as <- <-; split; [lia|congruence]).
    destruct (do_flush tp s1) as [f s2] eqn:E2. destruct (mu_do_flush _ _ _ E2) as (D & E).
    destruct f; try (injection H as <- <-; split; [lia|congruence]).
    destruct (do_ready tp s2) as [r2 s3] eqn:E3. destruct (mu_do_ready _ _ _ E3) as (F & G).
    destruct r2; injection H as <- <-; split; try lia; congruence.
  Qed.

  (* Requests::pump_write *)
  Lemma pump_write_fuel : forall rc (s : st) w s', pump_write tp rc s = (w, s') ->
    w <> PFuel /\ mu s' <= mu s
    /\ match w with
       | PReady _ => S (length (s_respq s')) <= length (s_respq s)
       | _ => length (s_respq s') <= length (s_respq s) end.
  Proof.
    intros rc s w s' H; unfold pump_write, poll_next_response in H.
    destruct (ensure_writeable tp s) as [x s1] eqn:EW.
    destruct (mu_ensure_writeable _ _ _ EW) as (A & B).
    destruct x as [| |a].
    - destruct (s_respq s1) as [|m q] eqn:EQ.
      + destruct (do_flush tp s1) as [f s2] eqn:EFl.
        destruct (mu_do_flush _ _ _ EFl) as (D & E).
        destruct f; [destruct (rc && _)| |];
          injection H as <- <-; (split; [discriminate|]); (split; [lia|]); rewrite E, EQ; cbn [length]; lia.
      + destruct (mu_add_permit (set_respq s1 q)) as (D & E).
        destruct (base_start_send tp m (add_permit (set_respq s1 q))) as [e s2] eqn:ES.
        destruct (mu_base_start_send _ _ _ _ ES) as (F & G).
        assert (Hq : S (length (s_respq s2)) <= length (s_respq s)).
        { rewrite G, E. sproj. rewrite <- B. cbn [length]. lia. }
        assert (Hm : mu s2 <= mu s).
        { rewrite D in F. change (mu (set_respq s1 q)) with (mu s1) in F. lia. }
        destruct e; injection H as <- <-; (split; [discriminate|]); (split; [lia|]); lia.
    - destruct (do_flush tp s1) as [f s2] eqn:EFl.
      destruct (mu_do_flush _ _ _ EFl) as (D & E).
      destruct f; [destruct (rc && _)| |];
        injection H as <- <-; (split; [discriminate|]); (split; [lia|]); rewrite E, B; lia.
    - injection H as <- <-. split; [discriminate|]. split; [lia|rewrite B; lia].
  Qed.

  Lemma pump_read_fuel : forall c f (s : st) r s',
    mu s < f -> pump_read tp c f s = (r, s') ->
    r <> PFuel /\ s_respq s' = s_respq s
    /\ match r with PReady _ => S (mu s') <= mu s | _ => mu s' <= mu s end.
  Proof.
    intros c f s r s' Hmu H; unfold pump_read in H. destruct (cfg_limit c).
    - exact (maxreq_fuel _ _ _ _ _ Hmu H).
    - exact (base_fuel _ _ _ _ Hmu H).
  Qed.

  (* impl Stream for Requests: poll_next *)
  Lemma requests_fuel : forall c f (s : st) r s',
    mu s + length (s_respq s) < f -> requests_poll_next tp c f s = (r, s') -> r <> PFuel.
  Proof.
    induction f as [|f IH]; intros s r s' Hmu H; [lia|].
    cbn [requests_poll_next] in H.
    destruct (pump_read tp c (S f) s) as [rd s1] eqn:ER.
    assert (Hlt : mu s < S f) by lia.
    destruct (pump_read_fuel _ _ _ _ _ Hlt ER) as (A & B & D).
    destruct rd as [q| |a| |]; try (exfalso; apply A; reflexivity);
      try (injection H as <- <-; discriminate).
    all: match type of H with context [pump_write tp ?b ?sx] =>
           destruct (pump_write tp b sx) as [wr s2] eqn:EW;
           destruct (pump_write_fuel _ _ _ _ EW) as (E & F & G) end.
    all: destruct wr as [u| |a| |]; try (exfalso; apply E; reflexivity);
      try (injection H as <- <-; discriminate).
    all: try (apply (IH s2 r s'); [rewrite B in G; lia|exact H]).
  Qed.

  Lemma poll_requests_no_fuel : forall c (s : st),
    ~ In OFuel (snd (poll_requests tp tfuel c s)).
  Proof.
    intros c s; unfold poll_requests. destruct (s_dropped s); [cbn; tauto|].
    destruct (requests_poll_next tp c (poll_fuel tfuel s) (set_log s [])) as [r s1] eqn:ER.
    assert (Hr : r <> PFuel).
    { apply (requests_fuel c _ _ _ _) in ER; [exact ER|].
      unfold poll_fuel, mu; sproj. lia. }
    destruct r; cbn; try (intros [HH|[HH|[]]]; discriminate). exfalso; apply Hr; reflexivity.
  Qed.
End Fuel.
