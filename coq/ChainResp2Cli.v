(* Chain proofs, C08 across the hop, client side: every request in the outbound side of the
   link (l_c2s) was written by a dispatch poll, i.e. is (or will be, at the end of the running
   poll) recorded by the monitor under this link with its id and body.  Only do_send touches
   l_c2s.  Over Chain.ctp, in every state. *)
From Coq Require Import List Bool Arith NArith Lia.
Import ListNotations.
From TarpcV Require Import Base Transport Client ClientLemmas ClientProofsG1Frames.
From TarpcV Require Server Chain ChainCli ChainCasc1u.

Notation ctp := Chain.ctp.
Notation cst := (@cstate Chain.link).
Notation rql := (list (nat * N * N)).

(* ChainRespSpec.rq_obs on KWire i l *)
Definition wreq (i : nat) (acc : rql) (l : list Chain.wmsg) : rql :=
  fold_left (fun acc w => match w with
                          | Chain.WReq id _ _ _ body => (i, id, body) :: acc
                          | Chain.WCancel _ _ _ => acc end) l acc.
Lemma wreq_app i acc l1 l2 : wreq i acc (l1 ++ l2) = wreq i (wreq i acc l1) l2.
Proof. apply fold_left_app. Qed.
Lemma wreq_incl i l : forall acc x, In x acc -> In x (wreq i acc l).
Proof.
  induction l as [|w r IH]; intros acc x H; cbn; [exact H|]. apply IH. destruct w; [right; exact H|exact H].
Qed.
Lemma wire_of_app l1 l2 : Chain.wire_of (l1 ++ l2) = Chain.wire_of l1 ++ Chain.wire_of l2.
Proof. unfold Chain.wire_of. apply flat_map_app. Qed.

Definition lreq (i : nat) (R : rql) (l : Chain.link) : Prop :=
  forall id dl tr b, In (Server.MReq id dl tr b) (Chain.l_c2s l) -> In (i, id, b) R.

Section C2S.
  Variable i : nat.
  Variable R : rql.
  Implicit Types s : cst.

  Definition c2ok s : Prop := lreq i (wreq i R (Chain.wire_of (plog s))) (tr s).

  Lemma c2ok_eq s s' : tr s' = tr s -> plog s' = plog s -> c2ok s -> c2ok s'.
  Proof. unfold c2ok. intros -> ->. auto. Qed.
  Lemma c2ok_I s s' : IFrame s s' -> c2ok s -> c2ok s'.
  Proof. intro F. apply c2ok_eq; [apply (if_tr _ _ F)|apply (if_plog _ _ F)]. Qed.
  Lemma c2ok_T s s' : TFrame s s' -> c2ok s -> c2ok s'.
  Proof. intro F. apply c2ok_I, (tf_i _ _ F). Qed.

  Lemma c2ok_quiet s s' c :
    Chain.l_c2s (tr s') = Chain.l_c2s (tr s) -> plog s' = plog s ++ [c] -> Chain.wire_of [c] = [] ->
    c2ok s -> c2ok s'.
  Proof.
    unfold c2ok, lreq. intros E1 E2 W H id dl tr0 b Hin. rewrite E1 in Hin.
    rewrite E2, wire_of_app, W, app_nil_r. eapply H, Hin.
  Qed.

  Lemma c2ok_do_ready s r s' : do_ready ctp s = (r, s') -> c2ok s -> c2ok s'.
  Proof.
    unfold do_ready. cbn. intros [= <- <-]. apply (c2ok_quiet _ _ (CReady (if Chain.l_sgone (tr s) then TErr else TOk))); reflexivity.
  Qed.
  Lemma c2ok_do_flush s r s' : do_flush ctp s = (r, s') -> c2ok s -> c2ok s'.
  Proof. unfold do_flush. cbn. intros [= <- <-]. apply (c2ok_quiet _ _ (CFlush TOk)); reflexivity. Qed.
  Lemma c2ok_do_close s r s' : do_close ctp s = (r, s') -> c2ok s -> c2ok s'.
  Proof. unfold do_close. cbn. intros [= <- <-]. apply (c2ok_quiet _ _ (CClose TOk)); reflexivity. Qed.
  Lemma c2ok_do_next s r s' : do_next ctp s = (r, s') -> c2ok s -> c2ok s'.
  Proof.
    unfold do_next. destruct (fused s); [intros [= <- <-]; auto|]. cbn.
    destruct (Chain.l_s2c (tr s)) as [|x rest]; intros [= <- <-].
    - apply (c2ok_quiet _ _ (CNext (if Chain.l_sgone (tr s) then REof else RPending))); reflexivity.
    - apply (c2ok_quiet _ _ (CNext (RItem x))); reflexivity.
  Qed.
  Lemma c2ok_do_send s m r s' : do_send ctp s m = (r, s') -> c2ok s -> c2ok s'.
  Proof.
    unfold do_send. cbn. destruct (Chain.l_sgone (tr s)); intros [= <- <-] H.
    - apply (c2ok_quiet s _ (CSend m SErr)); [reflexivity|reflexivity| |exact H]. destruct m; reflexivity.
    - unfold c2ok, lreq in *. cbn [tr plog upd_tr Chain.l_c2s]. intros id dl tr0 b Hin.
      rewrite wire_of_app, wreq_app. apply in_app_or in Hin. destruct Hin as [Hin|[Hin|[]]].
      + apply wreq_incl. eapply H, Hin.
      + destruct m; cbn in Hin; [|discriminate]. injection Hin as <- _ _ <-. cbn. left. reflexivity.
  Qed.

  Lemma c2ok_ensure_writeable s r s' : ensure_writeable ctp s = (r, s') -> c2ok s -> c2ok s'.
  Proof.
    intros E H. apply ensure_writeable_inv in E.
    destruct E as [r1 s1 E1 _|s1 s2 E1 E2|s1 s2 E1 E2|s1 s2 r3 s3 E1 E2 E3].
    - eapply c2ok_do_ready; eassumption.
    - eapply c2ok_do_flush; [eassumption|]. eapply c2ok_do_ready; eassumption.
    - eapply c2ok_do_flush; [eassumption|]. eapply c2ok_do_ready; eassumption.
    - eapply c2ok_do_ready; [eassumption|]. eapply c2ok_do_flush; [eassumption|].
      eapply c2ok_do_ready; eassumption.
  Qed.

  Lemma c2ok_poll_write_request s r s' : poll_write_request ctp s = (r, s') -> c2ok s -> c2ok s'.
  Proof.
    intros E H. apply poll_write_request_inv in E.
    destruct E as [_|r1 s1 _ E1 _|r1 s1 s2 _ E1 E2 _|s1 q s2 w s3 _ E1 E2 E3].
    - exact H.
    - eapply c2ok_ensure_writeable; eassumption.
    - pose proof (IFrame_next_request_loop (S (length (queue s1))) s1) as F. rewrite E2 in F.
      eapply c2ok_I; [exact F|]. eapply c2ok_ensure_writeable; eassumption.
    - pose proof (IFrame_next_request_loop (S (length (queue s1))) s1) as F. rewrite E2 in F.
      assert (H3 : c2ok s3).
      { eapply c2ok_do_send; [exact E3|]. eapply c2ok_T; [apply TFrame_insert_request|].
        eapply c2ok_I; [exact F|]. eapply c2ok_ensure_writeable; eassumption. }
      destruct w; [exact H3|]. eapply c2ok_T; [apply TFrame_complete_request|exact H3].
  Qed.
  Lemma c2ok_poll_write_cancel s r s' : poll_write_cancel ctp s = (r, s') -> c2ok s -> c2ok s'.
  Proof.
    intros E H. apply poll_write_cancel_inv in E.
    destruct E as [r1 s1 E1 _|r1 s1 s2 E1 E2 _|s1 id e s2 w s3 E1 E2 E3].
    - eapply c2ok_ensure_writeable; eassumption.
    - pose proof (IFrame_next_cancel_loop (S (length (cancels s1))) s1) as F. rewrite E2 in F.
      eapply c2ok_I; [exact F|]. eapply c2ok_ensure_writeable; eassumption.
    - pose proof (IFrame_next_cancel_loop (S (length (cancels s1))) s1) as F. rewrite E2 in F.
      eapply c2ok_do_send; [exact E3|]. eapply c2ok_I; [exact F|]. eapply c2ok_ensure_writeable; eassumption.
  Qed.
  Lemma c2ok_pump_write s r s' : pump_write ctp s = (r, s') -> c2ok s -> c2ok s'.
  Proof.
    intros E H. apply pump_write_inv in E.
    assert (PE : forall a e b, poll_expired a = (e, b) -> c2ok a -> c2ok b).
    { intros a e b Ee Ha. pose proof (TFrame_poll_expired a) as F. rewrite Ee in F. eapply c2ok_T; eassumption. }
    destruct E as [a s1 E1|u s1 E1|r1 s1 a s2 E1 _ E2|r1 s1 u s2 E1 _ E2
                  |r1 s1 r2 s2 id s3 E1 _ E2 _ E3|s1 s2 s3 c s4 E1 E2 E3 E4
                  |r1 s1 r2 s2 s3 f s4 E1 _ E2 _ _ E3 E4].
    - eapply c2ok_poll_write_request; eassumption.
    - eapply c2ok_poll_write_request; eassumption.
    - eapply c2ok_poll_write_cancel; [eassumption|]. eapply c2ok_poll_write_request; eassumption.
    - eapply c2ok_poll_write_cancel; [eassumption|]. eapply c2ok_poll_write_request; eassumption.
    - eapply PE; [eassumption|]. eapply c2ok_poll_write_cancel; [eassumption|].
      eapply c2ok_poll_write_request; eassumption.
    - eapply c2ok_do_close; [eassumption|]. eapply PE; [eassumption|].
      eapply c2ok_poll_write_cancel; [eassumption|]. eapply c2ok_poll_write_request; eassumption.
    - eapply c2ok_do_flush; [eassumption|]. eapply PE; [eassumption|].
      eapply c2ok_poll_write_cancel; [eassumption|]. eapply c2ok_poll_write_request; eassumption.
  Qed.
  Lemma c2ok_pump_read s r s' : pump_read ctp s = (r, s') -> c2ok s -> c2ok s'.
  Proof.
    intros E H. apply pump_read_inv in E. destruct E as (x & s1 & E1 & _ & ->).
    pose proof (c2ok_do_next _ _ _ E1 H) as H1.
    destruct x; try exact H1. eapply c2ok_T; [apply TFrame_complete|exact H1].
  Qed.
  Lemma c2ok_run_loop f : forall s r s', run_loop ctp f s = (r, s') -> c2ok s -> c2ok s'.
  Proof.
    induction f as [|f IH]; intros s r s' E H; [cbn in E; injection E as <- <-; exact H|].
    apply run_loop_inv in E.
    destruct E as [a s1 E1|rd s1 a s2 E1 _ E2|s1 wr s2 E1 E2 _|rd s1 s2 E1 _ E2 _
                  |s1 wr s2 E1 E2 _|rd s1 wr s2 r s3 E1 E2 _ E3].
    - eapply c2ok_pump_read; eassumption.
    - eapply c2ok_pump_write; [eassumption|]. eapply c2ok_pump_read; eassumption.
    - eapply c2ok_pump_write; [eassumption|]. eapply c2ok_pump_read; eassumption.
    - eapply c2ok_pump_write; [eassumption|]. eapply c2ok_pump_read; eassumption.
    - eapply c2ok_pump_write; [eassumption|]. eapply c2ok_pump_read; eassumption.
    - eapply IH; [eassumption|]. eapply c2ok_pump_write; [eassumption|]. eapply c2ok_pump_read; eassumption.
  Qed.
  Lemma c2ok_poll_dispatch f s r s' : poll_dispatch ctp f s = (r, s') -> c2ok s -> c2ok s'.
  Proof.
    unfold poll_dispatch. intros E H. destruct (terminal s) as [a|].
    - pose proof (IFrame_shut_down s a) as F. destruct (shut_down s a) as [b s1]. cbn [snd] in F.
      destruct b; injection E as <- <-; eapply c2ok_I; eassumption.
    - destruct (run_loop ctp f s) as [rr s1] eqn:Er. pose proof (c2ok_run_loop _ _ _ _ Er H) as H1.
      destruct rr; try (injection E as <- <-; exact H1).
      assert (H2 : c2ok (upd_term s1 (Some a))) by (eapply c2ok_eq; [..|exact H1]; reflexivity).
      pose proof (IFrame_shut_down (upd_term s1 (Some a)) a) as F. destruct (shut_down _ a) as [b s3]. cbn [snd] in F.
      destruct b; injection E as <- <-; eapply c2ok_I; eassumption.
  Qed.
End C2S.

(* every op of the client but the dispatch poll leaves the link as it is *)
Section Other.
  Implicit Types s : cst.
  Variable fuel_of : cst -> nat.

  Lemma tr_drop_dispatch s : tr (drop_dispatch s) = tr s.
  Proof.
    unfold drop_dispatch. cbn.
    assert (FT : forall {B} (g : B -> N) (l : list B) (x : cst),
                 tr (fold_left (fun acc p => slot_tx_drop acc (g p)) l x) = tr x).
    { intros B g l. induction l as [|y r IH]; intro x; cbn; [reflexivity|]. rewrite IH. reflexivity. }
    rewrite !FT. apply (if_tr _ _ (IFrame_q_close s)).
  Qed.

  Lemma tr_step_other s o s' os :
    step ctp fuel_of s o = (s', os) -> o <> PollDispatch -> (forall g, o <> Tr g) -> tr s' = tr s.
  Proof.
    destruct o; cbn [step]; intros E N1 N2; try congruence.
    - injection E as <- _. destruct (nth_error _ _) as [[|]|]; reflexivity.
    - injection E as <- _. destruct (nth_error _ _) as [[|]|]; reflexivity.
    - injection E as <- _. reflexivity.
    - pose proof (ChainCasc1u.tr_poll_call s i) as F. destruct (poll_call s i). injection E as <- _. exact F.
    - injection E as <- _. destruct (option_map _ _) as [[]|];
        rewrite ?ChainCasc1u.tr_guard_cancel, ?ChainCasc1u.tr_guard_close; reflexivity.
    - injection E as <- _. destruct (option_map _ _) as [[]|]; rewrite ?ChainCasc1u.tr_guard_close; reflexivity.
    - injection E as <- _. apply ChainCasc1u.tr_guard_cancel.
    - injection E as <- _. destruct (dropped s); [reflexivity|apply tr_drop_dispatch].
    - injection E as <- _. reflexivity.
  Qed.

  (* the dispatch poll: the link afterwards against what the poll reports as written *)
  Lemma c2ok_step_dispatch i R s s' os :
    step ctp fuel_of s PollDispatch = (s', os) -> lreq i R (tr s) ->
    (os = [] /\ tr s' = tr s) \/
    (exists l r a b, os = [OCalls l; ODisp r; OGauge a b] /\ lreq i (wreq i R (Chain.wire_of l)) (tr s')).
  Proof.
    cbn [step]. intros E H.
    destruct (finished s); [injection E as <- <-; left; split; reflexivity|].
    destruct (dropped s); [injection E as <- <-; left; split; reflexivity|].
    set (s0 := upd_tr s (tr s) (fused s) []) in *.
    destruct (poll_dispatch ctp (fuel_of s0) s0) as [r s1] eqn:Ep.
    assert (H0 : c2ok i R s0) by exact H.
    pose proof (c2ok_poll_dispatch i R _ _ _ _ Ep H0) as H1.
    injection E as <- <-. right. unfold gauges. eexists _, _, _, _. split; [reflexivity|].
    unfold c2ok in H1. destruct r; exact H1.
  Qed.
End Other.
