(* Chains of services (C04 cascade, C18 / C07 multi-hop): the COMPOSITION of the client model
   (Client.v) and the server model (Server.v).  No proofs in this file.

   A chain of depth d has nodes 0 .. d-1 (the script language of harness/src/chain.rs numbers them
   1 .. d).  Node i = a client (`client::new`, state `Client.cstate`), a link (the two ends of
   `tarpc::transport::channel::unbounded()`), and a server (`BaseChannel::with_defaults(rx)
   .requests()`, state `Server.sstate`).  The head caller drives client 0.  Handler k of server i,
   i < d-1, is the async block
         let r = client_{i+1}.call(ctx_of_the_request, body).await; r
   wrapped in the real `InFlightRequest::execute`; the handlers of the last node are leaves whose
   steps are given by the script.

   Both machines carry their transport state inside their own record; a chain step injects the
   current link into the machine's transport field before the component step and reads it back
   afterwards (`cstep`, `sstep`).

   Third-party behaviour modelled here (never verified): tokio unbounded mpsc as a FIFO list with
   "peer gone" flags (transport/channel.rs: poll_ready = Ok unless the receiver is gone, start_send
   = push, poll_flush = poll_close = Ok, poll_next = pop, end of stream when the peer's sender is
   gone and the queue is empty); an `async` block as "first poll creates the nested call future
   and polls it, later polls poll it, dropping the block drops it". *)
From Coq Require Import List Bool Arith NArith.
Import ListNotations.
From TarpcV Require Import Base Transport TimerWheel.
From TarpcV Require Client Server.

(* ------------------------------------------------------------------------------------------ *)
(* the link: what each reader expects, in FIFO order, and which end has been dropped *)
Record link := mklink {
  l_c2s : list Server.cmsg;          (* client -> server *)
  l_s2c : list Client.resp;          (* server -> client *)
  l_cgone : bool;                    (* the client end (the dispatch's transport) was dropped *)
  l_sgone : bool }.                  (* the server end (the BaseChannel's transport) was dropped *)
Definition link0 : link := mklink [] [] false false.

(* the trace number the server driver uses: 2 * trace_id + sampled *)
Definition trnum (tc : Client.tctx) : N :=
  (2 * Client.tc_tid tc + (if Client.tc_sampled tc then 1 else 0))%N.
Definition conv_msg (m : Client.cmsg) : Server.cmsg :=
  match m with
  | Client.MReq id dl tc body => Server.MReq id dl (trnum tc) body
  | Client.MCancel id tc => Server.MCancel id (trnum tc)
  end.
(* io::ErrorKind codes of the client driver (harness/src/cli.rs KINDS): Other = 16, WouldBlock = 10 *)
Definition conv_body (b : Server.rbody) : Client.rbody :=
  match b with
  | Server.BOk v => Client.BOk v
  | Server.BErr => Client.BErr 16
  | Server.BThrottle => Client.BErr 10
  | Server.BOther => Client.BErr 16
  end.
Definition conv_resp (r : Server.response) : Client.resp :=
  {| Client.r_id := Server.resp_id r; Client.r_body := conv_body (Server.resp_body r) |}.

(* the client's end *)
Definition ctp : transport link Client.cmsg Client.resp :=
  {| t_ready := fun l => (if l_sgone l then TErr else TOk, l);
     t_send := fun l m =>
       if l_sgone l then (SErr, l)
       else (SOk, mklink (l_c2s l ++ [conv_msg m]) (l_s2c l) (l_cgone l) (l_sgone l));
     t_flush := fun l => (TOk, l);
     t_close := fun l => (TOk, l);
     t_next := fun l =>
       match l_s2c l with
       | x :: r => (RItem x, mklink (l_c2s l) r (l_cgone l) (l_sgone l))
       | [] => (if l_sgone l then REof else RPending, l)
       end |}.

(* the server's end *)
Definition stp : transport link Server.response Server.cmsg :=
  {| t_ready := fun l => (if l_cgone l then TErr else TOk, l);
     t_send := fun l m =>
       if l_cgone l then (SErr, l)
       else (SOk, mklink (l_c2s l) (l_s2c l ++ [conv_resp m]) (l_cgone l) (l_sgone l));
     t_flush := fun l => (TOk, l);
     t_close := fun l => (TOk, l);
     t_next := fun l =>
       match l_c2s l with
       | x :: r => (RItem x, mklink r (l_s2c l) (l_cgone l) (l_sgone l))
       | [] => (if l_cgone l then REof else RPending, l)
       end |}.

(* ------------------------------------------------------------------------------------------ *)
(* nodes *)
Notation cstate := (Client.cstate (T := link)).
Notation sstate := (Server.sstate (T := link)).

(* what handler k of a node was given (the yielded request's context and body), and the index of
   its nested call on the next node's client once the handler has been polled *)
Record hinfo := mkhi { hi_dl : N; hi_tr : N; hi_body : N; hi_call : option nat }.

Record node := mknode {
  n_cli : cstate;
  n_link : link;
  n_srv : sstate;
  n_hs : list hinfo;                 (* index = handler incarnation k of this node's server *)
  n_over : bool }.                   (* the Requests stream has ended or yielded an error *)

Definition chain := list node.

(* client::Config::default() and server::Config::default() *)
Definition qcap0 : nat := 100.
Definition maxif0 : nat := 1000.
Definition scfg : Server.cfg := Server.mkcfg None 100.

Definition node0 : node :=
  mknode (Client.init link0 qcap0 maxif0) link0 (Server.init scfg link0) [] false.
Definition init (d : nat) : chain := repeat node0 d.

Fixpoint set_node (i : nat) (nd : node) (ch : chain) : chain :=
  match ch, i with
  | [], _ => []
  | _ :: r, O => nd :: r
  | x :: r, S i' => x :: set_node i' nd r
  end.

(* every iteration of the dispatch's pump loop consumes an inbound item, a queued request, a
   queued cancellation or an expired timer, or ends the poll (cf. ClientS.sfuel) *)
Definition cfuel (s : cstate) : nat :=
  8 + 2 * (length (l_s2c (Client.tr s)) + length (Client.queue s) + length (Client.cancels s)
           + length (Client.timers s)).

(* one step of the node's client on the current link *)
Definition cstep (nd : node) (o : Client.op (T := link)) : node * list (Client.obs) :=
  let c := n_cli nd in
  let c0 := Client.upd_tr c (n_link nd) (Client.fused c) (Client.plog c) in
  let '(c1, l) := Client.step ctp cfuel c0 o in
  (mknode c1 (Client.tr c1) (n_srv nd) (n_hs nd) (n_over nd), l).

(* one step of the node's server on the current link *)
Definition sstep (nd : node) (o : Server.op unit) : node * list Server.obs :=
  let s0 := Server.set_t (n_srv nd) (n_link nd) in
  let '(s1, l) := Server.step stp (fun t _ => t) (fun t => length (l_c2s t)) scfg s0 o in
  (mknode (n_cli nd) (Server.s_t s1) s1 (n_hs nd) (n_over nd), l).

(* ------------------------------------------------------------------------------------------ *)
(* ops and observations *)
Inductive cop :=
| HCall (d tid : N) (smp : bool) (body : N)     (* the head caller creates a call on client 0 *)
| HPoll (j : nat) | HDrop (j : nat)             (* ... polls it / drops it *)
| PollDispatch (i : nat)
| PollRequests (i : nat)
| HandlerPoll (i k : nat) (st : Server.hstep)   (* st is used by leaves only *)
| DropDispatch (i : nat)                        (* drops RequestDispatch i and its transport end *)
| DropServer (i : nat)                          (* drops Requests i and its transport end *)
| Advance (dt : N)                              (* one clock for all nodes *)
| SettleAll.

Inductive stres := KPending | KEnd | KErr (a : activity) | KFuel.

(* what a dispatch poll wrote into its link (successful writes), as a tap on the client's
   transport end sees it; `sid` is the span id, named after the request id it was drawn for *)
Inductive wmsg := WReq (id dl tr sid body : N) | WCancel (id tr sid : N).
Definition wire_of (l : list (tcall Client.cmsg Client.resp)) : list wmsg :=
  flat_map (fun c => match c with
                     | CSend (Client.MReq id dl tc body) SOk =>
                       [WReq id dl (trnum tc) (Client.tc_sid tc) body]
                     | CSend (Client.MCancel id tc) SOk =>
                       [WCancel id (trnum tc) (Client.tc_sid tc)]
                     | _ => [] end) l.

Inductive cobs :=
| KCall (j : nat) (r : Client.cpoll)            (* a poll of head call j *)
| KWire (i : nat) (l : list wmsg)               (* written by this dispatch poll *)
| KDisp (i : nat) (r : Client.dpoll)
| KCGauge (i : nat) (inflight timers : N)       (* RequestDispatch::verif_gauges of node i *)
| KYield (i k : nat) (id dl tr body : N)        (* tr = 2 * trace_id + sampled *)
| KStream (i : nat) (r : stres)
| KHStart (i k : nat)                           (* the handler's first poll *)
| KHPolled (i k : nat) | KHDone (i k : nat) (b : Server.rbody) | KHDropped (i k : nat)
| KExecReady (i k : nat) | KExecPending (i k : nat)
| KSGauge (i : nat) (inflight timers : nat)     (* BaseChannel::verif_gauges of node i *)
| KOracle (i : nat)                             (* the timer-order oracle disagreed (model only) *)
| KPanic                                        (* implementation only *)
| KRounds.                                      (* SettleAll ran out of rounds *)

Definition tr_cobs (i : nat) (o : Client.obs) : list cobs :=
  match o with
  | Client.OCalls l => [KWire i (wire_of l)]
  | Client.ODisp r => [KDisp i r]
  | Client.OGauge a b => [KCGauge i a b]
  | Client.OPanic | Client.OSpin => [KPanic]
  | _ => []
  end.
Definition tr_sobs (i : nat) (o : Server.obs) : list cobs :=
  match o with
  | Server.OCalls _ => []
  | Server.OYield k id dl tr body => [KYield i k id dl tr body]
  | Server.OPending => [KStream i KPending]
  | Server.OStreamEnd => [KStream i KEnd]
  | Server.OStreamErr a => [KStream i (KErr a)]
  | Server.OFuel => [KStream i KFuel]
  | Server.OPanic => [KPanic]
  | Server.OHPolled k => [KHPolled i k]
  | Server.OHDone k b => [KHDone i k b]
  | Server.OHDropped k => [KHDropped i k]
  | Server.OExecReady k => [KExecReady i k]
  | Server.OExecPending k => [KExecPending i k]
  | Server.OGauges a b => [KSGauge i a b]
  | Server.OOracle => [KOracle i]
  end.

(* ------------------------------------------------------------------------------------------ *)
(* component polls *)

(* the head caller polls call j of client 0 *)
Definition poll_head (j : nat) (ch : chain) : chain * list cobs :=
  match nth_error ch 0 with
  | None => (ch, [])
  | Some nd =>
    let '(nd1, l) := cstep nd (Client.PollCall j) in
    (set_node 0 nd1 ch,
     flat_map (fun o => match o with Client.OCall r => [KCall j r] | _ => [] end) l)
  end.

Definition poll_dispatch (i : nat) (ch : chain) : chain * list cobs :=
  match nth_error ch i with
  | None => (ch, [])
  | Some nd =>
    let '(nd1, l) := cstep nd Client.PollDispatch in
    (set_node i nd1 ch, flat_map (tr_cobs i) l)
  end.

(* one poll of the Requests stream; a stream that has ended or failed is not polled again *)
Definition poll_requests (i : nat) (ch : chain) : chain * list cobs :=
  match nth_error ch i with
  | None => (ch, [])
  | Some nd =>
    if n_over nd || Server.s_dropped (n_srv nd) then (ch, [])
    else
      let '(nd1, l) := sstep nd Server.OPoll in
      let yielded :=
        flat_map (fun o => match o with
                           | Server.OYield _ _ dl tr body => [mkhi dl tr body None]
                           | _ => [] end) l in
      let over :=
        existsb (fun o => match o with
                          | Server.OStreamEnd | Server.OStreamErr _ => true
                          | _ => false end) l in
      (set_node i (mknode (n_cli nd1) (n_link nd1) (n_srv nd1) (n_hs nd1 ++ yielded)
                          (n_over nd1 || over)) ch,
       flat_map (tr_sobs i) l)
  end.

Definition is_aborted (s : sstate) (hr : Server.hrec) : bool :=
  existsb (Nat.eqb (Server.h_h hr)) (Server.s_aborted s).

(* `client.call(ctx, body)`: the call future is created with the context of the request, that
   is with its deadline (an Instant, carried verbatim), trace id and sampling decision *)
Definition mk_call (c : cstate) (dl tr body : N) : cstate :=
  Client.upd_calls c
    (Client.calls c ++
     [{| Client.c_handle := 0; Client.c_phase := Client.PNew; Client.c_id := 0%N;
         Client.c_rel := (dl - Client.now c)%N; Client.c_deadline := dl;
         Client.c_tc := {| Client.tc_tid := N.div2 tr; Client.tc_sid := 0%N;
                           Client.tc_sampled := N.odd tr |};
         Client.c_body := body |}]).

Definition set_hcall (k : nat) (j : nat) (l : list hinfo) : list hinfo :=
  match nth_error l k with
  | Some h => Client.set_nth k (mkhi (hi_dl h) (hi_tr h) (hi_body h) (Some j)) l
  | None => l
  end.

(* what the async block of an inner node does when polled: make the nested call on first poll,
   poll it, and turn its result into the handler's step *)
Definition inner_poll (k : nat) (nd : node) (nx : node) : node * node * Server.hstep :=
  match nth_error (n_hs nd) k with
  | None => (nd, nx, Server.SRun)
  | Some h =>
    let '(nd1, nx1, j) :=
      match hi_call h with
      | Some j => (nd, nx, j)
      | None =>
        let j := length (Client.calls (n_cli nx)) in
        (mknode (n_cli nd) (n_link nd) (n_srv nd) (set_hcall k j (n_hs nd)) (n_over nd),
         mknode (mk_call (n_cli nx) (hi_dl h) (hi_tr h) (hi_body h)) (n_link nx) (n_srv nx)
                (n_hs nx) (n_over nx),
         j)
      end in
    let '(nx2, l) := cstep nx1 (Client.PollCall j) in
    let st := match l with
              | [Client.OCall (Client.CDone (Client.OReply v))] => Server.SFinish v
              | [Client.OCall (Client.CDone _)] => Server.SFail
              | _ => Server.SRun
              end in
    (nd1, nx2, st)
  end.

(* one poll of the execute() future of incarnation k of node i.  Order of effects as in
   Server.execute_poll: nothing for a finished or unknown incarnation; the abort flag is checked
   BEFORE the handler is polled, and an aborted execute() drops its handler (and with it the
   nested call future: ResponseGuard::drop = Client DropCall); otherwise the handler is polled *)
Definition poll_handler (i k : nat) (leaf : Server.hstep) (ch : chain) : chain * list cobs :=
  match nth_error ch i with
  | None => (ch, [])
  | Some nd =>
    match nth_error (Server.s_handlers (n_srv nd)) k with
    | None => (ch, [])
    | Some hr =>
      match Server.h_st hr with
      | Server.HDone | Server.HGone => (ch, [])
      | Server.HYielded | Server.HRunning =>
        if is_aborted (n_srv nd) hr then
          let '(nd1, l) := sstep nd (Server.OHandlerPoll k Server.SRun) in
          let ch1 := set_node i nd1 ch in
          let ch2 :=
            match option_map hi_call (nth_error (n_hs nd) k), nth_error ch1 (S i) with
            | Some (Some j), Some nx => set_node (S i) (fst (cstep nx (Client.DropCall j))) ch1
            | _, _ => ch1
            end in
          (ch2, flat_map (tr_sobs i) l)
        else
          let first := match Server.h_st hr with Server.HYielded => [KHStart i k] | _ => [] end in
          match nth_error ch (S i) with
          | Some nx =>
            let '(nd1, nx1, st) := inner_poll k nd nx in
            let '(nd2, l) := sstep nd1 (Server.OHandlerPoll k st) in
            (set_node (S i) nx1 (set_node i nd2 ch), first ++ flat_map (tr_sobs i) l)
          | None =>
            let '(nd1, l) := sstep nd (Server.OHandlerPoll k leaf) in
            (set_node i nd1 ch, first ++ flat_map (tr_sobs i) l)
          end
      | Server.HWait _ | Server.HPermit _ =>
        (* the handler has finished; execute() is sending the response *)
        let '(nd1, l) := sstep nd (Server.OHandlerPoll k Server.SRun) in
        (set_node i nd1 ch, flat_map (tr_sobs i) l)
      end
    end
  end.

(* ------------------------------------------------------------------------------------------ *)
(* SettleAll: poll every component of every node, in a fixed order (the head calls, then node
   by node: dispatch, request stream, every unfinished execute future), round after round,
   until a round changes nothing.  Observed: the events (everything but "still pending"
   answers) in order, then the gauges of every node. *)
Definition is_event (o : cobs) : bool :=
  match o with
  | KCall _ Client.CPending | KCall _ Client.CNothing => false
  | KWire _ [] => false
  | KDisp _ Client.DPending => false
  | KStream _ KPending => false
  | KHPolled _ _ | KExecPending _ _ => false
  | KCGauge _ _ _ | KSGauge _ _ _ => false
  | _ => true
  end.

Definition live_phase (p : Client.phase) : bool :=
  match p with
  | Client.PNew | Client.PAcquiring | Client.PAssigned | Client.PAcqClosed | Client.PAwaiting => true
  | _ => false
  end.

Fixpoint poll_heads (j n : nat) (ch : chain) (acc : list cobs) : chain * list cobs :=
  match n with
  | O => (ch, acc)
  | S n' =>
    let live := match nth_error ch 0 with
                | Some nd => match nth_error (Client.calls (n_cli nd)) j with
                             | Some c => live_phase (Client.c_phase c)
                             | None => false end
                | None => false end in
    if live then let '(ch1, l) := poll_head j ch in poll_heads (S j) n' ch1 (acc ++ l)
    else poll_heads (S j) n' ch acc
  end.

Fixpoint poll_handlers (i k n : nat) (ch : chain) (acc : list cobs) : chain * list cobs :=
  match n with
  | O => (ch, acc)
  | S n' => let '(ch1, l) := poll_handler i k Server.SRun ch in
            poll_handlers i (S k) n' ch1 (acc ++ l)
  end.

Definition settle_node (i : nat) (ch : chain) : chain * list cobs :=
  let '(ch1, l1) := poll_dispatch i ch in
  let '(ch2, l2) := poll_requests i ch1 in
  let n := match nth_error ch2 i with
           | Some nd => length (Server.s_handlers (n_srv nd)) | None => 0 end in
  let '(ch3, l3) := poll_handlers i 0 n ch2 [] in
  (ch3, l1 ++ l2 ++ l3).

Fixpoint settle_nodes (i n : nat) (ch : chain) (acc : list cobs) : chain * list cobs :=
  match n with
  | O => (ch, acc)
  | S n' => let '(ch1, l) := settle_node i ch in settle_nodes (S i) n' ch1 (acc ++ l)
  end.

Definition round (ch : chain) : chain * list cobs :=
  let nh := match nth_error ch 0 with
            | Some nd => length (Client.calls (n_cli nd)) | None => 0 end in
  let '(ch1, l1) := poll_heads 0 nh ch [] in
  let '(ch2, l2) := settle_nodes 0 (length ch1) ch1 [] in
  (ch2, filter is_event (l1 ++ l2)).

(* a digest of everything a poll can change besides the observations *)
Definition phase_code (p : Client.phase) : N :=
  match p with
  | Client.PNew => 0 | Client.PAcquiring => 1 | Client.PAssigned => 2 | Client.PAcqClosed => 3
  | Client.PAwaiting => 4 | Client.PClosing => 5 | Client.PDone => 6 | Client.PGone => 7
  end%N.
Definition hst_code (h : Server.hstate) : N :=
  match h with
  | Server.HYielded => 0 | Server.HRunning => 1 | Server.HWait _ => 2 | Server.HPermit _ => 3
  | Server.HDone => 4 | Server.HGone => 5
  end%N.
Definition b2N (b : bool) : N := if b then 1%N else 0%N.
Definition len {A} (l : list A) : N := N.of_nat (length l).

Definition digest_node (nd : node) : list N * list N * list N :=
  let c := n_cli nd in
  let s := n_srv nd in
  let l := n_link nd in
  ([len (Client.queue c); len (Client.cancels c); len (Client.inflight c); len (Client.timers c);
    len (Client.waiters c); b2N (Client.rx_closed c);
    match Client.terminal c with None => 0 | Some _ => 1 end;
    match Client.finished c with None => 0 | Some _ => 1 end; b2N (Client.dropped c);
    len (l_c2s l); len (l_s2c l); b2N (l_cgone l); b2N (l_sgone l);
    len (Server.s_inflight s); len (Server.s_timers s); len (Server.s_cancels s);
    len (Server.s_aborted s); len (Server.s_respq s); N.of_nat (Server.s_permits s);
    len (Server.s_waiters s); b2N (Server.s_fused s); b2N (Server.s_dropped s);
    b2N (n_over nd)]%N,
   map (fun k => phase_code (Client.c_phase k)) (Client.calls c),
   map (fun h => hst_code (Server.h_st h)) (Server.s_handlers s)).
Definition digest (ch : chain) := map digest_node ch.
Definition dnode_eqb (a b : list N * list N * list N) : bool :=
  let '(a1, a2, a3) := a in
  let '(b1, b2, b3) := b in
  list_eqb N.eqb a1 b1 && list_eqb N.eqb a2 b2 && list_eqb N.eqb a3 b3.
Definition digest_eqb := list_eqb dnode_eqb.

Fixpoint settle (rounds : nat) (ch : chain) (acc : list cobs) : chain * list cobs * bool :=
  match rounds with
  | O => (ch, acc, false)
  | S r =>
    let d0 := digest ch in
    let '(ch1, ev) := round ch in
    if digest_eqb d0 (digest ch1) && match ev with [] => true | _ => false end
    then (ch1, acc, true)
    else settle r ch1 (acc ++ ev)
  end.

(* enough rounds: a non-quiet round moves a message one hop, yields a request, resolves a call
   or ends a handler *)
Definition node_size (nd : node) : nat :=
  length (Client.calls (n_cli nd)) + length (Client.queue (n_cli nd))
  + length (Client.cancels (n_cli nd)) + length (Client.inflight (n_cli nd))
  + length (Client.timers (n_cli nd)) + length (Client.waiters (n_cli nd))
  + length (l_c2s (n_link nd)) + length (l_s2c (n_link nd))
  + length (Server.s_handlers (n_srv nd)) + length (Server.s_respq (n_srv nd))
  + length (Server.s_inflight (n_srv nd)) + length (Server.s_timers (n_srv nd))
  + length (Server.s_cancels (n_srv nd)) + length (n_hs nd).
(* dominates the potential ChainRounds3.Phi (ChainRounds5.Phi_lt_rounds) *)
Definition rounds_of (ch : chain) : nat :=
  8 + 22 * length ch + 22 * length ch * fold_right (fun nd a => node_size nd + a) 0 ch.

Definition cgauge (i : nat) (nd : node) : list cobs :=
  [KCGauge i (len (Client.inflight (n_cli nd))) (len (Client.timers (n_cli nd)))].
Definition sgauge (i : nat) (nd : node) : list cobs :=
  if Server.s_dropped (n_srv nd) then []
  else KSGauge i (length (Server.s_inflight (n_srv nd))) (length (Server.s_timers (n_srv nd)))
         :: (if Server.s_bad (n_srv nd) then [KOracle i] else []).
Fixpoint all_gauges (i : nat) (ch : chain) : list cobs :=
  match ch with
  | [] => []
  | nd :: r => cgauge i nd ++ sgauge i nd ++ all_gauges (S i) r
  end.

Definition settle_all (ch : chain) : chain * list cobs :=
  let '(ch1, ev, quiet) := settle (rounds_of ch) ch [] in
  (ch1, ev ++ (if quiet then [] else [KRounds]) ++ all_gauges 0 ch1).

(* ------------------------------------------------------------------------------------------ *)
(* steps *)
Definition advance_node (dt : N) (nd : node) : node :=
  let '(nd1, _) := cstep nd (Client.Advance dt) in
  let '(nd2, _) := sstep nd1 (Server.OAdvance dt) in nd2.

Definition step (ch : chain) (o : cop) : chain * list cobs :=
  match o with
  | HCall d tid smp body =>
    match nth_error ch 0 with
    | Some nd => (set_node 0 (fst (cstep nd (Client.Call 0 d tid smp body))) ch, [])
    | None => (ch, [])
    end
  | HPoll j => poll_head j ch
  | HDrop j =>
    match nth_error ch 0 with
    | Some nd => (set_node 0 (fst (cstep nd (Client.DropCall j))) ch, [])
    | None => (ch, [])
    end
  | PollDispatch i => poll_dispatch i ch
  | PollRequests i => poll_requests i ch
  | HandlerPoll i k st => poll_handler i k st ch
  | DropDispatch i =>
    match nth_error ch i with
    | Some nd =>
      if Client.dropped (n_cli nd) then (ch, [])
      else
        let '(nd1, _) := cstep nd Client.DropDispatch in
        let l := n_link nd1 in
        (set_node i (mknode (n_cli nd1) (mklink (l_c2s l) (l_s2c l) true (l_sgone l)) (n_srv nd1)
                            (n_hs nd1) (n_over nd1)) ch, [])
    | None => (ch, [])
    end
  | DropServer i =>
    match nth_error ch i with
    | Some nd =>
      if Server.s_dropped (n_srv nd) then (ch, [])
      else
        let '(nd1, _) := sstep nd Server.ODropChannel in
        let l := n_link nd1 in
        (set_node i (mknode (n_cli nd1) (mklink (l_c2s l) (l_s2c l) (l_cgone l) true) (n_srv nd1)
                            (n_hs nd1) (n_over nd1)) ch, [])
    | None => (ch, [])
    end
  | Advance dt => (map (advance_node dt) ch, [])
  | SettleAll => settle_all ch
  end.

Fixpoint run_from (ch : chain) (ops : list cop) : list (list cobs) * chain :=
  match ops with
  | [] => ([], ch)
  | o :: r => let '(ch1, l) := step ch o in
              let '(ls, ch2) := run_from ch1 r in (l :: ls, ch2)
  end.
Definition run (d : nat) (ops : list cop) : list (list cobs) * chain := run_from (init d) ops.

(* ------------------------------------------------------------------------------------------ *)
(* equality of observations *)
Definition cpoll_eqb (a b : Client.cpoll) : bool :=
  match a, b with
  | Client.CPending, Client.CPending | Client.CNothing, Client.CNothing => true
  | Client.CDone x, Client.CDone y =>
    match x, y with
    | Client.OReply v, Client.OReply v' => N.eqb v v'
    | Client.OSrvErr k, Client.OSrvErr k' => N.eqb k k'
    | Client.ODeadline, Client.ODeadline | Client.OSendErr, Client.OSendErr
    | Client.OShutdown, Client.OShutdown => true
    | Client.OConnErr p, Client.OConnErr q => activity_eqb p q
    | _, _ => false
    end
  | _, _ => false
  end.
Definition dpoll_eqb (a b : Client.dpoll) : bool :=
  match a, b with
  | Client.DPending, Client.DPending | Client.DFuel, Client.DFuel => true
  | Client.DReady Client.DOk, Client.DReady Client.DOk => true
  | Client.DReady (Client.DErr x), Client.DReady (Client.DErr y) => activity_eqb x y
  | _, _ => false
  end.
Definition stres_eqb (a b : stres) : bool :=
  match a, b with
  | KPending, KPending | KEnd, KEnd | KFuel, KFuel => true
  | KErr x, KErr y => activity_eqb x y
  | _, _ => false
  end.
Definition wmsg_eqb (a b : wmsg) : bool :=
  match a, b with
  | WReq a1 a2 a3 a4 a5, WReq b1 b2 b3 b4 b5 =>
    N.eqb a1 b1 && N.eqb a2 b2 && N.eqb a3 b3 && N.eqb a4 b4 && N.eqb a5 b5
  | WCancel a1 a2 a3, WCancel b1 b2 b3 => N.eqb a1 b1 && N.eqb a2 b2 && N.eqb a3 b3
  | _, _ => false
  end.
Definition cobs_eqb (a b : cobs) : bool :=
  match a, b with
  | KWire i l, KWire i' l' => Nat.eqb i i' && list_eqb wmsg_eqb l l'
  | KCall j r, KCall j' r' => Nat.eqb j j' && cpoll_eqb r r'
  | KDisp i r, KDisp i' r' => Nat.eqb i i' && dpoll_eqb r r'
  | KCGauge i x y, KCGauge i' x' y' => Nat.eqb i i' && N.eqb x x' && N.eqb y y'
  | KYield i k a b c d, KYield i' k' a' b' c' d' =>
    Nat.eqb i i' && Nat.eqb k k' && N.eqb a a' && N.eqb b b' && N.eqb c c' && N.eqb d d'
  | KStream i r, KStream i' r' => Nat.eqb i i' && stres_eqb r r'
  | KHStart i k, KHStart i' k' | KHPolled i k, KHPolled i' k' | KHDropped i k, KHDropped i' k'
  | KExecReady i k, KExecReady i' k' | KExecPending i k, KExecPending i' k' =>
    Nat.eqb i i' && Nat.eqb k k'
  | KHDone i k b, KHDone i' k' b' => Nat.eqb i i' && Nat.eqb k k' && Server.rbody_eqb b b'
  | KSGauge i x y, KSGauge i' x' y' => Nat.eqb i i' && Nat.eqb x x' && Nat.eqb y y'
  | KOracle i, KOracle i' => Nat.eqb i i'
  | KPanic, KPanic | KRounds, KRounds => true
  | _, _ => false
  end.
Definition trace_eqb := list_eqb (list_eqb cobs_eqb).

(* ------------------------------------------------------------------------------------------ *)
(* Monitors, over what an outside observer sees (ops + observations).

   One observer state for the three chain properties:
   - the head calls (absolute deadline, trace number, body; resolved? dropped?),
   - the clock (sum of the Advance ops),
   - handlers that started and handlers that ended,
   - `tainted`: something happened after which the cascade is not owed (an end of a link was
     dropped; a dispatch or a request stream ended; a poll ran out of fuel; a head call with a
     deadline beyond MAX_TIMEOUT = 365 days, for which client and server clamp their timers at
     different instants). *)
Record hcall := mkhc { hc_dl : N; hc_tr : N; hc_body : N; hc_over : bool }.
Record mon := mkmon {
  mo_now : N;
  mo_calls : list hcall;
  mo_started : list (nat * nat);
  mo_ended : list (nat * nat);
  mo_tainted : bool;
  mo_wire : list (nat * N * N * N);              (* requests seen on the links: node, id, tr, sid *)
  mo_c04 : bool; mo_c18 : bool; mo_c07 : bool; mo_c18w : bool; mo_fuel : bool }.
Definition mon0 : mon := mkmon 0 [] [] [] false [] true true true true true.

Definition memp (p : nat * nat) (l : list (nat * nat)) : bool :=
  existsb (fun q => Nat.eqb (fst p) (fst q) && Nat.eqb (snd p) (snd q)) l.

Definition set_over (j : nat) (l : list hcall) : list hcall :=
  match nth_error l j with
  | Some h => Client.set_nth j (mkhc (hc_dl h) (hc_tr h) (hc_body h) true) l
  | None => l
  end.

(* the part of the op itself *)
Definition mon_op (m : mon) (o : cop) : mon :=
  match o with
  | HCall d tid smp body =>
    mkmon (mo_now m)
          (mo_calls m ++ [mkhc (mo_now m + d) (2 * tid + (if smp then 1 else 0)) body false])
          (mo_started m) (mo_ended m)
          (mo_tainted m || (Client.max_timeout_ms <? d)%N)
          (mo_wire m) (mo_c04 m) (mo_c18 m) (mo_c07 m) (mo_c18w m) (mo_fuel m)
  | HDrop j =>
    mkmon (mo_now m) (set_over j (mo_calls m)) (mo_started m) (mo_ended m) (mo_tainted m)
          (mo_wire m) (mo_c04 m) (mo_c18 m) (mo_c07 m) (mo_c18w m) (mo_fuel m)
  | DropDispatch _ | DropServer _ =>
    mkmon (mo_now m) (mo_calls m) (mo_started m) (mo_ended m) true
          (mo_wire m) (mo_c04 m) (mo_c18 m) (mo_c07 m) (mo_c18w m) (mo_fuel m)
  | Advance dt =>
    mkmon (mo_now m + dt) (mo_calls m) (mo_started m) (mo_ended m) (mo_tainted m)
          (mo_wire m) (mo_c04 m) (mo_c18 m) (mo_c07 m) (mo_c18w m) (mo_fuel m)
  | _ => m
  end%N.

(* C18 on the wire, hop by hop: a request carries the trace number and the deadline of a head
   call with its body and a span id of its own (drawn for this request: named after its id); a
   cancellation carries exactly the trace number and span id of the request it cancels *)
Definition mon_wire (i : nat) (m : mon) (w : wmsg) : mon :=
  match w with
  | WReq id dl tr sid body =>
    mkmon (mo_now m) (mo_calls m) (mo_started m) (mo_ended m) (mo_tainted m)
          ((i, id, tr, sid) :: mo_wire m) (mo_c04 m) (mo_c18 m) (mo_c07 m)
          (mo_c18w m && N.eqb sid id
           && existsb (fun h => N.eqb (hc_body h) body && N.eqb (hc_tr h) tr && N.eqb (hc_dl h) dl)
                      (mo_calls m))
          (mo_fuel m)
  | WCancel id tr sid =>
    mkmon (mo_now m) (mo_calls m) (mo_started m) (mo_ended m) (mo_tainted m) (mo_wire m)
          (mo_c04 m) (mo_c18 m) (mo_c07 m)
          (mo_c18w m && existsb (fun p => let '(i', id', tr', sid') := p in
                                          Nat.eqb i i' && N.eqb id id' && N.eqb tr tr' && N.eqb sid sid')
                                (mo_wire m))
          (mo_fuel m)
  end.

(* one observation *)
Definition mon_obs (m : mon) (e : cobs) : mon :=
  match e with
  | KCall j (Client.CDone _) =>
    mkmon (mo_now m) (set_over j (mo_calls m)) (mo_started m) (mo_ended m) (mo_tainted m)
          (mo_wire m) (mo_c04 m) (mo_c18 m) (mo_c07 m) (mo_c18w m) (mo_fuel m)
  | KYield _ _ _ dl tr body =>
    (* C18 / C07: the request yielded on ANY node carries the trace id, the sampling decision
       and the deadline of a head call with that body *)
    mkmon (mo_now m) (mo_calls m) (mo_started m) (mo_ended m) (mo_tainted m) (mo_wire m) (mo_c04 m)
          (mo_c18 m && existsb (fun h => N.eqb (hc_body h) body && N.eqb (hc_tr h) tr) (mo_calls m))
          (mo_c07 m && existsb (fun h => N.eqb (hc_body h) body && N.eqb (hc_dl h) dl) (mo_calls m))
          (mo_c18w m) (mo_fuel m)
  | KWire i l => fold_left (mon_wire i) l m
  | KHStart i k =>
    mkmon (mo_now m) (mo_calls m) ((i, k) :: mo_started m) (mo_ended m) (mo_tainted m)
          (mo_wire m) (mo_c04 m) (mo_c18 m) (mo_c07 m) (mo_c18w m) (mo_fuel m)
  | KHDone i k _ | KHDropped i k =>
    mkmon (mo_now m) (mo_calls m) (mo_started m) ((i, k) :: mo_ended m) (mo_tainted m)
          (mo_wire m) (mo_c04 m) (mo_c18 m) (mo_c07 m) (mo_c18w m) (mo_fuel m)
  | KDisp _ (Client.DReady _) | KStream _ KEnd | KStream _ (KErr _) =>
    mkmon (mo_now m) (mo_calls m) (mo_started m) (mo_ended m) true
          (mo_wire m) (mo_c04 m) (mo_c18 m) (mo_c07 m) (mo_c18w m) (mo_fuel m)
  | KDisp _ Client.DFuel | KStream _ KFuel | KRounds =>
    mkmon (mo_now m) (mo_calls m) (mo_started m) (mo_ended m) true
          (mo_wire m) (mo_c04 m) (mo_c18 m) (mo_c07 m) (mo_c18w m) false
  | KOracle _ | KPanic =>
    mkmon (mo_now m) (mo_calls m) (mo_started m) (mo_ended m) true
          (mo_wire m) (mo_c04 m) (mo_c18 m) (mo_c07 m) (mo_c18w m) (mo_fuel m)
  | _ => m
  end.

Definition gauges_zero (l : list cobs) : bool :=
  forallb (fun e => match e with
                    | KSGauge _ a b => Nat.eqb a 0 && Nat.eqb b 0
                    | _ => true end) l.

(* after SettleAll: if every head call is over (resolved or abandoned) and nothing tainted the
   chain, every handler that started has ended and no server tracks anything *)
Definition mon_settled (m : mon) (l : list cobs) : mon :=
  let owed := negb (mo_tainted m) && forallb hc_over (mo_calls m) in
  mkmon (mo_now m) (mo_calls m) (mo_started m) (mo_ended m) (mo_tainted m) (mo_wire m)
        (mo_c04 m && (negb owed
                      || (forallb (fun p => memp p (mo_ended m)) (mo_started m) && gauges_zero l)))
        (mo_c18 m) (mo_c07 m) (mo_c18w m) (mo_fuel m).

Definition mon_step (m : mon) (o : cop) (l : list cobs) : mon :=
  let m1 := fold_left mon_obs l (mon_op m o) in
  match o with SettleAll => mon_settled m1 l | _ => m1 end.

Fixpoint mon_run (m : mon) (ops : list cop) (tr : list (list cobs)) : option mon :=
  match ops, tr with
  | [], [] => Some m
  | o :: ops', l :: tr' => mon_run (mon_step m o l) ops' tr'
  | _, _ => None
  end.

Definition c04c_ok (d : nat) (ops : list cop) (tr : list (list cobs)) : bool :=
  match mon_run mon0 ops tr with Some m => mo_c04 m | None => false end.
Definition c18c_ok (d : nat) (ops : list cop) (tr : list (list cobs)) : bool :=
  match mon_run mon0 ops tr with Some m => mo_c18 m | None => false end.
Definition c07c_ok (d : nat) (ops : list cop) (tr : list (list cobs)) : bool :=
  match mon_run mon0 ops tr with Some m => mo_c07 m | None => false end.
Definition c18w_ok (d : nat) (ops : list cop) (tr : list (list cobs)) : bool :=
  match mon_run mon0 ops tr with Some m => mo_c18w m | None => false end.
(* no poll ran out of fuel, no SettleAll out of rounds *)
Definition cfuel_ok (d : nat) (ops : list cop) (tr : list (list cobs)) : bool :=
  match mon_run mon0 ops tr with Some m => mo_fuel m | None => false end.
