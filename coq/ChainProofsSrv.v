(* Chain proofs, cascade, server side: one poll of the request stream and one poll of an
   execute() future of a node's server over the link transport Chain.stp keep the node
   invariants of ChainInv.v (cross, srv_inv); what a Pending poll leaves behind. *)
From Coq Require Import List Bool Arith NArith Lia.
Import ListNotations.
From TarpcV Require Import Base Transport TimerWheel Server ServerFuel ServerSim ServerSim2.
From TarpcV Require Client Chain ChainCli ChainSrv ChainInv ChainCross ChainSrvSpec.

Notation link := Chain.link.
Notation stp := Chain.stp.
Notation sst := (@sstate Chain.link).
Notation scfg := Chain.scfg.

Arguments N.add : simpl never.
Arguments N.min : simpl never.
Arguments N.sub : simpl never.

(* ------------------------------------------------------------------------------------------ *)
(* control: with the client end alive the stream never ends; what a Pending result means *)
Section Ctrl.
  Implicit Types s : sst.

  Definition cg s : bool := Chain.l_cgone (s_t s).

  Lemma do_next_alive s r s' :
    do_next stp s = (r, s') -> cg s = false ->
    cg s' = false /\ s_fused s' = s_fused s /\ same_core s s' /\ s_respq s' = s_respq s
    /\ match Chain.l_c2s (s_t s) with
       | x :: rest => r = RItem x /\ Chain.l_c2s (s_t s') = rest
       | [] => r = RPending /\ s_t s' = s_t s
       end.
  Proof.
    intros H Hc. destruct (do_next_core stp _ _ _ H) as (C & F & Q & _).
    unfold do_next in H. unfold cg in *. cbn in H.
    destruct (Chain.l_c2s (s_t s)) as [|x rest] eqn:E.
    - rewrite Hc in H. injection H as <- <-. sproj. repeat split; auto; apply C.
    - injection H as <- <-. sproj. cbn. repeat split; auto; apply C.
  Qed.

  Lemma due_core s s' : same_core s s' -> due s' = due s.
  Proof. intros (C1 & C2 & C3 & C4 & C5 & C6 & C7 & C8). unfold due. rewrite C4, C7. reflexivity. Qed.

  Lemma base_ctrl_stp : forall f s r s',
    base_poll_next stp f s = (r, s') -> cg s = false -> s_fused s = false ->
    cg s' = false /\ s_fused s' = false /\ r <> PEnd
    /\ (r = PPending -> Chain.l_c2s (s_t s') = [] /\ due s' = []).
  Proof.
    induction f as [|f IH]; intros s r s' H Hc Hf; cbn [base_poll_next] in H.
    { injection H as <- <-. repeat split; auto; discriminate. }
    set (cs := match s_cancels s with
               | id :: r0 => (RSReady, snd (remove_request id (set_cancels s r0)))
               | [] => (RSClosed, s) end) in H.
    assert (Hcs : cg (snd cs) = false /\ s_fused (snd cs) = false).
    { subst cs. destruct (s_cancels s) as [|id r0]; cbn [snd]; [auto|].
      unfold cg. rewrite ChainSrv.st_remove_request.
      destruct (remove_request_shape id (set_cancels s r0)) as [(_ & -> & _)|(_ & _ & _ & _ & _ & _ & _ & _ & _ & _ & B9 & _)];
        cbv zeta in *; [auto|]. rewrite B9. auto. }
    destruct cs as [cst s1]. cbn [snd] in Hcs. destruct Hcs as (Hc1 & Hf1).
    destruct (poll_expired s1) as [est s2] eqn:EE.
    destruct (poll_expired_shape _ _ _ EE) as (A1 & A2 & A3 & A4 & A5 & A6 & _ & _ & _ & _ & A11 & HH).
    assert (Hc2 : cg s2 = false) by (unfold cg; rewrite A11; exact Hc1).
    assert (Hf2 : s_fused s2 = false) by congruence.
    assert (Hdue2 : est <> RSReady -> due s2 = []).
    { intros Hne. destruct HH as [(_ & B1 & B2 & _ & B4 & B5)|(Hr & _)]; [|congruence].
      unfold due. rewrite B2, A4. destruct est; [congruence| |].
      - exact (B5 eq_refl).
      - rewrite (B4 eq_refl). reflexivity. }
    rewrite Hf2 in H.
    destruct (do_next stp s2) as [rr s3] eqn:EN.
    destruct (do_next_alive _ _ _ EN Hc2) as (Hc3 & Hf3 & C3 & Q3 & Hl).
    assert (Hfin : forall rst sx r s', cg sx = false -> s_fused sx = false ->
               (rst = RSPending -> Chain.l_c2s (s_t sx) = [] /\ due sx = due s2) -> rst <> RSClosed ->
               match combine (combine cst est) rst with
               | RSReady => base_poll_next stp f sx
               | RSClosed => (PEnd, sx)
               | RSPending => (PPending, sx)
               end = (r, s') ->
               cg s' = false /\ s_fused s' = false /\ r <> PEnd
               /\ (r = PPending -> Chain.l_c2s (s_t s') = [] /\ due s' = [])).
    { intros rst sx r0 s0 Hcx Hfx Hp Hnc HE.
      destruct (combine (combine cst est) rst) eqn:EC.
      - eapply IH; eassumption.
      - injection HE as <- <-. split; [exact Hcx|split; [exact Hfx|split; [discriminate|]]]. intros _.
        assert (rst = RSPending /\ est <> RSReady).
        { destruct cst, est, rst; cbn in EC; try discriminate; try congruence; split; congruence. }
        destruct H0 as (-> & Hne). destruct (Hp eq_refl) as (X1 & X2). split; [exact X1|].
        rewrite X2. apply Hdue2, Hne.
      - exfalso. destruct cst, est, rst; cbn in EC; try discriminate. congruence. }
    destruct (Chain.l_c2s (s_t s2)) as [|x rest] eqn:EL.
    - destruct Hl as (-> & Hst). apply (Hfin RSPending s3 r s'); auto; try congruence; try discriminate.
      intros _. split; [rewrite Hst; exact EL|apply due_core, C3].
    - destruct Hl as (-> & Hrest). destruct x as [id dl tr body|id tr].
      + destruct (start_request id dl s3) as [[h s4]|] eqn:ES.
        * injection H as <- <-.
          destruct (start_request_shape _ _ _ _ _ ES) as (_ & _ & _ & _ & _ & _ & _ & _ & _ & _ & F & _ & _ & _ & _ & St).
          unfold cg. rewrite St. repeat split; try congruence; auto; try discriminate; try (intros X; discriminate X).
        * eapply IH; eauto; congruence.
      + apply (Hfin RSReady (cancel_request id s3) r s'); try discriminate; auto.
        * unfold cg. rewrite ChainSrv.st_cancel_request. exact Hc3.
        * destruct (cancel_request_shape id s3) as [(-> & _)|(e & _ & _ & _ & _ & _ & _ & _ & _ & _ & B9 & _)]; congruence.
  Qed.

  Lemma do_ready_alive s : cg s = false ->
    exists s1, do_ready stp s = (TOk, s1) /\ s_t s1 = s_t s /\ same_core s s1 /\ s_fused s1 = s_fused s
               /\ s_respq s1 = s_respq s.
  Proof.
    intros Hc. destruct (do_ready stp s) as [r s1] eqn:E.
    destruct (do_ready_core stp _ _ _ E) as (C & F & Q & _). pose proof (ChainSrv.st_do_ready _ _ _ E) as St.
    unfold do_ready in E. unfold cg in Hc. cbn in E. rewrite Hc in E. injection E as <- _.
    exists s1. auto.
  Qed.

  Lemma do_flush_alive s :
    exists s1, do_flush stp s = (TOk, s1) /\ s_t s1 = s_t s /\ same_core s s1 /\ s_fused s1 = s_fused s
               /\ s_respq s1 = s_respq s.
  Proof.
    destruct (do_flush stp s) as [r s1] eqn:E.
    destruct (do_flush_core stp _ _ _ E) as (C & F & Q & _). pose proof (ChainSrv.st_do_flush _ _ _ E) as St.
    unfold do_flush in E. cbn in E. injection E as <- _. exists s1. auto.
  Qed.

  Lemma filter_filter_nil {A} (f g : A -> bool) l : filter f l = [] -> filter f (filter g l) = [].
  Proof.
    induction l as [|x l IH]; cbn; [reflexivity|]. destruct (f x) eqn:E; [discriminate|].
    intros H. destruct (g x); cbn; rewrite ?E; auto.
  Qed.

  Lemma due_sub_drop s s' id :
    s_timers s' = drop_timer id (s_timers s) -> s_now s' = s_now s -> due s = [] -> due s' = [].
  Proof.
    intros Et En Hd. unfold due in *. rewrite Et, En. unfold drop_timer. apply filter_filter_nil, Hd.
  Qed.

  Lemma pump_write_ctrl_stp rc s w s' :
    pump_write stp rc s = (w, s') -> cg s = false ->
    cg s' = false /\ s_fused s' = s_fused s /\ Chain.l_c2s (s_t s') = Chain.l_c2s (s_t s)
    /\ (due s = [] -> due s' = [])
    /\ (w = PPending \/ w = PEnd -> s_respq s' = []).
  Proof.
    intros H Hc. unfold pump_write, poll_next_response, ensure_writeable in H.
    destruct (do_ready_alive s Hc) as (s1 & E1 & T1 & C1 & F1 & Q1). rewrite E1 in H.
    destruct (s_respq s1) as [|m q] eqn:EQ.
    - destruct (do_flush_alive s1) as (s2 & E2 & T2 & C2 & F2 & Q2). rewrite E2 in H.
      assert (R : cg s2 = false /\ s_fused s2 = s_fused s /\ Chain.l_c2s (s_t s2) = Chain.l_c2s (s_t s)
                  /\ (due s = [] -> due s2 = []) /\ s_respq s2 = []).
      { unfold cg in *. rewrite T2, T1. split; [exact Hc|split; [congruence|split; [reflexivity|split; [|congruence]]]].
        intros Hd. rewrite (due_core _ _ C2), (due_core _ _ C1). exact Hd. }
      destruct R as (R1 & R2 & R3 & R4 & R5).
      destruct (rc && _); injection H as <- <-; repeat split; auto.
    - destruct (base_start_send stp m (add_permit (set_respq s1 q))) as [e s2] eqn:ES.
      destruct (add_permit_shape (set_respq s1 q)) as (A1 & A2 & A3 & A4 & A5 & A6 & A7 & A8 & A9 & A10 & A11 & A12 & A13).
      cbv zeta in *. sproj.
      assert (R : cg s2 = false /\ s_fused s2 = s_fused s /\ Chain.l_c2s (s_t s2) = Chain.l_c2s (s_t s)
                  /\ (due s = [] -> due s2 = [])).
      { pose proof (ChainSrv.c2s_base_start_send _ _ _ _ ES) as Hl. rewrite A13 in Hl. cbn in Hl.
        destruct (base_start_send_shape stp _ _ _ _ ES) as [(_ & _ & ->)|(en & r0 & _ & _ & B1 & B2 & B3 & B4 & B5 & B6 & B7 & B8 & B9 & _)].
        - unfold cg. rewrite A13. cbn. rewrite T1, A10. cbn. repeat split; try congruence; try exact Hc.
          intros Hd. unfold due. rewrite A5, A8. cbn. rewrite <- (due_core _ _ C1) in Hd. exact Hd.
        - split; [|split; [congruence|split; [congruence|]]].
          + unfold base_start_send in ES.
            pose proof (ChainSrv.st_remove_request (resp_id m) (add_permit (set_respq s1 q))) as Er.
            destruct (remove_request (resp_id m) (add_permit (set_respq s1 q))) as [was sr]. cbn [snd] in Er.
            destruct was.
            * destruct (do_send stp m sr) as [rr sx] eqn:ED. apply ChainSrv.do_send_stp in ED.
              injection ES as _ <-. unfold cg. destruct ED as (_ & -> & _). rewrite Er, A13. cbn. rewrite T1. exact Hc.
            * injection ES as _ <-. unfold cg. rewrite Er, A13. cbn. rewrite T1. exact Hc.
          + intros Hd. apply (due_sub_drop (add_permit (set_respq s1 q)) s2 (resp_id m)); [exact B2|exact B7|].
            unfold due. rewrite A5, A8. cbn. rewrite <- (due_core _ _ C1) in Hd. exact Hd. }
      destruct R as (R1 & R2 & R3 & R4).
      destruct e; injection H as <- <-; repeat split; auto; intros [X|X]; discriminate.
  Qed.

  Lemma requests_ctrl_stp : forall f s r s',
    requests_poll_next stp scfg f s = (r, s') -> cg s = false -> s_fused s = false ->
    cg s' = false /\ s_fused s' = false
    /\ (r = PPending -> Chain.l_c2s (s_t s') = [] /\ s_respq s' = [] /\ due s' = []).
  Proof.
    induction f as [|f IH]; intros s r s' H Hc Hf; cbn [requests_poll_next] in H.
    { injection H as <- <-. repeat split; auto; discriminate. }
    unfold pump_read in H. cbn [cfg_limit scfg Chain.scfg] in H.
    destruct (base_poll_next stp (S f) s) as [rd s1] eqn:ER.
    destruct (base_ctrl_stp _ _ _ _ ER Hc Hf) as (Hc1 & Hf1 & Hne1 & Hp1).
    destruct rd as [q| |a| |].
    - destruct (pump_write stp false s1) as [wr s2] eqn:EW.
      destruct (pump_write_ctrl_stp _ _ _ _ EW Hc1) as (Hc2 & Hf2 & _).
      destruct wr; injection H as <- <-; unfold cg in *; sproj; (split; [exact Hc2|split; [congruence|intros X; discriminate X]]).
    - exfalso. apply Hne1. reflexivity.
    - injection H as <- <-. split; [exact Hc1|split; [exact Hf1|intros X; discriminate X]].
    - destruct (pump_write stp false s1) as [wr s2] eqn:EW.
      destruct (pump_write_ctrl_stp _ _ _ _ EW Hc1) as (Hc2 & Hf2 & Hl2 & Hd2 & Hq2).
      destruct (Hp1 eq_refl) as (X1 & X2).
      destruct wr.
      + eapply IH; eauto; congruence.
      + injection H as <- <-. split; [exact Hc2|split; [congruence|]].
        intros _. split; [congruence|split; [apply Hq2; auto|apply Hd2, X2]].
      + injection H as <- <-. split; [exact Hc2|split; [congruence|intros X; discriminate X]].
      + injection H as <- <-. split; [exact Hc2|split; [congruence|]].
        intros _. split; [congruence|split; [apply Hq2; auto|apply Hd2, X2]].
      + injection H as <- <-. split; [exact Hc2|split; [congruence|intros X; discriminate X]].
    - injection H as <- <-. split; [exact Hc1|split; [exact Hf1|intros X; discriminate X]].
  Qed.
End Ctrl.

(* ------------------------------------------------------------------------------------------ *)
(* the server's own invariant under its primitive effects *)
Import ChainInv ChainSrvSpec.

Section SrvInv.
  Implicit Types s : sst.

  Lemma hrel_refl hr : hrel hr hr.
  Proof. unfold hrel. auto. Qed.
  Lemma hrel_trans a b c : hrel a b -> hrel b c -> hrel a c.
  Proof.
    intros (A1 & A2 & A3) (B1 & B2 & B3). unfold hrel. repeat split; try congruence.
    destruct A3 as [A3|(x & A3 & A4)]; destruct B3 as [B3|(y & B3 & B4)].
    - left. congruence.
    - right. exists y. split; congruence.
    - right. exists x. split; congruence.
    - rewrite A4 in B3. discriminate.
  Qed.
  Lemma Forall2_hrel_refl l : Forall2 hrel l l.
  Proof. induction l; constructor; auto using hrel_refl. Qed.
  Lemma Forall2_hrel_trans a : forall b c, Forall2 hrel a b -> Forall2 hrel b c -> Forall2 hrel a c.
  Proof.
    induction a as [|x a IH]; intros b c H1 H2; inversion H1; subst; inversion H2; subst; constructor.
    - eapply hrel_trans; eauto.
    - eapply IH; eauto.
  Qed.

  Lemma Forall2_hrel_hids a b : Forall2 hrel a b -> map h_id b = map h_id a.
  Proof. induction 1 as [|x y a b H _ IH]; cbn; [reflexivity|]. destruct H as (E & _). rewrite E, IH. reflexivity. Qed.

  Lemma Forall2_hrel_in a b hr' : Forall2 hrel a b -> In hr' b -> exists hr, In hr a /\ hrel hr hr'.
  Proof.
    induction 1 as [|x y a b H _ IH]; intros Hin; [destruct Hin|].
    destruct Hin as [<-|Hin]; [exists x; split; [left; reflexivity|exact H]|].
    destruct (IH Hin) as (hr & A & B). exists hr. split; [right; exact A|exact B].
  Qed.
  Lemma Forall2_hrel_in_l a b hr : Forall2 hrel a b -> In hr a -> exists hr', In hr' b /\ hrel hr hr'.
  Proof.
    induction 1 as [|x y a b H _ IH]; intros Hin; [destruct Hin|].
    destruct Hin as [<-|Hin]; [exists y; split; [left; reflexivity|exact H]|].
    destruct (IH Hin) as (hr' & A & B). exists hr'. split; [right; exact A|exact B].
  Qed.

  Lemma hrel_live hr hr' : hrel hr hr' -> live_st (h_st hr') = live_st (h_st hr).
  Proof. intros (_ & _ & [E|(b & E1 & E2)]); [rewrite E; reflexivity|rewrite E1, E2; reflexivity]. Qed.
  Lemma hrel_done hr hr' : hrel hr hr' -> h_st hr = HDone -> h_st hr' = HDone.
  Proof. intros (_ & _ & [E|(b & E1 & E2)]) H; congruence. Qed.

  Lemma add_permit_hrel s : Forall2 hrel (s_handlers s) (s_handlers (add_permit s)).
  Proof.
    unfold add_permit. destruct (s_waiters s) as [|k r]; sproj; [apply Forall2_hrel_refl|].
    destruct (nth_error (s_handlers s) k) as [[h i stt]|] eqn:EK; sproj; [|apply Forall2_hrel_refl].
    destruct stt; sproj; try apply Forall2_hrel_refl.
    revert k EK. induction (s_handlers s) as [|x l IH]; intros [|k] EK; cbn in *; try discriminate.
    - injection EK as ->. constructor; [|apply Forall2_hrel_refl]. unfold hrel; cbn. repeat split; auto. right. eauto.
    - constructor; [apply hrel_refl|apply IH, EK].
  Qed.

  Lemma in_tids s e : In e (s_inflight s) -> In (e_id e) (tids s).
  Proof. intro H. unfold tids. apply in_map. exact H. Qed.

  Lemma tids_entry_unique s e e' :
    NoDup (tids s) -> In e (s_inflight s) -> In e' (s_inflight s) -> e_id e = e_id e' -> e = e'.
  Proof. intros Hn H1 H2 E. eapply NoDup_map_in_inj; eauto. Qed.

  (* an entry leaves; if its handler is live it is aborted now *)
  Lemma srv_untrack_abort s s' id :
    srv_inv s -> s_inflight s' = drop_entry id (s_inflight s) ->
    (forall h, In h (s_aborted s) -> In h (s_aborted s')) ->
    (forall e, In e (s_inflight s) -> e_id e = id -> In (e_h e) (s_aborted s')) ->
    s_handlers s' = s_handlers s -> s_respq s' = s_respq s -> s_cancels s' = s_cancels s ->
    s_dropped s' = s_dropped s -> s_fused s' = s_fused s -> srv_inv s'.
  Proof.
    intros [V1 V2 V3 V4 V5 V6 V7] Ei Ha Hab Eh Eq Ec Ed Ef.
    constructor; unfold tids in *; rewrite ?Ei, ?Eh, ?Eq, ?Ec, ?Ed, ?Ef; auto.
    - unfold drop_entry. apply NoDup_map_filter. exact V4.
    - intros hr Hin Hl. destruct (V6 hr Hin Hl) as [A|(e & A & B & C)]; [left; auto|].
      destruct (N.eq_dec (e_id e) id) as [E|E].
      + left. rewrite <- C. apply Hab; assumption.
      + right. exists e. split; [apply in_drop_entry; auto|auto].
    - intros e hr He. apply in_drop_entry in He. destruct He as [He _]. apply V7. exact He.
  Qed.

  (* an entry leaves because its response was handed to the sink: its handler is over *)
  Lemma srv_untrack_done s s' id :
    srv_inv s -> s_inflight s' = drop_entry id (s_inflight s) ->
    (forall hr, In hr (s_handlers s) -> h_id hr = id -> live_st (h_st hr) = false) ->
    s_aborted s' = s_aborted s ->
    s_handlers s' = s_handlers s -> s_respq s' = s_respq s -> s_cancels s' = s_cancels s ->
    s_dropped s' = s_dropped s -> s_fused s' = s_fused s -> srv_inv s'.
  Proof.
    intros [V1 V2 V3 V4 V5 V6 V7] Ei Hd Ea Eh Eq Ec Ed Ef.
    constructor; unfold tids in *; rewrite ?Ei, ?Ea, ?Eh, ?Eq, ?Ec, ?Ed, ?Ef; auto.
    - unfold drop_entry. apply NoDup_map_filter. exact V4.
    - intros hr Hin Hl. destruct (V6 hr Hin Hl) as [A|(e & A & B & C)]; [left; auto|].
      right. exists e. split; [|auto]. apply in_drop_entry. split; [exact A|].
      intros E. rewrite (Hd hr Hin (eq_trans (eq_sym B) E)) in Hl. discriminate.
    - intros e hr He. apply in_drop_entry in He. destruct He as [He _]. apply V7. exact He.
  Qed.

  (* an entry is added for an id no handler carries *)
  Lemma srv_track s s' e :
    srv_inv s -> s_inflight s' = s_inflight s ++ [e] -> ~ In (e_id e) (tids s) ->
    (forall hr, In hr (s_handlers s) -> h_id hr <> e_id e) ->
    s_aborted s' = s_aborted s ->
    s_handlers s' = s_handlers s -> s_respq s' = s_respq s -> s_cancels s' = s_cancels s ->
    s_dropped s' = s_dropped s -> s_fused s' = s_fused s -> srv_inv s'.
  Proof.
    intros [V1 V2 V3 V4 V5 V6 V7] Ei Hn Hh Ea Eh Eq Ec Ed Ef.
    constructor; unfold tids in *; rewrite ?Ei, ?Ea, ?Eh, ?Eq, ?Ec, ?Ed, ?Ef; auto.
    - rewrite map_app. cbn. apply NoDup_app_one; assumption.
    - intros hr Hin Hl. destruct (V6 hr Hin Hl) as [A|(e0 & A & B & C)]; [left; auto|].
      right. exists e0. split; [apply in_or_app; left; exact A|auto].
    - intros e0 hr He Hin E. apply in_app_or in He. destruct He as [He|[<-|[]]]; [eapply V7; eauto|].
      exfalso. exact (Hh hr Hin E).
  Qed.

  (* handlers move along hrel, the response queue shrinks *)
  Lemma srv_hrel s s' :
    srv_inv s -> Forall2 hrel (s_handlers s) (s_handlers s') ->
    (forall r, In r (s_respq s') -> In r (s_respq s)) ->
    s_inflight s' = s_inflight s -> s_aborted s' = s_aborted s -> s_cancels s' = s_cancels s ->
    s_dropped s' = s_dropped s -> s_fused s' = s_fused s -> srv_inv s'.
  Proof.
    intros [V1 V2 V3 V4 V5 V6 V7] HF Hq Ei Ea Ec Ed Ef.
    constructor; unfold tids in *; rewrite ?Ei, ?Ea, ?Ec, ?Ed, ?Ef; auto.
    - intros r Hr. destruct (V5 r (Hq r Hr)) as (hr & A & B & C).
      destruct (Forall2_hrel_in_l _ _ hr HF A) as (hr' & A' & R). exists hr'.
      split; [exact A'|]. destruct R as (R1 & R2 & R3). split; [congruence|].
      destruct R3 as [R3|(b & R3 & _)]; congruence.
    - intros hr' Hin Hl. destruct (Forall2_hrel_in _ _ hr' HF Hin) as (hr & A & R).
      rewrite (hrel_live _ _ R) in Hl. destruct R as (R1 & R2 & _). rewrite R1, R2. apply V6; assumption.
    - intros e hr' He Hin E. destruct (Forall2_hrel_in _ _ hr' HF Hin) as (hr & A & (R1 & R2 & _)).
      rewrite R2. apply (V7 e hr He A). congruence.
  Qed.
End SrvInv.

(* ------------------------------------------------------------------------------------------ *)
(* the node invariants through the primitive effects of a poll of the request stream *)
Section PollInv.
  Variable T : N.
  Variable c : cstate.
  Variable hs0 : list hrec.
  Implicit Types s : sst.

  Record PA (p : list N) s : Prop := {
    pa_x : cross T p c (s_t s) s;
    pa_s : srv_inv s;
    pa_now : s_now s = T;
    pa_h : Forall2 hrel hs0 (s_handlers s) }.

  Lemma link_eta (l l' : link) :
    Chain.l_c2s l' = Chain.l_c2s l -> Chain.l_s2c l' = Chain.l_s2c l ->
    Chain.l_cgone l' = Chain.l_cgone l -> Chain.l_sgone l' = Chain.l_sgone l -> l' = l.
  Proof. destruct l, l'; cbn; intros; subst; reflexivity. Qed.

  Lemma hids_eq s s' : s_handlers s' = s_handlers s -> hids s' = hids s.
  Proof. unfold hids. intros ->. reflexivity. Qed.

  Lemma PA_frame p s s' :
    PA p s -> s_t s' = s_t s -> same_core s s' -> s_respq s' = s_respq s -> s_fused s' = s_fused s ->
    PA p s'.
  Proof.
    intros [X S Nw H] Et (C1 & C2 & C3 & C4 & C5 & C6 & C7 & C8) Eq Ef. constructor.
    - rewrite Et. apply (ChainCross.cross_sframe T p c _ s s'); auto. apply hids_eq, C1.
    - apply (srv_hrel s s' S); try congruence; try (rewrite C1; apply Forall2_hrel_refl); try (rewrite Eq; auto).
    - congruence.
    - rewrite C1. exact H.
  Qed.


  Lemma NoDup_app_r {A} (a b : list A) : NoDup (a ++ b) -> NoDup b.
  Proof. induction a as [|x a IH]; cbn; [auto|]. intros H. inversion H; auto. Qed.

  Lemma find_entry_unique s e :
    NoDup (tids s) -> In e (s_inflight s) -> find_entry (e_id e) s = Some e.
  Proof.
    intros Hn He. destruct (find_entry (e_id e) s) as [e'|] eqn:EF.
    - destruct (find_entry_some _ _ _ EF) as (He' & Hid). f_equal. eapply tids_entry_unique; eauto.
    - exfalso. exact (find_entry_none _ _ EF e He eq_refl).
  Qed.

  (* expiry *)
  Lemma PA_expired p s r s' : PA p s -> poll_expired s = (r, s') -> PA p s'.
  Proof.
    intros [X S Nw H] E.
    destruct (poll_expired_shape _ _ _ E) as (A1 & A2 & A3 & A4 & A5 & A6 & A7 & _ & _ & _ & A11 & HH).
    destruct HH as [(_ & B1 & B2 & B3 & _)|(_ & id & w & C1 & C2 & C3 & C4 & C5)].
    - apply (PA_frame p s s'); [constructor; assumption|exact A11| |exact A7|exact A6].
      unfold same_core. repeat split; congruence.
    - constructor.
      + rewrite A11. apply (ChainCross.cross_untrack T p c _ s s' id); auto. apply hids_eq, A1.
      + apply (srv_untrack_abort s s' id S C4); auto.
        * intros h Hh. rewrite C5. destruct (find_entry id s); [right|]; exact Hh.
        * intros e He Hid. subst id. rewrite C5, (find_entry_unique s e (sv_trk_nodup _ S) He). left. reflexivity.
      + congruence.
      + rewrite A1. exact H.
  Qed.

  (* a Cancel message is read *)
  Lemma PA_cancel p s id tr s1 :
    PA p s -> do_next stp s = (RItem (MCancel id tr), s1) -> PA p (cancel_request id s1).
  Proof.
    intros [X S Nw H] E.
    assert (Hc : cg s = false) by (unfold cg; exact (x_cgone _ _ _ _ _ X)).
    destruct (do_next_alive _ _ _ E Hc) as (Hc1 & Hf1 & (C1 & C2 & C3 & C4 & C5 & C6 & C7 & C8) & Q1 & Hl).
    destruct (ChainSrv.do_next_stp _ _ _ E) as (_ & L2 & L3 & L4).
    destruct (Chain.l_c2s (s_t s)) as [|x rest] eqn:EL; [destruct Hl as (Hl & _); discriminate|].
    destruct Hl as ([= <-] & Hrest).
    assert (Elink : s_t s1 = ChainCross.with_c2s (s_t s) rest).
    { apply link_eta; cbn; assumption. }
    assert (X1 : cross T p c (s_t s) s1).
    { apply (ChainCross.cross_sframe T p c _ s s1); auto. apply hids_eq, C1. }
    assert (S1 : srv_inv s1).
    { apply (srv_hrel s s1 S); try congruence; try (rewrite C1; apply Forall2_hrel_refl); try (rewrite Q1; auto). }
    destruct (cancel_request_shape id s1) as [(Heq & Hnone)|(e & Hfe & B1 & B2 & B3 & B4 & B5 & B6 & B7 & B8 & B9 & B10 & _ & _ & _ & B14)];
      cbv zeta in *.
    - rewrite Heq. constructor; [|exact S1|congruence|rewrite C1; exact H].
      rewrite Elink. apply (ChainCross.cross_pop_c2s T p c _ s1 _ rest EL); [|exact X1].
      intros id' tr' [= <- <-] Hin. unfold tids in Hin. apply in_map_iff in Hin. destruct Hin as (e & E1 & E2).
      exact (find_entry_none _ _ Hnone e E2 E1).
    - constructor.
      + rewrite B14, Elink.
        apply (ChainCross.cross_pop_c2s T p c _ _ _ rest EL).
        * intros id' tr' [= <- <-] Hin. unfold tids in Hin. rewrite B1 in Hin.
          apply in_map_iff in Hin. destruct Hin as (e0 & E1 & E2). apply in_drop_entry in E2. tauto.
        * apply (ChainCross.cross_untrack T p c _ s1 _ id); auto. apply hids_eq, B4.
      + apply (srv_untrack_abort s1 _ id S1 B1); auto.
        * intros h Hh. rewrite B3. right. exact Hh.
        * intros e0 He0 Hid. rewrite B3. left.
          destruct (find_entry_some _ _ _ Hfe) as (He & Hide). f_equal.
          eapply tids_entry_unique; eauto. apply S1. congruence.
      + congruence.
      + rewrite B4, C1. exact H.
  Qed.

  (* a request with a tracked id is read and ignored *)
  Lemma PA_dup p s id dl tr body s1 :
    PA p s -> do_next stp s = (RItem (MReq id dl tr body), s1) -> PA p s1.
  Proof.
    intros [X S Nw H] E.
    assert (Hc : cg s = false) by (unfold cg; exact (x_cgone _ _ _ _ _ X)).
    destruct (do_next_alive _ _ _ E Hc) as (Hc1 & Hf1 & (C1 & C2 & C3 & C4 & C5 & C6 & C7 & C8) & Q1 & Hl).
    destruct (ChainSrv.do_next_stp _ _ _ E) as (_ & L2 & L3 & L4).
    destruct (Chain.l_c2s (s_t s)) as [|x rest] eqn:EL; [destruct Hl as (Hl & _); discriminate|].
    destruct Hl as ([= <-] & Hrest).
    assert (Elink : s_t s1 = ChainCross.with_c2s (s_t s) rest) by (apply link_eta; cbn; assumption).
    constructor.
    - rewrite Elink. apply (ChainCross.cross_pop_c2s T p c _ s1 _ rest EL); [intros id' tr' Hd; discriminate|].
      apply (ChainCross.cross_sframe T p c _ s s1); auto. apply hids_eq, C1.
    - apply (srv_hrel s s1 S); try congruence; try (rewrite C1; apply Forall2_hrel_refl); try (rewrite Q1; auto).
    - congruence.
    - rewrite C1. exact H.
  Qed.

  (* a request is read and registered *)
  Lemma PA_accept s id dl tr body s1 h s2 :
    PA [] s -> do_next stp s = (RItem (MReq id dl tr body), s1) -> start_request id dl s1 = Some (h, s2) ->
    PA [id] s2 /\ In {| e_id := id; e_h := h; e_dl := dl |} (s_inflight s2) /\ (dl <= T + MAXT)%N.
  Proof.
    intros [X S Nw H] E ES.
    assert (Hc : cg s = false) by (unfold cg; exact (x_cgone _ _ _ _ _ X)).
    destruct (do_next_alive _ _ _ E Hc) as (Hc1 & Hf1 & (C1 & C2 & C3 & C4 & C5 & C6 & C7 & C8) & Q1 & Hl).
    destruct (ChainSrv.do_next_stp _ _ _ E) as (_ & L2 & L3 & L4).
    destruct (Chain.l_c2s (s_t s)) as [|x rest] eqn:EL; [destruct Hl as (Hl & _); discriminate|].
    destruct Hl as ([= <-] & Hrest).
    assert (Elink : s_t s1 = ChainCross.with_c2s (s_t s) rest) by (apply link_eta; cbn; assumption).
    destruct (start_request_shape _ _ _ _ _ ES) as (Htr & Hh & Hi & Ht & Hn & Hha & Hab & Hcc & Hw & Hd & Hf & Hq & _ & _ & _ & Hst).
    assert (Hnh : forall hr, In hr (s_handlers s) -> h_id hr <> id).
    { intros hr Hin Heq. pose proof (x_nodup _ _ _ _ _ X) as Hnd. rewrite EL in Hnd. cbn in Hnd.
      inversion Hnd as [|? ? Hn' _]; subst. apply Hn'. apply in_or_app. right. apply in_or_app. left.
      unfold hids. apply in_map_iff. exists hr. auto. }
    split; [|split].
    - constructor.
      + rewrite Hst, Elink.
        apply (ChainCross.cross_start T [] c (s_t s) s s2 id dl tr body rest {| e_id := id; e_h := h; e_dl := dl |}
                 (s_now s1 + N.min (dl - s_now s1) MAX_TIMEOUT)%N EL); auto.
        * rewrite Hi, C3. reflexivity.
        * rewrite Ht, C4. reflexivity.
        * rewrite C7, Nw. reflexivity.
        * apply hids_eq. congruence.
      + assert (S1 : srv_inv s1).
        { apply (srv_hrel s s1 S); try congruence; try (rewrite C1; apply Forall2_hrel_refl); try (rewrite Q1; auto). }
        apply (srv_track s1 s2 {| e_id := id; e_h := h; e_dl := dl |} S1 Hi); auto; cbn.
        * intros Hin. unfold tids in Hin. apply in_map_iff in Hin. destruct Hin as (e & E1 & E2).
          exact (tracked_false_not_in _ _ Htr e E2 E1).
        * rewrite C1. exact Hnh.
      + congruence.
      + rewrite Hha, C1. exact H.
    - rewrite Hi. apply in_or_app. right. left. reflexivity.
    - apply (x_clamp _ _ _ _ _ X id dl tr body). rewrite EL. left. reflexivity.
  Qed.

  (* a response leaves the queue and is handed to the sink *)
  Lemma PA_resp p s m r e s' :
    PA p s -> s_respq s = m :: r -> base_start_send stp m (add_permit (set_respq s r)) = (e, s') -> PA p s'.
  Proof.
    intros [X S Nw H] Eq E.
    set (sA := add_permit (set_respq s r)) in *.
    destruct (add_permit_shape (set_respq s r)) as (A1 & A2 & A3 & A4 & A5 & A6 & A7 & A8 & A9 & A10 & A11 & A12 & A13).
    cbv zeta in *. fold sA in A1, A2, A3, A4, A5, A6, A7, A8, A9, A10, A11, A12, A13. sproj.
    assert (HF : Forall2 hrel (s_handlers s) (s_handlers sA)) by (apply (add_permit_hrel (set_respq s r))).
    assert (XA : cross T p c (s_t s) sA).
    { apply (ChainCross.cross_sframe T p c _ s sA); auto. unfold hids. apply Forall2_hrel_hids, HF. }
    assert (SA : srv_inv sA).
    { apply (srv_hrel s sA S HF); auto. intros x Hx. rewrite A11 in Hx. rewrite Eq. right. exact Hx. }
    assert (HA : Forall2 hrel hs0 (s_handlers sA)) by (eapply Forall2_hrel_trans; eauto).
    (* the handler of the response is over *)
    assert (Hover : forall hr, In hr (s_handlers sA) -> h_id hr = resp_id m -> live_st (h_st hr) = false).
    { intros hr Hin Hid.
      destruct (sv_respq _ S m) as (hr0 & B1 & B2 & B3); [rewrite Eq; left; reflexivity|].
      destruct (Forall2_hrel_in_l _ _ hr0 HF B1) as (hr0' & B1' & R).
      assert (hr = hr0').
      { assert (Hnd' : NoDup (hids sA)).
        { pose proof (x_nodup _ _ _ _ _ XA) as Hn0. apply NoDup_app_r in Hn0. apply ChainCross.NoDup_app_l in Hn0. exact Hn0. }
        unfold hids in Hnd'. eapply NoDup_map_in_inj; eauto. destruct R as (R1 & _). congruence. }
      subst hr. rewrite (hrel_done _ _ R B3). reflexivity. }
    destruct (base_start_send_shape stp _ _ _ _ E) as [(Hn & He & ->)|(en & r0 & Hen & He & B1 & B2 & B3 & B4 & B5 & B6 & B7 & B8 & B9 & B10 & B11 & _)].
    - constructor; [rewrite A13; cbn; exact XA|exact SA|congruence|exact HA].
    - assert (XU : cross T p c (s_t s) s').
      { apply (ChainCross.cross_untrack T p c _ sA s' (resp_id m)); auto. apply hids_eq, B3. }
      assert (SU : srv_inv s').
      { apply (srv_untrack_done sA s' (resp_id m) SA B1); auto. }
      assert (Hnt : ~ In (resp_id m) (tids s')).
      { unfold tids. rewrite B1. intros Hin. apply in_map_iff in Hin. destruct Hin as (e0 & E1 & E2).
        apply in_drop_entry in E2. tauto. }
      assert (Hh : In (resp_id m) (hids s')).
      { destruct (sv_respq _ S m) as (hr0 & C1 & C2 & C3); [rewrite Eq; left; reflexivity|].
        unfold hids. rewrite B3, (Forall2_hrel_hids _ _ HF). apply in_map_iff. exists hr0. auto. }
      unfold base_start_send in E.
      pose proof (ChainSrv.st_remove_request (resp_id m) sA) as Er.
      destruct (remove_request (resp_id m) sA) as [was sr] eqn:ERR. cbn [snd] in Er.
      assert (was = true).
      { destruct (remove_request_shape (resp_id m) sA) as [(_ & _ & Hn)|(Hw & _)]; [congruence|].
        rewrite ERR in Hw. exact Hw. }
      subst was.
      destruct (do_send stp m sr) as [rr sx] eqn:ED. injection E as _ <-.
      destruct (ChainSrv.do_send_stp _ _ _ _ ED) as (D1 & D2 & D3 & D4 & _).
      assert (Hcg : Chain.l_cgone (s_t sr) = false).
      { rewrite Er, A13. cbn. exact (x_cgone _ _ _ _ _ X). }
      destruct (D4 Hcg) as (_ & D5).
      assert (Elink : s_t sx = ChainCross.with_s2c (s_t s) (Chain.l_s2c (s_t s) ++ [Chain.conv_resp m])).
      { apply link_eta; cbn; rewrite ?D1, ?D2, ?D3, ?D5, Er, A13; reflexivity. }
      constructor; [|exact SU|congruence|rewrite B3; exact HA].
      rewrite Elink. apply (ChainCross.cross_send_resp T p c (s_t s) sx (Chain.conv_resp m)); auto.
  Qed.

  (* ---- the loops ---- *)
  Definition entry_of (q : treq) : sentry := {| e_id := q_id q; e_h := q_h q; e_dl := q_dl q |}.
  Definition PP s : Prop := s_fused s = false -> PA [] s.
  Definition QQ (q : treq) s : Prop :=
    s_fused s = false -> PA [q_id q] s /\ In (entry_of q) (s_inflight s) /\ (q_dl q <= T + MAXT)%N.

  Lemma PP_ready s r s' : do_ready stp s = (r, s') -> PP s -> PP s'.
  Proof.
    intros E K Hf. destruct (do_ready_core stp _ _ _ E) as (C & F & Q & _).
    apply (PA_frame [] s s'); auto; [apply K; congruence|exact (ChainSrv.st_do_ready _ _ _ E)].
  Qed.
  Lemma PP_flush s r s' : do_flush stp s = (r, s') -> PP s -> PP s'.
  Proof.
    intros E K Hf. destruct (do_flush_core stp _ _ _ E) as (C & F & Q & _).
    apply (PA_frame [] s s'); auto; [apply K; congruence|exact (ChainSrv.st_do_flush _ _ _ E)].
  Qed.
  Lemma QQ_ready q s r s' : do_ready stp s = (r, s') -> QQ q s -> QQ q s'.
  Proof.
    intros E K Hf. destruct (do_ready_core stp _ _ _ E) as (C & F & Q & _).
    destruct (K ltac:(congruence)) as (A & B & D). split; [|split; [|exact D]].
    - apply (PA_frame _ s s'); auto. exact (ChainSrv.st_do_ready _ _ _ E).
    - destruct C as (_ & _ & C3 & _). rewrite C3. exact B.
  Qed.
  Lemma QQ_flush q s r s' : do_flush stp s = (r, s') -> QQ q s -> QQ q s'.
  Proof.
    intros E K Hf. destruct (do_flush_core stp _ _ _ E) as (C & F & Q & _).
    destruct (K ltac:(congruence)) as (A & B & D). split; [|split; [|exact D]].
    - apply (PA_frame _ s s'); auto. exact (ChainSrv.st_do_flush _ _ _ E).
    - destruct C as (_ & _ & C3 & _). rewrite C3. exact B.
  Qed.

  Lemma fused_start_send m s e s' : base_start_send stp m s = (e, s') -> s_fused s' = s_fused s.
  Proof.
    intros E. destruct (base_start_send_shape stp _ _ _ _ E) as [(_ & _ & ->)|(en & r0 & _ & _ & _ & _ & _ & _ & _ & _ & _ & _ & B9 & _)]; auto.
  Qed.
  Lemma fused_add_permit s : s_fused (add_permit s) = s_fused s.
  Proof. destruct (add_permit_shape s) as (_ & _ & _ & _ & _ & _ & _ & _ & _ & A10 & _). exact A10. Qed.

  Lemma PP_resp s m r e s' :
    s_respq s = m :: r -> base_start_send stp m (add_permit (set_respq s r)) = (e, s') -> PP s -> PP s'.
  Proof.
    intros Eq E K Hf. apply (PA_resp [] s m r e s'); auto. apply K.
    rewrite (fused_start_send _ _ _ _ E), fused_add_permit in Hf. exact Hf.
  Qed.
  Lemma QQ_resp q s m r e s' :
    s_respq s = m :: r -> base_start_send stp m (add_permit (set_respq s r)) = (e, s') -> QQ q s -> QQ q s'.
  Proof.
    intros Eq E K Hf.
    rewrite (fused_start_send _ _ _ _ E), fused_add_permit in Hf. cbn in Hf.
    destruct (K Hf) as (A & B & D). split; [apply (PA_resp _ s m r e s'); auto|split; [|exact D]].
    destruct (add_permit_shape (set_respq s r)) as (_ & _ & _ & A4 & _). cbv zeta in A4. sproj.
    destruct (base_start_send_shape stp _ _ _ _ E) as [(_ & _ & ->)|(en & r0 & _ & _ & B1 & _)].
    - rewrite A4. exact B.
    - rewrite B1, A4. apply in_drop_entry. split; [exact B|]. cbn. intros Heq.
      destruct A as [X S _ _].
      destruct (sv_respq _ S m) as (hr0 & C1 & C2 & C3); [rewrite Eq; left; reflexivity|].
      pose proof (x_nodup _ _ _ _ _ X) as Hnd. apply NoDup_app_r in Hnd.
      rewrite NoDup_nth_error in Hnd. clear Hnd.
      pose proof (x_nodup _ _ _ _ _ X) as Hnd. apply NoDup_app_r in Hnd.
      assert (Hin : In (q_id q) (hids s)).
      { unfold hids. apply in_map_iff. exists hr0. split; [congruence|exact C1]. }
      clear -Hnd Hin. induction (hids s) as [|x l IH]; [destruct Hin|].
      cbn in Hnd. inversion Hnd as [|? ? Hn Hd]; subst. destruct Hin as [->|Hin].
      + apply Hn. apply in_or_app. right. left. reflexivity.
      + apply IH; assumption.
  Qed.

  Lemma base_inv_stp f s r s' :
    base_poll_next stp f s = (r, s') -> PP s -> match r with PReady q => QQ q s' | _ => PP s' end.
  Proof.
    apply (ChainSrv.base_poll_next_ind stp PP QQ).
    - (* server-side cancel queue: empty *)
      intros x id r0 Ec K Hf.
      assert (Hf0 : s_fused x = false).
      { destruct (remove_request_shape id (set_cancels x r0)) as [(_ & Heq & _)|(_ & _ & _ & _ & _ & _ & _ & _ & _ & _ & B9 & _)];
          cbv zeta in *; [rewrite Heq in Hf; exact Hf|rewrite B9 in Hf; exact Hf]. }
      destruct (K Hf0) as [_ S _ _]. rewrite (sv_cancels _ S) in Ec. discriminate.
    - intros x r0 x' E K Hf. apply (PA_expired [] x r0 x'); auto. apply K.
      destruct (poll_expired_shape _ _ _ E) as (_ & _ & _ & _ & _ & A6 & _). congruence.
    - intros x r0 x' E Hn K Hf.
      destruct (do_next_core stp _ _ _ E) as (C & F & Q & _).
      assert (PAx : PA [] x) by (apply K; congruence).
      assert (Hc : cg x = false) by (unfold cg; exact (x_cgone _ _ _ _ _ (pa_x _ _ PAx))).
      destruct (do_next_alive _ _ _ E Hc) as (_ & _ & _ & _ & Hl).
      destruct (Chain.l_c2s (s_t x)) as [|y rest]; [|destruct Hl as (-> & _); exfalso; eapply Hn; reflexivity].
      destruct Hl as (_ & St). apply (PA_frame [] x x'); auto.
    - intros x _ Hf. discriminate.
    - intros x id dl tr body s1 h s2 E K ES Hf. cbn [q_id q_dl entry_of q_h].
      destruct (do_next_core stp _ _ _ E) as (_ & F & _).
      destruct (start_request_shape _ _ _ _ _ ES) as (_ & _ & _ & _ & _ & _ & _ & _ & _ & _ & F2 & _).
      apply (PA_accept x id dl tr body s1 h s2); auto. apply K. congruence.
    - intros x id dl tr body s1 E K _ Hf. destruct (do_next_core stp _ _ _ E) as (_ & F & _).
      apply (PA_dup [] x id dl tr body s1); auto. apply K. congruence.
    - intros x id tr s1 E K Hf. destruct (do_next_core stp _ _ _ E) as (_ & F & _).
      apply (PA_cancel [] x id tr s1); auto. apply K.
      destruct (cancel_request_shape id s1) as [(Heq & _)|(e & _ & _ & _ & _ & _ & _ & _ & _ & _ & B9 & _)];
        cbv zeta in *; [rewrite Heq in Hf|rewrite B9 in Hf]; congruence.
  Qed.

  Lemma requests_inv_stp : forall f s r s',
    requests_poll_next stp scfg f s = (r, s') -> PP s ->
    match r with PReady q => QQ q s' | PPending | PEnd => PP s' | _ => True end.
  Proof.
    induction f as [|f IH]; intros s r s' H K; cbn [requests_poll_next] in H; [injection H as <- <-; exact I|].
    unfold pump_read in H. cbn [cfg_limit scfg Chain.scfg] in H.
    destruct (base_poll_next stp (S f) s) as [rd s1] eqn:ER.
    pose proof (base_inv_stp _ _ _ _ ER K) as K1.
    destruct rd as [q| |a| |].
    - destruct (pump_write stp false s1) as [wr s2] eqn:EW.
      pose proof (ChainSrv.pump_write_ind stp (QQ q) (QQ_ready q) (QQ_flush q) (QQ_resp q) _ _ _ _ EW K1) as K2.
      destruct wr; injection H as <- <-; try exact K2; exact I.
    - destruct (pump_write stp true s1) as [wr s2] eqn:EW.
      pose proof (ChainSrv.pump_write_ind stp PP PP_ready PP_flush PP_resp _ _ _ _ EW K1) as K2.
      destruct wr; try (injection H as <- <-; first [exact K2|exact I]). eapply IH; eassumption.
    - injection H as <- <-. exact I.
    - destruct (pump_write stp false s1) as [wr s2] eqn:EW.
      pose proof (ChainSrv.pump_write_ind stp PP PP_ready PP_flush PP_resp _ _ _ _ EW K1) as K2.
      destruct wr; try (injection H as <- <-; first [exact K2|exact I]). eapply IH; eassumption.
    - injection H as <- <-. exact I.
  Qed.
End PollInv.

Section SrvPoll.
  Implicit Types s : sst.

  Lemma Forall2_len {A B} (R : A -> B -> Prop) l l' : Forall2 R l l' -> length l = length l'.
  Proof. induction 1; cbn; congruence. Qed.

  Lemma srv_yield s s' id h dl :
    srv_inv s -> In {| e_id := id; e_h := h; e_dl := dl |} (s_inflight s) ->
    s_handlers s' = s_handlers s ++ [{| h_h := h; h_id := id; h_st := HYielded |}] ->
    s_inflight s' = s_inflight s -> s_aborted s' = s_aborted s -> s_respq s' = s_respq s ->
    s_cancels s' = s_cancels s -> s_dropped s' = s_dropped s -> s_fused s' = s_fused s -> srv_inv s'.
  Proof.
    intros [V1 V2 V3 V4 V5 V6 V7] Hin Eh Ei Ea Eq Ec Ed Ef.
    constructor; unfold tids in *; rewrite ?Eh, ?Ei, ?Ea, ?Eq, ?Ec, ?Ed, ?Ef; auto.
    - intros r Hr. destruct (V5 r Hr) as (hr & A & B). exists hr. split; [apply in_or_app; left; exact A|exact B].
    - intros hr Hh Hl. apply in_app_or in Hh. destruct Hh as [Hh|[<-|[]]]; [apply V6; assumption|].
      right. eexists. split; [exact Hin|]. cbn. auto.
    - intros e hr He Hh E. apply in_app_or in Hh. destruct Hh as [Hh|[<-|[]]]; [eapply V7; eauto|].
      cbn in *. assert (e = {| e_id := id; e_h := h; e_dl := dl |}).
      { apply (NoDup_map_in_inj _ _ e_id (s_inflight s)); auto. }
      subst e. reflexivity.
  Qed.

  Theorem srv_poll : stmt_srv_poll.
  Proof.
    intros T c s s' obs X S Nw H. unfold step in H.
    destruct (poll_requests stp stfuel scfg s) as [s1 l0] eqn:EP. injection H as <- <-.
    unfold poll_requests in EP. rewrite (sv_dropped _ S) in EP.
    destruct (requests_poll_next stp scfg (poll_fuel stfuel s) (set_log s [])) as [r s2] eqn:ER.
    assert (PA0 : PA T c (s_handlers s) [] s) by (constructor; auto; apply Forall2_hrel_refl).
    assert (K0 : PP T c (s_handlers s) (set_log s [])).
    { intros _. apply (PA_frame T c (s_handlers s) [] s); auto. unfold same_core; sproj. repeat split; reflexivity. }
    pose proof (requests_inv_stp T c (s_handlers s) _ _ _ _ ER K0) as K.
    assert (Hc0 : cg (set_log s []) = false) by (unfold cg; sproj; exact (x_cgone _ _ _ _ _ X)).
    assert (Hf0 : s_fused (set_log s []) = false) by (sproj; exact (sv_fused _ S)).
    destruct (requests_ctrl_stp _ _ _ _ ER Hc0 Hf0) as (Hc2 & Hf2 & Hp2).
    destruct r as [q| |a| |]; injection EP as <- <-.
    - (* a request is yielded *)
      destruct (K Hf2) as ([X2 S2 N2 H2] & Hin & Hcl).
      exists (rev (s_log s2)), (OYield (length (s_handlers s2)) (q_id q) (q_dl q) (q_tr q) (q_body q)).
      split; [reflexivity|].
      split; [symmetry; eapply Forall2_len; exact H2|split; [exact Hcl|]].
      exists (s_handlers s2), (q_h q). split; [exact H2|split; [sproj; reflexivity|]]. sproj.
      split; [|split; [|exact N2]].
      + apply (ChainCross.cross_yield T [] c (s_t s2) s2 _ (q_id q)); sproj; auto.
        unfold hids. sproj. rewrite map_app. reflexivity.
      + apply (srv_yield s2 _ (q_id q) (q_h q) (q_dl q) S2 Hin); sproj; reflexivity.
    - exists (rev (s_log s2)), OStreamEnd. split; [reflexivity|exact I].
    - exists (rev (s_log s2)), (OStreamErr a). split; [reflexivity|exact I].
    - destruct (K Hf2) as [X2 S2 N2 H2]. destruct (Hp2 eq_refl) as (L1 & L2 & L3).
      exists (rev (s_log s2)), OPending. split; [reflexivity|].
      split; [exact H2|split; [exact X2|split; [exact S2|split; [exact N2|split; [exact L1|split; [exact L2|]]]]]].
      intros id w Hin. destruct (N.ltb_spec T w) as [Hlt|Hge]; [exact Hlt|]. exfalso.
      assert (In (id, w) (due s2)).
      { unfold due. apply filter_In. split; [exact Hin|]. cbn. apply N.leb_le. rewrite N2. exact Hge. }
      rewrite L3 in H. exact H.
    - exists (rev (s_log s2)), OFuel. split; [reflexivity|exact I].
  Qed.
End SrvPoll.

Section SrvExec.
  Implicit Types s : sst.

  Lemma set_hst_map_id k st l : map h_id (set_hst k st l) = map h_id l.
  Proof. revert k; induction l as [|x l IH]; intros [|k]; cbn; try reflexivity. f_equal. apply IH. Qed.

  Lemma Forall2_nth {A B} (R : A -> B -> Prop) l l' j x :
    Forall2 R l l' -> nth_error l j = Some x -> exists y, nth_error l' j = Some y /\ R x y.
  Proof.
    intros H. revert j. induction H as [|a b l l' Hab _ IH]; intros [|j] E; cbn in *; try discriminate.
    - injection E as <-. eauto.
    - apply IH, E.
  Qed.

  Lemma exec_gen T (c : cstate) s s' sx k hr st' push :
    cross T [] c (s_t s) s -> srv_inv s -> nth_error (s_handlers s) k = Some hr ->
    live_st (h_st hr) = true ->
    (sx = s \/ sx = add_permit s) ->
    s_handlers s' = set_hst k st' (s_handlers sx) ->
    (push = [] \/ exists b, push = [mkresp (h_id hr) b] /\ st' = HDone) ->
    s_respq s' = s_respq s ++ push ->
    s_t s' = s_t s -> s_now s' = s_now s -> s_inflight s' = s_inflight s -> s_timers s' = s_timers s ->
    s_aborted s' = s_aborted s -> s_cancels s' = s_cancels s -> s_dropped s' = s_dropped s ->
    s_fused s' = s_fused s ->
    cross T [] c (s_t s') s' /\ srv_inv s' /\ length (s_handlers s') = length (s_handlers s)
    /\ (forall j hr0, j <> k -> nth_error (s_handlers s) j = Some hr0 ->
          exists hr', nth_error (s_handlers s') j = Some hr' /\ hrel hr0 hr')
    /\ exists hr', nth_error (s_handlers s') k = Some hr' /\ h_id hr' = h_id hr /\ h_h hr' = h_h hr
                   /\ h_st hr' = st'.
  Proof.
    intros X S Hk Hl Hsx Eh Hpush Eq Et En Ei Etm Ea Ec Ed Ef.
    assert (HF : Forall2 hrel (s_handlers s) (s_handlers sx)).
    { destruct Hsx as [->| ->]; [apply Forall2_hrel_refl|apply add_permit_hrel]. }
    destruct (Forall2_nth _ _ _ k hr HF Hk) as (hx & Hkx & (R1 & R2 & _)).
    assert (Hk' : nth_error (s_handlers s') k = Some {| h_h := h_h hx; h_id := h_id hx; h_st := st' |}).
    { rewrite Eh. apply (set_hst_same _ _ _ _ Hkx). }
    assert (Hj : forall j hr0, j <> k -> nth_error (s_handlers s) j = Some hr0 ->
              exists hr', nth_error (s_handlers s') j = Some hr' /\ hrel hr0 hr').
    { intros j hr0 Hne Hj0. destruct (Forall2_nth _ _ _ j hr0 HF Hj0) as (y & Hy & R).
      exists y. split; [|exact R]. rewrite Eh, set_hst_other; auto. }
    assert (Hhids : hids s' = hids s).
    { unfold hids. rewrite Eh, set_hst_map_id. apply (Forall2_hrel_hids _ _ HF). }
    assert (Hback : forall hr', In hr' (s_handlers s') ->
              (hr' = {| h_h := h_h hx; h_id := h_id hx; h_st := st' |})
              \/ exists hr0, In hr0 (s_handlers s) /\ hr0 <> hr /\ hrel hr0 hr').
    { intros hr' Hin. apply In_nth_error in Hin. destruct Hin as (j & Hjn).
      destruct (Nat.eq_dec j k) as [->|Hne]; [left; congruence|right].
      rewrite Eh, set_hst_other in Hjn by auto.
      assert (Hlt : j < length (s_handlers s)).
      { rewrite (Forall2_len _ _ _ HF). apply nth_error_Some. congruence. }
      apply nth_error_Some in Hlt. destruct (nth_error (s_handlers s) j) as [hr0|] eqn:E0; [|congruence].
      destruct (Forall2_nth _ _ _ j hr0 HF E0) as (y & Hy & R). rewrite Hjn in Hy. inversion Hy; subst y.
      exists hr0. split; [eapply nth_error_In; eauto|split; [|exact R]].
      intros ->. pose proof (x_nodup _ _ _ _ _ X) as Hnd. apply NoDup_app_r in Hnd. apply ChainCross.NoDup_app_l in Hnd.
      unfold hids in Hnd. apply Hne. eapply NoDup_map_nth_inj; eauto. }
    split; [|split; [|split; [|split; [exact Hj|]]]].
    - rewrite Et. apply (ChainCross.cross_sframe T [] c _ s s'); auto.
    - destruct S as [V1 V2 V3 V4 V5 V6 V7].
      constructor; unfold tids in *; rewrite ?Ei, ?Ea, ?Ec, ?Ed, ?Ef; auto.
      + intros r Hr. rewrite Eq in Hr. apply in_app_or in Hr. destruct Hr as [Hr|Hr].
        * destruct (V5 r Hr) as (hr0 & A & B & C0).
          assert (hr0 <> hr) by (intros ->; rewrite C0 in Hl; discriminate).
          apply In_nth_error in A. destruct A as (j & Aj).
          assert (j <> k) by (intros ->; congruence).
          destruct (Hj j hr0 H0 Aj) as (hr' & A' & R). exists hr'.
          split; [eapply nth_error_In; eauto|]. split; [destruct R as (E1 & _); congruence|eapply hrel_done; eauto].
        * destruct Hpush as [->|(b & -> & ->)]; [destruct Hr|]. destruct Hr as [<-|[]].
          eexists. split; [eapply nth_error_In; exact Hk'|]. cbn. auto.
      + intros hr' Hin Hlv. destruct (Hback hr' Hin) as [->|(hr0 & A & _ & R)].
        * cbn. rewrite R1, R2. apply V6; [eapply nth_error_In; eauto|exact Hl].
        * rewrite (hrel_live _ _ R) in Hlv. destruct R as (E1 & E2 & _). rewrite E1, E2. apply V6; assumption.
      + intros e hr' He Hin E. destruct (Hback hr' Hin) as [->|(hr0 & A & _ & (E1 & E2 & _))].
        * cbn in *. rewrite R2. apply (V7 e hr He); [eapply nth_error_In; eauto|congruence].
        * rewrite E2. apply (V7 e hr0 He A). congruence.
    - rewrite Eh, set_hst_length. symmetry. apply (Forall2_len _ _ _ HF).
    - eexists. split; [exact Hk'|]. cbn. auto.
  Qed.

  Lemma exec_same T (c : cstate) s k :
    cross T [] c (s_t s) s -> srv_inv s ->
    cross T [] c (s_t s) s /\ srv_inv s /\ s_t s = s_t s /\ s_now s = s_now s /\ s_inflight s = s_inflight s
    /\ s_timers s = s_timers s /\ length (s_handlers s) = length (s_handlers s)
    /\ (forall j hr, j <> k -> nth_error (s_handlers s) j = Some hr ->
          exists hr', nth_error (s_handlers s) j = Some hr' /\ hrel hr hr').
  Proof.
    intros X S. do 7 (split; [auto|]). intros j hr _ Hj. exists hr. split; [exact Hj|apply hrel_refl].
  Qed.

  Ltac exec_fin T c s sp sx k hr st' push X S Hk Est :=
    let G := fresh "G" in
    assert (G := exec_gen T c s sp sx k hr st' push X S Hk);
    destruct (add_permit_shape s) as (P1 & P2 & P3 & P4 & P5 & P6 & P7 & P8 & P9 & P10 & P11 & P12 & P13);
    cbv zeta in *;
    destruct G as (G1 & G2 & G3 & G4 & hr' & G5 & G6 & G7 & G8);
    [rewrite Est; reflexivity
    |first [left; reflexivity|right; reflexivity]
    |sproj; reflexivity
    |first [left; reflexivity|right; eexists; split; reflexivity]
    |sproj; rewrite ?P11, ?app_nil_r; reflexivity
    |sproj; rewrite ?P13; reflexivity
    |sproj; rewrite ?P8; reflexivity
    |sproj; rewrite ?P4; reflexivity
    |sproj; rewrite ?P5; reflexivity
    |sproj; rewrite ?P6; reflexivity
    |sproj; rewrite ?P7; reflexivity
    |sproj; rewrite ?P9; reflexivity
    |sproj; rewrite ?P10; reflexivity
    |].

  Ltac use_same T c s k X S fin :=
    let A1 := fresh in let A2 := fresh in let A3 := fresh in let A4 := fresh in
    let A5 := fresh in let A6 := fresh in let A7 := fresh in let A8 := fresh in
    destruct (exec_same T c s k X S) as (A1 & A2 & A3 & A4 & A5 & A6 & A7 & A8);
    split; [exact A1|split; [exact A2|split; [exact A3|split; [exact A4|split; [exact A5|split; [exact A6|
    split; [exact A7|split; [exact A8|fin]]]]]]]].

  Theorem srv_exec : stmt_srv_exec.
  Proof.
    intros T c s k st s' obs X S H. unfold execute_poll in H.
    destruct (nth_error (s_handlers s) k) as [hr|] eqn:Hk.
    2:{ injection H as <- <-. use_same T c s k X S ltac:(split; reflexivity). }
    destruct (h_st hr) eqn:Est.
    5,6: (injection H as <- <-;
          use_same T c s k X S ltac:(exists hr; split; [exact Hk|split; [reflexivity|split; [reflexivity|split; reflexivity]]])).
    all: destruct (existsb (Nat.eqb (h_h hr)) (s_aborted s)) eqn:EA.
    all: try destruct st as [|v|].
    all: try destruct (s_dropped s) eqn:ED.
    all: try destruct (s_permits s) as [|pp] eqn:EP.
    all: injection H as <- <-.
    all: try (use_same T c s k X S ltac:(exists hr; split; [exact Hk|split; [reflexivity|split; [reflexivity|
                right; split; [first [exact Est|reflexivity]|reflexivity]]]]); fail).
    all: match goal with
         | |- cross _ _ _ (s_t ?sp) _ /\ _ =>
           match goal with
           | |- context [set_hst _ ?st' (s_handlers (add_permit _))] =>
             match goal with
             | |- context [s_respq _ ++ ?p] => exec_fin T c s sp (add_permit s) k hr st' p X S Hk Est
             | _ => exec_fin T c s sp (add_permit s) k hr st' (@nil response) X S Hk Est
             end
           | |- context [set_hst _ ?st' (s_handlers _)] =>
             match goal with
             | |- context [s_respq _ ++ ?p] => exec_fin T c s sp s k hr st' p X S Hk Est
             | _ => exec_fin T c s sp s k hr st' (@nil response) X S Hk Est
             end
           end
         end.
    all: (split; [exact G1|split; [exact G2|split; [sproj; rewrite ?P13; reflexivity|split; [sproj; rewrite ?P8; reflexivity|
          split; [sproj; rewrite ?P4; reflexivity|split; [sproj; rewrite ?P5; reflexivity|split; [exact G3|split; [exact G4|]]]]]]]]).
    all: exists hr'; split; [exact G5|split; [exact G6|split; [exact G7|]]].
    all: rewrite ?EA.
    all: try (split; [exact G8|reflexivity]).
    all: try (left; split; [exact G8|reflexivity]).
    all: try (split; [first [left; exact G8|right; exact G8]|eexists; reflexivity]).
  Qed.
End SrvExec.

(* pigeonhole on N, for the no-wrap bound *)
Lemma pigeon_N : forall (l : list N) (n : N),
  NoDup l -> (forall x, In x l -> (x < n)%N) -> (N.of_nat (length l) <= n)%N.
Proof.
  intros l n Hnd Hlt.
  assert (Hincl : incl l (map N.of_nat (seq 0 (N.to_nat n)))).
  { intros x Hx. specialize (Hlt x Hx). apply in_map_iff. exists (N.to_nat x). split; [apply N2Nat.id|].
    apply in_seq. lia. }
  pose proof (NoDup_incl_length Hnd Hincl) as H. rewrite map_length, seq_length in H. lia.
Qed.

Print Assumptions srv_poll.
Print Assumptions srv_exec.
Print Assumptions pigeon_N.
