(* C02, server half, monitor proof, part 1: model-only invariants (any transport).
   (1) permit accounting of the bounded response queue: permits + queued responses + handlers that
       hold a permit = buffer (while the channel is not dropped); the waiter queue lists exactly the
       handlers in HWait, without duplicates, and is empty whenever a permit is free;
   (2) a handler that returned after buffering its response has that response in the queue as long
       as its request is tracked (QPm);
   both along `step` and through the four loops of a Requests poll. *)
From Coq Require Import List Bool Arith NArith Lia.
Import ListNotations.
From TarpcV Require Import Base Transport TimerWheel Server ServerMon ServerFuel ServerContract
     ServerSim ServerSim2 ServerSim3 ServerSim4 ServerSim5 ServerSim6 ServerSim7 ServerProofsPA0 ServerProofsPA3.

(* ================================================================== lists of handlers *)
Definition is_permit_st (x : hstate) : bool := match x with HPermit _ => true | _ => false end.
Definition is_wait_st (x : hstate) : bool := match x with HWait _ => true | _ => false end.
Definition nperm (l : list hrec) : nat := length (filter (fun h => is_permit_st (h_st h)) l).
Definition waitk (l : list hrec) (k : nat) : Prop :=
  exists hr, nth_error l k = Some hr /\ is_wait_st (h_st hr) = true.

Lemma nperm_set_hst : forall k x l hr,
  nth_error l k = Some hr ->
  nperm (set_hst k x l) + Nat.b2n (is_permit_st (h_st hr)) = nperm l + Nat.b2n (is_permit_st x).
Proof.
  unfold nperm. intros k x l; revert k; induction l as [|y r IH]; intros [|k] hr H; cbn [nth_error] in H; try discriminate.
  - inversion H; subst y. cbn [set_hst filter h_st]. destruct (is_permit_st (h_st hr)), (is_permit_st x); cbn; lia.
  - cbn [set_hst filter]. specialize (IH k hr H). destruct (is_permit_st (h_st y)); cbn [length]; lia.
Qed.

Lemma nperm_app : forall l x, nperm (l ++ [x]) = nperm l + Nat.b2n (is_permit_st (h_st x)).
Proof. intros. unfold nperm. rewrite filter_app, app_length. cbn. destruct (is_permit_st (h_st x)); cbn; lia. Qed.

Lemma waitk_set_hst : forall k x l j,
  waitk (set_hst k x l) j <-> (j <> k /\ waitk l j) \/ (j = k /\ k < length l /\ is_wait_st x = true).
Proof.
  intros k x l j. unfold waitk. destruct (Nat.eq_dec k j) as [->|N].
  - destruct (nth_error l j) as [h0|] eqn:E.
    + rewrite (set_hst_same _ x _ _ E). split.
      * intros (hr & [= <-] & W). right. split; [reflexivity|]. split; [apply nth_error_Some; congruence|exact W].
      * intros [[N _]|(_ & _ & W)]; [congruence|]. eexists. split; [reflexivity|exact W].
    + assert (L : length l <= j) by (apply nth_error_None; exact E).
      assert (E' : nth_error (set_hst j x l) j = None) by (apply nth_error_None; rewrite set_hst_length; exact L).
      rewrite E'. split; [intros (hr & A & _); discriminate|intros [[N _]|(_ & L' & _)]; [congruence|lia]].
  - rewrite (set_hst_other _ _ x _ N). split.
    + intros H. left. split; [congruence|exact H].
    + intros [[_ H]|(E & _)]; [exact H|congruence].
Qed.

Lemma waitk_app : forall l x j, is_wait_st (h_st x) = false -> (waitk (l ++ [x]) j <-> waitk l j).
Proof.
  intros l x j Hx. unfold waitk. destruct (Nat.lt_ge_cases j (length l)) as [L|L].
  - rewrite nth_error_app1 by exact L. reflexivity.
  - rewrite nth_error_app2 by exact L. split.
    + intros (hr & A & W). destruct (j - length l) as [|n]; cbn in A; [inversion A; subst; congruence|destruct n; discriminate].
    + intros (hr & A & _). apply nth_error_None in L. congruence.
Qed.

(* ================================================================== the accounting *)
Definition PSumc (p : nat) (q : list response) (hs : list hrec) : nat := p + length q + nperm hs.
Definition PWc (ws : list nat) (p : nat) (hs : list hrec) : Prop :=
  (forall k, In k ws <-> waitk hs k) /\ NoDup ws /\ (ws <> [] -> p = 0).

Lemma in_remove_waiter : forall k j l, In j (remove_waiter k l) <-> In j l /\ j <> k.
Proof.
  intros k j l. unfold remove_waiter. rewrite filter_In. split; intros [A B]; split; auto.
  - intros ->. rewrite Nat.eqb_refl in B. discriminate.
  - apply negb_true_iff. apply Nat.eqb_neq. exact B.
Qed.

Lemma NoDup_app_snoc : forall A (l : list A) x, NoDup l -> ~ In x l -> NoDup (l ++ [x]).
Proof.
  induction l as [|y r IH]; intros x H N; cbn [app]; [constructor; [intros []|constructor]|].
  inversion H; subst. constructor.
  - rewrite in_app_iff. intros [X|[X|[]]]; [contradiction|]. apply N. left. symmetry. exact X.
  - apply IH; [assumption|]. intros X. apply N. right. exact X.
Qed.

(* k was not waiting and does not wait afterwards *)
Lemma PWc_set_plain : forall ws p hs k x hr,
  PWc ws p hs -> nth_error hs k = Some hr -> is_wait_st (h_st hr) = false -> is_wait_st x = false ->
  PWc ws p (set_hst k x hs).
Proof.
  intros ws p hs k x hr (A & B & D) Hk Hw Hx. split; [|split; [exact B|exact D]].
  intros j. rewrite (A j), waitk_set_hst. split.
  - intros W. left. split; [|exact W]. intros ->. destruct W as (h0 & E & W). rewrite Hk in E. inversion E; subst. congruence.
  - intros [[_ W]|(_ & _ & W)]; [exact W|congruence].
Qed.

(* k was waiting and leaves the waiter queue *)
Lemma PWc_set_unwait : forall ws p hs k x hr,
  PWc ws p hs -> nth_error hs k = Some hr -> is_wait_st (h_st hr) = true -> is_wait_st x = false ->
  PWc (remove_waiter k ws) p (set_hst k x hs).
Proof.
  intros ws p hs k x hr (A & B & D) Hk Hw Hx. split; [|split].
  - intros j. rewrite in_remove_waiter, (A j), waitk_set_hst. split.
    + intros [W N]. left. auto.
    + intros [[N W]|(_ & _ & W)]; [auto|congruence].
  - apply NoDup_filter. exact B.
  - intros H. apply D. intros E. rewrite E in H. apply H. reflexivity.
Qed.

(* k starts waiting *)
Lemma PWc_set_wait : forall ws hs k b hr,
  PWc ws 0 hs -> nth_error hs k = Some hr -> is_wait_st (h_st hr) = false ->
  PWc (ws ++ [k]) 0 (set_hst k (HWait b) hs).
Proof.
  intros ws hs k b hr (A & B & D) Hk Hw. split; [|split; [|reflexivity]].
  - intros j. rewrite in_app_iff, (A j), waitk_set_hst. cbn [In is_wait_st]. split.
    + intros [W|[<-|[]]].
      * left. split; [|exact W]. intros ->. destruct W as (h0 & E & W). rewrite Hk in E. inversion E; subst. congruence.
      * right. split; [reflexivity|]. split; [apply nth_error_Some; congruence|reflexivity].
    + intros [[_ W]|(-> & _ & _)]; auto.
  - apply NoDup_app_snoc; [exact B|]. intros Hin. apply A in Hin. destruct Hin as (h0 & E & W).
    rewrite Hk in E. inversion E; subst. congruence.
Qed.

Section Acc.
  Context {T C : Type}.
  Variable tp : transport T response cmsg.
  Variable ctl : T -> C -> T.
  Variable tfuel : T -> nat.
  Notation st := (@sstate T).

  Definition PW (s : st) : Prop := PWc (s_waiters s) (s_permits s) (s_handlers s).
  Definition PSum (s : st) : nat := PSumc (s_permits s) (s_respq s) (s_handlers s).
  Definition PAcc (buf : nat) (s : st) : Prop := (s_dropped s = false -> PSum s = buf) /\ PW s.

  Lemma PAcc_frame : forall buf (s s' : st),
    PAcc buf s -> s_dropped s' = s_dropped s -> s_permits s' = s_permits s -> s_respq s' = s_respq s ->
    s_handlers s' = s_handlers s -> s_waiters s' = s_waiters s -> PAcc buf s'.
  Proof. intros buf s s' H E1 E2 E3 E4 E5. unfold PAcc, PSum, PW in *. rewrite E1, E2, E3, E4, E5. exact H. Qed.

  (* a permit returns *)
  Lemma add_permit_acc : forall (s : st),
    PW s -> PW (add_permit s) /\ PSum (add_permit s) = S (PSum s).
  Proof.
    intros s (A & B & D). unfold add_permit, PW, PSum, PSumc.
    destruct (s_waiters s) as [|k r] eqn:EW; sproj.
    { rewrite ?EW. split; [|lia]. split; [exact A|split; [exact B|intros X; congruence]]. }
    assert (Wk : waitk (s_handlers s) k) by (apply A; left; reflexivity).
    destruct Wk as (hr & Hk & Wst). rewrite Hk. destruct hr as [h i x]. cbn [h_st] in Wst.
    destruct x; try discriminate. sproj.
    pose proof (nperm_set_hst k (HPermit b) (s_handlers s) _ Hk) as NP. cbn [h_st is_permit_st Nat.b2n] in NP.
    split; [|lia]. inversion B; subst. split; [|split; [assumption|]].
    - intros j. rewrite waitk_set_hst. cbn [is_wait_st]. split.
      + intros Hj. left. split; [intros ->; contradiction|]. apply A. right. exact Hj.
      + intros [[N W]|(_ & _ & X)]; [|discriminate]. apply A in W. destruct W as [W|W]; [congruence|exact W].
    - intros _. apply D. discriminate.
  Qed.

  Lemma add_permit_waitst : forall (s : st) k hr,
    nth_error (s_handlers s) k = Some hr -> is_wait_st (h_st hr) = false ->
    exists hr', nth_error (s_handlers (add_permit s)) k = Some hr' /\ h_st hr' = h_st hr.
  Proof.
    intros s k hr Hk Hw. destruct (add_permit_shape s) as (P1 & P2 & _). cbv zeta in *.
    assert (L : k < length (s_handlers (add_permit s))).
    { rewrite <- (map_length h_h), P1, map_length. apply nth_error_Some. congruence. }
    apply nth_error_Some in L. destruct (nth_error (s_handlers (add_permit s)) k) as [hr'|] eqn:E; [|congruence].
    exists hr'. split; [reflexivity|]. destruct (P2 k hr' E) as (hr0 & A & _ & _ & [X|(b & X & _)]);
      rewrite Hk in A; inversion A; subst hr0; [exact X|]. rewrite X in Hw. discriminate.
  Qed.

  (* ---- one poll of an execute() future ---------------------------------------------------- *)
  Lemma execute_poll_acc : forall buf k hs (s : st),
    PAcc buf s -> PAcc buf (fst (execute_poll k hs s)).
  Proof.
    intros buf k hs s (HS & HW). assert (HP : PAcc buf s) by (split; assumption). unfold execute_poll.
    destruct (nth_error (s_handlers s) k) as [hr|] eqn:Hk; [|exact HP].
    pose proof (nperm_set_hst k) as NP.
    destruct (add_permit_acc s HW) as (HWp & HSp).
    assert (Leaf_plain : forall x, is_wait_st (h_st hr) = false -> is_permit_st (h_st hr) = false ->
              is_wait_st x = false -> is_permit_st x = false ->
              PAcc buf (set_handlers s (set_hst k x (s_handlers s)))).
    { intros x W1 P1 W2 P2. unfold PAcc, PSum, PW, PSumc in *. sproj. split.
      - intros Hd. specialize (NP x _ _ Hk). rewrite P1, P2 in NP. cbn in NP. specialize (HS Hd). lia.
      - eapply PWc_set_plain; eauto. }
    assert (Leaf_unwait : forall x, is_wait_st (h_st hr) = true -> is_wait_st x = false -> is_permit_st x = false ->
              PAcc buf (set_handlers (set_waiters s (remove_waiter k (s_waiters s)))
                                     (set_hst k x (s_handlers (set_waiters s (remove_waiter k (s_waiters s))))))).
    { intros x W1 W2 P2. unfold PAcc, PSum, PW, PSumc in *. sproj. split.
      - intros Hd. specialize (NP x _ _ Hk). rewrite P2 in NP. destruct (h_st hr); try discriminate.
        cbn in NP. specialize (HS Hd). lia.
      - eapply PWc_set_unwait; eauto. }
    destruct (h_st hr) eqn:Est; try exact HP.
    - (* HYielded *)
      destruct (existsb _ _); [apply Leaf_plain; reflexivity|].
      assert (Hsend : forall b pre,
        PAcc buf (fst (if s_dropped s then (set_handlers s (set_hst k HDone (s_handlers s)), pre ++ [OExecReady k])
               else match s_permits s with
                    | S p => (set_handlers (set_respq (set_permits s p) (s_respq s ++ [mkresp (h_id hr) b]))
                                (set_hst k HDone (s_handlers (set_respq (set_permits s p) (s_respq s ++ [mkresp (h_id hr) b])))),
                              pre ++ [OExecReady k])
                    | O => (set_handlers (set_waiters s (s_waiters s ++ [k])) (set_hst k (HWait b) (s_handlers s)),
                            pre ++ [OExecPending k])
                    end))).
      { intros b pre. destruct (s_dropped s) eqn:ED; [apply Leaf_plain; reflexivity|].
        destruct (s_permits s) as [|p] eqn:EPm; cbn [fst]; unfold PAcc, PSum, PW, PSumc in *; sproj; rewrite ?EPm in *.
        - split.
          + intros _. specialize (NP (HWait b) _ _ Hk). rewrite Est in NP. cbn in NP. specialize (HS eq_refl). lia.
          + eapply PWc_set_wait; eauto. rewrite Est. reflexivity.
        - split.
          + intros _. specialize (NP HDone _ _ Hk). rewrite Est in NP. cbn in NP. specialize (HS eq_refl).
            rewrite app_length. cbn [length]. lia.
          + destruct HW as (A & B & D). assert (EW : s_waiters s = []).
            { destruct (s_waiters s); [reflexivity|]. discriminate D. discriminate. }
            rewrite EW in *. eapply PWc_set_plain; eauto; try (rewrite Est; reflexivity).
            split; [exact A|split; [exact B|intros X; congruence]]. }
      destruct hs; [apply Leaf_plain; reflexivity|apply Hsend|apply Hsend].
    - (* HRunning *)
      destruct (existsb _ _); [apply Leaf_plain; reflexivity|].
      assert (Hsend : forall b pre,
        PAcc buf (fst (if s_dropped s then (set_handlers s (set_hst k HDone (s_handlers s)), pre ++ [OExecReady k])
               else match s_permits s with
                    | S p => (set_handlers (set_respq (set_permits s p) (s_respq s ++ [mkresp (h_id hr) b]))
                                (set_hst k HDone (s_handlers (set_respq (set_permits s p) (s_respq s ++ [mkresp (h_id hr) b])))),
                              pre ++ [OExecReady k])
                    | O => (set_handlers (set_waiters s (s_waiters s ++ [k])) (set_hst k (HWait b) (s_handlers s)),
                            pre ++ [OExecPending k])
                    end))).
      { intros b pre. destruct (s_dropped s) eqn:ED; [apply Leaf_plain; reflexivity|].
        destruct (s_permits s) as [|p] eqn:EPm; cbn [fst]; unfold PAcc, PSum, PW, PSumc in *; sproj; rewrite ?EPm in *.
        - split.
          + intros _. specialize (NP (HWait b) _ _ Hk). rewrite Est in NP. cbn in NP. specialize (HS eq_refl). lia.
          + eapply PWc_set_wait; eauto. rewrite Est. reflexivity.
        - split.
          + intros _. specialize (NP HDone _ _ Hk). rewrite Est in NP. cbn in NP. specialize (HS eq_refl).
            rewrite app_length. cbn [length]. lia.
          + destruct HW as (A & B & D). assert (EW : s_waiters s = []).
            { destruct (s_waiters s); [reflexivity|]. discriminate D. discriminate. }
            rewrite EW in *. eapply PWc_set_plain; eauto; try (rewrite Est; reflexivity).
            split; [exact A|split; [exact B|intros X; congruence]]. }
      destruct hs; [apply Leaf_plain; reflexivity|apply Hsend|apply Hsend].
    - (* HWait *)
      destruct (existsb _ _); [apply Leaf_unwait; reflexivity|].
      destruct (s_dropped s); [apply Leaf_unwait; reflexivity|exact HP].
    - (* HPermit *)
      destruct (existsb _ _).
      + cbn [fst]. destruct (add_permit_waitst s k hr Hk) as (hr' & Hk' & Est'); [rewrite Est; reflexivity|].
        destruct (add_permit_shape s) as (_ & _ & _ & _ & _ & _ & _ & _ & P9 & _). cbv zeta in P9.
        unfold PAcc, PSum, PW, PSumc in *. sproj. split.
        * rewrite P9. intros Hd. specialize (NP HDone _ _ Hk'). rewrite Est', Est in NP. cbn in NP. specialize (HS Hd). lia.
        * eapply PWc_set_plain; eauto; rewrite ?Est', ?Est; reflexivity.
      + destruct (s_dropped s) eqn:ED; cbn [fst]; unfold PAcc, PSum, PW, PSumc in *; sproj.
        * split; [intros X; congruence|]. eapply PWc_set_plain; eauto; rewrite ?Est; reflexivity.
        * split.
          -- intros _. specialize (NP HDone _ _ Hk). rewrite Est in NP. cbn in NP. specialize (HS eq_refl).
             rewrite app_length. cbn [length]. lia.
          -- eapply PWc_set_plain; eauto; rewrite ?Est; reflexivity.
  Qed.
End Acc.

(* ================================================================== what the read side leaves alone *)
Section Frames.
  Context {T C : Type}.
  Variable tp : transport T response cmsg.
  Variable ctl : T -> C -> T.
  Variable tfuel : T -> nat.
  Notation st := (@sstate T).

  Definition RF (s s' : st) : Prop :=
    s_dropped s' = s_dropped s /\ s_permits s' = s_permits s /\ s_respq s' = s_respq s
    /\ s_handlers s' = s_handlers s /\ s_waiters s' = s_waiters s
    /\ s_next_h s <= s_next_h s'
    /\ (forall e, In e (s_inflight s') -> In e (s_inflight s) \/ s_next_h s <= e_h e)
    /\ (forall h, In h (s_aborted s) -> In h (s_aborted s')).

  Lemma RF_refl : forall s, RF s s.
  Proof. intros s. unfold RF. repeat split; auto. Qed.
  Lemma RF_trans : forall a b c, RF a b -> RF b c -> RF a c.
  Proof.
    intros a b c (A1 & A2 & A3 & A4 & A5 & A6 & A7 & A8) (B1 & B2 & B3 & B4 & B5 & B6 & B7 & B8).
    unfold RF. repeat split; try congruence; try lia; auto.
    intros e He. destruct (B7 e He) as [X|X]; [destruct (A7 e X); auto|right; lia].
  Qed.
  Lemma RF_eq : forall (s s' : st),
    s_dropped s' = s_dropped s -> s_permits s' = s_permits s -> s_respq s' = s_respq s ->
    s_handlers s' = s_handlers s -> s_waiters s' = s_waiters s -> s_next_h s' = s_next_h s ->
    (forall e, In e (s_inflight s') -> In e (s_inflight s)) ->
    (forall h, In h (s_aborted s) -> In h (s_aborted s')) -> RF s s'.
  Proof. intros s s' E1 E2 E3 E4 E5 E6 E7 E8. unfold RF. repeat split; auto. lia. Qed.

  Lemma in_drop_entry : forall id e l, In e (drop_entry id l) -> In e l /\ e_id e <> id.
  Proof.
    intros id e l H. unfold drop_entry in H. apply filter_In in H. destruct H as [A B]. split; [exact A|].
    apply negb_true_iff in B. apply N.eqb_neq in B. exact B.
  Qed.

  Lemma RF_core : forall (s s' : st), same_core s s' -> s_respq s' = s_respq s -> s_permits s' = s_permits s ->
    s_waiters s' = s_waiters s -> RF s s'.
  Proof.
    intros s s' (C1 & C2 & C3 & C4 & C5 & C6 & C7 & C8) Q P W. apply RF_eq; auto.
    - intros e. rewrite C3. auto.
    - intros h. rewrite C5. auto.
  Qed.

  Lemma RF_do_ready : forall (s : st) r s', do_ready tp s = (r, s') -> RF s s'.
  Proof. intros s r s' H. destruct (do_ready_core tp _ _ _ H) as (A & _ & Q & P & W & _). apply RF_core; auto. Qed.
  Lemma RF_do_flush : forall (s : st) r s', do_flush tp s = (r, s') -> RF s s'.
  Proof. intros s r s' H. destruct (do_flush_core tp _ _ _ H) as (A & _ & Q & P & W & _). apply RF_core; auto. Qed.
  Lemma RF_do_next : forall (s : st) r s', do_next tp s = (r, s') -> RF s s'.
  Proof. intros s r s' H. destruct (do_next_core tp _ _ _ H) as (A & _ & Q & P & W & _). apply RF_core; auto. Qed.

  Lemma RF_remove_request : forall id (s : st), RF s (snd (remove_request id s)).
  Proof.
    intros id s. destruct (remove_request_shape id s) as [(_ & -> & _)|(_ & _ & B1 & B2 & B3 & B4 & B5 & B6 & B7 & B8 & B9 & B10 & B11 & B12 & _)];
      cbv zeta in *; [apply RF_refl|].
    apply RF_eq; auto.
    - intros e. rewrite B1. intros He. apply in_drop_entry in He. tauto.
    - intros h. rewrite B5. auto.
  Qed.
  Lemma RF_cancel_request : forall id (s : st), RF s (cancel_request id s).
  Proof.
    intros id s. destruct (cancel_request_shape id s) as [(-> & _)|(e0 & _ & B1 & B2 & B3 & B4 & B5 & B6 & B7 & B8 & B9 & B10 & B11 & B12 & _)];
      cbv zeta in *; [apply RF_refl|].
    apply RF_eq; auto.
    - intros e. rewrite B1. intros He. apply in_drop_entry in He. tauto.
    - intros h. rewrite B3. intros Hh. right. exact Hh.
  Qed.
  Lemma RF_poll_expired : forall (s : st) r s', poll_expired s = (r, s') -> RF s s'.
  Proof.
    intros s r s' H. destruct (poll_expired_shape _ _ _ H) as (A1 & A2 & A3 & A4 & A5 & A6 & A7 & A8 & A9 & _ & _ & HH).
    apply RF_eq; auto.
    - destruct HH as [(_ & B & _)|(_ & id & w & _ & _ & _ & B & _)]; intros e; rewrite B; auto.
      intros He. apply in_drop_entry in He. tauto.
    - destruct HH as [(_ & _ & _ & B & _)|(_ & id & w & _ & _ & _ & _ & B)]; intros h; rewrite B; auto.
      destruct (find_entry id s); [intros; right; assumption|auto].
  Qed.
  Lemma RF_start_request : forall id dl (s : st) h s', start_request id dl s = Some (h, s') -> RF s s'.
  Proof.
    intros id dl s h s' H.
    destruct (start_request_shape _ _ _ _ _ H) as (_ & Hh & B1 & _ & B3 & B4 & B5 & _ & _ & B8 & _ & B10 & B11 & B12 & _).
    unfold RF. rewrite B3, B4, B5, B8, B10, B11, B12. repeat split; auto.
    intros e. rewrite B1, in_app_iff. intros [He|[<-|[]]]; [left; exact He|right]. cbn. lia.
  Qed.
  Lemma RF_fields : forall (s s' : st),
    s_dropped s' = s_dropped s -> s_permits s' = s_permits s -> s_respq s' = s_respq s ->
    s_handlers s' = s_handlers s -> s_waiters s' = s_waiters s -> s_next_h s' = s_next_h s ->
    s_inflight s' = s_inflight s -> s_aborted s' = s_aborted s -> RF s s'.
  Proof. intros s s' E1 E2 E3 E4 E5 E6 E7 E8. apply RF_eq; auto; intros x; rewrite ?E7, ?E8; auto. Qed.

  Lemma RF_base : forall f (s : st) r s', base_poll_next tp f s = (r, s') -> RF s s'.
  Proof.
    induction f as [|f IH]; intros s r s' H; cbn [base_poll_next] in H; [injection H as _ <-; apply RF_refl|].
    set (cs := match s_cancels s with
               | id :: r0 => (RSReady, snd (remove_request id (set_cancels s r0)))
               | [] => (RSClosed, s) end) in H.
    assert (Hc : RF s (snd cs)).
    { subst cs. destruct (s_cancels s) as [|id r0]; cbn [snd]; [apply RF_refl|].
      eapply RF_trans; [|apply RF_remove_request]. apply RF_fields; reflexivity. }
    destruct cs as [cst s1]. cbn [snd] in Hc.
    destruct (poll_expired s1) as [est s2] eqn:EE. pose proof (RF_poll_expired _ _ _ EE) as He.
    assert (R02 : RF s s2) by (eapply RF_trans; eassumption).
    assert (Hfin : forall rst sx, RF s sx ->
              match combine (combine cst est) rst with
              | RSReady => base_poll_next tp f sx
              | RSClosed => (PEnd, sx)
              | RSPending => (PPending, sx)
              end = (r, s') -> RF s s').
    { intros rst sx Rx HH. destruct (combine (combine cst est) rst).
      - eapply RF_trans; [exact Rx|exact (IH _ _ _ HH)].
      - injection HH as _ <-. exact Rx.
      - injection HH as _ <-. exact Rx. }
    destruct (s_fused s2).
    - exact (Hfin RSClosed s2 R02 H).
    - destruct (do_next tp s2) as [rr s3] eqn:EN. pose proof (RF_do_next _ _ _ EN) as Rn.
      assert (R03 : RF s s3) by (eapply RF_trans; eassumption).
      destruct rr as [m| | |].
      + destruct m as [id dl tr body|id tr].
        * destruct (start_request id dl s3) as [[h s4]|] eqn:ES.
          -- injection H as _ <-. eapply RF_trans; [exact R03|exact (RF_start_request _ _ _ _ _ ES)].
          -- eapply RF_trans; [exact R03|exact (IH _ _ _ H)].
        * apply (Hfin RSReady (cancel_request id s3)); [|exact H].
          eapply RF_trans; [exact R03|apply RF_cancel_request].
      + injection H as _ <-. exact R03.
      + apply (Hfin RSClosed (set_fused s3 true)); [|exact H].
        eapply RF_trans; [exact R03|apply RF_fields; reflexivity].
      + exact (Hfin RSPending s3 R03 H).
  Qed.

  Lemma RF_start_send : forall m (s : st) e s', base_start_send tp m s = (e, s') -> RF s s'.
  Proof.
    intros m s e s' H.
    destruct (base_start_send_shape tp _ _ _ _ H) as [(_ & _ & ->)|(en & r & _ & _ & B1 & B2 & B3 & B4 & B5 & B6 & B7 & B8 & B9 & B10 & B11 & B12 & _)];
      [apply RF_refl|].
    apply RF_eq; auto.
    - intros x. rewrite B1. intros He. apply in_drop_entry in He. tauto.
    - intros h. rewrite B5. auto.
  Qed.

  Lemma RF_maxreq : forall f limit (s : st) r s', maxreq_poll_next tp f limit s = (r, s') -> RF s s'.
  Proof.
    induction f as [|f IH]; intros limit s r s' H; cbn [maxreq_poll_next] in H; [injection H as _ <-; apply RF_refl|].
    destruct (limit <=? length (s_inflight s)); [|exact (RF_base _ _ _ _ H)].
    destruct (do_ready tp s) as [x s1] eqn:ER. pose proof (RF_do_ready _ _ _ ER) as R1.
    destruct x; try (injection H as _ <-; exact R1).
    destruct (base_poll_next tp (S f) s1) as [y s2] eqn:EB. pose proof (RF_base _ _ _ _ EB) as R2.
    assert (R02 : RF s s2) by (eapply RF_trans; eassumption).
    destruct y as [q| | | |]; try (injection H as _ <-; exact R02).
    destruct (base_start_send tp (mkresp (q_id q) BThrottle) s2) as [e s3] eqn:ESS.
    pose proof (RF_start_send _ _ _ _ ESS) as R3.
    assert (R03 : RF s s3) by (eapply RF_trans; eassumption).
    destruct e; [injection H as _ <-; exact R03|].
    eapply RF_trans; [exact R03|exact (IH _ _ _ _ H)].
  Qed.

  Lemma RF_pump_read : forall c f (s : st) r s', pump_read tp c f s = (r, s') -> RF s s'.
  Proof. intros c f s r s' H. unfold pump_read in H. destruct (cfg_limit c); [eapply RF_maxreq|eapply RF_base]; eauto. Qed.

  Lemma RF_ensure : forall (s : st) w s', ensure_writeable tp s = (w, s') -> RF s s'.
  Proof.
    intros s w s' H. unfold ensure_writeable in H.
    destruct (do_ready tp s) as [r s1] eqn:E1. pose proof (RF_do_ready _ _ _ E1) as R1.
    destruct r; try (injection H as _ <-; exact R1).
    destruct (do_flush tp s1) as [f s2] eqn:E2. pose proof (RF_do_flush _ _ _ E2) as R2.
    destruct f; try (injection H as _ <-; eapply RF_trans; eassumption).
    destruct (do_ready tp s2) as [r2 s3] eqn:E3. pose proof (RF_do_ready _ _ _ E3) as R3.
    destruct r2; injection H as _ <-; (eapply RF_trans; [exact R1|eapply RF_trans; eassumption]).
  Qed.

  (* ---- the accounting through a poll ------------------------------------------------------ *)
  Lemma PAcc_RF : forall buf (s s' : st), PAcc buf s -> RF s s' -> PAcc buf s'.
  Proof. intros buf s s' H (A1 & A2 & A3 & A4 & A5 & _). eapply PAcc_frame; eauto. Qed.

  Lemma pump_write_acc : forall buf rc (s : st) w s', PAcc buf s -> pump_write tp rc s = (w, s') -> PAcc buf s'.
  Proof.
    intros buf rc s w s' HP H. unfold pump_write, poll_next_response in H.
    destruct (ensure_writeable tp s) as [x s1] eqn:EW. pose proof (PAcc_RF _ _ _ HP (RF_ensure _ _ _ EW)) as HP1.
    assert (Hfl : forall x0, (let '(f, s2) := do_flush tp s1 in
              match f with
              | TErr => (PErr AFlush, s2)
              | TPending => (PPending, s2)
              | TOk => match x0 : pres response with
                       | PEnd => (PEnd, s2)
                       | _ => if rc && Nat.eqb (length (s_inflight s2)) 0 then (PEnd, s2) else (PPending, s2)
                       end
              end) = (w, s') -> PAcc buf s').
    { intros x0 HH. destruct (do_flush tp s1) as [f s2] eqn:EF. pose proof (PAcc_RF _ _ _ HP1 (RF_do_flush _ _ _ EF)) as HP2.
      destruct f; [destruct x0; try destruct (rc && _)| |]; injection HH as _ <-; exact HP2. }
    destruct x as [| |a].
    - destruct (s_respq s1) as [|m q] eqn:EQ; [exact (Hfl PPending H)|].
      destruct (base_start_send tp m (add_permit (set_respq s1 q))) as [e s2] eqn:ES.
      assert (HPa : PAcc buf (add_permit (set_respq s1 q))).
      { destruct HP1 as (HS & HW).
        destruct (add_permit_acc (set_respq s1 q)) as (HWp & HSp); [exact HW|].
        destruct (add_permit_shape (set_respq s1 q)) as (_ & _ & _ & _ & _ & _ & _ & _ & P9 & _). cbv zeta in P9.
        split; [|exact HWp]. rewrite P9. sproj. intros Hd. rewrite HSp. specialize (HS Hd).
        unfold PSum, PSumc in *. sproj. rewrite EQ in HS. cbn [length] in HS. lia. }
      pose proof (PAcc_RF _ _ _ HPa (RF_start_send _ _ _ _ ES)) as HP2.
      destruct e; injection H as _ <-; exact HP2.
    - exact (Hfl PPending H).
    - injection H as _ <-. exact HP1.
  Qed.

  Lemma requests_acc : forall buf c f (s : st) r s', PAcc buf s -> requests_poll_next tp c f s = (r, s') -> PAcc buf s'.
  Proof.
    intros buf c f; induction f as [|f IH]; intros s r s' HP H; cbn [requests_poll_next] in H; [injection H as _ <-; exact HP|].
    destruct (pump_read tp c (S f) s) as [rd s1] eqn:ER. pose proof (PAcc_RF _ _ _ HP (RF_pump_read _ _ _ _ _ ER)) as HP1.
    destruct rd as [q| |a| |]; try (injection H as _ <-; exact HP1).
    all: match type of H with context [pump_write tp ?b ?sx] =>
           destruct (pump_write tp b sx) as [wr s2] eqn:EW;
           pose proof (pump_write_acc _ _ _ _ _ HP1 EW) as HP2 end.
    - destruct wr as [u| |a| |]; injection H as _ <-; exact HP2.
    - destruct wr as [u| |a| |]; try (injection H as _ <-; exact HP2). exact (IH _ _ _ HP2 H).
    - destruct wr as [u| |a| |]; try (injection H as _ <-; exact HP2). exact (IH _ _ _ HP2 H).
  Qed.

  Lemma poll_requests_acc : forall buf c (s : st), PAcc buf s -> PAcc buf (fst (poll_requests tp tfuel c s)).
  Proof.
    intros buf c s HP. unfold poll_requests. destruct (s_dropped s); [exact HP|].
    destruct (requests_poll_next tp c (poll_fuel tfuel s) (set_log s [])) as [r s1] eqn:ER.
    assert (HP0 : PAcc buf (set_log s [])) by (eapply PAcc_frame; [exact HP|reflexivity..]).
    pose proof (requests_acc _ _ _ _ _ _ HP0 ER) as HP1.
    destruct r; cbn [fst]; try exact HP1.
    destruct HP1 as (HS & (A & B & D)). unfold PAcc, PSum, PW, PSumc, PWc in *. sproj. split.
    - intros Hd. rewrite nperm_app. cbn. specialize (HS Hd). lia.
    - split; [|split; assumption]. intros k. rewrite (A k). symmetry. apply waitk_app. reflexivity.
  Qed.

  Lemma drop_handler_acc : forall buf k (s : st), PAcc buf s -> PAcc buf (fst (drop_handler k s)).
  Proof.
    intros buf k s (HS & HW). assert (HP : PAcc buf s) by (split; assumption). unfold drop_handler.
    destruct (nth_error (s_handlers s) k) as [hr|] eqn:Hk; [|exact HP].
    pose proof (nperm_set_hst k) as NP.
    assert (Hg : forall (sx : st), PAcc buf sx -> PAcc buf (guard_cancel (h_id hr) sx)).
    { intros sx X. unfold guard_cancel. destruct (s_dropped sx); [exact X|]. eapply PAcc_frame; [exact X|reflexivity..]. }
    destruct (h_st hr) eqn:Est; try exact HP; cbn [fst]; apply Hg.
    - unfold PAcc, PSum, PW, PSumc in *. sproj. split.
      + intros Hd. specialize (NP HGone _ _ Hk). rewrite Est in NP. cbn in NP. specialize (HS Hd). lia.
      + eapply PWc_set_plain; eauto; rewrite ?Est; reflexivity.
    - unfold PAcc, PSum, PW, PSumc in *. sproj. split.
      + intros Hd. specialize (NP HGone _ _ Hk). rewrite Est in NP. cbn in NP. specialize (HS Hd). lia.
      + eapply PWc_set_unwait; eauto; rewrite ?Est; reflexivity.
    - destruct (add_permit_acc s HW) as (HWp & HSp).
      destruct (add_permit_waitst s k hr Hk) as (hr' & Hk' & Est'); [rewrite Est; reflexivity|].
      destruct (add_permit_shape s) as (_ & _ & _ & _ & _ & _ & _ & _ & P9 & _). cbv zeta in P9.
      unfold PAcc, PSum, PW, PSumc in *. sproj. split.
      + rewrite P9. intros Hd. specialize (NP HGone _ _ Hk'). rewrite Est', Est in NP. cbn in NP. specialize (HS Hd). lia.
      + eapply PWc_set_plain; eauto; rewrite ?Est', ?Est; reflexivity.
  Qed.

  Lemma drop_yielded_acc : forall buf k (s : st), PAcc buf s -> PAcc buf (fst (drop_yielded k s)).
  Proof.
    intros buf k s (HS & HW). assert (HP : PAcc buf s) by (split; assumption). unfold drop_yielded.
    destruct (nth_error (s_handlers s) k) as [[h i x]|] eqn:Hk; [|exact HP].
    destruct x; try exact HP. cbn [fst]. unfold guard_cancel. sproj.
    pose proof (nperm_set_hst k HGone _ _ Hk) as NP. cbn in NP.
    assert (X : PAcc buf (set_handlers s (set_hst k HGone (s_handlers s)))).
    { unfold PAcc, PSum, PW, PSumc in *. sproj. split; [intros Hd; specialize (HS Hd); lia|].
      eapply PWc_set_plain; eauto. }
    destruct (s_dropped s); [exact X|eapply PAcc_frame; [exact X|reflexivity..]].
  Qed.

  Lemma PAcc_step : forall c (s : st) p, PAcc (cfg_buf c) s -> PAcc (cfg_buf c) (fst (step tp ctl tfuel c s p)).
  Proof.
    intros c s p HP. unfold step. destruct p as [|x|k hs|k|k| |dt].
    - pose proof (poll_requests_acc _ c s HP) as X. destruct (poll_requests tp tfuel c s). exact X.
    - cbn [fst]. eapply PAcc_frame; [exact HP|reflexivity..].
    - pose proof (execute_poll_acc _ k hs s HP) as X. destruct (execute_poll k hs s). exact X.
    - pose proof (drop_handler_acc _ k s HP) as X. destruct (drop_handler k s). exact X.
    - pose proof (drop_yielded_acc _ k s HP) as X. destruct (drop_yielded k s). exact X.
    - cbn [fst]. unfold drop_channel. destruct (s_dropped s) eqn:ED; [exact HP|].
      destruct HP as (HS & HW). split; [sproj; discriminate|exact HW].
    - cbn [fst]. eapply PAcc_frame; [exact HP|reflexivity..].
  Qed.

  Lemma PAcc_init : forall c (t0 : T), PAcc (cfg_buf c) (init c t0).
  Proof.
    intros c t0. unfold PAcc, PSum, PW, PSumc, PWc, init. sproj. split; [intros _; cbn; lia|].
    split; [|split; [constructor|intros X; congruence]].
    intros k. split; [intros []|]. intros (hr & A & _). destruct k; discriminate.
  Qed.
End Frames.

(* ================================================================== buffered responses of tracked requests *)
Section Queue.
  Context {T C : Type}.
  Variable tp : transport T response cmsg.
  Variable ctl : T -> C -> T.
  Variable tfuel : T -> nat.
  Notation st := (@sstate T).

  Definition qids (s : st) : list N := map resp_id (s_respq s).

  Definition QPm (s : st) : Prop :=
    forall k hr e, nth_error (s_handlers s) k = Some hr -> h_st hr = HDone ->
      In e (s_inflight s) -> e_h e = h_h hr ->
      In (h_h hr) (s_aborted s) \/ s_dropped s = true \/ In (e_id e) (qids s).

  Definition QL (n0 : nat) (s : st) : Prop :=
    n0 <= s_next_h s /\ (forall hr, In hr (s_handlers s) -> h_h hr < n0) /\ QPm s.

  Lemma QL_RF : forall n0 (s s' : st), QL n0 s -> RF s s' -> QL n0 s'.
  Proof.
    intros n0 s s' (L & F & Q) (A1 & A2 & A3 & A4 & A5 & A6 & A7 & A8). unfold QL, QPm, qids in *.
    rewrite A1, A3, A4. split; [lia|split; [exact F|]].
    intros k hr e Hk Hd He Hh. destruct (A7 e He) as [X|X].
    - destruct (Q k hr e Hk Hd X Hh) as [Y|[Y|Y]]; auto.
    - exfalso. apply nth_error_In in Hk. specialize (F hr Hk). lia.
  Qed.

  Lemma find_entry_none_in : forall id (s : st) e, find_entry id s = None -> In e (s_inflight s) -> e_id e <> id.
  Proof.
    intros id s e H He Heq. unfold find_entry in H.
    pose proof (find_none _ _ H e He) as X. cbn in X. rewrite Heq, N.eqb_refl in X. discriminate.
  Qed.

  (* a response leaves the queue *)
  Lemma QL_pop : forall n0 (s1 : st) m q e s2,
    QL n0 s1 -> s_respq s1 = m :: q ->
    base_start_send tp m (add_permit (set_respq s1 q)) = (e, s2) -> QL n0 s2.
  Proof.
    intros n0 s1 m q e s2 (L & F & Q) EQ ES.
    destruct (add_permit_shape (set_respq s1 q)) as (P1 & P2 & P3 & P4 & P5 & P6 & P7 & P8 & P9 & P10 & P11 & P12 & P13).
    cbv zeta in *. sproj. set (sa := add_permit (set_respq s1 q)) in *.
    assert (Hsh : s_next_h s2 = s_next_h sa /\ s_handlers s2 = s_handlers sa /\ s_aborted s2 = s_aborted sa
                  /\ s_dropped s2 = s_dropped sa /\ s_respq s2 = s_respq sa
                  /\ forall x, In x (s_inflight s2) -> In x (s_inflight sa) /\ e_id x <> resp_id m).
    { destruct (base_start_send_shape tp _ _ _ _ ES) as [(Hn & _ & ->)|(en & r & _ & _ & B1 & B2 & B3 & B4 & B5 & B6 & B7 & B8 & B9 & B10 & _)].
      - repeat split; auto. eapply find_entry_none_in; eauto.
      - repeat split; auto; rewrite B1 in H; apply in_drop_entry in H; tauto. }
    destruct Hsh as (S1 & S2 & S3 & S4 & S5 & S6).
    unfold QL, QPm, qids. rewrite S1, S2, S3, S4, S5, P3, P6, P9, P11. split; [exact L|split].
    - intros hr' Hin. assert (X : In (h_h hr') (map h_h (s_handlers sa))) by (apply in_map; exact Hin).
      rewrite P1 in X. apply in_map_iff in X. destruct X as (hr & E & Hr). rewrite <- E. exact (F hr Hr).
    - intros k hr' x Hk Hd Hx Hh. destruct (P2 k hr' Hk) as (hr & Hk0 & Ehh & _ & Est).
      assert (Hd0 : h_st hr = HDone).
      { destruct Est as [X|(b & _ & X)]; [congruence|]. rewrite X in Hd. discriminate. }
      destruct (S6 x Hx) as (Hx0 & Nid). rewrite P4 in Hx0.
      destruct (Q k hr x Hk0 Hd0 Hx0) as [Y|[Y|Y]]; [congruence|left; congruence|right; left; exact Y|].
      right; right. unfold qids in Y. rewrite EQ in Y. cbn [map In] in Y. destruct Y as [Y|Y]; [congruence|exact Y].
  Qed.

  Lemma QL_pump_write : forall n0 rc (s : st) w s', QL n0 s -> pump_write tp rc s = (w, s') -> QL n0 s'.
  Proof.
    intros n0 rc s w s' HQ H. unfold pump_write, poll_next_response in H.
    destruct (ensure_writeable tp s) as [x s1] eqn:EW. pose proof (QL_RF _ _ _ HQ (RF_ensure tp _ _ _ EW)) as HQ1.
    assert (Hfl : forall x0, (let '(f, s2) := do_flush tp s1 in
              match f with
              | TErr => (PErr AFlush, s2)
              | TPending => (PPending, s2)
              | TOk => match x0 : pres response with
                       | PEnd => (PEnd, s2)
                       | _ => if rc && Nat.eqb (length (s_inflight s2)) 0 then (PEnd, s2) else (PPending, s2)
                       end
              end) = (w, s') -> QL n0 s').
    { intros x0 HH. destruct (do_flush tp s1) as [f s2] eqn:EF. pose proof (QL_RF _ _ _ HQ1 (RF_do_flush tp _ _ _ EF)) as HQ2.
      destruct f; [destruct x0; try destruct (rc && _)| |]; injection HH as _ <-; exact HQ2. }
    destruct x as [| |a].
    - destruct (s_respq s1) as [|m q] eqn:EQ; [exact (Hfl PPending H)|].
      destruct (base_start_send tp m (add_permit (set_respq s1 q))) as [e s2] eqn:ES.
      pose proof (QL_pop _ _ _ _ _ _ HQ1 EQ ES) as HQ2.
      destruct e; injection H as _ <-; exact HQ2.
    - exact (Hfl PPending H).
    - injection H as _ <-. exact HQ1.
  Qed.

  Lemma QL_requests : forall n0 c f (s : st) r s', QL n0 s -> requests_poll_next tp c f s = (r, s') -> QL n0 s'.
  Proof.
    intros n0 c f; induction f as [|f IH]; intros s r s' HQ H; cbn [requests_poll_next] in H; [injection H as _ <-; exact HQ|].
    destruct (pump_read tp c (S f) s) as [rd s1] eqn:ER. pose proof (QL_RF _ _ _ HQ (RF_pump_read tp _ _ _ _ _ ER)) as HQ1.
    destruct rd as [q| |a| |]; try (injection H as _ <-; exact HQ1).
    all: match type of H with context [pump_write tp ?b ?sx] =>
           destruct (pump_write tp b sx) as [wr s2] eqn:EW;
           pose proof (QL_pump_write _ _ _ _ _ HQ1 EW) as HQ2 end.
    - destruct wr as [u| |a| |]; injection H as _ <-; exact HQ2.
    - destruct wr as [u| |a| |]; try (injection H as _ <-; exact HQ2). exact (IH _ _ _ HQ2 H).
    - destruct wr as [u| |a| |]; try (injection H as _ <-; exact HQ2). exact (IH _ _ _ HQ2 H).
  Qed.

  Lemma QPm_poll_requests : forall c (s : st),
    QPm s -> (forall hr, In hr (s_handlers s) -> h_h hr < s_next_h s) -> QPm (fst (poll_requests tp tfuel c s)).
  Proof.
    intros c s HQ HF. unfold poll_requests. destruct (s_dropped s); [exact HQ|].
    destruct (requests_poll_next tp c (poll_fuel tfuel s) (set_log s [])) as [r s1] eqn:ER.
    assert (HQ0 : QL (s_next_h s) (set_log s [])) by (split; [sproj; lia|split; [exact HF|exact HQ]]).
    destruct (QL_requests _ _ _ _ _ _ HQ0 ER) as (_ & _ & HQ1).
    destruct r; cbn [fst]; try exact HQ1.
    intros k hr e Hk Hd He Hh. unfold qids in *. sproj.
    destruct (Nat.lt_ge_cases k (length (s_handlers s1))) as [L|L].
    - rewrite nth_error_app1 in Hk by exact L. exact (HQ1 k hr e Hk Hd He Hh).
    - rewrite nth_error_app2 in Hk by exact L. destruct (k - length (s_handlers s1)) as [|n]; cbn in Hk.
      + inversion Hk; subst hr. discriminate.
      + destruct n; discriminate.
  Qed.

  (* ---- handler ops ------------------------------------------------------------------------- *)
  Lemma QPm_hshape : forall (s s1 : st) k hr st',
    QPm s -> nth_error (s_handlers s) k = Some hr -> hshape k hr st' s s1 ->
    s_inflight s1 = s_inflight s -> (forall h, In h (s_aborted s) -> In h (s_aborted s1)) ->
    (s_dropped s = true -> s_dropped s1 = true) -> (forall id, In id (qids s) -> In id (qids s1)) ->
    (st' = HDone -> h_st hr = HDone \/ In (h_h hr) (s_aborted s1) \/ s_dropped s1 = true
                    \/ forall e, In e (s_inflight s) -> e_h e = h_h hr -> In (e_id e) (qids s1)) ->
    QPm s1.
  Proof.
    intros s s1 k hr st' HQ Hk (Hm & Hsh) Hi Ha Hd Hq Hwhy j hr' e Hj Hdn He Hh. rewrite Hi in He.
    destruct (nth_map_hh _ _ j hr' Hm Hj) as (hr0 & Hj0 & Ehh).
    assert (Old : h_st hr0 = HDone -> In (h_h hr') (s_aborted s1) \/ s_dropped s1 = true \/ In (e_id e) (qids s1)).
    { intros X. destruct (HQ j hr0 e Hj0 X He) as [Y|[Y|Y]]; [congruence|left; rewrite <- Ehh; auto|auto|auto]. }
    destruct (Hsh j hr' Hj) as [(-> & _ & Hst)|(Hne & hr0' & Hj0' & _ & Hst)].
    - rewrite Hk in Hj0. inversion Hj0; subst hr0.
      destruct (Hwhy ltac:(congruence)) as [X|[X|[X|X]]]; [exact (Old X)|left; congruence|auto|].
      right; right. apply X; [exact He|congruence].
    - rewrite Hj0 in Hj0'. inversion Hj0'; subst hr0'. apply Old.
      destruct Hst as [X|(b & _ & X)]; [congruence|]. rewrite X in Hdn. discriminate.
  Qed.

  (* why an execute() future that was still running has returned *)
  Lemma execute_done_why : forall k hs (s s1 : st) body hr hr1,
    execute_poll k hs s = (s1, body) -> nth_error (s_handlers s) k = Some hr -> h_st hr <> HDone ->
    nth_error (s_handlers s1) k = Some hr1 -> h_st hr1 = HDone ->
    In (h_h hr) (s_aborted s) \/ s_dropped s = true \/ exists b, s_respq s1 = s_respq s ++ [mkresp (h_id hr) b].
  Proof.
    intros k hs s s1 body hr hr1 H Hk Hnd Hk1 Hd1. unfold execute_poll in H. rewrite Hk in H.
    destruct (existsb (Nat.eqb (h_h hr)) (s_aborted s)) eqn:EA.
    { left. apply existsb_exists in EA. destruct EA as (h & Hin & E). apply Nat.eqb_eq in E. subst h. exact Hin. }
    destruct (s_dropped s) eqn:ED; [right; left; reflexivity|].
    right; right.
    assert (Contra : forall x, x <> HDone -> nth_error (set_hst k x (s_handlers s)) k = Some hr1 -> False).
    { intros x Nx Hx. rewrite (set_hst_same _ x _ _ Hk) in Hx. inversion Hx; subst hr1. cbn in Hd1. congruence. }
    destruct (h_st hr) eqn:Est; try congruence.
    - destruct hs; [|destruct (s_permits s)..]; injection H as <- <-; sproj;
        try (exfalso; eapply Contra; [|exact Hk1]; discriminate); eexists; reflexivity.
    - destruct hs; [|destruct (s_permits s)..]; injection H as <- <-; sproj;
        try (exfalso; eapply Contra; [|exact Hk1]; discriminate); eexists; reflexivity.
    - injection H as <- <-. sproj. eexists; reflexivity.
  Qed.

  Lemma QPm_execute_poll : forall o k hs (s : st),
    InvU o s -> QPm s -> QPm (fst (execute_poll k hs s)).
  Proof.
    intros o k hs s HI HQ. destruct (execute_poll k hs s) as [s1 body] eqn:EE. cbn [fst].
    destruct (nth_error (s_handlers s) k) as [hr|] eqn:Hk.
    2: { unfold execute_poll in EE. rewrite Hk in EE. injection EE as <- _. exact HQ. }
    destruct (execute_poll_summary k hs s s1 body hr EE Hk) as [(-> & _)|Hch]; [exact HQ|].
    destruct Hch as (st' & push & Hun & _ & Hsh & Hinf & Hab & Hcan & Hdr & Hq & Hpush).
    apply (QPm_hshape s s1 k hr st' HQ Hk Hsh Hinf).
    - intros h. rewrite Hab. auto.
    - rewrite Hdr. auto.
    - intros id. unfold qids. rewrite Hq, map_app, in_app_iff. auto.
    - intros ->. right.
      assert (Hk1 : exists hr1, nth_error (s_handlers s1) k = Some hr1 /\ h_st hr1 = HDone).
      { destruct Hsh as (Hm & Hsh). assert (L : k < length (s_handlers s1)).
        { rewrite <- (map_length h_h), Hm, map_length. apply nth_error_Some. congruence. }
        apply nth_error_Some in L. destruct (nth_error (s_handlers s1) k) as [hr1|] eqn:E1; [|congruence].
        exists hr1. split; [reflexivity|]. destruct (Hsh k hr1 E1) as [(_ & _ & X)|(N & _)]; [exact X|congruence]. }
      destruct Hk1 as (hr1 & Hk1 & Hd1).
      assert (Hnd : h_st hr <> HDone) by (intros X; rewrite X in Hun; exact Hun).
      destruct (execute_done_why k hs s s1 body hr hr1 EE Hk Hnd Hk1 Hd1) as [X|[X|(b & X)]].
      + left. rewrite Hab. exact X.
      + right; left. rewrite Hdr. exact X.
      + right; right. intros e He Hh. unfold qids. rewrite X, map_app, in_app_iff. right. cbn. left.
        (* the entry of a handler bears the handler's id *)
        destruct (u_owner _ _ HI e He) as [(k' & hr' & oi' & A' & B' & C' & D' & _)|(_ & Hno)].
        * assert (k' = k) by (eapply NoDup_map_nth_inj; [exact (u_hnodup _ _ HI)|exact A'|exact Hk|congruence]).
          subst k'. rewrite Hk in A'. inversion A'; subst hr'.
          destruct (u_hand _ _ HI k hr oi' Hk B') as (E & _). congruence.
        * exfalso. apply (Hno hr); [eapply nth_error_In; eauto|symmetry; exact Hh].
  Qed.

  Lemma QPm_frame : forall (s s' : st),
    QPm s -> s_handlers s' = s_handlers s -> s_inflight s' = s_inflight s -> s_aborted s' = s_aborted s ->
    s_dropped s' = s_dropped s -> s_respq s' = s_respq s -> QPm s'.
  Proof. intros s s' H E1 E2 E3 E4 E5. unfold QPm, qids in *. rewrite E1, E2, E3, E4, E5. exact H. Qed.

  Lemma QPm_drop_handler : forall k (s : st), QPm s -> QPm (fst (drop_handler k s)).
  Proof.
    intros k s HQ. unfold drop_handler.
    destruct (nth_error (s_handlers s) k) as [hr|] eqn:Hk; [|exact HQ].
    destruct (add_permit_shape s) as (P1 & P2 & P3 & P4 & P5 & P6 & P7 & P8 & P9 & P10 & P11 & P12 & P13).
    cbv zeta in *.
    assert (Hg : forall (sx : st), QPm sx -> QPm (guard_cancel (h_id hr) sx)).
    { intros sx X. unfold guard_cancel. destruct (s_dropped sx); [exact X|]. eapply QPm_frame; [exact X|reflexivity..]. }
    assert (Leaf : forall (sx s0 : st), (sx = s \/ sx = add_permit s) ->
              s_handlers s0 = set_hst k HGone (s_handlers sx) -> s_inflight s0 = s_inflight s ->
              s_aborted s0 = s_aborted s -> s_dropped s0 = s_dropped s -> s_respq s0 = s_respq s -> QPm s0).
    { intros sx s0 Hsx Hh Hi Ha Hd Hq.
      assert (Hsh : hshape k hr HGone s s0).
      { destruct Hsx as [->| ->]; [eapply (hshape_set s s); eauto; apply hrel_refl|eapply (hshape_set s (add_permit s)); eauto]. }
      apply (QPm_hshape s s0 k hr HGone HQ Hk Hsh Hi).
      - intros h. rewrite Ha. auto.
      - rewrite Hd. auto.
      - intros id. unfold qids. rewrite Hq. auto.
      - discriminate. }
    destruct (h_st hr); try exact HQ; cbn [fst]; apply Hg.
    - apply (Leaf s); auto.
    - apply (Leaf s); auto.
    - apply (Leaf (add_permit s)); auto.
  Qed.

  Lemma QPm_drop_yielded : forall k (s : st), QPm s -> QPm (fst (drop_yielded k s)).
  Proof.
    intros k s HQ. unfold drop_yielded.
    destruct (nth_error (s_handlers s) k) as [[h i x]|] eqn:Hk; [|exact HQ].
    destruct x; try exact HQ. cbn [fst].
    assert (X : QPm (set_handlers s (set_hst k HGone (s_handlers s)))).
    { assert (Hsh : hshape k {| h_h := h; h_id := i; h_st := HYielded |} HGone s (set_handlers s (set_hst k HGone (s_handlers s)))).
      { eapply (hshape_set s s); eauto. apply hrel_refl. }
      apply (QPm_hshape _ _ _ _ _ HQ Hk Hsh); auto. discriminate. }
    unfold guard_cancel. sproj. destruct (s_dropped s); [exact X|eapply QPm_frame; [exact X|reflexivity..]].
  Qed.

  Lemma QPm_step : forall o c (s : st) p,
    InvU o s -> QPm s -> QPm (fst (step tp ctl tfuel c s p)).
  Proof.
    intros o c s p HI HQ. unfold step. destruct p as [|x|k hs|k|k| |dt].
    - pose proof (QPm_poll_requests c s HQ) as X. destruct (poll_requests tp tfuel c s). cbn [fst] in *. apply X.
      intros hr Hin. apply In_nth_error in Hin. destruct Hin as (k & Hk).
      assert (L : k < length (o_incs o)) by (rewrite (u_len _ _ HI); apply nth_error_Some; congruence).
      apply nth_error_Some in L. destruct (nth_error (o_incs o) k) as [oi|] eqn:Ho; [|congruence].
      destruct (u_hand _ _ HI k hr oi Hk Ho) as (_ & _ & _ & X1). exact X1.
    - cbn [fst]. eapply QPm_frame; [exact HQ|reflexivity..].
    - pose proof (QPm_execute_poll o k hs s HI HQ) as X. destruct (execute_poll k hs s). exact X.
    - pose proof (QPm_drop_handler k s HQ) as X. destruct (drop_handler k s). exact X.
    - pose proof (QPm_drop_yielded k s HQ) as X. destruct (drop_yielded k s). exact X.
    - cbn [fst]. unfold drop_channel. destruct (s_dropped s) eqn:ED; [exact HQ|].
      intros k hr e _ _ _ _. right; left. reflexivity.
    - cbn [fst]. eapply QPm_frame; [exact HQ|reflexivity..].
  Qed.

  Lemma QPm_init : forall c (t0 : T), QPm (init c t0).
  Proof. intros c t0 k hr e Hk. destruct k; discriminate. Qed.
End Queue.

(* ================================================================== (fused, transport, log) through a poll *)
(* Any predicate on the stream-half flag, the transport state and the call log that the four
   logged transport calls preserve is preserved by a Requests poll: nothing else touches them
   (the flag is set right after the transport answered end-of-stream). *)
Section TLog.
  Context {T : Type}.
  Variable tp : transport T response cmsg.
  Notation st := (@sstate T).
  Variable P : bool -> T -> list call -> Prop.
  Hypothesis Hready : forall f t l, P f t l -> P f (snd (t_ready tp t)) (CReady (fst (t_ready tp t)) :: l).
  Hypothesis Hflush : forall f t l, P f t l -> P f (snd (t_flush tp t)) (CFlush (fst (t_flush tp t)) :: l).
  Hypothesis Hsend : forall f t l m, P f t l -> P f (snd (t_send tp t m)) (CSend m (fst (t_send tp t m)) :: l).
  Hypothesis Hnext : forall f t l, P f t l ->
    P f (snd (t_next tp t)) (CNext (fst (t_next tp t)) :: l)
    /\ (fst (t_next tp t) = REof -> P true (snd (t_next tp t)) (CNext (fst (t_next tp t)) :: l)).

  Definition PL (s : st) : Prop := P (s_fused s) (s_t s) (s_log s).

  Lemma PL_frame : forall (s s' : st), PL s -> s_fused s' = s_fused s -> s_t s' = s_t s -> s_log s' = s_log s -> PL s'.
  Proof. intros s s' H E1 E2 E3. unfold PL in *. rewrite E1, E2, E3. exact H. Qed.

  Lemma PL_do_ready : forall (s : st) r s', PL s -> do_ready tp s = (r, s') -> PL s'.
  Proof.
    intros s r s' H E. unfold do_ready in E. pose proof (Hready _ _ _ H) as X.
    destruct (t_ready tp (s_t s)) as [x t']. injection E as <- <-. exact X.
  Qed.
  Lemma PL_do_flush : forall (s : st) r s', PL s -> do_flush tp s = (r, s') -> PL s'.
  Proof.
    intros s r s' H E. unfold do_flush in E. pose proof (Hflush _ _ _ H) as X.
    destruct (t_flush tp (s_t s)) as [x t']. injection E as <- <-. exact X.
  Qed.
  Lemma PL_do_send : forall m (s : st) r s', PL s -> do_send tp m s = (r, s') -> PL s'.
  Proof.
    intros m s r s' H E. unfold do_send in E. pose proof (Hsend _ _ _ m H) as X.
    destruct (t_send tp (s_t s) m) as [x t']. injection E as <- <-. exact X.
  Qed.
  Lemma PL_do_next : forall (s : st) r s', PL s -> do_next tp s = (r, s') ->
    PL s' /\ (r = REof -> PL (set_fused s' true)).
  Proof.
    intros s r s' H E. unfold do_next in E. pose proof (Hnext _ _ _ H) as X.
    destruct (t_next tp (s_t s)) as [x t']. injection E as <- <-. exact X.
  Qed.

  Lemma PL_remove_request : forall id (s : st), PL s -> PL (snd (remove_request id s)).
  Proof.
    intros id s H. destruct (remove_request_shape id s) as [(_ & -> & _)|(_ & _ & _ & _ & _ & _ & _ & _ & _ & _ & B9 & _ & _ & _ & B13 & B14)];
      cbv zeta in *; [exact H|]. eapply PL_frame; eauto.
  Qed.
  Lemma PL_cancel_request : forall id (s : st), PL s -> PL (cancel_request id s).
  Proof.
    intros id s H. destruct (cancel_request_shape id s) as [(-> & _)|(e0 & _ & _ & _ & _ & _ & _ & _ & _ & _ & B9 & _ & _ & _ & B13 & B14)];
      cbv zeta in *; [exact H|]. eapply PL_frame; eauto.
  Qed.
  Lemma PL_poll_expired : forall (s : st) r s', PL s -> poll_expired s = (r, s') -> PL s'.
  Proof.
    intros s r s' H E. destruct (poll_expired_shape _ _ _ E) as (_ & _ & _ & _ & _ & A6 & _ & _ & _ & A10 & A11 & _).
    eapply PL_frame; eauto.
  Qed.

  Lemma PL_base : forall f (s : st) r s', PL s -> base_poll_next tp f s = (r, s') -> PL s'.
  Proof.
    induction f as [|f IH]; intros s r s' HP H; cbn [base_poll_next] in H; [injection H as _ <-; exact HP|].
    set (cs := match s_cancels s with
               | id :: r0 => (RSReady, snd (remove_request id (set_cancels s r0)))
               | [] => (RSClosed, s) end) in H.
    assert (Hc : PL (snd cs)).
    { subst cs. destruct (s_cancels s) as [|id r0]; cbn [snd]; [exact HP|].
      apply PL_remove_request. eapply PL_frame; [exact HP|reflexivity..]. }
    destruct cs as [cst s1]. cbn [snd] in Hc.
    destruct (poll_expired s1) as [est s2] eqn:EE. pose proof (PL_poll_expired _ _ _ Hc EE) as H2.
    assert (Hfin : forall rst sx, PL sx ->
              match combine (combine cst est) rst with
              | RSReady => base_poll_next tp f sx
              | RSClosed => (PEnd, sx)
              | RSPending => (PPending, sx)
              end = (r, s') -> PL s').
    { intros rst sx Px HH. destruct (combine (combine cst est) rst).
      - exact (IH _ _ _ Px HH).
      - injection HH as _ <-. exact Px.
      - injection HH as _ <-. exact Px. }
    destruct (s_fused s2).
    - exact (Hfin RSClosed s2 H2 H).
    - destruct (do_next tp s2) as [rr s3] eqn:EN. destruct (PL_do_next _ _ _ H2 EN) as (H3 & H3e).
      destruct rr as [m| | |].
      + destruct m as [id dl tr body|id tr].
        * destruct (start_request id dl s3) as [[h s4]|] eqn:ES.
          -- injection H as _ <-.
             destruct (start_request_shape _ _ _ _ _ ES) as (_ & _ & _ & _ & _ & _ & _ & _ & _ & _ & B11 & _ & _ & _ & B15 & B16).
             eapply PL_frame; eauto.
          -- exact (IH _ _ _ H3 H).
        * apply (Hfin RSReady (cancel_request id s3)); [|exact H]. apply PL_cancel_request. exact H3.
      + injection H as _ <-. exact H3.
      + apply (Hfin RSClosed (set_fused s3 true)); [|exact H]. apply H3e. reflexivity.
      + exact (Hfin RSPending s3 H3 H).
  Qed.

  Lemma PL_start_send : forall m (s : st) e s', PL s -> base_start_send tp m s = (e, s') -> PL s'.
  Proof.
    intros m s e s' HP H. unfold base_start_send in H.
    pose proof (PL_remove_request (resp_id m) s HP) as H1.
    destruct (remove_request (resp_id m) s) as [was s1]. cbn [snd] in H1. destruct was.
    - destruct (do_send tp m s1) as [r s2] eqn:ES. injection H as _ <-. exact (PL_do_send _ _ _ _ H1 ES).
    - injection H as _ <-. exact H1.
  Qed.

  Lemma PL_maxreq : forall f limit (s : st) r s', PL s -> maxreq_poll_next tp f limit s = (r, s') -> PL s'.
  Proof.
    induction f as [|f IH]; intros limit s r s' HP H; cbn [maxreq_poll_next] in H; [injection H as _ <-; exact HP|].
    destruct (limit <=? length (s_inflight s)); [|exact (PL_base _ _ _ _ HP H)].
    destruct (do_ready tp s) as [x s1] eqn:ER. pose proof (PL_do_ready _ _ _ HP ER) as H1.
    destruct x; try (injection H as _ <-; exact H1).
    destruct (base_poll_next tp (S f) s1) as [y s2] eqn:EB. pose proof (PL_base _ _ _ _ H1 EB) as H2.
    destruct y as [q| | | |]; try (injection H as _ <-; exact H2).
    destruct (base_start_send tp (mkresp (q_id q) BThrottle) s2) as [e s3] eqn:ESS.
    pose proof (PL_start_send _ _ _ _ H2 ESS) as H3.
    destruct e; [injection H as _ <-; exact H3|]. exact (IH _ _ _ _ H3 H).
  Qed.

  Lemma PL_ensure : forall (s : st) w s', PL s -> ensure_writeable tp s = (w, s') -> PL s'.
  Proof.
    intros s w s' HP H. unfold ensure_writeable in H.
    destruct (do_ready tp s) as [r s1] eqn:E1. pose proof (PL_do_ready _ _ _ HP E1) as H1.
    destruct r; try (injection H as _ <-; exact H1).
    destruct (do_flush tp s1) as [f s2] eqn:E2. pose proof (PL_do_flush _ _ _ H1 E2) as H2.
    destruct f; try (injection H as _ <-; exact H2).
    destruct (do_ready tp s2) as [r2 s3] eqn:E3. pose proof (PL_do_ready _ _ _ H2 E3) as H3.
    destruct r2; injection H as _ <-; exact H3.
  Qed.

  Lemma PL_pump_write : forall rc (s : st) w s', PL s -> pump_write tp rc s = (w, s') -> PL s'.
  Proof.
    intros rc s w s' HP H. unfold pump_write, poll_next_response in H.
    destruct (ensure_writeable tp s) as [x s1] eqn:EW. pose proof (PL_ensure _ _ _ HP EW) as H1.
    assert (Hfl : forall x0, (let '(f, s2) := do_flush tp s1 in
              match f with
              | TErr => (PErr AFlush, s2)
              | TPending => (PPending, s2)
              | TOk => match x0 : pres response with
                       | PEnd => (PEnd, s2)
                       | _ => if rc && Nat.eqb (length (s_inflight s2)) 0 then (PEnd, s2) else (PPending, s2)
                       end
              end) = (w, s') -> PL s').
    { intros x0 HH. destruct (do_flush tp s1) as [f s2] eqn:EF. pose proof (PL_do_flush _ _ _ H1 EF) as H2.
      destruct f; [destruct x0; try destruct (rc && _)| |]; injection HH as _ <-; exact H2. }
    destruct x as [| |a].
    - destruct (s_respq s1) as [|m q] eqn:EQ; [exact (Hfl PPending H)|].
      destruct (base_start_send tp m (add_permit (set_respq s1 q))) as [e s2] eqn:ES.
      assert (Ha : PL (add_permit (set_respq s1 q))).
      { destruct (add_permit_shape (set_respq s1 q)) as (_ & _ & _ & _ & _ & _ & _ & _ & _ & P10 & _ & P12 & P13).
        cbv zeta in *. eapply PL_frame; eauto. }
      pose proof (PL_start_send _ _ _ _ Ha ES) as H2.
      destruct e; injection H as _ <-; exact H2.
    - exact (Hfl PPending H).
    - injection H as _ <-. exact H1.
  Qed.

  Lemma PL_requests : forall c f (s : st) r s', PL s -> requests_poll_next tp c f s = (r, s') -> PL s'.
  Proof.
    intros c f; induction f as [|f IH]; intros s r s' HP H; cbn [requests_poll_next] in H; [injection H as _ <-; exact HP|].
    destruct (pump_read tp c (S f) s) as [rd s1] eqn:ER.
    assert (H1 : PL s1).
    { unfold pump_read in ER. destruct (cfg_limit c); [eapply PL_maxreq|eapply PL_base]; eauto. }
    destruct rd as [q| |a| |]; try (injection H as _ <-; exact H1).
    all: match type of H with context [pump_write tp ?b ?sx] =>
           destruct (pump_write tp b sx) as [wr s2] eqn:EW;
           pose proof (PL_pump_write _ _ _ _ H1 EW) as H2 end.
    - destruct wr as [u| |a| |]; injection H as _ <-; exact H2.
    - destruct wr as [u| |a| |]; try (injection H as _ <-; exact H2). exact (IH _ _ _ H2 H).
    - destruct wr as [u| |a| |]; try (injection H as _ <-; exact H2). exact (IH _ _ _ H2 H).
  Qed.
End TLog.
