(* C02, server half, monitor proof, part 1: model-only invariants (any transport).
   (1) permit accounting of the bounded response queue: permits + queued responses + handlers that
       hold a permit = buffer (while the channel is not dropped); the waiter queue lists exactly the
       handlers in HWait, without duplicates, and is empty whenever a permit is free;
   (2) a handler that returned after buffering its response has that response in the queue as long
       as its request is tracked (QPm);
   both along `step` and through the four loops of a Requests poll. *)
From Coq Require Import List Bool Arith NArith Lia.
Import ListNotations.
From TarpcV Require Import Base Transport TimerWheel Server ServerMon ServerFuel ServerContract
     ServerSim ServerSim2 ServerSim3 ServerSim4 ServerSim5 ServerSim6 ServerSim7.

(* ================================================================== lists of handlers *)
Definition is_permit_st (x : hstate) : bool := match x with HPermit _ => true | _ => false end.
Definition is_wait_st (x : hstate) : bool := match x with HWait _ => true | _ => false end.
Definition nperm (l : list hrec) : nat := length (filter (fun h => is_permit_st (h_st h)) l).
Definition waitk (l : list hrec) (k : nat) : Prop :=
  exists hr, nth_error l k = Some hr /\ is_wait_st (h_st hr) = true.

Lemma nperm_set_hst : forall k x l hr,
  nth_error l k = Some hr ->
  nperm (set_hst k x l) + Nat.b2n (is_permit_st (h_st hr)) = nperm l + Nat.b2n (is_permit_st x).
Proof.
  unfold nperm. intros k x l; revert k; induction l as [|y r IH]; intros [|k] hr H; cbn [nth_error] in H; try discriminate.
  - inversion H; subst y. cbn [set_hst filter h_st]. destruct (is_permit_st (h_st hr)), (is_permit_st x); cbn; lia.
  - cbn [set_hst filter]. specialize (IH k hr H). destruct (is_permit_st (h_st y)); cbn [length]; lia.
Qed.

Lemma nperm_app : forall l x, nperm (l ++ [x]) = nperm l + Nat.b2n (is_permit_st (h_st x)).
Proof. intros. unfold nperm. rewrite filter_app, app_length. cbn. destruct (is_permit_st (h_st x)); cbn; lia. Qed.

Lemma waitk_set_hst : forall k x l j,
  waitk (set_hst k x l) j <-> (j <> k /\ waitk l j) \/ (j = k /\ k < length l /\ is_wait_st x = true).
Proof.
  intros k x l j. unfold waitk. destruct (Nat.eq_dec k j) as [->|N].
  - destruct (nth_error l j) as [h0|] eqn:E.
    + rewrite (set_hst_same _ x _ _ E). split.
      * intros (hr & [= <-] & W). right. split; [reflexivity|]. split; [apply nth_error_Some; congruence|exact W].
      * intros [[N _]|(_ & _ & W)]; [congruence|]. eexists. split; [reflexivity|exact W].
    + assert (L : length l <= j) by (apply nth_error_None; exact E).
      assert (E' : nth_error (set_hst j x l) j = None) by (apply nth_error_None; rewrite set_hst_length; exact L).
      rewrite E'. split; [intros (hr & A & _); discriminate|intros [[N _]|(_ & L' & _)]; [congruence|lia]].
  - rewrite (set_hst_other _ _ x _ N). split.
    + intros H. left. split; [congruence|exact H].
    + intros [[_ H]|(E & _)]; [exact H|congruence].
Qed.

Lemma waitk_app : forall l x j, is_wait_st (h_st x) = false -> (waitk (l ++ [x]) j <-> waitk l j).
Proof.
  intros l x j Hx. unfold waitk. destruct (Nat.lt_ge_cases j (length l)) as [L|L].
  - rewrite nth_error_app1 by exact L. reflexivity.
  - rewrite nth_error_app2 by exact L. split.
    + intros (hr & A & W). destruct (j - length l) as [|n]; cbn in A; [inversion A; subst; congruence|destruct n; discriminate].
    + intros (hr & A & _). apply nth_error_None in L. congruence.
Qed.

(* ================================================================== the accounting *)
Definition PSumc (p : nat) (q : list response) (hs : list hrec) : nat := p + length q + nperm hs.
Definition PWc (ws : list nat) (p : nat) (hs : list hrec) : Prop :=
  (forall k, In k ws <-> waitk hs k) /\ NoDup ws /\ (ws <> [] -> p = 0).

Lemma in_remove_waiter : forall k j l, In j (remove_waiter k l) <-> In j l /\ j <> k.
Proof.
  intros k j l. unfold remove_waiter. rewrite filter_In. split; intros [A B]; split; auto.
  - intros ->. rewrite Nat.eqb_refl in B. discriminate.
  - apply negb_true_iff. apply Nat.eqb_neq. exact B.
Qed.

Lemma NoDup_app_snoc : forall A (l : list A) x, NoDup l -> ~ In x l -> NoDup (l ++ [x]).
Proof.
  induction l as [|y r IH]; intros x H N; cbn [app]; [constructor; [intros []|constructor]|].
  inversion H; subst. constructor.
  - rewrite in_app_iff. intros [X|[X|[]]]; [contradiction|]. apply N. left. symmetry. exact X.
  - apply IH; [assumption|]. intros X. apply N. right. exact X.
Qed.

(* k was not waiting and does not wait afterwards *)
Lemma PWc_set_plain : forall ws p hs k x hr,
  PWc ws p hs -> nth_error hs k = Some hr -> is_wait_st (h_st hr) = false -> is_wait_st x = false ->
  PWc ws p (set_hst k x hs).
Proof.
  intros ws p hs k x hr (A & B & D) Hk Hw Hx. split; [|split; [exact B|exact D]].
  intros j. rewrite (A j), waitk_set_hst. split.
  - intros W. left. split; [|exact W]. intros ->. destruct W as (h0 & E & W). rewrite Hk in E. inversion E; subst. congruence.
  - intros [[_ W]|(_ & _ & W)]; [exact W|congruence].
Qed.

(* k was waiting and leaves the waiter queue *)
Lemma PWc_set_unwait : forall ws p hs k x hr,
  PWc ws p hs -> nth_error hs k = Some hr -> is_wait_st (h_st hr) = true -> is_wait_st x = false ->
  PWc (remove_waiter k ws) p (set_hst k x hs).
Proof.
  intros ws p hs k x hr (A & B & D) Hk Hw Hx. split; [|split].
  - intros j. rewrite in_remove_waiter, (A j), waitk_set_hst. split.
    + intros [W N]. left. auto.
    + intros [[N W]|(_ & _ & W)]; [auto|congruence].
  - apply NoDup_filter. exact B.
  - intros H. apply D. intros E. rewrite E in H. apply H. reflexivity.
Qed.

(* k starts waiting *)
Lemma PWc_set_wait : forall ws hs k b hr,
  PWc ws 0 hs -> nth_error hs k = Some hr -> is_wait_st (h_st hr) = false ->
  PWc (ws ++ [k]) 0 (set_hst k (HWait b) hs).
Proof.
  intros ws hs k b hr (A & B & D) Hk Hw. split; [|split; [|reflexivity]].
  - intros j. rewrite in_app_iff, (A j), waitk_set_hst. cbn [In is_wait_st]. split.
    + intros [W|[<-|[]]].
      * left. split; [|exact W]. intros ->. destruct W as (h0 & E & W). rewrite Hk in E. inversion E; subst. congruence.
      * right. split; [reflexivity|]. split; [apply nth_error_Some; congruence|reflexivity].
    + intros [[_ W]|(-> & _ & _)]; auto.
  - apply NoDup_app_snoc; [exact B|]. intros Hin. apply A in Hin. destruct Hin as (h0 & E & W).
    rewrite Hk in E. inversion E; subst. congruence.
Qed.

Section Acc.
  Context {T C : Type}.
  Variable tp : transport T response cmsg.
  Variable ctl : T -> C -> T.
  Variable tfuel : T -> nat.
  Notation st := (@sstate T).

  Definition PW (s : st) : Prop := PWc (s_waiters s) (s_permits s) (s_handlers s).
  Definition PSum (s : st) : nat := PSumc (s_permits s) (s_respq s) (s_handlers s).
  Definition PAcc (buf : nat) (s : st) : Prop := (s_dropped s = false -> PSum s = buf) /\ PW s.

  Lemma PAcc_frame : forall buf (s s' : st),
    PAcc buf s -> s_dropped s' = s_dropped s -> s_permits s' = s_permits s -> s_respq s' = s_respq s ->
    s_handlers s' = s_handlers s -> s_waiters s' = s_waiters s -> PAcc buf s'.
  Proof. intros buf s s' H E1 E2 E3 E4 E5. unfold PAcc, PSum, PW in *. rewrite E1, E2, E3, E4, E5. exact H. Qed.

  (* a permit returns *)
  Lemma add_permit_acc : forall (s : st),
    PW s -> PW (add_permit s) /\ PSum (add_permit s) = S (PSum s).
  Proof.
    intros s (A & B & D). unfold add_permit, PW, PSum, PSumc.
    destruct (s_waiters s) as [|k r] eqn:EW; sproj.
    { rewrite ?EW. split; [|lia]. split; [exact A|split; [exact B|intros X; congruence]]. }
    assert (Wk : waitk (s_handlers s) k) by (apply A; left; reflexivity).
    destruct Wk as (hr & Hk & Wst). rewrite Hk. destruct hr as [h i x]. cbn [h_st] in Wst.
    destruct x; try discriminate. sproj.
    pose proof (nperm_set_hst k (HPermit b) (s_handlers s) _ Hk) as NP. cbn [h_st is_permit_st Nat.b2n] in NP.
    split; [|lia]. inversion B; subst. split; [|split; [assumption|]].
    - intros j. rewrite waitk_set_hst. cbn [is_wait_st]. split.
      + intros Hj. left. split; [intros ->; contradiction|]. apply A. right. exact Hj.
      + intros [[N W]|(_ & _ & X)]; [|discriminate]. apply A in W. destruct W as [W|W]; [congruence|exact W].
    - intros _. apply D. discriminate.
  Qed.

  Lemma add_permit_waitst : forall (s : st) k hr,
    nth_error (s_handlers s) k = Some hr -> is_wait_st (h_st hr) = false ->
    exists hr', nth_error (s_handlers (add_permit s)) k = Some hr' /\ h_st hr' = h_st hr.
  Proof.
    intros s k hr Hk Hw. destruct (add_permit_shape s) as (P1 & P2 & _). cbv zeta in *.
    assert (L : k < length (s_handlers (add_permit s))).
    { rewrite <- (map_length h_h), P1, map_length. apply nth_error_Some. congruence. }
    apply nth_error_Some in L. destruct (nth_error (s_handlers (add_permit s)) k) as [hr'|] eqn:E; [|congruence].
    exists hr'. split; [reflexivity|]. destruct (P2 k hr' E) as (hr0 & A & _ & _ & [X|(b & X & _)]);
      rewrite Hk in A; inversion A; subst hr0; [exact X|]. rewrite X in Hw. discriminate.
  Qed.

  (* ---- one poll of an execute() future ---------------------------------------------------- *)
  Lemma execute_poll_acc : forall buf k hs (s : st),
    PAcc buf s -> PAcc buf (fst (execute_poll k hs s)).
  Proof.
    intros buf k hs s (HS & HW). assert (HP : PAcc buf s) by (split; assumption). unfold execute_poll.
    destruct (nth_error (s_handlers s) k) as [hr|] eqn:Hk; [|exact HP].
    pose proof (nperm_set_hst k) as NP.
    destruct (add_permit_acc s HW) as (HWp & HSp).
    assert (Leaf_plain : forall x, is_wait_st (h_st hr) = false -> is_permit_st (h_st hr) = false ->
              is_wait_st x = false -> is_permit_st x = false ->
              PAcc buf (set_handlers s (set_hst k x (s_handlers s)))).
    { intros x W1 P1 W2 P2. unfold PAcc, PSum, PW, PSumc in *. sproj. split.
      - intros Hd. specialize (NP x _ _ Hk). rewrite P1, P2 in NP. cbn in NP. specialize (HS Hd). lia.
      - eapply PWc_set_plain; eauto. }
    assert (Leaf_unwait : forall x, is_wait_st (h_st hr) = true -> is_wait_st x = false -> is_permit_st x = false ->
              PAcc buf (set_handlers (set_waiters s (remove_waiter k (s_waiters s)))
                                     (set_hst k x (s_handlers (set_waiters s (remove_waiter k (s_waiters s))))))).
    { intros x W1 W2 P2. unfold PAcc, PSum, PW, PSumc in *. sproj. split.
      - intros Hd. specialize (NP x _ _ Hk). rewrite P2 in NP. destruct (h_st hr); try discriminate.
        cbn in NP. specialize (HS Hd). lia.
      - eapply PWc_set_unwait; eauto. }
    destruct (h_st hr) eqn:Est; try exact HP.
    - (* HYielded *)
      destruct (existsb _ _); [apply Leaf_plain; reflexivity|].
      assert (Hsend : forall b pre,
        PAcc buf (fst (if s_dropped s then (set_handlers s (set_hst k HDone (s_handlers s)), pre ++ [OExecReady k])
               else match s_permits s with
                    | S p => (set_handlers (set_respq (set_permits s p) (s_respq s ++ [mkresp (h_id hr) b]))
                                (set_hst k HDone (s_handlers (set_respq (set_permits s p) (s_respq s ++ [mkresp (h_id hr) b])))),
                              pre ++ [OExecReady k])
                    | O => (set_handlers (set_waiters s (s_waiters s ++ [k])) (set_hst k (HWait b) (s_handlers s)),
                            pre ++ [OExecPending k])
                    end))).
      { intros b pre. destruct (s_dropped s) eqn:ED; [apply Leaf_plain; reflexivity|].
        destruct (s_permits s) as [|p] eqn:EPm; cbn [fst]; unfold PAcc, PSum, PW, PSumc in *; sproj; rewrite ?EPm in *.
        - split.
          + intros _. specialize (NP (HWait b) _ _ Hk). rewrite Est in NP. cbn in NP. specialize (HS eq_refl). lia.
          + eapply PWc_set_wait; eauto. rewrite Est. reflexivity.
        - split.
          + intros _. specialize (NP HDone _ _ Hk). rewrite Est in NP. cbn in NP. specialize (HS eq_refl).
            rewrite app_length. cbn [length]. lia.
          + destruct HW as (A & B & D). assert (EW : s_waiters s = []).
            { destruct (s_waiters s); [reflexivity|]. discriminate D. discriminate. }
            rewrite EW in *. eapply PWc_set_plain; eauto; try (rewrite Est; reflexivity).
            split; [exact A|split; [exact B|intros X; congruence]]. }
      destruct hs; [apply Leaf_plain; reflexivity|apply Hsend|apply Hsend].
    - (* HRunning *)
      destruct (existsb _ _); [apply Leaf_plain; reflexivity|].
      assert (Hsend : forall b pre,
        PAcc buf (fst (if s_dropped s then (set_handlers s (set_hst k HDone (s_handlers s)), pre ++ [OExecReady k])
               else match s_permits s with
                    | S p => (set_handlers (set_respq (set_permits s p) (s_respq s ++ [mkresp (h_id hr) b]))
                                (set_hst k HDone (s_handlers (set_respq (set_permits s p) (s_respq s ++ [mkresp (h_id hr) b])))),
                              pre ++ [OExecReady k])
                    | O => (set_handlers (set_waiters s (s_waiters s ++ [k])) (set_hst k (HWait b) (s_handlers s)),
                            pre ++ [OExecPending k])
                    end))).
      { intros b pre. destruct (s_dropped s) eqn:ED; [apply Leaf_plain; reflexivity|].
        destruct (s_permits s) as [|p] eqn:EPm; cbn [fst]; unfold PAcc, PSum, PW, PSumc in *; sproj; rewrite ?EPm in *.
        - split.
          + intros _. specialize (NP (HWait b) _ _ Hk). rewrite Est in NP. cbn in NP. specialize (HS eq_refl). lia.
          + eapply PWc_set_wait; eauto. rewrite Est. reflexivity.
        - split.
          + intros _. specialize (NP HDone _ _ Hk). rewrite Est in NP. cbn in NP. specialize (HS eq_refl).
            rewrite app_length. cbn [length]. lia.
          + destruct HW as (A & B & D). assert (EW : s_waiters s = []).
            { destruct (s_waiters s); [reflexivity|]. discriminate D. discriminate. }
            rewrite EW in *. eapply PWc_set_plain; eauto; try (rewrite Est; reflexivity).
            split; [exact A|split; [exact B|intros X; congruence]]. }
      destruct hs; [apply Leaf_plain; reflexivity|apply Hsend|apply Hsend].
    - (* HWait *)
      destruct (existsb _ _); [apply Leaf_unwait; reflexivity|].
      destruct (s_dropped s); [apply Leaf_unwait; reflexivity|exact HP].
    - (* HPermit *)
      destruct (existsb _ _).
      + cbn [fst]. destruct (add_permit_waitst s k hr Hk) as (hr' & Hk' & Est'); [rewrite Est; reflexivity|].
        destruct (add_permit_shape s) as (_ & _ & _ & _ & _ & _ & _ & _ & P9 & _). cbv zeta in P9.
        unfold PAcc, PSum, PW, PSumc in *. sproj. split.
        * rewrite P9. intros Hd. specialize (NP HDone _ _ Hk'). rewrite Est', Est in NP. cbn in NP. specialize (HS Hd). lia.
        * eapply PWc_set_plain; eauto; rewrite ?Est', ?Est; reflexivity.
      + destruct (s_dropped s) eqn:ED; cbn [fst]; unfold PAcc, PSum, PW, PSumc in *; sproj.
        * split; [intros X; congruence|]. eapply PWc_set_plain; eauto; rewrite ?Est; reflexivity.
        * split.
          -- intros _. specialize (NP HDone _ _ Hk). rewrite Est in NP. cbn in NP. specialize (HS eq_refl).
             rewrite app_length. cbn [length]. lia.
          -- eapply PWc_set_plain; eauto; rewrite ?Est; reflexivity.
  Qed.
End Acc.
