(* Executable monitors for the client-side properties, over what an outside observer sees:
   the ops of a run and the observation list of every op (Client.v's `obs`).  They are
   evaluated inside Coq on the traces of the REAL client, and proved (ClientProofs*.v) to
   accept every trace of the model, for every transport and every op list.  No proofs here. *)
From Coq Require Import List Bool Arith NArith.
Import ListNotations.
From TarpcV Require Import Base Transport Client.
Local Open Scope N_scope.

Section Monitors.
  Context {T : Type}.
  Notation op := (@op T).
  Notation call_log := (list (tcall cmsg resp)).

  (* ---------------------------------------------------------------- what the observer records *)
  Record crec := { k_body : N; k_tid : N; k_sampled : bool; k_created : N; k_rel : N }.
  Record sentrec := { s_id : N; s_deadline : N; s_tc : tctx; s_body : N; s_ok : bool; s_seq : nat;
                      s_time : N (* clock when it was written *) }.

  Record mst := {
    m_now : N;
    m_seq : nat;                              (* number of transport calls seen so far *)
    m_calls : list crec;                      (* one per Call op, in order *)
    m_sent : list sentrec;                    (* every start_send(Request), in order *)
    m_cancels : list (N * tctx);              (* every start_send(Cancel) *)
    m_read : list (N * rbody * N * nat);      (* responses read: id, body, time, seq *)
    m_done : list (nat * outcome);            (* call index, outcome its caller received *)
    m_abandoned : list nat;                   (* call futures dropped (cancel half done) *)
    m_closing : list nat;                     (* guard drop begun, cancel half not yet run *)
    m_polled : list nat;                      (* calls polled at least once *)
    m_first_err : option activity;            (* first fatal transport error seen *)
    m_close_called : bool;
    m_disp : option dres;
    m_disp_dropped : bool;
    m_handles : list bool;
    m_contract : cst }.

  Definition m0 : mst :=
    {| m_now := 0; m_seq := 0; m_calls := []; m_sent := []; m_cancels := []; m_read := [];
       m_done := []; m_abandoned := []; m_closing := []; m_polled := []; m_first_err := None;
       m_close_called := false; m_disp := None; m_disp_dropped := false; m_handles := [true];
       m_contract := cst0 |}.

  Definition mem_nat (x : nat) (l : list nat) := existsb (Nat.eqb x) l.

  (* record one transport call *)
  Definition rec_call (m : mst) (c : tcall cmsg resp) : mst :=
    let seq := S (m_seq m) in
    let err a := match m_first_err m with None => Some a | e => e end in
    match c with
    | CSend (MReq id dl tc body) r =>
      {| m_now := m_now m; m_seq := seq; m_calls := m_calls m;
         m_sent := m_sent m ++ [{| s_id := id; s_deadline := dl; s_tc := tc; s_body := body;
                                   s_ok := match r with SOk => true | SErr => false end;
                                   s_seq := seq; s_time := m_now m |}];
         m_cancels := m_cancels m; m_read := m_read m; m_done := m_done m;
         m_abandoned := m_abandoned m; m_closing := m_closing m; m_polled := m_polled m;
         m_first_err := m_first_err m; m_close_called := m_close_called m; m_disp := m_disp m;
         m_disp_dropped := m_disp_dropped m; m_handles := m_handles m;
         m_contract := m_contract m |}
    | CSend (MCancel id tc) r =>
      {| m_now := m_now m; m_seq := seq; m_calls := m_calls m; m_sent := m_sent m;
         m_cancels := m_cancels m ++ [(id, tc)]; m_read := m_read m; m_done := m_done m;
         m_abandoned := m_abandoned m; m_closing := m_closing m; m_polled := m_polled m;
         m_first_err := match r with SErr => err AWrite | SOk => m_first_err m end;
         m_close_called := m_close_called m; m_disp := m_disp m;
         m_disp_dropped := m_disp_dropped m; m_handles := m_handles m;
         m_contract := m_contract m |}
    | CNext (RItem x) =>
      {| m_now := m_now m; m_seq := seq; m_calls := m_calls m; m_sent := m_sent m;
         m_cancels := m_cancels m; m_read := m_read m ++ [(r_id x, r_body x, m_now m, seq)];
         m_done := m_done m; m_abandoned := m_abandoned m; m_closing := m_closing m;
         m_polled := m_polled m; m_first_err := m_first_err m;
         m_close_called := m_close_called m; m_disp := m_disp m;
         m_disp_dropped := m_disp_dropped m; m_handles := m_handles m;
         m_contract := m_contract m |}
    | _ =>
      {| m_now := m_now m; m_seq := seq; m_calls := m_calls m; m_sent := m_sent m;
         m_cancels := m_cancels m; m_read := m_read m; m_done := m_done m;
         m_abandoned := m_abandoned m; m_closing := m_closing m; m_polled := m_polled m;
         m_first_err := match c with
                        | CNext RErr => err ARead
                        | CReady TErr => err AReady
                        | CFlush TErr => err AFlush
                        | CClose TErr => err AClose
                        | _ => m_first_err m end;
         m_close_called := match c with CClose _ => true | _ => m_close_called m end;
         m_disp := m_disp m; m_disp_dropped := m_disp_dropped m; m_handles := m_handles m;
         m_contract := m_contract m |}
    end.

  Definition upd_m (m : mst) now calls done abandoned closing polled disp dropped handles contract :=
    {| m_now := now; m_seq := m_seq m; m_calls := calls; m_sent := m_sent m;
       m_cancels := m_cancels m; m_read := m_read m; m_done := done; m_abandoned := abandoned;
       m_closing := closing; m_polled := polled; m_first_err := m_first_err m;
       m_close_called := m_close_called m; m_disp := disp; m_disp_dropped := dropped;
       m_handles := handles; m_contract := contract |}.

  Fixpoint set_nth_b (n : nat) (x : bool) (l : list bool) : list bool :=
    match l, n with
    | [], _ => []
    | _ :: r, O => x :: r
    | y :: r, S n' => y :: set_nth_b n' x r
    end.

  Definition done_idx (m : mst) (i : nat) : bool := existsb (fun p => Nat.eqb (fst p) i) (m_done m).

  (* the part of the op itself (before its observations) *)
  Definition rec_op (m : mst) (o : op) : mst :=
    match o with
    | CloneHandle h =>
      match nth_error (m_handles m) h with
      | Some true => upd_m m (m_now m) (m_calls m) (m_done m) (m_abandoned m) (m_closing m)
                           (m_polled m) (m_disp m) (m_disp_dropped m) (m_handles m ++ [true])
                           (m_contract m)
      | _ => m end
    | DropHandle h =>
      match nth_error (m_handles m) h with
      | Some true => upd_m m (m_now m) (m_calls m) (m_done m) (m_abandoned m) (m_closing m)
                           (m_polled m) (m_disp m) (m_disp_dropped m)
                           (set_nth_b h false (m_handles m)) (m_contract m)
      | _ => m end
    | Call h d tid smp body =>
      let alive := match nth_error (m_handles m) h with Some true => true | _ => false end in
      let i := length (m_calls m) in
      upd_m m (m_now m)
            (m_calls m ++ [{| k_body := body; k_tid := tid; k_sampled := smp;
                              k_created := m_now m; k_rel := d |}])
            (m_done m) (if alive then m_abandoned m else m_abandoned m ++ [i]) (m_closing m)
            (m_polled m) (m_disp m) (m_disp_dropped m) (m_handles m) (m_contract m)
    | PollCall i =>
      (* a first poll hands out the next request id: only a live, never polled future has one *)
      upd_m m (m_now m) (m_calls m) (m_done m) (m_abandoned m) (m_closing m)
            (if mem_nat i (m_polled m) || mem_nat i (m_abandoned m) || mem_nat i (m_closing m)
                || (length (m_calls m) <=? i)%nat
             then m_polled m else m_polled m ++ [i])
            (m_disp m) (m_disp_dropped m) (m_handles m) (m_contract m)
    | DropCall i =>
      (* only a live future can be dropped: the index exists, it has not finished, and it is
         not already dropped or being dropped *)
      if (length (m_calls m) <=? i)%nat || done_idx m i || mem_nat i (m_abandoned m)
         || mem_nat i (m_closing m) then m else
      upd_m m (m_now m) (m_calls m) (m_done m) (m_abandoned m ++ [i]) (m_closing m)
            (m_polled m) (m_disp m) (m_disp_dropped m) (m_handles m) (m_contract m)
    | GuardClose i =>
      if (length (m_calls m) <=? i)%nat || done_idx m i || mem_nat i (m_abandoned m)
         || mem_nat i (m_closing m) then m
      else if mem_nat i (m_polled m) then
        upd_m m (m_now m) (m_calls m) (m_done m) (m_abandoned m) (m_closing m ++ [i])
              (m_polled m) (m_disp m) (m_disp_dropped m) (m_handles m) (m_contract m)
      else
        (* never polled: there is no guard yet, the future simply goes away *)
        upd_m m (m_now m) (m_calls m) (m_done m) (m_abandoned m ++ [i]) (m_closing m)
              (m_polled m) (m_disp m) (m_disp_dropped m) (m_handles m) (m_contract m)
    | GuardCancel i =>
      if mem_nat i (m_closing m) then
        upd_m m (m_now m) (m_calls m) (m_done m) (m_abandoned m ++ [i])
              (filter (fun j => negb (Nat.eqb j i)) (m_closing m))
              (m_polled m) (m_disp m) (m_disp_dropped m) (m_handles m) (m_contract m)
      else m
    | DropDispatch =>
      upd_m m (m_now m) (m_calls m) (m_done m) (m_abandoned m) (m_closing m) (m_polled m)
            (m_disp m) true (m_handles m) (m_contract m)
    | Advance dt =>
      upd_m m (m_now m + dt) (m_calls m) (m_done m) (m_abandoned m) (m_closing m) (m_polled m)
            (m_disp m) (m_disp_dropped m) (m_handles m) (m_contract m)
    | _ => m
    end.

  (* lookups *)
  Definition call_of (m : mst) (i : nat) : option crec := nth_error (m_calls m) i.
  (* request ids are handed out in the order of first polls (mod 2^64) *)
  Fixpoint index_of (i : nat) (l : list nat) (k : N) : option N :=
    match l with
    | [] => None
    | x :: r => if Nat.eqb x i then Some k else index_of i r (k + 1)
    end.
  Definition id_of (m : mst) (i : nat) : option N :=
    option_map (fun k => N.modulo k 18446744073709551616) (index_of i (m_polled m) 0).
  Definition call_with_id (m : mst) (id : N) : option (nat * crec) :=
    match find (fun i => match id_of m i with Some x => x =? id | None => false end) (m_polled m) with
    | Some i => option_map (fun k => (i, k)) (nth_error (m_calls m) i)
    | None => None
    end.
  (* the requests transmitted for call i *)
  Definition sent_for (m : mst) (i : nat) : list sentrec :=
    match id_of m i with
    | Some id => filter (fun s => s_id s =? id) (m_sent m)
    | None => []
    end.
  Definition sent_with_id (m : mst) (id : N) : list sentrec :=
    filter (fun s => s_id s =? id) (m_sent m).
  Definition rbody_eqb (a b : rbody) : bool :=
    match a, b with BOk v, BOk v' => v =? v' | BErr k, BErr k' => k =? k' | _, _ => false end.
  Definition tctx_eqb (a b : tctx) : bool :=
    (tc_tid a =? tc_tid b) && (tc_sid a =? tc_sid b) && Bool.eqb (tc_sampled a) (tc_sampled b).
  (* a response for id carrying body b was read after transport call number `after` *)
  Definition read_after (m : mst) (id : N) (b : rbody) (after : nat) : bool :=
    existsb (fun r => let '(i, x, _, q) := r in (i =? id) && rbody_eqb x b && (after <? q)%nat)
            (m_read m).
  Definition read_any_after (m : mst) (id : N) (after : nat) : bool :=
    existsb (fun r => let '(i, _, _, q) := r in (i =? id) && (after <? q)%nat) (m_read m).
  Definition read_before_time (m : mst) (id : N) (after : nat) (t : N) : bool :=
    existsb (fun r => let '(i, _, tm, q) := r in (i =? id) && (after <? q)%nat && (tm <? t))
            (m_read m).
  Definition cancelled (m : mst) (id : N) : bool := existsb (fun p => fst p =? id) (m_cancels m).

  (* the request of a sent record has ended from the dispatcher's point of view *)
  (* ... its write failed, a response for it was read, its deadline passed, or the longest
     timer the client ever arms (MAX_TIMEOUT after transmission) has run out *)
  Definition ended (m : mst) (s : sentrec) : bool :=
    negb (s_ok s) || read_any_after m (s_id s) (s_seq s) || (s_deadline s <=? m_now m)
    || (s_time s + max_timeout_ms <=? m_now m).

  (* a dispatch poll during which the sink never said Pending or Err and nothing failed *)
  Definition clean_log (l : call_log) : bool :=
    negb (Nat.eqb (length l) 0) &&
    forallb (fun c => match c with
                      | CReady TOk | CFlush TOk | CClose TOk | CSend _ SOk => true
                      | CNext (RItem _) | CNext RPending => true
                      | _ => false end) l.

  (* ---------------------------------------------------------------- per-observation checks *)
  Record verdicts := { v01 : bool; v03 : bool; v05 : bool; v09 : bool; v10 : bool; v11 : bool;
                       v14 : bool; v18 : bool; vfu : bool }.
  Definition vand (a b : verdicts) : verdicts :=
    {| v01 := v01 a && v01 b; v03 := v03 a && v03 b; v05 := v05 a && v05 b;
       v09 := v09 a && v09 b; v10 := v10 a && v10 b; v11 := v11 a && v11 b;
       v14 := v14 a && v14 b; v18 := v18 a && v18 b; vfu := vfu a && vfu b |}.
  Definition vtrue := {| v01 := true; v03 := true; v05 := true; v09 := true; v10 := true;
                         v11 := true; v14 := true; v18 := true; vfu := true |}.

  (* C03 (d) / C10: every abandoned call whose request went out was cancelled on the wire, or
     its request had ended from the dispatcher's view *)
  Definition abandoned_covered (m : mst) : bool :=
    forallb (fun i =>
      forallb (fun s => cancelled m (s_id s) || ended m s) (sent_for m i)) (m_abandoned m).

  (* one transport call, checked against the state BEFORE it *)
  Definition chk_call (maxif : nat) (m : mst) (c : tcall cmsg resp) : verdicts :=
    match c with
    | CSend (MCancel id tc) _ =>
      let reqs := sent_with_id m id in
      {| v01 := true;
         (* at most once, only after the request, never for a call that resolved normally *)
         v03 := negb (cancelled m id) && negb (Nat.eqb (length reqs) 0) &&
                forallb (fun p => match id_of m (fst p) with
                                  | Some x => negb (x =? id)
                                  | None => true end) (m_done m);
         v05 := true;
         v09 := match m_first_err m with None => true | Some _ => false end;
         v10 := negb (m_close_called m);
         v11 := true; v14 := true;
         (* the cancellation carries the trace context its request was sent with *)
         v18 := existsb (fun s => tctx_eqb (s_tc s) tc) reqs; vfu := true |}
    | CSend (MReq id dl tc body) _ =>
      {| v01 := true; v03 := true; v05 := true;
         v09 := match m_first_err m with None => true | Some _ => false end;
         v10 := negb (m_close_called m);
         v11 := true; v14 := true;
         (* trace id and sampling decision are the caller's; the span id is this hop's own *)
         v18 := match call_with_id m id with
                | Some (_, k) => (k_body k =? body) && (k_tid k =? tc_tid tc) &&
                                 Bool.eqb (k_sampled k) (tc_sampled tc) &&
                                 (k_created k + k_rel k =? dl)
                | None => false end
                && (tc_sid tc =? id)
                && forallb (fun s => negb (s_id s =? id)) (m_sent m); vfu := true |}
    | CClose _ =>
      {| v01 := true; v03 := true; v05 := true;
         v09 := match m_first_err m with None => true | Some _ => false end;
         (* close only when nothing can be queued any more: every handle and call future is gone,
            and every abandoned call has been dealt with *)
         v10 := forallb negb (m_handles m) &&
                forallb (fun i => done_idx m i || mem_nat i (m_abandoned m))
                        (seq 0 (length (m_calls m))) &&
                abandoned_covered m;
         v11 := true; v14 := true; v18 := true; vfu := true |}
    | _ =>
      {| v01 := true; v03 := true; v05 := true;
         (* after a fatal error the transport is never touched again *)
         v09 := match m_first_err m with None => true | Some _ => false end;
         v10 := true; v11 := true; v14 := true; v18 := true; vfu := true |}
    end.

  Fixpoint chk_calls (maxif : nat) (m : mst) (l : call_log) : verdicts * mst :=
    match l with
    | [] => (vtrue, m)
    | c :: r =>
      let v := chk_call maxif m c in
      let '(v', m') := chk_calls maxif (rec_call m c) r in
      (vand v v', m')
    end.

  Definition log_has (f : tcall cmsg resp -> bool) (l : call_log) := existsb f l.

  (* the outcome a caller received *)
  Definition chk_done (m : mst) (i : nat) (o : outcome) : verdicts :=
    let k := call_of m i in
    let reqs := sent_for m i in
    {| v01 :=
         negb (done_idx m i) &&
         match o with
         | OReply v => existsb (fun s => read_after m (s_id s) (BOk v) (s_seq s)) reqs
         | OSrvErr e => existsb (fun s => read_after m (s_id s) (BErr e) (s_seq s)) reqs
         | _ => true
         end;
       v03 := forallb (fun s => negb (cancelled m (s_id s))) reqs;
       v05 :=
         match o, k with
         | ODeadline, Some k =>
           (* never early (for deadlines within the supported span), only for a transmitted
              request, and not if its reply was read before the deadline *)
           negb (Nat.eqb (length reqs) 0) &&
           ((max_timeout_ms <? k_rel k) ||
            ((k_created k + k_rel k <=? m_now m) &&
             forallb (fun s => negb (read_before_time m (s_id s) (s_seq s) (s_deadline s))) reqs))
         | _, _ => true
         end;
       v09 :=
         match o with
         | OConnErr a => match m_first_err m with Some a' => activity_eqb a a' | None => false end
         | OSendErr => existsb (fun s => negb (s_ok s)) reqs
         | _ => true
         end;
       v10 := true; v11 := true; v14 := true; v18 := true; vfu := true |}.

  Definition is_pending (r : dpoll) := match r with DPending => true | _ => false end.
  (* failing to write a cancellation ends the dispatch; failing to write a request does not *)
  Definition fatal_cancel (m : cmsg) : bool := match m with MCancel _ _ => true | MReq _ _ _ _ => false end.

  (* one op with its observations *)
  Definition chk_obs (maxif : nat) (o : op) (m : mst) (os : list obs) : verdicts * mst :=
    let m1 := rec_op m o in
    match o, os with
    | PollCall i, [OCall (CDone out)] =>
      (chk_done m1 i out,
       upd_m m1 (m_now m1) (m_calls m1) (m_done m1 ++ [(i, out)]) (m_abandoned m1) (m_closing m1)
             (m_polled m1) (m_disp m1) (m_disp_dropped m1) (m_handles m1) (m_contract m1))
    | PollCall i, [OCall CPending] =>
      (* C09 / C10: once the dispatch has failed, or was dropped, no call stays pending *)
      let hang := match m_disp m1 with Some (DErr _) => true | _ => m_disp_dropped m1 end in
      ({| v01 := true; v03 := true; v05 := true; v09 := negb hang; v10 := negb hang;
          v11 := true; v14 := true; v18 := true; vfu := true |}, m1)
    | PollCall _, [] => (vtrue, m1)
    | PollDispatch, [OCalls l; ODisp r; OGauge a b] =>
      let '(v, m2) := chk_calls maxif m1 l in
      let '(okc, c2) := c_poll fatal_cancel (m_contract m2) (l, is_pending r) in
      let vd :=
        {| v01 := true;
           (* C03 (d): after a clean poll that went idle, abandoned requests are covered *)
           v03 := negb (is_pending r && clean_log l
                        && match m_first_err m2 with None => true | _ => false end)
                  || abandoned_covered m2;
           v05 := true;
           (* C09: the dispatch ends with the error naming the activity of the first failure *)
           v09 := match r with
                  | DReady (DErr a) => match m_first_err m2 with
                                       | Some a' => activity_eqb a a' | None => false end
                  | DReady DOk => match m_first_err m2 with None => true | _ => false end
                  | _ => true end;
           (* C10: success only after the read side ended or the write side was closed *)
           v10 := match r with
                  | DReady DOk =>
                    log_has (fun c => match c with CNext REof | CClose TOk => true | _ => false end) l
                  | _ => true end;
           (* C11: bounded, timers exactly for tracked requests, and fully reclaimed *)
           v11 := (a <=? N.of_nat maxif) && (a =? b) &&
                  (negb (is_pending r && clean_log l
                         && match m_first_err m2 with None => true | _ => false end
                         && forallb (fun i => done_idx m2 i || mem_nat i (m_abandoned m2))
                                    (seq 0 (length (m_calls m2))))
                   || (a =? 0));
           v14 := okc;
           v18 := true; vfu := match r with DFuel => false | _ => true end |} in
      (vand v vd,
       upd_m m2 (m_now m2) (m_calls m2) (m_done m2) (m_abandoned m2) (m_closing m2) (m_polled m2)
             (match r with DReady d => Some d | _ => m_disp m2 end) (m_disp_dropped m2)
             (m_handles m2) c2)
    | PollDispatch, [] => (vtrue, m1)
    | _, [] => (vtrue, m1)
    | _, _ =>
      (* OPanic, OSpin or a malformed observation list: no property tolerates it *)
      ({| v01 := false; v03 := false; v05 := false; v09 := false; v10 := false; v11 := false;
          v14 := false; v18 := false; vfu := false |}, m1)
    end.

  Fixpoint chk_run (maxif : nat) (m : mst) (ops : list op) (tr : list (list obs)) : verdicts :=
    match ops, tr with
    | [], [] => vtrue
    | o :: ops', os :: tr' =>
      let '(v, m') := chk_obs maxif o m os in vand v (chk_run maxif m' ops' tr')
    | _, _ => {| v01 := false; v03 := false; v05 := false; v09 := false; v10 := false;
                 v11 := false; v14 := false; v18 := false; vfu := false |}
    end.

  Definition monitors (maxif : nat) (ops : list op) (tr : list (list obs)) : verdicts :=
    chk_run maxif m0 ops tr.

  Definition c01_ok maxif ops tr := v01 (monitors maxif ops tr).
  Definition c03_ok maxif ops tr := v03 (monitors maxif ops tr).
  Definition c05_ok maxif ops tr := v05 (monitors maxif ops tr).
  Definition c09_ok maxif ops tr := v09 (monitors maxif ops tr).
  Definition c10_ok maxif ops tr := v10 (monitors maxif ops tr).
  Definition c11_ok maxif ops tr := v11 (monitors maxif ops tr).
  Definition c14_ok maxif ops tr := v14 (monitors maxif ops tr).
  Definition c18_ok maxif ops tr := v18 (monitors maxif ops tr).
  (* every poll of the dispatch returns within its fuel *)
  Definition cfuel_ok maxif ops tr := vfu (monitors maxif ops tr).
End Monitors.
