(* Server-side lemmas for the properties whose client halves live elsewhere (C09, C10, C11, C14),
   plus the pieces shared by the server properties C04, C06, C08, C12.  The lead imports these. *)
From Coq Require Import List Bool Arith NArith Lia.
Import ListNotations.
From TarpcV Require Import Base Transport TimerWheel Server ServerMon ServerFuel ServerContract
     ServerSim ServerSim2 ServerSim3 ServerSim4 ServerState ServerTrace.

(* ------------------------------------------------------------------------------------------ *)
(* the scripted transport's fuel measure: the inbox length *)
Definition sfuel (t : stransport cmsg) : nat := length (st_inbox t).

Lemma scripted_tfuel_ok : tfuel_ok (@scripted response cmsg) sfuel.
Proof.
  unfold tfuel_ok, sfuel. repeat split; intros t; cbn.
  - unfold s_ready. destruct (st_fail_ready t); cbn. lia. destruct (_ && _); cbn; lia.
  - unfold s_flush. destruct (st_fail_flush t); cbn. lia. destruct (st_flushok t); cbn; lia.
  - intros m. unfold s_send. destruct (st_fail_send t); cbn; lia.
  - unfold s_next. destruct (st_fail_next t); cbn. lia.
    destruct (st_inbox t) eqn:EI; cbn. destruct (st_eof t); cbn; rewrite ?EI; cbn; lia. lia.
Qed.

Section NoFuel.
  Context {T C : Type}.
  Variable tp : transport T response cmsg.
  Variable ctl : T -> C -> T.
  Variable tfuel : T -> nat.
  Hypothesis TF : tfuel_ok tp tfuel.

  Definition is_cut (e : obs) : bool := match e with OFuel | OPanic => true | _ => false end.

  Lemma gauges_not_cut : forall (s : @sstate T), existsb is_cut (gauges s) = false.
  Proof. intros s; unfold gauges. destruct (s_dropped s); [reflexivity|]. destruct (s_bad s); reflexivity. Qed.

  Lemma step_not_cut : forall c (s : @sstate T) o,
    existsb is_cut (snd (step tp ctl tfuel c s o)) = false.
  Proof.
    intros c s o; unfold step.
    match goal with |- context [let '(_, _) := ?X in _] => destruct X as [s1 l] eqn:E end.
    cbn [snd]. rewrite existsb_app, gauges_not_cut, orb_false_r.
    destruct o as [|x|k hs|k|k| |dt]; try (injection E as <- <-; reflexivity).
    - pose proof (poll_requests_no_fuel tp tfuel TF c s) as Hn. rewrite E in Hn. cbn [snd] in Hn.
      unfold poll_requests in E. destruct (s_dropped s); [injection E as <- <-; reflexivity|].
      destruct (requests_poll_next tp c (poll_fuel tfuel s) (set_log s [])) as [r sx].
      destruct r; injection E as <- <-; cbn in *; try reflexivity. exfalso; apply Hn; auto.
    - unfold execute_poll in E. destruct (nth_error (s_handlers s) k) as [hr|]; [|injection E as <- <-; reflexivity].
      destruct (h_st hr); try (injection E as <- <-; reflexivity);
        destruct (existsb (Nat.eqb (h_h hr)) (s_aborted s));
        try (injection E as <- <-; reflexivity);
        try (destruct hs; destruct (s_dropped s); try destruct (s_permits s);
             injection E as <- <-; reflexivity);
        try (destruct (s_dropped s); injection E as <- <-; reflexivity).
    - unfold drop_handler in E. destruct (nth_error (s_handlers s) k) as [hr|]; [|injection E as <- <-; reflexivity].
      destruct (h_st hr); injection E as <- <-; reflexivity.
    - unfold drop_yielded in E. destruct (nth_error (s_handlers s) k) as [[h i [| | | | |]]|];
        injection E as <- <-; reflexivity.
  Qed.

  Lemma run_from_not_cut : forall c ops (s : @sstate T),
    no_fuel (fst (run_from tp ctl tfuel c s ops)) = true.
  Proof.
    induction ops as [|o ops IH]; intros s; [reflexivity|]. cbn [run_from].
    pose proof (step_not_cut c s o) as Hs.
    destruct (step tp ctl tfuel c s o) as [s1 l]. specialize (IH s1).
    destruct (run_from tp ctl tfuel c s1 ops) as [ls s2]. cbn [fst snd] in *.
    unfold no_fuel in *. cbn [forallb]. rewrite IH, andb_true_r.
    unfold is_cut in Hs. rewrite Hs. reflexivity.
  Qed.
End NoFuel.

(* ------------------------------------------------------------------------------------------ *)
(* C14, server half *)

(* clauses (a) start_send only when licensed by poll_ready -> Ready(Ok), (b) never after close or
   after a readiness/flush failure, (c) never idle with written-but-unflushed items unless the
   flush is pending, and the per-poll bound of (d): for EVERY transport, every environment that
   changes the transport between polls, every fuel measure. *)
Lemma C14_server_contract :
  forall (T C : Type) (tp : transport T response cmsg) (ctl : T -> C -> T) (tfuel : T -> nat)
         (c : cfg) (t0 : T) (ops : list (op C)),
    contract_ok (fun _ : response => true) (polls_of ops (fst (run tp ctl tfuel c t0 ops))) = true.
Proof. intros. apply server_contract_ok. Qed.

(* (d) totality: no poll runs out of fuel (linear in the queue lengths) or panics, for every
   transport whose fuel measure decreases with every item it hands out *)
Lemma C14_server_total :
  forall (T C : Type) (tp : transport T response cmsg) (ctl : T -> C -> T) (tfuel : T -> nat)
         (c : cfg) (t0 : T) (ops : list (op C)),
    tfuel_ok tp tfuel -> no_fuel (fst (run tp ctl tfuel c t0 ops)) = true.
Proof. intros. unfold run. apply run_from_not_cut. assumption. Qed.

(* both, for the instance the correspondence check runs *)
Lemma C14_server_scripted : forall c t0 ops, c14s_ok ops (fst (srun c t0 ops)) = true.
Proof.
  intros. unfold c14s_ok, srun. rewrite C14_server_total by exact scripted_tfuel_ok.
  cbn [andb]. apply C14_server_contract.
Qed.

(* ------------------------------------------------------------------------------------------ *)
(* C11, server half (state form): for every transport and every op list, the deadline-timer queue
   and the request table hold the same ids in every reachable state (no timer-only leak, no
   entry without a timer), so the two gauges agree after every op. *)
Lemma C11_server_timers_track_requests :
  forall (T C : Type) (tp : transport T response cmsg) (ctl : T -> C -> T) (tfuel : T -> nat)
         (c : cfg) (t0 : T) (ops : list (op C)),
    let s := snd (run tp ctl tfuel c t0 ops) in
    map fst (s_timers s) = map e_id (s_inflight s)
    /\ forallb gauges_agree (fst (run tp ctl tfuel c t0 ops)) = true.
Proof.
  intros. unfold run in *. destruct (run_from_keys tp ctl tfuel c ops (init c t0)) as (A & B & _); [reflexivity|].
  split; [exact A|exact B].
Qed.

(* C12 (a) as a trace property, for every transport: right after a request is yielded the channel
   reports at most L in flight *)
Lemma C12_server_yield_within_limit :
  forall (T C : Type) (tp : transport T response cmsg) (ctl : T -> C -> T) (tfuel : T -> nat)
         (c : cfg) (t0 : T) (ops : list (op C)),
    forallb (yield_within (cfg_limit c)) (fst (run tp ctl tfuel c t0 ops)) = true.
Proof.
  intros. unfold run. destruct (run_from_keys tp ctl tfuel c ops (init c t0)) as (_ & _ & D); [reflexivity|exact D].
Qed.

(* C10, server half (state form): BaseChannel::poll_next ends (None) only when the transport has
   reported end of stream and nothing is tracked; and it goes idle only with the server-side
   cancel queue empty and no timer due *)
Lemma C10_server_base_end :
  forall (T : Type) (tp : transport T response cmsg) f (s s' : @sstate T),
    base_poll_next tp f s = (PEnd, s') ->
    s_fused s' = true /\ s_timers s' = [] /\ s_cancels s' = [].
Proof.
  intros T tp f s s' H. pose proof (base_complete tp _ _ _ _ H) as ((A & B) & D & E). auto.
Qed.

(* C09, server half (state form): dropping the channel sets the abort flag of every tracked
   request; an aborted execute() never polls its handler again (ServerState.aborted_stops) *)
Lemma C09_server_drop_aborts :
  forall (T : Type) (s : @sstate T) e,
    s_dropped s = false -> In e (s_inflight s) -> In (e_h e) (s_aborted (drop_channel s)).
Proof.
  intros T s e Hd He. unfold drop_channel. rewrite Hd. cbn. apply in_or_app. left. apply in_map. exact He.
Qed.

(* ------------------------------------------------------------------------------------------ *)
(* C18, server half: for EVERY transport, configuration and op list, the request a poll of the
   Requests stream hands to the application carries the id, deadline, body and the TRACE NUMBER
   (2 * trace_id + sampled bit: trace id and sampling decision) of the last request the transport
   delivered in that poll; the server never rewrites them (the span id is drawn at the server and
   is not part of any observation). *)
Lemma C18_server_trace_preserved :
  forall (T C : Type) (tp : transport T response cmsg) (ctl : T -> C -> T) (tfuel : T -> nat)
         (c : cfg) (t0 : T) (ops : list (op C)),
    forallb c18_poll (fst (run tp ctl tfuel c t0 ops)) = true.
Proof. intros. unfold run. apply run_from_trace. Qed.

Lemma C18_server_monitor :
  forall (T C : Type) (tp : transport T response cmsg) (ctl : T -> C -> T) (tfuel : T -> nat)
         (c : cfg) (t0 : T) (ops : list (op C)),
    tfuel_ok tp tfuel -> c18s_ok (fst (run tp ctl tfuel c t0 ops)) = true.
Proof.
  intros. unfold c18s_ok. rewrite C14_server_total by assumption. cbn [andb].
  apply C18_server_trace_preserved.
Qed.

Lemma C18_server_scripted : forall c t0 ops, c18s_ok (fst (srun c t0 ops)) = true.
Proof. intros. unfold srun. apply C18_server_monitor. exact scripted_tfuel_ok. Qed.
