(* Proofs about the model of the #[tarpc::service] macro (Macro.v). Statements are pinned in
   Properties/C17.v. *)
From Coq Require Import Ascii String.
From Coq Require Import List Bool NArith Arith Lia.
Import ListNotations.
From TarpcV Require Import Base Macro.
Local Open Scope N_scope.

(* ------------------------------------------------------------------ strings, lists *)

Lemma list_eqb_N_eq : forall a b : list N, list_eqb N.eqb a b = true <-> a = b.
Proof.
  induction a as [|x a IH]; destruct b as [|y b]; cbn; split; intro H; try easy.
  - apply andb_true_iff in H. destruct H as [H1 H2]. apply N.eqb_eq in H1. apply IH in H2. now subst.
  - inversion H; subst. apply andb_true_iff. split. apply N.eqb_refl. now apply IH.
Qed.

Lemma str_eqb_eq : forall a b, str_eqb a b = true <-> a = b.
Proof. exact list_eqb_N_eq. Qed.

Lemma str_eqb_refl : forall a, str_eqb a a = true.
Proof. intro a. now apply str_eqb_eq. Qed.

Lemma str_eqb_neq : forall a b, str_eqb a b = false <-> a <> b.
Proof.
  intros a b. split.
  - intros H E. apply str_eqb_eq in E. congruence.
  - intro H. destruct (str_eqb a b) eqn:E; [apply str_eqb_eq in E; contradiction | reflexivity].
Qed.

Lemma str_eqb_sym : forall a b, str_eqb a b = str_eqb b a.
Proof.
  intros a b. destruct (str_eqb a b) eqn:E.
  - apply str_eqb_eq in E. subst. symmetry. apply str_eqb_refl.
  - symmetry. apply str_eqb_neq. apply str_eqb_neq in E. congruence.
Qed.

Lemma existsb_str_In : forall x l, existsb (str_eqb x) l = true <-> In x l.
Proof.
  intros x l. rewrite existsb_exists. split.
  - intros [y [Hy E]]. apply str_eqb_eq in E. now subst.
  - intro H. exists x. split; [assumption | apply str_eqb_refl].
Qed.

Lemma nodupb_NoDup : forall l, nodupb l = true <-> NoDup l.
Proof.
  induction l as [|x l IH]; cbn.
  - split; [constructor | reflexivity].
  - rewrite andb_true_iff, negb_true_iff, IH. split.
    + intros [H1 H2]. constructor; [|assumption]. intro Hin. apply existsb_str_In in Hin. congruence.
    + intro H. inversion H; subst. split; [|assumption].
      destruct (existsb (str_eqb x) l) eqn:E; [apply existsb_str_In in E; contradiction | reflexivity].
Qed.

Lemma nodupb_app_l : forall a b, nodupb (a ++ b) = true -> nodupb a = true.
Proof.
  intros a b H. apply nodupb_NoDup in H. apply nodupb_NoDup.
  induction a as [|x a IH]; [constructor|]. cbn in H. inversion H; subst.
  constructor; [|now apply IH]. intro Hin. apply H2. apply in_or_app. now left.
Qed.

Lemma nodupb_app_r : forall a b, nodupb (a ++ b) = true -> nodupb b = true.
Proof.
  intros a b H. induction a as [|x a IH]; [assumption|]. cbn in H.
  apply andb_true_iff in H. apply IH. apply H.
Qed.

Lemma filter_map_comm : forall {A B} (f : A -> B) (p : B -> bool) l,
  filter p (map f l) = map f (filter (fun x => p (f x)) l).
Proof.
  induction l as [|x l IH]; cbn; [reflexivity|]. destruct (p (f x)); cbn; now rewrite IH.
Qed.

(* finding by a key that no two elements share returns the element itself *)
Lemma find_unique : forall {A} (key : A -> str) (l : list A) (x : A),
  nodupb (map key l) = true -> In x l ->
  find (fun y => str_eqb (key y) (key x)) l = Some x.
Proof.
  induction l as [|y l IH]; intros x Hnd Hin; [destruct Hin|].
  cbn in Hnd. apply andb_true_iff in Hnd. destruct Hnd as [Hy Hnd]. apply negb_true_iff in Hy.
  cbn. destruct Hin as [->|Hin].
  - now rewrite str_eqb_refl.
  - destruct (str_eqb (key y) (key x)) eqn:E.
    + apply str_eqb_eq in E. exfalso.
      assert (existsb (str_eqb (key y)) (map key l) = true) as C.
      { apply existsb_str_In. rewrite E. now apply in_map. }
      congruence.
    + now apply IH.
Qed.

Lemma find_unique_map : forall {A B} (f : A -> B) (key : A -> str) (key' : B -> str) (l : list A) x,
  (forall y, key' (f y) = key y) ->
  nodupb (map key l) = true -> In x l ->
  find (fun y => str_eqb (key' y) (key x)) (map f l) = Some (f x).
Proof.
  intros A B f key key' l x Hk Hnd Hin.
  rewrite <- (Hk x). apply (find_unique key' (map f l) (f x)).
  - rewrite map_map. erewrite map_ext; [exact Hnd|]. intro; apply Hk.
  - now apply in_map.
Qed.

Lemma find_exists : forall {A} (p : A -> bool) l x,
  In x l -> p x = true -> exists y, find p l = Some y /\ p y = true.
Proof.
  induction l as [|z l IH]; intros x Hin Hp; [destruct Hin|]. cbn.
  destruct (p z) eqn:E; [now exists z|]. destruct Hin as [->|Hin]; [congruence|].
  now apply (IH x).
Qed.

(* ------------------------------------------------------------------ environments *)

Lemma lookup_skip : forall {B} k ks (vs : list B) rest,
  existsb (str_eqb k) ks = false -> lookup k (combine ks vs ++ rest) = lookup k rest.
Proof.
  induction ks as [|y ks IH]; intros vs rest H; [reflexivity|].
  cbn in H. apply orb_false_iff in H. destruct H as [H1 H2].
  destruct vs as [|v vs]; [reflexivity|]. cbn. rewrite H1. now apply IH.
Qed.

Lemma all_some_map_ext_in : forall {A B} (f h : A -> option B) l,
  (forall x, In x l -> f x = h x) -> all_some (map f l) = all_some (map h l).
Proof.
  intros A B f h l H. f_equal. now apply map_ext_in.
Qed.

(* looking up, in order, the names a parameter list binds gives the values in order *)
Lemma lookup_all : forall {B} ks (vs : list B) rest,
  length ks = length vs -> nodupb ks = true ->
  all_some (map (fun k => lookup k (combine ks vs ++ rest)) ks) = Some vs.
Proof.
  induction ks as [|k ks IH]; intros vs rest Hlen Hnd; destruct vs as [|v vs]; try discriminate.
  - reflexivity.
  - cbn in Hnd. apply andb_true_iff in Hnd. destruct Hnd as [Hk Hnd]. apply negb_true_iff in Hk.
    cbn [map combine app lookup all_some]. rewrite str_eqb_refl.
    rewrite (all_some_map_ext_in _ (fun k0 => lookup k0 (combine ks vs ++ rest))).
    + rewrite IH; [reflexivity | now inversion Hlen | assumption].
    + intros x Hx. destruct (str_eqb x k) eqn:E; [|reflexivity].
      apply str_eqb_eq in E. subst. apply existsb_str_In in Hx. congruence.
Qed.

Lemma all_some_bval : forall {A} (f : A -> option binding) l vs,
  all_some (map f l) = Some (map BVal vs) ->
  all_some (map (fun x => match f x with Some (BVal v) => Some v | _ => None end) l) = Some vs.
Proof.
  induction l as [|x l IH]; intros vs H; cbn in *.
  - destruct vs; [reflexivity | discriminate].
  - destruct (f x) as [b|]; [|discriminate].
    destruct (all_some (map f l)) as [r|] eqn:E; [|discriminate].
    destruct vs as [|v vs]; [discriminate|]. cbn in H. inversion H; subst.
    now rewrite (IH vs eq_refl).
Qed.

Lemma combine_length_eq : forall {A B} (a : list A) (b : list B),
  length a = length b -> length (combine a b) = length a.
Proof. intros. rewrite combine_length. lia. Qed.

(* ------------------------------------------------------------------ shape of the stripped items *)

Definition tf0 (m : method) : trait_fn :=
  TraitFn [] (m_name m) (Arg (plain "context") ty_context :: m_args m) (ret_ty m).
Definition arm0 (svc : ident) (m : method) : arm :=
  Arm [] (request_ident svc) (camel m) (map a_name (m_args m)) (response_ident svc) (camel m) svc (m_name m)
      (ESelfService :: EVar (plain "ctx") :: map (fun a => EVar (a_name a)) (m_args m)).
Definition variant0 (m : method) : variant := Variant [] (camel m) (m_args m).
Definition name0 (svc : ident) (m : method) : name_arm :=
  NameArm [] (request_ident svc) (camel m) (display svc ++ lit "." ++ display (m_name m)).
Definition cf0 (fb : fallback) (svc : ident) (m : method) : client_fn :=
  ClientFn [] (m_name m) (Arg (plain "ctx") ty_context :: m_args m) (ret_ty m)
           (plain "request") (request_ident svc) (camel m)
           (map (fun a => (a_name a, a_name a)) (m_args m))
           [plain "ctx"; plain "request"] (response_ident svc) (camel m) fb.

Definition stripped (fb : fallback) (svc : ident) (derives : list N) (ms : list method) : generated :=
  let on := filter enabled ms in
  Generated svc (map tf0 on) [plain "serve"]
            (format_ident "" svc "Stub") (format_ident "Serve" svc "")
            [plain "ctx"; plain "req"] (plain "req") (map (arm0 svc) on)
            (request_ident svc) (map variant0 on) derives (map (name0 svc) on)
            (response_ident svc) (map (gen_rvariant) ms) derives
            (format_ident "" svc "Client") [plain "new"] (map (cf0 fb svc) on).

Lemma strip_generate : forall fb svc derives ms,
  strip (generate fb svc derives ms) = stripped fb svc derives ms.
Proof.
  intros. unfold strip, generate, stripped. cbn [g_trait g_trait_fns g_trait_extra g_stub g_server
    g_serve_params g_serve_scrut g_arms g_req g_variants g_req_derives g_names g_resp g_rvariants
    g_resp_derives g_client g_client_new g_client_fns].
  rewrite !filter_map_comm, !map_map. reflexivity.
Qed.

(* gen succeeds only by producing `generate` of the parsed pieces *)
Lemma gen_ok_inv : forall serde1 fb s g, gen serde1 fb s = Ok g ->
  exists d, g = generate fb (s_name s) d (s_methods s)
            /\ parse_methods (s_methods s) = [] /\ ident_errors (s_methods s) = []
            /\ forallb (fun m => ident_string_ok (camel m)) (s_methods s) = true.
Proof.
  intros serde1 fb s g H. unfold gen in H.
  destruct (parse_derive_meta serde1 (s_opts s)) as [d|e]; [|discriminate].
  unfold parse_service in H.
  destruct (parse_methods (s_methods s)) eqn:E1; [|discriminate].
  destruct (ident_errors (s_methods s)) eqn:E2; [|discriminate].
  destruct (forallb _ (s_methods s)) eqn:E3; [|discriminate].
  inversion H; subst. exists (derives_of serde1 d). repeat split; assumption.
Qed.

(* ------------------------------------------------------------------ what acceptance gives *)

Definition mname (m : method) : str := i_txt (m_name m).

Lemma accepts_split : forall g, rustc_accepts g = true ->
  nodupb (map v_name (g_variants g)) = true
  /\ nodupb (map rv_name (g_rvariants g)) = true
  /\ forallb (fun v => nodupb (arg_names (v_fields v))) (g_variants g) = true
  /\ forallb (fun f => nodupb (arg_names (cf_params f))) (g_client_fns g) = true
  /\ nodupb (names_of (map tf_name (g_trait_fns g) ++ g_trait_extra g)) = true
  /\ nodupb (names_of (g_client_new g ++ map cf_name (g_client_fns g))) = true
  /\ existsb (str_eqb (lit "Self")) (map v_name (g_variants g) ++ map rv_name (g_rvariants g)) = false
  /\ g_names g <> [].
Proof.
  intros g H. unfold rustc_accepts in H. rewrite !andb_true_iff, !negb_true_iff in H.
  destruct H as [[[[[[[A1 A2] A3] A4] A5] A6] A7] A8].
  repeat split; try assumption. intro E. rewrite E in A8. discriminate.
Qed.

Lemma accepts_inv : forall fb svc d ms,
  rustc_accepts (stripped fb svc d ms) = true ->
  let on := filter enabled ms in
  nodupb (map camel on) = true
  /\ (forall m, In m on -> nodupb (lit "ctx" :: arg_names (m_args m)) = true)
  /\ nodupb (map mname on) = true.
Proof.
  intros fb svc d ms H on.
  destruct (accepts_split _ H) as (A1 & A2 & A3 & A4 & A5 & A6 & A7 & A8).
  unfold stripped in *. fold on in A1, A4, A5.
  cbn [g_variants g_client_fns g_trait_fns g_trait_extra] in *.
  repeat split.
  - rewrite map_map in A1. exact A1.
  - intros m Hm. rewrite forallb_forall in A4. exact (A4 (cf0 fb svc m) (in_map _ _ _ Hm)).
  - unfold names_of in A5. rewrite map_app, !map_map in A5. apply nodupb_app_l in A5. exact A5.
Qed.

Lemma in_on : forall ms m, In m ms -> enabled m = true -> In m (filter enabled ms).
Proof. intros. apply filter_In. now split. Qed.

(* ------------------------------------------------------------------ the three stages *)

Section Stages.
  Variable fb : fallback.
  Variable svc : ident.
  Variable d : list N.
  Variable ms : list method.
  Variable impl : implementor.
  Let G := stripped fb svc d ms.
  Hypothesis Hacc : rustc_accepts G = true.
  Variable m : method.
  Hypothesis Hin : In m ms.
  Hypothesis Hen : enabled m = true.

  Let Hon : In m (filter enabled ms) := in_on ms m Hin Hen.

  Lemma find_client_m : find_client G (mname m) = Some (cf0 fb svc m).
  Proof.
    destruct (accepts_inv _ _ _ _ Hacc) as (_ & _ & Hn).
    unfold find_client, G, stripped. cbn [g_client_fns].
    apply (find_unique_map (cf0 fb svc) mname (fun f => i_txt (cf_name f))); auto.
  Qed.

  Lemma find_variant_m : find_variant G (camel m) = Some (variant0 m).
  Proof.
    destruct (accepts_inv _ _ _ _ Hacc) as (Hc & _ & _).
    unfold find_variant, G, stripped. cbn [g_variants].
    apply (find_unique_map variant0 camel v_name); auto.
  Qed.

  Lemma find_arm_m : find_arm G (camel m) = Some (arm0 svc m).
  Proof.
    destruct (accepts_inv _ _ _ _ Hacc) as (Hc & _ & _).
    unfold find_arm, G, stripped. cbn [g_arms].
    apply (find_unique_map (arm0 svc) camel ar_variant); auto.
  Qed.

  Lemma find_name_m :
    find (fun a => str_eqb (na_variant a) (camel m)) (g_names G) = Some (name0 svc m).
  Proof.
    destruct (accepts_inv _ _ _ _ Hacc) as (Hc & _ & _).
    unfold G, stripped. cbn [g_names].
    apply (find_unique_map (name0 svc) camel na_variant); auto.
  Qed.

  Lemma find_trait_fn_m : find_trait_fn G (mname m) = Some (tf0 m).
  Proof.
    destruct (accepts_inv _ _ _ _ Hacc) as (_ & _ & Hn).
    unfold find_trait_fn, G, stripped. cbn [g_trait_fns].
    apply (find_unique_map tf0 mname (fun f => i_txt (tf_name f))); auto.
  Qed.

  Lemma find_rvariant_m : exists rv, find_rvariant G (camel m) = Some rv /\ rv_name rv = camel m.
  Proof.
    unfold find_rvariant, G, stripped. cbn [g_rvariants].
    destruct (find_exists (fun x => str_eqb (rv_name x) (camel m)) (map gen_rvariant ms) (gen_rvariant m))
      as [y [Hy Hp]].
    - now apply in_map.
    - apply str_eqb_refl.
    - exists y. split; [assumption | now apply str_eqb_eq].
  Qed.

  Lemma args_nodup : nodupb (lit "ctx" :: arg_names (m_args m)) = true.
  Proof. destruct (accepts_inv _ _ _ _ Hacc) as (_ & Ha & _). now apply Ha. Qed.

  Lemma args_nodup' : nodupb (arg_names (m_args m)) = true.
  Proof. pose proof args_nodup as H. cbn in H. apply andb_true_iff in H. apply H. Qed.

  Lemma ctx_not_arg : existsb (str_eqb (lit "ctx")) (arg_names (m_args m)) = false.
  Proof.
    pose proof args_nodup as H. cbn [nodupb] in H. apply andb_true_iff in H.
    destruct H as [H _]. now apply negb_true_iff in H.
  Qed.
End Stages.

(* ------------------------------------------------------------------ binding arguments *)

Lemma lookup_vals_args : forall args vs rest,
  length vs = length args -> nodupb (arg_names args) = true ->
  all_some (map (fun a => lookup_val (combine (arg_names args) (map BVal vs) ++ rest) (a_name a)) args)
  = Some vs.
Proof.
  intros args vs rest Hlen Hnd.
  set (E := combine (arg_names args) (map BVal vs) ++ rest).
  replace (map (fun a => lookup_val E (a_name a)) args)
    with (map (fun k => match lookup k E with Some (BVal v) => Some v | _ => None end) (arg_names args)).
  - apply all_some_bval. unfold E. apply lookup_all; [|assumption].
    unfold arg_names. now rewrite !map_length.
  - unfold arg_names. rewrite map_map. reflexivity.
Qed.

Lemma lookup_vals_args_cons : forall k b args vs rest,
  existsb (str_eqb k) (arg_names args) = false ->
  length vs = length args -> nodupb (arg_names args) = true ->
  all_some (map (fun a => lookup_val ((k, b) :: combine (arg_names args) (map BVal vs) ++ rest) (a_name a)) args)
  = Some vs.
Proof.
  intros k b args vs rest Hk Hlen Hnd.
  rewrite <- (lookup_vals_args args vs rest Hlen Hnd).
  apply all_some_map_ext_in. intros a Ha. unfold lookup_val. cbn [lookup].
  destruct (str_eqb (i_txt (a_name a)) k) eqn:E; [|reflexivity].
  apply str_eqb_eq in E. subst k. exfalso.
  assert (existsb (str_eqb (i_txt (a_name a))) (arg_names args) = true) as C.
  { apply existsb_str_In. unfold arg_names. now apply (in_map (fun a => i_txt (a_name a))). }
  congruence.
Qed.

Lemma lookup_fields_args : forall args (vs : list value),
  length vs = length args -> nodupb (arg_names args) = true ->
  all_some (map (fun a => lookup (i_txt (a_name a)) (combine (arg_names args) vs)) args) = Some vs.
Proof.
  intros args vs Hlen Hnd.
  replace (map (fun a => lookup (i_txt (a_name a)) (combine (arg_names args) vs)) args)
    with (map (fun k => lookup k (combine (arg_names args) vs ++ [])) (arg_names args)).
  - apply lookup_all; [|assumption]. unfold arg_names. now rewrite map_length.
  - rewrite app_nil_r. unfold arg_names. rewrite map_map. reflexivity.
Qed.

Lemma arg_names_length : forall args, length (arg_names args) = length args.
Proof. intros. unfold arg_names. apply map_length. Qed.

(* ------------------------------------------------------------------ client, server, client again *)

Section Glue.
  Variable fb : fallback.
  Variable svc : ident.
  Variable d : list N.
  Variable ms : list method.
  Variable impl : implementor.
  Local Notation G := (stripped fb svc d ms).
  Hypothesis Hacc : rustc_accepts G = true.
  Variable m : method.
  Hypothesis Hin : In m ms.
  Hypothesis Hen : enabled m = true.

  Definition request_of (m : method) (vs : list value) : reqval :=
    (camel m, combine (arg_names (m_args m)) vs).

  Lemma build_request_m : forall c vs, length vs = length (m_args m) ->
    build_request G
      ((lit "ctx", BVal c) :: combine (arg_names (m_args m)) (map BVal vs))
      (cf0 fb svc m)
    = Some (request_of m vs).
  Proof.
    intros c vs Hlen. unfold build_request.
    cbn [cf_enum cf_variant cf_fields cf0].
    assert (same_name (request_ident svc) (g_req G) = true) as -> by apply str_eqb_refl.
    cbn [negb]. rewrite (find_variant_m fb svc d ms Hacc m Hin Hen).
    rewrite map_map. cbn [snd].
    pose proof (lookup_vals_args_cons (lit "ctx") (BVal c) (m_args m) vs []
                  (ctx_not_arg fb svc d ms Hacc m Hin Hen) Hlen
                  (args_nodup' fb svc d ms Hacc m Hin Hen)) as HL.
    rewrite app_nil_r in HL. rewrite HL.
    rewrite map_map. cbn [fst]. fold (arg_names (m_args m)).
    cbn [v_fields variant0 v_name].
    rewrite combine_length_eq by (rewrite arg_names_length; auto).
    rewrite arg_names_length, Nat.eqb_refl. cbn [negb].
    rewrite (lookup_fields_args (m_args m) vs Hlen (args_nodup' fb svc d ms Hacc m Hin Hen)).
    reflexivity.
  Qed.

  Lemma client_request_m : forall c vs, length vs = length (m_args m) ->
    client_request G (mname m) c vs = Some (c, request_of m vs).
  Proof.
    intros c vs Hlen. unfold client_request.
    rewrite (find_client_m fb svc d ms Hacc m Hin Hen).
    cbn [cf_params cf0]. unfold bind_params.
    change (arg_names (Arg (plain "ctx") ty_context :: m_args m)) with (lit "ctx" :: arg_names (m_args m)).
    cbn [map length]. rewrite arg_names_length, map_length, Hlen, Nat.eqb_refl.
    cbn [combine]. rewrite (build_request_m c vs Hlen).
    cbn [cf_let cf_call cf0 map]. reflexivity.
  Qed.

  Lemma request_name_m : forall vs,
    request_name G (request_of m vs) = Some (display svc ++ lit "." ++ display (m_name m)).
  Proof.
    intros vs. unfold request_name, request_of. cbn [fst].
    rewrite (find_name_m fb svc d ms Hacc m Hin Hen). cbn [na_enum name0 na_text].
    assert (same_name (request_ident svc) (g_req G) = true) as -> by apply str_eqb_refl.
    reflexivity.
  Qed.

  Lemma serve_m : forall c vs, length vs = length (m_args m) ->
    serve G impl c (request_of m vs)
    = SOk (Inv (mname m) c vs) (camel m) (impl (mname m) c vs).
  Proof.
    intros c vs Hlen. unfold serve.
    set (r := request_of m vs).
    assert (bind_params (names_of (g_serve_params G)) [BVal c; BReq r]
            = Some [(lit "ctx", BVal c); (lit "req", BReq r)]) as -> by reflexivity.
    assert (lookup (i_txt (g_serve_scrut G)) [(lit "ctx", BVal c); (lit "req", BReq r)]
            = Some (BReq r)) as -> by reflexivity.
    assert (fst r = camel m) as -> by reflexivity.
    rewrite (find_arm_m fb svc d ms Hacc m Hin Hen).
    cbn [ar_enum ar_resp_enum ar_trait arm0].
    assert (same_name (request_ident svc) (g_req G) = true) as -> by apply str_eqb_refl.
    assert (same_name (response_ident svc) (g_resp G) = true) as -> by apply str_eqb_refl.
    assert (same_name svc (g_trait G) = true) as -> by apply str_eqb_refl.
    cbn [andb negb]. cbn [ar_pats arm0].
    assert (snd r = combine (arg_names (m_args m)) vs) as -> by reflexivity.
    rewrite map_length, combine_length_eq by (rewrite arg_names_length; auto).
    rewrite arg_names_length, Nat.eqb_refl. cbn [negb].
    rewrite map_map.
    rewrite (lookup_fields_args (m_args m) vs Hlen (args_nodup' fb svc d ms Hacc m Hin Hen)).
    cbn [ar_args arm0 ar_method].
    fold (mname m). rewrite (find_trait_fn_m fb svc d ms Hacc m Hin Hen).
    cbn [map eval_expr].
    (* ctx is not shadowed by an argument pattern *)
    assert (names_of (map a_name (m_args m)) = arg_names (m_args m)) as Hn.
    { unfold names_of, arg_names. now rewrite map_map. }
    rewrite Hn.
    assert (lookup_val (combine (arg_names (m_args m)) (map BVal vs)
                        ++ [(lit "ctx", BVal c); (lit "req", BReq r)])
                       (plain "ctx") = Some c) as Hc.
    { unfold lookup_val. cbn [i_txt plain].
      rewrite lookup_skip by (apply (ctx_not_arg fb svc d ms Hacc m Hin Hen)). reflexivity. }
    rewrite Hc. rewrite map_map. cbn [eval_expr all_some].
    rewrite (lookup_vals_args (m_args m) vs _ Hlen (args_nodup' fb svc d ms Hacc m Hin Hen)).
    cbn [tf_params tf0 length]. rewrite Hlen, Nat.eqb_refl. cbn [negb].
    cbn [ar_resp_variant arm0].
    destruct (find_rvariant_m fb svc d ms m Hin) as [rv [Hrv Hname]].
    rewrite Hrv. cbn [tf_name tf0]. rewrite Hname. reflexivity.
  Qed.

  Lemma client_finish_m : forall i rv ret,
    client_finish G (cf0 fb svc m) (SOk i rv ret)
    = if str_eqb (camel m) rv then ODone i ret else OFallback fb i.
  Proof.
    intros. unfold client_finish. cbn [cf_resp_enum cf0 cf_unwrap cf_fallback].
    assert (same_name (response_ident svc) (g_resp G) = true) as -> by apply str_eqb_refl.
    cbn [negb].
    destruct (find_rvariant_m fb svc d ms m Hin) as [u [Hu Hname]].
    rewrite Hu, Hname. reflexivity.
  Qed.

  Lemma client_call_m : forall c vs, length vs = length (m_args m) ->
    client_call G impl (mname m) c vs = ODone (Inv (mname m) c vs) (impl (mname m) c vs).
  Proof.
    intros c vs Hlen. unfold client_call.
    rewrite (find_client_m fb svc d ms Hacc m Hin Hen), (client_request_m c vs Hlen).
    rewrite (serve_m c vs Hlen), client_finish_m, str_eqb_refl. reflexivity.
  Qed.
End Glue.

(* ------------------------------------------------------------------ the theorems *)

Theorem glue_correct : forall serde1 fb s g,
  gen serde1 fb s = Ok g -> rustc_accepts (strip g) = true ->
  forall m, In m (s_methods s) -> enabled m = true ->
  forall (impl : implementor) c vs, length vs = length (m_args m) ->
    client_call (strip g) impl (i_txt (m_name m)) c vs
    = ODone (Inv (i_txt (m_name m)) c vs) (impl (i_txt (m_name m)) c vs).
Proof.
  intros serde1 fb s g Hgen Hacc m Hin Hen impl c vs Hlen.
  destruct (gen_ok_inv _ _ _ _ Hgen) as (d & -> & _).
  rewrite strip_generate in *.
  exact (client_call_m fb (s_name s) d (s_methods s) impl Hacc m Hin Hen c vs Hlen).
Qed.

Theorem name_correct : forall serde1 fb s g,
  gen serde1 fb s = Ok g -> rustc_accepts (strip g) = true ->
  forall m, In m (s_methods s) -> enabled m = true ->
  forall c vs, length vs = length (m_args m) ->
    exists r, client_request (strip g) (i_txt (m_name m)) c vs = Some (c, r)
              /\ request_name (strip g) r = Some (display (s_name s) ++ lit "." ++ display (m_name m)).
Proof.
  intros serde1 fb s g Hgen Hacc m Hin Hen c vs Hlen.
  destruct (gen_ok_inv _ _ _ _ Hgen) as (d & -> & _).
  rewrite strip_generate in *.
  exists (request_of m vs). split.
  - exact (client_request_m fb (s_name s) d (s_methods s) Hacc m Hin Hen c vs Hlen).
  - exact (request_name_m fb (s_name s) d (s_methods s) Hacc m Hin Hen vs).
Qed.

(* a response carrying another variant never comes back as Ok: the fallback arm runs *)
Theorem wrong_variant_not_ok : forall serde1 fb s g,
  gen serde1 fb s = Ok g -> rustc_accepts (strip g) = true ->
  forall m, In m (s_methods s) -> enabled m = true ->
  exists f, find_client (strip g) (i_txt (m_name m)) = Some f /\
    forall i rv ret, rv <> camel m ->
      client_finish (strip g) f (SOk i rv ret) = OFallback fb i.
Proof.
  intros serde1 fb s g Hgen Hacc m Hin Hen.
  destruct (gen_ok_inv _ _ _ _ Hgen) as (d & -> & _).
  rewrite strip_generate in *.
  exists (cf0 fb (s_name s) m). split.
  - exact (find_client_m fb (s_name s) d (s_methods s) Hacc m Hin Hen).
  - intros i rv ret Hne. rewrite (client_finish_m fb (s_name s) d (s_methods s) m Hin).
    destruct (str_eqb (camel m) rv) eqn:E; [|reflexivity].
    apply str_eqb_eq in E. congruence.
Qed.

(* ---- rejections *)

Lemma nodupb_dup : forall (pre : list str) x mid post, nodupb (pre ++ x :: mid ++ x :: post) = false.
Proof.
  intros. destruct (nodupb (pre ++ x :: mid ++ x :: post)) eqn:E; [|reflexivity].
  apply nodupb_NoDup in E. apply NoDup_remove_2 in E. exfalso. apply E.
  apply in_or_app. right. apply in_or_app. right. now left.
Qed.

Lemma accepts_inv_full : forall fb svc d ms,
  rustc_accepts (stripped fb svc d ms) = true ->
  let on := filter enabled ms in
  nodupb (map camel ms) = true
  /\ (forall m, In m on -> nodupb (lit "ctx" :: arg_names (m_args m)) = true)
  /\ nodupb (map mname on ++ [lit "serve"]) = true
  /\ nodupb (lit "new" :: map mname on) = true.
Proof.
  intros fb svc d ms H on. pose proof (accepts_inv fb svc d ms H) as (_ & Ha & _).
  destruct (accepts_split _ H) as (A1 & A2 & A3 & A4 & A5 & A6 & A7 & A8).
  unfold stripped in *. fold on in A5, A6.
  cbn [g_rvariants g_client_fns g_trait_fns g_trait_extra g_client_new] in *.
  repeat split.
  - rewrite map_map in A2. exact A2.
  - exact Ha.
  - unfold names_of in A5. rewrite map_app, !map_map in A5. exact A5.
  - unfold names_of in A6. rewrite map_app, !map_map in A6. exact A6.
Qed.

Lemma parse_methods_nil : forall ms, parse_methods ms = [] ->
  forall m a, In m ms -> In a (m_args m) -> is_self a = false.
Proof.
  induction ms as [|x ms IH]; intros H m a Hm Ha; [destruct Hm|]. cbn in H.
  destruct (filter is_self (m_args x)) eqn:E; [|discriminate].
  destruct Hm as [->|Hm]; [|now apply (IH H m a)].
  destruct (is_self a) eqn:Es; [|reflexivity].
  assert (In a (filter is_self (m_args m))) as C by (apply filter_In; now split).
  rewrite E in C. destruct C.
Qed.

Lemma ident_errors_nil : forall ms, ident_errors ms = [] ->
  forall m, In m ms -> ident_is (m_name m) "new" = false /\ ident_is (m_name m) "serve" = false.
Proof.
  induction ms as [|x ms IH]; intros H m Hm; [destruct Hm|]. cbn in H.
  apply app_eq_nil in H. destruct H as [H1 H2].
  destruct Hm as [->|Hm]; [|now apply IH].
  apply app_eq_nil in H1. destruct H1 as [Hn Hs].
  split.
  - destruct (ident_is (m_name m) "new"); [discriminate | reflexivity].
  - destruct (ident_is (m_name m) "serve"); [discriminate | reflexivity].
Qed.

Theorem rejected_not_miscompiled : forall serde1 fb s, collision s ->
  match gen serde1 fb s with
  | Err _ => True
  | Ok g => rustc_accepts (strip g) = false
  end.
Proof.
  intros serde1 fb s Hc. destruct (gen serde1 fb s) as [g|e] eqn:Hgen; [|exact I].
  destruct (gen_ok_inv _ _ _ _ Hgen) as (d & -> & Hpm & Hie & _).
  rewrite strip_generate.
  destruct (rustc_accepts (stripped fb (s_name s) d (s_methods s))) eqn:Hacc; [|reflexivity].
  exfalso. destruct (accepts_inv_full _ _ _ _ Hacc) as (Hcam & Hargs & Hserve & Hnew).
  destruct Hc as [pre m1 mid m2 post Hms Heq
                 | m pre a1 mid a2 post Hin Hen Hargs' Heq
                 | m a Hin Hen Ha Heq
                 | m a Hin Ha Heq
                 | m Hin Hres
                 | m Hin Hen Hres].
  - rewrite Hms, map_app in Hcam. cbn [map] in Hcam. rewrite map_app in Hcam. cbn [map] in Hcam.
    rewrite Heq, nodupb_dup in Hcam. discriminate.
  - specialize (Hargs m (in_on _ _ Hin Hen)). cbn [nodupb] in Hargs.
    apply andb_true_iff in Hargs. destruct Hargs as [_ Hnd].
    unfold arg_names in Hnd. rewrite Hargs', map_app in Hnd. cbn [map] in Hnd.
    rewrite map_app in Hnd. cbn [map] in Hnd. rewrite Heq, nodupb_dup in Hnd. discriminate.
  - specialize (Hargs m (in_on _ _ Hin Hen)). cbn [nodupb] in Hargs.
    apply andb_true_iff in Hargs. destruct Hargs as [Hctx _]. apply negb_true_iff in Hctx.
    assert (existsb (str_eqb (lit "ctx")) (arg_names (m_args m)) = true) as C.
    { apply existsb_str_In. rewrite <- Heq. unfold arg_names.
      now apply (in_map (fun a => i_txt (a_name a))). }
    congruence.
  - pose proof (parse_methods_nil _ Hpm m a Hin Ha) as C. unfold is_self in C. rewrite Heq in C.
    discriminate.
  - destruct (ident_errors_nil _ Hie m Hin) as [C1 C2].
    destruct Hres as [E|E]; rewrite E in *; discriminate.
  - assert (In (mname m) (map mname (filter enabled (s_methods s)))) as Hm
      by (apply in_map; now apply in_on).
    destruct Hres as [E|E].
    + cbn [nodupb] in Hnew. apply andb_true_iff in Hnew. destruct Hnew as [Hn _].
      apply negb_true_iff in Hn. unfold mname in Hm at 1. rewrite E in Hm.
      apply existsb_str_In in Hm. congruence.
    + apply nodupb_NoDup in Hserve. apply NoDup_remove_2 in Hserve. apply Hserve.
      rewrite app_nil_r. unfold mname in Hm at 1. now rewrite E in Hm.
Qed.

(* ------------------------------------------------------------------ the monitor accepts the model *)

Lemma list_eqb_refl : forall {A} (eqb : A -> A -> bool) l,
  (forall x, eqb x x = true) -> list_eqb eqb l l = true.
Proof. induction l as [|x l IH]; intro H; cbn; [reflexivity|]. now rewrite H, IH. Qed.

Lemma run_eqb_refl : forall r, run_eqb r r = true.
Proof.
  intros [[l n] r]. unfold run_eqb.
  rewrite (list_eqb_refl log_eqb), (list_eqb_refl str_eqb); try apply str_eqb_refl.
  - destruct r; cbn; [apply N.eqb_refl | reflexivity].
  - intros [[m [dd t]] vs]. unfold log_eqb.
    rewrite str_eqb_refl, !N.eqb_refl, (list_eqb_refl N.eqb); [reflexivity | apply N.eqb_refl].
Qed.

Lemma vals_of_length : forall args ns, length ns = length args -> length (vals_of args ns) = length args.
Proof. intros. unfold vals_of. rewrite map_length, combine_length. lia. Qed.

Lemma data_of_vals_of : forall args ns, length ns = length args -> map data_of (vals_of args ns) = ns.
Proof.
  induction args as [|a args IH]; intros [|n ns] H; try discriminate; [reflexivity|].
  unfold vals_of in *. cbn [combine map fst snd]. f_equal.
  - unfold val_of_ty. destruct (a_ty a =? ty_context); reflexivity.
  - apply IH. now inversion H.
Qed.

Lemma map_data_of : forall vs, map data_of (map VData vs) = vs.
Proof. induction vs; cbn; congruence. Qed.

Lemma valid_call_inv : forall s m ctx vs x, valid_call s (m, ctx, vs) = Some x ->
  In x (s_methods s) /\ i_txt (m_name x) = i_txt m /\ enabled x = true
  /\ length vs = length (m_args x).
Proof.
  intros s m ctx vs x H. unfold valid_call, find_method in H.
  destruct (find _ (s_methods s)) as [y|] eqn:E; [|discriminate].
  apply find_some in E. destruct E as [Hin Hn].
  destruct (enabled y) eqn:He; [|discriminate]. cbn [andb] in H.
  destruct (Nat.eqb (length vs) (length (m_args y))) eqn:Hl; [|discriminate].
  inversion H; subst. apply Nat.eqb_eq in Hl. apply str_eqb_eq in Hn. auto.
Qed.

Lemma model_run_valid : forall serde1 fb s g,
  gen serde1 fb s = Ok g -> rustc_accepts (strip g) = true ->
  forall c x, valid_call s c = Some x -> model_run s (strip g) c = Some (expected_run s x c).
Proof.
  intros serde1 fb s g Hgen Hacc [[m [dd t]] vs] x Hv.
  destruct (valid_call_inv _ _ _ _ _ Hv) as (Hin & Hname & Hen & Hlen).
  unfold model_run. rewrite Hv. rewrite <- Hname.
  assert (length (vals_of (m_args x) vs) = length (m_args x)) as Hlen' by now apply vals_of_length.
  destruct (name_correct _ _ _ _ Hgen Hacc x Hin Hen (VCtx dd t) (vals_of (m_args x) vs) Hlen')
    as (r & Hr & Hnm).
  rewrite Hr, Hnm.
  rewrite (glue_correct _ _ _ _ Hgen Hacc x Hin Hen (impl_of s) (VCtx dd t) (vals_of (m_args x) vs) Hlen').
  unfold run_of_outcome, expected_run. cbn [inv_method inv_ctx inv_args ctx_of fst snd].
  now rewrite data_of_vals_of.
Qed.

Lemma model_run_invalid : forall s g c, valid_call s c = None -> model_run s g c = None.
Proof. intros s g c H. unfold model_run. now rewrite H. Qed.

Theorem c17_monitor_holds : forall serde1 fb s calls,
  c17_ok s calls (model serde1 fb s calls) = true.
Proof.
  intros serde1 fb s calls. unfold model.
  destruct (gen serde1 fb s) as [g|e] eqn:Hgen; [|reflexivity].
  destruct (rustc_accepts (strip g)) eqn:Hacc; [|reflexivity].
  unfold c17_ok. cbn [o_compiled o_runs o_expanded o_wrong].
  apply andb_true_iff. split; [apply andb_true_iff; split|].
  - induction calls as [|c cs IH]; [reflexivity|]. cbn [map runs_ok]. rewrite IH, andb_true_r.
    destruct (valid_call s c) as [x|] eqn:Hv; [|reflexivity].
    rewrite (model_run_valid _ _ _ _ Hgen Hacc c x Hv). apply run_eqb_refl.
  - unfold expanded_ok. apply forallb_forall. intros c _.
    destruct (valid_call s c) as [x|] eqn:Hv; [|reflexivity].
    rewrite (model_run_valid _ _ _ _ Hgen Hacc c x Hv). apply run_eqb_refl.
  - unfold wrong_probe. destruct (filter enabled (s_methods s)); [reflexivity|].
    destruct (s_methods s) as [|? [|? ?]]; try reflexivity. destruct fb; reflexivity.
Qed.

(* ------------------------------------------------------------------ the equality tests are sound *)

Lemma list_eqb_sound : forall {A} (eqb : A -> A -> bool),
  (forall x y, eqb x y = true -> x = y) -> forall a b, list_eqb eqb a b = true -> a = b.
Proof.
  intros A eqb H. induction a as [|x a IH]; destruct b as [|y b]; cbn; intro E; try easy.
  apply andb_true_iff in E. destruct E as [E1 E2]. f_equal; [now apply H | now apply IH].
Qed.

Lemma ident_eqb_sound : forall a b, ident_eqb a b = true -> a = b.
Proof.
  intros [ra ta] [rb tb]. unfold ident_eqb. cbn. intro H. apply andb_true_iff in H.
  destruct H as [H1 H2]. apply Bool.eqb_prop in H1. apply str_eqb_eq in H2. now subst.
Qed.

Lemma arg_eqb_sound : forall a b, arg_eqb a b = true -> a = b.
Proof.
  intros [na ta] [nb tb]. unfold arg_eqb. cbn. intro H. apply andb_true_iff in H.
  destruct H as [H1 H2]. apply ident_eqb_sound in H1. apply N.eqb_eq in H2. now subst.
Qed.

Lemma expr_eqb_sound : forall a b, expr_eqb a b = true -> a = b.
Proof.
  intros [|x] [|y]; cbn; intro H; try easy. apply ident_eqb_sound in H. now subst.
Qed.

Lemma cfgs_eqb_sound : forall a b, cfgs_eqb a b = true -> a = b.
Proof. apply list_eqb_sound. intros x y H. now apply Bool.eqb_prop. Qed.

Lemma str_eqb_sound : forall a b, str_eqb a b = true -> a = b.
Proof. intros a b H. now apply str_eqb_eq. Qed.

Lemma N_eqb_sound : forall a b : N, (a =? b) = true -> a = b.
Proof. intros a b H. now apply N.eqb_eq. Qed.

Ltac split_andb H :=
  repeat match type of H with
         | (_ && _) = true => let H' := fresh "E" in apply andb_true_iff in H; destruct H as [H H']
         end.

Lemma generated_eqb_sound : forall a b, generated_eqb a b = true -> a = b.
Proof.
  assert (forall a b, trait_fn_eqb a b = true -> a = b) as Htf.
  { intros [] []. unfold trait_fn_eqb. cbn. intro H. split_andb H.
    apply cfgs_eqb_sound in H. apply ident_eqb_sound in E1.
    apply (list_eqb_sound _ arg_eqb_sound) in E0. apply N.eqb_eq in E. now subst. }
  assert (forall a b, variant_eqb a b = true -> a = b) as Hv.
  { intros [] []. unfold variant_eqb. cbn. intro H. split_andb H.
    apply cfgs_eqb_sound in H. apply str_eqb_eq in E0.
    apply (list_eqb_sound _ arg_eqb_sound) in E. now subst. }
  assert (forall a b, rvariant_eqb a b = true -> a = b) as Hrv.
  { intros [] []. unfold rvariant_eqb. cbn. intro H. split_andb H.
    apply str_eqb_eq in H. apply N.eqb_eq in E. now subst. }
  assert (forall a b, arm_eqb a b = true -> a = b) as Harm.
  { intros [] []. unfold arm_eqb. cbn. intro H. split_andb H.
    apply cfgs_eqb_sound in H. apply ident_eqb_sound in E6. apply str_eqb_eq in E5.
    apply (list_eqb_sound _ ident_eqb_sound) in E4. apply ident_eqb_sound in E3.
    apply str_eqb_eq in E2. apply ident_eqb_sound in E1. apply ident_eqb_sound in E0.
    apply (list_eqb_sound _ expr_eqb_sound) in E. now subst. }
  assert (forall a b, name_arm_eqb a b = true -> a = b) as Hna.
  { intros [] []. unfold name_arm_eqb. cbn. intro H. split_andb H.
    apply cfgs_eqb_sound in H. apply ident_eqb_sound in E1. apply str_eqb_eq in E0.
    apply str_eqb_eq in E. now subst. }
  assert (forall a b, pair_eqb a b = true -> a = b) as Hp.
  { intros [] []. unfold pair_eqb. cbn. intro H. split_andb H.
    apply ident_eqb_sound in H. apply ident_eqb_sound in E. now subst. }
  assert (forall a b, fallback_eqb a b = true -> a = b) as Hfb.
  { intros [] []; cbn; easy. }
  assert (forall a b, client_fn_eqb a b = true -> a = b) as Hcf.
  { intros [] []. unfold client_fn_eqb. cbn. intro H. split_andb H.
    apply cfgs_eqb_sound in H. apply ident_eqb_sound in E9.
    apply (list_eqb_sound _ arg_eqb_sound) in E8. apply N.eqb_eq in E7.
    apply ident_eqb_sound in E6. apply ident_eqb_sound in E5. apply str_eqb_eq in E4.
    apply (list_eqb_sound _ Hp) in E3. apply (list_eqb_sound _ ident_eqb_sound) in E2.
    apply ident_eqb_sound in E1. apply str_eqb_eq in E0. apply Hfb in E. now subst. }
  intros [] []. unfold generated_eqb. cbn. intro H. split_andb H.
  apply ident_eqb_sound in H. apply (list_eqb_sound _ Htf) in E15.
  apply (list_eqb_sound _ ident_eqb_sound) in E14. apply ident_eqb_sound in E13.
  apply ident_eqb_sound in E12. apply (list_eqb_sound _ ident_eqb_sound) in E11.
  apply ident_eqb_sound in E10. apply (list_eqb_sound _ Harm) in E9.
  apply ident_eqb_sound in E8. apply (list_eqb_sound _ Hv) in E7.
  apply (list_eqb_sound _ N_eqb_sound) in E6. apply (list_eqb_sound _ Hna) in E5.
  apply ident_eqb_sound in E4. apply (list_eqb_sound _ Hrv) in E3.
  apply (list_eqb_sound _ N_eqb_sound) in E2. apply ident_eqb_sound in E1.
  apply (list_eqb_sound _ ident_eqb_sound) in E0. apply (list_eqb_sound _ Hcf) in E.
  now subst.
Qed.

(* ------------------------------------------------------------------ witnesses *)

(* the unit tests of plugins/src/lib.rs *)
Example snake_to_camel_tests :
  snake_to_camel (lit "abc_def") = lit "AbcDef" /\ snake_to_camel (lit "abc_def_") = lit "AbcDef"
  /\ snake_to_camel (lit "_abc_def") = lit "AbcDef" /\ snake_to_camel (lit "abc__def") = lit "AbcDef"
  /\ snake_to_camel (lit "aBc_dEf") = lit "AbcDef".
Proof. vm_compute. repeat split. Qed.

(* a raw method identifier keeps its `r#` in the reported name: "S.r#fn", not "S.fn" *)
Definition raw_witness : service := Service (plain "S") [] [Method (Id true (lit "fn")) [] None []].

Lemma name_unraw_refuted :
  exists s g m r,
    gen true FallbackPanic s = Ok g /\ rustc_accepts (strip g) = true /\ In m (s_methods s)
    /\ client_request (strip g) (i_txt (m_name m)) (VCtx 0 0) [] = Some (VCtx 0 0, r)
    /\ request_name (strip g) r = Some (lit "S.r#fn")
    /\ request_name (strip g) r <> Some (i_txt (s_name s) ++ lit "." ++ i_txt (m_name m)).
Proof.
  exists raw_witness. eexists. exists (Method (Id true (lit "fn")) [] None []). eexists.
  split; [vm_compute; reflexivity|]. split; [vm_compute; reflexivity|].
  split; [left; reflexivity|]. split; [vm_compute; reflexivity|].
  split; [vm_compute; reflexivity|]. vm_compute. discriminate.
Qed.

(* without rustc's duplicate-definition errors the glue WOULD mis-pair: two methods with one
   variant name, the client fn of the second reaches the implementor's first *)
Definition dup_witness : service :=
  Service (plain "S") []
    [Method (plain "foo_bar") [Arg (plain "a") 1] (Some 1) [];
     Method (plain "foo__bar") [Arg (plain "a") 1] (Some 1) []].

Lemma duplicates_would_mispair :
  exists g, gen true FallbackPanic dup_witness = Ok g
    /\ rustc_accepts (strip g) = false
    /\ client_call (strip g) (impl_of dup_witness) (lit "foo__bar") (VCtx 1 2) [VData 7]
       = ODone (Inv (lit "foo_bar") (VCtx 1 2) [VData 7]) 200.
Proof. eexists. split; [vm_compute; reflexivity|]. split; vm_compute; reflexivity. Qed.

(* an argument called `context` only meets the parameter of the body-less trait declaration:
   accepted, and served correctly; an argument called `ctx` is refused *)
Definition context_witness : service :=
  Service (plain "S") [] [Method (plain "m") [Arg (plain "context") 1; Arg (plain "req") 1] (Some 1) []].
Definition ctx_witness : service :=
  Service (plain "S") [] [Method (plain "m") [Arg (plain "ctx") 1] (Some 1) []].

Lemma context_arg_accepted_ctx_arg_refused :
  (exists g, gen true FallbackPanic context_witness = Ok g /\ rustc_accepts (strip g) = true
     /\ client_call (strip g) (impl_of context_witness) (lit "m") (VCtx 1 2) [VData 7; VData 8]
        = ODone (Inv (lit "m") (VCtx 1 2) [VData 7; VData 8]) 200)
  /\ (exists g, gen true FallbackPanic ctx_witness = Ok g /\ rustc_accepts (strip g) = false).
Proof.
  split; eexists; (split; [vm_compute; reflexivity|]); [split|]; vm_compute; reflexivity.
Qed.

(* non-vacuity: a definition with raw identifiers, same-typed siblings and a cfg'd-out method
   is accepted, and a scripted run of it is what the monitor expects *)
Definition sample : service :=
  Service (Id true (lit "trait")) [ODerive [2; 3]]
    [Method (plain "get_a") [Arg (plain "x") 1; Arg (plain "y") 1] (Some 1) [];
     Method (Id true (lit "await")) [Arg (Id true (lit "struct")) 1; Arg (plain "y") 1] (Some 1) [true];
     Method (plain "gone") [Arg (plain "x") 1; Arg (plain "y") 1] (Some 1) [false];
     Method (plain "_Get__b_") [] None []].

Lemma sample_runs :
  o_compiled (model true FallbackPanic sample []) = true
  /\ o_runs (model true FallbackPanic sample
               [(Id true (lit "await"), (1001, 7001), [17; 18]); (plain "gone", (1, 1), [1; 2]);
                (plain "_Get__b_", (1003, 7003), [])])
     = [Some ([(lit "await", (1001, 7001), [17; 18])], [lit "r#trait.r#await"], Some 201);
        None;
        Some ([(lit "_Get__b_", (1003, 7003), [])], [lit "r#trait._Get__b_"], Some 0)].
Proof. split; vm_compute; reflexivity. Qed.

(* ------------------------------------------------------------------ collisions with the expansion's own identifiers *)

(* the property's dichotomy, for every definition: the toolchain rejects it, or every enabled
   method is connected to itself (for every argument vector, Context-typed arguments included) *)
Theorem rejected_or_correct : forall serde1 fb s,
  match gen serde1 fb s with
  | Err _ => True
  | Ok g =>
      rustc_accepts (strip g) = false \/
      forall m, In m (s_methods s) -> enabled m = true ->
      forall (impl : implementor) c vs, length vs = length (m_args m) ->
        client_call (strip g) impl (i_txt (m_name m)) c vs
        = ODone (Inv (i_txt (m_name m)) c vs) (impl (i_txt (m_name m)) c vs)
  end.
Proof.
  intros serde1 fb s. destruct (gen serde1 fb s) as [g|e] eqn:Hgen; [|exact I].
  destruct (rustc_accepts (strip g)) eqn:Hacc; [right|now left].
  intros m Hin Hen impl c vs Hlen. exact (glue_correct _ _ _ _ Hgen Hacc m Hin Hen impl c vs Hlen).
Qed.

(* an argument called `ctx`, whatever its type, on a method that is not cfg'd out: rejected *)
Theorem ctx_argument_rejected : forall serde1 fb s m a,
  In m (s_methods s) -> enabled m = true -> In a (m_args m) -> i_txt (a_name a) = lit "ctx" ->
  match gen serde1 fb s with
  | Err _ => True
  | Ok g => rustc_accepts (strip g) = false
  end.
Proof.
  intros serde1 fb s m a Hin Hen Ha Hn. apply rejected_not_miscompiled.
  exact (CArgCtx s m a Hin Hen Ha Hn).
Qed.

(* Why that rejection matters. A relay that forwards a caller's context as payload:
     trait Relay { async fn forward(ctx: tarpc::context::Context) -> u8; }
   The items the macro emits for it are refused (duplicate parameter `ctx` of the client fn). If
   the client fn named its context parameter `context` instead - the items `client_ctx_renamed`,
   a two-line change to the macro - nothing would be refused any more, every use would type-check,
   and the server arm would hand the implementor the ARGUMENT as the request's context. *)
Definition relay_witness : service :=
  Service (plain "Relay") [ODerive [2]]
    [Method (plain "forward") [Arg (plain "ctx") ty_context] (Some 1) []].

Definition client_ctx_renamed (g : generated) : generated :=
  Generated (g_trait g) (g_trait_fns g) (g_trait_extra g) (g_stub g) (g_server g)
    (g_serve_params g) (g_serve_scrut g) (g_arms g) (g_req g) (g_variants g) (g_req_derives g)
    (g_names g) (g_resp g) (g_rvariants g) (g_resp_derives g) (g_client g) (g_client_new g)
    (map (fun f => ClientFn (cf_cfgs f) (cf_name f)
                     (match cf_params f with
                      | Arg _ t :: r => Arg (plain "context") t :: r
                      | [] => []
                      end)
                     (cf_ret f) (cf_let f) (cf_enum f) (cf_variant f) (cf_fields f)
                     [plain "context"; plain "request"] (cf_resp_enum f) (cf_unwrap f) (cf_fallback f))
         (g_client_fns g)).

Lemma ctx_context_argument_guard :
  exists g, gen true FallbackErr relay_witness = Ok g
    /\ rustc_accepts (strip g) = false
    /\ rustc_accepts (client_ctx_renamed (strip g)) = true
    /\ client_call (client_ctx_renamed (strip g)) (impl_of relay_witness) (lit "forward")
         (VCtx 1000 7000) (vals_of [Arg (plain "ctx") ty_context] [1])
       = ODone (Inv (lit "forward") (VCtx 1 1) [VCtx 1 1]) 200.
Proof. eexists. split; [vm_compute; reflexivity|]. repeat split; vm_compute; reflexivity. Qed.

(* the other identifiers the expansion binds are harmless as argument names, also at the type
   Context: accepted, and every argument and the request's context arrive where they belong *)
Definition expansion_names_witness : service :=
  Service (plain "Relay") [ODerive [2]]
    [Method (plain "forward")
       [Arg (plain "context") ty_context; Arg (plain "req") ty_context; Arg (plain "request") ty_context;
        Arg (plain "resp") ty_context; Arg (plain "msg") ty_context; Arg (plain "service") ty_context]
       (Some 1) [];
     Method (plain "other") [Arg (plain "context") ty_context] (Some 1) []].

Lemma expansion_names_harmless :
  exists g, gen true FallbackErr expansion_names_witness = Ok g
    /\ rustc_accepts (strip g) = true
    /\ client_call (strip g) (impl_of expansion_names_witness) (lit "forward") (VCtx 1000 7000)
         [VCtx 1 1; VCtx 2 2; VCtx 3 3; VCtx 4 4; VCtx 5 5; VCtx 6 6]
       = ODone (Inv (lit "forward") (VCtx 1000 7000)
                    [VCtx 1 1; VCtx 2 2; VCtx 3 3; VCtx 4 4; VCtx 5 5; VCtx 6 6]) 200.
Proof. eexists. split; [vm_compute; reflexivity|]. split; vm_compute; reflexivity. Qed.
