(* C18, server half: for EVERY transport the request that a poll of the Requests stream hands to
   the application is, field by field (id, deadline, trace number, body), the last request the
   transport delivered during that poll; the trace number (2 * trace_id + sampled bit) is never
   rewritten on the way.  Consequence: ServerMon.c18s_ok accepts every run of the model. *)
From Coq Require Import List Bool Arith NArith Lia.
Import ListNotations.
From TarpcV Require Import Base Transport TimerWheel Server ServerMon ServerFuel ServerContract.

Section Trace.
  Context {T C : Type}.
  Variable tp : transport T response cmsg.
  Variable ctl : T -> C -> T.
  Variable tfuel : T -> nat.
  Notation st := (@sstate T).

  Definition req_call (q : treq) : call := CNext (RItem (MReq (q_id q) (q_dl q) (q_tr q) (q_body q))).
  Definition notnext (c : call) : bool := match c with CNext _ => false | _ => true end.

  (* the log (newest first) of s' is the log of s plus calls that are not reads *)
  Definition NN (s s' : st) : Prop :=
    exists pre, s_log s' = pre ++ s_log s /\ forallb notnext pre = true.

  Lemma NN_refl : forall s, NN s s. Proof. intros; exists []; split; reflexivity. Qed.
  Lemma NN_same : forall s s', s_log s' = s_log s -> NN s s'.
  Proof. intros; exists []; split; [assumption|reflexivity]. Qed.
  Lemma NN_trans : forall a b c, NN a b -> NN b c -> NN a c.
  Proof.
    intros a b c (p1 & E1 & F1) (p2 & E2 & F2). exists (p2 ++ p1). split.
    - rewrite E2, E1, app_assoc. reflexivity.
    - rewrite forallb_app, F1, F2. reflexivity.
  Qed.

  Lemma NN_ready : forall (s : st) r s', do_ready tp s = (r, s') -> NN s s'.
  Proof.
    unfold do_ready; intros s r s' H. destruct (t_ready tp (s_t s)) as [x t']. injection H as _ <-.
    exists [CReady x]. split; reflexivity.
  Qed.
  Lemma NN_flush : forall (s : st) r s', do_flush tp s = (r, s') -> NN s s'.
  Proof.
    unfold do_flush; intros s r s' H. destruct (t_flush tp (s_t s)) as [x t']. injection H as _ <-.
    exists [CFlush x]. split; reflexivity.
  Qed.
  Lemma NN_send : forall m (s : st) r s', do_send tp m s = (r, s') -> NN s s'.
  Proof.
    unfold do_send; intros m s r s' H. destruct (t_send tp (s_t s) m) as [x t']. injection H as _ <-.
    exists [CSend m x]. split; reflexivity.
  Qed.

  Lemma NN_start_send : forall m (s : st) e s', base_start_send tp m s = (e, s') -> NN s s'.
  Proof.
    unfold base_start_send; intros m s e s' H.
    pose proof (log_remove_request (resp_id m) s) as L.
    destruct (remove_request (resp_id m) s) as [was s1]. cbn [snd] in L. destruct was.
    - destruct (do_send tp m s1) as [r s2] eqn:ES. injection H as _ <-.
      eapply NN_trans; [apply NN_same; exact L|eapply NN_send; exact ES].
    - injection H as _ <-. apply NN_same; exact L.
  Qed.

  Lemma NN_ensure : forall (s : st) w s', ensure_writeable tp s = (w, s') -> NN s s'.
  Proof.
    unfold ensure_writeable; intros s w s' H.
    destruct (do_ready tp s) as [r s1] eqn:E1. pose proof (NN_ready _ _ _ E1) as N1.
    destruct r; try (injection H as _ <-; exact N1).
    destruct (do_flush tp s1) as [f s2] eqn:E2. pose proof (NN_flush _ _ _ E2) as N2.
    pose proof (NN_trans _ _ _ N1 N2) as N12.
    destruct f; try (injection H as _ <-; exact N12).
    destruct (do_ready tp s2) as [r2 s3] eqn:E3. pose proof (NN_ready _ _ _ E3) as N3.
    destruct r2; injection H as _ <-; eapply NN_trans; eauto.
  Qed.

  Lemma NN_next_response : forall (s : st) x s', poll_next_response tp s = (x, s') -> NN s s'.
  Proof.
    unfold poll_next_response; intros s x s' H.
    destruct (ensure_writeable tp s) as [w s1] eqn:E1. pose proof (NN_ensure _ _ _ E1) as N1.
    destruct w; try (injection H as _ <-; exact N1).
    destruct (s_respq s1) as [|m r]; injection H as _ <-; [exact N1|].
    eapply NN_trans; [exact N1|]. apply NN_same. rewrite log_add_permit. reflexivity.
  Qed.

  Lemma NN_pump_write : forall rc (s : st) w s', pump_write tp rc s = (w, s') -> NN s s'.
  Proof.
    unfold pump_write; intros rc s w s' H.
    destruct (poll_next_response tp s) as [x s1] eqn:E1. pose proof (NN_next_response _ _ _ E1) as N1.
    assert (Hfl : forall f s2, do_flush tp s1 = (f, s2) -> NN s s2).
    { intros f s2 E2. eapply NN_trans; [exact N1|eapply NN_flush; exact E2]. }
    destruct x as [m| |a| |].
    - destruct (base_start_send tp m s1) as [e s2] eqn:E2. injection H as _ <-.
      eapply NN_trans; [exact N1|eapply NN_start_send; exact E2].
    - destruct (do_flush tp s1) as [f s2] eqn:E2. pose proof (Hfl _ _ eq_refl) as N12.
      destruct f; injection H as _ <-; exact N12.
    - injection H as _ <-; exact N1.
    - destruct (do_flush tp s1) as [f s2] eqn:E2. pose proof (Hfl _ _ eq_refl) as N12.
      destruct f; try (injection H as _ <-; exact N12).
      destruct (rc && Nat.eqb (length (s_inflight s2)) 0); injection H as _ <-; exact N12.
    - injection H as _ <-; exact N1.
  Qed.

  (* BaseChannel::poll_next returns a request right after reading it *)
  Lemma base_req : forall f (s : st) q s',
    base_poll_next tp f s = (PReady q, s') -> exists post, s_log s' = req_call q :: post.
  Proof.
    induction f as [|f IH]; intros s q s' H; cbn [base_poll_next] in H; [discriminate|].
    destruct (match s_cancels s with
              | id :: r0 => (RSReady, snd (remove_request id (set_cancels s r0)))
              | [] => (RSClosed, s) end) as [cst s1].
    destruct (poll_expired s1) as [est s2].
    assert (Hfin : forall rst sx,
               match combine (combine cst est) rst with
               | RSReady => base_poll_next tp f sx
               | RSClosed => (PEnd, sx)
               | RSPending => (PPending, sx)
               end = (PReady q, s') -> exists post, s_log s' = req_call q :: post).
    { intros rst sx HH. destruct (combine (combine cst est) rst); [eapply IH; exact HH|discriminate|discriminate]. }
    destruct (s_fused s2); [eapply Hfin; exact H|].
    unfold do_next in H. destruct (t_next tp (s_t s2)) as [rr t'].
    destruct rr as [m| | |]; [|discriminate|eapply Hfin; exact H|eapply Hfin; exact H].
    destruct m as [id dl tr body|id tr]; [|eapply Hfin; exact H].
    match type of H with context [start_request id dl ?S3] => destruct (start_request id dl S3) as [[h s4]|] eqn:ES end.
    - injection H as <- <-. rewrite (log_start_request _ _ _ _ _ ES). sproj. eexists; reflexivity.
    - eapply IH; exact H.
  Qed.

  Lemma maxreq_req : forall f limit (s : st) q s',
    maxreq_poll_next tp f limit s = (PReady q, s') -> exists post, s_log s' = req_call q :: post.
  Proof.
    induction f as [|f IH]; intros limit s q s' H; cbn [maxreq_poll_next] in H; [discriminate|].
    destruct (limit <=? length (s_inflight s)); [|eapply base_req; exact H].
    destruct (do_ready tp s) as [r s1]. destruct r; try discriminate.
    destruct (base_poll_next tp (S f) s1) as [x s2]. destruct x as [q0| |a| |]; try discriminate.
    destruct (base_start_send tp (mkresp (q_id q0) BThrottle) s2) as [e s3].
    destruct e; [discriminate|]. eapply IH; exact H.
  Qed.

  Lemma requests_req : forall c f (s : st) q s',
    requests_poll_next tp c f s = (PReady q, s') ->
    exists pre post, s_log s' = pre ++ req_call q :: post /\ forallb notnext pre = true.
  Proof.
    induction f as [|f IH]; intros s q s' H; cbn [requests_poll_next] in H; [discriminate|].
    destruct (pump_read tp c (S f) s) as [rd s1] eqn:ER.
    destruct rd as [q0| |a| |]; try discriminate.
    - destruct (pump_write tp false s1) as [wr s2] eqn:EW.
      pose proof (NN_pump_write _ _ _ _ EW) as (pre & E & F).
      assert (Hq : exists post, s_log s1 = req_call q0 :: post).
      { unfold pump_read in ER. destruct (cfg_limit c); [eapply maxreq_req|eapply base_req]; exact ER. }
      destruct Hq as (post & Hq).
      destruct wr; try discriminate; injection H as <- <-; exists pre, post; rewrite E, Hq; auto.
    - destruct (pump_write tp true s1) as [wr s2] eqn:EW.
      destruct wr; try discriminate. eapply IH; exact H.
    - destruct (pump_write tp false s1) as [wr s2] eqn:EW.
      destruct wr; try discriminate. eapply IH; exact H.
  Qed.

  Lemma last_req_app : forall a b acc, last_req (a ++ b) acc = last_req b (last_req a acc).
  Proof.
    induction a as [|x a IH]; intros b acc; [reflexivity|]. cbn [app last_req].
    destruct x as [| | | |[[ | ]| | |]]; apply IH.
  Qed.
  Lemma last_req_nn : forall l acc, forallb notnext l = true -> last_req l acc = acc.
  Proof.
    induction l as [|x l IH]; intros acc H; [reflexivity|]. cbn in H. apply andb_prop in H as [H1 H2].
    destruct x; try discriminate; cbn [last_req]; apply IH; exact H2.
  Qed.
  Lemma forallb_rev : forall (A : Type) (p : A -> bool) l, forallb p (rev l) = forallb p l.
  Proof.
    induction l as [|x l IH]; [reflexivity|]. cbn [rev forallb]. rewrite forallb_app, IH. cbn.
    rewrite andb_true_r, andb_comm. reflexivity.
  Qed.


  Lemma scan_app : forall l g cur, c18_scan cur l = true -> (forall cur', c18_scan cur' g = true) ->
    c18_scan cur (l ++ g) = true.
  Proof.
    induction l as [|x l IH]; intros g cur H Hg; [apply Hg|]. cbn [app].
    destruct x; cbn [c18_scan] in *; try (apply IH; assumption).
    apply andb_prop in H as [H1 H2]. rewrite H1. cbn. apply IH; assumption.
  Qed.

  Lemma gauges_scan : forall (s : st) cur, c18_scan cur (gauges s) = true.
  Proof.
    intros s cur; unfold gauges. destruct (s_dropped s); [reflexivity|]. destruct (s_bad s); reflexivity.
  Qed.

  Lemma poll_requests_trace : forall c (s : st) s' l,
    poll_requests tp tfuel c s = (s', l) -> c18_poll l = true.
  Proof.
    unfold poll_requests, c18_poll; intros c s s' l H. destruct (s_dropped s); [injection H as _ <-; reflexivity|].
    destruct (requests_poll_next tp c (poll_fuel tfuel s) (set_log s [])) as [r s1] eqn:ER.
    destruct r as [q| |a| |]; injection H as _ <-; try reflexivity.
    destruct (requests_req _ _ _ _ _ ER) as (pre & post & E & F).
    cbn [c18_scan]. rewrite andb_true_r, E, rev_app_distr. cbn [rev].
    rewrite <- app_assoc, last_req_app. unfold req_call. cbn [app last_req].
    rewrite last_req_nn by (rewrite forallb_rev; exact F).
    rewrite !N.eqb_refl. reflexivity.
  Qed.

  Lemma step_trace : forall c (s : st) o, c18_poll (snd (step tp ctl tfuel c s o)) = true.
  Proof.
    intros c s o; unfold step, c18_poll.
    match goal with |- context [let '(_, _) := ?X in _] => destruct X as [s1 l] eqn:E end.
    cbn [snd]. apply scan_app; [|intros; apply gauges_scan].
    destruct o as [|x|k hs|k|k| |dt]; try (injection E as <- <-; reflexivity).
    - eapply poll_requests_trace; exact E.
    - unfold execute_poll in E. destruct (nth_error (s_handlers s) k) as [hr|]; [|injection E as <- <-; reflexivity].
      destruct (h_st hr); try (injection E as <- <-; reflexivity);
        destruct (existsb (Nat.eqb (h_h hr)) (s_aborted s));
        try (injection E as <- <-; reflexivity);
        try (destruct hs; destruct (s_dropped s); try destruct (s_permits s);
             injection E as <- <-; reflexivity);
        try (destruct (s_dropped s); injection E as <- <-; reflexivity).
    - unfold drop_handler in E. destruct (nth_error (s_handlers s) k) as [hr|]; [|injection E as <- <-; reflexivity].
      destruct (h_st hr); injection E as <- <-; reflexivity.
    - unfold drop_yielded in E. destruct (nth_error (s_handlers s) k) as [[h i [| | | | |]]|];
        injection E as <- <-; reflexivity.
  Qed.

  Lemma run_from_trace : forall c ops (s : st),
    forallb c18_poll (fst (run_from tp ctl tfuel c s ops)) = true.
  Proof.
    induction ops as [|o ops IH]; intros s; [reflexivity|]. cbn [run_from].
    pose proof (step_trace c s o) as Hs.
    destruct (step tp ctl tfuel c s o) as [s1 l]. specialize (IH s1).
    destruct (run_from tp ctl tfuel c s1 ops) as [ls s2]. cbn [fst snd forallb] in *.
    rewrite Hs, IH. reflexivity.
  Qed.
End Trace.
