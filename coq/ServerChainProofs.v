(* C04 (c) cascade, over the abstract composition: by induction on the depth. *)
From Coq Require Import List Bool Arith NArith Lia.
Import ListNotations.
From TarpcV Require Import ServerChain.

Section Cascade.
  (* final status of the handler of node i, in the quiescent state reached after the head call
     was abandoned and every woken task was polled, all transports ready *)
  Variable status : nat -> hfinal.
  Variable n : nat.                                   (* depth of the chain: nodes 1..n *)
  (* the call into node i was abandoned by its owner (the application for i = 1, handler i-1
     otherwise) while the request it carries had been transmitted *)
  Variable abandoned : nat -> Prop.
  (* server i read a Cancel for that request *)
  Variable cancel_read : nat -> Prop.

  (* structure of a chain: a nested call is made only by a handler that started, and a handler
     finishes normally only after its nested call was answered, i.e. the next handler finished *)
  Hypothesis started_chain : forall i, 1 <= i -> status (S i) <> HNotStarted -> status i <> HNotStarted.
  Hypothesis finished_chain : forall i, 1 <= i -> i < n -> status i = HFinished -> status (S i) = HFinished.

  (* CLIENT-SIDE FACT 1 (client.rs ResponseGuard::drop; to be discharged from the client
     lemmas): dropping a handler drops its outstanding call, whose guard abandons it *)
  Hypothesis client_drop_abandons : forall i, 1 <= i -> i < n ->
    status i = HDroppedF -> status (S i) <> HNotStarted -> abandoned (S i).
  (* CLIENT-SIDE FACT 2 (C03 (d); to be discharged from the client lemmas): an abandoned call
     whose request was transmitted is cancelled on the wire once the transport is ready *)
  Hypothesis client_transmits_cancel : forall i, 1 <= i -> i <= n -> abandoned i -> cancel_read i.
  (* SERVER-SIDE FACT (C04 (a) cancel_stops, with the abort waking the execute() task and the
     executor polling woken tasks): once the Cancel is read the handler does not stay unfinished *)
  Hypothesis server_aborts_on_cancel : forall i, 1 <= i -> i <= n ->
    cancel_read i -> status i <> HUnfinished.

  Lemma cascade_from : forall d i, i + d = n -> 1 <= i ->
    (abandoned i \/ status i = HNotStarted \/ status i = HFinished) ->
    forall j, i <= j -> j <= n -> status j <> HUnfinished.
  Proof.
    induction d as [|d IH]; intros i Hd Hi Hc j Hij Hjn.
    - assert (j = i) by lia. subst j.
      destruct Hc as [Ha|[Hs|Hs]]; [|rewrite Hs; discriminate|rewrite Hs; discriminate].
      apply server_aborts_on_cancel; try lia. apply client_transmits_cancel; try lia. exact Ha.
    - assert (Hme : status i <> HUnfinished).
      { destruct Hc as [Ha|[Hs|Hs]]; [|rewrite Hs; discriminate|rewrite Hs; discriminate].
        apply server_aborts_on_cancel; try lia. apply client_transmits_cancel; try lia. exact Ha. }
      destruct (Nat.eq_dec j i) as [->|Hne]; [exact Hme|].
      apply (IH (S i)); try lia.
      destruct (status i) eqn:ES.
      + (* never started: the next one never started either *)
        right; left. destruct (status (S i)) eqn:ES'; auto;
          exfalso; apply (started_chain i Hi); rewrite ?ES'; try discriminate; exact ES.
      + right; right. apply finished_chain; try lia. exact ES.
      + destruct (status (S i)) eqn:ES'; auto.
        * left. apply client_drop_abandons; try lia; [exact ES|rewrite ES'; discriminate].
        * left. apply client_drop_abandons; try lia; [exact ES|rewrite ES'; discriminate].
      + contradiction.
  Qed.

  (* abandoning the call at the head of an n-node chain leaves no unfinished handler anywhere *)
  Theorem cascade_partial : 1 <= n -> abandoned 1 ->
    forall j, 1 <= j -> j <= n -> status j <> HUnfinished.
  Proof.
    intros Hn Ha j Hj Hjn. apply (cascade_from (n - 1) 1); try lia. left; exact Ha.
  Qed.
End Cascade.
