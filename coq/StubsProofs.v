(* Proofs about the load-balancing and retry stub models (Stubs.v): C20. *)
From Coq Require Import List NArith ZArith Bool Arith Lia.
Import ListNotations.
From TarpcV Require Import Base Stubs.
Local Open Scope N_scope.

(* ---- arithmetic: how many x < t have x mod b = i ----------------------------------------- *)
Definition cnt (b t i : N) : N := t / b + (if i <? t mod b then 1 else 0).

Lemma succ_divmod t b : 0 < b ->
  if t mod b + 1 =? b
  then (t + 1) / b = t / b + 1 /\ (t + 1) mod b = 0
  else (t + 1) / b = t / b /\ (t + 1) mod b = t mod b + 1.
Proof.
  intro Hb. pose proof (N.div_mod' t b) as E. pose proof (N.mod_lt t b) as L.
  assert (Hl : t mod b < b) by (apply L; lia). clear L.
  destruct (t mod b + 1 =? b) eqn:C.
  - apply N.eqb_eq in C. split.
    + symmetry. apply (N.div_unique (t + 1) b (t / b + 1) 0); lia.
    + symmetry. apply (N.mod_unique (t + 1) b (t / b + 1) 0); lia.
  - apply N.eqb_neq in C. split.
    + symmetry. apply (N.div_unique (t + 1) b (t / b) (t mod b + 1)); lia.
    + symmetry. apply (N.mod_unique (t + 1) b (t / b) (t mod b + 1)); lia.
Qed.

Lemma cnt_succ b t i : 0 < b -> i < b ->
  cnt b (t + 1) i = cnt b t i + (if t mod b =? i then 1 else 0).
Proof.
  intros Hb Hi. unfold cnt. pose proof (succ_divmod t b Hb) as H.
  assert (Hl : t mod b < b) by (apply N.mod_lt; lia).
  destruct (N.eqb_spec (t mod b + 1) b) as [C|C]; destruct H as [H1 H2]; rewrite H1, H2.
  - destruct (N.ltb_spec i 0); [lia|].
    destruct (N.ltb_spec i (t mod b)); destruct (N.eqb_spec (t mod b) i); lia.
  - destruct (N.ltb_spec i (t mod b + 1)); destruct (N.ltb_spec i (t mod b));
      destruct (N.eqb_spec (t mod b) i); lia.
Qed.

Lemma cnt_spread b t i j : cnt b t i <= cnt b t j + 1.
Proof. unfold cnt. destruct (i <? t mod b); destruct (j <? t mod b); lia. Qed.

Lemma cnt_zero b i : cnt b 0 i = 0.
Proof.
  unfold cnt. destruct b as [|p].
  - change (0 / 0) with 0. change (0 mod 0) with 0. destruct (N.ltb_spec i 0); [lia|reflexivity].
  - rewrite N.div_0_l, N.mod_0_l by discriminate.
    destruct (N.ltb_spec i 0); [lia|reflexivity].
Qed.

(* ---- counting picks ---------------------------------------------------------------------- *)
Lemma count_nil k : count k [] = 0.
Proof. reflexivity. Qed.
Lemma count_cons k p l : count k (p :: l) = (if p =? k then 1 else 0) + count k l.
Proof.
  unfold count. cbn [filter]. destruct (p =? k); cbn [length]; lia.
Qed.
Lemma count_app k a b : count k (a ++ b) = count k a + count k b.
Proof. unfold count. rewrite filter_app, app_length. lia. Qed.

Lemma W64_pos : 0 < W64.
Proof. reflexivity. Qed.

Lemma rr_bump_lt cur : rr_bump cur < W64.
Proof. unfold rr_bump. apply N.mod_lt. discriminate. Qed.

Lemma rr_bump_nowrap cur : cur + 1 < W64 -> rr_bump cur = cur + 1.
Proof. intro H. unfold rr_bump. apply N.mod_small. exact H. Qed.

(* as long as the cursor does not wrap, the picks of n calls from cursor cur are
   cur mod b, (cur+1) mod b, ..: backend i receives cnt (cur+n) i - cnt cur i of them *)
Lemma rr_picks_count b i : 0 < b -> i < b -> forall n cur,
  cur + N.of_nat n <= W64 ->
  count i (fst (rr_picks b cur n)) + cnt b cur i = cnt b (cur + N.of_nat n) i.
Proof.
  intros Hb Hi. induction n as [|n IH]; intros cur H.
  - cbn [rr_picks fst]. rewrite count_nil, N.add_0_r. reflexivity.
  - cbn [rr_picks]. destruct n as [|n'].
    + cbn [rr_picks fst]. rewrite count_cons, count_nil. unfold rr_pick.
      change (N.of_nat 1) with 1. rewrite (cnt_succ b cur i Hb Hi). lia.
    + assert (Hc : cur + 1 < W64) by lia.
      rewrite (rr_bump_nowrap cur Hc).
      specialize (IH (cur + 1)). destruct (rr_picks b (cur + 1) (S n')) as [l c'].
      cbn [fst] in *. rewrite count_cons. unfold rr_pick.
      assert (H2 : cur + 1 + N.of_nat (S n') <= W64) by lia. specialize (IH H2).
      replace (cur + N.of_nat (S (S n'))) with (cur + 1 + N.of_nat (S n')) by lia.
      rewrite <- IH, (cnt_succ b cur i Hb Hi). lia.
Qed.

Lemma rr_picks_cursor b : forall n cur, cur < W64 ->
  snd (rr_picks b cur n) = (cur + N.of_nat n) mod W64.
Proof.
  induction n as [|n IH]; intros cur H.
  - cbn [rr_picks snd]. rewrite N.add_0_r, N.mod_small; auto.
  - cbn [rr_picks]. specialize (IH (rr_bump cur) (rr_bump_lt cur)).
    destruct (rr_picks b (rr_bump cur) n) as [l c']. cbn [snd] in *. rewrite IH.
    unfold rr_bump. rewrite N.add_mod_idemp_l by discriminate. f_equal. lia.
Qed.

Lemma rr_picks_app b : forall n m cur,
  rr_picks b cur (n + m)
  = (fst (rr_picks b cur n) ++ fst (rr_picks b (snd (rr_picks b cur n)) m),
     snd (rr_picks b (snd (rr_picks b cur n)) m)).
Proof.
  induction n as [|n IH]; intros m cur.
  - cbn [rr_picks Nat.add fst snd app]. destruct (rr_picks b cur m); reflexivity.
  - cbn [rr_picks Nat.add]. rewrite IH.
    destruct (rr_picks b (rr_bump cur) n) as [l c']. cbn [fst snd]. reflexivity.
Qed.

Lemma rr_picks_length b : forall n cur, length (fst (rr_picks b cur n)) = n.
Proof.
  induction n as [|n IH]; intro cur; [reflexivity|]. cbn [rr_picks].
  specialize (IH (rr_bump cur)). destruct (rr_picks b (rr_bump cur) n). cbn [fst length] in *.
  congruence.
Qed.

Lemma rr_picks_valid b : 0 < b -> forall n cur, Forall (fun k => k < b) (fst (rr_picks b cur n)).
Proof.
  intro Hb. induction n as [|n IH]; intro cur; [constructor|]. cbn [rr_picks].
  specialize (IH (rr_bump cur)). destruct (rr_picks b (rr_bump cur) n). cbn [fst] in *.
  constructor; [|exact IH]. unfold rr_pick. apply N.mod_lt. lia.
Qed.

(* round_robin_balanced *)
Lemma c20_round_robin_balanced : forall b n i j,
  1 <= b -> N.of_nat n <= W64 -> i < b -> j < b ->
  count i (fst (rr_picks b 0 n)) <= count j (fst (rr_picks b 0 n)) + 1.
Proof.
  intros b n i j Hb Hn Hi Hj.
  assert (Hb' : 0 < b) by lia.
  pose proof (rr_picks_count b i Hb' Hi n 0) as A.
  pose proof (rr_picks_count b j Hb' Hj n 0) as B.
  rewrite cnt_zero, N.add_0_l, N.add_0_r in A, B.
  rewrite A, B by exact Hn. apply cnt_spread.
Qed.

(* any interleaving of threads hands out exactly the picks of the sequential run *)
Lemma c20_rr_interleaving : forall b sched cur,
  map snd (rr_sched b cur sched) = fst (rr_picks b cur (length sched)).
Proof.
  intros b sched. induction sched as [|t r IH]; intro cur; [reflexivity|].
  cbn [rr_sched map snd length rr_picks]. rewrite IH.
  destruct (rr_picks b (rr_bump cur) (length r)). reflexivity.
Qed.

(* the wrap: after 2^64 calls over 3 backends the cursor is 0 again and backend 0, which already
   has one call more than the others (2^64 mod 3 = 1), is picked again *)
Lemma wrap_witness m : N.of_nat m = W64 ->
  count 0 (fst (rr_picks 3 0 (m + 1))) = count 1 (fst (rr_picks 3 0 (m + 1))) + 2.
Proof.
  intro Hm. rewrite rr_picks_app. cbn [fst].
  rewrite (rr_picks_cursor 3 m 0 W64_pos), N.add_0_l, Hm.
  change (W64 mod W64) with 0. change (fst (rr_picks 3 0 1)) with [0].
  rewrite !count_app.
  assert (H3 : 0 < 3) by reflexivity.
  assert (L0 : 0 < 3) by reflexivity. assert (L1 : 1 < 3) by reflexivity.
  pose proof (rr_picks_count 3 0 H3 L0 m 0) as A.
  pose proof (rr_picks_count 3 1 H3 L1 m 0) as B.
  rewrite cnt_zero, N.add_0_l, N.add_0_r, Hm in A, B.
  rewrite A, B by lia.
  vm_compute. reflexivity.
Qed.

Lemma c20_round_robin_wrap_refuted :
  exists n, N.of_nat n = W64 + 1
    /\ count 0 (fst (rr_picks 3 0 n)) = count 1 (fst (rr_picks 3 0 n)) + 2.
Proof.
  exists (N.to_nat W64 + 1)%nat. split.
  - rewrite Nat2N.inj_add, N2Nat.id. reflexivity.
  - apply wrap_witness. apply N2Nat.id.
Qed.

(* ---- consistent hash --------------------------------------------------------------------- *)
Lemma c20_consistent_hash_valid : forall (h : N -> N) b r, 1 <= b -> ch_pick h b r < b.
Proof. intros h b r Hb. unfold ch_pick. apply N.mod_lt. lia. Qed.

Lemma c20_consistent_hash_deterministic : forall (h : N -> N) b r1 r2,
  r1 = r2 -> ch_pick h b r1 = ch_pick h b r2.
Proof. intros; subst; reflexivity. Qed.

(* ---- retry ------------------------------------------------------------------------------- *)
Lemma iter_next_item (ovf : bool) s : (ovf = true -> s <> W32 - 1) ->
  exists s', iter_next ovf s = Some (s, s') /\ (s <> W32 - 1 -> s' = s + 1).
Proof.
  intro H. unfold iter_next. destruct (s =? W32 - 1) eqn:E.
  - apply N.eqb_eq in E. destruct ovf.
    + exfalso. apply H; auto.
    + exists 0. split; [reflexivity|]. intro; contradiction.
  - exists (s + 1). split; [reflexivity|auto].
Qed.

Lemma retry_loop_gen (ovf : bool) (pol : sres -> N -> bool) (backend : nat -> sres) (c : cx) rq k :
  N.of_nat k < (if ovf then W32 - 1 else W32) ->
  (forall j, (j < k - 1)%nat -> pol (backend j) (N.of_nat (S j)) = true) ->
  pol (backend (k - 1)%nat) (N.of_nat k) = false ->
  forall d m fuel, (m + S d = k)%nat -> (S d <= fuel)%nat ->
  retry_loop fuel ovf pol backend c rq m (N.of_nat (S m))
  = flat_map (retry_item pol backend c rq) (seq m (S d)) ++ [ODone (backend (k - 1)%nat)].
Proof.
  intros Hk Hretry Hstop. induction d as [|d IH]; intros m fuel Hm Hf;
    (destruct fuel as [|f]; [lia|]); cbn [retry_loop].
  - destruct (iter_next_item ovf (N.of_nat (S m))) as [s' [E _]].
    { intros ->. lia. }
    rewrite E. replace (k - 1)%nat with m in * by lia. replace k with (S m) in Hstop by lia.
    rewrite Hstop. cbn [seq flat_map retry_item app]. rewrite Hstop. reflexivity.
  - destruct (iter_next_item ovf (N.of_nat (S m))) as [s' [E Hs]].
    { intros ->. lia. }
    rewrite E. assert (Hne : N.of_nat (S m) <> W32 - 1) by (destruct ovf; lia).
    rewrite (Hs Hne). rewrite (Hretry m) by lia.
    replace (N.of_nat (S m) + 1) with (N.of_nat (S (S m))) by lia.
    rewrite (IH (S m) f) by lia.
    cbn [seq flat_map retry_item app]. rewrite (Hretry m) by lia. reflexivity.
Qed.

Lemma c20_retry : forall (ovf : bool) (pol : sres -> N -> bool) (backend : nat -> sres) c rq k fuel,
  (1 <= k)%nat -> (k <= fuel)%nat ->
  N.of_nat k < (if ovf then W32 - 1 else W32) ->
  (forall j, (j < k - 1)%nat -> pol (backend j) (N.of_nat (S j)) = true) ->
  pol (backend (k - 1)%nat) (N.of_nat k) = false ->
  retry fuel ovf pol backend c rq = retry_trace pol backend c rq k.
Proof.
  intros ovf pol backend c rq k fuel H1 Hf Hk Hr Hs. unfold retry, retry_trace.
  destruct k as [|d]; [lia|].
  change 1 with (N.of_nat 1).
  rewrite (retry_loop_gen ovf pol backend c rq (S d) Hk Hr Hs d O fuel) by lia.
  reflexivity.
Qed.

(* the wrap of the u32 attempt counter (no overflow checks): attempt number 2^32 is passed as 0 *)
Lemma iter_next_wrap s : s < W32 -> iter_next false s = Some (s, (s + 1) mod W32).
Proof.
  intro H. unfold iter_next. destruct (s =? W32 - 1) eqn:E.
  - apply N.eqb_eq in E. subst. reflexivity.
  - apply N.eqb_neq in E. rewrite N.mod_small; [reflexivity|].
    assert (W32 = 4294967296) by reflexivity. lia.
Qed.

Lemma retry_prefix_wrap (pol : sres -> N -> bool) (backend : nat -> sres) (c : cx) rq : forall m fuel ncall start, start < W32 ->
  (forall j, (j < m)%nat -> pol (backend (ncall + j)%nat) ((start + N.of_nat j) mod W32) = true) ->
  exists pre, retry_loop (m + fuel) false pol backend c rq ncall start
    = pre ++ retry_loop fuel false pol backend c rq (ncall + m)%nat ((start + N.of_nat m) mod W32).
Proof.
  induction m as [|m IH]; intros fuel ncall start Hs Hp.
  - exists []. cbn [Nat.add app]. rewrite Nat.add_0_r, N.add_0_r, N.mod_small by exact Hs.
    reflexivity.
  - cbn [Nat.add retry_loop]. rewrite (iter_next_wrap start Hs).
    pose proof (Hp O ltac:(lia)) as H0. rewrite Nat.add_0_r, N.add_0_r, N.mod_small in H0 by exact Hs.
    rewrite H0.
    destruct (IH fuel (S ncall) ((start + 1) mod W32)) as [pre E].
    { apply N.mod_lt. discriminate. }
    { intros j Hj. specialize (Hp (S j) ltac:(lia)).
      rewrite N.add_mod_idemp_l by discriminate.
      replace (S ncall + j)%nat with (ncall + S j)%nat by lia.
      replace (start + 1 + N.of_nat j) with (start + N.of_nat (S j)) by lia. exact Hp. }
    exists (OCall c rq (backend ncall) :: OPol (backend ncall) start true :: pre).
    cbn [app]. rewrite E. rewrite N.add_mod_idemp_l by discriminate.
    replace (S ncall + m)%nat with (ncall + S m)%nat by lia.
    replace (start + 1 + N.of_nat m) with (start + N.of_nat (S m)) by lia. reflexivity.
Qed.

Lemma retry_wrap_witness m : N.of_nat m = W32 - 1 ->
  In (OPol (SOk 0) 0 false)
     (retry (m + 1) false (fun _ i => negb (i =? 0)) (fun _ => SOk 0) (mkcx 0 0 false 0%Z) 7).
Proof.
  intro Hm. unfold retry.
  destruct (retry_prefix_wrap (fun _ i => negb (i =? 0)) (fun _ => SOk 0) (mkcx 0 0 false 0%Z) 7
              m 1%nat O 1) as [pre E].
  { reflexivity. }
  { intros j Hj. assert (W32 = 4294967296) by reflexivity.
    rewrite N.mod_small by lia. destruct (1 + N.of_nat j =? 0) eqn:Z; [|reflexivity].
    apply N.eqb_eq in Z. lia. }
  rewrite E, Hm. change ((1 + (W32 - 1)) mod W32) with 0.
  apply in_or_app. right. cbn. right. left. reflexivity.
Qed.

Lemma c20_retry_wrap_refuted :
  exists pol backend fuel c rq res,
    In (OPol res 0 false) (retry fuel false pol backend c rq).
Proof.
  exists (fun _ i => negb (i =? 0)), (fun _ => SOk 0), (N.to_nat (W32 - 1) + 1)%nat,
         (mkcx 0 0 false 0%Z), 7, (SOk 0).
  apply retry_wrap_witness. apply N2Nat.id.
Qed.

(* ---- the monitor accepts every run ------------------------------------------------------- *)
Lemma sres_eqb_refl r : sres_eqb r r = true.
Proof. destruct r; cbn; auto using N.eqb_refl. Qed.
Lemma cx_eqb_refl c : cx_eqb c c = true.
Proof. unfold cx_eqb. rewrite !N.eqb_refl, Bool.eqb_reflx, Z.eqb_refl. reflexivity. Qed.

(* retry *)
Lemma mon_retry_loop (ovf : bool) (pol : sres -> N -> bool) (backend : nat -> sres) (c : cx) rq : forall fuel ncall i,
  N.of_nat fuel + i <= W32 - 1 ->
  mon_retry c rq i (retry_loop fuel ovf pol backend c rq ncall i) = true.
Proof.
  induction fuel as [|f IH]; intros ncall i H; [reflexivity|].
  cbn [retry_loop]. destruct (iter_next_item ovf i) as [s' [E Hs]]; [intros _; lia|].
  rewrite E, Hs by lia.
  destruct (pol (backend ncall) i) eqn:D.
  - cbn [mon_retry]. rewrite cx_eqb_refl, N.eqb_refl, sres_eqb_refl, N.eqb_refl. cbn [andb].
    apply IH. lia.
  - cbn [mon_retry]. rewrite cx_eqb_refl, N.eqb_refl, !sres_eqb_refl, N.eqb_refl. reflexivity.
Qed.

Lemma mon_rt_run pol cap ovf : N.of_nat cap < W32 - 1 -> forall ops cur,
  mon_rt ops (fst (run_from (CRetry pol cap ovf) cur ops)) = true.
Proof.
  intros Hc. induction ops as [|o r IH]; intro cur; [reflexivity|].
  cbn [run_from]. destruct o; cbn [step];
    specialize (IH cur); destruct (run_from (CRetry pol cap ovf) cur r) as [ls c2];
    cbn [fst mon_rt] in *; try exact IH.
  rewrite IH, andb_true_r. unfold retry. apply mon_retry_loop. lia.
Qed.

(* consistent hash *)
Lemma mon_ch_run b h : 0 < b -> forall ops seen cur,
  (forall q k, seen_pick seen q = Some k -> k = ch_pick h b q) ->
  mon_ch b seen ops (fst (run_from (CCH b h) cur ops)) = true.
Proof.
  intros Hb. induction ops as [|o r IH]; intros seen cur Hs; [reflexivity|].
  cbn [run_from]. destruct o; cbn [step].
  - specialize (IH ((rq, ch_pick h b rq) :: seen) cur).
    destruct (run_from (CCH b h) cur r) as [ls c2]. cbn [fst mon_ch] in *.
    assert (V : ch_pick h b rq <? b = true) by (apply N.ltb_lt, N.mod_lt; lia).
    rewrite V, cx_eqb_refl, N.eqb_refl. cbn [andb].
    assert (S1 : match seen_pick seen rq with Some k' => ch_pick h b rq =? k' | None => true end
                 = true).
    { destruct (seen_pick seen rq) as [k'|] eqn:E; [|reflexivity].
      rewrite (Hs _ _ E). apply N.eqb_refl. }
    rewrite S1. cbn [andb]. apply IH.
    intros q k. cbn [seen_pick]. destruct (rq =? q) eqn:E.
    + apply N.eqb_eq in E. subst. intro A; injection A as <-. reflexivity.
    + apply Hs.
  - specialize (IH seen cur Hs). destruct (run_from (CCH b h) cur r). exact IH.
  - specialize (IH seen cur Hs). destruct (run_from (CCH b h) cur r). exact IH.
Qed.

(* round robin *)
Lemma lmax_le q l : (forall x, In x l -> x <= q) -> lmax l <= q.
Proof.
  induction l as [|x t IH]; intro H; cbn; [lia|].
  apply N.max_lub; [apply H; left; reflexivity|apply IH; intros; apply H; right; assumption].
Qed.
Lemma fold_min_ge q x t : q <= x -> (forall y, In y t -> q <= y) -> q <= fold_right N.min x t.
Proof.
  intros Hx. induction t as [|y t IH]; intro H; cbn; [exact Hx|].
  apply N.min_glb; [apply H; left; reflexivity|apply IH; intros; apply H; right; assumption].
Qed.
Lemma spread_ok_band q l : (forall x, In x l -> q <= x <= q + 1) -> spread_ok l = true.
Proof.
  intro H. unfold spread_ok. apply N.leb_le.
  destruct l as [|x t]; [cbn; lia|].
  assert (A : lmax (x :: t) <= q + 1) by (apply lmax_le; intros; apply H; assumption).
  assert (B : q <= lmin (x :: t)).
  { cbn [lmin]. apply fold_min_ge; [apply H; left; reflexivity|].
    intros; apply H; right; assumption. }
  lia.
Qed.
Lemma spread_cnt b t : spread_ok (map (cnt b t) (iota b)) = true.
Proof.
  apply (spread_ok_band (t / b)). intros x Hx. apply in_map_iff in Hx as [i [<- _]].
  unfold cnt. destruct (i <? t mod b); lia.
Qed.

Lemma zip_add_map {A} (f g : A -> N) l :
  zip_add (map f l) (map g l) = map (fun i => f i + g i) l.
Proof. induction l as [|x t IH]; cbn; [reflexivity|]. rewrite IH. reflexivity. Qed.

Lemma in_iota b i : In i (iota b) -> i < b.
Proof.
  unfold iota. intro H. apply in_map_iff in H as [n [<- Hn]]. apply in_seq in Hn. lia.
Qed.

Lemma map_ext_iota {B} b (f g : N -> B) :
  (forall i, i < b -> f i = g i) -> map f (iota b) = map g (iota b).
Proof. intro H. apply map_ext_in. intros i Hi. apply H, in_iota, Hi. Qed.

Lemma tally_nil b : tally b [] = map (cnt b 0) (iota b).
Proof. unfold tally. apply map_ext. intro i. rewrite cnt_zero. reflexivity. Qed.

(* sum of a tally = number of (valid) picks *)
Lemma lsum_map_add {A} (f g : A -> N) l :
  lsum (map (fun i => f i + g i) l) = lsum (map f l) + lsum (map g l).
Proof. induction l as [|x t IH]; cbn; [reflexivity|]. unfold lsum in *. rewrite IH. lia. Qed.
Lemma lsum_indicator k : forall len start,
  lsum (map (fun i => if k =? i then 1 else 0) (map N.of_nat (seq start len)))
  = if (N.of_nat start <=? k) && (k <? N.of_nat (start + len)) then 1 else 0.
Proof.
  induction len as [|len IH]; intro start.
  - cbn [seq map lsum fold_right]. rewrite Nat.add_0_r.
    destruct (N.leb_spec (N.of_nat start) k); destruct (N.ltb_spec k (N.of_nat start));
      cbn [andb]; try reflexivity; lia.
  - cbn [seq map]. change (lsum (?x :: ?t)) with (x + lsum t). rewrite IH.
    replace (S start + len)%nat with (start + S len)%nat by lia.
    destruct (N.eqb_spec k (N.of_nat start));
      destruct (N.leb_spec (N.of_nat (S start)) k);
      destruct (N.ltb_spec k (N.of_nat (start + S len)));
      destruct (N.leb_spec (N.of_nat start) k); cbn [andb]; lia.
Qed.
Lemma lsum_tally b l : Forall (fun k => k < b) l -> lsum (tally b l) = N.of_nat (length l).
Proof.
  unfold tally. induction l as [|k t IH]; intro H.
  - clear H. induction (iota b) as [|x r IHr]; [reflexivity|]. cbn [map]. rewrite count_nil.
    change (lsum (0 :: ?t)) with (0 + lsum t). rewrite IHr. reflexivity.
  - inversion H as [|? ? Hk Ht]; subst.
    rewrite (map_ext _ (fun i => (if k =? i then 1 else 0) + count i t))
      by (intro i; apply count_cons).
    rewrite lsum_map_add, (IH Ht). unfold iota. rewrite lsum_indicator.
    cbn [Nat.add]. rewrite N2Nat.id.
    destruct (N.of_nat 0 <=? k) eqn:A; [|apply N.leb_gt in A; lia].
    destruct (k <? b) eqn:B; [|apply N.ltb_ge in B; lia].
    cbn [andb length]. lia.
Qed.

Lemma rr_picks_count_mod b i n t : 0 < b -> i < b -> t + N.of_nat n <= W64 ->
  cnt b t i + count i (fst (rr_picks b (t mod W64) n)) = cnt b (t + N.of_nat n) i.
Proof.
  intros Hb Hi H. destruct n as [|n].
  - cbn [rr_picks fst]. rewrite count_nil, !N.add_0_r. reflexivity.
  - assert (Ht : t < W64) by lia. rewrite (N.mod_small t W64 Ht).
    rewrite <- (rr_picks_count b i Hb Hi (S n) t H). lia.
Qed.

Lemma mon_rr_run b : 0 < b -> forall ops t,
  t + calls_of ops <= W64 ->
  mon_rr b (map (cnt b t) (iota b)) ops (fst (run_from (CRR b) (t mod W64) ops)) = true.
Proof.
  intros Hb. induction ops as [|o r IH]; intros t H; [reflexivity|].
  cbn [run_from]. destruct o; cbn [step calls_of] in *.
  - (* Call *)
    assert (Ht : t < W64) by lia. rewrite (N.mod_small t W64 Ht).
    specialize (IH (t + 1)). unfold rr_bump.
    destruct (run_from (CRR b) ((t + 1) mod W64) r) as [ls c2]. cbn [fst mon_rr] in *.
    assert (V : rr_pick b t <? b = true) by (apply N.ltb_lt, N.mod_lt; lia).
    rewrite V, cx_eqb_refl, N.eqb_refl. cbn [andb].
    assert (E : zip_add (map (cnt b t) (iota b)) (tally b [rr_pick b t])
                = map (cnt b (t + 1)) (iota b)).
    { unfold tally. rewrite zip_add_map. apply map_ext_iota. intros i Hi.
      rewrite (cnt_succ b t i Hb Hi), count_cons, count_nil. unfold rr_pick. lia. }
    rewrite E, spread_cnt. cbn [andb]. apply IH. lia.
  - (* Par *)
    pose proof (rr_picks_cursor b (total ns) (t mod W64)) as Hc.
    pose proof (rr_picks_length b (total ns) (t mod W64)) as Hl.
    pose proof (rr_picks_valid b Hb (total ns) (t mod W64)) as Hv.
    assert (Hcnt : forall i, i < b ->
              cnt b t i + count i (fst (rr_picks b (t mod W64) (total ns)))
              = cnt b (t + N.of_nat (total ns)) i).
    { intros i Hi. apply rr_picks_count_mod; [exact Hb|exact Hi|lia]. }
    destruct (rr_picks b (t mod W64) (total ns)) as [l c']. cbn [fst snd] in *.
    rewrite Hc by (apply N.mod_lt; discriminate).
    rewrite N.add_mod_idemp_l by discriminate.
    specialize (IH (t + N.of_nat (total ns))).
    destruct (run_from (CRR b) ((t + N.of_nat (total ns)) mod W64) r) as [ls c2].
    cbn [fst mon_rr] in *.
    assert (L : Nat.eqb (length (tally b l)) (N.to_nat b) = true).
    { unfold tally, iota. rewrite !map_length, seq_length. apply Nat.eqb_refl. }
    rewrite L, (lsum_tally b l Hv), Hl, N.eqb_refl. cbn [andb].
    assert (E : zip_add (map (cnt b t) (iota b)) (tally b l)
                = map (cnt b (t + N.of_nat (total ns))) (iota b)).
    { unfold tally. rewrite zip_add_map. apply map_ext_iota. exact Hcnt. }
    rewrite E, spread_cnt. cbn [andb]. apply IH. lia.
  - (* RCall: not an op of this stub *)
    specialize (IH t H). destruct (run_from (CRR b) (t mod W64) r). exact IH.
Qed.

Lemma c20_monitor_holds : forall c ops, wf c ops -> c20_ok c ops (fst (run c ops)) = true.
Proof.
  intros [b|b h|pol cap ovf] ops H; unfold c20_ok, run, wf in *.
  - destruct H as [Hb Hc]. rewrite tally_nil.
    change 0 with (0 mod W64) at 2. apply mon_rr_run; lia.
  - apply mon_ch_run; [lia|]. intros q k A. discriminate.
  - apply mon_rt_run. exact H.
Qed.

(* ---- the caller's context reaches every attempt / the chosen backend unchanged ------------ *)
Lemma retry_loop_same_context (ovf : bool) (pol : sres -> N -> bool) (backend : nat -> sres) c rq :
  forall fuel ncall start c' rq' res,
  In (OCall c' rq' res) (retry_loop fuel ovf pol backend c rq ncall start) -> c' = c /\ rq' = rq.
Proof.
  induction fuel as [|f IH]; intros ncall start c' rq' res H; cbn [retry_loop] in H.
  - destruct H as [H|[]]. discriminate.
  - destruct (iter_next ovf start) as [[i s']|].
    + destruct H as [H|[H|H]]; [injection H; auto|discriminate|].
      destruct (pol (backend ncall) i).
      * exact (IH _ _ _ _ _ H).
      * destruct H as [H|[]]. discriminate.
    + destruct H as [H|[]]. discriminate.
Qed.

Lemma c20_retry_same_context :
  forall (ovf : bool) (pol : sres -> N -> bool) (backend : nat -> sres) fuel c rq c' rq' res,
  In (OCall c' rq' res) (retry fuel ovf pol backend c rq) -> c' = c /\ rq' = rq.
Proof. intros. unfold retry in H. exact (retry_loop_same_context _ _ _ _ _ _ _ _ _ _ _ H). Qed.

Lemma c20_balance_same_context : forall cf cur c rq k c' rq' resp,
  In (OPick k c' rq' resp) (snd (step cf cur (Call c rq))) -> c' = c /\ rq' = rq.
Proof.
  intros [b|b h|pol cap ovf] cur c rq k c' rq' resp H; cbn [step snd] in H.
  - destruct H as [H|[]]. injection H; auto.
  - destruct H as [H|[]]. injection H; auto.
  - destruct H.
Qed.
