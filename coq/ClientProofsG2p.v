(* C05, promptness clause (ClientMon2.v): once a dispatch poll has returned Pending at clock T,
   a caller whose request had been written by then and is due at T no longer gets Pending.
   A second invariant `simP` layered on the relation `sim` of ClientSimBase.v. *)
From Coq Require Import List Bool Arith NArith Lia ZifyBool ZifyNat ZifyN.
Import ListNotations.
From TarpcV Require Import Base Transport Client ClientS ClientMon ClientMon2 ClientSpec ClientLemmas
  ClientSimBase ClientProofsG2.
Local Open Scope N_scope.

Definition bound (sr : sentrec) : N :=
  s_time sr + N.min (s_deadline sr - s_time sr) max_timeout_ms.

Section P.
  Context {T : Type}.
  Notation cstate := (@cstate T).
  Implicit Types (s : cstate) (m : mst).

  Definition rxc s id := sl_rx_closed (get_slot s id).
  Definition txg s id := sl_tx_gone (get_slot s id).
  Definition hasv s id := sl_val (get_slot s id) <> None.
  Definition slot_ready s id : Prop := hasv s id \/ txg s id = true \/ rxc s id = true.

  Definition lp_ok (lp : option (N * nat)) m s : Prop :=
    match lp with
    | None => True
    | Some (t, q) =>
      t <= m_now m /\ (q <= m_seq m)%nat /\
      (forall sr, In sr (m_sent m) -> (s_seq sr <= q)%nat -> s_time sr <= t) /\
      (forall id w sr, In (id, w) (timers s) -> In sr (m_sent m) -> s_id sr = id ->
                       (s_seq sr <= q)%nat -> t < w)
    end.

  Record simP (lp : option (N * nat)) m s : Prop := {
    p_timer : forall id e, In (id, e) (inflight s) ->
                exists sr w, In sr (m_sent m) /\ s_id sr = id /\ In (id, w) (timers s) /\ w <= bound sr;
    p_loc : forall sr, In sr (m_sent m) -> s_ok sr = true ->
              (exists e, In (s_id sr, e) (inflight s)) \/ slot_ready s (s_id sr);
    p_open : forall i c, nth_error (calls s) i = Some c -> active (c_phase c) = true ->
               rxc s (c_id c) = false;
    p_closing : forall i c, nth_error (calls s) i = Some c -> c_phase c = PClosing ->
                  rxc s (c_id c) = true;
    p_cancels : forall id, In id (cancels s) -> id < next_id s /\ rxc s id = true;
    p_lp : lp_ok lp m s }.

  Lemma lp_ok_meq lp m m' s s' :
    lp_ok lp m s -> m_sent m' = m_sent m -> m_now m <= m_now m' -> (m_seq m <= m_seq m')%nat ->
    (forall x, In x (timers s') -> In x (timers s)) -> lp_ok lp m' s'.
  Proof.
    destruct lp as [[t q]|]; [|trivial]. intros (H1 & H2 & H3 & H4) Es Hn Hq Ht.
    cbn [lp_ok]. rewrite Es. repeat split; try lia; try assumption.
    intros id w sr Hin. apply H4, Ht, Hin.
  Qed.

  Lemma simP_meq lp m m' s :
    simP lp m s -> m_sent m' = m_sent m -> m_now m <= m_now m' -> (m_seq m <= m_seq m')%nat ->
    simP lp m' s.
  Proof.
    intros [] Es Hn Hq. constructor; rewrite ?Es; try assumption.
    eapply lp_ok_meq; try eassumption. auto.
  Qed.

  Lemma simP_frame lp m s s' :
    simP lp m s -> inflight s' = inflight s -> timers s' = timers s -> slots s' = slots s ->
    calls s' = calls s -> cancels s' = cancels s -> next_id s' = next_id s -> simP lp m s'.
  Proof.
    intros [] Ef Et Es Ec Ek En.
    constructor; unfold slot_ready, hasv, txg, rxc, get_slot in *; rewrite ?Ef, ?Et, ?Es, ?Ec, ?Ek, ?En;
      try assumption.
    destruct lp as [[t q]|]; [|trivial]. cbn [lp_ok] in *. rewrite Et. assumption.
  Qed.

  Lemma simP_rec_other lp m s c : simP lp m s -> sent_of m c = [] -> simP lp (rec_call m c) s.
  Proof.
    intros P Es. eapply simP_meq; [exact P| | |].
    - rewrite rec_call_sent, Es, app_nil_r. reflexivity.
    - rewrite rec_call_now. lia.
    - rewrite rec_call_seq. lia.
  Qed.

  (* ---- steps that leave the in-flight table alone: calls change phase, oneshot flags get set,
     cancellations are queued.  `i` / `idc`: the call whose own step it is, and its id *)
  Record srel (i : option nat) (idc : option N) s s' : Prop := {
    sr_inflight : inflight s' = inflight s;
    sr_timers : timers s' = timers s;
    sr_next : next_id s' = next_id s;
    sr_slot : forall id, (hasv s id -> hasv s' id) /\ (txg s id = true -> txg s' id = true) /\
                         (rxc s id = true -> rxc s' id = true) /\
                         (rxc s' id = true -> rxc s id = true \/ Some id = idc);
    sr_calls : forall j cj', Some j <> i -> nth_error (calls s') j = Some cj' ->
                 exists cj, nth_error (calls s) j = Some cj /\ c_id cj' = c_id cj /\
                            (active (c_phase cj') = true -> active (c_phase cj) = true) /\
                            (c_phase cj' = PClosing -> c_phase cj = PClosing);
    sr_cancels : forall id, In id (cancels s') ->
                   In id (cancels s) \/ (rxc s' id = true /\ id < next_id s) }.

  Lemma srel_refl i idc s : srel i idc s s.
  Proof.
    constructor; try reflexivity.
    - intro id. repeat split; auto.
    - intros j cj' _ H. exists cj'. auto.
    - intros id H. left; exact H.
  Qed.

  Lemma srel_trans i idc s1 s2 s3 : srel i idc s1 s2 -> srel i idc s2 s3 -> srel i idc s1 s3.
  Proof.
    intros [A1 A2 A3 A4 A5 A6] [B1 B2 B3 B4 B5 B6]. constructor; try congruence.
    - intro id. destruct (A4 id) as (a1 & a2 & a3 & a4). destruct (B4 id) as (b1 & b2 & b3 & b4).
      repeat split; auto. intro H. destruct (b4 H) as [H'|H']; [apply a4, H'|right; exact H'].
    - intros j c3 Hj H3. destruct (B5 j c3 Hj H3) as (c2 & H2 & E2 & a2 & k2).
      destruct (A5 j c2 Hj H2) as (c1 & H1 & E1 & a1 & k1). exists c1. repeat split; auto. congruence.
    - intros id H. destruct (B6 id H) as [H'|[H1 H2]].
      + destruct (A6 id H') as [H''|[H1 H2]]; [left; exact H''|right]. split; [|exact H2].
        apply (B4 id), H1.
      + right. split; [exact H1|]. rewrite <- A3. exact H2.
  Qed.

  (* what a state function must do to be such a step: a generic constructor over equalities *)
  Lemma srel_same_slots i idc s s' :
    inflight s' = inflight s -> timers s' = timers s -> next_id s' = next_id s -> slots s' = slots s ->
    calls s' = calls s -> (forall id, In id (cancels s') -> In id (cancels s)) -> srel i idc s s'.
  Proof.
    intros Ef Et En Es Ec Hk. constructor; try assumption.
    - intro id. unfold hasv, txg, rxc, get_slot. rewrite Es. repeat split; auto.
    - intros j cj' _ H. rewrite Ec in H. exists cj'. auto.
    - intros id H. left. apply Hk, H.
  Qed.

  Lemma srel_set_phase_own i idc s p : srel (Some i) idc s (set_phase s i p).
  Proof.
    rewrite set_phase_alt. constructor; try reflexivity.
    - intro id. repeat split; auto.
    - intros j cj' Hj H. cbn [calls upd_calls] in H. rewrite nth_error_phase_calls in H.
      destruct (Nat.eqb i j) eqn:E; [apply Nat.eqb_eq in E; congruence|]. exists cj'. auto.
    - intros id H. left; exact H.
  Qed.

  (* a waiter gets / loses its turn: still active *)
  Lemma srel_set_phase_active i idc s w c p :
    nth_error (calls s) w = Some c -> active (c_phase c) = true -> p <> PClosing ->
    srel i idc s (set_phase s w p).
  Proof.
    intros Hc Ha Hp. rewrite set_phase_alt. constructor; try reflexivity.
    - intro id. repeat split; auto.
    - intros j cj' Hj H. cbn [calls upd_calls] in H. apply nth_error_phase_calls_inv in H.
      destruct H as [[-> (c0 & H0 & ->)]|[_ H]].
      + rewrite Hc in H0. injection H0 as <-. exists c. cbn. repeat split; auto. intro; contradiction.
      + exists cj'. auto.
    - intros id H. left; exact H.
  Qed.

  Lemma get_slot_flags_set s id x id' :
    get_slot (set_slot s id x) id' = if N.eqb id' id then x else get_slot s id'.
  Proof. apply get_set_slot. Qed.

  Lemma srel_set_slot i idc s id x :
    (sl_val (get_slot s id) <> None -> sl_val x <> None) ->
    (sl_tx_gone (get_slot s id) = true -> sl_tx_gone x = true) ->
    (sl_rx_closed (get_slot s id) = true -> sl_rx_closed x = true) ->
    (sl_rx_closed x = true -> sl_rx_closed (get_slot s id) = true \/ Some id = idc) ->
    srel i idc s (set_slot s id x).
  Proof.
    intros H1 H2 H3 H4. constructor; try reflexivity.
    - intro id'. unfold hasv, txg, rxc. rewrite get_set_slot.
      destruct (N.eqb id' id) eqn:E; [apply N.eqb_eq in E; subst id'|]; repeat split; auto.
    - intros j cj' _ H. exists cj'. auto.
    - intros id' H. left; exact H.
  Qed.

  Lemma srel_tx_drop i idc s id : srel i idc s (slot_tx_drop s id).
  Proof. apply srel_set_slot; cbn; auto. Qed.
  Lemma srel_rx_close i s id : srel i (Some id) s (slot_rx_close s id).
  Proof. apply srel_set_slot; cbn; auto. Qed.
  Lemma srel_slot_send i idc s id o : srel i idc s (slot_send s id o).
  Proof.
    rewrite slot_send_alt. apply srel_set_slot; unfold send_val;
      destruct (sl_rx_closed (get_slot s id)) eqn:E; cbn; auto; try discriminate.
  Qed.

  Lemma srel_push_cancel i idc s id :
    rxc s id = true -> id < next_id s -> srel i idc s (push_cancel s id).
  Proof.
    intros Hr Hn. rewrite push_cancel_alt. constructor; try reflexivity.
    - intro id'. repeat split; auto.
    - intros j cj' _ H. exists cj'. auto.
    - intros id' H. cbn [cancels upd_cancels] in H. destruct (dropped s); [left; exact H|].
      apply in_app_or in H. destruct H as [H|[<-|[]]]; [left; exact H|right]. split; assumption.
  Qed.

  Lemma srel_release_permit i idc s : winv s -> srel i idc s (release_permit s).
  Proof.
    intro W. unfold release_permit. destruct (waiters s) as [|w r] eqn:Ew.
    - apply srel_same_slots; try reflexivity. auto.
    - destruct (w_acq _ W w) as (c & Hc & Hp); [rewrite Ew; left; reflexivity|].
      eapply srel_trans; [|eapply (srel_set_phase_active i idc _ w c PAssigned)].
      + apply srel_same_slots; try reflexivity. auto.
      + exact Hc.
      + rewrite Hp; reflexivity.
      + discriminate.
  Qed.

  Lemma simP_srel lp m s s' i idc :
    simP lp m s -> srel i idc s s' ->
    (forall ii c', i = Some ii -> nth_error (calls s') ii = Some c' ->
       (active (c_phase c') = true -> rxc s' (c_id c') = false) /\
       (c_phase c' = PClosing -> rxc s' (c_id c') = true)) ->
    (forall id j cj, idc = Some id -> Some j <> i -> nth_error (calls s) j = Some cj ->
       active (c_phase cj) = true -> c_id cj <> id) ->
    simP lp m s'.
  Proof.
    intros [P1 P2 P3 P4 P5 P6] [A1 A2 A3 A4 A5 A6] Hi Hu. constructor; rewrite ?A1, ?A2, ?A3.
    - exact P1.
    - intros sr Hs Hok. destruct (P2 sr Hs Hok) as [H|[H|[H|H]]]; [left; exact H|right..].
      + left. apply (A4 _), H.
      + right; left. apply (A4 _), H.
      + right; right. apply (A4 _), H.
    - intros j c' Hc' Ha. destruct i as [ii|].
      + destruct (Nat.eq_dec j ii) as [->|Hne]; [apply (Hi ii c' eq_refl Hc'), Ha|].
        destruct (A5 j c' ltac:(congruence) Hc') as (cj & Hcj & Eid & Hact & _).
        rewrite Eid. specialize (P3 j cj Hcj (Hact Ha)).
        destruct (rxc s' (c_id cj)) eqn:E; [|reflexivity].
        destruct (proj2 (proj2 (proj2 (A4 _))) E) as [H|H]; [congruence|].
        exfalso. eapply (Hu (c_id cj) j cj); try eassumption; auto. congruence.
      + destruct (A5 j c' ltac:(discriminate) Hc') as (cj & Hcj & Eid & Hact & _).
        rewrite Eid. specialize (P3 j cj Hcj (Hact Ha)).
        destruct (rxc s' (c_id cj)) eqn:E; [|reflexivity].
        destruct (proj2 (proj2 (proj2 (A4 _))) E) as [H|H]; [congruence|].
        exfalso. eapply (Hu (c_id cj) j cj); try eassumption; auto. discriminate.
    - intros j c' Hc' Hp. destruct i as [ii|].
      + destruct (Nat.eq_dec j ii) as [->|Hne]; [apply (Hi ii c' eq_refl Hc'), Hp|].
        destruct (A5 j c' ltac:(congruence) Hc') as (cj & Hcj & Eid & _ & Hcl).
        rewrite Eid. apply (A4 _). apply (P4 j cj Hcj (Hcl Hp)).
      + destruct (A5 j c' ltac:(discriminate) Hc') as (cj & Hcj & Eid & _ & Hcl).
        rewrite Eid. apply (A4 _). apply (P4 j cj Hcj (Hcl Hp)).
    - intros id H. destruct (A6 id H) as [H'|[H1 H2]].
      + destruct (P5 id H') as [H1 H2]. split; [exact H1|apply (A4 _), H2].
      + split; assumption.
    - eapply lp_ok_meq; try eassumption; try reflexivity; try lia. rewrite A2. auto.
  Qed.

  (* ---- in-flight entries leave; their oneshots are (or become) ready *)
  Lemma simP_shrink lp m s s' :
    simP lp m s -> calls s' = calls s -> next_id s' = next_id s ->
    (forall id, In id (cancels s') -> In id (cancels s)) ->
    (forall x, In x (inflight s') -> In x (inflight s)) ->
    (forall x, In x (timers s') -> In x (timers s)) ->
    (forall id e w, In (id, e) (inflight s') -> In (id, w) (timers s) -> In (id, w) (timers s')) ->
    (forall id, (hasv s id -> hasv s' id) /\ (txg s id = true -> txg s' id = true) /\
                rxc s' id = rxc s id) ->
    (forall id e, In (id, e) (inflight s) -> (exists e', In (id, e') (inflight s')) \/ slot_ready s' id) ->
    simP lp m s'.
  Proof.
    intros [P1 P2 P3 P4 P5 P6] Ec En Hk Hf Ht Hkeep Hs Hrem. constructor; rewrite ?Ec, ?En.
    - intros id e Hin. destruct (P1 id e (Hf _ Hin)) as (sr & w & H1 & H2 & H3 & H4).
      exists sr, w. repeat split; try assumption. eapply Hkeep; eassumption.
    - intros sr Hsr Hok. destruct (P2 sr Hsr Hok) as [[e H]|[H|[H|H]]].
      + destruct (Hrem _ _ H) as [H'|H']; [left; exact H'|right; exact H'].
      + right; left. apply (Hs _), H.
      + right; right; left. apply (Hs _), H.
      + right; right; right. rewrite (proj2 (proj2 (Hs _))). exact H.
    - intros i c Hc Ha. rewrite (proj2 (proj2 (Hs _))). eapply P3; eassumption.
    - intros i c Hc Hp. rewrite (proj2 (proj2 (Hs _))). eapply P4; eassumption.
    - intros id H. rewrite (proj2 (proj2 (Hs _))). apply P5, Hk, H.
    - eapply lp_ok_meq; try eassumption; try reflexivity; lia.
  Qed.
End P.

Section PM.
  Context {T : Type}.
  Notation cstate := (@cstate T).
  Implicit Types (s : cstate) (m : mst).

  Lemma slot_send_flags s id o id0 :
    (hasv s id0 -> hasv (slot_send s id o) id0) /\
    (txg s id0 = true -> txg (slot_send s id o) id0 = true) /\
    rxc (slot_send s id o) id0 = rxc s id0.
  Proof.
    unfold hasv, txg, rxc. rewrite slot_send_alt, get_set_slot.
    destruct (N.eqb id0 id) eqn:E; [apply N.eqb_eq in E; subst id0|auto].
    unfold send_val. destruct (sl_rx_closed (get_slot s id)) eqn:Er; cbn; repeat split; auto; discriminate.
  Qed.

  Lemma slot_send_txg s id o : txg (slot_send s id o) id = true.
  Proof.
    unfold txg. rewrite slot_send_alt, get_set_slot, N.eqb_refl. unfold send_val.
    destruct (sl_rx_closed (get_slot s id)); reflexivity.
  Qed.

  (* slot flags do not depend on the other fields *)
  Lemma flags_upd_if s a b id :
    (hasv (upd_if s a b) id <-> hasv s id) /\ txg (upd_if s a b) id = txg s id /\
    rxc (upd_if s a b) id = rxc s id.
  Proof. unfold hasv, txg, rxc, get_slot. cbn. repeat split; auto. Qed.

  Lemma simP_remove_send lp m s id o :
    simP lp m s ->
    simP lp m (slot_send (upd_if s (aremove id (inflight s)) (aremove id (timers s))) id o).
  Proof.
    intro P. set (x := upd_if s (aremove id (inflight s)) (aremove id (timers s))).
    eapply simP_shrink; [exact P|rewrite slot_send_alt; reflexivity..| | | | | | ].
    - rewrite slot_send_alt. auto.
    - rewrite slot_send_alt. cbn. intros [k v] H. apply In_aremove in H. tauto.
    - rewrite slot_send_alt. cbn. intros [k v] H. apply In_aremove in H. tauto.
    - rewrite slot_send_alt. cbn. intros id' e w H Hw. apply In_aremove in H.
      apply In_aremove_intro; tauto.
    - intro id0. destruct (slot_send_flags x id o id0) as (F1 & F2 & F3).
      destruct (flags_upd_if s (aremove id (inflight s)) (aremove id (timers s)) id0) as (G1 & G2 & G3).
      fold x in G1, G2, G3. repeat split.
      + intro H. apply F1, G1, H.
      + intro H. apply F2. rewrite G2. exact H.
      + rewrite F3. exact G3.
    - intros id0 e Hin. destruct (N.eq_dec id0 id) as [->|Hne].
      + right. right; left. apply slot_send_txg.
      + left. exists e. rewrite slot_send_alt. cbn. apply In_aremove_intro; assumption.
  Qed.

  Lemma simP_complete_request lp m s id o :
    simP lp m s -> simP lp m (snd (complete_request s id o)).
  Proof.
    intro P. unfold complete_request. destruct (alookup id (inflight s)); [|exact P].
    cbn [snd]. apply simP_remove_send, P.
  Qed.

  Lemma simP_cancel_request lp m s id :
    simP lp m s -> rxc s id = true -> simP lp m (snd (cancel_request s id)).
  Proof.
    intros P Hr. unfold cancel_request. destruct (alookup id (inflight s)); [|exact P]. cbn [snd].
    eapply simP_shrink; [exact P|reflexivity..| | | | | | ]; cbn.
    - auto.
    - intros [k v] H. apply In_aremove in H. tauto.
    - intros [k v] H. apply In_aremove in H. tauto.
    - intros id' e w H Hw. apply In_aremove in H. apply In_aremove_intro; tauto.
    - intro id0. unfold hasv, txg, rxc, get_slot. cbn. auto.
    - intros id0 e Hin. destruct (N.eq_dec id0 id) as [->|Hne].
      + right. right; right. exact Hr.
      + left. exists e. apply In_aremove_intro; assumption.
  Qed.

  Lemma simP_poll_expired lp m s : simP lp m s -> simP lp m (snd (poll_expired s)).
  Proof.
    intro P. unfold poll_expired.
    destruct (min_timer (timers s) None) as [[id w]|]; [|exact P].
    destruct (w <=? now s); [|exact P]. cbn [inflight timers upd_if].
    destruct (alookup id (inflight s)) as [e|] eqn:Ef; cbn [snd].
    - apply (simP_remove_send lp m s id ODeadline P).
    - eapply simP_shrink; [exact P|reflexivity..| | | | | | ]; cbn.
      + auto.
      + auto.
      + intros [k v] H. apply In_aremove in H. tauto.
      + intros id' e w' H Hw. apply In_aremove_intro; [exact Hw|]. intros ->.
        apply alookup_none_notin in Ef. apply Ef. apply (in_map fst) in H. exact H.
      + intro id0. unfold hasv, txg, rxc, get_slot. cbn. auto.
      + intros id0 e Hin. left. exists e. exact Hin.
  Qed.

  Lemma fold_slot_send_flags {A} (f : A -> N) o (l : list A) s id0 :
    (hasv s id0 -> hasv (fold_left (fun acc p => slot_send acc (f p) o) l s) id0) /\
    (txg s id0 = true -> txg (fold_left (fun acc p => slot_send acc (f p) o) l s) id0 = true) /\
    rxc (fold_left (fun acc p => slot_send acc (f p) o) l s) id0 = rxc s id0 /\
    (In id0 (map f l) -> txg (fold_left (fun acc p => slot_send acc (f p) o) l s) id0 = true).
  Proof.
    revert s. induction l as [|a r IH]; intro s; cbn [fold_left map].
    - repeat split; auto; intros [].
    - destruct (IH (slot_send s (f a) o)) as (I1 & I2 & I3 & I4).
      destruct (slot_send_flags s (f a) o id0) as (F1 & F2 & F3). repeat split; auto.
      + rewrite I3. exact F3.
      + intros [<-|H]; [apply I2, slot_send_txg|apply I4, H].
  Qed.

  Lemma fold_slot_send_other {A} (f : A -> N) o (l : list A) s :
    let s' := fold_left (fun acc p => slot_send acc (f p) o) l s in
    calls s' = calls s /\ cancels s' = cancels s /\ next_id s' = next_id s /\
    inflight s' = inflight s /\ timers s' = timers s.
  Proof.
    revert s. induction l as [|a r IH]; intro s; cbn [fold_left]; [repeat split|].
    destruct (IH (slot_send s (f a) o)) as (I1 & I2 & I3 & I4 & I5). cbv zeta.
    rewrite I1, I2, I3, I4, I5, slot_send_alt. repeat split.
  Qed.

  Lemma simP_complete_all lp m s o : simP lp m s -> simP lp m (complete_all s o).
  Proof.
    intro P. unfold complete_all.
    destruct (fold_slot_send_other fst o (inflight s) (upd_if s [] [])) as (E1 & E2 & E3 & E4 & E5).
    eapply simP_shrink; [exact P|rewrite ?E1, ?E3; reflexivity..| | | | | | ].
    - rewrite E2. auto.
    - rewrite E4. intros x [].
    - rewrite E5. intros x [].
    - rewrite E4. intros id e w [].
    - intro id0. destruct (fold_slot_send_flags fst o (inflight s) (upd_if s [] []) id0) as (F1 & F2 & F3 & _).
      destruct (flags_upd_if s [] [] id0) as (G1 & G2 & G3). repeat split.
      + intro H. apply F1, G1, H.
      + intro H. apply F2. rewrite G2. exact H.
      + rewrite F3. exact G3.
    - intros id0 e Hin. right. right; left.
      destruct (fold_slot_send_flags fst o (inflight s) (upd_if s [] []) id0) as (_ & _ & _ & F4).
      apply F4. apply (in_map fst) in Hin. exact Hin.
  Qed.

  Lemma simP_nosteps lp m s s' :
    simP lp m s -> srel None None s s' -> simP lp m s'.
  Proof.
    intros P R. eapply simP_srel; [exact P|exact R| |]; intros; discriminate.
  Qed.

  Lemma simP_q_poll_recv lp m s : winv s -> simP lp m s -> simP lp m (snd (q_poll_recv s)).
  Proof.
    intros W P. unfold q_poll_recv. destruct (queue s) as [|q r]; cbn [snd].
    - destruct (Nat.eqb (senders s) 0); [exact P|].
      destruct (rx_closed s && Nat.eqb (assigned_count s) 0); exact P.
    - eapply simP_nosteps; [exact P|].
      eapply srel_trans; [|apply srel_release_permit].
      + apply srel_same_slots; try reflexivity. auto.
      + eapply winv_frame; [exact W|reflexivity..].
  Qed.

  Lemma simP_slot_tx_drop lp m s id : simP lp m s -> simP lp m (slot_tx_drop s id).
  Proof. intro P. eapply simP_nosteps; [exact P|apply srel_tx_drop]. Qed.
  Lemma simP_slot_send lp m s id o : simP lp m s -> simP lp m (slot_send s id o).
  Proof. intro P. eapply simP_nosteps; [exact P|apply srel_slot_send]. Qed.

  Lemma fold_phase_calls_inv (l : list nat) p cl j cj' :
    nth_error (fold_left (fun cl w => phase_calls cl w p) l cl) j = Some cj' ->
    exists cj, nth_error cl j = Some cj /\ c_id cj' = c_id cj /\
               (c_phase cj' = c_phase cj \/ (In j l /\ c_phase cj' = p)).
  Proof.
    revert cl. induction l as [|w r IH]; intro cl; cbn [fold_left].
    - intro H. exists cj'. auto.
    - intro H. destruct (IH _ H) as (c1 & H1 & E1 & D1).
      apply nth_error_phase_calls_inv in H1. destruct H1 as [[-> (c0 & H0 & ->)]|[Hne H1]].
      + exists c0. cbn in *. repeat split; auto. right. split; [left; reflexivity|].
        destruct D1 as [D1|[_ D1]]; exact D1.
      + exists c1. repeat split; auto. destruct D1 as [D1|[D1 D2]]; [left; exact D1|right].
        split; [right; exact D1|exact D2].
  Qed.

  Lemma simP_q_close lp m s : winv s -> simP lp m s -> simP lp m (q_close s).
  Proof.
    intros W P. unfold q_close. destruct (rx_closed s); [exact P|].
    rewrite fold_set_phase_alt. eapply simP_nosteps; [exact P|].
    constructor; try reflexivity.
    - intro id. repeat split; auto.
    - intros j cj' _ H. cbn [calls upd_q upd_calls] in H. apply fold_phase_calls_inv in H.
      destruct H as (cj & Hcj & Eid & D). exists cj. repeat split; auto.
      + intro Ha. destruct D as [D|[Hin D]]; [rewrite <- D; exact Ha|].
        destruct (w_acq _ W j Hin) as (c0 & H0 & Hp). rewrite Hcj in H0. injection H0 as <-.
        rewrite Hp. reflexivity.
      + intro Hp. destruct D as [D|[_ D]]; congruence.
    - intros id H. left; exact H.
  Qed.

  Lemma simP_send_request lp m s q r t f l :
    sim m (withq s q) -> simP lp m s ->
    simP lp (rec_call m (req_call q r))
         (match r with
          | SOk => upd_tr (insert_request s q) t f l
          | SErr => snd (complete_request (upd_tr (insert_request s q) t f l) (q_id q) OSendErr)
          end).
  Proof.
    intros Sq P. destruct Sq as [Cq _ Dq]. destruct P as [P1 P2 P3 P4 P5 P6].
    set (m' := rec_call m (req_call q r)).
    set (sr := {| s_id := q_id q; s_deadline := q_deadline q; s_tc := q_tc q; s_body := q_body q;
                  s_ok := match r with SOk => true | SErr => false end;
                  s_seq := S (m_seq m); s_time := m_now m |}).
    assert (Es : m_sent m' = m_sent m ++ [sr]) by reflexivity.
    assert (Eq : m_seq m' = S (m_seq m)) by reflexivity.
    assert (En : m_now m' = m_now m) by reflexivity.
    assert (Huns : forall x, In x (m_sent m) -> s_id x <> q_id q).
    { intros x Hx. apply (sd_queue_unsent _ _ Dq q x); [left; reflexivity|exact Hx]. }
    assert (P' : simP lp m' (upd_tr (insert_request s q) t f l)).
    { constructor; cbn [calls cancels next_id inflight timers upd_tr insert_request upd_if]; rewrite ?Es.
      - intros id e Hin. apply In_aset in Hin. destruct Hin as [[-> ->]|[Hin Hne]].
        + exists sr, (timer_instant s (q_deadline q)). split; [apply in_or_app; right; left; reflexivity|].
          split; [reflexivity|]. split; [left; reflexivity|].
          unfold bound, timer_instant. cbn [s_time s_deadline sr]. rewrite (sc_now _ _ Cq). cbn. lia.
        + destruct (P1 id e Hin) as (x & w & H1 & H2 & H3 & H4). exists x, w.
          split; [apply in_or_app; left; exact H1|]. split; [exact H2|]. split; [|exact H4].
          right. apply In_aremove_intro; assumption.
      - intros x Hx Hok. apply in_app_or in Hx. destruct Hx as [Hx|[<-|[]]].
        + destruct (P2 x Hx Hok) as [[e H]|H]; [left|right; exact H].
          exists e. right. apply In_aremove_intro; [exact H|]. apply Huns, Hx.
        + left. eexists. left. reflexivity.
      - exact P3.
      - exact P4.
      - exact P5.
      - destruct lp as [[t0 q0]|]; [|trivial]. destruct P6 as (H1 & H2 & H3 & H4).
        cbn [lp_ok]. rewrite Es, Eq, En. cbn [timers upd_tr insert_request upd_if]. repeat split; try lia.
        + intros x Hx Hq. apply in_app_or in Hx. destruct Hx as [Hx|[<-|[]]]; [apply H3; assumption|].
          cbn in Hq. lia.
        + intros id w x Hin Hx Hid Hq. apply in_app_or in Hx. destruct Hx as [Hx|[<-|[]]].
          * apply In_aset in Hin. destruct Hin as [[-> ->]|[Hin Hne]].
            -- exfalso. apply (Huns x Hx). exact Hid.
            -- eapply H4; eassumption.
          * cbn in Hq. lia. }
    destruct r; [exact P'|]. apply simP_complete_request, P'.
  Qed.

  Lemma simP_read_complete lp m s x :
    simP lp m s -> simP lp (rec_call m (CNext (RItem x))) (complete s x).
  Proof.
    intro P. unfold complete. apply simP_complete_request. apply simP_rec_other; [exact P|reflexivity].
  Qed.
End PM.

Section PDispatch.
  Context {T : Type} (tp : transport T cmsg resp) (maxif : nat) (mb : mst) (lp : option (N * nat)).
  Notation cstate := (@cstate T).
  Implicit Types (s : cstate).

  Definition dP s : Prop := dsim maxif mb s /\ simP lp (cur mb s) s.

  Lemma dP_same_log s s' :
    dP s -> plog s' = plog s -> sim (cur mb s) s' -> simP lp (cur mb s) s' -> dP s'.
  Proof.
    intros [D P] E S' P'. split; [eapply dsim_same_log; eassumption|].
    unfold cur in *. rewrite E. exact P'.
  Qed.

  Lemma dP_other s t f c :
    dP s -> sent_of (cur mb s) c = [] -> read_of (cur mb s) c = [] ->
    v18 (chk_call maxif (cur mb s) c) = true -> dP (upd_tr s t f (plog s ++ [c])).
  Proof.
    intros [D P] Es Er V. split; [apply dsim_other; assumption|].
    unfold cur. cbn [plog upd_tr]. rewrite mrun_snoc.
    eapply simP_frame; [apply simP_rec_other; [exact P|exact Es]|reflexivity..].
  Qed.

  Lemma dP_do_ready s : dP s -> dP (snd (do_ready tp s)).
  Proof.
    intro H. unfold do_ready. destruct (t_ready tp (tr s)) as [r t]. cbn [snd].
    apply dP_other; [exact H|reflexivity..].
  Qed.
  Lemma dP_do_flush s : dP s -> dP (snd (do_flush tp s)).
  Proof.
    intro H. unfold do_flush. destruct (t_flush tp (tr s)) as [r t]. cbn [snd].
    apply dP_other; [exact H|reflexivity..].
  Qed.
  Lemma dP_do_close s : dP s -> dP (snd (do_close tp s)).
  Proof.
    intro H. unfold do_close. destruct (t_close tp (tr s)) as [r t]. cbn [snd].
    apply dP_other; [exact H|reflexivity..].
  Qed.

  Lemma dP_pump_read s : dP s -> dP (snd (pump_read tp s)).
  Proof.
    intro H. split; [apply dsim_pump_read, H|]. destruct H as [D P].
    unfold pump_read, do_next. destruct (fused s); [exact P|].
    destruct (t_next tp (tr s)) as [r t].
    assert (O : forall c, sent_of (cur mb s) c = [] ->
              simP lp (cur mb (upd_tr s t (match r with REof => true | _ => false end) (plog s ++ [c])))
                   (upd_tr s t (match r with REof => true | _ => false end) (plog s ++ [c]))).
    { intros c Es. unfold cur. cbn [plog upd_tr]. rewrite mrun_snoc.
      eapply simP_frame; [apply simP_rec_other; [exact P|exact Es]|reflexivity..]. }
    destruct r as [x| | |]; cbn [snd]; try (apply O; reflexivity).
    unfold cur. rewrite plog_complete. cbn [plog upd_tr]. rewrite mrun_snoc.
    apply simP_read_complete. eapply simP_frame; [exact P|reflexivity..].
  Qed.

  Lemma dP_ensure_writeable s : dP s -> dP (snd (ensure_writeable tp s)).
  Proof.
    intro H. unfold ensure_writeable.
    destruct (do_ready tp s) as [r s1] eqn:E1. pose proof (dP_do_ready s H) as H1.
    rewrite E1 in H1. cbn [snd] in H1. destruct r; try exact H1.
    destruct (do_flush tp s1) as [f s2] eqn:E2. pose proof (dP_do_flush s1 H1) as H2.
    rewrite E2 in H2. cbn [snd] in H2. destruct f; try exact H2.
    destruct (do_ready tp s2) as [r2 s3] eqn:E3. pose proof (dP_do_ready s2 H2) as H3.
    rewrite E3 in H3. cbn [snd] in H3. destruct r2; exact H3.
  Qed.

  Lemma dP_next_request_loop f s :
    dP s ->
    match fst (next_request_loop f s) with
    | PSome q => dsim maxif mb (withq (snd (next_request_loop f s)) q) /\
                 simP lp (cur mb (snd (next_request_loop f s))) (snd (next_request_loop f s))
    | _ => dP (snd (next_request_loop f s))
    end.
  Proof.
    revert s. induction f as [|f IH]; intros s H; cbn [next_request_loop]; [exact H|].
    destruct H as [D P].
    pose proof (sim_q_poll_recv _ _ (ds_sim _ _ _ D)) as R. pose proof (plog_q_poll_recv s) as L.
    pose proof (simP_q_poll_recv lp _ s (sim_w _ _ (ds_sim _ _ _ D)) P) as P1.
    destruct (q_poll_recv s) as [r s1]. cbn [fst snd] in R, L, P1.
    destruct r as [q| |]; cbn [fst snd]; try (subst s1; split; assumption).
    assert (Hq : dsim maxif mb (withq s1 q)).
    { destruct D as [H1 H2]. constructor; unfold cur in *; cbn [plog withq upd_q]; rewrite L; assumption. }
    assert (P1' : simP lp (cur mb s1) s1) by (unfold cur in *; rewrite L; exact P1).
    destruct (sl_rx_closed (get_slot s1 (q_id q))); [|split; assumption].
    apply IH. pose proof (dsim_withq_drop _ _ _ _ Hq) as D1. split.
    - eapply dsim_same_log; [exact D1|reflexivity|].
      eapply sim_sbc; [apply D1|apply sbc_tx_drop, sbc_refl|reflexivity..].
    - apply simP_slot_tx_drop. exact P1'.
  Qed.

  Lemma dP_poll_next_request s :
    dP s ->
    match fst (poll_next_request tp s) with
    | PSome q => dsim maxif mb (withq (snd (poll_next_request tp s)) q) /\
                 simP lp (cur mb (snd (poll_next_request tp s))) (snd (poll_next_request tp s))
    | _ => dP (snd (poll_next_request tp s))
    end.
  Proof.
    intro H. unfold poll_next_request. destruct (max_if s <=? length (inflight s))%nat; [exact H|].
    destruct (ensure_writeable tp s) as [w s1] eqn:E1. pose proof (dP_ensure_writeable s H) as H1.
    rewrite E1 in H1. cbn [snd] in H1. destruct w; try exact H1.
    apply dP_next_request_loop, H1.
  Qed.

  Lemma dP_poll_write_request s : dP s -> dP (snd (poll_write_request tp s)).
  Proof.
    intro H. split; [apply dsim_poll_write_request, H|]. unfold poll_write_request.
    pose proof (dP_poll_next_request s H) as H1.
    destruct (poll_next_request tp s) as [r s1]. cbn [fst snd] in H1.
    destruct r as [q| | |a]; try apply H1. destruct H1 as [D1 P1].
    unfold do_send.
    destruct (t_send tp (tr (insert_request s1 q)) (MReq (q_id q) (q_deadline q) (q_tc q) (q_body q)))
      as [w t].
    pose proof (simP_send_request lp (cur mb s1) s1 q w t (fused (insert_request s1 q))
                  (plog (insert_request s1 q) ++ [req_call q w]) (ds_sim _ _ _ D1) P1) as P2.
    destruct w; cbn [snd]; unfold cur in *.
    - cbn [plog upd_tr insert_request upd_if]. rewrite mrun_snoc. exact P2.
    - rewrite plog_complete_request. cbn [plog upd_tr insert_request upd_if]. rewrite mrun_snoc. exact P2.
  Qed.

  Lemma dP_next_cancel_loop f s : dP s -> dP (snd (next_cancel_loop f s)).
  Proof.
    revert s. induction f as [|f IH]; intros s H; cbn [next_cancel_loop]; [exact H|].
    destruct H as [D P].
    unfold c_poll_recv. destruct (cancels s) as [|id r] eqn:Ek.
    - destruct (Nat.eqb (senders s) 0); split; assumption.
    - assert (H1 : dP (upd_cancels s r)).
      { eapply dP_same_log; [split; eassumption|reflexivity| |].
        - eapply sim_frame; [apply D|reflexivity..].
        - eapply simP_nosteps; [exact P|]. apply srel_same_slots; try reflexivity.
          cbn. rewrite Ek. intros x Hx. right; exact Hx. }
      assert (Hr : rxc (upd_cancels s r) id = true).
      { apply (p_cancels _ _ _ P id). rewrite Ek. left; reflexivity. }
      destruct H1 as [D1 P1].
      pose proof (sim_cancel_request _ _ id (ds_sim _ _ _ D1)) as [S2 _].
      pose proof (plog_cancel_request (upd_cancels s r) id) as L2.
      pose proof (simP_cancel_request lp _ _ id P1 Hr) as P2.
      destruct (cancel_request (upd_cancels s r) id) as [e s2]. cbn [fst snd] in S2, L2, P2.
      assert (H2 : dP s2).
      { eapply dP_same_log; [split; eassumption|exact L2|exact S2|exact P2]. }
      destruct e as [e|]; cbn [snd]; [exact H2|apply IH, H2].
  Qed.

  Lemma dP_poll_write_cancel s : dP s -> dP (snd (poll_write_cancel tp s)).
  Proof.
    intro H. split; [apply dsim_poll_write_cancel, H|]. unfold poll_write_cancel, poll_next_cancellation.
    destruct (ensure_writeable tp s) as [w s1] eqn:E1. pose proof (dP_ensure_writeable s H) as H1.
    rewrite E1 in H1. cbn [snd] in H1. destruct w; try apply H1.
    pose proof (dP_next_cancel_loop (S (length (cancels s1))) s1 H1) as H2.
    destruct (next_cancel_loop (S (length (cancels s1))) s1) as [r s2]. cbn [snd] in H2.
    destruct r as [[id e]| | |a]; try apply H2.
    unfold do_send. destruct (t_send tp (tr s2) (MCancel id (if_tc e))) as [w t].
    assert (P3 : simP lp (cur mb (upd_tr s2 t (fused s2) (plog s2 ++ [CSend (MCancel id (if_tc e)) w])))
                      (upd_tr s2 t (fused s2) (plog s2 ++ [CSend (MCancel id (if_tc e)) w]))).
    { unfold cur. cbn [plog upd_tr]. rewrite mrun_snoc.
      eapply simP_frame; [apply simP_rec_other; [apply H2|reflexivity]|reflexivity..]. }
    destruct w; exact P3.
  Qed.

  Lemma dP_poll_expired s : dP s -> dP (snd (poll_expired s)).
  Proof.
    intros [D P]. eapply dP_same_log; [split; eassumption|apply plog_poll_expired| |].
    - apply sim_poll_expired, D.
    - apply simP_poll_expired, P.
  Qed.

  Lemma dP_pump_write s : dP s -> dP (snd (pump_write tp s)).
  Proof.
    intro H. unfold pump_write.
    destruct (poll_write_request tp s) as [r1 s1] eqn:E1. pose proof (dP_poll_write_request s H) as H1.
    rewrite E1 in H1. cbn [snd] in H1.
    destruct r1 as [u| | |a]; try exact H1;
      (destruct (poll_write_cancel tp s1) as [r2 s2] eqn:E2;
       pose proof (dP_poll_write_cancel s1 H1) as H2; rewrite E2 in H2; cbn [snd] in H2;
       destruct r2 as [u| | |a]; try exact H2;
       (destruct (poll_expired s2) as [e s3] eqn:E3; pose proof (dP_poll_expired s2 H2) as H3;
        rewrite E3 in H3; cbn [snd] in H3; destruct e; [exact H3|];
        first [ destruct (do_close tp s3) as [c s4] eqn:E4; pose proof (dP_do_close s3 H3) as H4;
                rewrite E4 in H4; destruct c; exact H4
              | destruct (do_flush tp s3) as [f s4] eqn:E4; pose proof (dP_do_flush s3 H3) as H4;
                rewrite E4 in H4; destruct f; exact H4 ])).
  Qed.

  Lemma dP_run_loop f s : dP s -> dP (snd (run_loop tp f s)).
  Proof.
    revert s. induction f as [|f IH]; intros s H; cbn [run_loop]; [exact H|].
    destruct (pump_read tp s) as [rd s1] eqn:E1. pose proof (dP_pump_read s H) as H1.
    rewrite E1 in H1. cbn [snd] in H1.
    destruct rd as [u| | |a]; try exact H1;
      (destruct (pump_write tp s1) as [wr s2] eqn:E2; pose proof (dP_pump_write s1 H1) as H2;
       rewrite E2 in H2; cbn [snd] in H2;
       destruct wr as [u'| | |a']; try exact H2; try (apply IH; exact H2);
       destruct (Nat.eqb (length (inflight s2)) 0); try exact H2; try (apply IH; exact H2)).
  Qed.

  Lemma dP_drain_loop f a s : dP s -> dP (snd (drain_loop f a s)).
  Proof.
    revert s. induction f as [|f IH]; intros s H; cbn [drain_loop]; [exact H|].
    destruct H as [D P].
    pose proof (sim_q_poll_recv _ _ (ds_sim _ _ _ D)) as R. pose proof (plog_q_poll_recv s) as L.
    pose proof (simP_q_poll_recv lp _ s (sim_w _ _ (ds_sim _ _ _ D)) P) as P1.
    destruct (q_poll_recv s) as [r s1]. cbn [fst snd] in R, L, P1.
    destruct r as [q| |]; cbn [fst snd]; try (subst s1; split; assumption).
    apply IH. eapply dP_same_log; [split; eassumption|rewrite plog_slot_send; exact L| |].
    - apply sim_slot_send; [eapply sim_withq_drop; exact R|exact I].
    - apply simP_slot_send. exact P1.
  Qed.

  Lemma dP_shut_down s a : dP s -> dP (snd (shut_down s a)).
  Proof.
    intros [D P]. unfold shut_down. apply dP_drain_loop.
    eapply dP_same_log; [split; eassumption|rewrite plog_complete_all, plog_q_close; reflexivity| |].
    - apply sim_complete_all, sim_q_close, D.
    - apply simP_complete_all, simP_q_close; [apply D|exact P].
  Qed.

  Lemma dP_poll_dispatch f s : dP s -> dP (snd (poll_dispatch tp f s)).
  Proof.
    intro H. unfold poll_dispatch. destruct (terminal s) as [a|].
    - pose proof (dP_shut_down s a H) as H1. destruct (shut_down s a) as [b s1]. destruct b; exact H1.
    - pose proof (dP_run_loop f s H) as H1. destruct (run_loop tp f s) as [r s1]. cbn [snd] in H1.
      destruct r as [|a| |]; try exact H1.
      assert (H2 : dP (upd_term s1 (Some a))).
      { destruct H1 as [D1 P1]. eapply dP_same_log; [split; eassumption|reflexivity| |].
        - eapply sim_frame; [apply D1|reflexivity..].
        - eapply simP_frame; [exact P1|reflexivity..]. }
      pose proof (dP_shut_down _ a H2) as H3.
      destruct (shut_down (upd_term s1 (Some a)) a) as [b s3]. destruct b; exact H3.
  Qed.
End PDispatch.

Section PCalls.
  Context {T : Type}.
  Notation cstate := (@cstate T).
  Implicit Types (s x : cstate) (m : mst).

  Lemma srel_k_set_phase_own i idc s x p :
    srel (Some i) idc s x -> srel (Some i) idc s (set_phase x i p).
  Proof. intro H. eapply srel_trans; [exact H|apply srel_set_phase_own]. Qed.
  Lemma srel_k_rx_close i id s x : srel i (Some id) s x -> srel i (Some id) s (slot_rx_close x id).
  Proof. intro H. eapply srel_trans; [exact H|apply srel_rx_close]. Qed.
  Lemma srel_k_tx_drop i idc id s x : srel i idc s x -> srel i idc s (slot_tx_drop x id).
  Proof. intro H. eapply srel_trans; [exact H|apply srel_tx_drop]. Qed.
  Lemma srel_k_upd_q i idc s x p q w c : srel i idc s x -> srel i idc s (upd_q x p q w c).
  Proof. intro H. eapply srel_trans; [exact H|]. apply srel_same_slots; try reflexivity. auto. Qed.
  Lemma srel_k_push_cancel i idc s x id :
    srel i idc s x -> rxc x id = true -> id < next_id x -> srel i idc s (push_cancel x id).
  Proof. intros H H1 H2. eapply srel_trans; [exact H|apply srel_push_cancel; assumption]. Qed.
  Lemma srel_k_release_permit i idc s x : srel i idc s x -> winv x -> srel i idc s (release_permit x).
  Proof. intros H W. eapply srel_trans; [exact H|apply srel_release_permit, W]. Qed.

  Lemma rxc_set_phase x i p id : rxc (set_phase x i p) id = rxc x id.
  Proof. rewrite set_phase_alt. reflexivity. Qed.
  Lemma rxc_rx_close x id : rxc (slot_rx_close x id) id = true.
  Proof. unfold rxc, slot_rx_close. rewrite get_set_slot, N.eqb_refl. reflexivity. Qed.
  Lemma rxc_push_cancel x id id' : rxc (push_cancel x id) id' = rxc x id'.
  Proof. rewrite push_cancel_alt. reflexivity. Qed.
  Lemma rxc_tx_drop x id id' : rxc (slot_tx_drop x id) id' = rxc x id'.
  Proof.
    unfold rxc, slot_tx_drop. rewrite get_set_slot. destruct (N.eqb id' id) eqn:E; [|reflexivity].
    apply N.eqb_eq in E. subst. reflexivity.
  Qed.

  Definition gc_phase (p : phase) : phase :=
    match p with PNew => PGone | PDone => PDone | PGone => PGone | _ => PClosing end.

  Lemma guard_close_spec s i c :
    winv s -> nth_error (calls s) i = Some c ->
    srel (Some i) (if active (c_phase c) then Some (c_id c) else None) s (guard_close s i) /\
    nth_error (calls (guard_close s i)) i = Some (with_phase c (gc_phase (c_phase c))) /\
    (active (c_phase c) = true -> rxc (guard_close s i) (c_id c) = true).
  Proof.
    intros W Hc. unfold guard_close. rewrite Hc.
    assert (Hnth : forall x p, calls x = calls s -> nth_error (calls (set_phase x i p)) i = Some (with_phase c p)).
    { intros x p E. rewrite set_phase_alt. cbn [calls upd_calls]. rewrite E, nth_error_phase_calls, Nat.eqb_refl, Hc. reflexivity. }
    destruct (c_phase c) eqn:Hp; cbn [active gc_phase].
    - split; [apply srel_set_phase_own|]. split; [apply Hnth; reflexivity|discriminate].
    - split; [apply srel_k_set_phase_own, srel_k_rx_close, srel_k_tx_drop, srel_k_upd_q, srel_refl|].
      split; [apply Hnth; reflexivity|]. intros _. rewrite rxc_set_phase. apply rxc_rx_close.
    - set (s1 := set_phase s i PClosing).
      assert (W1 : winv s1).
      { eapply winv_phase_other; [exact W|unfold s1; rewrite set_phase_alt; reflexivity..|].
        eapply winv_not_acq; [exact W|exact Hc|congruence]. }
      assert (H1 : nth_error (calls s1) i = Some (with_phase c PClosing)) by (apply Hnth; reflexivity).
      assert (R1 : srel (Some i) (Some (c_id c)) s s1) by apply srel_set_phase_own.
      destruct (rx_closed s1).
      + split; [apply srel_k_rx_close, srel_k_tx_drop, srel_k_upd_q, R1|].
        split; [exact H1|]. intros _. apply rxc_rx_close.
      + split; [apply srel_k_rx_close, srel_k_tx_drop, srel_k_release_permit; assumption|].
        split; [|intros _; apply rxc_rx_close].
        cbn [calls slot_rx_close slot_tx_drop set_slot upd_slots].
        apply release_permit_nth; [exact W1|exact H1|discriminate].
    - split; [apply srel_k_set_phase_own, srel_k_rx_close, srel_k_tx_drop, srel_refl|].
      split; [apply Hnth; reflexivity|]. intros _. rewrite rxc_set_phase. apply rxc_rx_close.
    - split; [apply srel_k_set_phase_own, srel_k_rx_close, srel_refl|].
      split; [apply Hnth; reflexivity|]. intros _. rewrite rxc_set_phase. apply rxc_rx_close.
    - split; [apply srel_refl|]. split; [|discriminate]. rewrite Hc. f_equal. destruct c; cbn in *; subst; reflexivity.
    - split; [apply srel_refl|]. split; [|discriminate]. rewrite Hc. f_equal. destruct c; cbn in *; subst; reflexivity.
    - split; [apply srel_refl|]. split; [|discriminate]. rewrite Hc. f_equal. destruct c; cbn in *; subst; reflexivity.
  Qed.

  Lemma sim_active_polled m s i c :
    sim m s -> nth_error (calls s) i = Some c -> active (c_phase c) = true \/ c_phase c = PClosing ->
    In i (m_polled m).
  Proof.
    intros S Hc H. apply mem_nat_In. apply (d_polled _ _ _ (sc_phase _ _ (sim_c _ _ S) _ _ Hc)).
    destruct H as [H|H]; destruct (c_phase c); try discriminate; reflexivity.
  Qed.

  Lemma sim_polled_id_lt m s i c :
    sim m s -> nth_error (calls s) i = Some c -> In i (m_polled m) -> c_id c < next_id s.
  Proof.
    intros S Hc Hp. rewrite (sc_next _ _ (sim_c _ _ S)).
    apply (id_of_bound m i (c_id c) (sc_nowrap _ _ (sim_c _ _ S))).
    apply (sc_id _ _ (sim_c _ _ S) _ _ Hc Hp).
  Qed.

  Lemma sim_other_active_id m s i c j cj :
    sim m s -> nth_error (calls s) i = Some c -> In i (m_polled m) -> j <> i ->
    nth_error (calls s) j = Some cj -> active (c_phase cj) = true -> c_id cj <> c_id c.
  Proof.
    intros S Hc Hp Hne Hcj Ha He. apply Hne.
    eapply (sim_ids_unique m s j i cj c); try eassumption; [apply S|].
    eapply sim_active_polled; eauto.
  Qed.

  Lemma simP_guard_close lp m s i : sim m s -> simP lp m s -> simP lp m (guard_close s i).
  Proof.
    intros S P. destruct (nth_error (calls s) i) as [c|] eqn:Hc;
      [|rewrite guard_close_none by exact Hc; exact P].
    destruct (guard_close_spec s i c (sim_w _ _ S) Hc) as (R & Hn & Hr).
    eapply simP_srel; [exact P|exact R| |].
    - intros ii c' [= <-] Hc'. rewrite Hn in Hc'. injection Hc' as <-. cbn [c_phase c_id with_phase]. split.
      + intro Ha. destruct (c_phase c); discriminate.
      + intro Hp. destruct (active (c_phase c)) eqn:Ha; [apply Hr; reflexivity|].
        apply (proj1 (proj2 (proj2 (sr_slot _ _ _ _ R (c_id c))))).
        apply (p_closing _ _ _ P i c Hc). destruct (c_phase c); try discriminate; reflexivity.
    - intros id j cj Hid Hj Hcj Ha. destruct (active (c_phase c)) eqn:Hac; [|discriminate].
      injection Hid as <-.
      apply (sim_other_active_id m s i c j cj S Hc); [eapply sim_active_polled; eauto|congruence|exact Hcj|exact Ha].
  Qed.

  Lemma simP_guard_cancel_gen lp m s i :
    simP lp m s ->
    (forall c, nth_error (calls s) i = Some c -> c_phase c = PClosing -> c_id c < next_id s) ->
    simP lp m (guard_cancel s i).
  Proof.
    intros P Hlt. unfold guard_cancel. destruct (nth_error (calls s) i) as [c|] eqn:Hc; [|exact P].
    destruct (c_phase c) eqn:Hp; try exact P.
    eapply (simP_srel lp m s _ (Some i) None); [exact P| | |discriminate].
    - apply srel_k_set_phase_own, srel_k_push_cancel; [apply srel_refl| |].
      + apply (p_closing _ _ _ P i c Hc Hp).
      + apply (Hlt c eq_refl Hp).
    - intros ii c' [= <-] Hc'. rewrite set_phase_alt, push_cancel_alt in Hc'.
      cbn [calls upd_calls upd_cancels] in Hc'. rewrite nth_error_phase_calls, Nat.eqb_refl, Hc in Hc'.
      injection Hc' as <-. cbn. split; discriminate.
  Qed.

  Lemma simP_guard_cancel lp m s i : sim m s -> simP lp m s -> simP lp m (guard_cancel s i).
  Proof.
    intros S P. apply simP_guard_cancel_gen; [exact P|]. intros c Hc Hp.
    eapply sim_polled_id_lt; eauto. eapply sim_active_polled; eauto.
  Qed.

  Lemma simP_drop_call lp m s i :
    sim m s -> simP lp m s -> simP lp m (guard_cancel (guard_close s i) i).
  Proof.
    intros S P. apply simP_guard_cancel_gen; [apply simP_guard_close; assumption|].
    destruct (nth_error (calls s) i) as [c|] eqn:Hc.
    - destruct (guard_close_spec s i c (sim_w _ _ S) Hc) as (R & Hn & _).
      intros c' Hc' Hp. rewrite Hn in Hc'. injection Hc' as <-. cbn [c_id c_phase with_phase] in *.
      rewrite (sr_next _ _ _ _ R). eapply sim_polled_id_lt; eauto. eapply sim_active_polled; eauto.
      destruct (c_phase c); try discriminate; auto.
    - rewrite guard_close_none by exact Hc. intros c' Hc'. congruence.
  Qed.
End PCalls.

Section PPoll.
  Context {T : Type}.
  Notation cstate := (@cstate T).
  Implicit Types (s x : cstate) (m : mst).

  Definition uniq x (i : nat) (id : N) : Prop :=
    forall j cj, j <> i -> nth_error (calls x) j = Some cj -> active (c_phase cj) = true -> c_id cj <> id.

  Lemma nth_set_phase_own x i p c :
    nth_error (calls x) i = Some c -> nth_error (calls (set_phase x i p)) i = Some (with_phase c p).
  Proof.
    intro H. rewrite set_phase_alt. cbn [calls upd_calls].
    rewrite nth_error_phase_calls, Nat.eqb_refl, H. reflexivity.
  Qed.

  Lemma simP_fail_shutdown lp m x i cx :
    simP lp m x -> nth_error (calls x) i = Some cx -> c_id cx < next_id x -> uniq x i (c_id cx) ->
    simP lp m (snd (fail_shutdown x i (c_id cx))).
  Proof.
    intros P Hc Hlt U. unfold fail_shutdown. cbn [snd].
    eapply (simP_srel lp m x _ (Some i) (Some (c_id cx))); [exact P| | |].
    - apply srel_k_set_phase_own, srel_k_push_cancel; [apply srel_k_rx_close, srel_k_tx_drop, srel_refl| |].
      + apply rxc_rx_close.
      + exact Hlt.
    - intros ii c' [= <-] Hc'.
      rewrite (nth_set_phase_own _ i PDone cx) in Hc'.
      + injection Hc' as <-. cbn. split; discriminate.
      + rewrite push_cancel_alt. exact Hc.
    - intros id j cj [= <-] Hj. apply U. congruence.
  Qed.

  Lemma simP_poll_slot lp m x i cx :
    simP lp m x -> nth_error (calls x) i = Some cx -> uniq x i (c_id cx) ->
    simP lp m (snd (poll_slot x i (c_id cx))) /\
    (fst (poll_slot x i (c_id cx)) = CPending ->
     snd (poll_slot x i (c_id cx)) = x /\ sl_val (get_slot x (c_id cx)) = None /\ txg x (c_id cx) = false).
  Proof.
    intros P Hc U. unfold poll_slot.
    assert (F : simP lp m (set_phase (slot_rx_close x (c_id cx)) i PDone)).
    { eapply (simP_srel lp m x _ (Some i) (Some (c_id cx))); [exact P| | |].
      - apply srel_k_set_phase_own, srel_k_rx_close, srel_refl.
      - intros ii c' [= <-] Hc'. rewrite (nth_set_phase_own (slot_rx_close x (c_id cx)) i PDone cx Hc) in Hc'.
        injection Hc' as <-. cbn. split; discriminate.
      - intros id j cj [= <-] Hj. apply U. congruence. }
    destruct (sl_val (get_slot x (c_id cx))) as [o|] eqn:Ev; cbn [fst snd].
    - split; [exact F|discriminate].
    - destruct (sl_tx_gone (get_slot x (c_id cx))) eqn:Et; cbn [fst snd].
      + split; [exact F|discriminate].
      + split; [exact P|]. intros _. repeat split. exact Et.
  Qed.

  (* the state right after the request id has been handed out (phase still PNew) *)
  Lemma simP_assign_id lp m s i c :
    sim m s -> simP lp m s -> nth_error (calls s) i = Some c -> c_phase c = PNew ->
    N.of_nat (S (length (m_polled m))) < two64 ->
    simP lp m (set_slot (with_id (upd_misc s (N.modulo (next_id s + 1) 18446744073709551616)
                                           (handles s) (now s)) i c (next_id s)) (next_id s) slot0).
  Proof.
    intros HS P Hc Hp Hw. set (id := next_id s).
    assert (Hi : (i < length (calls s))%nat) by (apply nth_error_Some; congruence).
    assert (Hslot : forall id', id' < id -> forall y : cstate,
              get_slot (set_slot y id slot0) id' = get_slot y id').
    { intros id' Hlt y. rewrite get_set_slot. replace (N.eqb id' id) with false by lia. reflexivity. }
    assert (Hnext : N.modulo (id + 1) 18446744073709551616 = id + 1).
    { apply N.mod_small. unfold id. rewrite (sc_next _ _ (sim_c _ _ HS)). unfold two64 in Hw. lia. }
    destruct P as [P1 P2 P3 P4 P5 P6].
    constructor; cbn [calls cancels next_id inflight timers set_slot upd_slots with_id upd_calls upd_misc].
    - exact P1.
    - intros sr Hs Hok. destruct (P2 sr Hs Hok) as [H|H]; [left; exact H|right].
      assert (Hlt : s_id sr < id).
      { unfold id. rewrite (sc_next _ _ (sim_c _ _ HS)).
        eapply req_of_bound; [apply HS|apply (sd_sent _ _ (sim_d _ _ HS)), Hs]. }
      unfold slot_ready, hasv, txg, rxc in *. fold id. rewrite Hslot by exact Hlt. exact H.
    - intros j cj Hcj Ha. destruct (Nat.eq_dec i j) as [<-|Hne].
      + rewrite nth_error_set_nth_same in Hcj by exact Hi. injection Hcj as <-. cbn in Ha.
        rewrite Hp in Ha. discriminate.
      + rewrite nth_error_set_nth_other in Hcj by exact Hne.
        assert (Hlt : c_id cj < id).
        { eapply sim_polled_id_lt; eauto. eapply sim_active_polled; eauto. }
        unfold rxc. fold id. rewrite Hslot by exact Hlt. apply (P3 j cj Hcj Ha).
    - intros j cj Hcj Hcl. destruct (Nat.eq_dec i j) as [<-|Hne].
      + rewrite nth_error_set_nth_same in Hcj by exact Hi. injection Hcj as <-. cbn in Hcl. congruence.
      + rewrite nth_error_set_nth_other in Hcj by exact Hne.
        assert (Hlt : c_id cj < id).
        { eapply sim_polled_id_lt; eauto. eapply sim_active_polled; eauto. }
        unfold rxc. fold id. rewrite Hslot by exact Hlt. apply (P4 j cj Hcj Hcl).
    - intros id' Hin. destruct (P5 id' Hin) as [H1 H2]. fold id in H1. fold id. rewrite Hnext. split; [lia|].
      unfold rxc. rewrite Hslot by exact H1. exact H2.
    - destruct lp as [[t q]|]; [|trivial]. exact P6.
  Qed.

  Definition pending_shape x (i : nat) : Prop :=
    exists c', nth_error (calls x) i = Some c' /\
      (c_phase c' = PAcquiring \/
       (active (c_phase c') = true /\ sl_val (get_slot x (c_id c')) = None /\ txg x (c_id c') = false)).

  Lemma simP_poll_call lp m s i :
    sim m s -> simP lp m s -> N.of_nat (S (length (m_polled m))) < two64 ->
    simP lp m (snd (poll_call s i)) /\
    (fst (poll_call s i) = CPending -> pending_shape (snd (poll_call s i)) i).
  Proof.
    intros HS P Hw. unfold poll_call.
    destruct (nth_error (calls s) i) as [c|] eqn:Hc; [|split; [exact P|discriminate]].
    assert (Hi : (i < length (calls s))%nat) by (apply nth_error_Some; congruence).
    assert (U : active (c_phase c) = true -> uniq s i (c_id c)).
    { intros Ha j cj Hj Hcj Haj. eapply (sim_other_active_id m s i c j cj); eauto.
      eapply sim_active_polled; eauto. }
    assert (Hlt : active (c_phase c) = true -> c_id c < next_id s).
    { intro Ha. eapply sim_polled_id_lt; eauto. eapply sim_active_polled; eauto. }
    destruct (c_phase c) eqn:Hp; cbn [active] in U, Hlt;
      try (split; [exact P|discriminate]).
    - (* PNew *)
      pose proof (simP_assign_id lp m s i c HS P Hc Hp Hw) as P1.
      set (id := next_id s) in *.
      set (s0 := with_id (upd_misc s (N.modulo (id + 1) 18446744073709551616) (handles s) (now s)) i c id) in *.
      set (s1 := set_slot s0 id slot0) in *.
      set (c1 := {| c_handle := c_handle c; c_phase := c_phase c; c_id := id; c_rel := c_rel c;
                    c_deadline := c_deadline c; c_tc := c_tc c; c_body := c_body c |}).
      assert (Hc1 : nth_error (calls s1) i = Some c1).
      { cbn [calls s1 set_slot upd_slots s0 with_id upd_calls]. apply nth_error_set_nth_same, Hi. }
      assert (Hnext : id < next_id s1).
      { cbn [next_id s1 set_slot upd_slots s0 with_id upd_calls upd_misc].
        rewrite N.mod_small; [lia|]. unfold id. rewrite (sc_next _ _ (sim_c _ _ HS)). unfold two64 in Hw. lia. }
      assert (U1 : uniq s1 i id).
      { intros j cj Hj Hcj Haj.
        cbn [calls s1 set_slot upd_slots s0 with_id upd_calls] in Hcj.
        rewrite nth_error_set_nth_other in Hcj by congruence.
        assert (c_id cj < id); [|lia]. eapply sim_polled_id_lt; eauto. eapply sim_active_polled; eauto. }
      assert (Hs0 : get_slot s1 id = slot0).
      { unfold s1. rewrite get_set_slot, N.eqb_refl. reflexivity. }
      change (rx_closed s1) with (rx_closed s). change (permits s1) with (permits s).
      destruct (rx_closed s).
      + split; [|discriminate]. apply (simP_fail_shutdown lp m s1 i c1 P1 Hc1 Hnext U1).
      + destruct (permits s) as [|p].
        * cbn [fst snd].
          assert (Hn : nth_error (calls (set_phase (upd_q s1 0 (queue s1) (waiters s1 ++ [i]) false) i PAcquiring)) i
                       = Some (with_phase c1 PAcquiring)) by (apply nth_set_phase_own; exact Hc1).
          split.
          -- eapply (simP_srel lp m s1 _ (Some i) None); [exact P1| | |discriminate].
             ++ apply srel_k_set_phase_own, srel_k_upd_q, srel_refl.
             ++ intros ii c' [= <-] Hc'. rewrite Hn in Hc'. injection Hc' as <-. cbn [c_phase c_id with_phase c1].
                split; [|discriminate]. intros _. rewrite rxc_set_phase. unfold rxc.
                change (get_slot (upd_q s1 0 (queue s1) (waiters s1 ++ [i]) false) id) with (get_slot s1 id).
                rewrite Hs0. reflexivity.
          -- intros _. eexists. split; [exact Hn|]. left; reflexivity.
        * unfold enqueue.
          match goal with |- context [poll_slot ?sa i id] => set (sA := sa) end.
          assert (Hn : nth_error (calls sA) i = Some (with_phase c1 PAwaiting)) by (apply nth_set_phase_own; exact Hc1).
          assert (HsA : get_slot sA id = slot0).
          { unfold sA. unfold get_slot. rewrite set_phase_alt. cbn [slots upd_calls upd_q]. exact Hs0. }
          assert (PA : simP lp m sA).
          { eapply (simP_srel lp m s1 _ (Some i) None); [exact P1| | |discriminate].
            - apply srel_k_set_phase_own, srel_k_upd_q, srel_k_upd_q, srel_refl.
            - intros ii c' [= <-] Hc'. rewrite Hn in Hc'. injection Hc' as <-. cbn [c_phase c_id with_phase c1].
              split; [|discriminate]. intros _. unfold rxc. rewrite HsA. reflexivity. }
          unfold poll_slot. rewrite HsA. cbn [sl_val sl_tx_gone slot0 fst snd].
          split; [exact PA|]. intros _. eexists. split; [exact Hn|]. right.
          cbn [c_phase c_id with_phase c1 active]. unfold txg. rewrite HsA. repeat split.
    - (* PAcquiring *)
      split; [exact P|]. intros _. exists c. split; [exact Hc|left; exact Hp].
    - (* PAssigned *)
      destruct (rx_closed s).
      + split; [|discriminate].
        apply (simP_fail_shutdown lp m (upd_q s (S (permits s)) (queue s) (waiters s) true) i c).
        * eapply simP_frame; [exact P|reflexivity..].
        * exact Hc.
        * apply Hlt; reflexivity.
        * apply U; reflexivity.
      + unfold enqueue.
        match goal with |- context [poll_slot ?sa i (c_id c)] => set (sA := sa) end.
        assert (Hn : nth_error (calls sA) i = Some (with_phase c PAwaiting)) by (apply nth_set_phase_own; exact Hc).
        assert (PA : simP lp m sA).
        { eapply (simP_srel lp m s _ (Some i) None); [exact P| | |discriminate].
          - apply srel_k_set_phase_own, srel_k_upd_q, srel_refl.
          - intros ii c' [= <-] Hc'. rewrite Hn in Hc'. injection Hc' as <-. cbn [c_phase c_id with_phase].
            split; [|discriminate]. intros _. unfold sA. rewrite rxc_set_phase.
            apply (p_open _ _ _ P i c Hc). rewrite Hp; reflexivity. }
        assert (UA : uniq sA i (c_id c)).
        { intros j cj Hj Hcj Haj. unfold sA in Hcj. rewrite set_phase_alt in Hcj.
          cbn [calls upd_calls upd_q] in Hcj. rewrite nth_error_phase_calls in Hcj.
          replace (Nat.eqb i j) with false in Hcj by lia. eapply U; eauto. }
        destruct (simP_poll_slot lp m sA i (with_phase c PAwaiting) PA Hn UA) as [P2 Hpend].
        cbn [c_id with_phase] in P2, Hpend. split; [exact P2|].
        intro E. destruct (Hpend E) as (E1 & E2 & E3). rewrite E1.
        eexists. split; [exact Hn|]. right. cbn [c_phase c_id with_phase active]. auto.
    - (* PAcqClosed *)
      split; [|discriminate]. apply (simP_fail_shutdown lp m s i c P Hc); [apply Hlt|apply U]; reflexivity.
    - (* PAwaiting *)
      destruct (simP_poll_slot lp m s i c P Hc (U eq_refl)) as [P2 Hpend].
      split; [exact P2|]. intro E. destruct (Hpend E) as (E1 & E2 & E3). rewrite E1.
      exists c. split; [exact Hc|]. right. rewrite Hp. auto.
  Qed.
End PPoll.

Lemma op_eq_dispatch {T} (o : @op T) : o = PollDispatch \/ o <> PollDispatch.
Proof. destruct o; try (right; discriminate). left; reflexivity. Qed.

Section PSteps.
  Context {T : Type} (tp : transport T cmsg resp) (fuel_of : @cstate T -> nat) (maxif : nat).
  Notation cstate := (@cstate T).
  Notation op := (@op T).
  Implicit Types (s x : cstate) (m : mst).

  Lemma fold_tx_drop_spec {A} (f : A -> N) (l : list A) s :
    let s' := fold_left (fun acc q => slot_tx_drop acc (f q)) l s in
    calls s' = calls s /\ cancels s' = cancels s /\ next_id s' = next_id s /\
    inflight s' = inflight s /\ timers s' = timers s /\ queue s' = queue s /\
    forall id0, (hasv s id0 -> hasv s' id0) /\ (txg s id0 = true -> txg s' id0 = true) /\
                rxc s' id0 = rxc s id0 /\ (In id0 (map f l) -> txg s' id0 = true).
  Proof.
    revert s. induction l as [|a r IH]; intro s; cbn [fold_left map]; cbv zeta.
    - repeat split; auto; intros [].
    - destruct (IH (slot_tx_drop s (f a))) as (I1 & I2 & I3 & I4 & I5 & I6 & I7). cbv zeta in *.
      rewrite I1, I2, I3, I4, I5, I6. repeat split; try reflexivity; destruct (I7 id0) as (J1 & J2 & J3 & J4).
      + intro H. apply J1. unfold hasv, slot_tx_drop in *. rewrite get_set_slot.
        destruct (N.eqb id0 (f a)) eqn:E; [apply N.eqb_eq in E; subst; exact H|exact H].
      + intro H. apply J2. unfold txg, slot_tx_drop in *. rewrite get_set_slot.
        destruct (N.eqb id0 (f a)); [reflexivity|exact H].
      + rewrite J3. apply rxc_tx_drop.
      + intros [<-|H]; [|apply J4, H]. apply J2. unfold txg, slot_tx_drop. rewrite get_set_slot, N.eqb_refl. reflexivity.
  Qed.

  Lemma simP_drop_dispatch lp m s : winv s -> simP lp m s -> simP lp m (drop_dispatch s).
  Proof.
    intros W P. unfold drop_dispatch.
    pose proof (simP_q_close lp m s W P) as P1. set (s1 := q_close s) in *.
    destruct (fold_tx_drop_spec q_id (queue s1) s1) as (A1 & A2 & A3 & A4 & A5 & A6 & A7).
    set (s2 := fold_left (fun acc q => slot_tx_drop acc (q_id q)) (queue s1) s1) in *. cbv zeta in *.
    destruct (fold_tx_drop_spec fst (inflight s2) s2) as (B1 & B2 & B3 & B4 & B5 & B6 & B7).
    set (s3 := fold_left (fun acc p => slot_tx_drop acc (fst p)) (inflight s2) s2) in *. cbv zeta in *.
    eapply simP_shrink; [exact P1| | | | | | | |];
      cbn [calls cancels next_id inflight timers upd_fin upd_cancels upd_if upd_q].
    - congruence.
    - congruence.
    - intros id [].
    - intros x [].
    - intros x [].
    - intros id e w [].
    - intro id0. destruct (A7 id0) as (a1 & a2 & a3 & _). destruct (B7 id0) as (b1 & b2 & b3 & _).
      unfold hasv, txg, rxc, get_slot in *. cbn [slots upd_fin upd_cancels upd_if upd_q].
      repeat split; [auto|auto|congruence].
    - intros id0 e Hin. right. right; left. destruct (B7 id0) as (_ & _ & _ & b4).
      unfold txg, get_slot in *. cbn [slots upd_fin upd_cancels upd_if upd_q]. apply b4.
      rewrite A4. apply (in_map fst) in Hin. exact Hin.
  Qed.

  (* the model side of every op but the dispatch poll *)
  Lemma simP_step_s lp m s (o : op) :
    sim m s -> simP lp m s -> N.of_nat (S (length (m_polled m))) < two64 -> o <> PollDispatch ->
    simP lp m (fst (step tp fuel_of s o)).
  Proof.
    intros HS P Hw Ho. destruct o; cbn [step fst].
    - destruct (nth_error (handles s) h) as [[|]|]; try exact P. eapply simP_frame; [exact P|reflexivity..].
    - destruct (nth_error (handles s) h) as [[|]|]; try exact P. eapply simP_frame; [exact P|reflexivity..].
    - (* Call *)
      eapply (simP_srel lp m s _ (Some (length (calls s))) None); [exact P| | |discriminate].
      + constructor; try reflexivity.
        * intro id. repeat split; auto.
        * intros j cj' Hj H. cbn [calls upd_calls] in H. apply nth_error_app_inv in H.
          destruct H as [[H _]|[-> _]]; [exists cj'; auto|congruence].
        * intros id H. left; exact H.
      + intros ii c' [= <-] Hc'. cbn [calls upd_calls] in Hc'. rewrite nth_error_app_last in Hc'.
        injection Hc' as <-. cbn [c_phase]. destruct (nth_error (handles s) h) as [[|]|]; split; discriminate.
    - pose proof (simP_poll_call lp m s i HS P Hw) as [P1 _]. destruct (poll_call s i) as [r s']. exact P1.
    - destruct (option_map c_phase (nth_error (calls s) i)) as [[]|]; try exact P;
        apply simP_drop_call; assumption.
    - destruct (option_map c_phase (nth_error (calls s) i)) as [[]|]; try exact P;
        apply simP_guard_close; assumption.
    - apply simP_guard_cancel; assumption.
    - congruence.
    - destruct (dropped s); [exact P|]. apply simP_drop_dispatch; [apply HS|exact P].
    - eapply simP_frame; [exact P|reflexivity..].
    - eapply simP_frame; [exact P|reflexivity..].
  Qed.

  (* the observer side of every op but the dispatch poll: no request / clock-backwards change *)
  Lemma rec_op_msame m (o : op) :
    m_sent (rec_op m o) = m_sent m /\ m_seq (rec_op m o) = m_seq m /\ m_now m <= m_now (rec_op m o).
  Proof.
    destruct o; cbn [rec_op]; try (repeat split; lia).
    - destruct (nth_error (m_handles m) h) as [[|]|]; cbn; repeat split; lia.
    - destruct (nth_error (m_handles m) h) as [[|]|]; cbn; repeat split; lia.
    - cbn. repeat split; lia.
    - cbn. repeat split; lia.
    - destruct (_ || _); cbn; repeat split; lia.
    - destruct (_ || _); [repeat split; lia|]. destruct (mem_nat i (m_polled m)); cbn; repeat split; lia.
    - destruct (mem_nat i (m_closing m)); cbn; repeat split; lia.
    - cbn. repeat split; lia.
    - cbn. repeat split; lia.
  Qed.

  Lemma chk_obs_msame m (o : op) os :
    o <> PollDispatch ->
    let m' := snd (chk_obs maxif o m os) in
    m_sent m' = m_sent m /\ m_seq m' = m_seq m /\ m_now m <= m_now m'.
  Proof.
    intro Ho. pose proof (rec_op_msame m o) as H. unfold chk_obs.
    destruct o; try congruence; try (destruct os as [|? ?]; cbn [snd]; exact H).
    destruct os as [|[| |[|out|]| | |] [|? ?]]; cbn [snd]; try exact H.
  Qed.

  Lemma timers_q_poll_recv s : timers (snd (q_poll_recv s)) = timers s.
  Proof.
    unfold q_poll_recv. destruct (queue s); cbn [snd].
    - destruct (Nat.eqb (senders s) 0); [reflexivity|].
      destruct (rx_closed s && Nat.eqb (assigned_count s) 0); reflexivity.
    - unfold release_permit. cbn [waiters upd_q]. destruct (waiters s); rewrite ?set_phase_alt; reflexivity.
  Qed.
  Lemma timers_drain_loop f a s : timers (snd (drain_loop f a s)) = timers s.
  Proof.
    revert s. induction f as [|f IH]; intro s; cbn [drain_loop]; [reflexivity|].
    pose proof (timers_q_poll_recv s) as H. destruct (q_poll_recv s) as [r s1]. cbn [snd] in H.
    destruct r; cbn [snd]; try exact H. rewrite IH, slot_send_alt. exact H.
  Qed.
  Lemma timers_shut_down s a : timers (snd (shut_down s a)) = [].
  Proof.
    unfold shut_down. rewrite timers_drain_loop. unfold complete_all.
    destruct (fold_slot_send_other fst (OConnErr a) (inflight (q_close s)) (upd_if (q_close s) [] []))
      as (_ & _ & _ & _ & E). rewrite E. reflexivity.
  Qed.

  (* C05 (c), for every Pending poll: no remaining timer is due *)
  Lemma pending_no_expired fuel s s' :
    poll_dispatch tp fuel s = (DPending, s') -> forall id w, In (id, w) (timers s') -> now s' < w.
  Proof.
    unfold poll_dispatch. destruct (terminal s) as [a|].
    - pose proof (timers_shut_down s a) as H. destruct (shut_down s a) as [b s1]. cbn [snd] in H.
      destruct b; intros [= <-]. rewrite H. intros id w [].
    - destruct (run_loop tp fuel s) as [r s1] eqn:Er. destruct r as [|a| |]; try discriminate.
      + pose proof (timers_shut_down (upd_term s1 (Some a)) a) as H.
        destruct (shut_down (upd_term s1 (Some a)) a) as [b s3]. cbn [snd] in H.
        destruct b; intros [= <-]. rewrite H. intros id w [].
      + intros [= <-]. apply (run_loop_pending tp _ _ _ Er).
  Qed.

  Lemma simP_poll_dispatch_op lp m s :
    sim m s -> simP lp m s ->
    let '(s', os) := step tp fuel_of s PollDispatch in
    match os with
    | [] => s' = s
    | [OCalls l; ODisp r; OGauge a b] =>
      simP lp (mrun m l) s' /\
      (r = DPending -> forall id w, In (id, w) (timers s') -> now s' < w)
    | _ => False
    end.
  Proof.
    intros HS P. cbn [step]. destruct (finished s); [reflexivity|]. destruct (dropped s); [reflexivity|].
    set (s0 := upd_tr s (tr s) (fused s) []).
    assert (H0 : dP maxif m lp s0).
    { split.
      - constructor; [|reflexivity]. unfold cur. cbn. eapply sim_frame; [exact HS|reflexivity..].
      - unfold cur. cbn. eapply simP_frame; [exact P|reflexivity..]. }
    pose proof (dP_poll_dispatch tp maxif m lp (fuel_of s0) s0 H0) as [_ P1].
    pose proof (pending_no_expired (fuel_of s0) s0) as NE.
    destruct (poll_dispatch tp (fuel_of s0) s0) as [r s1]. cbn [snd] in P1.
    unfold gauges. cbn [app]. unfold cur in P1. split.
    - destruct r as [d| |]; eapply simP_frame; try exact P1; reflexivity.
    - intros -> id w Hin. cbn [timers now upd_tr] in *. apply (NE s1 eq_refl id w Hin).
  Qed.

  Lemma simP_relp lp lp' m s : simP lp m s -> lp_ok lp' m s -> simP lp' m s.
  Proof. intros [] H. constructor; assumption. Qed.

  Definition lp_next (lp : option (N * nat)) (o : op) (os : list obs) (m' : mst) : option (N * nat) :=
    match o, os with
    | PollDispatch, [OCalls _; ODisp DPending; OGauge _ _] => Some (m_now m', m_seq m')
    | _, _ => lp
    end.
  Definition prompt_chk (lp : option (N * nat)) (o : op) (os : list obs) (m' : mst) : bool :=
    match o, os with
    | PollCall i, [OCall CPending] => prompt_ok m' lp i
    | _, _ => true
    end.

  Lemma due_bound sr t : s_time sr <= t -> due sr t = true -> bound sr <= t.
  Proof.
    unfold due, bound. intros Ht H. apply orb_true_iff in H. destruct H as [H|H]; apply N.leb_le in H; lia.
  Qed.

  Lemma prompt_ok_pending lp m s i :
    sim m s -> simP lp m s -> pending_shape s i -> prompt_ok m lp i = true.
  Proof.
    intros HS P (c & Hc & Hsh). unfold prompt_ok. destruct lp as [[t q]|]; [|reflexivity].
    apply forallb_forall. intros x Hx. apply negb_true_iff.
    destruct (s_ok x && (s_seq x <=? q)%nat && due x t) eqn:E; [exfalso|reflexivity].
    apply andb_true_iff in E. destruct E as [E Hdue]. apply andb_true_iff in E. destruct E as [Hok Hq].
    apply Nat.leb_le in Hq.
    unfold sent_for in Hx. destruct (id_of m i) as [id|] eqn:Hid; [|destruct Hx].
    apply filter_In in Hx. destruct Hx as [Hx He]. apply N.eqb_eq in He.
    assert (Hact : active (c_phase c) = true).
    { destruct Hsh as [Hp|[Ha _]]; [rewrite Hp; reflexivity|exact Ha]. }
    assert (Hpol : In i (m_polled m)) by (eapply sim_active_polled; eauto).
    pose proof (sc_id _ _ (sim_c _ _ HS) _ _ Hc Hpol) as Hid'. rewrite Hid in Hid'. injection Hid' as ->.
    destruct Hsh as [Hp|(_ & Hv & Ht)].
    - destruct (sd_staged _ _ (sim_d _ _ HS) i c Hc) as [_ H2]; [rewrite Hp; reflexivity|].
      apply (H2 x Hx He).
    - destruct (p_loc _ _ _ P x Hx Hok) as [[e Hin]|[H|[H|H]]]; rewrite He in *.
      + destruct (p_timer _ _ _ P _ _ Hin) as (sr & w & H1 & H2 & H3 & H4).
        assert (sr = x).
        { eapply (NoDup_map_inj s_id); [apply (sd_sent_nodup _ _ (sim_d _ _ HS))|exact H1|exact Hx|congruence]. }
        subst sr. pose proof (p_lp _ _ _ P) as L. cbn [lp_ok] in L. destruct L as (_ & _ & L3 & L4).
        specialize (L4 _ _ x H3 Hx He Hq). specialize (L3 x Hx Hq).
        pose proof (due_bound x t L3 Hdue). lia.
      + apply H. exact Hv.
      + congruence.
      + rewrite (p_open _ _ _ P i c Hc Hact) in H. discriminate.
  Qed.

  (* one op, against the monitor of ClientMon2.v *)
  Lemma simP_step lp m s (o : op) :
    sim m s -> simP lp m s -> N.of_nat (S (length (m_polled m))) < two64 ->
    let s1 := fst (step tp fuel_of s o) in
    let os := snd (step tp fuel_of s o) in
    let m' := snd (chk_obs maxif o m os) in
    simP (lp_next lp o os m') m' s1 /\ prompt_chk lp o os m' = true.
  Proof.
    intros HS P Hw. cbv zeta.
    pose proof (sim_step tp fuel_of maxif m s o HS Hw) as S1.
    destruct (op_eq_dispatch o) as [->|Ho].
    - (* PollDispatch *)
      pose proof (simP_poll_dispatch_op lp m s HS P) as Q.
      destruct (step tp fuel_of s PollDispatch) as [s' os]. cbn [fst snd] in *.
      destruct os as [|[| |rc|l|rd|a1 b1] [|[| |rc2|l2|r|a2 b2] [|[| |rc3|l3|r3|a b] [|? ?]]]]; try contradiction.
      + subst s'. cbn. split; [exact P|reflexivity].
      + destruct Q as [Q NE]. split; [|reflexivity].
        cbn [chk_obs rec_op] in *.
        pose proof (chk_calls_snd maxif m l) as E. destruct (chk_calls maxif m l) as [v m2]. cbn [snd] in E.
        subst m2. destruct (c_poll _ _ _) as [okc c2]. cbn [snd] in *.
        set (m' := upd_m _ _ _ _ _ _ _ _ _ _ _) in *.
        assert (Q' : simP lp m' s') by (eapply simP_meq; [exact Q|reflexivity|cbn; lia|cbn; lia]).
        unfold lp_next. destruct r as [d| |]; try exact Q'.
        eapply simP_relp; [exact Q'|]. cbn [lp_ok]. repeat split; try lia.
        * intros sr Hsr _. apply (sd_sent_seq _ _ (sim_d _ _ S1) sr Hsr).
        * intros id w sr Hin _ _ _. rewrite (sc_now _ _ (sim_c _ _ S1)). apply (NE eq_refl id w Hin).
    - pose proof (simP_step_s lp m s o HS P Hw Ho) as P1.
      pose proof (chk_obs_msame m o (snd (step tp fuel_of s o)) Ho) as (E1 & E2 & E3). cbv zeta in *.
      assert (P2 : simP lp (snd (chk_obs maxif o m (snd (step tp fuel_of s o)))) (fst (step tp fuel_of s o))).
      { eapply simP_meq; [exact P1|exact E1|exact E3|lia]. }
      assert (Elp : lp_next lp o (snd (step tp fuel_of s o))
                            (snd (chk_obs maxif o m (snd (step tp fuel_of s o)))) = lp).
      { unfold lp_next. destruct o; try reflexivity. congruence. }
      rewrite Elp. split; [exact P2|].
      unfold prompt_chk. destruct o; try reflexivity.
      cbn [step] in *. pose proof (simP_poll_call lp m s i HS P Hw) as [_ Hpend].
      destruct (poll_call s i) as [r s']. cbn [fst snd] in *.
      destruct r as [|out|]; try reflexivity.
      apply (prompt_ok_pending lp _ s'); [exact S1|exact P2|apply Hpend; reflexivity].
  Qed.
End PSteps.


Section PRun.
  Context {T : Type} (tp : transport T cmsg resp) (fuel_of : @cstate T -> nat) (maxif : nat).
  Notation op := (@op T).

  Lemma c05p_run_ok (ops : list op) : forall m s lp,
    sim m s -> simP lp m s -> N.of_nat (length (m_polled m) + length ops) < two64 ->
    c05p_run maxif m lp ops (fst (run_from tp fuel_of s ops)) = true.
  Proof.
    induction ops as [|o ops IH]; intros m s lp HS P Hw; cbn [run_from]; [reflexivity|].
    assert (Hw1 : N.of_nat (S (length (m_polled m))) < two64) by (cbn [length] in Hw; lia).
    pose proof (simP_step tp fuel_of maxif lp m s o HS P Hw1) as [P1 C1].
    pose proof (sim_step tp fuel_of maxif m s o HS Hw1) as S1.
    pose proof (polled_chk_obs_le maxif m o (snd (step tp fuel_of s o))) as L.
    destruct (step tp fuel_of s o) as [s1 l]. cbn [fst snd] in *.
    destruct (run_from tp fuel_of s1 ops) as [ls s2] eqn:Er. cbn [fst c05p_run].
    specialize (IH _ s1 _ S1 P1 ltac:(cbn [length] in Hw; lia)). rewrite Er in IH. cbn [fst] in IH.
    unfold prompt_chk in C1. unfold lp_next in IH.
    apply andb_true_iff. split; [exact C1|exact IH].
  Qed.
End PRun.

Lemma simP_init {T} t0 qcap maxif : simP None m0 (init (T:=T) t0 qcap maxif).
Proof.
  constructor; cbn; try (intros; contradiction); try exact I.
  - intros [|i] c H; discriminate.
  - intros [|i] c H; discriminate.
Qed.

Theorem c05p_proved {T : Type} : @stmt_c05p T.
Proof.
  intros tp fuel_of t0 qcap maxif ops Hw. unfold c05p_ok, client_trace.
  apply c05p_run_ok; [apply sim_init|apply simP_init|]. unfold no_wrap in Hw. cbn [m_polled m0 length]. exact Hw.
Qed.

Print Assumptions c05p_proved.
