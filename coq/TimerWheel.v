(* Executable transliteration of tokio-util 0.7.19 `time::DelayQueue` + `time::wheel` as far as
   tarpc's server uses it (insert, remove, poll_expired).  No proofs in this file.

   Role in the server model (Server.v): ORDER ORACLE ONLY.  Which timers are due is decided in
   Server.v from the abstract timer list (`when <= now`); this file only answers *which one of
   several due timers the real queue hands out first* (hierarchical wheel: 6 levels x 64 slots,
   LIFO stacks per slot, cascading; plus the LIFO stack of entries that were already due when
   inserted).  If the oracle ever names a timer that is not due, or none while one is due,
   Server.v sets a flag that surfaces as the observation `OOracle`, so the disagreement is a
   correspondence failure, never a silent one.  The single-channel monitor theorems hold for every
   oracle (the observer ignores OOracle); the chain theorems are stated modulo oracle agreement
   (C04_chain_rounds, C04_chain_cascade's taint), which the clock range below guarantees.

   What is proved ABOUT this file (TimerWheelProofs0-6.v, restated in Properties/C16.v and C04.v):
   inside its range - every deadline below 2^36 ms since the queue's start - the wheel is a
   correct priority queue (C16_dq_init / _insert / _poll: never early, complete, no loss or
   duplication, least deadline first), and in every server run whose clock stays at or below
   2^36 - 1 - MAX_TIMEOUT ms the oracle agrees with the model's due set
   (C16_server_oracle_agrees_cfg, C04_chain_no_oracle).  Beyond the range it is not:
   TimerWheelWitness.v (r1_early, r2_incomplete).

   Time unit: whole milliseconds since the queue's creation (`start`), as `N`. *)
From Coq Require Import List Bool Arith NArith.
Import ListNotations.
Local Open Scope N_scope.

Record wentry := { we_id : N; we_when : N }.

(* one non-empty slot: level, slot index, stack (head = top) *)
Record wslot := { ws_level : nat; ws_slot : N; ws_stack : list wentry }.

Record wheel := { w_elapsed : N; w_slots : list wslot }.

Record dqueue := {
  dq_wheel : wheel;
  dq_expired : list wentry;      (* entries already due when inserted: a stack *)
  dq_wheel_now : N;
  dq_delay : option N }.         (* deadline of the Sleep the queue waits on *)

Definition dq_init : dqueue :=
  {| dq_wheel := {| w_elapsed := 0; w_slots := [] |}; dq_expired := []; dq_wheel_now := 0;
     dq_delay := None |}.

Definition MAX_DURATION : N := 68719476735.        (* 2^36 - 1 *)

(* wheel/mod.rs: level_for *)
Definition level_for (elapsed when : N) : nat :=
  let masked := N.lor (N.lxor elapsed when) 63 in
  let masked := if MAX_DURATION <=? masked then MAX_DURATION - 1 else masked in
  Nat.div (N.to_nat (N.log2 masked)) 6.

Definition slot_range (level : nat) : N := N.pow 64 (N.of_nat level).
Definition level_range (level : nat) : N := 64 * slot_range level.
(* level.rs: slot_for *)
Definition slot_for (when : N) (level : nat) : N :=
  N.modulo (N.shiftr when (N.of_nat (6 * level))) 64.

Definition slot_is (lv : nat) (sl : N) (x : wslot) : bool :=
  Nat.eqb (ws_level x) lv && N.eqb (ws_slot x) sl.

(* Stack::push on slot (lv, sl) *)
Fixpoint push_slot (lv : nat) (sl : N) (e : wentry) (l : list wslot) : list wslot :=
  match l with
  | [] => [{| ws_level := lv; ws_slot := sl; ws_stack := [e] |}]
  | x :: r => if slot_is lv sl x
              then {| ws_level := lv; ws_slot := sl; ws_stack := e :: ws_stack x |} :: r
              else x :: push_slot lv sl e r
  end.

(* Level::add_entry *)
Definition add_entry (lv : nat) (e : wentry) (l : list wslot) : list wslot :=
  push_slot lv (slot_for (we_when e) lv) e l.

(* remove an entry (by id) wherever it is; empty slots disappear (occupied bit cleared) *)
Definition remove_entry (id : N) (l : list wslot) : list wslot :=
  filter (fun x => match ws_stack x with [] => false | _ => true end)
    (map (fun x => {| ws_level := ws_level x; ws_slot := ws_slot x;
                      ws_stack := filter (fun e => negb (N.eqb (we_id e) id)) (ws_stack x) |}) l).

(* Level::next_occupied_slot + next_expiration for one level: (slot, deadline) *)
Definition level_next (lv : nat) (now : N) (l : list wslot) : option (N * N) :=
  let occ := map ws_slot (filter (fun x => Nat.eqb (ws_level x) lv) l) in
  match occ with
  | [] => None
  | s0 :: r =>
    let now_slot := N.modulo (N.div now (slot_range lv)) 64 in
    let dist s := N.modulo (s + 64 - now_slot) 64 in
    let best := fold_left (fun b s => if dist s <? dist b then s else b) r s0 in
    let level_start := now - N.modulo now (level_range lv) in
    let deadline := level_start + best * slot_range lv in
    let deadline := if deadline <? now then deadline + level_range lv else deadline in
    Some (best, deadline)
  end.

(* Wheel::next_expiration: the first level that has any occupied slot *)
Fixpoint next_exp_from (lv n : nat) (now : N) (l : list wslot) : option (nat * N * N) :=
  match n with
  | O => None
  | S n' => match level_next lv now l with
            | Some (sl, dl) => Some (lv, sl, dl)
            | None => next_exp_from (S lv) n' now l
            end
  end.
Definition next_expiration (w : wheel) : option (nat * N * N) :=
  next_exp_from 0 6 (w_elapsed w) (w_slots w).

Definition set_elapsed (w : wheel) (when : N) : wheel :=
  {| w_elapsed := if w_elapsed w <? when then when else w_elapsed w; w_slots := w_slots w |}.

Definition stack_of (lv : nat) (sl : N) (l : list wslot) : list wentry :=
  match find (slot_is lv sl) l with Some x => ws_stack x | None => [] end.
Definition drop_slot (lv : nat) (sl : N) (l : list wslot) : list wslot :=
  filter (fun x => negb (slot_is lv sl x)) l.

(* Wheel::poll *)
Fixpoint wheel_poll (fuel : nat) (now : N) (w : wheel) : option wentry * wheel :=
  match fuel with
  | O => (None, w)
  | S f =>
    match next_expiration w with
    | Some (lv, sl, dl) =>
      if dl <=? now then
        match lv with
        | O =>
          match stack_of 0 sl (w_slots w) with
          | e :: rest =>
            (Some e,
             {| w_elapsed := w_elapsed w;
                w_slots := match rest with
                           | [] => drop_slot 0 sl (w_slots w)
                           | _ => {| ws_level := 0; ws_slot := sl; ws_stack := rest |}
                                    :: drop_slot 0 sl (w_slots w)
                           end |})
          | [] => wheel_poll f now (set_elapsed w dl)
          end
        | S lv' =>
          (* cascade: pop each entry of the slot and push it one level down *)
          let ents := stack_of lv sl (w_slots w) in
          let l1 := drop_slot lv sl (w_slots w) in
          let l2 := fold_left (fun l e => add_entry lv' e l) ents l1 in
          wheel_poll f now (set_elapsed {| w_elapsed := w_elapsed w; w_slots := l2 |} dl)
        end
      else (None, set_elapsed w now)
    | None => (None, set_elapsed w now)
    end
  end.

Definition wheel_size (w : wheel) : nat :=
  fold_left (fun n x => (n + length (ws_stack x))%nat) (w_slots w) 0%nat.

Definition next_deadline (w : wheel) : option N :=
  match next_expiration w with Some (_, _, dl) => Some dl | None => None end.

Definition opt_N_eqb (a b : option N) : bool :=
  match a, b with Some x, Some y => N.eqb x y | None, None => true | _, _ => false end.

(* DelayQueue::insert_at with `when_abs` = ms(when - start) already computed *)
Definition dq_insert (id when_abs : N) (q : dqueue) : dqueue :=
  let w := dq_wheel q in
  let when := N.max when_abs (w_elapsed w) in
  let e := {| we_id := id; we_when := when |} in
  let '(w', exp') :=
    if when <=? w_elapsed w then (w, e :: dq_expired q)
    else ({| w_elapsed := w_elapsed w;
             w_slots := add_entry (level_for (w_elapsed w) when) e (w_slots w) |}, dq_expired q) in
  let should_set := match dq_delay q with
                    | Some d => when <? N.max d (w_elapsed w)
                    | None => true end in
  {| dq_wheel := w'; dq_expired := exp'; dq_wheel_now := dq_wheel_now q;
     dq_delay := if should_set then Some when else dq_delay q |}.

(* DelayQueue::remove *)
Definition dq_remove (id : N) (q : dqueue) : dqueue :=
  let prev := next_deadline (dq_wheel q) in
  let in_expired := existsb (fun e => N.eqb (we_id e) id) (dq_expired q) in
  let exp' := filter (fun e => negb (N.eqb (we_id e) id)) (dq_expired q) in
  let w' := if in_expired then dq_wheel q
            else {| w_elapsed := w_elapsed (dq_wheel q);
                    w_slots := remove_entry id (w_slots (dq_wheel q)) |} in
  let next := next_deadline w' in
  {| dq_wheel := w'; dq_expired := exp'; dq_wheel_now := dq_wheel_now q;
     dq_delay := if opt_N_eqb prev next then dq_delay q else next |}.

Inductive dqres := DQSome (id : N) | DQNone | DQPending.

(* DelayQueue::poll_expired (poll_idx); `clock` = the tokio clock in ms since `start` *)
Fixpoint dq_poll_loop (fuel : nat) (clock : N) (q : dqueue) : dqres * dqueue :=
  match fuel with
  | O => (DQPending, q)
  | S f =>
    let ready := match dq_delay q with Some d => d <=? clock | None => true end in
    if negb ready then (DQPending, q) else
    let wn := match dq_delay q with Some d => d | None => dq_wheel_now q end in
    let '(idx, w') := wheel_poll (6 * S (wheel_size (dq_wheel q))) wn (dq_wheel q) in
    let q' := {| dq_wheel := w'; dq_expired := dq_expired q; dq_wheel_now := wn;
                 dq_delay := next_deadline w' |} in
    match idx with
    | Some e => (DQSome (we_id e), q')
    | None => match dq_delay q' with
              | None => (DQNone, q')
              | Some _ => dq_poll_loop f clock q'
              end
    end
  end.

Definition dq_poll (clock : N) (q : dqueue) : dqres * dqueue :=
  match dq_expired q with
  | e :: r =>
    (DQSome (we_id e),
     {| dq_wheel := dq_wheel q; dq_expired := r; dq_wheel_now := dq_wheel_now q;
        dq_delay := dq_delay q |})
  | [] => dq_poll_loop (8 * S (wheel_size (dq_wheel q))) clock q
  end.
