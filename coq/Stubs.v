(* Model of tarpc/src/client/stub/load_balance.rs (RoundRobin, ConsistentHash) and
   tarpc/src/client/stub/retry.rs (Retry).  One Gallina function per Rust function; no proofs
   in this file.

   Every stub hands the caller's context::Context on by value (Context is Copy), untouched:
   RoundRobin::call        next = self.stubs.next(); next.call(ctx, request)
     AtomicCycle::next     let next = self.next.fetch_add(1, Relaxed);      (usize = u64: wraps)
                           &self.elements[next % self.elements.len()]
   ConsistentHash::call    index = hash_request(&request) % stubs_len;  self.stubs[index].call(..)
     hash_request          hasher.build_hasher(); req.hash(&mut h); h.finish()      (any u64)
   Retry::call             request = Arc::new(request);
                           for i in 1.. {                      (RangeFrom<u32>)
                               result = self.stub.call(ctx, Arc::clone(&request));   (same ctx)
                               if (self.should_retry)(&result, i) { continue; }
                               return result;
                           }
   RangeFrom<u32>::next computes the successor before it hands out the current value:
   `let n = Step::forward(start, 1); Some(replace(&mut start, n))`; at start = u32::MAX that
   addition panics when the caller is compiled with overflow checks and wraps to 0 otherwise
   (`ovf` below). *)
From Coq Require Import List NArith ZArith Bool.
Import ListNotations.
From TarpcV Require Import Base.
Local Open Scope N_scope.

Definition W64 : N := 18446744073709551616.
Definition W32 : N := 4294967296.

(* context::Context as the stubs pass it around: trace id (u128), span id (u64), sampling
   decision (true = Sampled), deadline in signed ms relative to the instant the script starts
   (the harness runs under its virtual clock, so this is exact) *)
Record cx := mkcx { cx_trace : N; cx_span : N; cx_samp : bool; cx_dl : Z }.
Definition cx_eqb (a b : cx) : bool :=
  (cx_trace a =? cx_trace b) && (cx_span a =? cx_span b) && Bool.eqb (cx_samp a) (cx_samp b)
  && (cx_dl a =? cx_dl b)%Z.

(* Result<u64, RpcError> as the stubs pass it around *)
Inductive sres := SOk (v : N) | SShutdown | SDeadline | SServer (code : N).

(* ---- round robin ------------------------------------------------------------------------ *)
Definition rr_pick (b cur : N) : N := cur mod b.            (* next % self.elements.len() *)
Definition rr_bump (cur : N) : N := (cur + 1) mod W64.      (* fetch_add(1): new cursor *)

(* n successive `next()` calls starting with cursor value cur: the picks, and the cursor left.
   Each fetch_add is atomic, so this is also what n calls issued from any number of threads
   do, up to the order in which the picks are handed to the callers (rr_sched). *)
Fixpoint rr_picks (b cur : N) (n : nat) : list N * N :=
  match n with
  | O => ([], cur)
  | S n' => let '(l, c') := rr_picks b (rr_bump cur) n' in (rr_pick b cur :: l, c')
  end.

(* calls issued by several threads: the schedule lists which thread performs the next
   fetch_add; every thread gets the pick of its own fetch_add *)
Fixpoint rr_sched (b cur : N) (sched : list nat) : list (nat * N) :=
  match sched with
  | [] => []
  | t :: r => (t, rr_pick b cur) :: rr_sched b (rr_bump cur) r
  end.

(* per-backend counts of a list of picks *)
Definition count (k : N) (picks : list N) : N :=
  N.of_nat (length (filter (fun p => p =? k) picks)).
Definition iota (b : N) : list N := map N.of_nat (seq 0 (N.to_nat b)).
Definition tally (b : N) (picks : list N) : list N := map (fun i => count i picks) (iota b).

(* ---- consistent hash -------------------------------------------------------------------- *)
Definition ch_pick (h : N -> N) (b : N) (r : N) : N := h r mod b.

(* the hashers the harness installs with ConsistentHash::with_hasher, as functions u64 -> u64 *)
Definition byte (r : N) (i : nat) : N := (r / 256 ^ N.of_nat i) mod 256.
Definition fnv_step (h b : N) : N := (N.lxor h b * 1099511628211) mod W64.
Inductive hasher := HConst (k : N) | HIdent | HAffine (a c : N) | HFnv | HFold | HTable (t : list (N * N)).
Fixpoint tbl_lookup (t : list (N * N)) (r : N) : N :=
  match t with [] => 0 | (k, v) :: rest => if k =? r then v else tbl_lookup rest r end.
Definition hash_of (hk : hasher) (r : N) : N :=
  match hk with
  | HConst k => k
  | HIdent => r
  | HAffine a c => (a * r + c) mod W64
  | HFnv => fold_left fnv_step (map (byte r) (seq 0 8)) 14695981039346656037   (* FNV-1a, LE bytes *)
  | HFold => N.lxor (r / W32) (r mod W32)                                       (* high ^ low half *)
  | HTable t => tbl_lookup t r        (* an opaque std hasher, tabulated by the harness *)
  end.

(* ---- retry ------------------------------------------------------------------------------ *)
(* RangeFrom<u32>::next: None = panic (overflow checks), Some (item, new start) *)
Definition iter_next (ovf : bool) (start : N) : option (N * N) :=
  if start =? W32 - 1 then (if ovf then None else Some (start, 0)) else Some (start, start + 1).

Inductive obs :=
| OPick (k : N) (c : cx) (rq : N) (resp : sres) (* backend k received context c and request rq; the
                                               stub returned resp *)
| OCounts (l : list N)                      (* per-backend calls received during a parallel burst *)
| OCall (c : cx) (rq : N) (res : sres)     (* retry: the inner stub was called with (c, rq), returned res *)
| OPol (res : sres) (attempt : N) (d : bool)(* retry: the policy was shown (res, attempt), answered d *)
| ODone (res : sres)                        (* retry: Retry::call returned res *)
| OCap                                      (* retry: the harness's cap on inner calls was reached *)
| OPanic.                                   (* the code under test panicked *)

(* the policies the harness uses *)
Inductive policy := PNever | PAlways | PErr | PErrLt (m : N) | PLt (m : N) | PTable (l : list bool)
                  | POkBelow (v : N).
Definition is_ok (r : sres) : bool := match r with SOk _ => true | _ => false end.
Definition pol_eval (p : policy) (res : sres) (i : N) : bool :=
  match p with
  | PNever => false
  | PAlways => true
  | PErr => negb (is_ok res)
  | PErrLt m => negb (is_ok res) && (i <? m)
  | PLt m => i <? m
  | PTable l => nth (N.to_nat (i - 1)) l false
  | POkBelow v => match res with SOk w => w <? v | _ => true end
  end.

(* the loop of Retry::call; fuel = how many inner calls the harness allows *)
Fixpoint retry_loop (fuel : nat) (ovf : bool) (pol : sres -> N -> bool) (backend : nat -> sres)
         (c : cx) (rq : N) (ncall : nat) (start : N) : list obs :=
  match fuel with
  | O => [OCap]
  | S f =>
    match iter_next ovf start with
    | None => [OPanic]
    | Some (i, start') =>
      let res := backend ncall in
      let d := pol res i in
      OCall c rq res :: OPol res i d ::
        (if d then retry_loop f ovf pol backend c rq (S ncall) start' else [ODone res])
    end
  end.
Definition retry (fuel : nat) (ovf : bool) pol backend c rq :=
  retry_loop fuel ovf pol backend c rq O 1.

(* what C20 promises of one Retry::call whose policy first declines at attempt k: calls 0..k-1
   all carry the caller's context c and request rq, the policy is shown (result of call j, attempt j+1), the k-th result is returned *)
Definition retry_item (pol : sres -> N -> bool) (backend : nat -> sres) (c : cx) (rq : N) (j : nat)
  : list obs :=
  [OCall c rq (backend j); OPol (backend j) (N.of_nat (S j)) (pol (backend j) (N.of_nat (S j)))].
Definition retry_trace (pol : sres -> N -> bool) (backend : nat -> sres) (c : cx) (rq : N) (k : nat)
  : list obs :=
  flat_map (retry_item pol backend c rq) (seq 0 k) ++ [ODone (backend (k - 1)%nat)].

(* the mock backends *)
Definition resp_of (k rq : N) : sres := SOk ((rq + 1000 * (k + 1)) mod W64).
Definition script_backend (script : list sres) (n : nat) : sres := nth n script SShutdown.

(* ---- the three stubs as one machine ----------------------------------------------------- *)
Inductive cfg :=
| CRR (b : N)                                   (* RoundRobin over b mock backends *)
| CCH (b : N) (h : N -> N)                      (* ConsistentHash::with_hasher *)
| CRetry (pol : sres -> N -> bool) (cap : nat) (ovf : bool).   (* Retry over a scripted backend *)
Inductive op :=
| Call (c : cx) (rq : N)           (* one call through the stub with context c *)
| Par (ns : list nat)              (* thread t issues ns[t] calls, all threads concurrently *)
| RCall (c : cx) (rq : N) (script : list sres). (* one Retry::call; the inner stub answers by script *)

Definition total (ns : list nat) : nat := fold_right Nat.add O ns.

(* state: the round-robin cursor *)
Definition step (c : cfg) (cur : N) (o : op) : N * list obs :=
  match c, o with
  | CRR b, Call c rq => (rr_bump cur, [OPick (rr_pick b cur) c rq (resp_of (rr_pick b cur) rq)])
  | CRR b, Par ns => let '(l, cur') := rr_picks b cur (total ns) in (cur', [OCounts (tally b l)])
  | CCH b h, Call c rq => (cur, [OPick (ch_pick h b rq) c rq (resp_of (ch_pick h b rq) rq)])
  | CRetry pol cap ovf, RCall c rq script => (cur, retry cap ovf pol (script_backend script) c rq)
  | _, _ => (cur, [])
  end.
Fixpoint run_from (c : cfg) (cur : N) (ops : list op) : list (list obs) * N :=
  match ops with
  | [] => ([], cur)
  | o :: r => let '(cur1, l) := step c cur o in
              let '(ls, cur2) := run_from c cur1 r in (l :: ls, cur2)
  end.
Definition run (c : cfg) (ops : list op) := run_from c 0 ops.

(* ---- executable monitor ----------------------------------------------------------------- *)
Definition sres_eqb (a b : sres) : bool :=
  match a, b with
  | SOk v, SOk w => v =? w
  | SShutdown, SShutdown | SDeadline, SDeadline => true
  | SServer e, SServer f => e =? f
  | _, _ => false
  end.
Definition lmax (l : list N) : N := fold_right N.max 0 l.
Definition lmin (l : list N) : N := match l with [] => 0 | x :: t => fold_right N.min x t end.
Definition spread_ok (cs : list N) : bool := lmax cs - lmin cs <=? 1.
Fixpoint zip_add (a b : list N) : list N :=
  match a, b with x :: a', y :: b' => (x + y) :: zip_add a' b' | _, _ => [] end.
Definition lsum (l : list N) : N := fold_right N.add 0 l.

(* round robin: cs = calls received so far by each backend.  Every pick is a valid backend and
   is handed the caller's context and request unchanged; after every call, and after every parallel burst (whose
   per-backend counts must add up to the calls issued), the counts differ by at most one. *)
Fixpoint mon_rr (b : N) (cs : list N) (ops : list op) (tr : list (list obs)) : bool :=
  match ops, tr with
  | [], [] => true
  | Call c rq :: ops', [OPick k c' rq' _] :: tr' =>
    let cs' := zip_add cs (tally b [k]) in
    (k <? b) && cx_eqb c' c && (rq' =? rq) && spread_ok cs' && mon_rr b cs' ops' tr'
  | Par ns :: ops', [OCounts l] :: tr' =>
    let cs' := zip_add cs l in
    Nat.eqb (length l) (N.to_nat b) && (lsum l =? N.of_nat (total ns)) && spread_ok cs'
    && mon_rr b cs' ops' tr'
  | RCall _ _ _ :: ops', [] :: tr' => mon_rr b cs ops' tr'
  | _, _ => false
  end.

(* consistent hash: seen = (request, pick) pairs so far.  Every pick is a valid backend,
   is handed the caller's context and request unchanged, and equals the pick of every earlier equal request. *)
Fixpoint seen_pick (seen : list (N * N)) (rq : N) : option N :=
  match seen with [] => None | (q, k) :: r => if q =? rq then Some k else seen_pick r rq end.
Fixpoint mon_ch (b : N) (seen : list (N * N)) (ops : list op) (tr : list (list obs)) : bool :=
  match ops, tr with
  | [], [] => true
  | Call c rq :: ops', [OPick k c' rq' _] :: tr' =>
    (k <? b) && cx_eqb c' c && (rq' =? rq)
    && match seen_pick seen rq with Some k' => k =? k' | None => true end
    && mon_ch b ((rq, k) :: seen) ops' tr'
  | Par _ :: ops', [] :: tr' | RCall _ _ _ :: ops', [] :: tr' => mon_ch b seen ops' tr'
  | _, _ => false
  end.

(* retry: the inner stub is called with the caller's context and request every time; the policy is shown
   exactly the result of that call and the attempt numbers 1, 2, 3, ...; the loop goes on while
   the policy says so and the first result the policy declines is returned unchanged.  A run cut
   off by the harness's cap is accepted as a prefix. *)
Fixpoint mon_retry (c : cx) (rq : N) (i : N) (os : list obs) : bool :=
  match os with
  | [OCap] => true
  | OCall c' q res :: OPol res' a d :: rest =>
    cx_eqb c' c && (q =? rq) && sres_eqb res res' && (a =? i)
    && (if d then mon_retry c rq (i + 1) rest
        else match rest with [ODone r] => sres_eqb r res | _ => false end)
  | _ => false
  end.
Fixpoint mon_rt (ops : list op) (tr : list (list obs)) : bool :=
  match ops, tr with
  | [], [] => true
  | RCall c rq _ :: ops', os :: tr' => mon_retry c rq 1 os && mon_rt ops' tr'
  | _ :: ops', [] :: tr' => mon_rt ops' tr'
  | _, _ => false
  end.

Definition c20_ok (c : cfg) (ops : list op) (tr : list (list obs)) : bool :=
  match c with
  | CRR b => mon_rr b (tally b []) ops tr
  | CCH b _ => mon_ch b [] ops tr
  | CRetry _ _ _ => mon_rt ops tr
  end.

(* well-formed configurations and op lists: at least one backend; fewer than 2^64 round-robin
   calls in total; the harness's cap keeps the attempts below the u32 range *)
Fixpoint calls_of (ops : list op) : N :=
  match ops with
  | [] => 0
  | Call _ _ :: r => 1 + calls_of r
  | Par ns :: r => N.of_nat (total ns) + calls_of r
  | RCall _ _ _ :: r => calls_of r
  end.
Definition wf (c : cfg) (ops : list op) : Prop :=
  match c with
  | CRR b => 1 <= b /\ calls_of ops <= W64
  | CCH b _ => 1 <= b
  | CRetry _ cap _ => N.of_nat cap < W32 - 1
  end.

(* used by the correspondence check *)
Definition obs_eqb (a b : obs) : bool :=
  match a, b with
  | OPick k c q r, OPick k' c' q' r' => (k =? k') && cx_eqb c c' && (q =? q') && sres_eqb r r'
  | OCounts l, OCounts l' => list_eqb N.eqb l l'
  | OCall c q r, OCall c' q' r' => cx_eqb c c' && (q =? q') && sres_eqb r r'
  | OPol r a d, OPol r' a' d' => sres_eqb r r' && (a =? a') && Bool.eqb d d'
  | ODone r, ODone r' => sres_eqb r r'
  | OCap, OCap | OPanic, OPanic => true
  | _, _ => false
  end.
