(* The statements of the client-side property theorems (pinned here; proved in
   ClientProofs*.v; restated in Properties/Cxx.v).  No proofs in this file. *)
From Coq Require Import List Bool Arith NArith.
Import ListNotations.
From TarpcV Require Import Base Transport Client ClientS ClientMon ClientMon2.

Section Spec.
  Context {T : Type}.

  (* the observation trace of the client model: ANY transport `tp` with ANY initial state,
     any fuel policy, any queue capacity and in-flight limit, any op list *)
  Definition client_trace (tp : transport T cmsg resp) (fuel_of : cstate (T := T) -> nat) (t0 : T)
    (qcap maxif : nat) (ops : list (op (T := T))) : list (list obs) :=
    fst (run_from tp fuel_of (init t0 qcap maxif) ops).

  (* fewer than 2^64 operations: request ids (a u64 counter) do not wrap (boundary B2) *)
  Definition no_wrap (ops : list (op (T := T))) : Prop :=
    (N.of_nat (length ops) < 18446744073709551616)%N.

  (* every call's deadline is within the supported span (MAX_TIMEOUT = 365 days): the C05
     monitor exempts longer ones itself, so no hypothesis is needed there *)

  Definition stmt_c01 := forall tp fuel_of t0 qcap maxif ops, no_wrap ops ->
    c01_ok maxif ops (client_trace tp fuel_of t0 qcap maxif ops) = true.
  Definition stmt_c03 := forall tp fuel_of t0 qcap maxif ops, no_wrap ops ->
    c03_ok maxif ops (client_trace tp fuel_of t0 qcap maxif ops) = true.
  Definition stmt_c05 := forall tp fuel_of t0 qcap maxif ops, no_wrap ops ->
    c05_ok maxif ops (client_trace tp fuel_of t0 qcap maxif ops) = true.
  (* C05 promptness (ClientMon2.v) *)
  Definition stmt_c05p := forall tp fuel_of t0 qcap maxif ops, no_wrap ops ->
    c05p_ok maxif ops (client_trace tp fuel_of t0 qcap maxif ops) = true.
  Definition stmt_c09 := forall tp fuel_of t0 qcap maxif ops, no_wrap ops ->
    c09_ok maxif ops (client_trace tp fuel_of t0 qcap maxif ops) = true.
  Definition stmt_c10 := forall tp fuel_of t0 qcap maxif ops, no_wrap ops ->
    c10_ok maxif ops (client_trace tp fuel_of t0 qcap maxif ops) = true.
  Definition stmt_c11 := forall tp fuel_of t0 qcap maxif ops, no_wrap ops ->
    c11_ok maxif ops (client_trace tp fuel_of t0 qcap maxif ops) = true.
  Definition stmt_c14 := forall tp fuel_of t0 qcap maxif ops,
    c14_ok maxif ops (client_trace tp fuel_of t0 qcap maxif ops) = true.
  Definition stmt_c18 := forall tp fuel_of t0 qcap maxif ops, no_wrap ops ->
    c18_ok maxif ops (client_trace tp fuel_of t0 qcap maxif ops) = true.
End Spec.

(* termination of every dispatch poll on the scripted transport, with fuel linear in the
   queue lengths (C14 "returns control to the executor", C02 poll_total) *)
Definition stmt_cfuel := forall cfg ops,
  cfuel_ok (cf_maxif cfg) (map to_op ops) (crun cfg ops) = true.
