(* Server proofs, engineer B, part 1: C12 (a) -- right after a yield at most L requests are in
   flight (flag v12a).  The model-only fact is ServerState.requests_keys_limit; here the link to
   the observer: the gauge it checks is the model's table length. *)
From Coq Require Import List Bool Arith NArith Lia.
Import ListNotations.
From TarpcV Require Import Base Transport TimerWheel Server ServerMon ServerFuel ServerContract
     ServerSim ServerSim2 ServerSim3 ServerSim4 ServerSim5 ServerSim6 ServerSim7 ServerState
     ServerSpec ServerProofsPB0.

(* nothing but the gauge check after a poll decides v12a *)
Lemma ocall_12a : forall lim o c, v12a (o_v (o_call lim o c)) = v12a (o_v o).
Proof.
  intros lim o c. unfold o_call.
  assert (P : v12a (o_v (match o_errcall o with Some _ => chk09 o false | None => o end)) = v12a (o_v o)).
  { destruct (o_errcall o); oproj; rewrite ?andb_true_r; auto. }
  set (o0 := match o_errcall o with Some _ => chk09 o false | None => o end) in *.
  destruct c as [r|m r|r|r|r].
  - oproj. auto.
  - destruct (resp_body m).
    1,2,4: (destruct (last_open (resp_id m) (o_incs o0)); oproj; rewrite ?andb_true_r; auto).
    unfold accept_id. destruct (last_open (resp_id m) _); oproj; rewrite ?andb_true_r, ?orb_false_r; auto.
  - oproj. auto.
  - oproj. rewrite ?andb_true_r. auto.
  - unfold resolve_ignored. destruct (o_pend o0) as [[[[a b] d] e]|];
      destruct r as [[id dl tr body|id tr]| | |]; oproj; rewrite ?andb_true_r, ?orb_false_r; auto;
      destruct (last_open id _); oproj; rewrite ?andb_true_r, ?orb_false_r; auto.
Qed.

Lemma ocs_12a : forall lim new o, v12a (o_v (fold_left (o_call lim) new o)) = v12a (o_v o).
Proof.
  intros lim new; induction new as [|c new IH]; intros o; cbn [fold_left]; [auto|].
  rewrite IH. apply ocall_12a.
Qed.

Lemma oresult_12a : forall o r, rshape r -> v12a (o_v (o_result o r)) = v12a (o_v o).
Proof.
  intros o r Hr. destruct r; try contradiction; unfold o_result, finish_idle, accept_id.
  - destruct (last_open id _); oproj; rewrite ?andb_true_r, ?orb_false_r; auto.
  - destruct (o_blocked _); oproj; rewrite ?andb_true_r, ?orb_false_r; auto.
  - destruct (o_blocked _); oproj; rewrite ?andb_true_r, ?orb_false_r; auto.
  - oproj; rewrite ?andb_true_r, ?orb_false_r; auto.
Qed.

Lemma ogauges_12a : forall x y o a b, v12a (o_v (o_gauges x y o a b)) = v12a (o_v o).
Proof. intros x y o a b. unfold o_gauges. destruct x; [|destruct y]; oproj; rewrite ?andb_true_r; reflexivity. Qed.

Lemma otail_12a : forall o1 g, v12a (o_v (otail o1 g)) = v12a (o_v o1).
Proof.
  intros o1 g. unfold otail. destruct g as [[a b]|]; destruct (o_dropped o1); oproj; rewrite ?orb_false_r; auto.
  destruct (c_err (o_v o1)); [reflexivity|]. rewrite ogauges_12a. oproj. rewrite ?andb_true_r. reflexivity.
Qed.

Lemma ohevent_12a : forall o e, v12a (o_v (o_hevent o e)) = v12a (o_v o).
Proof.
  intros o e. destruct e; cbn [o_hevent]; oproj; rewrite ?orb_false_r; auto;
    destruct (nth_error (o_incs o) k); oproj; rewrite ?andb_true_r, ?orb_false_r; auto.
Qed.
Lemma ohevents_12a : forall body o, v12a (o_v (fold_left o_hevent body o)) = v12a (o_v o).
Proof. induction body as [|e body IH]; intros o; cbn [fold_left]; [auto|]. rewrite IH. apply ohevent_12a. Qed.

Lemma guard_dropped_12a : forall k need o, v12a (o_v (guard_dropped k need o)) = v12a (o_v o).
Proof.
  intros k need o. unfold guard_dropped. destruct (nth_error (o_incs o) k); [|auto].
  match goal with |- context [if ?b then _ else _] => destruct b end; oproj; auto.
  match goal with |- context [if ?b then _ else _] => destruct b end; oproj; auto.
Qed.

Section V12A.
  Context {T C : Type}.
  Variable tp : transport T response cmsg.
  Variable ctl : T -> C -> T.
  Variable tfuel : T -> nat.
  Hypothesis TF : tfuel_ok tp tfuel.
  Variable c : cfg.
  Notation st := (@sstate T).
  Notation lim := (cfg_limit c).

  Definition Q12a (o : ostate) (s : st) : Prop := v12a (o_v o) = true.

  Lemma q12a_step : forall o (s : st) p s' l,
    Top o s -> hb_ok s -> Q12a o s -> step tp ctl tfuel c s p = (s', l) -> Q12a (ostep lim o p l) s'.
  Proof.
    intros o s p s' l HT _ HV H. unfold Q12a in *.
    destruct (h_stop (o_v o)) eqn:EH; [|unfold ostep; rewrite EH; exact HV].
    destruct (HT EH) as (HI & _).
    destruct p as [|x|k hs|k|k| |dt].
    - (* a poll *)
      destruct (s_dropped s) eqn:ED.
      { unfold step, poll_requests in H. rewrite ED in H. injection H as <- <-.
        unfold ostep. rewrite EH. cbn [negb]. unfold gauges. rewrite ED.
        assert (Hodt : o_dropped o = true) by (rewrite (u_dropped _ _ HI); exact ED).
        cbn [app split_gauges rev]. rewrite Hodt. cbn iota. rewrite Hodt. exact HV. }
      assert (Hod : o_dropped o = false) by (rewrite (u_dropped _ _ HI); exact ED).
      destruct (poll_trace tp ctl tfuel TF c s s' l ED (u_timers _ _ HI) H) as (log & R & -> & Hd1 & HR & Hy).
      destruct (c_err (o_v o)) eqn:EC.
      { unfold ostep. rewrite EH. cbn [negb].
        rewrite (split_gauges_poll s' log R Hd1); [|destruct R; try contradiction; exact I].
        rewrite Hod, EC.
        assert (E1 : o_dropped (hyp_stop o false) = false) by (oproj; exact Hod).
        assert (E2 : c_err (o_v (hyp_stop o false)) = true) by (oproj; rewrite EC; reflexivity).
        cbv iota beta. rewrite E1, E2. oproj. exact HV. }
      rewrite (ostep_poll_eq c o s' log R EH Hod EC Hd1 HR). unfold poll_tail, o_calls.
      set (o1 := o_result (fold_left (o_call lim) log (start_poll o)) R).
      assert (V1 : v12a (o_v o1) = true).
      { unfold o1. rewrite (oresult_12a _ _ HR), ocs_12a. exact HV. }
      destruct (c_err (o_v o1)); [exact V1|].
      rewrite ogauges_12a. oproj. rewrite V1, andb_true_r. cbn [andb].
      destruct (is_oyield R) eqn:EY; [|reflexivity]. cbn [negb orb]. specialize (Hy eq_refl).
      destruct lim; [apply Nat.leb_le; exact Hy|reflexivity].
    - rewrite (ostep_nonpoll c (OCtl x) o _ EH I). rewrite otail_12a.
      destruct (fst (split_gauges l)); oproj; rewrite ?orb_false_r; exact HV.
    - rewrite (ostep_nonpoll c (@OHandlerPoll C k hs) o _ EH I). rewrite otail_12a, ohevents_12a. exact HV.
    - rewrite (ostep_nonpoll c (@ODropHandler C k) o _ EH I).
      rewrite otail_12a, guard_dropped_12a, ohevents_12a. exact HV.
    - rewrite (ostep_nonpoll c (@ODropYielded C k) o _ EH I).
      rewrite otail_12a, guard_dropped_12a, ohevents_12a. exact HV.
    - rewrite (ostep_nonpoll c (@ODropChannel C) o _ EH I). rewrite otail_12a. exact HV.
    - rewrite (ostep_nonpoll c (@OAdvance C dt) o _ EH I). rewrite otail_12a. exact HV.
  Qed.
End V12A.

Theorem s_v12a : stmt_s_v12a.
Proof.
  intros T C tp ctl tfuel c t0 ops TF. unfold observe, run.
  destruct (top_init c t0) as (HT & Hb).
  exact (run_gen tp ctl tfuel TF c Q12a (q12a_step tp ctl tfuel TF c) ops o_init (init c t0) HT Hb eq_refl).
Qed.
Print Assumptions s_v12a.
