(* Server proofs, engineer C, glue: NeedH (ServerProofsPC0.v) from engineer A's TopH / InvH
   (ServerProofsPA0.v).  Everything here is proved from the STATEMENT `run_invh_statement` of A's
   theorem; once A's `run_invh : run_invh_statement` is Qed, the pinned statements follow by one
   application each (see the end of this file). *)
From Coq Require Import List Bool Arith NArith Lia.
Import ListNotations.
From TarpcV Require Import Base Transport TimerWheel Server ServerMon ServerFuel ServerContract
     ServerState ServerSim ServerSim2 ServerSim3 ServerSim4 ServerSim5 ServerSim6 ServerSim7 ServerSpec
     ServerProofsPA0 ServerProofsPC0 ServerProofsPC9b ServerProofsPC11.

Lemma toph_init : forall (T : Type) (c : cfg) (t0 : T), TopH o_init (init c t0).
Proof.
  intros T c t0 _ _.
  assert (Hs : Safe (init c t0)) by (intros k hr H; destruct k; discriminate).
  split; [exact Hs|]. split; [intros k oi H; destruct k; discriminate|].
  split; [reflexivity|]. split; [reflexivity|]. intros _.
  constructor; cbn; try (intros k oi H; destruct k; discriminate);
    try (intros k hr oi H; destruct k; discriminate); try (intros m []); try (intros id []);
    try constructor; try exact Hs.
Qed.

Lemma needh_of_toph : forall (T : Type) o (s : @sstate T),
  TopH o s -> h_b1 (o_v o) = true -> h_stop (o_v o) = true -> NeedH o s.
Proof.
  intros T o s HT Hb Hs. destruct (HT Hs Hb) as (Hsafe & Hopen & _ & _ & _). constructor.
  - intros _ k hr oi Hk Hoi Hw. exact (opentrk_entry o s k hr oi Hopen Hk Hoi Hw).
  - intros k hr Hk Hst. exact (safe_running s k hr Hsafe Hk Hst).
Qed.

Theorem reachH_of_run_invh : run_invh_statement -> reachH (@NeedH).
Proof.
  intros RI T C tp ctl tfuel c t0 ops TF. cbv zeta. intros Hb Hs.
  destruct (top_init c t0) as (HT & Hhb).
  apply needh_of_toph; [|exact Hb|exact Hs].
  exact (RI T C tp ctl tfuel TF c ops o_init (init c t0) HT Hhb (toph_init T c t0)).
Qed.

(* the pinned statements, from the statement of A's theorem *)
Theorem s_v09_if : run_invh_statement -> stmt_s_v09.
Proof. intros RI. exact (s_v09_from_needh (reachH_of_run_invh RI)). Qed.
Theorem s09_if : run_invh_statement -> stmt_s09.
Proof. intros RI. exact (s09_from_needh (reachH_of_run_invh RI)). Qed.
Theorem s_v11_rel_if : run_invh_statement -> stmt_s_v11_rel.
Proof. intros RI. exact (s_v11_rel_from_needh (reachH_of_run_invh RI)). Qed.
Theorem s_v11_if : run_invh_statement -> stmt_s_v11.
Proof. intros RI. exact (s_v11_from_needh (reachH_of_run_invh RI)). Qed.
Theorem s11_rel_if : run_invh_statement -> stmt_s11_rel.
Proof. intros RI. exact (s11_rel_from_needh (reachH_of_run_invh RI)). Qed.
Theorem s11_if : run_invh_statement -> stmt_s11.
Proof. intros RI. exact (s11_from_needh (reachH_of_run_invh RI)). Qed.
Print Assumptions s_v09_if.
Print Assumptions s11_if.
