(* HopsProofs.v -- C07 over the chain model Hops.v: the executable monitor c07_ok accepts every
   run of the model (any codec, any chain length, any script whose clock stays far inside the
   Instant range), and no arithmetic error is ever observed.

   Technique: a simulation relation between the model state (cst, timespecs and Durations) and
   the monitor state (mst, integers = ns since the clock's origin), preserved by every op; the
   per-item arithmetic is TimeProofs' (ser_deadline_spec, de_deadline_spec, default_deadline_holds). *)
From Coq Require Import List NArith ZArith Bool Arith Lia.
Import ListNotations.
From TarpcV Require Import Base Time TimeProofs Hops.
Local Open Scope Z_scope.

(* scripts whose clock and deadlines stay far inside the Instant range: every remaining time is
   below 2^63 ns (292 years), and all advances together below 2^60 ms *)
Definition cop_small (o : cop) : Prop :=
  match o with
  | Call rem => rem < 9223372036854775808
  | Advance ms => ms < 1152921504606846976
  | _ => True
  end.
Fixpoint total_advance (ops : list cop) : Z :=
  match ops with
  | [] => 0
  | Advance ms :: r => Z.max 0 ms + total_advance r
  | _ :: r => total_advance r
  end.
Definition script_small (ops : list cop) : Prop :=
  Forall cop_small ops /\ total_advance ops < 1152921504606846976.

(* ---------------- the bounds of the invariant ---------------- *)
(* the clock never moves further than AB ns (= 2^60 ms) from the origin *)
Definition AB : Z := 1152921504606846976000000.
(* a deadline is never further than CB ns (= 2^64) ahead of the clock that last touched it *)
Definition CB : Z := 18446744073709551616.

Definition adv (o : cop) : Z := match o with Advance ms => Z.max 0 ms | _ => 0 end.

Lemma total_advance_cons : forall o r, total_advance (o :: r) = adv o + total_advance r.
Proof. intros [rem|ms|k|k|k] r; cbn [total_advance adv]; lia. Qed.

Lemma total_advance_nonneg : forall ops, 0 <= total_advance ops.
Proof.
  induction ops as [|o r IH]; [cbn [total_advance]; lia|].
  rewrite total_advance_cons. destruct o; cbn [adv]; lia.
Qed.

Lemma origin_ns : ts_ns origin = 1000000000000000.
Proof. vm_compute. reflexivity. Qed.

Lemma origin_wf : ts_wf origin.
Proof. unfold ts_wf, origin. cbn [t_secs t_nanos]. lits. lia. Qed.

Lemma limit_split : ts_limit = ts_ns origin + limit_ns.
Proof. unfold limit_ns, ts_limit. lia. Qed.

Lemma limit_room : AB + CB + AB < limit_ns.
Proof. vm_compute. reflexivity. Qed.

Lemma clock_mono_env : forall t, ts_wf t -> ts_ns t - ts_ns origin <= AB -> mono_env t.
Proof.
  intros [s n] [H1 H2] H. rewrite origin_ns in H. unfold mono_env, ts_wf.
  unfold ts_ns, AB in H. cbn [t_secs t_nanos] in *. lits. lia.
Qed.

Lemma dur_of_ns_spec : forall n, 0 <= n -> n < 18446744073709551616000000000 ->
  dur_wf (dur_of_ns n) /\ dur_ns (dur_of_ns n) = n.
Proof.
  intros n H0 H1. unfold dur_of_ns, dur_wf, dur_ns. cbn [d_secs d_nanos]. unfold NS, u64_max.
  pose proof (Z.div_mod n 1000000000 ltac:(lia)) as E.
  pose proof (Z.mod_pos_bound n 1000000000 ltac:(lia)) as B.
  lia.
Qed.

(* ---------------- generic list lemmas ---------------- *)
Lemma F2_impl : forall {A B} (R1 R2 : A -> B -> Prop), (forall a b, R1 a b -> R2 a b) ->
  forall l1 l2, Forall2 R1 l1 l2 -> Forall2 R2 l1 l2.
Proof. intros A B R1 R2 H l1 l2 F. induction F; constructor; auto. Qed.

Lemma F2_nth : forall {A B} (R : A -> B -> Prop) l ml, Forall2 R l ml -> forall j,
  match nth_error l j, nth_error ml j with
  | Some x, Some y => R x y
  | None, None => True
  | _, _ => False
  end.
Proof.
  intros A B R l ml F. induction F as [|x y l ml Hxy F IH]; intros [|j]; cbn [nth_error]; auto.
  apply IH.
Qed.

Lemma F2_upd : forall {A B} (R : A -> B -> Prop) f g l ml, Forall2 R l ml -> forall j,
  (forall x y, nth_error l j = Some x -> nth_error ml j = Some y -> R x y -> R (f x) (g y)) ->
  Forall2 R (upd l j f) (upd ml j g).
Proof.
  intros A B R f g l ml F. induction F as [|x y l ml Hxy F IH]; intros j H.
  - cbn [upd]. constructor.
  - destruct j as [|j]; cbn [upd].
    + constructor; [apply H; auto|assumption].
    + constructor; [assumption|]. apply IH. intros a b Ha Hb. apply H; assumption.
Qed.

(* ---------------- the simulation relation ---------------- *)
(* a queued deadline and its integer image (ns since the origin) *)
Definition qrel (now : Z) (D : timespec) (z : Z) : Prop :=
  ts_wf D /\ z = ts_ns D - ts_ns origin /\ z <= now + CB.
Definition trel (now : Z) (t : transit) (m : mtransit) : Prop :=
  match t, m with
  | TDur d, MSent D ts => dur_wf d /\ dur_ns d = Z.max 0 (D - ts) /\ ts <= now /\ D <= ts + CB
  | TOmitted, MOmitted => True
  | TInstant D, MVerbatim z => qrel now D z
  | _, _ => False
  end.
Definition lrel (now : Z) (l : link) (ml : mlink) : Prop :=
  Forall2 (qrel now) (queued l) (mqueued ml) /\
  Forall2 (trel now) (in_transit l) (mtrans ml) /\
  delivered l = mdone ml.
Definition srel (s : cst) (m : mst) : Prop :=
  ts_wf (c_now s) /\ ts_ns (c_now s) - ts_ns origin = m_now m /\ 0 <= m_now m /\
  Forall2 (lrel (m_now m)) (links s) (mlinks m).

Lemma qrel_mono : forall now now' D z, now <= now' -> qrel now D z -> qrel now' D z.
Proof.
  intros now now' D z H (A1 & A2 & A3). unfold qrel.
  split; [assumption|]. split; [assumption|lia].
Qed.

Lemma trel_mono : forall now now' t m, now <= now' -> trel now t m -> trel now' t m.
Proof.
  intros now now' [d| |D] [D' ts| |z] H; cbn [trel]; try tauto.
  - intros (A1 & A2 & A3 & A4). split; [assumption|]. split; [assumption|]. split; [lia|assumption].
  - apply qrel_mono; assumption.
Qed.

Lemma lrel_mono : forall now now' l ml, now <= now' -> lrel now l ml -> lrel now' l ml.
Proof.
  intros now now' l ml H (Q & T & Dn). unfold lrel. split; [|split; [|assumption]].
  - eapply F2_impl; [|exact Q]. intros a b. apply qrel_mono; assumption.
  - eapply F2_impl; [|exact T]. intros a b. apply trel_mono; assumption.
Qed.

Lemma link_rel : forall s m k, srel s m ->
  match link_at s k, mlink_at m k with
  | Some l, Some ml => lrel (m_now m) l ml
  | None, None => True
  | _, _ => False
  end.
Proof.
  intros s m [|j] (_ & _ & _ & F); cbn [link_at mlink_at]; [exact I|].
  apply (F2_nth _ _ _ F j).
Qed.

Lemma mset_now : forall m k g, m_now (mset m k g) = m_now m.
Proof. intros m [|j] g; reflexivity. Qed.

Lemma set_rel : forall s m k f g, srel s m ->
  (forall l ml, link_at s k = Some l -> mlink_at m k = Some ml ->
                lrel (m_now m) l ml -> lrel (m_now m) (f l) (g ml)) ->
  srel (set_link s k f) (mset m k g).
Proof.
  intros s m [|j] f g Hs H; [exact Hs|].
  destruct Hs as (A1 & A2 & A3 & F). unfold srel.
  cbn [set_link mset c_now m_now links mlinks].
  split; [assumption|]. split; [assumption|]. split; [assumption|].
  apply F2_upd; [assumption|]. intros x y Hx Hy. apply H; assumption.
Qed.

Lemma enqueue_rel : forall s m k Ds Zs, srel s m -> Forall2 (qrel (m_now m)) Ds Zs ->
  srel (enqueue s k Ds) (menqueue m k Zs).
Proof.
  intros s m k Ds Zs Hs HD. unfold enqueue, menqueue. apply set_rel; [assumption|].
  intros l ml _ _ (Q & T & Dn). unfold lrel.
  cbn [queued mqueued in_transit mtrans delivered mdone].
  split; [|split; assumption]. apply Forall2_app; assumption.
Qed.

Lemma init_rel : forall n, Forall2 (lrel 0) (repeat link0 n) (repeat mlink0 n).
Proof.
  induction n as [|n IH]; cbn [repeat]; constructor; [|assumption].
  unfold lrel, link0, mlink0. cbn [queued mqueued in_transit mtrans delivered mdone].
  split; [constructor|]. split; [constructor|reflexivity].
Qed.

Lemma srel_init : forall c, srel (cinit c) {| m_now := 0; mlinks := repeat mlink0 (hops c) |}.
Proof.
  intro c. unfold srel, cinit. cbn [c_now m_now links mlinks].
  split; [apply origin_wf|]. split; [lia|]. split; [lia|]. apply init_rel.
Qed.

(* ---------------- one op ---------------- *)
Definition step_ok (c : ccfg) (s : cst) (m : mst) (o : cop) : Prop :=
  exists m', mstep c m o (snd (cstep c s o)) = Some m' /\
             srel (fst (cstep c s o)) m' /\
             m_now m' = m_now m + adv o * 1000000 /\
             ~ In OErr (snd (cstep c s o)).

Lemma step_call : forall c s m rem, srel s m -> rem < 9223372036854775808 -> m_now m < AB ->
  step_ok c s m (Call rem).
Proof.
  intros c s m rem Hs Hr Hb. unfold step_ok. cbn [cstep mstep adv].
  destruct (rem <? 0) eqn:E.
  - apply Z.ltb_lt in E. cbn [fst snd].
    assert (E' : (0 <=? rem) = false) by (apply Z.leb_gt; lia). rewrite E'. cbn [andb].
    exists m. split; [reflexivity|]. split; [assumption|]. split; [lia|]. cbn [In]. tauto.
  - apply Z.ltb_ge in E. pose proof Hs as (Hw & Hn & H0 & F).
    destruct (dur_of_ns_spec rem) as [W N]; [lia|lia|].
    pose proof (ts_checked_add_spec (c_now s) (dur_of_ns rem) Hw W) as S.
    pose proof limit_room as LR. pose proof limit_split as LS. unfold CB, AB in *.
    destruct (ts_checked_add (c_now s) (dur_of_ns rem)) as [D|].
    + destruct S as (S1 & S2 & S3). cbn [fst snd].
      assert (E' : (0 <=? rem) && (m_now m + rem <? limit_ns) = true).
      { apply andb_true_iff. split; [apply Z.leb_le; lia | apply Z.ltb_lt; lia]. }
      rewrite E'. exists (menqueue m 1 [m_now m + rem]). split; [reflexivity|]. split.
      * apply enqueue_rel; [assumption|]. constructor; [|constructor].
        unfold qrel, CB. split; [assumption|]. split; lia.
      * split; [unfold menqueue; rewrite mset_now; lia|]. cbn [In]. tauto.
    + exfalso. lia.
Qed.

Lemma step_advance : forall c s m ms, srel s m -> ms < 1152921504606846976 ->
  m_now m + Z.max 0 ms * 1000000 < AB -> step_ok c s m (Advance ms).
Proof.
  intros c s m ms Hs Hr Hb. unfold step_ok. cbn [cstep mstep adv].
  destruct (ms <? 0) eqn:E.
  - apply Z.ltb_lt in E. cbn [fst snd].
    assert (E' : (0 <=? ms) = false) by (apply Z.leb_gt; lia). rewrite E'. cbn [andb].
    exists m. split; [reflexivity|]. split; [assumption|]. split; [lia|]. cbn [In]. tauto.
  - apply Z.ltb_ge in E. pose proof Hs as (Hw & Hn & H0 & F).
    destruct (dur_of_ns_spec (ms * 1000000)) as [W N]; [lia|lia|].
    pose proof (ts_checked_add_spec (c_now s) (dur_of_ns (ms * 1000000)) Hw W) as S.
    pose proof limit_room as LR. pose proof limit_split as LS. unfold CB, AB in *.
    destruct (ts_checked_add (c_now s) (dur_of_ns (ms * 1000000))) as [t|].
    + destruct S as (S1 & S2 & S3). cbn [fst snd].
      assert (E' : (0 <=? ms) && (m_now m + ms * 1000000 <? limit_ns) = true).
      { apply andb_true_iff. split; [apply Z.leb_le; lia | apply Z.ltb_lt; lia]. }
      rewrite E'. exists {| m_now := m_now m + ms * 1000000; mlinks := mlinks m |}.
      split; [reflexivity|]. split.
      * unfold srel. cbn [c_now m_now links mlinks].
        split; [assumption|]. split; [lia|]. split; [lia|].
        eapply F2_impl; [|exact F]. intros a b. apply lrel_mono. lia.
      * split; [cbn [m_now]; lia|]. cbn [In]. tauto.
    + exfalso. lia.
Qed.

(* ---- Send ---- *)
Lemma send_chan_obs : forall k (q : list timespec),
  flat_map (fun t => match t with TDur d => [OSent k (d_secs d) (d_nanos d)] | _ => [] end)
           (map (fun D => TInstant D) q) = [].
Proof. induction q as [|D q IH]; cbn [map flat_map app]; auto. Qed.

Lemma send_chan_sim : forall now q mq, Forall2 (qrel now) q mq ->
  Forall2 (trel now) (map (fun D => TInstant D) q) (map (fun D => MVerbatim D) mq).
Proof.
  intros now q mq F. induction F as [|D z q mq H F IH]; cbn [map]; constructor; assumption.
Qed.

Lemma send_dur_sim : forall k now mnow q mq, ts_wf now -> ts_ns now - ts_ns origin = mnow ->
  Forall2 (qrel mnow) q mq ->
  sent_ok k mnow mq
    (flat_map (fun t => match t with TDur d => [OSent k (d_secs d) (d_nanos d)] | _ => [] end)
              (map (fun D => TDur (ser_deadline now D)) q)) = true /\
  Forall2 (trel mnow) (map (fun D => TDur (ser_deadline now D)) q) (map (fun D => MSent D mnow) mq) /\
  ~ In OErr
    (flat_map (fun t => match t with TDur d => [OSent k (d_secs d) (d_nanos d)] | _ => [] end)
              (map (fun D => TDur (ser_deadline now D)) q)).
Proof.
  intros k now mnow q mq Hw Hn F.
  induction F as [|D z q mq (HD & Hz & Hb) F IH]; cbn [map flat_map app sent_ok].
  - split; [reflexivity|]. split; [constructor|]. cbn [In]. tauto.
  - destruct IH as (I1 & I2 & I3). destruct (ser_deadline_spec now D Hw HD) as [W N].
    split; [|split].
    + rewrite I1, Nat.eqb_refl. destruct W as [W1 W2]. unfold dur_ns in N.
      assert (E1 : (d_secs (ser_deadline now D) * NS + d_nanos (ser_deadline now D)
                    =? Z.max 0 (z - mnow)) = true) by (apply Z.eqb_eq; lia).
      assert (E2 : (0 <=? d_nanos (ser_deadline now D)) = true) by (apply Z.leb_le; lia).
      assert (E3 : (d_nanos (ser_deadline now D) <? NS) = true) by (apply Z.ltb_lt; lia).
      rewrite E1, E2, E3. reflexivity.
    + constructor; [|assumption]. cbn [trel].
      split; [assumption|]. split; [lia|]. split; [lia|]. lia.
    + cbn [In]. intros [H|H]; [discriminate|auto].
Qed.

Lemma step_send : forall c s m k, srel s m -> step_ok c s m (Send k).
Proof.
  intros c s m k Hs. unfold step_ok. cbn [cstep mstep adv].
  pose proof (link_rel s m k Hs) as LR.
  destruct (link_at s k) as [l|] eqn:EL; destruct (mlink_at m k) as [ml|] eqn:EM; try contradiction.
  2:{ cbn [fst snd]. exists m. split; [reflexivity|]. split; [assumption|]. split; [lia|].
      cbn [In]. tauto. }
  destruct LR as (Q & T & Dn). pose proof Hs as (Hw & Hn & H0 & F).
  assert (X : forall its (gm : mlink -> list mtransit), Forall2 (trel (m_now m)) its (gm ml) ->
    srel (set_link s k (fun l0 => {| queued := []; in_transit := in_transit l0 ++ its;
                                     delivered := delivered l0 |}))
         (mset m k (fun ml0 => {| mqueued := []; mtrans := mtrans ml0 ++ gm ml0; mdone := mdone ml0 |}))).
  { intros its gm Hi. apply set_rel; [assumption|]. intros l' ml' _ Hm' (Q' & T' & Dn').
    rewrite EM in Hm'. injection Hm' as <-.
    unfold lrel. cbn [queued mqueued in_transit mtrans delivered mdone].
    split; [constructor|]. split; [|assumption]. apply Forall2_app; assumption. }
  destruct (lcodec_of c) eqn:EC; cbn [fst snd].
  - destruct (send_dur_sim k (c_now s) (m_now m) (queued l) (mqueued ml) Hw Hn Q) as (S1 & S2 & S3).
    rewrite S1. eexists. split; [reflexivity|]. split; [|split; [rewrite mset_now; lia|exact S3]].
    apply (X _ (fun ml0 => map (fun D : Z => MSent D (m_now m)) (mqueued ml0))). exact S2.
  - destruct (send_dur_sim k (c_now s) (m_now m) (queued l) (mqueued ml) Hw Hn Q) as (S1 & S2 & S3).
    rewrite S1. eexists. split; [reflexivity|]. split; [|split; [rewrite mset_now; lia|exact S3]].
    apply (X _ (fun ml0 => map (fun D : Z => MSent D (m_now m)) (mqueued ml0))). exact S2.
  - rewrite send_chan_obs. eexists. split; [reflexivity|].
    split; [|split; [rewrite mset_now; lia|cbn [In]; tauto]].
    apply (X _ (fun ml0 => map (fun D : Z => MVerbatim D) (mqueued ml0))).
    apply send_chan_sim. exact Q.
Qed.

(* ---- Inject ---- *)
Lemma step_inject : forall c s m k, srel s m -> step_ok c s m (Inject k).
Proof.
  intros c s m k Hs. unfold step_ok. cbn [cstep mstep adv].
  assert (Same : exists m', Some m = Some m' /\ srel s m' /\ m_now m' = m_now m + 0 * 1000000 /\
                            ~ In OErr []).
  { exists m. split; [reflexivity|]. split; [assumption|]. split; [lia|]. cbn [In]. tauto. }
  pose proof (link_rel s m k Hs) as LR.
  destruct (lcodec_of c) eqn:EC; cbn [fst snd]; try exact Same.
  destruct (link_at s k) as [l|] eqn:EL; destruct (mlink_at m k) as [ml|] eqn:EM; try contradiction;
    cbn [fst snd]; try exact Same.
  destruct LR as (Q & T & Dn). rewrite <- Dn.
  destruct (delivered l) eqn:ED; cbn [fst snd]; try exact Same.
  eexists. split; [reflexivity|]. split; [|split; [rewrite mset_now; lia|cbn [In]; tauto]].
  apply set_rel; [assumption|]. intros l' ml' _ _ (Q' & T' & Dn').
  unfold lrel. cbn [queued mqueued in_transit mtrans delivered mdone].
  split; [assumption|]. split; [|assumption]. apply Forall2_app; [assumption|].
  constructor; [|constructor]. cbn [trel]. exact I.
Qed.

(* ---- Recv ---- *)
Lemma arrive_one : forall k now mnow t mt, ts_wf now -> ts_ns now - ts_ns origin = mnow ->
  0 <= mnow < AB -> trel mnow t mt ->
  exists D, arrive now t = Ok D /\
            arrive_ok k mnow mt (OHandler k (ts_ns D - ts_ns origin)) = Some (ts_ns D - ts_ns origin) /\
            qrel mnow D (ts_ns D - ts_ns origin).
Proof.
  intros k now mnow t mt Hw Hn Hb Hr.
  assert (Hm : mono_env now) by (apply clock_mono_env; [assumption|lia]).
  pose proof limit_room as LR. pose proof limit_split as LS.
  destruct t as [d| |D]; destruct mt as [Dz ts| |z]; cbn [trel] in Hr; try contradiction;
    cbn [arrive arrive_ok]; rewrite Nat.eqb_refl; cbn [negb].
  - destruct Hr as (W & N & Hts & HD).
    destruct (de_deadline_spec now d Hm W) as (D' & E1 & W' & E2 & _).
    assert (E : ts_ns D' = ts_ns now + dur_ns d) by (apply E2; unfold CB, AB in *; lia).
    exists D'. split; [assumption|].
    assert (B : (Dz <=? ts_ns D' - ts_ns origin)
                && (ts_ns D' - ts_ns origin <=? Z.max Dz ts + (mnow - ts))
                && ((ts <=? Dz) || (ts_ns D' - ts_ns origin =? mnow)) = true).
    { rewrite !andb_true_iff, orb_true_iff, !Z.leb_le, Z.eqb_eq. lia. }
    rewrite B. split; [reflexivity|]. unfold qrel. split; [assumption|]. split; [reflexivity|].
    unfold CB in *. lia.
  - destruct (default_deadline_holds now Hm) as (D' & E1 & W' & E2).
    cbn [de_context_deadline] in E1. exists D'. split; [assumption|].
    assert (B : (ts_ns D' - ts_ns origin =? mnow + ten_s_ns) = true).
    { apply Z.eqb_eq. unfold ten_s_ns. lia. }
    rewrite B. split; [reflexivity|]. unfold qrel. split; [assumption|]. split; [reflexivity|].
    unfold CB, default_deadline_secs, NS in *. lia.
  - destruct Hr as (W & Hz & Hbd). exists D. split; [reflexivity|]. subst z.
    rewrite Z.eqb_refl. split; [reflexivity|]. unfold qrel. split; [assumption|].
    split; [reflexivity|assumption].
Qed.

Lemma arrive_sim : forall k now mnow, ts_wf now -> ts_ns now - ts_ns origin = mnow ->
  0 <= mnow < AB -> forall ts mts, Forall2 (trel mnow) ts mts ->
  exists Ds,
    arrive_all_ok k mnow mts
      (map (fun r => match r with
                     | Ok D => OHandler k (ts_ns D - ts_ns origin)
                     | Panic _ => OErr end) (arrive_all now ts)) = Some Ds /\
    Forall2 (qrel mnow) (oks (arrive_all now ts)) Ds /\
    ~ In OErr (map (fun r => match r with
                             | Ok D => OHandler k (ts_ns D - ts_ns origin)
                             | Panic _ => OErr end) (arrive_all now ts)).
Proof.
  intros k now mnow Hw Hn Hb ts mts F.
  induction F as [|t mt ts mts Hr F IH].
  - exists []. cbn [arrive_all map oks arrive_all_ok In]. split; [reflexivity|]. split; [constructor|tauto].
  - destruct IH as (Ds & I1 & I2 & I3).
    destruct (arrive_one k now mnow t mt Hw Hn Hb Hr) as (D & A1 & A2 & A3).
    cbn [arrive_all]. rewrite A1. cbn [map oks arrive_all_ok]. rewrite A2, I1.
    exists ((ts_ns D - ts_ns origin) :: Ds). split; [reflexivity|]. split; [constructor; assumption|].
    cbn [In]. intros [H|H]; [discriminate|auto].
Qed.

Lemma step_recv : forall c s m k, srel s m -> m_now m < AB -> step_ok c s m (Recv k).
Proof.
  intros c s m k Hs Hb. unfold step_ok. cbn [cstep mstep adv].
  assert (Same : exists m', Some m = Some m' /\ srel s m' /\ m_now m' = m_now m + 0 * 1000000 /\
                            ~ In OErr []).
  { exists m. split; [reflexivity|]. split; [assumption|]. split; [lia|]. cbn [In]. tauto. }
  pose proof (link_rel s m k Hs) as LR.
  destruct (link_at s k) as [l|] eqn:EL; destruct (mlink_at m k) as [ml|] eqn:EM; try contradiction;
    cbn [fst snd]; try exact Same.
  destruct LR as (Q & T & Dn). rewrite <- Dn. pose proof Hs as (Hw & Hn & H0 & F).
  destruct (delivered l) eqn:ED; cbn [fst snd]; try exact Same.
  destruct (arrive_sim k (c_now s) (m_now m) Hw Hn (conj H0 Hb) (in_transit l) (mtrans ml) T)
    as (Ds & A1 & A2 & A3).
  rewrite A1. eexists. split; [reflexivity|].
  split; [|split; [unfold menqueue; rewrite !mset_now; lia|exact A3]].
  apply enqueue_rel.
  - apply set_rel; [assumption|]. intros l' ml' _ _ (Q' & T' & Dn').
    unfold lrel. cbn [queued mqueued in_transit mtrans delivered mdone].
    split; [assumption|]. split; [constructor|reflexivity].
  - rewrite mset_now. exact A2.
Qed.

Lemma step_sim : forall c s m o, srel s m -> cop_small o -> m_now m + adv o * 1000000 < AB ->
  step_ok c s m o.
Proof.
  intros c s m o Hs Hsm Hb. pose proof Hs as (_ & _ & H0 & _).
  destruct o as [rem|ms|k|k|k]; cbn [cop_small adv] in *.
  - apply step_call; [assumption|assumption|lia].
  - apply step_advance; assumption.
  - apply step_send; assumption.
  - apply step_inject; assumption.
  - apply step_recv; [assumption|lia].
Qed.

(* ---------------- whole runs ---------------- *)
Lemma run_sim : forall c ops s m, srel s m -> Forall cop_small ops ->
  m_now m + total_advance ops * 1000000 < AB ->
  mrun c m ops (fst (crun_from c s ops)) = true /\
  Forall (fun l => ~ In OErr l) (fst (crun_from c s ops)).
Proof.
  intros c ops. induction ops as [|o r IH]; intros s m Hs Hsm Hb.
  - cbn [crun_from fst mrun]. split; [reflexivity|constructor].
  - inversion Hsm as [|o' r' Ho Hr]; subst.
    rewrite total_advance_cons in Hb. pose proof (total_advance_nonneg r) as Hr0.
    destruct (step_sim c s m o Hs Ho ltac:(lia)) as (m' & M1 & M2 & M3 & M4).
    cbn [crun_from]. destruct (cstep c s o) as [s1 l] eqn:E1. cbn [fst snd] in *.
    destruct (IH s1 m' M2 Hr ltac:(lia)) as (I1 & I2).
    destruct (crun_from c s1 r) as [ls s2] eqn:E2. cbn [fst snd mrun] in *.
    rewrite M1. split; [assumption|]. constructor; assumption.
Qed.

(* MAIN: the monitor accepts every run of the model, for every codec, chain length and script *)
Theorem c07_monitor_holds : forall c ops, script_small ops ->
  c07_ok c ops (fst (crun c ops)) = true.
Proof.
  intros c ops [Hsm Hb]. unfold c07_ok, crun.
  apply (run_sim c ops (cinit c) _ (srel_init c) Hsm). cbn [m_now]. unfold AB. lia.
Qed.

(* no arithmetic error is ever observed *)
Theorem c07_no_error : forall c ops, script_small ops ->
  Forall (fun l => ~ In OErr l) (fst (crun c ops)).
Proof.
  intros c ops [Hsm Hb]. unfold crun.
  apply (run_sim c ops (cinit c) _ (srel_init c) Hsm). cbn [m_now]. unfold AB. lia.
Qed.
