(* Client proofs, group G2: C01 (responses reach exactly the call that asked), C18 (trace context
   follows the request) and C05 (deadlines are never enforced early), over the shared simulation
   relation of ClientSimBase.v. *)
From Coq Require Import List Bool Arith NArith Lia ZifyBool ZifyNat ZifyN.
Import ListNotations.
From TarpcV Require Import Base Transport Client ClientS ClientMon ClientSpec ClientLemmas ClientSimBase.
Local Open Scope N_scope.

Lemma NoDup_map_inj {A B} (f : A -> B) (l : list A) a b :
  NoDup (map f l) -> In a l -> In b l -> f a = f b -> a = b.
Proof.
  induction l as [|x r IH]; cbn; [tauto|]. intros H Ha Hb He.
  inversion H as [|? ? Hn Hr]; subst.
  destruct Ha as [<-|Ha]; destruct Hb as [<-|Hb]; try reflexivity.
  - exfalso. apply Hn. rewrite He. apply in_map, Hb.
  - exfalso. apply Hn. rewrite <- He. apply in_map, Ha.
  - apply IH; assumption.
Qed.

Section G2.
  Context {T : Type}.
  Notation cstate := (@cstate T).
  Notation op := (@op T).
  Implicit Types (s : cstate) (m : mst).

  (* ---------------------------------------------------------------- the outcome a caller gets *)
  Lemma sent_for_id m i id : id_of m i = Some id -> sent_for m i = filter (fun x => s_id x =? id) (m_sent m).
  Proof. intro H. unfold sent_for. rewrite H. reflexivity. Qed.

  Lemma chk_done_ok m i id o :
    N.of_nat (length (m_polled m)) < two64 ->
    (forall sr, In sr (m_sent m) -> req_of m (s_id sr) (s_deadline sr) (s_tc sr) (s_body sr)) ->
    NoDup (map s_id (m_sent m)) ->
    done_idx m i = false -> id_of m i = Some id -> just m id o ->
    v01 (chk_done m i o) = true /\ v05 (chk_done m i o) = true.
  Proof.
    intros Hw Hs Hn Hd Hid J. unfold chk_done. cbn [v01 v05]. rewrite (sent_for_id m i id Hid), Hd.
    cbn [negb andb].
    assert (Hread : forall b, (exists sr tm q, In sr (m_sent m) /\ s_id sr = id /\
                                In (id, b, tm, q) (m_read m) /\ (s_seq sr < q)%nat) ->
              existsb (fun x => read_after m (s_id x) b (s_seq x))
                      (filter (fun x => s_id x =? id) (m_sent m)) = true).
    { intros b (sr & tm & q & H1 & H2 & H3 & H4). apply existsb_exists. exists sr. split.
      - apply filter_In. split; [exact H1|]. apply N.eqb_eq, H2.
      - unfold read_after. apply existsb_exists. exists (id, b, tm, q). split; [exact H3|].
        rewrite H2, N.eqb_refl. cbn [andb].
        replace (s_seq sr <? q)%nat with true by lia. rewrite andb_true_r.
        destruct b; cbn; apply N.eqb_refl. }
    split.
    - destruct o; try reflexivity; apply Hread; exact J.
    - destruct o; try reflexivity. unfold call_of. destruct (nth_error (m_calls m) i) as [k|] eqn:Ek; [|reflexivity].
      cbn [just] in J. destruct J as (sr & i' & k' & H1 & H2 & H3 & H4).
      pose proof (call_with_id_intro m id i k Hw Hid Ek) as H3'. rewrite H3 in H3'. injection H3' as -> ->.
      assert (Hin : In sr (filter (fun x => s_id x =? id) (m_sent m))).
      { apply filter_In. split; [exact H1|]. apply N.eqb_eq, H2. }
      apply andb_true_iff. split.
      { destruct (filter (fun x => s_id x =? id) (m_sent m)); [destruct Hin|reflexivity]. }
      destruct H4 as [H4|[H4 H5]]; [apply orb_true_iff; left; apply N.ltb_lt, H4|].
      apply orb_true_iff; right.
      destruct (Hs sr H1) as (i2 & k2 & Hk2 & _ & _ & _ & Hdl & _).
      rewrite H2, H3 in Hk2. injection Hk2 as <- <-.
      apply andb_true_iff. split; [apply N.leb_le; lia|].
      apply forallb_forall. intros x Hx. apply filter_In in Hx. destruct Hx as [Hx He].
      apply N.eqb_eq in He.
      assert (x = sr) by (eapply (NoDup_map_inj s_id); try eassumption; congruence). subst x.
      apply negb_true_iff. unfold read_before_time.
      destruct (existsb _ (m_read m)) eqn:Ex; [|reflexivity]. exfalso.
      apply existsb_exists in Ex. destruct Ex as ([[[id' b] tm] q] & Hr & Hc).
      apply andb_true_iff in Hc. destruct Hc as [Hc Htm]. apply andb_true_iff in Hc. destruct Hc as [Hi Hq].
      apply N.eqb_eq in Hi. subst id'. rewrite H2 in Hr.
      specialize (H5 b tm q Hr ltac:(lia)). lia.
  Qed.

  (* ---------------------------------------------------------------- one op *)
  Context (tp : transport T cmsg resp) (fuel_of : cstate -> nat) (maxif : nat).

  Lemma step_verdicts m s (o : op) :
    sim m s -> N.of_nat (S (length (m_polled m))) < two64 ->
    let v := fst (chk_obs maxif o m (snd (step tp fuel_of s o))) in
    v01 v = true /\ v05 v = true /\ v18 v = true.
  Proof.
    intros HS Hw.
    assert (Nil : forall o' : op, snd (step tp fuel_of s o') = [] ->
              let v := fst (chk_obs maxif o' m (snd (step tp fuel_of s o'))) in
              v01 v = true /\ v05 v = true /\ v18 v = true).
    { intros o' E. rewrite E, chk_obs_nil. cbn. auto. }
    destruct o; try (apply Nil; reflexivity).
    - (* PollCall *)
      cbn [step]. pose proof (sim_poll_call m s i) as P.
      destruct (poll_call s i) as [r s']. specialize (P r s' HS Hw eq_refl).
      destruct r as [|o|]; cbn [fst snd chk_obs]; [cbn; auto| |cbn; auto].
      destruct P as (S' & Hd & id & Hid & J).
      set (m1 := rec_op (T:=T) m (PollCall i)) in *.
      destruct (chk_done_ok m1 i id o) as [V1 V5]; try assumption.
      + pose proof (sc_nowrap _ _ (sim_c _ _ S')) as H. exact H.
      + intros sr Hsr. pose proof (sd_sent _ _ (sim_d _ _ S') sr Hsr) as (i2 & k2 & Hk & R).
        exists i2, k2. split; [|exact R]. rewrite <- Hk. symmetry. apply call_with_id_eq; reflexivity.
      + exact (sd_sent_nodup _ _ (sim_d _ _ S')).
      + rewrite V1, V5. auto.
    - (* PollDispatch *)
      pose proof (sim_poll_dispatch_op tp fuel_of maxif m s HS) as P.
      destruct (step tp fuel_of s PollDispatch) as [s' os]. cbn [fst snd].
      destruct os as [|[| |rc|l|rd|a1 b1] [|[| |rc2|l2|r|a2 b2] [|[| |rc3|l3|r3|a b] [|? ?]]]]; try contradiction.
      + cbn. auto.
      + destruct P as [_ V]. cbn [chk_obs rec_op].
        pose proof (chk_calls_v01 maxif m l) as V1. pose proof (chk_calls_v05 maxif m l) as V5.
        destruct (chk_calls maxif m l) as [v m2]. cbn [fst] in *.
        destruct (c_poll _ _ _) as [okc c2]. cbn [fst vand v01 v05 v18].
        rewrite V, V1, V5. auto.
  Qed.

  (* ---------------------------------------------------------------- every op list *)
  Lemma run_verdicts (ops : list op) : forall m s,
    sim m s -> N.of_nat (length (m_polled m) + length ops) < two64 ->
    let v := chk_run maxif m ops (fst (run_from tp fuel_of s ops)) in
    v01 v = true /\ v05 v = true /\ v18 v = true.
  Proof.
    induction ops as [|o ops IH]; intros m s HS Hw; cbn [run_from chk_run fst]; [cbn; auto|].
    assert (Hw1 : N.of_nat (S (length (m_polled m))) < two64) by (cbn [length] in Hw; lia).
    pose proof (step_verdicts m s o HS Hw1) as V.
    pose proof (sim_step tp fuel_of maxif m s o HS Hw1) as S1.
    pose proof (polled_chk_obs_le maxif m o (snd (step tp fuel_of s o))) as L.
    destruct (step tp fuel_of s o) as [s1 l]. cbn [fst snd] in *.
    destruct (run_from tp fuel_of s1 ops) as [ls s2] eqn:Er. cbn [fst chk_run].
    destruct (chk_obs maxif o m l) as [v m']. cbn [fst snd] in *.
    specialize (IH m' s1 S1 ltac:(cbn [length] in Hw; lia)). rewrite Er in IH.
    cbv zeta in *. cbn [fst vand v01 v05 v18] in *.
    destruct V as (V1 & V5 & V18). destruct IH as (I1 & I5 & I18).
    rewrite V1, V5, V18, I1, I5, I18. auto.
  Qed.

  (* the relation holds in every reachable state *)
  Lemma run_sim (ops : list op) : forall m s,
    sim m s -> N.of_nat (length (m_polled m) + length ops) < two64 ->
    exists m', sim m' (snd (run_from tp fuel_of s ops)).
  Proof.
    induction ops as [|o ops IH]; intros m s HS Hw; cbn [run_from]; [exists m; exact HS|].
    assert (Hw1 : N.of_nat (S (length (m_polled m))) < two64) by (cbn [length] in Hw; lia).
    pose proof (sim_step tp fuel_of maxif m s o HS Hw1) as S1.
    pose proof (polled_chk_obs_le maxif m o (snd (step tp fuel_of s o))) as L.
    destruct (step tp fuel_of s o) as [s1 l]. cbn [fst snd] in *.
    destruct (IH _ s1 S1 ltac:(cbn [length] in Hw; lia)) as [m' S'].
    destruct (run_from tp fuel_of s1 ops) as [ls s2]. exists m'. exact S'.
  Qed.
End G2.

(* ------------------------------------------------------------------------------------------ *)
Section Theorems.
  Context {T : Type}.

  Lemma all_verdicts (tp : transport T cmsg resp) fuel_of t0 qcap maxif ops :
    no_wrap ops ->
    let v := monitors maxif ops (client_trace tp fuel_of t0 qcap maxif ops) in
    v01 v = true /\ v05 v = true /\ v18 v = true.
  Proof.
    intro Hw. unfold monitors, client_trace.
    apply run_verdicts; [apply sim_init|]. unfold no_wrap in Hw. cbn [m_polled m0 length]. exact Hw.
  Qed.

  Theorem c01_proved : @stmt_c01 T.
  Proof. intros tp fuel_of t0 qcap maxif ops Hw. apply (all_verdicts tp fuel_of t0 qcap maxif ops Hw). Qed.

  Theorem c18_proved : @stmt_c18 T.
  Proof. intros tp fuel_of t0 qcap maxif ops Hw. apply (all_verdicts tp fuel_of t0 qcap maxif ops Hw). Qed.

  Theorem c05_proved : @stmt_c05 T.
  Proof. intros tp fuel_of t0 qcap maxif ops Hw. apply (all_verdicts tp fuel_of t0 qcap maxif ops Hw). Qed.
End Theorems.

Print Assumptions c01_proved.
Print Assumptions c18_proved.
Print Assumptions c05_proved.
