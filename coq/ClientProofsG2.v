(* Client proofs, group G2: C01 (responses reach exactly the call that asked), C18 (trace context
   follows the request) and C05 (deadlines are never enforced early), over the shared simulation
   relation of ClientSimBase.v. *)
From Coq Require Import List Bool Arith NArith Lia ZifyBool ZifyNat ZifyN.
Import ListNotations.
From TarpcV Require Import Base Transport Client ClientS ClientMon ClientSpec ClientLemmas ClientSimBase.
Local Open Scope N_scope.

Lemma NoDup_map_inj {A B} (f : A -> B) (l : list A) a b :
  NoDup (map f l) -> In a l -> In b l -> f a = f b -> a = b.
Proof.
  induction l as [|x r IH]; cbn; [tauto|]. intros H Ha Hb He.
  inversion H as [|? ? Hn Hr]; subst.
  destruct Ha as [<-|Ha]; destruct Hb as [<-|Hb]; try reflexivity.
  - exfalso. apply Hn. rewrite He. apply in_map, Hb.
  - exfalso. apply Hn. rewrite <- He. apply in_map, Ha.
  - apply IH; assumption.
Qed.

Section G2.
  Context {T : Type}.
  Notation cstate := (@cstate T).
  Notation op := (@op T).
  Implicit Types (s : cstate) (m : mst).

  (* ---------------------------------------------------------------- the outcome a caller gets *)
  Lemma sent_for_id m i id : id_of m i = Some id -> sent_for m i = filter (fun x => s_id x =? id) (m_sent m).
  Proof. intro H. unfold sent_for. rewrite H. reflexivity. Qed.

  Lemma chk_done_ok m i id o :
    N.of_nat (length (m_polled m)) < two64 ->
    (forall sr, In sr (m_sent m) -> req_of m (s_id sr) (s_deadline sr) (s_tc sr) (s_body sr)) ->
    NoDup (map s_id (m_sent m)) ->
    done_idx m i = false -> id_of m i = Some id -> just m id o ->
    v01 (chk_done m i o) = true /\ v05 (chk_done m i o) = true.
  Proof.
    intros Hw Hs Hn Hd Hid J. unfold chk_done. cbn [v01 v05]. rewrite (sent_for_id m i id Hid), Hd.
    cbn [negb andb].
    assert (Hread : forall b, (exists sr tm q, In sr (m_sent m) /\ s_id sr = id /\
                                In (id, b, tm, q) (m_read m) /\ (s_seq sr < q)%nat) ->
              existsb (fun x => read_after m (s_id x) b (s_seq x))
                      (filter (fun x => s_id x =? id) (m_sent m)) = true).
    { intros b (sr & tm & q & H1 & H2 & H3 & H4). apply existsb_exists. exists sr. split.
      - apply filter_In. split; [exact H1|]. apply N.eqb_eq, H2.
      - unfold read_after. apply existsb_exists. exists (id, b, tm, q). split; [exact H3|].
        rewrite H2, N.eqb_refl. cbn [andb].
        replace (s_seq sr <? q)%nat with true by lia. rewrite andb_true_r.
        destruct b; cbn; apply N.eqb_refl. }
    split.
    - destruct o; try reflexivity; apply Hread; exact J.
    - destruct o; try reflexivity. unfold call_of. destruct (nth_error (m_calls m) i) as [k|] eqn:Ek; [|reflexivity].
      cbn [just] in J. destruct J as (sr & i' & k' & H1 & H2 & H3 & H4).
      pose proof (call_with_id_intro m id i k Hw Hid Ek) as H3'. rewrite H3 in H3'. injection H3' as -> ->.
      assert (Hin : In sr (filter (fun x => s_id x =? id) (m_sent m))).
      { apply filter_In. split; [exact H1|]. apply N.eqb_eq, H2. }
      apply andb_true_iff. split.
      { destruct (filter (fun x => s_id x =? id) (m_sent m)); [destruct Hin|reflexivity]. }
      destruct H4 as [H4|[H4 H5]]; [apply orb_true_iff; left; apply N.ltb_lt, H4|].
      apply orb_true_iff; right.
      destruct (Hs sr H1) as (i2 & k2 & Hk2 & _ & _ & _ & Hdl & _).
      rewrite H2, H3 in Hk2. injection Hk2 as <- <-.
      apply andb_true_iff. split; [apply N.leb_le; lia|].
      apply forallb_forall. intros x Hx. apply filter_In in Hx. destruct Hx as [Hx He].
      apply N.eqb_eq in He.
      assert (x = sr) by (eapply (NoDup_map_inj s_id); try eassumption; congruence). subst x.
      apply negb_true_iff. unfold read_before_time.
      destruct (existsb _ (m_read m)) eqn:Ex; [|reflexivity]. exfalso.
      apply existsb_exists in Ex. destruct Ex as ([[[id' b] tm] q] & Hr & Hc).
      apply andb_true_iff in Hc. destruct Hc as [Hc Htm]. apply andb_true_iff in Hc. destruct Hc as [Hi Hq].
      apply N.eqb_eq in Hi. subst id'. rewrite H2 in Hr.
      specialize (H5 b tm q Hr ltac:(lia)). lia.
  Qed.

  (* ---------------------------------------------------------------- one op *)
  Context (tp : transport T cmsg resp) (fuel_of : cstate -> nat) (maxif : nat).

  Lemma step_verdicts m s (o : op) :
    sim m s -> N.of_nat (S (length (m_polled m))) < two64 ->
    let v := fst (chk_obs maxif o m (snd (step tp fuel_of s o))) in
    v01 v = true /\ v05 v = true /\ v18 v = true.
  Proof.
    intros HS Hw.
    assert (Nil : forall o' : op, snd (step tp fuel_of s o') = [] ->
              let v := fst (chk_obs maxif o' m (snd (step tp fuel_of s o'))) in
              v01 v = true /\ v05 v = true /\ v18 v = true).
    { intros o' E. rewrite E, chk_obs_nil. cbn. auto. }
    destruct o; try (apply Nil; reflexivity).
    - (* PollCall *)
      cbn [step]. pose proof (sim_poll_call m s i) as P.
      destruct (poll_call s i) as [r s']. specialize (P r s' HS Hw eq_refl).
      destruct r as [|o|]; cbn [fst snd chk_obs]; [cbn; auto| |cbn; auto].
      destruct P as (S' & Hd & id & Hid & J).
      set (m1 := rec_op (T:=T) m (PollCall i)) in *.
      destruct (chk_done_ok m1 i id o) as [V1 V5]; try assumption.
      + pose proof (sc_nowrap _ _ (sim_c _ _ S')) as H. exact H.
      + intros sr Hsr. pose proof (sd_sent _ _ (sim_d _ _ S') sr Hsr) as (i2 & k2 & Hk & R).
        exists i2, k2. split; [|exact R]. rewrite <- Hk. symmetry. apply call_with_id_eq; reflexivity.
      + exact (sd_sent_nodup _ _ (sim_d _ _ S')).
      + rewrite V1, V5. auto.
    - (* PollDispatch *)
      pose proof (sim_poll_dispatch_op tp fuel_of maxif m s HS) as P.
      destruct (step tp fuel_of s PollDispatch) as [s' os]. cbn [fst snd].
      destruct os as [|[| |rc|l|rd|a1 b1] [|[| |rc2|l2|r|a2 b2] [|[| |rc3|l3|r3|a b] [|? ?]]]]; try contradiction.
      + cbn. auto.
      + destruct P as [_ V]. cbn [chk_obs rec_op].
        pose proof (chk_calls_v01 maxif m l) as V1. pose proof (chk_calls_v05 maxif m l) as V5.
        destruct (chk_calls maxif m l) as [v m2]. cbn [fst] in *.
        destruct (c_poll _ _ _) as [okc c2]. cbn [fst vand v01 v05 v18].
        rewrite V, V1, V5. auto.
  Qed.

  (* ---------------------------------------------------------------- every op list *)
  Lemma run_verdicts (ops : list op) : forall m s,
    sim m s -> N.of_nat (length (m_polled m) + length ops) < two64 ->
    let v := chk_run maxif m ops (fst (run_from tp fuel_of s ops)) in
    v01 v = true /\ v05 v = true /\ v18 v = true.
  Proof.
    induction ops as [|o ops IH]; intros m s HS Hw; cbn [run_from chk_run fst]; [cbn; auto|].
    assert (Hw1 : N.of_nat (S (length (m_polled m))) < two64) by (cbn [length] in Hw; lia).
    pose proof (step_verdicts m s o HS Hw1) as V.
    pose proof (sim_step tp fuel_of maxif m s o HS Hw1) as S1.
    pose proof (polled_chk_obs_le maxif m o (snd (step tp fuel_of s o))) as L.
    destruct (step tp fuel_of s o) as [s1 l]. cbn [fst snd] in *.
    destruct (run_from tp fuel_of s1 ops) as [ls s2] eqn:Er. cbn [fst chk_run].
    destruct (chk_obs maxif o m l) as [v m']. cbn [fst snd] in *.
    specialize (IH m' s1 S1 ltac:(cbn [length] in Hw; lia)). rewrite Er in IH.
    cbv zeta in *. cbn [fst vand v01 v05 v18] in *.
    destruct V as (V1 & V5 & V18). destruct IH as (I1 & I5 & I18).
    rewrite V1, V5, V18, I1, I5, I18. auto.
  Qed.

  (* the relation holds in every reachable state *)
  Lemma run_sim (ops : list op) : forall m s,
    sim m s -> N.of_nat (length (m_polled m) + length ops) < two64 ->
    exists m', sim m' (snd (run_from tp fuel_of s ops)).
  Proof.
    induction ops as [|o ops IH]; intros m s HS Hw; cbn [run_from]; [exists m; exact HS|].
    assert (Hw1 : N.of_nat (S (length (m_polled m))) < two64) by (cbn [length] in Hw; lia).
    pose proof (sim_step tp fuel_of maxif m s o HS Hw1) as S1.
    pose proof (polled_chk_obs_le maxif m o (snd (step tp fuel_of s o))) as L.
    destruct (step tp fuel_of s o) as [s1 l]. cbn [fst snd] in *.
    destruct (IH _ s1 S1 ltac:(cbn [length] in Hw; lia)) as [m' S'].
    destruct (run_from tp fuel_of s1 ops) as [ls s2]. exists m'. exact S'.
  Qed.
End G2.

(* ------------------------------------------------------------------------------------------ *)
Section Theorems.
  Context {T : Type}.

  Lemma all_verdicts (tp : transport T cmsg resp) fuel_of t0 qcap maxif ops :
    no_wrap ops ->
    let v := monitors maxif ops (client_trace tp fuel_of t0 qcap maxif ops) in
    v01 v = true /\ v05 v = true /\ v18 v = true.
  Proof.
    intro Hw. unfold monitors, client_trace.
    apply run_verdicts; [apply sim_init|]. unfold no_wrap in Hw. cbn [m_polled m0 length]. exact Hw.
  Qed.

  Theorem c01_proved : @stmt_c01 T.
  Proof. intros tp fuel_of t0 qcap maxif ops Hw. apply (all_verdicts tp fuel_of t0 qcap maxif ops Hw). Qed.

  Theorem c18_proved : @stmt_c18 T.
  Proof. intros tp fuel_of t0 qcap maxif ops Hw. apply (all_verdicts tp fuel_of t0 qcap maxif ops Hw). Qed.

  Theorem c05_proved : @stmt_c05 T.
  Proof. intros tp fuel_of t0 qcap maxif ops Hw. apply (all_verdicts tp fuel_of t0 qcap maxif ops Hw). Qed.
End Theorems.

Print Assumptions c01_proved.
Print Assumptions c18_proved.
Print Assumptions c05_proved.

(* ------------------------------------------------------------------------------------------ *)
(* separately named facts *)
Section Extras.
  Context {T : Type} (tp : transport T cmsg resp).
  Notation cstate := (@cstate T).
  Implicit Types (s : cstate).

  (* C01 (iii): a response whose id is not in flight changes nothing ... *)
  Theorem unknown_id_frame s (r : resp) :
    alookup (r_id r) (inflight s) = None -> complete s r = s.
  Proof. intro H. unfold complete, complete_request. rewrite H. reflexivity. Qed.

  (* ... but the transport and the call log of the poll in progress *)
  Theorem unknown_id_frame_read s (x : resp) t :
    fused s = false -> t_next tp (tr s) = (RItem x, t) -> alookup (r_id x) (inflight s) = None ->
    pump_read tp s = (PSome tt, upd_tr s t false (plog s ++ [CNext (RItem x)])).
  Proof.
    intros Hf Hn Ha. unfold pump_read, do_next. rewrite Hf, Hn. f_equal.
    apply unknown_id_frame. exact Ha.
  Qed.

  (* a request id has been handed out to the call *)
  Definition issued (p : phase) : Prop := p <> PNew /\ p <> PGone.

  Lemma sim_ids_unique_model m s i j ci cj :
    sim m s -> nth_error (calls s) i = Some ci -> nth_error (calls s) j = Some cj ->
    issued (c_phase ci) -> issued (c_phase cj) -> c_id ci = c_id cj -> i = j.
  Proof.
    intros S Hi Hj [Pi1 Pi2] [Pj1 Pj2] He.
    eapply (sim_ids_unique m s i j ci cj); try eassumption; try apply S; apply mem_nat_In.
    - apply (d_polled _ _ _ (sc_phase _ _ (sim_c _ _ S) _ _ Hi)). destruct (c_phase ci); try reflexivity; congruence.
    - apply (d_polled _ _ _ (sc_phase _ _ (sim_c _ _ S) _ _ Hj)). destruct (c_phase cj); try reflexivity; congruence.
  Qed.

  (* C01 (i): in every reachable state (fewer than 2^64 ops) the request ids of distinct calls are
     distinct, over any set of cloned handles *)
  Theorem ids_unique (fuel_of : cstate -> nat) t0 qcap maxif (ops : list (@op T)) :
    no_wrap ops ->
    let s := snd (run_from tp fuel_of (init t0 qcap maxif) ops) in
    forall i j ci cj,
      nth_error (calls s) i = Some ci -> nth_error (calls s) j = Some cj ->
      issued (c_phase ci) -> issued (c_phase cj) -> c_id ci = c_id cj -> i = j.
  Proof.
    intros Hw s.
    destruct (run_sim tp fuel_of maxif ops m0 (init t0 qcap maxif)) as [m S];
      [apply sim_init|exact Hw|].
    intros i j ci cj. apply (sim_ids_unique_model m s); exact S.
  Qed.

  (* every queued and every in-flight request id has been handed out *)
  Theorem ids_below_next (fuel_of : cstate -> nat) t0 qcap maxif (ops : list (@op T)) :
    no_wrap ops ->
    let s := snd (run_from tp fuel_of (init t0 qcap maxif) ops) in
    (forall q, In q (queue s) -> q_id q < next_id s) /\
    (forall id e, In (id, e) (inflight s) -> id < next_id s).
  Proof.
    intros Hw s.
    destruct (run_sim tp fuel_of maxif ops m0 (init t0 qcap maxif)) as [m S];
      [apply sim_init|exact Hw|].
    split; [intros q; apply (sim_queue_lt m s q S)|intros id e; apply (sim_inflight_lt m s id e S)].
  Qed.

  (* ---------------------------------------------------------------- C05: prompt expiry *)
  Lemma min_timer_some l b : min_timer l (Some b) <> None.
  Proof.
    revert b. induction l as [|[id w] r IH]; intros [bid bw]; cbn [min_timer]; [discriminate|].
    destruct ((w <? bw) || ((w =? bw) && (id <? bid))); apply IH.
  Qed.

  Lemma min_timer_le l best id w :
    min_timer l best = Some (id, w) ->
    (forall id' w', In (id', w') l -> w <= w') /\ (forall bid bw, best = Some (bid, bw) -> w <= bw).
  Proof.
    revert best. induction l as [|[id0 w0] r IH]; intro best; cbn [min_timer].
    - intros ->. split; [intros ? ? []|]. intros bid bw [= -> ->]. lia.
    - destruct best as [[bid bw]|].
      + destruct ((w0 <? bw) || ((w0 =? bw) && (id0 <? bid))) eqn:E; intro H; destruct (IH _ H) as [H1 H2].
        * specialize (H2 _ _ eq_refl). split.
          -- intros id' w' [[= <- <-]|Hin]; [exact H2|apply (H1 _ _ Hin)].
          -- intros ? ? [= <- <-]. lia.
        * specialize (H2 _ _ eq_refl). split.
          -- intros id' w' [[= <- <-]|Hin]; [lia|apply (H1 _ _ Hin)].
          -- intros ? ? [= <- <-]. exact H2.
      + intro H. destruct (IH _ H) as [H1 H2]. specialize (H2 _ _ eq_refl). split.
        * intros id' w' [[= <- <-]|Hin]; [exact H2|apply (H1 _ _ Hin)].
        * discriminate.
  Qed.

  Lemma poll_expired_none s s' :
    poll_expired s = (None, s') -> s' = s /\ forall id w, In (id, w) (timers s) -> now s < w.
  Proof.
    unfold poll_expired. destruct (min_timer (timers s) None) as [[id w]|] eqn:Em.
    - destruct (w <=? now s) eqn:Ew.
      + destruct (alookup id (inflight (upd_if s (inflight s) (aremove id (timers s))))); discriminate.
      + intros [= <-]. split; [reflexivity|]. intros id' w' Hin.
        destruct (min_timer_le _ _ _ _ Em) as [H _]. specialize (H _ _ Hin). lia.
    - intros [= <-]. split; [reflexivity|]. intros id' w' Hin.
      destruct (timers s) as [|[a b] r]; [destruct Hin|]. cbn [min_timer] in Em.
      exfalso. eapply min_timer_some; exact Em.
  Qed.

  Definition no_expired s : Prop := forall id w, In (id, w) (timers s) -> now s < w.

  Lemma pump_write_idle s wr s' :
    pump_write tp s = (wr, s') -> wr = PNone \/ wr = PPend -> no_expired s'.
  Proof.
    unfold pump_write.
    destruct (poll_write_request tp s) as [r1 s1].
    assert (D : forall (x : pres unit) (y : cstate) (P : Prop),
               (x = PNone \/ x = PPend -> False) -> (x, y) = (wr, s') -> wr = PNone \/ wr = PPend -> P).
    { intros x y P Hx [= <- <-] H. destruct (Hx H). }
    destruct r1 as [u| | |a];
      try (apply D; intros [H|H]; discriminate);
      (destruct (poll_write_cancel tp s1) as [r2 s2];
       destruct r2 as [u| | |a]; try (apply D; intros [H|H]; discriminate);
       (destruct (poll_expired s2) as [e s3] eqn:E3;
        destruct e; try (apply D; intros [H|H]; discriminate);
        apply poll_expired_none in E3; destruct E3 as [E3 Hn]; subst s3;
        first [ unfold do_close; destruct (t_close tp (tr s2)) as [c t];
                destruct c; intros E _; injection E as _ <-; exact Hn
              | unfold do_flush; destruct (t_flush tp (tr s2)) as [c t];
                destruct c; intros E _; injection E as _ <-; exact Hn ])).
  Qed.

  Lemma run_loop_pending f s s' : run_loop tp f s = (RunPending, s') -> no_expired s'.
  Proof.
    revert s. induction f as [|f IH]; intro s; cbn [run_loop]; [discriminate|].
    destruct (pump_read tp s) as [rd s1].
    destruct rd as [u| | |a]; try discriminate;
      (destruct (pump_write tp s1) as [wr s2] eqn:E2;
       destruct wr as [u'| | |a']; try discriminate; try apply IH;
       try (destruct (Nat.eqb (length (inflight s2)) 0); try discriminate; try apply IH);
       try (intros E; injection E as <-; apply (pump_write_idle _ _ _ E2); auto)).
  Qed.

  (* terminal is set only by poll_dispatch itself *)
  Lemma terminal_release_permit s : terminal (release_permit s) = terminal s.
  Proof. unfold release_permit. destruct (waiters s); rewrite ?set_phase_alt; reflexivity. Qed.
  Lemma terminal_q_poll_recv s : terminal (snd (q_poll_recv s)) = terminal s.
  Proof.
    unfold q_poll_recv. destruct (queue s); cbn [snd].
    - destruct (Nat.eqb (senders s) 0); [reflexivity|].
      destruct (rx_closed s && Nat.eqb (assigned_count s) 0); reflexivity.
    - rewrite terminal_release_permit. reflexivity.
  Qed.
  Lemma terminal_slot_send s id o : terminal (slot_send s id o) = terminal s.
  Proof. rewrite slot_send_alt. reflexivity. Qed.
  Lemma terminal_drain_loop f a s : terminal (snd (drain_loop f a s)) = terminal s.
  Proof.
    revert s. induction f as [|f IH]; intro s; cbn [drain_loop]; [reflexivity|].
    pose proof (terminal_q_poll_recv s) as H. destruct (q_poll_recv s) as [r s1]. cbn [snd] in H.
    destruct r; cbn [snd]; try exact H. rewrite IH, terminal_slot_send. exact H.
  Qed.
  Lemma terminal_shut_down s a : terminal (snd (shut_down s a)) = terminal s.
  Proof.
    unfold shut_down. rewrite terminal_drain_loop. unfold complete_all.
    assert (F : forall (l : list (N * ifentry)) (x : cstate),
              terminal (fold_left (fun acc p => slot_send acc (fst p) (OConnErr a)) l x) = terminal x).
    { induction l as [|p r IH]; intro x; cbn [fold_left]; [reflexivity|]. rewrite IH. apply terminal_slot_send. }
    rewrite F. cbn [terminal upd_if]. unfold q_close. destruct (rx_closed s); [reflexivity|].
    rewrite fold_set_phase_alt. reflexivity.
  Qed.

  (* C05 (c): when a poll of the dispatch returns Pending without a fatal transport error, every
     expired timer has been fired: no remaining timer is due *)
  Theorem expiry_prompt fuel s s' :
    poll_dispatch tp fuel s = (DPending, s') -> terminal s' = None ->
    forall id w, In (id, w) (timers s') -> now s' < w.
  Proof.
    unfold poll_dispatch. destruct (terminal s) as [a|] eqn:Et.
    - pose proof (terminal_shut_down s a) as H. destruct (shut_down s a) as [b s1]. cbn [snd] in H.
      destruct b; intros [= <-] Hn; congruence.
    - destruct (run_loop tp fuel s) as [r s1] eqn:Er. destruct r as [|a| |]; try discriminate.
      + pose proof (terminal_shut_down (upd_term s1 (Some a)) a) as H.
        destruct (shut_down (upd_term s1 (Some a)) a) as [b s3]. cbn [snd] in H.
        destruct b; intros [= <-] Hn; cbn in H; congruence.
      + intros [= <-] _. eapply run_loop_pending. exact Er.
  Qed.
End Extras.

Print Assumptions unknown_id_frame.
Print Assumptions ids_unique.
Print Assumptions expiry_prompt.
