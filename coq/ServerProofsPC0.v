(* Server proofs, engineer C, part 0: shared infrastructure.
   - NeedH: the two consequences of the hypothesis-dependent invariant (ServerSpec header, clauses
     (i)-(iii), engineer A) that C09 (c) and the lower bound of C11 need;
   - reachH P: "P holds of (observer state, model state) after every run, while h_b1 and h_stop hold";
   - a model-only invariant: after the channel was dropped every tracked entry is aborted;
   - a driver: prove a flag predicate step by step with the invariants available before AND after
     each op (Top, hb_ok, NeedH). *)
From Coq Require Import List Bool Arith NArith Lia.
Import ListNotations.
From TarpcV Require Import Base Transport TimerWheel Server ServerMon ServerFuel ServerContract
     ServerState ServerSim ServerSim2 ServerSim3 ServerSim4 ServerSim5 ServerSim6 ServerSim7.

Record NeedH {T : Type} (o : ostate) (s : @sstate T) : Prop := {
  (* (i) surely-open => tracked (while no poll has returned a stream error) *)
  nh_open : c_err (o_v o) = false ->
            forall k hr oi, nth_error (s_handlers s) k = Some hr -> nth_error (o_incs o) k = Some oi ->
              oi_wire oi = WOpen -> exists e, In e (s_inflight s) /\ e_h e = h_h hr;
  (* a handler that can still be polled has its entry tracked, or was aborted *)
  nh_live : forall k hr, nth_error (s_handlers s) k = Some hr ->
              (h_st hr = HYielded \/ h_st hr = HRunning) ->
              (exists e, In e (s_inflight s) /\ e_h e = h_h hr) \/ In (h_h hr) (s_aborted s) }.

Definition reachH (P : forall T : Type, ostate -> @sstate T -> Prop) : Prop :=
  forall (T C : Type) (tp : transport T response cmsg) (ctl : T -> C -> T) (tfuel : T -> nat)
         (c : cfg) (t0 : T) (ops : list (op C)),
    tfuel_ok tp tfuel ->
    let r := run tp ctl tfuel c t0 ops in
    let o := orun (cfg_limit c) o_init ops (fst r) in
    h_b1 (o_v o) = true -> h_stop (o_v o) = true -> P T o (snd r).

Section Infra.
  Context {T C : Type}.
  Variable tp : transport T response cmsg.
  Variable ctl : T -> C -> T.
  Variable tfuel : T -> nat.
  Hypothesis TF : tfuel_ok tp tfuel.
  Variable c : cfg.
  Notation st := (@sstate T).
  Notation lim := (cfg_limit c).

  (* ---- runs in two parts ------------------------------------------------------------------ *)
  Lemma run_from_length : forall ops (s : st), length (fst (run_from tp ctl tfuel c s ops)) = length ops.
  Proof.
    induction ops as [|p ops IH]; intros s; cbn [run_from]; [reflexivity|].
    destruct (step tp ctl tfuel c s p) as [s1 l]. specialize (IH s1).
    destruct (run_from tp ctl tfuel c s1 ops) as [ls s2]. cbn [fst length] in *. congruence.
  Qed.

  Lemma run_from_app : forall a b (s : st),
    run_from tp ctl tfuel c s (a ++ b) =
    let '(la, sa) := run_from tp ctl tfuel c s a in
    let '(lb, sb) := run_from tp ctl tfuel c sa b in (la ++ lb, sb).
  Proof.
    induction a as [|p a IH]; intros b s; cbn [app run_from].
    - destruct (run_from tp ctl tfuel c s b); reflexivity.
    - destruct (step tp ctl tfuel c s p) as [s1 l]. rewrite IH.
      destruct (run_from tp ctl tfuel c s1 a) as [la sa]. destruct (run_from tp ctl tfuel c sa b) as [lb sb].
      reflexivity.
  Qed.

  Lemma orun_app : forall (a b : list (op C)) la lb o,
    length la = length a -> orun lim o (a ++ b) (la ++ lb) = orun lim (orun lim o a la) b lb.
  Proof.
    induction a as [|p a IH]; intros b la lb o H; destruct la as [|l la]; cbn in H; try discriminate;
      cbn [app orun]; [reflexivity|]. apply IH. congruence.
  Qed.

  (* ---- after the drop everything tracked is aborted ---------------------------------------- *)
  Definition DA (s : st) : Prop :=
    s_dropped s = true -> forall e, In e (s_inflight s) -> In (e_h e) (s_aborted s).

  Lemma aborted_mono_execute : forall k hs (s : st) h,
    In h (s_aborted s) -> In h (s_aborted (fst (execute_poll k hs s))).
  Proof.
    intros k hs s h Hin. unfold execute_poll. destruct (nth_error (s_handlers s) k) as [hr|]; [|exact Hin].
    destruct (add_permit_shape s) as (_ & _ & _ & _ & _ & P6 & _). cbv zeta in *.
    destruct (h_st hr); try exact Hin;
      destruct (existsb (Nat.eqb (h_h hr)) (s_aborted s)); sproj; rewrite ?P6; auto;
      try (destruct hs); try (destruct (s_dropped s)); try (destruct (s_permits s)); sproj; rewrite ?P6; auto.
  Qed.
  Lemma dropped_execute : forall k hs (s : st), s_dropped (fst (execute_poll k hs s)) = s_dropped s.
  Proof.
    intros k hs s. unfold execute_poll. destruct (nth_error (s_handlers s) k) as [hr|]; [|reflexivity].
    destruct (add_permit_shape s) as (_ & _ & _ & _ & _ & _ & _ & _ & P9 & _). cbv zeta in *.
    destruct (h_st hr); try reflexivity;
      destruct (existsb (Nat.eqb (h_h hr)) (s_aborted s)); sproj; rewrite ?P9; auto;
      try (destruct hs); try (destruct (s_dropped s) eqn:ED); try (destruct (s_permits s)); sproj; rewrite ?P9, ?ED; auto.
  Qed.

  Lemma DA_step : forall (s : st) p, DA s -> DA (fst (step tp ctl tfuel c s p)).
  Proof.
    intros s p HD. unfold step. destruct p as [|x|k hs|k|k| |dt].
    - destruct (poll_requests tp tfuel c s) as [s1 l0] eqn:EP. cbn [fst]. unfold poll_requests in EP.
      destruct (s_dropped s) eqn:ED; [injection EP as <- _; exact HD|].
      destruct (requests_poll_next tp c (poll_fuel tfuel s) (set_log s [])) as [r s2] eqn:ER.
      pose proof (dropped_requests tp _ _ _ _ _ ER) as Hd. sproj.
      intros Hx. exfalso. destruct r; injection EP as <- _; sproj; congruence.
    - cbn [fst]. intros Hd e He. sproj. exact (HD Hd e He).
    - destruct (execute_poll k hs s) as [s1 l0] eqn:EE. cbn [fst].
      pose proof (execute_poll_tables k hs s) as (A & _). pose proof (dropped_execute k hs s) as B.
      pose proof (aborted_mono_execute k hs s) as D. rewrite EE in A, B, D. cbn [fst] in A, B, D.
      intros Hd e He. rewrite A in He. rewrite B in Hd. apply D. exact (HD Hd e He).
    - destruct (drop_handler k s) as [s1 l0] eqn:EE. cbn [fst].
      pose proof (drop_handler_tables k s) as (A & _). rewrite EE in A. cbn [fst] in A.
      assert (B : s_dropped s1 = s_dropped s /\ s_aborted s1 = s_aborted s).
      { unfold drop_handler, guard_cancel in EE. destruct (nth_error (s_handlers s) k) as [hr|]; [|injection EE as <- _; auto].
        destruct (add_permit_shape s) as (_ & _ & _ & _ & _ & P6 & _ & _ & P9 & _). cbv zeta in *.
        destruct (h_st hr); injection EE as <- _; sproj; auto; rewrite ?P9;
          destruct (s_dropped s) eqn:ED; sproj; rewrite ?P6, ?P9, ?ED; auto. }
      destruct B as (B1 & B2). intros Hd e He. rewrite A in He. rewrite B2. rewrite B1 in Hd. exact (HD Hd e He).
    - destruct (drop_yielded k s) as [s1 l0] eqn:EE. cbn [fst].
      pose proof (drop_yielded_tables k s) as (A & _). rewrite EE in A. cbn [fst] in A.
      assert (B : s_dropped s1 = s_dropped s /\ s_aborted s1 = s_aborted s).
      { unfold drop_yielded, guard_cancel in EE. destruct (nth_error (s_handlers s) k) as [[h i stt]|]; [|injection EE as <- _; auto].
        destruct stt; injection EE as <- _; sproj; auto. destruct (s_dropped s) eqn:ED; sproj; rewrite ?ED; auto. }
      destruct B as (B1 & B2). intros Hd e He. rewrite A in He. rewrite B2. rewrite B1 in Hd. exact (HD Hd e He).
    - cbn [fst]. unfold drop_channel. destruct (s_dropped s) eqn:ED; [exact HD|].
      intros _ e He. sproj. apply in_or_app. left. apply in_map. exact He.
    - cbn [fst]. intros Hd e He. sproj. exact (HD Hd e He).
  Qed.

  Lemma DA_init : forall t0, DA (init c t0).
  Proof. intros t0 H. discriminate. Qed.

  (* ---- the driver --------------------------------------------------------------------------- *)
  Variable NH : reachH (@NeedH).
  Variable t0 : T.

  (* the state pair after a prefix of the run *)
  Definition st_after (pre : list (op C)) : st := snd (run tp ctl tfuel c t0 pre).
  Definition o_after (pre : list (op C)) : ostate := orun lim o_init pre (fst (run tp ctl tfuel c t0 pre)).

  Record Ctx (o : ostate) (s : st) : Prop := {
    cx_top : Top o s;
    cx_hb : hb_ok s;
    cx_da : DA s;
    cx_nh : h_b1 (o_v o) = true -> h_stop (o_v o) = true -> NeedH o s }.

  Lemma Ctx_after : forall pre, Ctx (o_after pre) (st_after pre).
  Proof.
    intros pre. unfold o_after, st_after, run.
    destruct (top_init c t0) as (HT & Hb).
    destruct (run_top tp ctl tfuel TF c pre o_init (init c t0) HT Hb) as (A & B). cbv zeta in A, B.
    constructor; [exact A|exact B| |].
    - clear. generalize (DA_init t0). generalize (init c t0). induction pre as [|p pre IH]; intros s HD; cbn [run_from]; [exact HD|].
      pose proof (DA_step s p HD) as H1. destruct (step tp ctl tfuel c s p) as [s1 l]. cbn [fst] in H1.
      specialize (IH s1 H1). destruct (run_from tp ctl tfuel c s1 pre) as [ls s2]. exact IH.
    - exact (NH T C tp ctl tfuel c t0 pre TF).
  Qed.

  Lemma after_snoc : forall pre p,
    let '(s1, l) := step tp ctl tfuel c (st_after pre) p in
    st_after (pre ++ [p]) = s1 /\ o_after (pre ++ [p]) = ostep lim (o_after pre) p l.
  Proof.
    intros pre p. unfold st_after, o_after, run. rewrite run_from_app.
    pose proof (run_from_length pre (init c t0)) as HL.
    destruct (run_from tp ctl tfuel c (init c t0) pre) as [la sa]. cbn [fst snd] in *.
    cbn [run_from]. destruct (step tp ctl tfuel c sa p) as [s1 l]. cbn [fst snd].
    split; [reflexivity|]. rewrite orun_app by exact HL. reflexivity.
  Qed.

  (* a predicate on the observer state that every op preserves, given the invariants before and
     after the op, holds after every run *)
  Lemma drive : forall (VP : ostate -> Prop),
    (forall o (s : st) p s' l,
       Ctx o s -> Ctx (ostep lim o p l) s' -> step tp ctl tfuel c s p = (s', l) ->
       VP o -> VP (ostep lim o p l)) ->
    VP o_init -> forall ops, VP (o_after ops).
  Proof.
    intros VP Hstep H0 ops. induction ops as [|p ops IH] using rev_ind; [exact H0|].
    pose proof (after_snoc ops p) as HS. destruct (step tp ctl tfuel c (st_after ops) p) as [s1 l] eqn:ES.
    destruct HS as (E1 & E2). rewrite E2.
    apply (Hstep (o_after ops) (st_after ops) p s1 l (Ctx_after ops)); [|exact ES|exact IH].
    rewrite <- E1, <- E2. apply Ctx_after.
  Qed.
End Infra.
