(* Chain proofs: the response-integrity monitor as a whole.  Five of its six flags are proved
   (rm_val: ChainResp; rm_yield, rm_start: ChainResp2; rm_uniq: ChainResp3; rm_once: ChainResp4);
   the sixth, rm_body, is proved in ChainResp6 (chain_resp_body; with it chain_resp : stmt_resp).
   This file shows that stmt_resp follows from stmt_resp_body alone. *)
From Coq Require Import List Bool Arith NArith.
Import ListNotations.
From TarpcV Require Import Base Transport Chain ChainSpec ChainRespSpec.
From TarpcV Require ChainResp ChainResp2 ChainResp3 ChainResp4.

Theorem chain_resp_but_body : forall d ops, chain_no_wrap ops ->
  c01c_val d ops (fst (run d ops)) && c01c_once d ops (fst (run d ops))
  && c01c_yield d ops (fst (run d ops)) && c01c_uniq d ops (fst (run d ops))
  && c01c_start d ops (fst (run d ops)) = true.
Proof.
  intros d ops Hw.
  rewrite ChainResp.chain_resp_val, (ChainResp4.chain_resp_once d ops Hw), ChainResp2.chain_resp_yield,
    (ChainResp3.chain_resp_uniq d ops Hw), ChainResp2.chain_resp_start. reflexivity.
Qed.

Theorem chain_resp_of_body : stmt_resp_body -> stmt_resp.
Proof.
  intros HB d ops Hw. unfold c01c_ok.
  rewrite ChainResp.chain_resp_val, (HB d ops Hw), (ChainResp4.chain_resp_once d ops Hw),
    ChainResp2.chain_resp_yield, (ChainResp3.chain_resp_uniq d ops Hw), ChainResp2.chain_resp_start.
  reflexivity.
Qed.
Print Assumptions chain_resp_but_body.
Print Assumptions chain_resp_of_body.
