(* Server proofs, engineer B, part 2: flags that are decided by transport calls in the middle of a
   poll (v12b, v12c, v12c_rel, c_k1, h_b1): what leaves them alone; and C12 (b) -- a throttle
   reply answers the request just read (flag v12b). *)
From Coq Require Import List Bool Arith NArith Lia.
Import ListNotations.
From TarpcV Require Import Base Transport TimerWheel Server ServerMon ServerFuel ServerContract
     ServerSim ServerSim2 ServerSim3 ServerSim4 ServerSim5 ServerSim6 ServerSim7 ServerState
     ServerSpec ServerProofsPB0.

(* the flags decided mid-poll *)
Definition F12 (o : ostate) : bool * bool * bool * bool * bool :=
  (v12b (o_v o), v12c (o_v o), v12c_rel (o_v o), c_k1 (o_v o), h_b1 (o_v o)).

Lemma F12_start_poll : forall o, F12 (start_poll o) = F12 o.
Proof. reflexivity. Qed.

Lemma oresult_F12 : forall o r, rshape r -> F12 (o_result o r) = F12 o.
Proof.
  intros o r Hr. unfold F12. destruct r; try contradiction; unfold o_result, finish_idle, accept_id.
  - destruct (last_open id _); oproj; rewrite ?andb_true_r, ?orb_false_r; auto.
  - destruct (o_blocked _); oproj; rewrite ?andb_true_r, ?orb_false_r; auto.
  - destruct (o_blocked _); oproj; rewrite ?andb_true_r, ?orb_false_r; auto.
  - oproj; rewrite ?andb_true_r, ?orb_false_r; auto.
Qed.

Lemma ogauges_F12 : forall x y o a b, F12 (o_gauges x y o a b) = F12 o.
Proof. intros x y o a b. unfold F12, o_gauges. destruct x; [|destruct y]; oproj; rewrite ?andb_true_r; reflexivity. Qed.

Lemma otail_F12 : forall o1 g, F12 (otail o1 g) = F12 o1.
Proof.
  intros o1 g. unfold otail. destruct g as [[a b]|]; destruct (o_dropped o1); unfold F12; oproj;
    rewrite ?orb_false_r, ?andb_true_r; auto.
  destruct (c_err (o_v o1)); [reflexivity|]. fold (F12 (o_gauges false false (chk10 (chk12a o1 true) true) a b)).
  rewrite ogauges_F12. unfold F12. oproj. rewrite ?andb_true_r. reflexivity.
Qed.

Lemma ohevent_F12 : forall o e, F12 (o_hevent o e) = F12 o.
Proof.
  intros o e. unfold F12. destruct e; cbn [o_hevent]; oproj; rewrite ?orb_false_r, ?andb_true_r; auto;
    destruct (nth_error (o_incs o) k); oproj; rewrite ?andb_true_r, ?orb_false_r; auto.
Qed.
Lemma ohevents_F12 : forall body o, F12 (fold_left o_hevent body o) = F12 o.
Proof. induction body as [|e body IH]; intros o; cbn [fold_left]; [auto|]. rewrite IH. apply ohevent_F12. Qed.

Lemma guard_dropped_F12 : forall k need o, F12 (guard_dropped k need o) = F12 o.
Proof.
  intros k need o. unfold guard_dropped. destruct (nth_error (o_incs o) k); [|auto].
  match goal with |- context [if ?b then _ else _] => destruct b end; unfold F12; oproj; auto.
  match goal with |- context [if ?b then _ else _] => destruct b end; oproj; auto.
Qed.

(* an op that is not a poll never touches them *)
Lemma ostep_F12_nonpoll : forall (C : Type) (c : cfg) (p : op C) o l,
  match p with OPoll => False | _ => True end -> F12 (ostep (cfg_limit c) o p l) = F12 o.
Proof.
  intros C c p o l Hp. destruct (h_stop (o_v o)) eqn:EH; [|unfold ostep; rewrite EH; reflexivity].
  rewrite (ostep_nonpoll c p o l EH Hp). rewrite otail_F12.
  destruct p; try contradiction; rewrite ?guard_dropped_F12, ?ohevents_F12; try reflexivity.
  destruct (fst (split_gauges l)); unfold F12; oproj; rewrite ?orb_false_r, ?andb_true_r; reflexivity.
Qed.

(* a poll of a live channel decides them by its calls alone *)
Lemma ostep_F12_poll : forall (T C : Type) (c : cfg) o (s1 : @sstate T) log R,
  h_stop (o_v o) = true -> o_dropped o = false -> s_dropped s1 = false -> rshape R ->
  F12 (ostep (cfg_limit c) o (@OPoll C) ([OCalls log; R] ++ gauges s1))
  = if c_err (o_v o) then F12 o else F12 (o_calls (cfg_limit c) (start_poll o) log).
Proof.
  intros T C c o s1 log R EH Hod Hd1 HR. destruct (c_err (o_v o)) eqn:EC.
  - unfold ostep. rewrite EH. cbn [negb].
    rewrite (split_gauges_poll s1 log R Hd1); [|destruct R; try contradiction; exact I].
    rewrite Hod, EC.
    assert (E1 : o_dropped (hyp_stop o false) = false) by (oproj; exact Hod).
    assert (E2 : c_err (o_v (hyp_stop o false)) = true) by (oproj; rewrite EC; reflexivity).
    cbv iota beta. rewrite E1, E2. unfold F12. oproj. rewrite ?orb_false_r, ?andb_true_r. reflexivity.
  - rewrite (ostep_poll_eq c o s1 log R EH Hod EC Hd1 HR). unfold poll_tail.
    set (o1 := o_result (o_calls (cfg_limit c) (start_poll o) log) R).
    assert (V1 : F12 o1 = F12 (o_calls (cfg_limit c) (start_poll o) log)) by (apply oresult_F12, HR).
    destruct (c_err (o_v o1)); [exact V1|].
    rewrite ogauges_F12, <- V1. unfold F12. oproj. rewrite ?andb_true_r. reflexivity.
Qed.

(* a poll of a dropped channel: nothing *)
Lemma ostep_poll_dropped : forall (C : Type) lim o,
  h_stop (o_v o) = true -> o_dropped o = true -> ostep lim o (@OPoll C) [] = o.
Proof. intros C lim o EH Hod. unfold ostep. rewrite EH. cbn [negb split_gauges rev]. rewrite Hod. cbn iota. rewrite Hod. reflexivity. Qed.

(* ================================================================== C12 (b) *)
Section V12B.
  Context {T : Type}.
  Variable tp : transport T response cmsg.
  Variable lim : option nat.
  Notation st := (@sstate T).
  Notation ocs := (fold_left (o_call lim)).

  (* one call *)
  Lemma ocall_12b_other : forall o c,
    match c with CSend m _ => resp_body m <> BThrottle | _ => True end ->
    v12b (o_v (o_call lim o c)) = v12b (o_v o).
  Proof.
    intros o c Hc. unfold o_call.
    assert (P : v12b (o_v (match o_errcall o with Some _ => chk09 o false | None => o end)) = v12b (o_v o)).
    { destruct (o_errcall o); oproj; rewrite ?andb_true_r; auto. }
    set (o0 := match o_errcall o with Some _ => chk09 o false | None => o end) in *.
    destruct c as [r|m r|r|r|r].
    - oproj. auto.
    - destruct (resp_body m); try congruence;
        (destruct (last_open (resp_id m) (o_incs o0)); oproj; rewrite ?andb_true_r; auto).
    - oproj. auto.
    - oproj. rewrite ?andb_true_r. auto.
    - unfold resolve_ignored. destruct (o_pend o0) as [[[[a b] d] e]|];
        destruct r as [[id dl tr body|id tr]| | |]; oproj; rewrite ?andb_true_r, ?orb_false_r; auto;
        destruct (last_open id _); oproj; rewrite ?andb_true_r, ?orb_false_r; auto.
  Qed.

  Lemma ocall_pend_keep : forall o c,
    match c with CReady _ | CFlush _ => True | CSend m _ => resp_body m <> BThrottle | _ => False end ->
    o_pend (o_call lim o c) = o_pend o.
  Proof.
    intros o c Hc. destruct c as [r|m r|r|r|r]; try contradiction.
    - unfold o_call. fold (pre_err o). destruct (pre_err_proj o) as (_ & _ & _ & _ & A5 & _). oproj. exact A5.
    - destruct (ocall_send_proj lim o m r) as (_ & _ & _ & _ & _ & _ & Hm). cbv zeta in Hm.
      destruct (resp_body m); try congruence; apply Hm.
    - unfold o_call. fold (pre_err o). destruct (pre_err_proj o) as (_ & _ & _ & _ & A5 & _). oproj. exact A5.
  Qed.

  Lemma ocall_12b_thr : forall o id r l0 dl tr body,
    lim = Some l0 -> o_pend o = Some (id, dl, tr, body) ->
    v12b (o_v (o_call lim o (CSend (mkresp id BThrottle) r))) = v12b (o_v o).
  Proof.
    intros o id r l0 dl tr body Hl Hp. unfold o_call. fold (pre_err o).
    destruct (pre_err_proj o) as (_ & _ & _ & _ & A5 & _).
    cbn [resp_body resp_id]. rewrite A5, Hp, Hl, N.eqb_refl.
    assert (P : v12b (o_v (pre_err o)) = v12b (o_v o)).
    { unfold pre_err. destruct (o_errcall o); oproj; rewrite ?andb_true_r; auto. }
    unfold accept_id. destruct (last_open id _); oproj; rewrite ?andb_true_r, ?orb_false_r; exact P.
  Qed.

  Definition seg12b (new : list call) : Prop := forall o, v12b (o_v (ocs new o)) = v12b (o_v o).
  Definition keeps_pend (new : list call) : Prop := forall o, o_pend (ocs new o) = o_pend o.
  Definition sets_pend (new : list call) (q : treq) : Prop :=
    forall o, o_pend (ocs new o) = Some (q_id q, q_dl q, q_tr q, q_body q).

  Lemma seg12b_nil : seg12b []. Proof. intros o; reflexivity. Qed.
  Lemma seg12b_app : forall a b, seg12b a -> seg12b b -> seg12b (a ++ b).
  Proof. intros a b Ha Hb o. rewrite fold_left_app, Hb, Ha. reflexivity. Qed.
  Lemma seg12b_one : forall c, match c with CSend m _ => resp_body m <> BThrottle | _ => True end -> seg12b [c].
  Proof. intros c Hc o. cbn [fold_left]. apply ocall_12b_other, Hc. Qed.
  Lemma keeps_nil : keeps_pend []. Proof. intros o; reflexivity. Qed.
  Lemma keeps_app : forall a b, keeps_pend a -> keeps_pend b -> keeps_pend (a ++ b).
  Proof. intros a b Ha Hb o. rewrite fold_left_app, Hb, Ha. reflexivity. Qed.
  Lemma keeps_one : forall c,
    match c with CReady _ | CFlush _ => True | CSend m _ => resp_body m <> BThrottle | _ => False end ->
    keeps_pend [c].
  Proof. intros c Hc o. cbn [fold_left]. apply ocall_pend_keep, Hc. Qed.
  Lemma sets_keeps : forall a b q, sets_pend a q -> keeps_pend b -> sets_pend (a ++ b) q.
  Proof. intros a b q Ha Hb o. rewrite fold_left_app, Hb, Ha. reflexivity. Qed.
  Lemma any_sets : forall a b q, sets_pend b q -> sets_pend (a ++ b) q.
  Proof. intros a b q Hb o. rewrite fold_left_app. apply Hb. Qed.

  (* BaseChannel::poll_next only reads; a request it returns is the last thing read *)
  Lemma base_12b : forall f (s : st) r s',
    base_poll_next tp f s = (r, s') ->
    exists new, ext s s' new /\ seg12b new /\ (forall q, r = PReady q -> sets_pend new q).
  Proof.
    induction f as [|f IH]; intros s r s' H; cbn [base_poll_next] in H.
    { injection H as <- <-. exists []. split; [apply ext_refl|split; [apply seg12b_nil|discriminate]]. }
    set (cs := match s_cancels s with
               | id :: r0 => (RSReady, snd (remove_request id (set_cancels s r0)))
               | [] => (RSClosed, s) end) in H.
    assert (Hc : s_log (snd cs) = s_log s).
    { subst cs. destruct (s_cancels s); [reflexivity|]. cbn [snd]. rewrite log_remove_request. reflexivity. }
    destruct cs as [cst s1]. cbn [snd] in Hc.
    pose proof (log_poll_expired s1) as He. destruct (poll_expired s1) as [est s2]. cbn [snd] in He.
    assert (H02 : ext s s2 []) by (apply ext_same; congruence).
    assert (Hfin : forall rst sx new0 r s',
               ext s sx new0 -> seg12b new0 ->
               match combine (combine cst est) rst with
               | RSReady => base_poll_next tp f sx
               | RSClosed => (PEnd, sx)
               | RSPending => (PPending, sx)
               end = (r, s') ->
               exists new, ext s s' new /\ seg12b new /\ (forall q, r = PReady q -> sets_pend new q)).
    { intros rst sx new0 r0 s0 Hx Hn HH. destruct (combine (combine cst est) rst).
      - destruct (IH _ _ _ HH) as (n1 & E1 & F1 & G1). exists (new0 ++ n1).
        split; [eapply ext_trans; eauto|split; [apply seg12b_app; auto|]].
        intros q Hq. apply any_sets, G1, Hq.
      - injection HH as <- <-. exists new0. split; [exact Hx|split; [exact Hn|discriminate]].
      - injection HH as <- <-. exists new0. split; [exact Hx|split; [exact Hn|discriminate]]. }
    destruct (s_fused s2).
    - eapply Hfin; [exact H02|apply seg12b_nil|exact H].
    - unfold do_next in H. destruct (t_next tp (s_t s2)) as [rr t'].
      set (s3 := set_log (set_t s2 t') (CNext rr :: s_log s2)) in *.
      assert (H23 : ext s s3 [CNext rr]).
      { unfold ext in *. subst s3; sproj. rewrite H02. reflexivity. }
      assert (Fn : seg12b [CNext rr]) by (apply seg12b_one; exact I).
      destruct rr as [m| | |].
      + destruct m as [id dl tr body|id tr].
        * destruct (start_request id dl s3) as [[h s4]|] eqn:ES.
          -- injection H as <- <-. exists [CNext (RItem (MReq id dl tr body))]. split; [|split; [exact Fn|]].
             ++ unfold ext in *. rewrite (log_start_request _ _ _ _ _ ES). exact H23.
             ++ intros q [= <-] o. cbn [fold_left q_id q_dl q_tr q_body].
                destruct (ocall_next_proj lim o (RItem (MReq id dl tr body))) as (_ & _ & _ & _ & _ & _ & _ & P).
                exact P.
          -- destruct (IH _ _ _ H) as (n1 & E1 & F1 & G1). exists ([CNext (RItem (MReq id dl tr body))] ++ n1).
             split; [eapply ext_trans; eauto|split; [apply seg12b_app; auto|]].
             intros q Hq. apply any_sets, G1, Hq.
        * eapply (Hfin RSReady (cancel_request id s3)); [|exact Fn|exact H].
          unfold ext in *. rewrite log_cancel_request. exact H23.
      + injection H as <- <-. exists [CNext RErr]. split; [exact H23|split; [exact Fn|discriminate]].
      + eapply (Hfin RSClosed (set_fused s3 true)); [|exact Fn|exact H]. exact H23.
      + eapply (Hfin RSPending s3); [exact H23|exact Fn|exact H].
  Qed.

  (* MaxRequests::poll_next: a throttle reply is written right after the request was read *)
  Lemma maxreq_12b : forall f limit l0 (s : st) r s',
    lim = Some l0 -> maxreq_poll_next tp f limit s = (r, s') ->
    exists new, ext s s' new /\ seg12b new /\ (forall q, r = PReady q -> sets_pend new q).
  Proof.
    induction f as [|f IH]; intros limit l0 s r s' Hl H; cbn [maxreq_poll_next] in H.
    { injection H as <- <-. exists []. split; [apply ext_refl|split; [apply seg12b_nil|discriminate]]. }
    destruct (limit <=? length (s_inflight s)); [|exact (base_12b _ _ _ _ H)].
    destruct (do_ready tp s) as [x s1] eqn:ER.
    destruct (do_ready_core tp _ _ _ ER) as (_ & _ & _ & _ & _ & L1).
    assert (E01 : ext s s1 [CReady x]) by (unfold ext; rewrite L1; reflexivity).
    assert (S01 : seg12b [CReady x]) by (apply seg12b_one; exact I).
    destruct x; try (injection H as <- <-; eexists; split; [exact E01|split; [exact S01|discriminate]]).
    destruct (base_poll_next tp (S f) s1) as [y s2] eqn:EB.
    destruct (base_12b _ _ _ _ EB) as (n2 & E2 & S2 & G2).
    assert (E02 : ext s s2 ([CReady TOk] ++ n2)) by (eapply ext_trans; eauto).
    assert (S02 : seg12b ([CReady TOk] ++ n2)) by (apply seg12b_app; auto).
    destruct y as [q| |a| |];
      try (injection H as <- <-; eexists; split; [exact E02|split; [exact S02|discriminate]]).
    destruct (base_start_send tp (mkresp (q_id q) BThrottle) s2) as [e s3] eqn:ESS.
    assert (K : exists n3, ext s s3 (([CReady TOk] ++ n2) ++ n3) /\ seg12b (([CReady TOk] ++ n2) ++ n3)).
    { destruct (base_start_send_shape tp _ _ _ _ ESS) as [(_ & _ & ->)|(en & rr & _ & _ & _ & _ & _ & _ & _ & _ & _ & _ & _ & _ & _ & _ & L3)].
      - exists []. rewrite app_nil_r. auto.
      - exists [CSend (mkresp (q_id q) BThrottle) rr]. split.
        + eapply ext_trans; [exact E02|]. unfold ext. rewrite L3. reflexivity.
        + intros o. rewrite fold_left_app. cbn [fold_left].
          rewrite (ocall_12b_thr _ (q_id q) rr l0 (q_dl q) (q_tr q) (q_body q) Hl).
          * apply S02.
          * rewrite fold_left_app. apply (G2 q eq_refl). }
    destruct K as (n3 & E03 & S03).
    destruct e as [a|].
    - injection H as <- <-. eexists; split; [exact E03|split; [exact S03|discriminate]].
    - destruct (IH _ _ _ _ _ Hl H) as (n4 & E4 & S4 & G4).
      eexists; split; [eapply ext_trans; [exact E03|exact E4]|split; [apply seg12b_app; auto|]].
      intros q' Hq. apply any_sets, G4, Hq.
  Qed.

  (* the response queue through the read side *)
  Lemma respq_maxreq : forall g l (s : st) rd s1,
    maxreq_poll_next tp g l s = (rd, s1) -> s_respq s1 = s_respq s.
  Proof.
    induction g as [|g IHg]; intros l s rd s1 ER; cbn [maxreq_poll_next] in ER; [injection ER as _ <-; reflexivity|].
    destruct (l <=? length (s_inflight s)).
    - destruct (do_ready tp s) as [x sx] eqn:E1. destruct (do_ready_core tp _ _ _ E1) as (_ & _ & Q1 & _).
      destruct x; try (injection ER as _ <-; exact Q1).
      destruct (base_poll_next tp (S g) sx) as [y sy] eqn:E2.
      pose proof (respq_base tp _ _ _ _ E2) as Q2.
      destruct y; try (injection ER as _ <-; congruence).
      destruct (base_start_send tp (mkresp (q_id x) BThrottle) sy) as [e sz] eqn:E3.
      pose proof (respq_start_send tp _ _ _ _ E3) as Q3.
      destruct e; [injection ER as _ <-; congruence|].
      rewrite (IHg _ _ _ _ ER). congruence.
    - exact (respq_base tp _ _ _ _ ER).
  Qed.

  Lemma ensure_12b : forall (s : st) w s', ensure_writeable tp s = (w, s') ->
    exists new, ext s s' new /\ seg12b new /\ keeps_pend new /\ s_respq s' = s_respq s.
  Proof.
    intros s w s' H. unfold ensure_writeable in H.
    destruct (do_ready tp s) as [r s1] eqn:E1. destruct (do_ready_core tp _ _ _ E1) as (_ & _ & Q1 & _ & _ & L1).
    assert (X1 : ext s s1 [CReady r]) by (unfold ext; rewrite L1; reflexivity).
    assert (S1 : seg12b [CReady r]) by (apply seg12b_one; exact I).
    assert (K1 : keeps_pend [CReady r]) by (apply keeps_one; exact I).
    destruct r; try (injection H as <- <-; eexists; split; [exact X1|split; [exact S1|split; [exact K1|exact Q1]]]).
    destruct (do_flush tp s1) as [f s2] eqn:E2. destruct (do_flush_core tp _ _ _ E2) as (_ & _ & Q2 & _ & _ & L2).
    assert (X2 : ext s s2 ([CReady TPending] ++ [CFlush f])).
    { eapply ext_trans; [exact X1|]. unfold ext; rewrite L2; reflexivity. }
    assert (S2 : seg12b ([CReady TPending] ++ [CFlush f])) by (apply seg12b_app; [exact S1|apply seg12b_one; exact I]).
    assert (K2 : keeps_pend ([CReady TPending] ++ [CFlush f])) by (apply keeps_app; [exact K1|apply keeps_one; exact I]).
    destruct f; try (injection H as <- <-; eexists; split; [exact X2|split; [exact S2|split; [exact K2|congruence]]]).
    destruct (do_ready tp s2) as [r2 s3] eqn:E3. destruct (do_ready_core tp _ _ _ E3) as (_ & _ & Q3 & _ & _ & L3).
    assert (X3 : ext s s3 (([CReady TPending] ++ [CFlush TOk]) ++ [CReady r2])).
    { eapply ext_trans; [exact X2|]. unfold ext; rewrite L3; reflexivity. }
    destruct r2; injection H as <- <-; eexists; (split; [exact X3|]);
      (split; [apply seg12b_app; [exact S2|apply seg12b_one; exact I]|]);
      (split; [apply keeps_app; [exact K2|apply keeps_one; exact I]|congruence]).
  Qed.

  Lemma pump_write_12b : forall rc (s : st) w s',
    no_thr s -> pump_write tp rc s = (w, s') ->
    exists new, ext s s' new /\ seg12b new /\ keeps_pend new /\ no_thr s'.
  Proof.
    intros rc s w s' Hnt H. unfold pump_write, poll_next_response in H.
    destruct (ensure_writeable tp s) as [x s1] eqn:EW.
    destruct (ensure_12b _ _ _ EW) as (n1 & X1 & S1 & K1 & Q1).
    assert (Hnt1 : no_thr s1) by (intros m Hm; apply Hnt; rewrite <- Q1; exact Hm).
    assert (Hflush : forall w s',
      (let '(f, s2) := do_flush tp s1 in
       match f with
       | TOk => if rc && Nat.eqb (length (s_inflight s2)) 0 then (@PEnd unit, s2) else (PPending, s2)
       | TErr => (PErr AFlush, s2)
       | TPending => (PPending, s2)
       end) = (w, s') ->
      exists new, ext s s' new /\ seg12b new /\ keeps_pend new /\ no_thr s').
    { intros w0 s0 HH. destruct (do_flush tp s1) as [f s2] eqn:EF.
      destruct (do_flush_core tp _ _ _ EF) as (_ & _ & Q2 & _ & _ & L2).
      assert (R : exists new, ext s s2 new /\ seg12b new /\ keeps_pend new /\ no_thr s2).
      { exists (n1 ++ [CFlush f]). split; [eapply ext_trans; [exact X1|unfold ext; rewrite L2; reflexivity]|].
        split; [apply seg12b_app; [exact S1|apply seg12b_one; exact I]|].
        split; [apply keeps_app; [exact K1|apply keeps_one; exact I]|].
        intros m Hm. apply Hnt1. rewrite <- Q2. exact Hm. }
      destruct f; [destruct (rc && _)| |]; injection HH as <- <-; exact R. }
    destruct x as [| |a].
    - destruct (s_respq s1) as [|m q] eqn:EQ.
      + apply (Hflush w s'). exact H.
      + destruct (base_start_send tp m (add_permit (set_respq s1 q))) as [e s2] eqn:ES.
        assert (Hm : resp_body m <> BThrottle) by (apply Hnt1; rewrite EQ; left; reflexivity).
        destruct (add_permit_shape (set_respq s1 q)) as (A1 & A2 & A3 & A4 & A5 & A6 & A7 & A8 & A9 & A10 & A11 & A12 & A13).
        cbv zeta in *. sproj.
        assert (R : exists new, ext s s2 new /\ seg12b new /\ keeps_pend new /\ no_thr s2).
        { destruct (base_start_send_shape tp _ _ _ _ ES) as [(_ & _ & ->)|(en & rr & _ & _ & _ & _ & _ & _ & _ & _ & _ & _ & _ & B12 & _ & _ & LL)].
          - exists n1. split; [unfold ext in *; rewrite A12; exact X1|]. split; [exact S1|split; [exact K1|]].
            intros mm Hmm. apply Hnt1. rewrite A11 in Hmm. rewrite EQ. right; exact Hmm.
          - exists (n1 ++ [CSend m rr]). split; [eapply ext_trans; [exact X1|unfold ext; rewrite LL, A12; reflexivity]|].
            split; [apply seg12b_app; [exact S1|apply seg12b_one; exact Hm]|].
            split; [apply keeps_app; [exact K1|apply keeps_one; exact Hm]|].
            intros mm Hmm. apply Hnt1. rewrite B12, A11 in Hmm. rewrite EQ. right; exact Hmm. }
        destruct e; injection H as <- <-; exact R.
    - apply (Hflush w s'). exact H.
    - injection H as <- <-. exists n1. split; [exact X1|split; [exact S1|split; [exact K1|exact Hnt1]]].
  Qed.

  (* impl Stream for Requests: poll_next *)
  Lemma requests_12b : forall c f (s : st) r s',
    cfg_limit c = lim -> no_thr s -> requests_poll_next tp c f s = (r, s') ->
    exists new, ext s s' new /\ seg12b new.
  Proof.
    intros c f; induction f as [|f IH]; intros s r s' Hlim Hnt H; cbn [requests_poll_next] in H.
    { injection H as <- <-. exists []. split; [apply ext_refl|apply seg12b_nil]. }
    destruct (pump_read tp c (S f) s) as [rd s1] eqn:ER.
    assert (Hrd : exists n1, ext s s1 n1 /\ seg12b n1 /\ s_respq s1 = s_respq s).
    { unfold pump_read in ER. destruct (cfg_limit c) as [l|] eqn:El.
      - destruct (maxreq_12b _ _ l _ _ _ (eq_sym Hlim) ER) as (n1 & A & B & _). exists n1.
        split; [exact A|split; [exact B|exact (respq_maxreq _ _ _ _ _ ER)]].
      - destruct (base_12b _ _ _ _ ER) as (n1 & A & B & _). exists n1.
        split; [exact A|split; [exact B|exact (respq_base tp _ _ _ _ ER)]]. }
    destruct Hrd as (n1 & X1 & S1 & Q1).
    assert (Hnt1 : no_thr s1) by (intros m Hm; apply Hnt; rewrite <- Q1; exact Hm).
    assert (W : forall rc wr s2, pump_write tp rc s1 = (wr, s2) ->
              exists n2, ext s s2 (n1 ++ n2) /\ seg12b (n1 ++ n2) /\ no_thr s2).
    { intros rc wr s2 EW. destruct (pump_write_12b _ _ _ _ Hnt1 EW) as (n2 & X2 & S2 & _ & Hnt2).
      exists n2. split; [eapply ext_trans; eauto|split; [apply seg12b_app; auto|exact Hnt2]]. }
    destruct rd as [q| |a| |].
    - destruct (pump_write tp false s1) as [wr s2] eqn:EW. destruct (W _ _ _ EW) as (n2 & X02 & S02 & Hnt2).
      destruct wr as [u| |a| |]; injection H as <- <-; exists (n1 ++ n2);
        (split; [first [exact X02|unfold ext in *; sproj; exact X02]|exact S02]).
    - destruct (pump_write tp true s1) as [wr s2] eqn:EW. destruct (W _ _ _ EW) as (n2 & X02 & S02 & Hnt2).
      destruct wr as [u| |a| |]; try (injection H as <- <-; exists (n1 ++ n2); split; [exact X02|exact S02]).
      destruct (IH _ _ _ Hlim Hnt2 H) as (n3 & X3 & S3).
      exists ((n1 ++ n2) ++ n3). split; [eapply ext_trans; eauto|apply seg12b_app; auto].
    - injection H as <- <-. exists n1. split; [exact X1|exact S1].
    - destruct (pump_write tp false s1) as [wr s2] eqn:EW. destruct (W _ _ _ EW) as (n2 & X02 & S02 & Hnt2).
      destruct wr as [u| |a| |]; try (injection H as <- <-; exists (n1 ++ n2); split; [exact X02|exact S02]).
      destruct (IH _ _ _ Hlim Hnt2 H) as (n3 & X3 & S3).
      exists ((n1 ++ n2) ++ n3). split; [eapply ext_trans; eauto|apply seg12b_app; auto].
    - injection H as <- <-. exists n1. split; [exact X1|exact S1].
  Qed.
End V12B.

Section V12BRun.
  Context {T C : Type}.
  Variable tp : transport T response cmsg.
  Variable ctl : T -> C -> T.
  Variable tfuel : T -> nat.
  Hypothesis TF : tfuel_ok tp tfuel.
  Variable c : cfg.
  Notation st := (@sstate T).
  Notation lim := (cfg_limit c).

  (* the trace of a poll of a live channel, with the calls the model logged *)
  Lemma poll_trace_log : forall (s : st) s' l,
    s_dropped s = false -> step tp ctl tfuel c s OPoll = (s', l) ->
    exists r s2 R, requests_poll_next tp c (poll_fuel tfuel s) (set_log s []) = (r, s2)
      /\ l = [OCalls (rev (s_log s2)); R] ++ gauges s' /\ s_dropped s' = false /\ rshape R.
  Proof.
    intros s s' l ED H. unfold step in H.
    destruct (poll_requests tp tfuel c s) as [s1 l0] eqn:EP. injection H as <- <-.
    unfold poll_requests in EP. rewrite ED in EP.
    destruct (requests_poll_next tp c (poll_fuel tfuel s) (set_log s [])) as [r s2] eqn:ER.
    pose proof (requests_not_fuel tp tfuel TF c _ _ _ ER) as Hnf.
    pose proof (dropped_requests tp _ _ _ _ _ ER) as Hd. sproj.
    exists r, s2.
    destruct r; [| | | |exfalso; apply Hnf; reflexivity]; injection EP as <- <-; eexists;
      (split; [reflexivity|split; [reflexivity|split; [sproj; congruence|exact I]]]).
  Qed.

  Definition Q12b (o : ostate) (s : st) : Prop := v12b (o_v o) = true.

  Lemma q12b_step : forall o (s : st) p s' l,
    Top o s -> hb_ok s -> Q12b o s -> step tp ctl tfuel c s p = (s', l) -> Q12b (ostep lim o p l) s'.
  Proof.
    intros o s p s' l HT _ HV H. unfold Q12b in *.
    assert (NP : match p with OPoll => False | _ => True end -> v12b (o_v (ostep lim o p l)) = true).
    { intro Hp. pose proof (ostep_F12_nonpoll C c p o l Hp) as E. unfold F12 in E. congruence. }
    destruct p; try (apply NP; exact I). clear NP.
    destruct (h_stop (o_v o)) eqn:EH; [|unfold ostep; rewrite EH; exact HV].
    destruct (HT EH) as (HI & Hnt & _).
    destruct (s_dropped s) eqn:ED.
    { unfold step, poll_requests in H. rewrite ED in H. injection H as <- <-.
      unfold gauges. rewrite ED. cbn [app]. rewrite ostep_poll_dropped; [exact HV|exact EH|].
      rewrite (u_dropped _ _ HI); exact ED. }
    assert (Hod : o_dropped o = false) by (rewrite (u_dropped _ _ HI); exact ED).
    destruct (poll_trace_log s s' l ED H) as (r & s2 & R & ER & -> & Hd1 & HR).
    pose proof (ostep_F12_poll T C c o s' (rev (s_log s2)) R EH Hod Hd1 HR) as E.
    destruct (c_err (o_v o)); unfold F12 in E; [congruence|].
    destruct (requests_12b tp lim c (poll_fuel tfuel s) (set_log s []) r s2 eq_refl Hnt ER) as (new & X & S).
    assert (Hlog : rev (s_log s2) = new).
    { unfold ext in X. sproj. rewrite X, app_nil_r, rev_involutive. reflexivity. }
    rewrite Hlog in E. unfold o_calls in E. rewrite (S (start_poll o)) in E. cbn [start_poll o_v] in E. congruence.
  Qed.
End V12BRun.

Theorem s_v12b : stmt_s_v12b.
Proof.
  intros T C tp ctl tfuel c t0 ops TF. unfold observe, run.
  destruct (top_init c t0) as (HT & Hb).
  exact (run_gen tp ctl tfuel TF c Q12b (q12b_step tp ctl tfuel TF c) ops o_init (init c t0) HT Hb eq_refl).
Qed.
Print Assumptions s_v12b.
