(* State-form lemmas about the server model (no observer involved): what the table operations
   do, for every state.  These are the "frame" and "effect" facts behind C04, C06, C08, C11, C12. *)
From Coq Require Import List Bool Arith NArith Lia.
Import ListNotations.
From TarpcV Require Import Base Transport TimerWheel Server ServerMon ServerFuel ServerContract
     ServerSim ServerSim2 ServerSim3 ServerSim4.

Section State.
  Context {T : Type}.
  Variable tp : transport T response cmsg.
  Notation st := (@sstate T).

  (* ---- C04 (a): a Cancel for a tracked request aborts its handle, forgets the request and its
     timer; (b): a Cancel for an untracked id changes nothing ---------------------------------- *)
  Lemma cancel_tracked_effect : forall id (s : st) e,
    find_entry id s = Some e ->
    In (e_h e) (s_aborted (cancel_request id s))
    /\ tracked id (cancel_request id s) = false
    /\ length (s_inflight (cancel_request id s)) < length (s_inflight s)
    /\ s_timers (cancel_request id s) = drop_timer id (s_timers s).
  Proof.
    intros id s e H. unfold cancel_request. rewrite H. sproj. repeat split.
    - left; reflexivity.
    - unfold tracked; sproj. apply not_true_is_false. intros Hx. apply existsb_exists in Hx.
      destruct Hx as (x & Hin & Heq). apply in_drop_entry in Hin. apply N.eqb_eq in Heq. tauto.
    - destruct (find_entry_some _ _ _ H) as [Hin Hid]. unfold drop_entry.
      clear H. induction (s_inflight s) as [|y l IH]; [contradiction|]. cbn.
      destruct Hin as [->|Hin].
      + rewrite Hid, N.eqb_refl. cbn. pose proof (drop_entry_len id l). unfold drop_entry in H. lia.
      + specialize (IH Hin). destruct (negb _); cbn; lia.
  Qed.

  Lemma cancel_untracked_frame : forall id (s : st),
    tracked id s = false -> cancel_request id s = s.
  Proof.
    intros id s H. unfold cancel_request. destruct (find_entry id s) eqn:E; [|reflexivity].
    exfalso. assert (tracked id s = true) by (apply tracked_find; eauto). congruence.
  Qed.

  (* an aborted handle: execute() never polls the handler again, never buffers a response *)
  Lemma aborted_stops : forall k hs (s : st) hr,
    nth_error (s_handlers s) k = Some hr -> In (h_h hr) (s_aborted s) ->
    let '(s', l) := execute_poll k hs s in
    ~ In (OHPolled k) l /\ s_respq s' = s_respq s
    /\ (forall b, ~ In (OHDone k b) l).
  Proof.
    intros k hs s hr Hk Hin. unfold execute_poll. rewrite Hk.
    assert (Hex : existsb (Nat.eqb (h_h hr)) (s_aborted s) = true).
    { apply existsb_exists. exists (h_h hr). split; [exact Hin|apply Nat.eqb_refl]. }
    assert (Hno : forall l, (forall e, In e l -> e = OHDropped k \/ e = OExecReady k) ->
               ~ In (OHPolled k) l /\ (forall b, ~ In (OHDone k b) l)).
    { intros l Hl. split; [|intros b]; intros Hx; destruct (Hl _ Hx); discriminate. }
    destruct (h_st hr); rewrite ?Hex; sproj.
    - destruct (Hno [OExecReady k]) as (A & B); [intros e [<-|[]]; auto|]. repeat split; auto.
    - destruct (Hno [OHDropped k; OExecReady k]) as (A & B); [intros e [<-|[<-|[]]]; auto|]. repeat split; auto.
    - destruct (Hno [OExecReady k]) as (A & B); [intros e [<-|[]]; auto|]. repeat split; auto.
    - destruct (Hno [OExecReady k]) as (A & B); [intros e [<-|[]]; auto|]. repeat split; auto.
      destruct (add_permit_shape s) as (_ & _ & _ & _ & _ & _ & _ & _ & _ & _ & Q & _). exact Q.
    - repeat split; auto.
    - repeat split; auto.
  Qed.

  (* ---- C08: a request whose id is tracked is ignored; a response is forwarded only while its id
     is tracked, which untracks it ------------------------------------------------------------- *)
  Lemma duplicate_ignored : forall id dl (s : st), tracked id s = true -> start_request id dl s = None.
  Proof. intros id dl s H. unfold start_request. rewrite H. reflexivity. Qed.

  Lemma response_untracked_dropped : forall m (s : st),
    tracked (resp_id m) s = false -> base_start_send tp m s = (None, s).
  Proof.
    intros m s H. unfold base_start_send, remove_request.
    destruct (find_entry (resp_id m) s) eqn:E; [|reflexivity].
    exfalso. assert (tracked (resp_id m) s = true) by (apply tracked_find; eauto). congruence.
  Qed.

  Lemma response_tracked_written : forall m (s : st) e s',
    tracked (resp_id m) s = true -> base_start_send tp m s = (e, s') ->
    tracked (resp_id m) s' = false
    /\ exists r, s_log s' = CSend m r :: s_log s /\ e = match r with SOk => None | SErr => Some AWrite end.
  Proof.
    intros m s e s' Ht H.
    destruct (base_start_send_shape tp _ _ _ _ H) as [(Hn & _ & _)|(en & r & Hen & He & B1 & _ & _ & _ & _ & _ & _ & _ & _ & _ & _ & _ & L)].
    - exfalso. apply tracked_find in Ht. destruct Ht as (x & Hx). congruence.
    - split; [|exists r; auto].
      unfold tracked. rewrite B1. apply not_true_is_false. intros Hx. apply existsb_exists in Hx.
      destruct Hx as (x & Hin & Heq). apply in_drop_entry in Hin. apply N.eqb_eq in Heq. tauto.
  Qed.

  (* ---- C06: a timer is armed for min(deadline, now + MAX_TIMEOUT); expiry takes only due timers *)
  Lemma start_request_arms : forall id dl (s : st) h s',
    start_request id dl s = Some (h, s') ->
    In (id, when_of (s_now s) dl) (s_timers s') /\ (N.min dl (s_now s + MAX_TIMEOUT) <= when_of (s_now s) dl)%N.
  Proof.
    intros id dl s h s' H. destruct (start_request_shape _ _ _ _ _ H) as (_ & _ & _ & Ht & _).
    split; [rewrite Ht; apply in_or_app; right; left; reflexivity|]. unfold when_of. lia.
  Qed.

  Lemma expiry_only_due : forall (s : st) s',
    poll_expired s = (RSReady, s') ->
    exists id w, In (id, w) (s_timers s) /\ (w <= s_now s)%N
      /\ s_timers s' = drop_timer id (s_timers s) /\ s_inflight s' = drop_entry id (s_inflight s).
  Proof.
    intros s s' H. destruct (poll_expired_shape _ _ _ H) as (_ & _ & _ & _ & _ & _ & _ & _ & _ & _ & _ & HH).
    destruct HH as [(Hr & _)|(_ & id & w & A & B & C & D & _)]; [congruence|]. exists id, w. auto.
  Qed.

  (* other requests are untouched by an expiry *)
  Lemma expiry_frame : forall (s : st) s' e,
    poll_expired s = (RSReady, s') -> In e (s_inflight s') -> In e (s_inflight s).
  Proof.
    intros s s' e H He. destruct (expiry_only_due _ _ H) as (id & w & _ & _ & _ & D).
    rewrite D in He. apply in_drop_entry in He. tauto.
  Qed.

  (* ---- C11: the timer queue and the request table always hold the same ids; C12: a request is
     handed on by MaxRequests only below the limit ---------------------------------------------- *)
  Definition keys_ok (s : st) : Prop := map fst (s_timers s) = map e_id (s_inflight s).

  Lemma keys_remove : forall id (s : st), keys_ok s -> keys_ok (snd (remove_request id s)).
  Proof.
    intros id s K. destruct (remove_request_shape id s) as [(_ & -> & _)|(_ & _ & B1 & B2 & _)]; [exact K|].
    cbv zeta in *. unfold keys_ok. rewrite B1, B2. apply drop_sync. exact K.
  Qed.
  Lemma keys_cancel : forall id (s : st), keys_ok s -> keys_ok (cancel_request id s).
  Proof.
    intros id s K. destruct (cancel_request_shape id s) as [(-> & _)|(e & _ & B1 & B2 & _)]; [exact K|].
    cbv zeta in *. unfold keys_ok. rewrite B1, B2. apply drop_sync. exact K.
  Qed.
  Lemma keys_expired : forall (s : st) r s', poll_expired s = (r, s') -> keys_ok s -> keys_ok s'.
  Proof.
    intros s r s' H K. destruct (poll_expired_shape _ _ _ H) as (_ & _ & _ & _ & _ & _ & _ & _ & _ & _ & _ & HH).
    destruct HH as [(_ & B1 & B2 & _)|(_ & id & w & _ & _ & C3 & C4 & _)]; unfold keys_ok.
    - rewrite B1, B2. exact K.
    - rewrite C3, C4. apply drop_sync. exact K.
  Qed.

  Lemma base_keys_len : forall f (s : st) r s',
    base_poll_next tp f s = (r, s') -> keys_ok s ->
    keys_ok s' /\ length (s_inflight s') <= length (s_inflight s) + (match r with PReady _ => 1 | _ => 0 end).
  Proof.
    induction f as [|f IH]; intros s r s' H K; cbn [base_poll_next] in H; [injection H as <- <-; split; [exact K|lia]|].
    set (cs := match s_cancels s with
               | id :: r0 => (RSReady, snd (remove_request id (set_cancels s r0)))
               | [] => (RSClosed, s) end) in H.
    assert (Hc : keys_ok (snd cs) /\ length (s_inflight (snd cs)) <= length (s_inflight s)).
    { subst cs. destruct (s_cancels s) as [|id r0]; cbn [snd]; [split; [exact K|lia]|].
      split; [apply keys_remove; exact K|].
      destruct (remove_request_shape id (set_cancels s r0)) as [(_ & -> & _)|(_ & _ & B1 & _)]; cbv zeta in *; sproj; [lia|].
      rewrite B1. sproj. apply drop_entry_len. }
    destruct cs as [cst s1]. cbn [snd] in Hc. destruct Hc as (K1 & L1).
    destruct (poll_expired s1) as [est s2] eqn:EE.
    pose proof (keys_expired _ _ _ EE K1) as K2.
    assert (L2 : length (s_inflight s2) <= length (s_inflight s1)).
    { destruct (poll_expired_shape _ _ _ EE) as (_ & _ & _ & _ & _ & _ & _ & _ & _ & _ & _ & HH).
      destruct HH as [(_ & B1 & _)|(_ & id & w & _ & _ & _ & C4 & _)]; [rewrite B1; lia|rewrite C4; apply drop_entry_len]. }
    assert (Hfin : forall rst sx r s', keys_ok sx -> length (s_inflight sx) <= length (s_inflight s) ->
               match combine (combine cst est) rst with
               | RSReady => base_poll_next tp f sx
               | RSClosed => (PEnd, sx)
               | RSPending => (PPending, sx)
               end = (r, s') ->
               keys_ok s' /\ length (s_inflight s') <= length (s_inflight s) + (match r with PReady _ => 1 | _ => 0 end)).
    { intros rst sx r0 s0 Kx Lx HH. destruct (combine (combine cst est) rst).
      - destruct (IH _ _ _ HH Kx) as (A & B). split; [exact A|lia].
      - injection HH as <- <-. split; [exact Kx|lia].
      - injection HH as <- <-. split; [exact Kx|lia]. }
    destruct (s_fused s2).
    - apply (Hfin RSClosed s2 r s'); [exact K2|lia|exact H].
    - destruct (do_next tp s2) as [rr s3] eqn:EN.
      destruct (do_next_core tp _ _ _ EN) as ((C1 & C2 & C3 & C4 & _) & _).
      assert (K3 : keys_ok s3) by (unfold keys_ok; rewrite C3, C4; exact K2).
      assert (L3 : length (s_inflight s3) <= length (s_inflight s)) by (rewrite C3; lia).
      destruct rr as [m| | |].
      + destruct m as [id dl tr body|id tr].
        * destruct (start_request id dl s3) as [[h s4]|] eqn:ES.
          -- injection H as <- <-. destruct (start_request_shape _ _ _ _ _ ES) as (_ & _ & Hi & Ht & _).
             split; [unfold keys_ok; rewrite Hi, Ht, !map_app; cbn; rewrite K3; reflexivity|].
             rewrite Hi, app_length. cbn. lia.
          -- destruct (IH _ _ _ H K3) as (A & B). split; [exact A|lia].
        * apply (Hfin RSReady (cancel_request id s3) r s'); [apply keys_cancel; exact K3| |exact H].
          destruct (cancel_request_shape id s3) as [(-> & _)|(e & _ & B1 & _)]; [lia|].
          cbv zeta in *. rewrite B1. pose proof (drop_entry_len id (s_inflight s3)). lia.
      + injection H as <- <-. split; [exact K3|lia].
      + apply (Hfin RSClosed (set_fused s3 true) r s'); [exact K3|sproj; lia|exact H].
      + apply (Hfin RSPending s3 r s'); [exact K3|lia|exact H].
  Qed.

  Lemma keys_start_send : forall m (s : st) e s', base_start_send tp m s = (e, s') -> keys_ok s ->
    keys_ok s' /\ length (s_inflight s') <= length (s_inflight s).
  Proof.
    intros m s e s' H K.
    destruct (base_start_send_shape tp _ _ _ _ H) as [(_ & _ & ->)|(en & r & _ & _ & B1 & B2 & _)]; [split; [exact K|lia]|].
    split; [unfold keys_ok; rewrite B1, B2; apply drop_sync; exact K|rewrite B1; apply drop_entry_len].
  Qed.

  (* MaxRequests hands a request on only when fewer than `limit` are in flight before it *)
  Lemma maxreq_keys_len : forall f limit (s : st) r s',
    maxreq_poll_next tp f limit s = (r, s') -> keys_ok s ->
    keys_ok s' /\ match r with PReady _ => length (s_inflight s') <= limit | _ => True end.
  Proof.
    induction f as [|f IH]; intros limit s r s' H K; cbn [maxreq_poll_next] in H; [injection H as <- <-; auto|].
    destruct (limit <=? length (s_inflight s)) eqn:EL.
    - destruct (do_ready tp s) as [x s1] eqn:ER.
      destruct (do_ready_core tp _ _ _ ER) as ((C1 & C2 & C3 & C4 & _) & _).
      assert (K1 : keys_ok s1) by (unfold keys_ok; rewrite C3, C4; exact K).
      destruct x; try (injection H as <- <-; auto).
      destruct (base_poll_next tp (S f) s1) as [y s2] eqn:EB.
      destruct (base_keys_len _ _ _ _ EB K1) as (K2 & _).
      destruct y as [q| |a| |]; try (injection H as <- <-; auto).
      destruct (base_start_send tp (mkresp (q_id q) BThrottle) s2) as [e s3] eqn:ESS.
      destruct (keys_start_send _ _ _ _ ESS K2) as (K3 & _).
      destruct e; [injection H as <- <-; auto|]. exact (IH _ _ _ _ H K3).
    - destruct (base_keys_len _ _ _ _ H K) as (A & B). split; [exact A|].
      destruct r; auto. apply Nat.leb_gt in EL. lia.
  Qed.

  Lemma keys_core : forall (s s' : st), same_core s s' -> keys_ok s -> keys_ok s'.
  Proof. intros s s' (_ & _ & C3 & C4 & _) K. unfold keys_ok. rewrite C3, C4. exact K. Qed.

  Lemma ensure_keys : forall (s : st) w s', ensure_writeable tp s = (w, s') -> keys_ok s ->
    keys_ok s' /\ s_respq s' = s_respq s.
  Proof.
    intros s w s' H K. unfold ensure_writeable in H.
    destruct (do_ready tp s) as [r s1] eqn:E1. destruct (do_ready_core tp _ _ _ E1) as (C1 & _ & Q1 & _).
    pose proof (keys_core _ _ C1 K) as K1.
    destruct r; try (injection H as _ <-; auto).
    destruct (do_flush tp s1) as [f s2] eqn:E2. destruct (do_flush_core tp _ _ _ E2) as (C2 & _ & Q2 & _).
    pose proof (keys_core _ _ C2 K1) as K2.
    destruct f; try (injection H as _ <-; split; [auto|congruence]).
    destruct (do_ready tp s2) as [r2 s3] eqn:E3. destruct (do_ready_core tp _ _ _ E3) as (C3 & _ & Q3 & _).
    pose proof (keys_core _ _ C3 K2) as K3.
    destruct r2; injection H as _ <-; (split; [auto|congruence]).
  Qed.

  Lemma pump_write_keys : forall rc (s : st) w s', pump_write tp rc s = (w, s') -> keys_ok s -> keys_ok s'.
  Proof.
    intros rc s w s' H K. unfold pump_write, poll_next_response in H.
    destruct (ensure_writeable tp s) as [x s1] eqn:EW. destruct (ensure_keys _ _ _ EW K) as (K1 & _).
    assert (Hfl : forall (w0 : pres unit) s0,
      (let '(f, s2) := do_flush tp s1 in
       match f with
       | TOk => if rc && Nat.eqb (length (s_inflight s2)) 0 then (@PEnd unit, s2) else (PPending, s2)
       | TErr => (PErr AFlush, s2)
       | TPending => (PPending, s2)
       end) = (w0, s0) -> keys_ok s0).
    { intros w0 s0 HH. destruct (do_flush tp s1) as [f s2] eqn:EF.
      destruct (do_flush_core tp _ _ _ EF) as (C2 & _). pose proof (keys_core _ _ C2 K1) as K2.
      destruct f; [destruct (rc && _)| |]; injection HH as _ <-; exact K2. }
    destruct x as [| |a].
    - destruct (s_respq s1) as [|m q] eqn:EQ; [exact (Hfl w s' H)|].
      destruct (base_start_send tp m (add_permit (set_respq s1 q))) as [e s2] eqn:ES.
      destruct (add_permit_shape (set_respq s1 q)) as (_ & _ & _ & A4 & A5 & _). cbv zeta in *. sproj.
      assert (Kp : keys_ok (add_permit (set_respq s1 q))) by (unfold keys_ok; rewrite A4, A5; exact K1).
      destruct (keys_start_send _ _ _ _ ES Kp) as (K2 & _).
      destruct e; injection H as _ <-; exact K2.
    - exact (Hfl w s' H).
    - injection H as _ <-. exact K1.
  Qed.

  (* Requests::poll_next: the tables stay in step, and a request is yielded only within the limit *)
  Lemma requests_keys_limit : forall c f (s : st) r s',
    requests_poll_next tp c f s = (r, s') -> keys_ok s ->
    keys_ok s'
    /\ match r, cfg_limit c with PReady _, Some l => length (s_inflight s') <= l | _, _ => True end.
  Proof.
    intros c f; induction f as [|f IH]; intros s r s' H K; cbn [requests_poll_next] in H.
    { injection H as <- <-. auto. }
    destruct (pump_read tp c (S f) s) as [rd s1] eqn:ER.
    assert (Hrd : keys_ok s1 /\ match rd, cfg_limit c with PReady _, Some l => length (s_inflight s1) <= l | _, _ => True end).
    { unfold pump_read in ER. destruct (cfg_limit c) as [l|].
      - exact (maxreq_keys_len _ _ _ _ _ ER K).
      - destruct (base_keys_len _ _ _ _ ER K) as (A & _). split; [exact A|destruct rd; exact I]. }
    destruct Hrd as (K1 & B1).
    destruct rd as [q| |a| |]; try (injection H as <- <-; split; [exact K1|exact I]).
    - destruct (pump_write tp false s1) as [wr s2] eqn:EW.
      pose proof (pump_write_keys _ _ _ _ EW K1) as K2.
      destruct (pump_write_tframe tp _ _ _ _ EW) as (_ & _ & _ & L2).
      destruct wr as [u| |a| |]; injection H as <- <-; (split; [first [exact K2|unfold keys_ok in *; sproj; exact K2]|]);
        try exact I; destruct (cfg_limit c); auto; lia.
    - destruct (pump_write tp true s1) as [wr s2] eqn:EW.
      pose proof (pump_write_keys _ _ _ _ EW K1) as K2.
      destruct wr as [u| |a| |]; try (injection H as <- <-; split; [exact K2|exact I]).
      exact (IH _ _ _ H K2).
    - destruct (pump_write tp false s1) as [wr s2] eqn:EW.
      pose proof (pump_write_keys _ _ _ _ EW K1) as K2.
      destruct wr as [u| |a| |]; try (injection H as <- <-; split; [exact K2|exact I]).
      exact (IH _ _ _ H K2).
  Qed.

  (* the application side never touches the request table or the timers *)
  Lemma execute_poll_tables : forall k hs (s : st),
    s_inflight (fst (execute_poll k hs s)) = s_inflight s
    /\ s_timers (fst (execute_poll k hs s)) = s_timers s.
  Proof.
    intros k hs s. unfold execute_poll. destruct (nth_error (s_handlers s) k) as [hr|]; [|auto].
    destruct (add_permit_shape s) as (_ & _ & _ & P4 & P5 & _). cbv zeta in *.
    destruct (h_st hr); try (cbn; auto);
      destruct (existsb (Nat.eqb (h_h hr)) (s_aborted s)); sproj; auto;
      try (destruct hs); try (destruct (s_dropped s)); try (destruct (s_permits s)); sproj; auto.
  Qed.
  Lemma drop_handler_tables : forall k (s : st),
    s_inflight (fst (drop_handler k s)) = s_inflight s /\ s_timers (fst (drop_handler k s)) = s_timers s.
  Proof.
    intros k s. unfold drop_handler, guard_cancel. destruct (nth_error (s_handlers s) k) as [hr|]; [|auto].
    destruct (add_permit_shape s) as (_ & _ & _ & P4 & P5 & _ & _ & _ & P9 & _). cbv zeta in *.
    destruct (h_st hr); sproj; auto; try (destruct (s_dropped s); sproj; auto).
    all: destruct (s_dropped (add_permit s)); sproj; auto.
  Qed.
  Lemma drop_yielded_tables : forall k (s : st),
    s_inflight (fst (drop_yielded k s)) = s_inflight s /\ s_timers (fst (drop_yielded k s)) = s_timers s.
  Proof.
    intros k s. unfold drop_yielded, guard_cancel. destruct (nth_error (s_handlers s) k) as [[h i stt]|]; [|auto].
    destruct stt; sproj; auto. destruct (s_dropped s); sproj; auto.
  Qed.
End State.

Section RunState.
  Context {T C : Type}.
  Variable tp : transport T response cmsg.
  Variable ctl : T -> C -> T.
  Variable tfuel : T -> nat.
  Notation st := (@sstate T).

  Definition is_yield (e : obs) : bool := match e with OYield _ _ _ _ _ => true | _ => false end.
  (* C11: the two gauges agree after every op; C12 (a): right after a yield at most L in flight *)
  Definition gauges_agree (l : list obs) : bool :=
    forallb (fun e => match e with OGauges a b => Nat.eqb a b | _ => true end) l.
  Definition yield_within (lim : option nat) (l : list obs) : bool :=
    match lim with
    | Some L => negb (existsb is_yield l)
                || forallb (fun e => match e with OGauges a _ => Nat.leb a L | _ => true end) l
    | None => true
    end.

  Lemma step_keys : forall c (s : st) o,
    keys_ok s ->
    let '(s', l) := step tp ctl tfuel c s o in
    keys_ok s' /\ gauges_agree l = true /\ yield_within (cfg_limit c) l = true.
  Proof.
    intros c s o K. unfold step.
    assert (Hg : forall (sx : st), keys_ok sx -> gauges_agree (gauges sx) = true).
    { intros sx Kx. unfold gauges. destruct (s_dropped sx); [reflexivity|].
      assert (length (s_inflight sx) = length (s_timers sx)).
      { rewrite <- (map_length e_id), <- (map_length fst). unfold keys_ok in Kx. rewrite Kx. reflexivity. }
      cbn. rewrite H, Nat.eqb_refl. destruct (s_bad sx); reflexivity. }
    assert (Hga : forall l0 (sx : st), gauges_agree l0 = true -> keys_ok sx -> gauges_agree (l0 ++ gauges sx) = true).
    { intros l0 sx H0 Kx. unfold gauges_agree in *. rewrite forallb_app, H0. apply Hg. exact Kx. }
    assert (Hny : forall l0 (sx : st), existsb is_yield l0 = false -> yield_within (cfg_limit c) (l0 ++ gauges sx) = true).
    { intros l0 sx H0. unfold yield_within. destruct (cfg_limit c); [|reflexivity].
      rewrite existsb_app, H0. unfold gauges. destruct (s_dropped sx); [reflexivity|]. destruct (s_bad sx); reflexivity. }
    destruct o as [|x|k hs|k|k| |dt].
    - (* poll *)
      unfold poll_requests. destruct (s_dropped s) eqn:ED.
      { cbn. split; [exact K|]. unfold gauges. rewrite ED. cbn. split; [reflexivity|]. destruct (cfg_limit c); reflexivity. }
      destruct (requests_poll_next tp c (poll_fuel tfuel s) (set_log s [])) as [r s1] eqn:ER.
      assert (K0 : keys_ok (set_log s [])) by exact K.
      destruct (requests_keys_limit tp _ _ _ _ _ ER K0) as (K1 & B1).
      destruct r as [q| |a| |]; cbn [fst snd].
      + set (s2 := set_handlers s1 _). assert (K2 : keys_ok s2) by exact K1.
        split; [exact K2|]. split; [apply Hga; [reflexivity|exact K2]|].
        unfold yield_within. destruct (cfg_limit c) as [L|]; [|reflexivity].
        apply orb_true_iff. right. unfold gauges. subst s2; sproj.
        destruct (s_dropped s1); [reflexivity|]. cbn.
        assert (HB : (length (s_inflight s1) <=? L) = true) by (apply Nat.leb_le; exact B1).
        rewrite HB. destruct (s_bad s1); reflexivity.
      + split; [exact K1|]. split; [apply Hga; [reflexivity|exact K1]|apply Hny; reflexivity].
      + split; [exact K1|]. split; [apply Hga; [reflexivity|exact K1]|apply Hny; reflexivity].
      + split; [exact K1|]. split; [apply Hga; [reflexivity|exact K1]|apply Hny; reflexivity].
      + split; [exact K1|]. split; [apply Hga; [reflexivity|exact K1]|apply Hny; reflexivity].
    - assert (K1 : keys_ok (set_t s (ctl (s_t s) x))) by exact K.
      cbn [fst snd]. split; [exact K1|]. split; [apply Hga; [reflexivity|exact K1]|apply Hny; reflexivity].
    - destruct (execute_poll k hs s) as [s1 l0] eqn:EE.
      destruct (execute_poll_tables k hs s) as (A & B). rewrite EE in A, B. cbn [fst] in A, B.
      assert (K1 : keys_ok s1) by (unfold keys_ok; rewrite A, B; exact K).
      assert (Hl0 : gauges_agree l0 = true /\ existsb is_yield l0 = false).
      { unfold execute_poll in EE. destruct (nth_error (s_handlers s) k) as [hr|]; [|injection EE as _ <-; auto].
        destruct (h_st hr); try (injection EE as _ <-; auto);
          destruct (existsb (Nat.eqb (h_h hr)) (s_aborted s)); try (injection EE as _ <-; auto);
          try (destruct hs); try (destruct (s_dropped s)); try (destruct (s_permits s));
          injection EE as _ <-; auto. }
      destruct Hl0 as (G0 & Y0). split; [exact K1|]. split; [apply Hga; auto|apply Hny; auto].
    - destruct (drop_handler k s) as [s1 l0] eqn:EE.
      destruct (drop_handler_tables k s) as (A & B). rewrite EE in A, B. cbn [fst] in A, B.
      assert (K1 : keys_ok s1) by (unfold keys_ok; rewrite A, B; exact K).
      assert (Hl0 : gauges_agree l0 = true /\ existsb is_yield l0 = false).
      { unfold drop_handler in EE. destruct (nth_error (s_handlers s) k) as [hr|]; [|injection EE as _ <-; auto].
        destruct (h_st hr); injection EE as _ <-; auto. }
      destruct Hl0 as (G0 & Y0). split; [exact K1|]. split; [apply Hga; auto|apply Hny; auto].
    - destruct (drop_yielded k s) as [s1 l0] eqn:EE.
      destruct (drop_yielded_tables k s) as (A & B). rewrite EE in A, B. cbn [fst] in A, B.
      assert (K1 : keys_ok s1) by (unfold keys_ok; rewrite A, B; exact K).
      assert (Hl0 : l0 = []).
      { unfold drop_yielded in EE. destruct (nth_error (s_handlers s) k) as [[h i stt]|]; [|injection EE as _ <-; auto].
        destruct stt; injection EE as _ <-; auto. }
      subst l0. split; [exact K1|]. split; [apply Hga; auto|apply Hny; auto].
    - assert (K1 : keys_ok (drop_channel s)) by (unfold drop_channel; destruct (s_dropped s); exact K).
      cbn [fst snd]. split; [exact K1|]. split; [apply Hga; [reflexivity|exact K1]|apply Hny; reflexivity].
    - assert (K1 : keys_ok (set_now s (s_now s + dt)%N)) by exact K.
      cbn [fst snd]. split; [exact K1|]. split; [apply Hga; [reflexivity|exact K1]|apply Hny; reflexivity].
  Qed.

  Lemma run_from_keys : forall c ops (s : st),
    keys_ok s ->
    keys_ok (snd (run_from tp ctl tfuel c s ops))
    /\ forallb gauges_agree (fst (run_from tp ctl tfuel c s ops)) = true
    /\ forallb (yield_within (cfg_limit c)) (fst (run_from tp ctl tfuel c s ops)) = true.
  Proof.
    intros c ops; induction ops as [|o ops IH]; intros s K; [cbn; auto|]. cbn [run_from].
    pose proof (step_keys c s o K) as Hs. destruct (step tp ctl tfuel c s o) as [s1 l].
    destruct Hs as (K1 & G1 & Y1). specialize (IH s1 K1).
    destruct (run_from tp ctl tfuel c s1 ops) as [ls s2]. cbn [fst snd] in *.
    destruct IH as (A & B & D). cbn [forallb]. rewrite G1, Y1, B, D. auto.
  Qed.
End RunState.
