(* C02, server half: every settle of every wake-driven run over the scripted transport terminates
   within `rounds_of` (stmt_w_settle_terminates).

   Potential Psi: 4 per handler in HYielded/HRunning, 3 per HWait/HPermit, 2 per buffered response,
   1 per queued server-side cancel and per timer, 6 per inbox item, 1 for "something is buffered in
   the transport", 1 per armed fault, 1 for "stream half not fused"; Phi adds 1 for "the stream has
   not ended".  Every unit of a round is non-increasing in Psi, and if Psi is unchanged then nothing
   the digest reads has changed and no event was produced - except HYielded -> HRunning, which can
   only happen in the first round (afterwards no handler is HYielded at a round boundary) or right
   after a yield (which itself decreases Psi).  No reachability invariant is needed. *)
From Coq Require Import List Bool Arith NArith Lia.
Import ListNotations.
From TarpcV Require Import Base Transport TimerWheel Server ServerMon ServerFuel ServerContract
     ServerSim ServerSim2 ServerProps ServerWake ServerWakeSpec.

(* lia on the arithmetic hypotheses only *)
Ltac keep_arith H :=
  lazymatch type of H with
  | @eq nat _ _ => idtac | @eq N _ _ => idtac
  | le _ _ => idtac | lt _ _ => idtac | ge _ _ => idtac | gt _ _ => idtac
  | N.le _ _ => idtac | N.lt _ _ => idtac
  | _ => fail
  end.
Ltac alia :=
  repeat match goal with
         | H : ?P |- _ =>
           lazymatch type of P with
           | Prop => tryif keep_arith H then fail else clear H
           end
         end; lia.

Notation ST := (stransport cmsg).
Notation stp := (@scripted response cmsg).
Notation st := (@sstate ST).

Definition sdig (t : ST) : list nat :=
  [st_buffered t; length (st_inbox t); Nat.b2n (st_fail_ready t); Nat.b2n (st_fail_send t);
   Nat.b2n (st_fail_flush t); Nat.b2n (st_fail_next t); Nat.b2n (st_eof t)].

(* ================================================================== the transport's share *)
Definition tpot (t : ST) : nat :=
  6 * length (st_inbox t) + (if Nat.eqb (st_buffered t) 0 then 0 else 1)
  + Nat.b2n (st_fail_ready t) + Nat.b2n (st_fail_send t) + Nat.b2n (st_fail_flush t)
  + Nat.b2n (st_fail_next t).

Lemma tpot_ready (t : ST) :
  tpot (snd (s_ready t)) <= tpot t /\ (tpot (snd (s_ready t)) = tpot t -> sdig (snd (s_ready t)) = sdig t).
Proof.
  unfold s_ready. destruct (st_fail_ready t) eqn:E.
  - cbn [snd]. unfold tpot. cbn [st_with st_inbox st_buffered st_fail_ready st_fail_send st_fail_flush
      st_fail_next]. rewrite E. cbn [Nat.b2n]. split; [lia|intro; lia].
  - destruct (_ && _); cbn [snd]; split; auto.
Qed.
Lemma tpot_flush (t : ST) :
  tpot (snd (s_flush t)) <= tpot t /\ (tpot (snd (s_flush t)) = tpot t -> sdig (snd (s_flush t)) = sdig t).
Proof.
  unfold s_flush. destruct (st_fail_flush t) eqn:E.
  - cbn [snd]. unfold tpot. cbn [st_with st_inbox st_buffered st_fail_ready st_fail_send st_fail_flush
      st_fail_next]. rewrite E. cbn [Nat.b2n]. split; [lia|intro; lia].
  - destruct (st_flushok t); cbn [snd]; [|split; auto].
    unfold tpot, sdig. cbn [st_with st_inbox st_buffered st_fail_ready st_fail_send st_fail_flush
      st_fail_next st_eof]. rewrite ?E. destruct (st_coupled t); [|split; auto].
    destruct (st_buffered t) as [|b]; cbn [Nat.eqb]; (split; [lia|intro H; try reflexivity; lia]).
Qed.
Lemma tpot_send (t : ST) (m : response) : tpot (snd (s_send t m)) <= tpot t + 1.
Proof.
  unfold s_send. destruct (st_fail_send t) eqn:E; cbn [snd]; unfold tpot;
    cbn [st_with st_inbox st_buffered st_fail_ready st_fail_send st_fail_flush st_fail_next];
    rewrite ?E; cbn [Nat.b2n Nat.eqb]; destruct (Nat.eqb (st_buffered t) 0); lia.
Qed.
Lemma tpot_next (t : ST) :
  match fst (s_next t) with
  | RItem _ => tpot (snd (s_next t)) + 6 <= tpot t
  | _ => tpot (snd (s_next t)) <= tpot t /\
         (tpot (snd (s_next t)) = tpot t -> sdig (snd (s_next t)) = sdig t)
  end.
Proof.
  unfold s_next. destruct (st_fail_next t) eqn:E.
  - cbn [fst snd]. unfold tpot. cbn [st_with st_inbox st_buffered st_fail_ready st_fail_send st_fail_flush
      st_fail_next]. rewrite E. cbn [Nat.b2n]. split; [lia|intro; lia].
  - destruct (st_inbox t) eqn:Ei.
    + destruct (st_eof t); cbn [fst snd]; split; auto.
    + cbn [fst snd]. unfold tpot. cbn [st_with st_inbox st_buffered st_fail_ready st_fail_send st_fail_flush
        st_fail_next]. rewrite Ei, ?E. cbn [length]. lia.
Qed.

(* ================================================================== the potential *)
Definition wh (h : hstate) : nat :=
  match h with HYielded | HRunning => 4 | HWait _ | HPermit _ => 3 | _ => 0 end.
Fixpoint WH (l : list hrec) : nat :=
  match l with [] => 0 | x :: r => wh (h_st x) + WH r end.
Definition codes (l : list hrec) : list nat := map (fun h => hcode (h_st h)) l.

Lemma WH_set_hst k x l hr :
  nth_error l k = Some hr -> WH (set_hst k x l) + wh (h_st hr) = WH l + wh x.
Proof.
  revert k; induction l as [|y r IH]; intros [|k]; cbn [nth_error set_hst WH h_st]; try discriminate.
  - intros [= ->]. lia.
  - intro H. specialize (IH k H). lia.
Qed.
Lemma WH_set_hst_none k x l : nth_error l k = None -> set_hst k x l = l.
Proof.
  revert k; induction l as [|y r IH]; intros [|k]; cbn [nth_error set_hst]; try discriminate; auto.
  intro H. rewrite (IH k H). reflexivity.
Qed.
Lemma WH_app l x : WH (l ++ [x]) = WH l + wh (h_st x).
Proof. induction l as [|y r IH]; cbn [app WH]; [lia|]. rewrite IH. lia. Qed.
Lemma WH_le l : WH l <= 4 * length l.
Proof. induction l as [|y r IH]; cbn [WH length]; [lia|]. destruct (h_st y); cbn [wh]; lia. Qed.
Lemma codes_set_hst k x l hr :
  nth_error l k = Some hr -> hcode x = hcode (h_st hr) -> codes (set_hst k x l) = codes l.
Proof.
  unfold codes. revert k; induction l as [|y r IH]; intros [|k]; cbn [nth_error set_hst map h_st]; try discriminate.
  - intros [= ->] E. rewrite E. reflexivity.
  - intros H E. rewrite (IH k H E). reflexivity.
Qed.
Lemma nth_set_hst_same k x l hr :
  nth_error l k = Some hr -> nth_error (set_hst k x l) k = Some {| h_h := h_h hr; h_id := h_id hr; h_st := x |}.
Proof.
  revert k; induction l as [|y r IH]; intros [|k]; cbn [nth_error set_hst]; try discriminate.
  - intros [= ->]. reflexivity.
  - apply IH.
Qed.
Lemma nth_set_hst_other k j x l : j <> k -> nth_error (set_hst k x l) j = nth_error l j.
Proof.
  revert k j; induction l as [|y r IH]; intros [|k] [|j] H; cbn [nth_error set_hst]; try reflexivity; try congruence.
  apply IH. congruence.
Qed.
Lemma length_set_hst k x l : length (set_hst k x l) = length l.
Proof. revert k; induction l as [|y r IH]; intros [|k]; cbn [set_hst length]; auto. Qed.

Definition Psi (s : st) : nat :=
  WH (s_handlers s) + 2 * length (s_respq s) + length (s_cancels s) + length (s_timers s)
  + tpot (s_t s) + (if s_fused s then 0 else 1).

(* nothing the digest reads has changed, and no event-worthy call was logged *)
Record SameS (s s' : st) : Prop := {
  ss_inflight : length (s_inflight s') = length (s_inflight s);
  ss_timers : length (s_timers s') = length (s_timers s);
  ss_cancels : length (s_cancels s') = length (s_cancels s);
  ss_aborted : length (s_aborted s') = length (s_aborted s);
  ss_respq : length (s_respq s') = length (s_respq s);
  ss_permits : s_permits s' = s_permits s;
  ss_waiters : length (s_waiters s') = length (s_waiters s);
  ss_codes : codes (s_handlers s') = codes (s_handlers s);
  ss_t : sdig (s_t s') = sdig (s_t s);
  ss_fused : s_fused s' = s_fused s;
  ss_dropped : s_dropped s' = s_dropped s;
  ss_log : filter keep_call (s_log s') = filter keep_call (s_log s) }.

Lemma SameS_refl s : SameS s s.
Proof. constructor; reflexivity. Qed.
Lemma SameS_trans s1 s2 s3 : SameS s1 s2 -> SameS s2 s3 -> SameS s1 s3.
Proof. intros [] []. constructor; congruence. Qed.

Definition R (s s' : st) : Prop := Psi s' <= Psi s /\ (Psi s' = Psi s -> SameS s s').
Lemma R_refl s : R s s.
Proof. split; [lia|intros _; apply SameS_refl]. Qed.
Lemma R_trans s1 s2 s3 : R s1 s2 -> R s2 s3 -> R s1 s3.
Proof.
  intros [L1 H1] [L2 H2]. split; [lia|]. intro E. eapply SameS_trans; [apply H1|apply H2]; lia.
Qed.
Lemma R_strict s s' : Psi s' < Psi s -> R s s'.
Proof. intro H. split; [lia|intro; lia]. Qed.

(* ================================================================== units of a stream poll *)
Lemma R_fields (s s' : st) :
  s_handlers s' = s_handlers s -> s_respq s' = s_respq s -> s_cancels s' = s_cancels s ->
  s_timers s' = s_timers s -> s_inflight s' = s_inflight s -> s_aborted s' = s_aborted s ->
  s_permits s' = s_permits s -> s_waiters s' = s_waiters s -> s_fused s' = s_fused s ->
  s_dropped s' = s_dropped s -> filter keep_call (s_log s') = filter keep_call (s_log s) ->
  tpot (s_t s') <= tpot (s_t s) -> (tpot (s_t s') = tpot (s_t s) -> sdig (s_t s') = sdig (s_t s)) ->
  R s s'.
Proof.
  intros E1 E2 E3 E4 E5 E6 E7 E8 E9 E10 E11 L H. unfold R, Psi. rewrite E1, E2, E3, E4, E9.
  split; [lia|]. intro E. constructor; try congruence. apply H. lia.
Qed.

Lemma R_do_ready (s : st) r s' : do_ready stp s = (r, s') -> R s s'.
Proof.
  unfold do_ready. cbn [scripted t_ready]. destruct (tpot_ready (s_t s)) as [A B].
  destruct (s_ready (s_t s)) as [x t']. cbn [snd] in A, B. intros [= <- <-].
  apply R_fields; sproj; auto.
Qed.
Lemma R_do_flush (s : st) r s' : do_flush stp s = (r, s') -> R s s'.
Proof.
  unfold do_flush. cbn [scripted t_flush]. destruct (tpot_flush (s_t s)) as [A B].
  destruct (s_flush (s_t s)) as [x t']. cbn [snd] in A, B. intros [= <- <-].
  apply R_fields; sproj; auto.
Qed.
Lemma Psi_do_send (m : response) (s : st) r s' : do_send stp m s = (r, s') -> Psi s' <= Psi s + 1.
Proof.
  unfold do_send. cbn [scripted t_send]. pose proof (tpot_send (s_t s) m) as A.
  destruct (s_send (s_t s) m) as [x t']. cbn [snd] in A. intros [= <- <-]. unfold Psi. sproj. lia.
Qed.
Lemma R_do_next (s : st) r s' :
  do_next stp s = (r, s') -> R s s' /\ (forall x, r = RItem x -> Psi s' + 6 <= Psi s).
Proof.
  unfold do_next. cbn [scripted t_next]. pose proof (tpot_next (s_t s)) as A.
  destruct (s_next (s_t s)) as [x t']. cbn [fst snd] in A. intros [= <- <-].
  destruct x as [m| | |].
  - split; [apply R_strict|intros _ _]; unfold Psi; sproj; lia.
  - destruct A as [A B]. split; [|discriminate]. apply R_fields; sproj; auto.
  - destruct A as [A B]. split; [|discriminate]. apply R_fields; sproj; auto.
  - destruct A as [A B]. split; [|discriminate]. apply R_fields; sproj; auto.
Qed.

Lemma Psi_remove_request id (s : st) : Psi (snd (remove_request id s)) <= Psi s.
Proof.
  unfold remove_request. destruct (find_entry id s); cbn [snd]; [|lia].
  unfold Psi. sproj. pose proof (drop_timer_le id (s_timers s)). lia.
Qed.
Lemma Psi_cancel_request id (s : st) : Psi (cancel_request id s) <= Psi s.
Proof.
  unfold cancel_request. destruct (find_entry id s); [|lia].
  unfold Psi. sproj. pose proof (drop_timer_le id (s_timers s)). lia.
Qed.
Lemma Psi_start_request id dl (s : st) h s' : start_request id dl s = Some (h, s') -> Psi s' = Psi s + 1.
Proof.
  unfold start_request. destruct (tracked id s); [discriminate|]. intros [= _ <-].
  unfold Psi. sproj. rewrite app_length. cbn [length]. lia.
Qed.

Lemma R_poll_expired (s : st) r s' :
  poll_expired s = (r, s') -> R s s' /\ (r = RSReady -> Psi s' < Psi s).
Proof.
  intros H. unfold poll_expired in H.
  destruct (s_timers s) eqn:ET; [inversion H; subst; split; [apply R_refl|discriminate]|].
  clear ET.
  destruct (dq_poll (s_now s) (s_dq s)) as [choice dq'].
  destruct (due s) as [|[id0 w0] rest] eqn:ED.
  - inversion H; subst; clear H. split; [|discriminate].
    destruct choice; apply R_fields; sproj; auto.
  - assert (Hin0 : In (id0, w0) (s_timers s)) by (apply due_in; rewrite ED; left; reflexivity).
    set (pick := match choice with
                 | DQSome i => if existsb (fun p => N.eqb (fst p) i) ((id0, w0) :: rest)
                               then (i, true) else (id0, false)
                 | _ => (id0, false) end) in *.
    assert (Hv : exists w, In (fst pick, w) (s_timers s)).
    { subst pick. destruct choice as [i| |]; try (exists w0; exact Hin0).
      destruct (existsb _ _) eqn:EX; [|exists w0; exact Hin0].
      apply existsb_exists in EX. destruct EX as [[i' w'] [Hin Heq]]. cbn in Heq.
      apply N.eqb_eq in Heq; subst. exists w'. apply due_in. rewrite ED. exact Hin. }
    destruct pick as [victim agree]. cbn in Hv. destruct Hv as [w Hw].
    pose proof (drop_timer_lt victim w (s_timers s) Hw) as Hlt.
    assert (Hs : Psi s' < Psi s /\ r = RSReady).
    { destruct agree; cbn in H;
        match type of H with (_, match ?F with _ => _ end) = _ => destruct F end;
        inversion H; subst; clear H; unfold Psi, drop_timer in *; sproj; split; try reflexivity; lia. }
    destruct Hs as [Hs _]. split; [apply R_strict, Hs|intros _; exact Hs].
Qed.

Lemma Psi_add_permit (s : st) :
  Psi (add_permit s) <= Psi s /\ s_respq (add_permit s) = s_respq s.
Proof.
  unfold add_permit. destruct (s_waiters s) as [|k r]; [split; [unfold Psi; sproj; lia|reflexivity]|].
  sproj. destruct (nth_error (s_handlers s) k) as [hr|] eqn:E; [|split; [unfold Psi; sproj; lia|reflexivity]].
  destruct hr as [h i x]. destruct x; try (split; [unfold Psi; sproj; lia|reflexivity]).
  split; [|reflexivity]. unfold Psi. sproj.
  pose proof (WH_set_hst k (HPermit b) (s_handlers s) _ E) as W. cbn [h_st wh] in W. lia.
Qed.

Lemma Psi_base_start_send (m : response) (s : st) e s' :
  base_start_send stp m s = (e, s') -> Psi s' <= Psi s + 1.
Proof.
  unfold base_start_send. pose proof (Psi_remove_request (resp_id m) s) as A.
  destruct (remove_request (resp_id m) s) as [was s1]. cbn [snd] in A. destruct was.
  - destruct (do_send stp m s1) as [r s2] eqn:ES. apply Psi_do_send in ES. intros [= _ <-]. lia.
  - intros [= _ <-]. lia.
Qed.

(* BaseChannel::poll_next *)
Lemma R_base_poll_next f : forall (s : st) r s',
  base_poll_next stp f s = (r, s') -> R s s' /\ (forall q, r = PReady q -> Psi s' + 5 <= Psi s).
Proof.
  induction f as [|f IH]; intros s r s' H; [cbn in H; injection H as <- <-; split; [apply R_refl|discriminate]|].
  cbn [base_poll_next] in H.
  set (cs := match s_cancels s with
             | id :: r0 => (RSReady, snd (remove_request id (set_cancels s r0)))
             | [] => (RSClosed, s) end) in H.
  assert (Hc : R s (snd cs) /\ (fst cs = RSReady -> Psi (snd cs) < Psi s)).
  { subst cs. destruct (s_cancels s) as [|id r0] eqn:EC; cbn [fst snd]; [split; [apply R_refl|discriminate]|].
    pose proof (Psi_remove_request id (set_cancels s r0)) as A.
    assert (B : Psi (set_cancels s r0) + 1 = Psi s) by (unfold Psi; sproj; rewrite EC; cbn [length]; lia).
    split; [apply R_strict; lia|intros _; lia]. }
  destruct cs as [cst s1]. cbn [fst snd] in Hc. destruct Hc as (Rc & Sc).
  destruct (poll_expired s1) as [est s2] eqn:EE.
  destruct (R_poll_expired _ _ _ EE) as (Re & Se).
  assert (R02 : R s s2) by (eapply R_trans; eassumption).
  assert (S02 : cst = RSReady \/ est = RSReady -> Psi s2 < Psi s).
  { destruct Rc as [Lc _]. destruct Re as [Le _]. intros [X|X]; [specialize (Sc X)|specialize (Se X)]; lia. }
  assert (Hstat : forall rst sx,
             R s2 sx -> (rst = RSReady -> Psi sx < Psi s2) ->
             forall r s',
             match combine (combine cst est) rst with
             | RSReady => base_poll_next stp f sx
             | RSClosed => (PEnd, sx)
             | RSPending => (PPending, sx)
             end = (r, s') ->
             R s s' /\ (forall q, r = PReady q -> Psi s' + 5 <= Psi s)).
  { intros rst sx Rx Sx r0 s0 HH.
    assert (R0x : R s sx) by (eapply R_trans; eassumption).
    destruct (combine (combine cst est) rst) eqn:ECB.
    - destruct (IH _ _ _ HH) as (A & B). split; [eapply R_trans; eassumption|].
      intros q Hq. specialize (B q Hq). destruct R0x as [L _]. lia.
    - injection HH as <- <-. split; [exact R0x|discriminate].
    - injection HH as <- <-. split; [exact R0x|discriminate]. }
  destruct (s_fused s2) eqn:EF.
  - apply (Hstat RSClosed s2 (R_refl s2)); [discriminate|exact H].
  - destruct (do_next stp s2) as [rr s3] eqn:EN. destruct (R_do_next _ _ _ EN) as (Rn & Sn).
    destruct rr as [m| | |].
    + specialize (Sn m eq_refl).
      destruct m as [id dl tr body|id tr].
      * destruct (start_request id dl s3) as [[h s4]|] eqn:ES.
        -- apply Psi_start_request in ES. injection H as <- <-.
           destruct R02 as [L02 _].
           split; [apply R_strict; lia|intros q _; lia].
        -- destruct (IH _ _ _ H) as (A & B). destruct R02 as [L02 _]. destruct A as [LA _].
           split; [apply R_strict; lia|]. intros q Hq. specialize (B q Hq). lia.
      * pose proof (Psi_cancel_request id s3) as A.
        apply (Hstat RSReady (cancel_request id s3)); [apply R_strict; lia|intros _; lia|exact H].
    + injection H as <- <-. split; [eapply R_trans; eassumption|discriminate].
    + assert (Rf : R s3 (set_fused s3 true)).
      { destruct (s_fused s3) eqn:E3.
        - apply R_fields; sproj; auto.
        - apply R_strict. unfold Psi. sproj. rewrite E3. lia. }
      apply (Hstat RSClosed (set_fused s3 true)); [eapply R_trans; eassumption|discriminate|exact H].
    + apply (Hstat RSPending s3); [exact Rn|discriminate|exact H].
Qed.

(* MaxRequests::poll_next *)
Lemma R_maxreq_poll_next f : forall limit (s : st) r s',
  maxreq_poll_next stp f limit s = (r, s') -> R s s' /\ (forall q, r = PReady q -> Psi s' + 5 <= Psi s).
Proof.
  induction f as [|f IH]; intros limit s r s' H; [cbn in H; injection H as <- <-; split; [apply R_refl|discriminate]|].
  cbn [maxreq_poll_next] in H.
  destruct (limit <=? length (s_inflight s)); [|exact (R_base_poll_next _ _ _ _ H)].
  destruct (do_ready stp s) as [x s1] eqn:ER. pose proof (R_do_ready _ _ _ ER) as R1.
  destruct x; try (injection H as <- <-; split; [exact R1|discriminate]).
  destruct (base_poll_next stp (S f) s1) as [y s2] eqn:EB.
  destruct (R_base_poll_next _ _ _ _ EB) as (R2 & S2).
  assert (R02 : R s s2) by (eapply R_trans; eassumption).
  destruct y as [q| | | |]; try (injection H as <- <-; split; [exact R02|discriminate]).
  specialize (S2 q eq_refl).
  destruct (base_start_send stp (mkresp (q_id q) BThrottle) s2) as [e s3] eqn:ESS.
  apply Psi_base_start_send in ESS. destruct R1 as [L1 _].
  destruct e.
  - injection H as <- <-. split; [apply R_strict; lia|discriminate].
  - destruct (IH _ _ _ _ H) as ([LA _] & B). split; [apply R_strict; lia|].
    intros q' Hq'. specialize (B q' Hq'). lia.
Qed.

Lemma R_ensure_writeable (s : st) w s' : ensure_writeable stp s = (w, s') -> R s s'.
Proof.
  unfold ensure_writeable. intro H.
  destruct (do_ready stp s) as [r s1] eqn:E1. pose proof (R_do_ready _ _ _ E1) as R1.
  destruct r; try (injection H as _ <-; exact R1).
  destruct (do_flush stp s1) as [f s2] eqn:E2. pose proof (R_do_flush _ _ _ E2) as R2.
  destruct f; try (injection H as _ <-; eapply R_trans; eassumption).
  destruct (do_ready stp s2) as [r2 s3] eqn:E3. pose proof (R_do_ready _ _ _ E3) as R3.
  destruct r2; injection H as _ <-; (eapply R_trans; [exact R1|eapply R_trans; eassumption]).
Qed.

(* Requests::pump_write *)
Lemma R_pump_write rc (s : st) w s' :
  pump_write stp rc s = (w, s') -> R s s' /\ (forall u, w = PReady u -> Psi s' < Psi s).
Proof.
  unfold pump_write, poll_next_response. intro H.
  destruct (ensure_writeable stp s) as [x s1] eqn:EW. pose proof (R_ensure_writeable _ _ _ EW) as R1.
  assert (Hflush : forall x0, (let '(f, s2) := do_flush stp s1 in
              match f with
              | TErr => (PErr AFlush, s2)
              | TPending => (PPending, s2)
              | TOk => match x0 : pres response with
                       | PEnd => (PEnd, s2)
                       | _ => if rc && Nat.eqb (length (s_inflight s2)) 0 then (PEnd, s2) else (PPending, s2)
                       end
              end) = (w, s') -> R s s' /\ (forall u, w = PReady u -> Psi s' < Psi s)).
  { intros x0 HH. destruct (do_flush stp s1) as [f s2] eqn:EF. pose proof (R_do_flush _ _ _ EF) as R2.
    assert (R02 : R s s2) by (eapply R_trans; eassumption).
    destruct f; [destruct x0; try destruct (rc && _)| |]; injection HH as <- <-; (split; [exact R02|discriminate]). }
  destruct x as [| |a].
  - destruct (s_respq s1) as [|m q] eqn:EQ.
    + apply (Hflush PPending). exact H.
    + destruct (Psi_add_permit (set_respq s1 q)) as (D & _).
      destruct (base_start_send stp m (add_permit (set_respq s1 q))) as [e s2] eqn:ES.
      apply Psi_base_start_send in ES.
      assert (P1 : Psi (set_respq s1 q) + 2 = Psi s1) by (unfold Psi; sproj; rewrite EQ; cbn [length]; lia).
      destruct R1 as [L1 _].
      assert (Hs : Psi s2 < Psi s) by lia.
      destruct e; injection H as <- <-; (split; [apply R_strict; exact Hs|intros; exact Hs]).
  - apply (Hflush PPending). exact H.
  - injection H as <- <-. split; [exact R1|discriminate].
Qed.

Lemma R_pump_read c f (s : st) r s' :
  pump_read stp c f s = (r, s') -> R s s' /\ (forall q, r = PReady q -> Psi s' + 5 <= Psi s).
Proof.
  unfold pump_read. destruct (cfg_limit c); [apply R_maxreq_poll_next|apply R_base_poll_next].
Qed.

(* impl Stream for Requests: poll_next *)
Lemma R_requests_poll_next c f : forall (s : st) r s',
  requests_poll_next stp c f s = (r, s') -> R s s' /\ (forall q, r = PReady q -> Psi s' + 5 <= Psi s).
Proof.
  induction f as [|f IH]; intros s r s' H; [cbn in H; injection H as <- <-; split; [apply R_refl|discriminate]|].
  cbn [requests_poll_next] in H.
  destruct (pump_read stp c (S f) s) as [rd s1] eqn:ER.
  destruct (R_pump_read _ _ _ _ _ ER) as (R1 & S1).
  destruct rd as [q| |a| |]; try (injection H as <- <-; split; [exact R1|discriminate]).
  all: match type of H with context [pump_write stp ?b ?sx] =>
         destruct (pump_write stp b sx) as [wr s2] eqn:EW;
         destruct (R_pump_write _ _ _ _ EW) as (R2 & S2) end.
  all: assert (R02 : R s s2) by (eapply R_trans; eassumption).
  - (* a request was read *)
    specialize (S1 q eq_refl). destruct R2 as [L2 _].
    destruct wr as [u| |a| |]; injection H as <- <-.
    + split; [apply R_strict; lia|intros; lia].
    + split; [apply R_strict; lia|intros; lia].
    + split; [apply R_strict; unfold Psi in *; sproj; rewrite app_length; cbn [length]; lia|discriminate].
    + split; [apply R_strict; lia|intros; lia].
    + split; [apply R_strict; lia|discriminate].
  - destruct wr as [u| |a| |]; try (injection H as <- <-; split; [exact R02|discriminate]).
    destruct (IH _ _ _ H) as (A & B). split; [eapply R_trans; eassumption|].
    intros q Hq. specialize (B q Hq). destruct R02 as [L _]. lia.
  - destruct wr as [u| |a| |]; try (injection H as <- <-; split; [exact R02|discriminate]).
    destruct (IH _ _ _ H) as (A & B). split; [eapply R_trans; eassumption|].
    intros q Hq. specialize (B q Hq). destruct R02 as [L _]. lia.
Qed.

(* ================================================================== one poll of the stream *)
Lemma filter_rev {A} (f : A -> bool) l : filter f (rev l) = rev (filter f l).
Proof.
  induction l as [|x r IH]; cbn [rev filter]; [reflexivity|].
  rewrite filter_app, IH. cbn [filter]. destruct (f x); cbn [rev]; [reflexivity|apply app_nil_r].
Qed.

Lemma poll_requests_pot c (s : st) s' l :
  s_dropped s = false -> poll_requests stp sfuel c s = (s', l) ->
  exists log res, l = [OCalls log; res] /\
    match res with OYield _ _ _ _ _ | OStreamEnd | OStreamErr _ | OPending => True | _ => False end /\
    Psi s' <= Psi s /\
    (Psi s' = Psi s ->
     SameS (set_log s []) s' /\ filter keep_call log = [] /\
     match res with OYield _ _ _ _ _ => False | _ => True end).
Proof.
  intros Hd H. pose proof (poll_requests_no_fuel stp sfuel scripted_tfuel_ok c s) as NF. rewrite H in NF.
  cbn [snd] in NF. unfold poll_requests in H. rewrite Hd in H.
  destruct (requests_poll_next stp c (poll_fuel sfuel s) (set_log s [])) as [r s1] eqn:ER.
  destruct (R_requests_poll_next _ _ _ _ _ ER) as ([L S] & Y).
  assert (P0 : Psi (set_log s []) = Psi s) by reflexivity. rewrite P0 in *.
  assert (Hlog : Psi s1 = Psi s -> SameS (set_log s []) s1 /\ filter keep_call (rev (s_log s1)) = []).
  { intro E. pose proof (S E) as X. split; [exact X|]. rewrite filter_rev, (ss_log _ _ X). reflexivity. }
  destruct r as [q| |a| |]; injection H as <- <-; eexists _, _; (split; [reflexivity|]).
  - split; [exact I|]. specialize (Y q eq_refl).
    assert (Hs : Psi (set_handlers s1 (s_handlers s1 ++ [{| h_h := q_h q; h_id := q_id q; h_st := HYielded |}])) + 1 <= Psi s).
    { unfold Psi in *. sproj. rewrite WH_app. cbn [h_st wh]. lia. }
    split; [lia|intro; lia].
  - split; [exact I|]. split; [exact L|]. intro E. destruct (Hlog E). auto.
  - split; [exact I|]. split; [exact L|]. intro E. destruct (Hlog E). auto.
  - split; [exact I|]. split; [exact L|]. intro E. destruct (Hlog E). auto.
  - exfalso. apply NF. right; left. reflexivity.
Qed.

(* ================================================================== one poll of an execute() future *)
Lemma Psi_sethst (s sx : st) k hr x :
  s_handlers sx = s_handlers s -> nth_error (s_handlers s) k = Some hr ->
  Psi (set_handlers sx (set_hst k x (s_handlers sx))) + wh (h_st hr) = Psi sx + wh x.
Proof.
  intros E Hk. unfold Psi. sproj. rewrite E.
  pose proof (WH_set_hst k x (s_handlers s) hr Hk). lia.
Qed.

Lemma add_permit_nth (s : st) k hr :
  nth_error (s_handlers s) k = Some hr ->
  exists hr', nth_error (s_handlers (add_permit s)) k = Some hr' /\
              (h_st hr' = h_st hr \/ exists b, h_st hr = HWait b /\ h_st hr' = HPermit b).
Proof.
  intro Hk. destruct (add_permit_shape s) as (P1 & P2 & _). cbv zeta in *.
  pose proof (f_equal (fun l => nth_error l k) P1) as E. cbn beta in E. rewrite !nth_error_map, Hk in E.
  destruct (nth_error (s_handlers (add_permit s)) k) as [hr'|] eqn:E'; cbn in E; [|discriminate].
  exists hr'. split; [reflexivity|]. destruct (P2 k hr' E') as (hr0 & A & _ & _ & B).
  rewrite Hk in A. inversion A; subst hr0. exact B.
Qed.

Lemma exec_pot k hs (s : st) s' l :
  execute_poll k hs s = (s', l) ->
  Psi s' <= Psi s /\
  (Psi s' = Psi s -> (forall hr, nth_error (s_handlers s) k = Some hr -> h_st hr <> HYielded) ->
   SameS s s' /\ filter keep_hev l = []).
Proof.
  intro H. unfold execute_poll in H. cbv beta zeta in H.
  destruct (nth_error (s_handlers s) k) as [hr|] eqn:Hk;
    [|injection H as <- <-; split; [lia|intros; split; [apply SameS_refl|reflexivity]]].
  assert (Hsame : (s', l) = (s, []) -> Psi s' <= Psi s /\
            (Psi s' = Psi s -> (forall hr0, Some hr = Some hr0 -> h_st hr0 <> HYielded) ->
             SameS s s' /\ filter keep_hev l = [])).
  { intros [= -> ->]. split; [lia|intros; split; [apply SameS_refl|reflexivity]]. }
  assert (Hstrict : Psi s' < Psi s -> Psi s' <= Psi s /\
            (Psi s' = Psi s -> (forall hr0, Some hr = Some hr0 -> h_st hr0 <> HYielded) ->
             SameS s s' /\ filter keep_hev l = [])).
  { intro X. split; [lia|intro; lia]. }
  (* the shapes of the new state *)
  assert (F0 : forall x, Psi (set_handlers s (set_hst k x (s_handlers s))) + wh (h_st hr) = Psi s + wh x)
    by (intro x; apply (Psi_sethst s s k hr x eq_refl Hk)).
  assert (FW : forall x w, Psi (set_handlers (set_waiters s w) (set_hst k x (s_handlers (set_waiters s w))))
                           + wh (h_st hr) = Psi s + wh x).
  { intros x w. rewrite (Psi_sethst s (set_waiters s w) k hr x eq_refl Hk). reflexivity. }
  assert (FQ : forall x p m, Psi (set_handlers (set_respq (set_permits s p) (s_respq s ++ [m]))
                                   (set_hst k x (s_handlers (set_respq (set_permits s p) (s_respq s ++ [m])))))
                             + wh (h_st hr) = Psi s + 2 + wh x).
  { intros x p m. rewrite (Psi_sethst s (set_respq (set_permits s p) (s_respq s ++ [m])) k hr x eq_refl Hk).
    unfold Psi. sproj. rewrite app_length. cbn [length]. lia. }
  assert (FQ' : forall x m, Psi (set_handlers (set_respq s (s_respq s ++ [m]))
                                   (set_hst k x (s_handlers (set_respq s (s_respq s ++ [m])))))
                             + wh (h_st hr) = Psi s + 2 + wh x).
  { intros x m. rewrite (Psi_sethst s (set_respq s (s_respq s ++ [m])) k hr x eq_refl Hk).
    unfold Psi. sproj. rewrite app_length. cbn [length]. lia. }
  assert (FP : 3 <= wh (h_st hr) ->
               Psi (set_handlers (add_permit s) (set_hst k HDone (s_handlers (add_permit s)))) + 3 <= Psi s).
  { intro W3. destruct (add_permit_nth s k hr Hk) as (hr' & A & B).
    pose proof (Psi_sethst (add_permit s) (add_permit s) k hr' HDone eq_refl A) as X. cbn [wh] in X.
    destruct (Psi_add_permit s) as [Y _].
    assert (3 <= wh (h_st hr')).
    { destruct B as [B|(b & B1 & B2)]; [rewrite B; exact W3|rewrite B2; cbn; lia]. }
    lia. }
  destruct (h_st hr) eqn:Est; try (apply Hsame; exact (eq_sym H)); cbn [wh] in *.
  - (* HYielded *)
    destruct (existsb (Nat.eqb (h_h hr)) (s_aborted s)).
    { injection H as <- <-. apply Hstrict. specialize (F0 HDone). cbn [wh] in F0. lia. }
    assert (Hsend : forall b pre,
              (if s_dropped s then (set_handlers s (set_hst k HDone (s_handlers s)), pre ++ [OExecReady k])
               else match s_permits s with
                    | S p => (set_handlers (set_respq (set_permits s p) (s_respq s ++ [mkresp (h_id hr) b]))
                                (set_hst k HDone (s_handlers (set_respq (set_permits s p) (s_respq s ++ [mkresp (h_id hr) b])))),
                              pre ++ [OExecReady k])
                    | O => (set_handlers (set_waiters s (s_waiters s ++ [k])) (set_hst k (HWait b) (s_handlers s)),
                            pre ++ [OExecPending k])
                    end) = (s', l) -> Psi s' < Psi s).
    { intros b pre HH. destruct (s_dropped s); [|destruct (s_permits s) as [|p]]; injection HH as <- _.
      - specialize (F0 HDone). cbn [wh] in F0. lia.
      - specialize (FW (HWait b) (s_waiters s ++ [k])). cbn [wh s_handlers set_waiters] in FW. lia.
      - specialize (FQ HDone p (mkresp (h_id hr) b)). cbn [wh] in FQ. sproj. lia. }
    destruct hs as [|v|]; [|apply Hstrict; exact (Hsend _ _ H)|apply Hstrict; exact (Hsend _ _ H)].
    injection H as <- <-.
    split; [specialize (F0 HRunning); cbn [wh] in F0; lia|]. intros _ Hny. exfalso. exact (Hny hr eq_refl Est).
  - (* HRunning *)
    destruct (existsb (Nat.eqb (h_h hr)) (s_aborted s)).
    { injection H as <- <-. apply Hstrict. specialize (F0 HDone). cbn [wh] in F0. lia. }
    assert (Hsend : forall b pre,
              (if s_dropped s then (set_handlers s (set_hst k HDone (s_handlers s)), pre ++ [OExecReady k])
               else match s_permits s with
                    | S p => (set_handlers (set_respq (set_permits s p) (s_respq s ++ [mkresp (h_id hr) b]))
                                (set_hst k HDone (s_handlers (set_respq (set_permits s p) (s_respq s ++ [mkresp (h_id hr) b])))),
                              pre ++ [OExecReady k])
                    | O => (set_handlers (set_waiters s (s_waiters s ++ [k])) (set_hst k (HWait b) (s_handlers s)),
                            pre ++ [OExecPending k])
                    end) = (s', l) -> Psi s' < Psi s).
    { intros b pre HH. destruct (s_dropped s); [|destruct (s_permits s) as [|p]]; injection HH as <- _.
      - specialize (F0 HDone). cbn [wh] in F0. lia.
      - specialize (FW (HWait b) (s_waiters s ++ [k])). cbn [wh s_handlers set_waiters] in FW. lia.
      - specialize (FQ HDone p (mkresp (h_id hr) b)). cbn [wh] in FQ. sproj. lia. }
    destruct hs as [|v|]; [|apply Hstrict; exact (Hsend _ _ H)|apply Hstrict; exact (Hsend _ _ H)].
    injection H as <- <-.
    split; [specialize (F0 HRunning); cbn [wh] in F0; lia|]. intros _ _.
    split; [|reflexivity]. constructor; sproj; try reflexivity.
    apply (codes_set_hst k HRunning (s_handlers s) hr Hk). rewrite Est. reflexivity.
  - (* HWait *)
    destruct (existsb (Nat.eqb (h_h hr)) (s_aborted s)).
    { injection H as <- <-. apply Hstrict.
      specialize (FW HDone (remove_waiter k (s_waiters s))). cbn [wh s_handlers set_waiters] in FW. lia. }
    destruct (s_dropped s); injection H as <- <-.
    + apply Hstrict.
      specialize (FW HDone (remove_waiter k (s_waiters s))). cbn [wh s_handlers set_waiters] in FW. lia.
    + split; [lia|]. intros _ _. split; [apply SameS_refl|reflexivity].
  - (* HPermit *)
    destruct (existsb (Nat.eqb (h_h hr)) (s_aborted s)).
    { injection H as <- <-. apply Hstrict. specialize (FP ltac:(lia)). lia. }
    destruct (s_dropped s); injection H as <- <-; apply Hstrict.
    + specialize (F0 HDone). cbn [wh] in F0. lia.
    + specialize (FQ' HDone (mkresp (h_id hr) b)). cbn [wh s_handlers set_respq] in FQ'. sproj. lia.
Qed.

(* ================================================================== no handler stays HYielded *)
Definition yl (l : list hrec) (j : nat) : Prop :=
  exists hr, nth_error l j = Some hr /\ h_st hr = HYielded.
Definition NYlt (i : nat) (l : list hrec) : Prop := forall j, j < i -> ~ yl l j.
Definition NY (s : st) : Prop := forall j, ~ yl (s_handlers s) j.

Lemma yl_codes l j : yl l j <-> nth_error (codes l) j = Some 0.
Proof.
  unfold yl, codes. rewrite nth_error_map. destruct (nth_error l j) as [h|]; cbn [option_map].
  - split.
    + intros (hr & [= <-] & B). rewrite B. reflexivity.
    + intros [= E]. exists h. split; [reflexivity|]. destruct (h_st h); cbn in E; congruence.
  - split; [intros (hr & A & _); discriminate|discriminate].
Qed.

Lemma NY_codes (a b : st) : codes (s_handlers b) = codes (s_handlers a) -> NY a -> NY b.
Proof. intros E H j Y. apply (H j). apply yl_codes. rewrite <- E. apply yl_codes. exact Y. Qed.

Lemma NYlt_all i (s : st) : length (s_handlers s) <= i -> NYlt i (s_handlers s) -> NY s.
Proof.
  intros L H j Y. apply (H j); [|exact Y]. destruct Y as (hr & A & _).
  assert (j < length (s_handlers s)) by (apply nth_error_Some; congruence). lia.
Qed.

Lemma yl_set_hst i x l j : x <> HYielded -> yl (set_hst i x l) j -> j <> i /\ yl l j.
Proof.
  intros Hx (hr & A & B). destruct (Nat.eq_dec j i) as [->|N].
  - exfalso. destruct (nth_error l i) as [h0|] eqn:E.
    + rewrite (nth_set_hst_same i x l h0 E) in A. injection A as <-. cbn in B. auto.
    + rewrite (WH_set_hst_none i x l E) in A. congruence.
  - split; [exact N|]. rewrite (nth_set_hst_other i j x l N) in A. exists hr; auto.
Qed.

Lemma yl_add_permit (s : st) j : yl (s_handlers (add_permit s)) j -> yl (s_handlers s) j.
Proof.
  intros (hr' & A & B). destruct (add_permit_shape s) as (_ & P2 & _). cbv zeta in P2.
  destruct (P2 j hr' A) as (hr & A' & _ & _ & [C|(b & C1 & C2)]).
  - exists hr. split; [exact A'|congruence].
  - congruence.
Qed.

Lemma exec_ny k hs (s : st) s' l :
  execute_poll k hs s = (s', l) ->
  length (s_handlers s') = length (s_handlers s) /\
  forall j, yl (s_handlers s') j -> j <> k /\ yl (s_handlers s) j.
Proof.
  intro H. unfold execute_poll in H. cbv beta zeta in H.
  assert (Hlen_ap : length (s_handlers (add_permit s)) = length (s_handlers s)).
  { destruct (add_permit_shape s) as (P1 & _). cbv zeta in P1.
    rewrite <- (map_length h_h), P1, map_length. reflexivity. }
  destruct (nth_error (s_handlers s) k) as [hr|] eqn:Hk.
  2:{ injection H as <- <-. split; [reflexivity|]. intros j (hr0 & A & B). split; [|exists hr0; auto].
      intros ->. congruence. }
  assert (Hsame : h_st hr <> HYielded ->
            length (s_handlers s) = length (s_handlers s) /\
            forall j, yl (s_handlers s) j -> j <> k /\ yl (s_handlers s) j).
  { intro N. split; [reflexivity|]. intros j (hr0 & A & B). split; [|exists hr0; auto].
    intros ->. rewrite Hk in A. injection A as <-. auto. }
  assert (Hset : forall x, x <> HYielded ->
            length (set_hst k x (s_handlers s)) = length (s_handlers s) /\
            forall j, yl (set_hst k x (s_handlers s)) j -> j <> k /\ yl (s_handlers s) j).
  { intros x Nx. rewrite length_set_hst. split; [reflexivity|]. intros j Y.
    apply yl_set_hst in Y; auto. }
  assert (Hap : length (set_hst k HDone (s_handlers (add_permit s))) = length (s_handlers s) /\
                forall j, yl (set_hst k HDone (s_handlers (add_permit s))) j -> j <> k /\ yl (s_handlers s) j).
  { rewrite length_set_hst. split; [exact Hlen_ap|]. intros j Y.
    apply yl_set_hst in Y; [|discriminate]. destruct Y as [N Y]. split; [exact N|apply yl_add_permit; exact Y]. }
  destruct (h_st hr) eqn:Est;
    repeat match type of H with
           | context [if ?b then _ else _] => destruct b
           | context [match s_permits s with _ => _ end] => destruct (s_permits s)
           | context [match hs with _ => _ end] => destruct hs
           end;
    injection H as <- <-; sproj;
    first [ exact Hap | apply Hset; discriminate | apply Hsame; discriminate ].
Qed.

(* ================================================================== the handler half of a round *)
Lemma poll_handlers_pot rel : forall n (s : st) i acc s2 hev,
  poll_handlers rel s i n acc = (s2, hev) ->
  Psi s2 <= Psi s /\
  (length (s_handlers s) <= i + n -> NYlt i (s_handlers s) -> NY s2) /\
  (Psi s2 = Psi s -> NY s -> SameS s s2 /\ hev = acc).
Proof.
  induction n as [|n IH]; intros s i acc s2 hev H; cbn [poll_handlers] in H.
  { injection H as <- <-. split; [lia|]. split.
    - intros L Y. apply (NYlt_all i); [lia|exact Y].
    - intros _ _. split; [apply SameS_refl|reflexivity]. }
  destruct (nth_error (s_handlers s) i) as [hr|] eqn:Hi.
  2:{ injection H as <- <-. split; [lia|]. split.
      - intros _ Y. apply (NYlt_all i); [apply nth_error_None; exact Hi|exact Y].
      - intros _ _. split; [apply SameS_refl|reflexivity]. }
  destruct (h_live (h_st hr)) eqn:Hl.
  - destruct (execute_poll i (rel_of i rel) s) as [s1 l] eqn:EX.
    destruct (exec_pot _ _ _ _ _ EX) as [P1 P2]. destruct (exec_ny _ _ _ _ _ EX) as [L1 Y1].
    destruct (IH _ _ _ _ _ H) as (Q1 & Q2 & Q3).
    split; [lia|]. split.
    + intros L Y. apply Q2; [lia|]. intros j Hj Yj. destruct (Y1 j Yj) as [N Yj'].
      apply (Y j); [lia|exact Yj'].
    + intros E Hny. assert (E1 : Psi s1 = Psi s) by lia. assert (E2 : Psi s2 = Psi s1) by lia.
      destruct (P2 E1) as [S1 F1].
      { intros hr0 Hk0 Y0. apply (Hny i). exists hr0. auto. }
      destruct (Q3 E2) as [S2 F2].
      { intros j Yj. destruct (Y1 j Yj) as [_ Yj']. exact (Hny j Yj'). }
      split; [eapply SameS_trans; eauto|]. rewrite F2, F1. apply app_nil_r.
  - destruct (IH _ _ _ _ _ H) as (Q1 & Q2 & Q3).
    split; [exact Q1|]. split; [|exact Q3].
    intros L Y. apply Q2; [lia|]. intros j Hj Yj.
    destruct (Nat.eq_dec j i) as [->|N]; [|apply (Y j); [lia|exact Yj]].
    destruct Yj as (hr0 & A & B). rewrite Hi in A. injection A as <-. rewrite B in Hl. discriminate.
Qed.

(* ================================================================== the stream half of a round *)
Notation WST := (@wstate ST).

Definition stream_half (c : cfg) (w : WST) : st * option (option activity) * list obs * bool :=
  let s := w_s w in
  if s_dropped s || is_some (w_end w) then (s, w_end w, [], false)
  else
    let '(s', l) := poll_requests stp sfuel c s in
    match l with
    | [OCalls log; res] =>
      let calls := filter keep_call log in
      let pre := match calls with [] => [] | _ => [OCalls calls] end in
      match res with
      | OYield _ _ _ _ _ => (s', None, pre ++ [res], false)
      | OStreamEnd => (s', Some None, pre ++ [res], false)
      | OStreamErr a => (s', Some (Some a), pre ++ [res], false)
      | OPending => (s', None, pre, false)
      | _ => (s', None, pre, true)
      end
    | _ => (s', None, [], true)
    end.

Definition endw (e : option (option activity)) : nat := if is_some e then 0 else 1.

Lemma SameS_digest (a b : st) : SameS a b -> digest sdig b = digest sdig a.
Proof.
  intros []. unfold digest. fold (codes (s_handlers a)) (codes (s_handlers b)). congruence.
Qed.

Lemma stream_pot c (w : WST) s1 e1 ev1 fuel1 :
  stream_half c w = (s1, e1, ev1, fuel1) ->
  fuel1 = false /\
  Psi s1 + endw e1 <= Psi (w_s w) + endw (w_end w) /\
  (Psi s1 + endw e1 = Psi (w_s w) + endw (w_end w) ->
   digest sdig s1 = digest sdig (w_s w) /\ codes (s_handlers s1) = codes (s_handlers (w_s w)) /\
   ev1 = [] /\ is_some e1 = is_some (w_end w)).
Proof.
  unfold stream_half. cbv zeta. destruct (s_dropped (w_s w)) eqn:Hd; cbn [orb].
  { intros [= <- <- <- <-]. split; [reflexivity|]. split; [lia|]. intros _. auto. }
  destruct (is_some (w_end w)) eqn:He.
  { intros [= <- <- <- <-]. split; [reflexivity|]. split; [lia|]. intros _. auto. }
  destruct (poll_requests stp sfuel c (w_s w)) as [s' l] eqn:EP.
  destruct (poll_requests_pot _ _ _ _ Hd EP) as (log & res & -> & Hres & L & E).
  unfold endw at 2 4. rewrite He.
  destruct res; try contradiction; intros [= <- <- <- <-]; (split; [reflexivity|]); cbn [endw is_some].
  - (* yield *) split; [lia|]. intro X. assert (X' : Psi s' = Psi (w_s w)) by lia. destruct (E X') as (_ & _ & []).
  - (* pending *) split; [lia|]. intro X. assert (X' : Psi s' = Psi (w_s w)) by lia. destruct (E X') as (S1 & F1 & _).
    rewrite F1. split; [|split; [|split; reflexivity]].
    + rewrite (SameS_digest _ _ S1). reflexivity.
    + rewrite (ss_codes _ _ S1). reflexivity.
  - split; [lia|]. intro X. lia.
  - split; [lia|]. intro X. lia.
Qed.

(* ================================================================== one round *)
Notation ssettle := (settle stp sfuel sdig).

Lemma settle_S c r (w : WST) o :
  ssettle c (S r) w o =
  let '(s1, e1, ev1, fuel1) := stream_half c w in
  let '(s2, hev) := poll_handlers (w_rel w) s1 0 (length (s_handlers s1)) [] in
  let w2 := mkw s2 (w_rel w) e1 in
  let o2 := mkso (so_ev o ++ ev1 ++ hev) (so_fuel o || fuel1) in
  if fuel1 then (w2, o2)
  else
    if digest_eqb (digest sdig (w_s w)) (digest sdig s2)
       && match ev1, hev with [], [] => true | _, _ => false end
       && Bool.eqb (is_some e1) (is_some (w_end w))
    then (w2, o2) else ssettle c r w2 o2.
Proof. reflexivity. Qed.

Lemma nat_list_eqb_refl (l : list nat) : list_eqb Nat.eqb l l = true.
Proof. induction l as [|x r IH]; cbn [list_eqb]; [reflexivity|]. rewrite Nat.eqb_refl, IH. reflexivity. Qed.
Lemma digest_eqb_refl d : digest_eqb d d = true.
Proof. unfold digest_eqb. rewrite nat_list_eqb_refl, !Bool.eqb_reflx. reflexivity. Qed.

Definition Phi (w : WST) : nat := Psi (w_s w) + endw (w_end w).

Lemma round_pot c r (w : WST) o :
  exists w2 o2 (quiet : bool),
    ssettle c (S r) w o = (if quiet then (w2, o2) else ssettle c r w2 o2) /\
    so_fuel o2 = so_fuel o /\
    NY (w_s w2) /\ Phi w2 <= Phi w /\ (NY (w_s w) -> Phi w2 = Phi w -> quiet = true).
Proof.
  rewrite settle_S.
  destruct (stream_half c w) as [[[s1 e1] ev1] fuel1] eqn:ES.
  destruct (stream_pot _ _ _ _ _ _ ES) as (-> & L1 & E1).
  destruct (poll_handlers (w_rel w) s1 0 (length (s_handlers s1)) []) as [s2 hev] eqn:EH.
  destruct (poll_handlers_pot _ _ _ _ _ _ _ EH) as (L2 & Y2 & E2).
  cbv zeta. cbn match.
  eexists _, _, _. split; [reflexivity|]. cbn [so_fuel w_s].
  split; [apply orb_false_r|]. split.
  { apply Y2; [lia|]. intros j Hj. lia. }
  unfold Phi. cbn [w_s w_end]. split; [lia|].
  intros Hny EQ.
  destruct E1 as (D1 & C1 & -> & I1); [lia|].
  destruct E2 as (S2 & ->); [lia|exact (NY_codes _ _ C1 Hny)|].
  rewrite (SameS_digest _ _ S2), D1, digest_eqb_refl, I1, Bool.eqb_reflx. reflexivity.
Qed.

Lemma settle_no_fuel c : forall r (w : WST) o,
  so_fuel o = false ->
  (NY (w_s w) /\ Phi w < r) \/ Phi w + 1 < r ->
  so_fuel (snd (ssettle c r w o)) = false.
Proof.
  induction r as [|r IH]; intros w o Ho Hr; [exfalso; lia|].
  destruct (round_pot c r w o) as (w2 & o2 & quiet & -> & F2 & Y2 & L2 & Q2).
  destruct quiet; cbn [snd]; [congruence|].
  apply IH; [congruence|]. left. split; [exact Y2|].
  destruct Hr as [[Hny Hr]|Hr]; [|lia].
  assert (Phi w2 <> Phi w) by (intro X; specialize (Q2 Hny X); discriminate). lia.
Qed.

Lemma tpot_le (t : ST) : tpot t <= 6 * length (st_inbox t) + 5.
Proof.
  unfold tpot. destruct (st_buffered t =? 0), (st_fail_ready t), (st_fail_send t), (st_fail_flush t),
    (st_fail_next t); cbn [Nat.b2n]; lia.
Qed.

Lemma Phi_rounds (w : WST) : Phi w + 1 < rounds_of sfuel (w_s w).
Proof.
  unfold Phi, Psi, rounds_of, endw, sfuel.
  pose proof (WH_le (s_handlers (w_s w))). pose proof (tpot_le (s_t (w_s w))).
  destruct (s_fused (w_s w)), (is_some (w_end w)); lia.
Qed.

(* ================================================================== runs *)
Lemma wstep_no_fuel c (w : WST) (o : swop) :
  snd (wstep stp (@s_control cmsg) sfuel sdig c w o) <> WFuel.
Proof.
  destruct o as [o|k h|]; cbn [wstep].
  - destruct (step stp (@s_control cmsg) sfuel c (w_s w) o). cbn [snd]. discriminate.
  - cbn [snd]. discriminate.
  - destruct (ssettle c (rounds_of sfuel (w_s w)) w (mkso [] false)) as [w1 r] eqn:E. cbn [snd].
    assert (F : so_fuel r = false).
    { change r with (snd (w1, r)). rewrite <- E. apply settle_no_fuel; [reflexivity|].
      right. apply Phi_rounds. }
    rewrite F. destruct (s_dropped (w_s w1)); discriminate.
Qed.

Lemma wrun_from_no_fuel c : forall (ops : list swop) (w : WST),
  no_wfuel (wrun_from stp (@s_control cmsg) sfuel sdig c w ops) = true.
Proof.
  induction ops as [|o r IH]; intro w; cbn [wrun_from]; [reflexivity|].
  pose proof (wstep_no_fuel c w o) as N.
  destruct (wstep stp (@s_control cmsg) sfuel sdig c w o) as [w1 x]. cbn [snd] in N.
  unfold no_wfuel in *. cbn [forallb]. rewrite IH. destruct x; try reflexivity. congruence.
Qed.

Theorem w_settle_terminates_holds : stmt_w_settle_terminates.
Proof.
  intros c t0 ops. unfold swrun, wrun. apply (wrun_from_no_fuel c ops).
Qed.
Print Assumptions w_settle_terminates_holds.
