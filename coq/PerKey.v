(* Model of tarpc/src/server/limits/channels_per_key.rs (MaxChannelsPerKey).
   One Gallina function per Rust function; no proofs in this file.

   State that matters:
     arrivals   : channels the listener has produced but poll_next has not taken yet (keys)
     ended      : the listener stream has ended
     kc         : key_counts : key -> Weak<Tracker>  (tracker ids; a tracker is "alive" iff
                  some yielded channel still holds it = its strong count is > 0)
     chans      : yielded, still-alive TrackedChannels (id, key, tracker id)
     notifs     : dropped_keys queue (a key is queued by Tracker::drop)
   `fixed` selects the pinned behaviour of poll_closed_channels (false: remove the entry
   unconditionally) or the repaired one (true: remove it only if its tracker is dead). *)
From Coq Require Import List Arith Bool.
Import ListNotations.

Definition key := nat.
Record chan := { c_id : nat; c_key : key; c_tid : nat }.
Record st := { arrivals : list key; ended : bool; kc : list (key * nat); chans : list chan;
               notifs : list key; next_tid : nat; next_cid : nat; lim : nat }.

Fixpoint lookup (k : key) (m : list (key * nat)) : option nat :=
  match m with [] => None | (k', v) :: r => if Nat.eqb k k' then Some v else lookup k r end.
Fixpoint remove_key (k : key) (m : list (key * nat)) : list (key * nat) :=
  match m with
  | [] => []
  | (k', v) :: r => if Nat.eqb k k' then remove_key k r else (k', v) :: remove_key k r
  end.
Definition set_key k v m := (k, v) :: remove_key k m.
Definition holders (t : nat) (cs : list chan) := filter (fun c => Nat.eqb (c_tid c) t) cs.
(* Arc::strong_count of tracker t *)
Definition strong (t : nat) (cs : list chan) := length (holders t cs).
(* number of live yielded channels with key k: what the property talks about *)
Definition alive (k : key) (cs : list chan) :=
  length (filter (fun c => Nat.eqb (c_key c) k) cs).

Inductive obs := OYield (cid : nat) (k : key) | OShed (k : key) | OPending | OEnd | OFuel.

Definition upd_kc (s : st) kc' :=
  {| arrivals := arrivals s; ended := ended s; kc := kc'; chans := chans s; notifs := notifs s;
     next_tid := next_tid s; next_cid := next_cid s; lim := lim s |}.

(* poll_closed_channels: Some s' = Ready(()), None = Pending *)
Definition poll_closed (fixed : bool) (s : st) : bool * st :=
  match notifs s with
  | [] => (false, s)
  | k :: r =>
    let dead := match lookup k (kc s) with
                | Some t => Nat.eqb (strong t (chans s)) 0
                | None => true end in
    let kc' := if fixed && negb dead then kc s else remove_key k (kc s) in
    (true, {| arrivals := arrivals s; ended := ended s; kc := kc'; chans := chans s; notifs := r;
              next_tid := next_tid s; next_cid := next_cid s; lim := lim s |})
  end.

(* a channel is yielded holding tracker t; fresh = a new tracker was created and stored *)
Definition accept (s : st) (k : key) (t : nat) (fresh : bool) : st :=
  {| arrivals := arrivals s; ended := ended s;
     kc := if fresh then set_key k t (kc s) else kc s;
     chans := {| c_id := next_cid s; c_key := k; c_tid := t |} :: chans s; notifs := notifs s;
     next_tid := if fresh then S (next_tid s) else next_tid s; next_cid := S (next_cid s);
     lim := lim s |}.

Definition pop_arrival (s : st) : st :=
  {| arrivals := tl (arrivals s); ended := ended s; kc := kc s; chans := chans s;
     notifs := notifs s; next_tid := next_tid s; next_cid := next_cid s; lim := lim s |}.

Inductive lres := LYield (cid : nat) | LShed | LPending | LEnd.

(* poll_listener + handle_new_channel + increment_channels_for_key *)
Definition poll_listener (s : st) : lres * st :=
  match arrivals s with
  | [] => (if ended s then LEnd else LPending, s)
  | k :: _ =>
    let s1 := pop_arrival s in
    match lookup k (kc s1) with
    | None => (LYield (next_cid s1), accept s1 k (next_tid s1) true)          (* Entry::Vacant *)
    | Some t =>
      let c := strong t (chans s1) in
      if lim s1 <=? c then (LShed, s1)                                      (* At open channel limit *)
      else if Nat.eqb c 0 then (LYield (next_cid s1), accept s1 k (next_tid s1) true)  (* upgrade() = None *)
      else (LYield (next_cid s1), accept s1 k t false)
    end
  end.

(* MaxChannelsPerKey::poll_next; the tuple is evaluated eagerly: listener first, then the
   notification queue, on every iteration. *)
Fixpoint poll (fixed : bool) (fuel : nat) (s : st) : list obs * st :=
  match fuel with
  | O => ([OFuel], s)
  | S f =>
    let k0 := hd 0 (arrivals s) in
    let '(l, s1) := poll_listener s in
    let '(c, s2) := poll_closed fixed s1 in
    match l with
    | LYield cid => ([OYield cid k0], s2)
    | LShed => let '(os, s3) := poll fixed f s2 in (OShed k0 :: os, s3)
    | LPending => if c then poll fixed f s2 else ([OPending], s2)
    | LEnd => if c then poll fixed f s2 else ([OEnd], s2)
    end
  end.

Inductive op := Arrive (k : key) | Close (cid : nat) | Poll | EndListener.

(* dropping a TrackedChannel: the Arc<Tracker> is released; the last one queues the key *)
Definition close (s : st) (cid : nat) : st :=
  match find (fun c => Nat.eqb (c_id c) cid) (chans s) with
  | None => s
  | Some c =>
    let cs := filter (fun c' => negb (Nat.eqb (c_id c') cid)) (chans s) in
    let n' := if Nat.eqb (strong (c_tid c) cs) 0 then notifs s ++ [c_key c] else notifs s in
    {| arrivals := arrivals s; ended := ended s; kc := kc s; chans := cs; notifs := n';
       next_tid := next_tid s; next_cid := next_cid s; lim := lim s |}
  end.

Definition poll_fuel (s : st) := S (S (length (arrivals s) + length (notifs s))).

Definition step (fixed : bool) (s : st) (o : op) : st * list obs :=
  match o with
  | Arrive k =>
    (if ended s then s else
     {| arrivals := arrivals s ++ [k]; ended := ended s; kc := kc s; chans := chans s;
        notifs := notifs s; next_tid := next_tid s; next_cid := next_cid s; lim := lim s |}, [])
  | Close cid => (close s cid, [])
  | Poll => let '(l, s') := poll fixed (poll_fuel s) s in (s', l)
  | EndListener =>
    ({| arrivals := arrivals s; ended := true; kc := kc s; chans := chans s; notifs := notifs s;
        next_tid := next_tid s; next_cid := next_cid s; lim := lim s |}, [])
  end.

Definition init (n : nat) :=
  {| arrivals := []; ended := false; kc := []; chans := []; notifs := [];
     next_tid := 0; next_cid := 0; lim := n |}.

(* run: the observation list of every op, in order, and the final state *)
Fixpoint run_from (fixed : bool) (s : st) (ops : list op) : list (list obs) * st :=
  match ops with
  | [] => ([], s)
  | o :: r => let '(s1, l) := step fixed s o in
              let '(ls, s2) := run_from fixed s1 r in (l :: ls, s2)
  end.
Definition run fixed n ops := run_from fixed (init n) ops.

(* ---------------------------------------------------------------------------------------- *)
(* The executable monitor for C13.  It sees only what an outside observer sees: the ops
   (arrivals, closes) and the observations (yields, sheds).  It keeps its own table of live
   yielded channels. *)
Definition live := list (nat * key).       (* cid, key *)
Definition live_count (k : key) (l : live) := length (filter (fun p => Nat.eqb (snd p) k) l).

Fixpoint mon_obs (n : nat) (l : live) (os : list obs) : bool * live :=
  match os with
  | [] => (true, l)
  | OYield cid k :: r =>
    if live_count k l <? n then mon_obs n ((cid, k) :: l) r else (false, l)   (* never more than n *)
  | OShed k :: r =>
    if Nat.eqb (live_count k l) n then mon_obs n l r else (false, l)           (* shed only at n *)
  | OFuel :: _ => (false, l)
  | _ :: r => mon_obs n l r
  end.

Fixpoint mon (n : nat) (l : live) (ops : list op) (tr : list (list obs)) : bool :=
  match ops, tr with
  | [], [] => true
  | o :: ops', os :: tr' =>
    let l1 := match o with
              | Close cid => filter (fun p => negb (Nat.eqb (fst p) cid)) l
              | _ => l end in
    let '(ok, l2) := mon_obs n l1 os in
    ok && mon n l2 ops' tr'
  | _, _ => false
  end.

Definition c13_ok (n : nat) (ops : list op) (tr : list (list obs)) : bool := mon n [] ops tr.

(* used by the correspondence check *)
Definition obs_eqb (a b : obs) : bool :=
  match a, b with
  | OYield c k, OYield c' k' => Nat.eqb c c' && Nat.eqb k k'
  | OShed k, OShed k' => Nat.eqb k k'
  | OPending, OPending | OEnd, OEnd | OFuel, OFuel => true
  | _, _ => false
  end.
