(* Chain proofs, C18 on the wire, client side.  What a dispatch poll writes into its link:
   - a request carries the span id drawn for it (named after its request id: every queued item
     has tc_sid = q_id) and the context of the queued item (ChainCli.cok: a head call's);
   - a cancellation is written only for an id that is in flight, with the context stored in the
     in-flight table, and an id is in flight only after its request was written successfully
     (insert_request + a failed send = removed again), so the same (id, trace, span) is already
     on the wire.
   Over the link transport Chain.ctp.  `A` is what node i had put on the wire before this poll;
   the transport log of the poll (plog) says what it has added so far. *)
From Coq Require Import List Bool Arith NArith Lia.
Import ListNotations.
From TarpcV Require Import Base Transport Client ClientLemmas ClientSimBase ClientProofsG1Frames.
From TarpcV Require Server Chain ChainCli.

Arguments N.modulo : simpl never.
Arguments N.add : simpl never.
Arguments N.mul : simpl never.
Arguments N.min : simpl never.
Arguments N.sub : simpl never.

Notation ctp := Chain.ctp.
Notation cst := (@cstate Chain.link).
Notation wtag := (nat * N * N * N)%type.

(* the monitor's bookkeeping (Chain.mon_wire), as functions on the list of wire records *)
Definition wadd (i : nat) (acc : list wtag) (w : Chain.wmsg) : list wtag :=
  match w with
  | Chain.WReq id _ tr sid _ => (i, id, tr, sid) :: acc
  | Chain.WCancel _ _ _ => acc
  end.
Definition wchk (Hs : list (N * N * N)) (i : nat) (acc : list wtag) (w : Chain.wmsg) : Prop :=
  match w with
  | Chain.WReq id dl tr sid body => sid = id /\ In (dl, tr, body) Hs
  | Chain.WCancel id tr sid => In (i, id, tr, sid) acc
  end.
Fixpoint wok (Hs : list (N * N * N)) (i : nat) (acc : list wtag) (l : list Chain.wmsg) : Prop :=
  match l with
  | [] => True
  | w :: r => wchk Hs i acc w /\ wok Hs i (wadd i acc w) r
  end.
Definition wacc (i : nat) (acc : list wtag) (l : list Chain.wmsg) : list wtag :=
  fold_left (wadd i) l acc.

Lemma wacc_app i acc l1 l2 : wacc i acc (l1 ++ l2) = wacc i (wacc i acc l1) l2.
Proof. apply fold_left_app. Qed.
Lemma wok_app Hs i l1 : forall acc l2,
  wok Hs i acc (l1 ++ l2) <-> wok Hs i acc l1 /\ wok Hs i (wacc i acc l1) l2.
Proof.
  induction l1 as [|w r IH]; intros acc l2; cbn [app wok wacc fold_left]; [tauto|].
  rewrite IH. unfold wacc. tauto.
Qed.
Lemma wacc_incl i l : forall acc x, In x acc -> In x (wacc i acc l).
Proof.
  induction l as [|w r IH]; intros acc x H; cbn [wacc fold_left]; [exact H|].
  apply IH. destruct w; cbn [wadd]; [right; exact H|exact H].
Qed.
Lemma wire_of_app l1 l2 : Chain.wire_of (l1 ++ l2) = Chain.wire_of l1 ++ Chain.wire_of l2.
Proof. unfold Chain.wire_of. apply flat_map_app. Qed.

Lemma incl_aremove {B} k (m : list (N * B)) : incl (aremove k m) m.
Proof. intros [k' v] H. apply In_aremove in H. tauto. Qed.

(* every queued request carries the span id named after its request id *)
Definition qsid (s : cst) : Prop := forall q, In q (queue s) -> tc_sid (q_tc q) = q_id q.
Definition wtrip (i : nat) (id : N) (e : ifentry) : wtag :=
  (i, id, Chain.trnum (if_tc e), tc_sid (if_tc e)).
(* between polls: every in-flight request is on the wire *)
Definition wn (i : nat) (acc : list wtag) (s : cst) : Prop :=
  qsid s /\ forall id e, In (id, e) (inflight s) -> In (wtrip i id e) acc.

Lemma wn_incl i acc acc' s : incl acc acc' -> wn i acc s -> wn i acc' s.
Proof. intros I [Q F]. split; [exact Q|]. intros id e H. apply I, F, H. Qed.

Section Wire.
  Variable Hs : list (N * N * N).
  Variable i : nat.
  Variable A : list wtag.
  Implicit Types s : cst.

  Record wst s : Prop := {
    ws_q : qsid s;
    ws_log : wok Hs i A (Chain.wire_of (plog s));
    ws_if : forall id e, In (id, e) (inflight s) ->
              In (wtrip i id e) (wacc i A (Chain.wire_of (plog s))) }.

  Lemma wst_sub s s' :
    plog s' = plog s -> incl (queue s') (queue s) -> incl (inflight s') (inflight s) ->
    wst s -> wst s'.
  Proof.
    intros E1 E2 E3 [Q L F]. constructor.
    - intros q Hq. apply Q, E2, Hq.
    - rewrite E1. exact L.
    - intros id e H. rewrite E1. apply F, E3, H.
  Qed.
  Lemma wst_eq s s' :
    plog s' = plog s -> queue s' = queue s -> inflight s' = inflight s -> wst s -> wst s'.
  Proof.
    intros E1 E2 E3. apply wst_sub; [exact E1|rewrite E2; apply incl_refl|rewrite E3; apply incl_refl].
  Qed.
  Lemma wst_TQ s s' : TFrame s s' -> QFrame s s' -> wst s -> wst s'.
  Proof.
    intros F G. apply wst_eq;
      [apply (if_plog _ _ (tf_i _ _ F))|apply (tf_queue _ _ F)|apply (qf_inflight _ _ G)].
  Qed.
  Lemma wst_slot_send s id o : wst s -> wst (slot_send s id o).
  Proof. apply wst_TQ; [apply TFrame_slot_send|apply QFrame_slot_send]. Qed.
  Lemma wst_slot_tx_drop s id : wst s -> wst (slot_tx_drop s id).
  Proof. apply wst_TQ; [apply TFrame_slot_tx_drop|apply QFrame_slot_tx_drop]. Qed.

  (* a transport call that writes nothing *)
  Lemma wst_log s s' c :
    XFrame s s' -> plog s' = plog s ++ [c] -> Chain.wire_of [c] = [] -> wst s -> wst s'.
  Proof.
    intros F E W [Q L I].
    assert (EW : Chain.wire_of (plog s') = Chain.wire_of (plog s))
      by (rewrite E, wire_of_app, W, app_nil_r; reflexivity).
    constructor.
    - intros q Hq. apply Q. rewrite <- (xf_queue _ _ F). exact Hq.
    - rewrite EW. exact L.
    - intros id e H. rewrite EW. apply I. rewrite <- (xf_inflight _ _ F). exact H.
  Qed.

  Lemma plog_do_send s m r s' : do_send ctp s m = (r, s') -> plog s' = plog s ++ [CSend m r].
  Proof. unfold do_send. destruct (t_send ctp (tr s) m). intros [= <- <-]. reflexivity. Qed.

  Lemma wst_do_ready s r s' : do_ready ctp s = (r, s') -> wst s -> wst s'.
  Proof.
    intro E. apply (wst_log s s' (CReady r)); [eapply XFrame_do_ready, E| |reflexivity].
    unfold do_ready in E. destruct (t_ready ctp (tr s)). injection E as <- <-. reflexivity.
  Qed.
  Lemma wst_do_flush s r s' : do_flush ctp s = (r, s') -> wst s -> wst s'.
  Proof.
    intro E. apply (wst_log s s' (CFlush r)); [eapply XFrame_do_flush, E| |reflexivity].
    unfold do_flush in E. destruct (t_flush ctp (tr s)). injection E as <- <-. reflexivity.
  Qed.
  Lemma wst_do_close s r s' : do_close ctp s = (r, s') -> wst s -> wst s'.
  Proof.
    intro E. apply (wst_log s s' (CClose r)); [eapply XFrame_do_close, E| |reflexivity].
    unfold do_close in E. destruct (t_close ctp (tr s)). injection E as <- <-. reflexivity.
  Qed.
  Lemma wst_do_next s r s' : do_next ctp s = (r, s') -> wst s -> wst s'.
  Proof.
    intros E H. pose proof (XFrame_do_next ctp _ _ _ E) as F.
    unfold do_next in E. destruct (fused s); [injection E as <- <-; exact H|].
    destruct (t_next ctp (tr s)) as [r0 t0]. injection E as <- <-.
    apply (wst_log s _ (CNext r0)); [exact F|reflexivity|reflexivity|exact H].
  Qed.

  Lemma wst_ensure_writeable s r s' : ensure_writeable ctp s = (r, s') -> wst s -> wst s'.
  Proof.
    intros E H. apply ensure_writeable_inv in E.
    destruct E as [r1 s1 E1 _|s1 s2 E1 E2|s1 s2 E1 E2|s1 s2 r3 s3 E1 E2 E3].
    - eapply wst_do_ready; eassumption.
    - eapply wst_do_flush; [eassumption|]. eapply wst_do_ready; eassumption.
    - eapply wst_do_flush; [eassumption|]. eapply wst_do_ready; eassumption.
    - eapply wst_do_ready; [eassumption|]. eapply wst_do_flush; [eassumption|].
      eapply wst_do_ready; eassumption.
  Qed.

  (* ---------------------------------------------------------------- the in-flight table *)
  Lemma wst_complete_request s id o : wst s -> wst (snd (complete_request s id o)).
  Proof.
    intro H. unfold complete_request. destruct (alookup id (inflight s)); cbn [snd]; [|exact H].
    apply wst_slot_send. eapply wst_sub; [..|exact H]; cbn [plog queue inflight upd_if];
      [reflexivity|apply incl_refl|apply incl_aremove].
  Qed.

  Lemma wst_poll_expired s : wst s -> wst (snd (poll_expired s)).
  Proof.
    intro H. unfold poll_expired. destruct (min_timer _ _) as [[id w]|]; [|exact H].
    destruct (N.leb w (now s)); [|exact H]. cbn [inflight upd_if].
    destruct (alookup id (inflight s)); cbn [snd].
    - apply wst_slot_send. eapply wst_sub; [..|exact H]; cbn [plog queue inflight timers upd_if];
        [reflexivity|apply incl_refl|apply incl_aremove].
    - eapply wst_eq; [..|exact H]; reflexivity.
  Qed.

  (* ---------------------------------------------------------------- the request queue *)
  Lemma wst_q_poll_recv s r s' :
    q_poll_recv s = (r, s') -> wst s ->
    wst s' /\ match r with RvSome q => tc_sid (q_tc q) = q_id q | _ => True end.
  Proof.
    unfold q_poll_recv. destruct (queue s) as [|x rest] eqn:Q.
    - destruct (Nat.eqb _ _); [intros [= <- <-]; auto|].
      destruct (_ && _); intros [= <- <-]; auto.
    - intros [= <- <-] H. split; [|apply H; rewrite Q; left; reflexivity].
      set (s1 := upd_q s (permits s) rest (waiters s) (rx_closed s)).
      pose proof (QFrame_release_permit s1) as F.
      eapply wst_sub; [| | |exact H].
      + rewrite (if_plog _ _ (qf_i _ _ F)). reflexivity.
      + rewrite queue_release_permit. cbn [queue upd_q s1]. rewrite Q. intros y Hy. right. exact Hy.
      + rewrite (qf_inflight _ _ F). apply incl_refl.
  Qed.

  Lemma wst_next_request_loop f : forall s r s',
    next_request_loop f s = (r, s') -> wst s ->
    wst s' /\ match r with PSome q => tc_sid (q_tc q) = q_id q | _ => True end.
  Proof.
    induction f as [|f IH]; intros s r s'; cbn [next_request_loop]; [intros [= <- <-]; auto|].
    destruct (q_poll_recv s) as [x s1] eqn:E. intros H0 H.
    destruct (wst_q_poll_recv _ _ _ E H) as [H1 Hq].
    destruct x as [q| |]; try (injection H0 as <- <-; auto).
    destruct (sl_rx_closed _).
    - eapply IH; [exact H0|]. apply wst_slot_tx_drop, H1.
    - injection H0 as <- <-. auto.
  Qed.

  (* the request writer: the one place that puts a request on the wire *)
  Lemma wst_poll_write_request s r s' :
    poll_write_request ctp s = (r, s') -> ChainCli.cok Hs s -> wst s -> wst s'.
  Proof.
    intros E K H. apply poll_write_request_inv in E.
    destruct E as [_|r1 s1 _ E1 _|r1 s1 s2 _ E1 E2 _|s1 q s2 w s3 _ E1 E2 E3].
    - exact H.
    - eapply wst_ensure_writeable; eassumption.
    - eapply wst_next_request_loop; [eassumption|]. eapply wst_ensure_writeable; eassumption.
    - pose proof (wst_ensure_writeable _ _ _ E1 H) as H1.
      pose proof (ChainCli.cok_ensure_writeable Hs _ _ _ E1 K) as K1.
      destruct (wst_next_request_loop _ _ _ _ E2 H1) as [[Q L I] Sq].
      destruct (ChainCli.cok_next_request_loop Hs _ _ _ _ E2 K1) as [_ Kq].
      pose proof (XFrame_do_send ctp _ _ _ _ E3) as F.
      pose proof (plog_do_send _ _ _ _ E3) as P. cbn [plog insert_request upd_if] in P.
      pose proof (xf_queue _ _ F) as EQ. cbn [queue insert_request upd_if] in EQ.
      pose proof (xf_inflight _ _ F) as EI. cbn [inflight insert_request upd_if] in EI.
      destruct w.
      + (* written *)
        constructor.
        * intros x Hx. apply Q. rewrite <- EQ. exact Hx.
        * rewrite P, wire_of_app. apply wok_app. split; [exact L|].
          unfold req_msg. cbn. split; [split; [exact Sq|exact Kq]|exact Logic.I].
        * intros id e Hin. rewrite EI in Hin. rewrite P, wire_of_app, wacc_app.
          unfold req_msg. cbn.
          apply In_aset in Hin. destruct Hin as [[-> ->]|[Hin _]]; [left; reflexivity|].
          right. apply I, Hin.
      + (* the send failed: the request leaves the in-flight table again *)
        assert (EW : Chain.wire_of (plog s3) = Chain.wire_of (plog s2)).
        { rewrite P, wire_of_app. unfold req_msg. cbn. apply app_nil_r. }
        unfold complete_request. rewrite EI.
        unfold aset at 1. cbn [alookup]. rewrite N.eqb_refl. cbn [snd].
        apply wst_slot_send. constructor; cbn [plog queue inflight upd_if].
        * intros x Hx. apply Q. rewrite <- EQ. exact Hx.
        * rewrite EW. exact L.
        * intros id e Hin. rewrite EW. apply In_aremove in Hin. destruct Hin as [Hin Hne].
          apply In_aset in Hin. destruct Hin as [[-> _]|[Hin _]]; [congruence|]. apply I, Hin.
  Qed.

  (* ---------------------------------------------------------------- the cancellation writer *)
  Lemma wst_next_cancel_loop f : forall s r s',
    next_cancel_loop f s = (r, s') -> wst s ->
    wst s' /\ match r with
              | PSome (id, e) => In (wtrip i id e) (wacc i A (Chain.wire_of (plog s')))
              | _ => True end.
  Proof.
    induction f as [|f IH]; intros s r s'; cbn [next_cancel_loop]; [intros [= <- <-]; auto|].
    unfold c_poll_recv. destruct (cancels s) as [|x rest].
    - destruct (Nat.eqb _ _); intros [= <- <-]; auto.
    - set (s1 := upd_cancels s rest). intros E H.
      assert (H1 : wst s1) by (eapply wst_eq; [..|exact H]; reflexivity).
      unfold cancel_request in E. destruct (alookup x (inflight s1)) as [e|] eqn:EL.
      + injection E as <- <-. split.
        * eapply wst_sub; [..|exact H1]; cbn [plog queue inflight upd_if];
            [reflexivity|apply incl_refl|apply incl_aremove].
        * cbn [plog upd_if]. apply H1. apply alookup_in, EL.
      + eapply IH; eassumption.
  Qed.

  Lemma wst_poll_write_cancel s r s' : poll_write_cancel ctp s = (r, s') -> wst s -> wst s'.
  Proof.
    intros E H. apply poll_write_cancel_inv in E.
    destruct E as [r1 s1 E1 _|r1 s1 s2 E1 E2 _|s1 id e s2 w s3 E1 E2 E3].
    - eapply wst_ensure_writeable; eassumption.
    - eapply wst_next_cancel_loop; [eassumption|]. eapply wst_ensure_writeable; eassumption.
    - pose proof (wst_ensure_writeable _ _ _ E1 H) as H1.
      destruct (wst_next_cancel_loop _ _ _ _ E2 H1) as [[Q L I] Hc].
      pose proof (XFrame_do_send ctp _ _ _ _ E3) as F.
      pose proof (plog_do_send _ _ _ _ E3) as P.
      assert (EA : wacc i A (Chain.wire_of (plog s3)) = wacc i A (Chain.wire_of (plog s2))).
      { rewrite P, wire_of_app, wacc_app. destruct w; reflexivity. }
      constructor.
      + intros x Hx. apply Q. rewrite <- (xf_queue _ _ F). exact Hx.
      + rewrite P, wire_of_app. apply wok_app. split; [exact L|].
        destruct w; cbn; [|exact Logic.I]. split; [exact Hc|exact Logic.I].
      + intros id0 e0 Hin. rewrite EA. apply I. rewrite <- (xf_inflight _ _ F). exact Hin.
  Qed.

  (* ---------------------------------------------------------------- the pump *)
  Lemma wst_pump_write s r s' :
    pump_write ctp s = (r, s') -> ChainCli.cok Hs s -> wst s -> wst s'.
  Proof.
    intros E K H. apply pump_write_inv in E.
    assert (PE : forall a e b, poll_expired a = (e, b) -> wst a -> wst b).
    { intros a e b Ee Ha. pose proof (wst_poll_expired a Ha) as F. rewrite Ee in F. exact F. }
    destruct E as [a s1 E1|u s1 E1|r1 s1 a s2 E1 _ E2|r1 s1 u s2 E1 _ E2
                  |r1 s1 r2 s2 id s3 E1 _ E2 _ E3|s1 s2 s3 c s4 E1 E2 E3 E4
                  |r1 s1 r2 s2 s3 f s4 E1 _ E2 _ _ E3 E4].
    - eapply wst_poll_write_request; eassumption.
    - eapply wst_poll_write_request; eassumption.
    - eapply wst_poll_write_cancel; [eassumption|]. eapply wst_poll_write_request; eassumption.
    - eapply wst_poll_write_cancel; [eassumption|]. eapply wst_poll_write_request; eassumption.
    - eapply PE; [eassumption|]. eapply wst_poll_write_cancel; [eassumption|].
      eapply wst_poll_write_request; eassumption.
    - eapply wst_do_close; [eassumption|]. eapply PE; [eassumption|].
      eapply wst_poll_write_cancel; [eassumption|]. eapply wst_poll_write_request; eassumption.
    - eapply wst_do_flush; [eassumption|]. eapply PE; [eassumption|].
      eapply wst_poll_write_cancel; [eassumption|]. eapply wst_poll_write_request; eassumption.
  Qed.

  Lemma wst_pump_read s r s' : pump_read ctp s = (r, s') -> wst s -> wst s'.
  Proof.
    intros E H. apply pump_read_inv in E. destruct E as (x & s1 & E1 & _ & ->).
    pose proof (wst_do_next _ _ _ E1 H) as H1.
    destruct x; try exact H1. unfold complete. apply wst_complete_request, H1.
  Qed.

  Lemma wst_run_loop f : forall s r s',
    run_loop ctp f s = (r, s') -> ChainCli.cok Hs s -> wst s -> wst s'.
  Proof.
    induction f as [|f IH]; intros s r s' E K H; [cbn in E; injection E as <- <-; exact H|].
    apply run_loop_inv in E.
    assert (RW : forall rd s1 wr s2, pump_read ctp s = (rd, s1) -> pump_write ctp s1 = (wr, s2) ->
                 ChainCli.cok Hs s2 /\ wst s2).
    { intros rd s1 wr s2 E1 E2. pose proof (ChainCli.cok_pump_read Hs _ _ _ E1 K) as K1. split.
      - eapply ChainCli.cok_pump_write; eassumption.
      - eapply wst_pump_write; [eassumption|exact K1|]. eapply wst_pump_read; eassumption. }
    destruct E as [a s1 E1|rd s1 a s2 E1 _ E2|s1 wr s2 E1 E2 _|rd s1 s2 E1 _ E2 _
                  |s1 wr s2 E1 E2 _|rd s1 wr s2 r s3 E1 E2 _ E3].
    - eapply wst_pump_read; eassumption.
    - eapply RW; eassumption.
    - eapply RW; eassumption.
    - eapply RW; eassumption.
    - eapply RW; eassumption.
    - destruct (RW _ _ _ _ E1 E2) as [K2 H2]. eapply IH; eassumption.
  Qed.

  (* ---------------------------------------------------------------- shutdown *)
  Lemma queue_fold_set_phase p (l : list nat) s :
    queue (fold_left (fun acc w => set_phase acc w p) l s) = queue s.
  Proof.
    revert s; induction l as [|w r IH]; intro s; cbn; [reflexivity|].
    rewrite IH. apply ChainCli.queue_set_phase.
  Qed.
  Lemma queue_q_close s : queue (q_close s) = queue s.
  Proof. unfold q_close. destruct (rx_closed s); [reflexivity|]. cbn. apply queue_fold_set_phase. Qed.
  Lemma wst_q_close s : wst s -> wst (q_close s).
  Proof.
    pose proof (QFrame_q_close s) as F. apply wst_eq;
      [apply (if_plog _ _ (qf_i _ _ F))|apply queue_q_close|apply (qf_inflight _ _ F)].
  Qed.
  Lemma wst_fold_slot_send {B} (g : B -> N) o (l : list B) s :
    wst s -> wst (fold_left (fun acc p => slot_send acc (g p) o) l s).
  Proof. revert s; induction l as [|x r IH]; intros s H; cbn; [exact H|]. apply IH, wst_slot_send, H. Qed.
  Lemma wst_drain_loop f a : forall s, wst s -> wst (snd (drain_loop f a s)).
  Proof.
    induction f as [|f IH]; intros s H; cbn [drain_loop]; [exact H|].
    destruct (q_poll_recv s) as [x s1] eqn:E. destruct (wst_q_poll_recv _ _ _ E H) as [H1 _].
    destruct x; cbn [snd]; try exact H1. apply IH, wst_slot_send, H1.
  Qed.
  Lemma wst_shut_down s a : wst s -> wst (snd (shut_down s a)).
  Proof.
    intro H. unfold shut_down. apply wst_drain_loop. unfold complete_all.
    apply wst_fold_slot_send. eapply wst_sub; [..|apply wst_q_close, H]; cbn [plog queue inflight upd_if];
      [reflexivity|apply incl_refl|intros x []].
  Qed.

  Lemma wst_poll_dispatch f s r s' :
    poll_dispatch ctp f s = (r, s') -> ChainCli.cok Hs s -> wst s -> wst s'.
  Proof.
    unfold poll_dispatch. intros E K H. destruct (terminal s) as [a|].
    - pose proof (wst_shut_down s a H) as W. destruct (shut_down s a) as [b s1].
      destruct b; injection E as <- <-; exact W.
    - destruct (run_loop ctp f s) as [rr s1] eqn:Er. pose proof (wst_run_loop _ _ _ _ Er K H) as H1.
      destruct rr; try (injection E as <- <-; exact H1).
      assert (H2 : wst (upd_term s1 (Some a))) by (eapply wst_eq; [..|exact H1]; reflexivity).
      pose proof (wst_shut_down _ a H2) as W. destruct (shut_down _ a) as [b s3].
      destruct b; injection E as <- <-; exact W.
  Qed.
End Wire.

(* ------------------------------------------------------------------------------------------ *)
(* the user side: the span id is drawn in poll_call; nothing else touches queue or in-flight *)
Section User.
  Implicit Types s : cst.

  Lemma qsid_eq s s' : queue s' = queue s -> qsid s -> qsid s'.
  Proof. intros E Q q Hq. apply Q. rewrite <- E. exact Hq. Qed.

  Lemma queue_T s s' : TFrame s s' -> queue s' = queue s.
  Proof. intro F. apply (tf_queue _ _ F). Qed.
  Lemma queue_push_cancel s id : queue (push_cancel s id) = queue s.
  Proof. unfold push_cancel. destruct (dropped s); reflexivity. Qed.
  Lemma queue_poll_slot s i id : queue (snd (poll_slot s i id)) = queue s.
  Proof.
    unfold poll_slot. destruct (sl_val _); cbn [snd].
    - rewrite ChainCli.queue_set_phase. apply queue_T, TFrame_slot_rx_close.
    - destruct (sl_tx_gone _); cbn [snd]; [|reflexivity].
      rewrite ChainCli.queue_set_phase. apply queue_T, TFrame_slot_rx_close.
  Qed.
  Lemma queue_fail_shutdown s i id : queue (snd (fail_shutdown s i id)) = queue s.
  Proof.
    unfold fail_shutdown. cbn [snd]. rewrite ChainCli.queue_set_phase, queue_push_cancel.
    rewrite (queue_T _ _ (TFrame_slot_rx_close _ _)). apply queue_T, TFrame_slot_tx_drop.
  Qed.
  Lemma qsid_enqueue s i c id tc : qsid s -> tc_sid tc = id -> qsid (snd (enqueue s i c id tc)).
  Proof.
    intros Q E. unfold enqueue. eapply qsid_eq; [apply queue_poll_slot|].
    eapply qsid_eq; [apply ChainCli.queue_set_phase|]. cbn [queue upd_q].
    intros q Hq. apply in_app_or in Hq. destruct Hq as [Hq|[<-|[]]]; [apply Q, Hq|exact E].
  Qed.

  Lemma qsid_poll_call s i : qsid s -> qsid (snd (poll_call s i)).
  Proof.
    intro H. unfold poll_call. destruct (nth_error (calls s) i) as [c|]; [|exact H].
    destruct (c_phase c); try exact H.
    - set (s0 := with_id _ i c (next_id s)). set (s1 := set_slot s0 (next_id s) slot0).
      assert (H1 : qsid s1) by (eapply qsid_eq; [|exact H]; reflexivity).
      destruct (rx_closed s1); [eapply qsid_eq; [apply queue_fail_shutdown|exact H1]|].
      destruct (permits s1) as [|p].
      + cbn [snd]. eapply qsid_eq; [apply ChainCli.queue_set_phase|]. eapply qsid_eq; [|exact H1]. reflexivity.
      + apply qsid_enqueue; [eapply qsid_eq; [|exact H1]; reflexivity|reflexivity].
    - destruct (rx_closed s).
      + eapply qsid_eq; [apply queue_fail_shutdown|]. eapply qsid_eq; [|exact H]. reflexivity.
      + apply qsid_enqueue; [exact H|reflexivity].
    - eapply qsid_eq; [apply queue_fail_shutdown|exact H].
    - eapply qsid_eq; [apply queue_poll_slot|exact H].
  Qed.

  Lemma queue_guard_close s i : queue (guard_close s i) = queue s.
  Proof.
    unfold guard_close. destruct (nth_error (calls s) i) as [c|]; [|reflexivity].
    destruct (c_phase c); try reflexivity; rewrite ?ChainCli.queue_set_phase;
      rewrite ?(queue_T _ _ (TFrame_slot_rx_close _ _)), ?(queue_T _ _ (TFrame_slot_tx_drop _ _));
      try reflexivity.
    destruct (rx_closed _); [cbn [queue upd_q]|rewrite queue_release_permit];
      first [reflexivity|apply ChainCli.queue_set_phase].
  Qed.
  Lemma queue_guard_cancel s i : queue (guard_cancel s i) = queue s.
  Proof.
    unfold guard_cancel. destruct (nth_error (calls s) i) as [c|]; [|reflexivity].
    destruct (c_phase c); try reflexivity. rewrite ChainCli.queue_set_phase. apply queue_push_cancel.
  Qed.

  Variable fuel_of : cst -> nat.

  Lemma op_eq_drop (o : op (T := Chain.link)) : o = DropDispatch \/ o <> DropDispatch.
  Proof. destruct o; try (right; discriminate). left; reflexivity. Qed.

  (* every op but a dispatch poll *)
  Lemma wn_step i acc s o s' os :
    step ctp fuel_of s o = (s', os) -> o <> PollDispatch -> wn i acc s -> wn i acc s'.
  Proof.
    intros E N [Q F].
    destruct (op_eq_drop o) as [->|ND].
    - cbn [step] in E. injection E as <- _. destruct (dropped s); [split; assumption|].
      unfold drop_dispatch. split; [intros q []|intros id e []].
    - pose proof (UFrame_step ctp fuel_of _ _ _ _ E N ND) as U. split.
      + destruct o; cbn [step] in E; try congruence.
        * injection E as <- _. destruct (nth_error _ _) as [[|]|]; exact Q.
        * injection E as <- _. destruct (nth_error _ _) as [[|]|]; exact Q.
        * injection E as <- _. exact Q.
        * pose proof (qsid_poll_call s i0 Q) as K. destruct (poll_call s i0) as [r s1]. injection E as <- _. exact K.
        * injection E as <- _. destruct (option_map _ _) as [[]|]; try exact Q;
            (eapply qsid_eq; [rewrite queue_guard_cancel; apply queue_guard_close|exact Q]).
        * injection E as <- _. destruct (option_map _ _) as [[]|]; try exact Q;
            (eapply qsid_eq; [apply queue_guard_close|exact Q]).
        * injection E as <- _. eapply qsid_eq; [apply queue_guard_cancel|exact Q].
        * injection E as <- _. exact Q.
        * injection E as <- _. exact Q.
      + intros id e H. apply F. rewrite <- (uf_inflight _ _ U). exact H.
  Qed.

  (* a dispatch poll: what it wrote is well formed, and what is then in flight is on the wire *)
  Lemma wn_step_dispatch Hs i acc s s' os :
    step ctp fuel_of s PollDispatch = (s', os) -> ChainCli.cok Hs s -> wn i acc s ->
    (os = [] /\ wn i acc s') \/
    (exists l r a b, os = [OCalls l; ODisp r; OGauge a b] /\
       wok Hs i acc (Chain.wire_of l) /\ wn i (wacc i acc (Chain.wire_of l)) s').
  Proof.
    cbn [step]. intros E K [Q F].
    destruct (finished s); [injection E as <- <-; left; split; [reflexivity|split; assumption]|].
    destruct (dropped s); [injection E as <- <-; left; split; [reflexivity|split; assumption]|].
    set (s0 := upd_tr s (tr s) (fused s) []) in *.
    assert (K0 : ChainCli.cok Hs s0) by (eapply ChainCli.cok_eq; [..|exact K]; reflexivity).
    assert (W0 : wst Hs i acc s0).
    { constructor; [exact Q|exact Logic.I|]. intros id e H. cbn. apply F, H. }
    destruct (poll_dispatch ctp (fuel_of s0) s0) as [r s1] eqn:Ep.
    pose proof (wst_poll_dispatch Hs i acc _ _ _ _ Ep K0 W0) as [Q1 L1 I1].
    injection E as <- <-. right. unfold gauges. eexists _, _, _, _. split; [reflexivity|].
    split; [exact L1|]. split.
    - intros q Hq. apply Q1. destruct r; exact Hq.
    - intros id e H. apply I1. destruct r; exact H.
  Qed.
End User.
