(* Executable monitors for the server-side properties (C04, C06, C08, C12 and the server halves
   of C09, C10, C11, C14).  No proofs in this file.

   All monitors are projections of ONE observer.  The observer sees only what an outside
   observer sees: the ops (what peer, application, clock and transport-environment do) and the
   observations (transport call log of every poll, yields, handler events, gauges).  It keeps
   its own table of handler incarnations with a three-valued view of whether the channel still
   tracks each one:

     WOpen      surely tracked   (yielded; no response written, no Cancel read, guard not
                                  dropped, deadline timer not due)
     WMaybe     may be tracked   (timer due, or guard dropped: the channel forgets it at a later
                                  poll; which poll is not observable)
     WAnswered / WCancelled / WClosed   surely not tracked (response written / Cancel read /
                                  a complete channel poll happened since it became WMaybe, or a
                                  new request with its id was accepted)

   A Requests poll is *complete* when it returns Pending or end-of-stream after the inner
   BaseChannel::poll_next ran to Pending/None; it is *blocked* when MaxRequests returned Pending
   from `poll_ready` (at its limit, sink not ready) without polling the inner channel: finding K2.
   The full-strength monitors demand that a blocked poll, too, processes expiry and server-side
   cancels (they reject K2 traces); the `_rel` variants exempt exactly the obligations that arise
   from blocked polls (C06, C11) and from capacity freed earlier in the same Requests poll (C12, K1). *)
From Coq Require Import List Bool Arith NArith.
Import ListNotations.
From TarpcV Require Import Base Transport TimerWheel Server.

Inductive wstate := WOpen | WMaybe | WAnswered | WCancelled | WClosed.
Inductive ophase := PFresh | PStarted | PEnded.

Record oinc := mkoi {
  oi_id : N; oi_dl : N; oi_when : N;
  oi_done : option rbody;       (* the handler completed with this body *)
  oi_ph : ophase;               (* InFlightRequest held / execute() running / over *)
  oi_wire : wstate;
  oi_late : bool }.             (* its timer was due at a blocked poll (full-strength C06 only) *)

Definition is_open (w : wstate) : bool := match w with WOpen | WMaybe => true | _ => false end.
Definition is_must (w : wstate) : bool := match w with WOpen => true | _ => false end.

Record verdicts := mkv {
  v08 : bool;        (* C08: yields/ignores/answers match the requests read *)
  v04 : bool;        (* C04: nothing happens for an incarnation after its Cancel was read *)
  v06e : bool;       (* C06: no abort before the deadline timer is due *)
  v06l : bool;       (* C06: no handler progress after a poll that had to process its expiry (full) *)
  v06l_rel : bool;   (*      the same, blocked polls exempt *)
  v11 : bool;        (* C11 server: gauge bounds, timers = in flight, equality after every idle poll (full) *)
  v11_rel : bool;    (*      the same, blocked polls exempt *)
  v12a : bool;       (* C12: never more than L in flight after a yield *)
  v12b : bool;       (* C12: a throttle reply answers the request just read, which is not yielded *)
  v12c : bool;       (* C12: refused only with L in flight when read (full) *)
  v12c_rel : bool;   (*      the same, capacity freed earlier in the same Requests poll exempt *)
  v09 : bool;        (* C09 server: faults are reported with their activity; no panic; drop aborts *)
  v10 : bool;        (* C10 server: end of stream only after eof, nothing in flight, flushed *)
  h_b1 : bool;       (* hypothesis reuse_only_after_completion held so far *)
  h_stop : bool;     (* hypothesis stops_after_error: no poll after the stream yielded an error *)
  c_k1 : bool;       (* class FreedInSamePoll occurred *)
  c_k2 : bool;       (* class LimiterBlockedOnSink occurred *)
  c_err : bool;      (* a poll returned a stream error (then no further poll is checked) *)
  v_bad : bool }.    (* OFuel / OPanic / malformed trace *)

Definition v0 : verdicts :=
  mkv true true true true true true true true true true true true true true true false false false false.

Record ostate := mko {
  o_incs : list oinc;
  o_now : N;
  o_gauge : nat;                       (* in-flight gauge after the previous op *)
  o_dropped : bool;
  o_eof : bool;                        (* the transport reported end of stream *)
  o_dirty : bool;                      (* written since the last completed flush *)
  (* per poll *)
  o_pend : option (N * N * N * N);     (* request read, not yet classified: id dl tr body *)
  o_first : bool;                      (* no call seen yet in this poll *)
  o_after_thr : bool;                  (* the previous call was a throttle write *)
  o_blocked : bool;                    (* MaxRequests' poll_ready answered Pending in this poll *)
  o_freed : bool;                      (* capacity may have been freed earlier in this poll: a Cancel for a request that may
                                          have been tracked was read, or an expiry / server-side cancel was due at its start *)
  o_errcall : option activity;         (* a transport call of this poll answered Err *)
  o_v : verdicts }.

Definition o_init : ostate :=
  mko [] 0%N 0 false false false None true false false false None v0.

(* ---- small setters ---------------------------------------------------------------------- *)
Definition with_v (o : ostate) (v : verdicts) : ostate :=
  mko (o_incs o) (o_now o) (o_gauge o) (o_dropped o) (o_eof o) (o_dirty o) (o_pend o) (o_first o)
      (o_after_thr o) (o_blocked o) (o_freed o) (o_errcall o) v.
Definition with_incs (o : ostate) (l : list oinc) : ostate :=
  mko l (o_now o) (o_gauge o) (o_dropped o) (o_eof o) (o_dirty o) (o_pend o) (o_first o)
      (o_after_thr o) (o_blocked o) (o_freed o) (o_errcall o) (o_v o).
Definition with_pend (o : ostate) (p : option (N * N * N * N)) : ostate :=
  mko (o_incs o) (o_now o) (o_gauge o) (o_dropped o) (o_eof o) (o_dirty o) p (o_first o)
      (o_after_thr o) (o_blocked o) (o_freed o) (o_errcall o) (o_v o).
(* flags that change at every call *)
Definition with_call (o : ostate) (after_thr blocked freed : bool) (dirty eof : bool)
  (errc : option activity) : ostate :=
  mko (o_incs o) (o_now o) (o_gauge o) (o_dropped o) eof dirty (o_pend o) false
      after_thr blocked freed errc (o_v o).

Definition vand (v : verdicts) (f08 f04 f06e f06l f06lr f11 f11r f12a f12b f12c f12cr f09 f10 : bool)
  : verdicts :=
  mkv (v08 v && f08) (v04 v && f04) (v06e v && f06e) (v06l v && f06l) (v06l_rel v && f06lr)
      (v11 v && f11) (v11_rel v && f11r) (v12a v && f12a) (v12b v && f12b) (v12c v && f12c)
      (v12c_rel v && f12cr) (v09 v && f09) (v10 v && f10) (h_b1 v) (h_stop v) (c_k1 v) (c_k2 v) (c_err v)
      (v_bad v).
Definition chk08 (o : ostate) (b : bool) := with_v o (vand (o_v o) b true true true true true true true true true true true true).
Definition chk04 (o : ostate) (b : bool) := with_v o (vand (o_v o) true b true true true true true true true true true true true).
Definition chk06e (o : ostate) (b : bool) := with_v o (vand (o_v o) true true b true true true true true true true true true true).
Definition chk06l (o : ostate) (full rel : bool) := with_v o (vand (o_v o) true true true full rel true true true true true true true true).
Definition chk11 (o : ostate) (full rel : bool) := with_v o (vand (o_v o) true true true true true full rel true true true true true true).
Definition chk12a (o : ostate) (b : bool) := with_v o (vand (o_v o) true true true true true true true b true true true true true).
Definition chk12b (o : ostate) (b : bool) := with_v o (vand (o_v o) true true true true true true true true b true true true true).
Definition chk12c (o : ostate) (full rel : bool) := with_v o (vand (o_v o) true true true true true true true true true full rel true true).
Definition chk09 (o : ostate) (b : bool) := with_v o (vand (o_v o) true true true true true true true true true true true b true).
Definition chk10 (o : ostate) (b : bool) := with_v o (vand (o_v o) true true true true true true true true true true true true b).
Definition set_flags (o : ostate) (hb1 hstop ck1 ck2 cerr bad : bool) : ostate :=
  let v := o_v o in
  with_v o (mkv (v08 v) (v04 v) (v06e v) (v06l v) (v06l_rel v) (v11 v) (v11_rel v) (v12a v) (v12b v)
                (v12c v) (v12c_rel v) (v09 v) (v10 v) (h_b1 v && hb1) (h_stop v && hstop)
                (c_k1 v || ck1) (c_k2 v || ck2) (c_err v || cerr) (v_bad v || bad)).
Definition hyp_b1 (o : ostate) (b : bool) := set_flags o b true false false false false.
Definition hyp_stop (o : ostate) (b : bool) := set_flags o true b false false false false.
Definition cls_k1 (o : ostate) (b : bool) := set_flags o true true b false false false.
Definition cls_k2 (o : ostate) (b : bool) := set_flags o true true false b false false.
Definition mark_err (o : ostate) := set_flags o true true false false true false.
Definition mark_bad (o : ostate) := set_flags o true true false false false true.

(* ---- the incarnation table --------------------------------------------------------------- *)
Definition set_wire (i : oinc) (w : wstate) : oinc :=
  mkoi (oi_id i) (oi_dl i) (oi_when i) (oi_done i) (oi_ph i) w (oi_late i).
Definition set_ph (i : oinc) (p : ophase) : oinc :=
  mkoi (oi_id i) (oi_dl i) (oi_when i) (oi_done i) p (oi_wire i) (oi_late i).
Definition set_done (i : oinc) (b : rbody) : oinc :=
  mkoi (oi_id i) (oi_dl i) (oi_when i) (Some b) (oi_ph i) (oi_wire i) (oi_late i).
Definition set_late (i : oinc) : oinc :=
  mkoi (oi_id i) (oi_dl i) (oi_when i) (oi_done i) (oi_ph i) (oi_wire i) true.

Fixpoint upd_nth (k : nat) (f : oinc -> oinc) (l : list oinc) : list oinc :=
  match l, k with
  | [], _ => []
  | x :: r, O => f x :: r
  | x :: r, S k' => x :: upd_nth k' f r
  end.

(* index of the last incarnation with this id that the channel may still track *)
Fixpoint last_open_from (id : N) (k : nat) (l : list oinc) (acc : option nat) : option nat :=
  match l with
  | [] => acc
  | x :: r => last_open_from id (S k) r
                (if N.eqb (oi_id x) id && is_open (oi_wire x) then Some k else acc)
  end.
Definition last_open (id : N) (l : list oinc) : option nat := last_open_from id 0 l None.
(* the last incarnation with this id, whatever its state *)
Fixpoint last_any_from (id : N) (l : list oinc) (acc : option oinc) : option oinc :=
  match l with
  | [] => acc
  | x :: r => last_any_from id r (if N.eqb (oi_id x) id then Some x else acc)
  end.
Definition last_any (id : N) (l : list oinc) : option oinc := last_any_from id l None.

Definition count_open (l : list oinc) : nat := length (filter (fun i => is_open (oi_wire i)) l).
Definition count_must (l : list oinc) : nat := length (filter (fun i => is_must (oi_wire i)) l).

(* every WOpen incarnation whose timer is due becomes WMaybe *)
Definition age (now : N) (l : list oinc) : list oinc :=
  map (fun i => match oi_wire i with
                | WOpen => if N.leb (oi_when i) now then set_wire i WMaybe else i
                | _ => i end) l.
(* a complete poll: the channel has forgotten everything it might have had to forget *)
Definition settle (l : list oinc) : list oinc :=
  map (fun i => match oi_wire i with WMaybe => set_wire i WClosed | _ => i end) l.
(* a blocked poll: whatever was due should have been aborted by now (full-strength C06) *)
Definition mark_late (now : N) (l : list oinc) : list oinc :=
  map (fun i => if is_open (oi_wire i) && N.leb (oi_when i) now then set_late i else i) l.
Definition any_maybe (l : list oinc) : bool :=
  existsb (fun i => match oi_wire i with WMaybe => true | _ => false end) l.

(* ---- classification of a request that was read -------------------------------------------- *)
(* the request read earlier turned out to be ignored (the channel went on reading) *)
Definition resolve_ignored (o : ostate) : ostate :=
  match o_pend o with
  | None => o
  | Some (id, _, _, _) =>
    (* ignored only if its id may still be tracked *)
    let ok := match last_open id (o_incs o) with Some _ => true | None => false end in
    with_pend (chk08 o ok) None
  end.

(* an accepted request (yielded or throttled): its id must not be surely tracked; an older
   incarnation of that id which might still have been tracked is now known to be gone *)
Definition accept_id (id : N) (o : ostate) : ostate :=
  match last_open id (o_incs o) with
  | None => o
  | Some k =>
    let must := match nth_error (o_incs o) k with
                | Some i => is_must (oi_wire i) | None => false end in
    with_incs (chk08 o (negb must)) (upd_nth k (fun i => set_wire i WClosed) (o_incs o))
  end.

(* ---- one transport call of a Requests poll ------------------------------------------------ *)
Definition o_call (lim : option nat) (o : ostate) (c : call) : ostate :=
  (* a call after one that answered Err: the poll should have returned (C09) *)
  let o := match o_errcall o with Some _ => chk09 o false | None => o end in
  let at_limit := match lim with Some l => Nat.leb l (o_gauge o) | None => false end in
  match c with
  | CReady r =>
    let maxreq_ready := match lim with
                        | Some _ => (o_first o && at_limit) || o_after_thr o
                        | None => false end in
    let blocked := o_blocked o || (maxreq_ready && match r with TPending => true | _ => false end) in
    with_call o false blocked (o_freed o) (o_dirty o) (o_eof o)
              (match r with TErr => Some AReady | _ => o_errcall o end)
  | CFlush r =>
    with_call o false (o_blocked o) (o_freed o)
              (match r with TOk => false | _ => o_dirty o end) (o_eof o)
              (match r with TErr => Some AFlush | _ => o_errcall o end)
  | CClose _ => with_call (chk09 o false) false (o_blocked o) (o_freed o) (o_dirty o) (o_eof o) (o_errcall o)
  | CNext r =>
    let o1 := resolve_ignored o in
    match r with
    | RItem (MReq id dl tr body) =>
      (* hypothesis reuse_only_after_completion: the id is new, or its last incarnation was
         answered, or it is surely still in flight (a duplicate) *)
      let hyp := match last_any id (o_incs o1) with
                 | None => true
                 | Some i => match oi_wire i with WAnswered | WOpen => true | _ => false end
                 end in
      with_call (with_pend (hyp_b1 o1 hyp) (Some (id, dl, tr, body)))
                false (o_blocked o1) (o_freed o1) (o_dirty o1) (o_eof o1) (o_errcall o1)
    | RItem (MCancel id _) =>
      let o2 := match last_open id (o_incs o1) with
                | Some k => with_incs o1 (upd_nth k (fun i => set_wire i WCancelled) (o_incs o1))
                | None => o1 end in
      let freed := match last_open id (o_incs o1) with Some _ => true | None => o_freed o1 end in
      with_call o2 false (o_blocked o2) freed (o_dirty o2) (o_eof o2) (o_errcall o2)
    | REof => with_call o1 false (o_blocked o1) (o_freed o1) (o_dirty o1) true (o_errcall o1)
    | RErr => with_call o1 false (o_blocked o1) (o_freed o1) (o_dirty o1) (o_eof o1) (Some ARead)
    | RPending => with_call o1 false (o_blocked o1) (o_freed o1) (o_dirty o1) (o_eof o1) (o_errcall o1)
    end
  | CSend m r =>
    let dirty := match r with SOk => true | SErr => o_dirty o end in
    let errc := match r with SErr => Some AWrite | SOk => o_errcall o end in
    match resp_body m with
    | BThrottle =>
      (* C12 (b): answers exactly the request just read; (a limit must be configured) *)
      let matches := match o_pend o, lim with
                     | Some (id, _, _, _), Some _ => N.eqb id (resp_id m)
                     | _, _ => false end in
      let o1 := with_pend (accept_id (resp_id m) (chk12b o matches)) None in
      (* C12 (c): refused only with L possibly in flight *)
      let enough := match lim with Some l => Nat.leb l (count_open (o_incs o1)) | None => false end in
      let o2 := chk12c o1 enough (enough || o_freed o1) in
      let o3 := cls_k1 o2 (negb enough && o_freed o1) in
      with_call o3 true (o_blocked o3) (o_freed o3) dirty (o_eof o3) errc
    | b =>
      (* C08: a response answers an incarnation that may still be tracked and whose handler
         completed with exactly this body *)
      let o1 := match last_open (resp_id m) (o_incs o) with
                | Some k =>
                  let okb := match nth_error (o_incs o) k with
                             | Some i => match oi_done i with
                                         | Some b' => rbody_eqb b b' | None => false end
                             | None => false end in
                  with_incs (chk08 o okb) (upd_nth k (fun i => set_wire i WAnswered) (o_incs o))
                | None => chk08 o false
                end in
      with_call o1 false (o_blocked o1) (o_freed o1) dirty (o_eof o1) errc
    end
  end.

Definition o_calls (lim : option nat) (o : ostate) (l : list call) : ostate :=
  fold_left (o_call lim) l o.

(* ---- the result of a Requests poll -------------------------------------------------------- *)
Definition start_poll (o : ostate) : ostate :=
  mko (o_incs o) (o_now o) (o_gauge o) (o_dropped o) (o_eof o) (o_dirty o) None true false false
      (any_maybe (o_incs o)) None (o_v o).

Definition when_of (now dl : N) : N := (now + N.min (dl - now) MAX_TIMEOUT)%N.

(* Pending / end of stream: every request read was classified; complete unless blocked *)
Definition finish_idle (o : ostate) : ostate :=
  let o1 := chk08 o (match o_pend o with None => true | Some _ => false end) in
  let o2 := chk09 o1 (match o_errcall o1 with None => true | Some _ => false end) in
  if o_blocked o2 then
    cls_k2 (with_incs o2 (mark_late (o_now o2) (o_incs o2))) true
  else with_incs o2 (settle (o_incs o2)).

Definition o_result (o : ostate) (r : obs) : ostate :=
  match r with
  | OYield k id dl tr body =>
    (* C08: the yielded request is the one just read; k numbers the yields *)
    let ok := match o_pend o with
              | Some (id', dl', tr', body') =>
                N.eqb id id' && N.eqb dl dl' && N.eqb tr tr' && N.eqb body body'
              | None => false end in
    let o1 := chk09 (chk08 o (ok && Nat.eqb k (length (o_incs o))))
                    (match o_errcall o with None => true | Some _ => false end) in
    let o2 := accept_id id o1 in
    let w := when_of (o_now o2) dl in
    with_pend
      (with_incs o2 (o_incs o2 ++ [mkoi id dl w None PFresh
                                        (if N.leb w (o_now o2) then WMaybe else WOpen) false]))
      None
  | OPending => finish_idle o
  | OStreamEnd =>
    (* C10: only after end of stream was read and with everything flushed *)
    finish_idle (chk10 o (o_eof o && negb (o_dirty o)))
  | OStreamErr a =>
    (* C09: names the activity of the call that failed, which is the last call of the poll *)
    let ok := match o_errcall o with Some a' => activity_eqb a a' | None => false end in
    (* the request just read, if any, is dropped together with its armed guard; nothing that
       happens on the channel is checked after this point (stops_after_error) *)
    mark_err (with_pend (chk09 o ok) None)
  | _ => mark_bad o
  end.

(* gauges after an op *)
Definition o_gauges (settled blocked : bool) (o : ostate) (a b : nat) : ostate :=
  let lo := count_must (o_incs o) in
  let hi := count_open (o_incs o) in
  let bound := Nat.leb lo a && Nat.leb a hi && Nat.eqb a b in
  (* after an idle poll the count is exact; a blocked poll may leave it too high (K2) *)
  let exact := Nat.eqb a lo && Nat.eqb a hi in
  let o1 := if settled then chk11 o (bound && exact) bound
            else if blocked then chk11 o (bound && Nat.eqb a lo) bound
            else chk11 o bound bound in
  mko (o_incs o1) (o_now o1) a (o_dropped o1) (o_eof o1) (o_dirty o1) (o_pend o1) (o_first o1)
      (o_after_thr o1) (o_blocked o1) (o_freed o1) (o_errcall o1) (o_v o1).

(* ---- handler events ----------------------------------------------------------------------- *)
Definition o_hevent (o : ostate) (e : obs) : ostate :=
  match e with
  | OHPolled k =>
    match nth_error (o_incs o) k with
    | Some i =>
      (* C04/C06/C09: no progress once the channel has surely forgotten the request (Cancel read,
         expiry processed) or was dropped; C06 full: nor once its timer was due at a blocked poll *)
      let closed := negb (is_open (oi_wire i)) in
      let cancelled := match oi_wire i with WCancelled => true | _ => false end in
      let o1 := chk04 o (negb cancelled) in
      let o2 := chk06l o1 (negb (closed && negb cancelled) && negb (oi_late i))
                          (negb (closed && negb cancelled)) in
      let o3 := chk09 o2 (negb (o_dropped o2)) in
      with_incs o3 (upd_nth k (fun i => set_ph i PStarted) (o_incs o3))
    | None => mark_bad o
    end
  | OHDone k b => with_incs o (upd_nth k (fun i => set_done i b) (o_incs o))
  | OExecReady k =>
    match nth_error (o_incs o) k with
    | Some i =>
      (* C06 early: execute() ended although the handler never completed: it was aborted.
         Only after its Cancel was read, its timer became due, or the channel was dropped. *)
      let aborted := match oi_done i with None => true | Some _ => false end in
      let licensed := match oi_wire i with
                      | WOpen => o_dropped o
                      | _ => true end in
      with_incs (chk06e o (negb aborted || licensed))
                (upd_nth k (fun i => set_ph i PEnded) (o_incs o))
    | None => mark_bad o
    end
  | OHDropped _ | OExecPending _ | OGauges _ _ => o
  | OOracle => o
  | _ => mark_bad o
  end.

(* ---- one op ------------------------------------------------------------------------------- *)
Definition split_gauges (l : list obs) : list obs * option (nat * nat) :=
  match rev l with
  | OOracle :: OGauges a b :: r => (rev r, Some (a, b))
  | OGauges a b :: r => (rev r, Some (a, b))
  | _ => (l, None)
  end.

Definition guard_dropped (k : nat) (need : ophase) (o : ostate) : ostate :=
  match nth_error (o_incs o) k with
  | Some i =>
    let same := match oi_ph i, need with
                | PFresh, PFresh | PStarted, PStarted => true | _, _ => false end in
    if same && negb (o_dropped o) then
      with_incs o (upd_nth k (fun i => set_ph (match oi_wire i with
                                                | WOpen => set_wire i WMaybe | _ => i end) PEnded)
                           (o_incs o))
    else if same then with_incs o (upd_nth k (fun i => set_ph i PEnded) (o_incs o))
    else o
  | None => o
  end.

Definition ostep {C : Type} (lim : option nat) (o : ostate) (p : op C) (l : list obs) : ostate :=
  if negb (h_stop (o_v o)) then o else      (* outside stops_after_error: nothing is checked *)
  let '(body, g) := split_gauges l in
  let yielded := match p, body with
                 | OPoll, [OCalls _; OYield _ _ _ _ _] => true
                 | _, _ => false end in
  let '(o1, settled, blocked, ended) :=
    match p with
    | OPoll =>
      if o_dropped o then (match body with [] => o | _ => chk08 o false end, false, false, false)
      else if c_err (o_v o) then
        (* the application polls again after the stream yielded an error: outside the
           hypothesis stops_after_error; nothing is checked from here on *)
        (hyp_stop o false, false, false, false)
      else match body with
           | [OCalls cs; r] =>
             let o1 := o_result (o_calls lim (start_poll o) cs) r in
             (o1,
              match r with OPending | OStreamEnd => negb (o_blocked o1) | _ => false end,
              match r with OPending | OStreamEnd => o_blocked o1 | _ => false end,
              match r with OStreamEnd => true | _ => false end)
           | _ => (mark_bad o, false, false, false)
           end
    | OCtl _ => (match body with [] => o | _ => mark_bad o end, false, false, false)
    | OHandlerPoll k _ => (fold_left o_hevent body o, false, false, false)
    | ODropHandler k => (guard_dropped k PStarted (fold_left o_hevent body o), false, false, false)
    | ODropYielded k => (guard_dropped k PFresh (fold_left o_hevent body o), false, false, false)
    | ODropChannel =>
      (mko (o_incs o) (o_now o) (o_gauge o) true (o_eof o) (o_dirty o) (o_pend o) (o_first o)
           (o_after_thr o) (o_blocked o) (o_freed o) (o_errcall o) (o_v o), false, false, false)
    | OAdvance dt =>
      (mko (age (o_now o + dt)%N (o_incs o)) (o_now o + dt)%N (o_gauge o) (o_dropped o) (o_eof o)
           (o_dirty o) (o_pend o) (o_first o) (o_after_thr o) (o_blocked o) (o_freed o)
           (o_errcall o) (o_v o), false, false, false)
    end in
  match g with
  | Some (a, b) =>
    if o_dropped o1 then mark_bad o1
    else if c_err (o_v o1) then o1      (* a request read and dropped by the failing poll may still be tracked *)
    else
      (* C10: the stream ends only with nothing in flight;
         C12 (a): a request is handed to the application only below the limit, so right after a
         yield at most L requests are in flight *)
      let o2 := chk12a o1 (negb yielded || match lim with Some l => Nat.leb a l | None => true end) in
      o_gauges settled blocked (chk10 o2 (negb ended || Nat.eqb a 0)) a b
  | None => if o_dropped o1 then o1 else mark_bad o1
  end.

Fixpoint orun {C : Type} (lim : option nat) (o : ostate) (ops : list (op C)) (tr : list (list obs))
  : ostate :=
  match ops, tr with
  | [], [] => o
  | p :: ops', l :: tr' => orun lim (ostep lim o p l) ops' tr'
  | _, _ => mark_bad o
  end.

Definition observe {C : Type} (c : cfg) (ops : list (op C)) (tr : list (list obs)) : verdicts :=
  o_v (orun (cfg_limit c) o_init ops tr).

(* ---- the monitors -------------------------------------------------------------------------- *)
Section Monitors.
  Context {C : Type}.
  Variable c : cfg.
  Variable ops : list (op C).
  Variable tr : list (list obs).
  Let v := observe c ops tr.

  (* hypothesis of C08 and C04 (DESIGN section 7, B1) as seen by the observer *)
  Definition reuse_only_after_completion : bool := h_b1 v.
  (* the application stops polling the stream after it yielded an error (as execute() does) *)
  Definition stops_after_error : bool := h_stop v.
  Definition freed_in_same_poll : bool := c_k1 v.          (* K1 *)
  Definition limiter_blocked_on_sink : bool := c_k2 v.     (* K2 *)
  Let hyp := h_b1 v && h_stop v.

  (* the C08 / C04 clauses without the hypothesis (false of the code: B1) *)
  Definition c08_core_ok : bool := negb (v_bad v) && v08 v.
  Definition c04_core_ok : bool := negb (v_bad v) && v04 v && v08 v.
  Definition c08_ok : bool := negb (v_bad v) && (negb hyp || v08 v).
  Definition c04_ok : bool := negb (v_bad v) && (negb hyp || (v04 v && v08 v)).
  Definition c06_ok : bool :=
    negb (v_bad v) && (negb (h_stop v) || v06e v) && (negb hyp || v06l v).
  Definition c06_rel_ok : bool :=
    negb (v_bad v) && (negb (h_stop v) || v06e v) && (negb hyp || v06l_rel v).
  (* clause (c) counts the requests that may be in flight through the incarnation table, which is
     only meaningful while ids are reused as the hypothesis B1 allows *)
  Definition c12_ok : bool := negb (v_bad v) && v12a v && v12b v && (negb (h_b1 v) || v12c v).
  Definition c12_rel_ok : bool := negb (v_bad v) && v12a v && v12b v && (negb (h_b1 v) || v12c_rel v).
  Definition c11s_ok : bool := negb (v_bad v) && (negb hyp || v11 v).
  Definition c11s_rel_ok : bool := negb (v_bad v) && (negb hyp || v11_rel v).
  Definition c09s_ok : bool := negb (v_bad v) && (negb hyp || v09 v).
  Definition c10s_ok : bool := negb (v_bad v) && v10 v.
End Monitors.

(* C14, server half: Transport.contract_ok over the per-poll call logs of the Requests stream,
   up to and including the first poll that returned an error (stops_after_error: tarpc's
   execute() stops polling there). *)
Fixpoint polls_of {C : Type} (ops : list (op C)) (tr : list (list obs))
  : list (list call * bool) :=
  match ops, tr with
  | OPoll :: ops', l :: tr' =>
    match l with
    | OCalls cs :: r :: _ =>
      match r with
      | OStreamErr _ | OFuel | OPanic => [(cs, false)]
      | OPending => (cs, true) :: polls_of ops' tr'
      | _ => (cs, false) :: polls_of ops' tr'
      end
    | _ => polls_of ops' tr'
    end
  | _ :: ops', _ :: tr' => polls_of ops' tr'
  | _, _ => []
  end.

Definition no_fuel (tr : list (list obs)) : bool :=
  forallb (fun l => negb (existsb (fun e => match e with OFuel | OPanic => true | _ => false end) l)) tr.

Definition c14s_ok {C : Type} (ops : list (op C)) (tr : list (list obs)) : bool :=
  no_fuel tr && contract_ok (fun _ : response => true) (polls_of ops tr).

(* the same logs WITHOUT the stops_after_error boundary (every poll, also those after an error):
   the contract is false of this list for the code and the model (ServerWitness.e1_witness) *)
Fixpoint polls_all {C : Type} (ops : list (op C)) (tr : list (list obs))
  : list (list call * bool) :=
  match ops, tr with
  | OPoll :: ops', l :: tr' =>
    match l with
    | OCalls cs :: r :: _ =>
      match r with
      | OPending => (cs, true) :: polls_all ops' tr'
      | _ => (cs, false) :: polls_all ops' tr'
      end
    | _ => polls_all ops' tr'
    end
  | _ :: ops', _ :: tr' => polls_all ops' tr'
  | _, _ => []
  end.

(* C18, server half: the request handed to the application carries the trace id AND the sampling
   decision of the request that was read (the script's trace number is 2 * trace_id + sampled bit;
   the span id is drawn at the server and never observed).  In every observation list a yield
   OYield k id dl tr body  comes after an  OCalls cs  with  (id, dl, tr, body)  the LAST request the
   transport delivered in cs, and at most one yield follows one OCalls. *)
Fixpoint last_req (cs : list call) (acc : option (N * N * N * N)) : option (N * N * N * N) :=
  match cs with
  | [] => acc
  | CNext (RItem (MReq id dl t b)) :: r => last_req r (Some (id, dl, t, b))
  | _ :: r => last_req r acc
  end.

Definition is_yield (e : obs) : bool := match e with OYield _ _ _ _ _ => true | _ => false end.

(* cur = the last request read in the most recent OCalls of this list, not yet handed out *)
Fixpoint c18_scan (cur : option (N * N * N * N)) (l : list obs) : bool :=
  match l with
  | [] => true
  | OCalls cs :: r => c18_scan (last_req cs None) r
  | OYield _ id dl t b :: r =>
    match cur with
    | Some (i, d, t', b') => N.eqb i id && N.eqb d dl && N.eqb t' t && N.eqb b' b
    | None => false
    end && c18_scan None r
  | _ :: r => c18_scan cur r
  end.

Definition c18_poll (l : list obs) : bool := c18_scan None l.

Definition c18s_ok (tr : list (list obs)) : bool := no_fuel tr && forallb c18_poll tr.
