(* tarpc's own consumer of the Requests stream: `Requests::execute` / `Channel::execute`
   (tarpc/src/server.rs 416-423, 765-781):

       self.take_while(|result| { ...warn...; futures::future::ready(result.is_ok()) })
           .filter_map(|result| async move { result.ok() })
           .map(move |request| { let serve = serve.clone(); request.execute(serve) })

   The application polls THIS stream (typically with `for_each(spawn)`), never the Requests
   stream itself.  This file models the adapter on top of the frozen Server.v: the state of
   futures-util 0.3 `TakeWhile` (`done_taking`; `pending_fut`/`pending_item` never survive a poll
   because the predicate future is `future::ready(..)`), and `FilterMap` / `Map` as pure mappings
   (the `async move { result.ok() }` block has no await point: it completes in the poll that
   created it).

   THIRD-PARTY SEMANTICS IS MODELLED, NOT VERIFIED: `take_while_poll` transcribes
   futures-util-0.3 src/stream/stream/take_while.rs `poll_next`:
       if done_taking { return Ready(None) }
       loop { if let Some(fut) = pending_fut { take = ready!(fut.poll()); item = pending_item.take();
                                              if take { break item } else { done_taking = true; break None } }
              else if let Some(item) = ready!(stream.poll_next()) { pending_fut = Some(f(&item)); pending_item = Some(item) }
              else { break None } }
   Note that TakeWhile does NOT latch the end of the inner stream: after the inner stream returned
   None, a later poll of the adapter polls the inner stream again (only a false predicate sets
   done_taking).  filter_map.rs / map.rs `poll_next`: the item is passed through the closure; a
   closure result None makes FilterMap poll upstream again within the same poll (ERepoll below:
   never happens here, ServerExecProofs.exec_never_repoll).

   An op list over `eop` is what an application can do with a server driven through execute():
   poll the execute-stream (OPollExec, replacing Server.OPoll), everything else as in Server.v.
   `induced_from` is the Server.v op list the channel sees.  No proofs in this file. *)
From Coq Require Import List Bool Arith NArith.
Import ListNotations.
From TarpcV Require Import Base Transport TimerWheel Server ServerMon.

(* what one poll of a stream returns *)
Inductive spoll (A : Type) := SItem (a : A) | SEnd | SPend.
Arguments SItem {A}. Arguments SEnd {A}. Arguments SPend {A}.

(* the item type of Requests: Result<TrackedRequest, ChannelError>; Ok carries the incarnation
   number k of Server.v (OYield k ...: its execute() future is driven by OHandlerPoll k) *)
Inductive ritem := ROk (k : nat) | RErr (a : activity).
(* the take_while predicate: result.is_ok() *)
Definition is_ok (r : ritem) : bool := match r with ROk _ => true | RErr _ => false end.

(* what the poll of the inner Requests stream returned, read off the observations of the
   Server.v op OPoll (same pattern as ServerMon.polls_of).  None: the poll did not return a value
   (fuel exhausted: a model artefact, excluded by ServerProps.C14_server_total) or the channel
   had been dropped (the Server.v op is then a no-op). *)
Definition inner_result (l : list obs) : option (spoll ritem) :=
  match l with
  | OCalls _ :: r :: _ =>
    match r with
    | OYield k _ _ _ _ => Some (SItem (ROk k))
    | OStreamErr a => Some (SItem (RErr a))
    | OStreamEnd => Some SEnd
    | OPending => Some SPend
    | _ => None
    end
  | _ => None
  end.

(* what one poll of the execute-stream returns: the execute() future of incarnation k, end of
   stream, Pending; ERepoll = FilterMap's closure returned None (it would poll upstream again) *)
Inductive eres := EItem (k : nat) | EEnd | EPend | ERepoll.

(* filter_map(|result| async move { result.ok() }) and map(|request| request.execute(serve)),
   on the value TakeWhile returned *)
Definition filter_map_ok (r : spoll ritem) : eres :=
  match r with
  | SItem (ROk k) => EItem k
  | SItem (RErr _) => ERepoll
  | SEnd => EEnd
  | SPend => EPend
  end.

Inductive eop (C : Type) :=
| OPollExec | OECtl (x : C) | OEHandlerPoll (k : nat) (st : hstep) | OEDropHandler (k : nat)
| OEDropYielded (k : nat) | OEDropChannel | OEAdvance (dt : N).
Arguments OPollExec {C}. Arguments OECtl {C}. Arguments OEHandlerPoll {C}. Arguments OEDropHandler {C}.
Arguments OEDropYielded {C}. Arguments OEDropChannel {C}. Arguments OEAdvance {C}.

(* the ops that are passed through unchanged *)
Definition to_op {C : Type} (o : eop C) : option (op C) :=
  match o with
  | OPollExec => None
  | OECtl x => Some (OCtl x)
  | OEHandlerPoll k st => Some (OHandlerPoll k st)
  | OEDropHandler k => Some (ODropHandler k)
  | OEDropYielded k => Some (ODropYielded k)
  | OEDropChannel => Some ODropChannel
  | OEAdvance dt => Some (OAdvance dt)
  end.

Section Exec.
  Context {T C : Type}.
  Variable tp : transport T response cmsg.
  Variable ctl : T -> C -> T.
  Variable tfuel : T -> nat.

  (* the channel with its Requests stream, and TakeWhile's done_taking *)
  Record estate := mke { e_s : @sstate T; e_done : bool }.

  (* TakeWhile::poll_next over the Requests stream.  Returns the new state, the Server.v op the
     inner stream saw with its observations (at most one: the predicate future is always ready,
     so the loop runs the inner poll at most once), and the value returned. *)
  Definition take_while_poll (c : cfg) (e : estate)
    : estate * list (op C * list obs) * spoll ritem :=
    if e_done e then (e, [], SEnd)                       (* done_taking: Ready(None) *)
    else
      let '(s1, l) := step tp ctl tfuel c (e_s e) OPoll in
      match inner_result l with
      | Some (SItem it) =>
        if is_ok it then (mke s1 false, [(OPoll, l)], SItem it)     (* take: break item *)
        else (mke s1 true, [(OPoll, l)], SEnd)                      (* done_taking = true; break None *)
      | Some SEnd => (mke s1 false, [(OPoll, l)], SEnd)             (* inner None: break None *)
      | Some SPend | None => (mke s1 false, [(OPoll, l)], SPend)    (* ready!: Pending *)
      end.

  (* what the application sees of one op *)
  Inductive eobs :=
  | EPolled (inner : list (list obs)) (r : eres)      (* a poll of the execute-stream *)
  | EOp (l : list obs).                               (* any other op: as in Server.v *)

  Definition estep (c : cfg) (e : estate) (o : eop C) : estate * list (op C * list obs) * eobs :=
    match to_op o with
    | None =>
      let '(e1, ind, r) := take_while_poll c e in (e1, ind, EPolled (map snd ind) (filter_map_ok r))
    | Some p =>
      let '(s1, l) := step tp ctl tfuel c (e_s e) p in (mke s1 (e_done e), [(p, l)], EOp l)
    end.

  (* the Server.v ops the channel sees, with their observations *)
  Fixpoint induced_steps (c : cfg) (e : estate) (ops : list (eop C)) : list (op C * list obs) :=
    match ops with
    | [] => []
    | o :: r => let '(e1, ind, _) := estep c e o in ind ++ induced_steps c e1 r
    end.
  Definition induced_from (c : cfg) (e : estate) (ops : list (eop C)) : list (op C) :=
    map fst (induced_steps c e ops).

  (* the application's view *)
  Fixpoint exec_run_from (c : cfg) (e : estate) (ops : list (eop C)) : list eobs :=
    match ops with
    | [] => []
    | o :: r => let '(e1, _, x) := estep c e o in x :: exec_run_from c e1 r
    end.

  Definition einit (c : cfg) (t0 : T) : estate := mke (init c t0) false.
  Definition induced (c : cfg) (t0 : T) (ops : list (eop C)) : list (op C) :=
    induced_from c (einit c t0) ops.
  Definition exec_run (c : cfg) (t0 : T) (ops : list (eop C)) : list eobs :=
    exec_run_from c (einit c t0) ops.
End Exec.
