(* Server proofs, engineer C, part 3: C11 (server half): stmt_s_v11_rel, stmt_s_v11, stmt_s11_rel,
   stmt_s11, from the consequences NeedH of the hypothesis-dependent invariant.
   The gauge after every op is between the surely-open and the possibly-open incarnations and equals
   the number of timers; after a complete idle poll all three agree. *)
From Coq Require Import List Bool Arith NArith Lia.
Import ListNotations.
From TarpcV Require Import Base Transport TimerWheel Server ServerMon ServerFuel ServerContract
     ServerState ServerSim ServerSim2 ServerSim3 ServerSim4 ServerSim5 ServerSim6 ServerSim7 ServerSpec
     ServerProofsPB0 ServerProofsPC0 ServerProofsPC1.

(* ---------------------------------------------------------------- lists *)
Lemma nth_combine_in : forall A B (l1 : list A) (l2 : list B) k a b,
  nth_error l1 k = Some a -> nth_error l2 k = Some b -> In (a, b) (List.combine l1 l2).
Proof.
  induction l1 as [|x l1 IH]; intros l2 k a b H1 H2; destruct k; cbn in H1; try discriminate;
    destruct l2 as [|y l2]; cbn in H2; try discriminate.
  - injection H1 as <-. injection H2 as <-. left; reflexivity.
  - right. eapply IH; eauto.
Qed.
Lemma in_combine_nth : forall A B (l1 : list A) (l2 : list B) a b,
  In (a, b) (List.combine l1 l2) -> exists k, nth_error l1 k = Some a /\ nth_error l2 k = Some b.
Proof.
  induction l1 as [|x l1 IH]; intros l2 a b H; [contradiction|]. destruct l2 as [|y l2]; [contradiction|].
  destruct H as [H|H].
  - injection H as <- <-. exists 0. auto.
  - destruct (IH _ _ _ H) as (k & A1 & A2). exists (S k). auto.
Qed.
Lemma filter_combine_snd_length : forall A B (f : B -> bool) (l1 : list A) (l2 : list B),
  length l1 = length l2 ->
  length (filter (fun p => f (snd p)) (List.combine l1 l2)) = length (filter f l2).
Proof.
  induction l1 as [|x l1 IH]; intros [|y l2] H; cbn in H; try discriminate; [reflexivity|].
  cbn. destruct (f y); cbn; rewrite IH by congruence; reflexivity.
Qed.
Lemma in_map_fst_filter_combine : forall A B C (g : A -> C) (p : A * B -> bool) (l1 : list A) (l2 : list B) x,
  In x (map (fun q => g (fst q)) (filter p (List.combine l1 l2))) -> In x (map g l1).
Proof.
  induction l1 as [|a l1 IH]; intros [|b l2] x H; cbn in H; try contradiction.
  destruct (p (a, b)); cbn in H.
  - destruct H as [H|H]; [left; exact H|right; eapply IH; eauto].
  - right; eapply IH; eauto.
Qed.
Lemma NoDup_map_fst_filter_combine : forall A B C (g : A -> C) (p : A * B -> bool) (l1 : list A) (l2 : list B),
  NoDup (map g l1) -> NoDup (map (fun q => g (fst q)) (filter p (List.combine l1 l2))).
Proof.
  induction l1 as [|a l1 IH]; intros [|b l2] H; cbn; try constructor.
  inversion H as [|? ? Hn Hd]; subst. destruct (p (a, b)); cbn; [|apply IH; exact Hd].
  constructor; [|apply IH; exact Hd]. intros Hin. apply Hn. eapply in_map_fst_filter_combine; eauto.
Qed.

Lemma count_settle : forall l, count_open (settle l) = count_must (settle l).
Proof.
  unfold count_open, count_must, settle. induction l as [|x l IH]; cbn; [reflexivity|].
  destruct (oi_wire x) eqn:E; cbn; rewrite ?E; cbn; rewrite ?IH; reflexivity.
Qed.

(* ---------------------------------------------------------------- counting *)
Section Count.
  Context {T : Type}.
  Notation st := (@sstate T).

  Lemma gauge_upper : forall o (s : st),
    InvU o s -> handled s -> c_err (o_v o) = false -> length (s_inflight s) <= count_open (o_incs o).
  Proof.
    intros o s HI Hh Hce.
    pose proof (all_owned_of_handled o s HI Hh Hce) as Hown.
    set (opens := filter (fun p : hrec * oinc => is_open (oi_wire (snd p))) (List.combine (s_handlers s) (o_incs o))).
    assert (Hlen : length opens = count_open (o_incs o)).
    { unfold opens, count_open.
      apply (filter_combine_snd_length hrec oinc (fun i => is_open (oi_wire i))). symmetry. exact (u_len _ _ HI). }
    rewrite <- Hlen, <- (map_length e_h (s_inflight s)), <- (map_length (fun q : hrec * oinc => h_h (fst q)) opens).
    apply NoDup_incl_length; [exact (u_enodup _ _ HI)|].
    intros h Hin. apply in_map_iff in Hin. destruct Hin as (e & <- & He).
    destruct (Hown e He) as (k & hr & oi & A & B & Ch & D & E & _).
    apply in_map_iff. exists (hr, oi). split; [exact Ch|].
    apply filter_In. split; [eapply nth_combine_in; eauto|exact E].
  Qed.

  Lemma gauge_lower : forall o (s : st),
    InvU o s -> NeedH o s -> c_err (o_v o) = false -> count_must (o_incs o) <= length (s_inflight s).
  Proof.
    intros o s HI NHs Hce.
    set (musts := filter (fun p : hrec * oinc => is_must (oi_wire (snd p))) (List.combine (s_handlers s) (o_incs o))).
    assert (Hlen : length musts = count_must (o_incs o)).
    { unfold musts, count_must.
      apply (filter_combine_snd_length hrec oinc (fun i => is_must (oi_wire i))). symmetry. exact (u_len _ _ HI). }
    rewrite <- Hlen, <- (map_length e_h (s_inflight s)), <- (map_length (fun q : hrec * oinc => h_h (fst q)) musts).
    apply NoDup_incl_length.
    - apply (NoDup_map_fst_filter_combine hrec oinc nat h_h). exact (u_hnodup _ _ HI).
    - intros h Hin. apply in_map_iff in Hin. destruct Hin as ((hr, oi) & <- & Hq).
      apply filter_In in Hq. destruct Hq as (Hc & Hm). cbn [fst snd] in *.
      destruct (in_combine_nth _ _ _ _ _ _ Hc) as (k & A & B).
      assert (Hw : oi_wire oi = WOpen) by (destruct (oi_wire oi); try discriminate; reflexivity).
      destruct (nh_open _ _ NHs Hce k hr oi A B Hw) as (e & He & Heh).
      apply in_map_iff. exists e. auto.
  Qed.

  Lemma gauge_timers : forall o (s : st), InvU o s -> length (s_timers s) = length (s_inflight s).
  Proof.
    intros o s HI. rewrite <- (map_length fst (s_timers s)), (u_timers _ _ HI). apply map_length.
  Qed.
End Count.

(* ---------------------------------------------------------------- observer: what decides v11 *)
Definition F11 (o : ostate) : bool * bool := (v11 (o_v o), v11_rel (o_v o)).

Lemma ocall_F11 : forall lim o c, F11 (o_call lim o c) = F11 o.
Proof.
  intros lim o c. unfold F11, o_call.
  assert (P : (v11 (o_v (match o_errcall o with Some _ => chk09 o false | None => o end)),
               v11_rel (o_v (match o_errcall o with Some _ => chk09 o false | None => o end)))
              = (v11 (o_v o), v11_rel (o_v o))).
  { destruct (o_errcall o); oproj; rewrite ?andb_true_r; auto. }
  rewrite <- P. clear P.
  set (o0 := match o_errcall o with Some _ => chk09 o false | None => o end).
  destruct c as [r|m r|r|r|r].
  - oproj. auto.
  - destruct (resp_body m).
    1,2,4: (destruct (last_open (resp_id m) (o_incs o0)); oproj; rewrite ?andb_true_r; auto).
    unfold accept_id. destruct (last_open (resp_id m) _); oproj; rewrite ?andb_true_r, ?orb_false_r; auto.
  - oproj. auto.
  - oproj. rewrite ?andb_true_r. auto.
  - unfold resolve_ignored. destruct (o_pend o0) as [[[[a b] d] e]|];
      destruct r as [[id dl tr body|id tr]| | |]; oproj; rewrite ?andb_true_r, ?orb_false_r; auto;
      destruct (last_open id _); oproj; rewrite ?andb_true_r, ?orb_false_r; auto.
Qed.
Lemma ocs_F11 : forall lim new o, F11 (fold_left (o_call lim) new o) = F11 o.
Proof.
  intros lim new; induction new as [|c new IH]; intros o; cbn [fold_left]; [auto|].
  rewrite IH. apply ocall_F11.
Qed.
Lemma finish_idle_F11 : forall o, F11 (finish_idle o) = F11 o.
Proof.
  intros o. unfold F11, finish_idle. destruct (o_blocked _); oproj; rewrite ?andb_true_r; reflexivity.
Qed.
Lemma oresult_F11 : forall o r, F11 (o_result o r) = F11 o.
Proof.
  intros o r. destruct r; unfold o_result;
    first [ unfold F11, mark_bad; oproj; rewrite ?andb_true_r; reflexivity
          | unfold F11, accept_id; destruct (last_open id _); oproj; rewrite ?andb_true_r; reflexivity
          | rewrite finish_idle_F11; unfold F11; oproj; rewrite ?andb_true_r; reflexivity ].
Qed.
Lemma ohevent_F11 : forall o e, F11 (o_hevent o e) = F11 o.
Proof.
  intros o e. destruct e; unfold o_hevent; try (unfold F11, mark_bad; oproj; reflexivity); try reflexivity.
  - destruct (nth_error (o_incs o) k); [unfold F11; oproj; rewrite ?andb_true_r; reflexivity|unfold F11, mark_bad; oproj; reflexivity].
  - destruct (nth_error (o_incs o) k); [unfold F11; oproj; rewrite ?andb_true_r; reflexivity|unfold F11, mark_bad; oproj; reflexivity].
Qed.
Lemma ohevents_F11 : forall body o, F11 (fold_left o_hevent body o) = F11 o.
Proof.
  induction body as [|e body IH]; intros o; cbn [fold_left]; [reflexivity|]. rewrite IH. apply ohevent_F11.
Qed.
Lemma guard_dropped_F11 : forall k need o, F11 (guard_dropped k need o) = F11 o.
Proof.
  intros k need o. unfold guard_dropped. destruct (nth_error (o_incs o) k); [|reflexivity].
  repeat match goal with |- context [if ?b then _ else _] => destruct b end; reflexivity.
Qed.

(* the gauge check itself *)
Definition bound11 (l : list oinc) (a b : nat) : bool :=
  Nat.leb (count_must l) a && Nat.leb a (count_open l) && Nat.eqb a b.

Lemma ogauges_F11 : forall st' bl o a b,
  F11 (o_gauges st' bl o a b) =
  (v11 (o_v o) && (bound11 (o_incs o) a b
                   && (if st' then Nat.eqb a (count_must (o_incs o)) && Nat.eqb a (count_open (o_incs o))
                       else if bl then Nat.eqb a (count_must (o_incs o)) else true)),
   v11_rel (o_v o) && bound11 (o_incs o) a b).
Proof.
  intros st' bl o a b. unfold F11, o_gauges, bound11. destruct st'; [|destruct bl]; oproj; rewrite ?andb_true_r; reflexivity.
Qed.

(* ---------------------------------------------------------------- one op *)
Section V11.
  Context {T C : Type}.
  Variable tp : transport T response cmsg.
  Variable ctl : T -> C -> T.
  Variable tfuel : T -> nat.
  Hypothesis TF : tfuel_ok tp tfuel.
  Variable c : cfg.
  Notation st := (@sstate T).
  Notation lim := (cfg_limit c).

  Definition VP11 (o : ostate) : Prop :=
    (h_b1 (o_v o) = true -> h_stop (o_v o) = true -> v11_rel (o_v o) = true)
    /\ (h_b1 (o_v o) = true -> h_stop (o_v o) = true -> c_k2 (o_v o) = false -> v11 (o_v o) = true).

  (* the bounds, read off the invariants of the state AFTER the op *)
  Lemma bound_after : forall st' bl o2 a b (s' : st),
    let o' := o_gauges st' bl o2 a b in
    Ctx o' s' -> h_b1 (o_v o') = true -> h_stop (o_v o') = true -> c_err (o_v o2) = false ->
    a = length (s_inflight s') -> b = length (s_timers s') ->
    bound11 (o_incs o2) a b = true.
  Proof.
    intros st' bl o2 a b s' o' CX Hb Hs Hc -> ->.
    destruct (o_gauges_proj st' bl o2 (length (s_inflight s')) (length (s_timers s'))) as (G1 & _ & _ & _ & _ & G6 & _).
    cbv zeta in G1, G6. fold o' in G1, G6.
    destruct (cx_top _ _ CX Hs) as (HI & _ & Hr). destruct (Hr (eq_trans G6 Hc)) as (Hh & _).
    pose proof (gauge_upper o' s' HI Hh (eq_trans G6 Hc)) as U.
    pose proof (gauge_lower o' s' HI (cx_nh _ _ CX Hb Hs) (eq_trans G6 Hc)) as L.
    pose proof (gauge_timers o' s' HI) as Tm. rewrite G1 in U, L.
    unfold bound11. apply andb_true_iff. split; [apply andb_true_iff; split|].
    - apply Nat.leb_le. exact L.
    - apply Nat.leb_le. exact U.
    - apply Nat.eqb_eq. symmetry. exact Tm.
  Qed.

  (* the common conclusion: the op ends with a gauge check that passes *)
  Lemma VP11_gauges : forall o st' bl o2 a b (s' : st),
    let o' := o_gauges st' bl o2 a b in
    F11 o2 = F11 o -> FL o o' -> VP11 o ->
    Ctx o' s' -> c_err (o_v o2) = false ->
    a = length (s_inflight s') -> b = length (s_timers s') ->
    (st' = true -> count_open (o_incs o2) = count_must (o_incs o2)) ->
    (bl = true -> c_k2 (o_v o2) = true) ->
    VP11 o'.
  Proof.
    intros o st' bl o2 a b s' o' HF (F1 & F2 & F3) (V1 & V2) CX Hc Ha Hb Hst Hbl.
    pose proof (ogauges_F11 st' bl o2 a b) as G. fold o' in G.
    pose proof (f_equal fst G) as G1. pose proof (f_equal snd G) as G2.
    pose proof (f_equal fst HF) as HF1. pose proof (f_equal snd HF) as HF2.
    unfold F11 in G1, G2, HF1, HF2. cbn [fst snd] in G1, G2, HF1, HF2. clear G.
    assert (HB : h_b1 (o_v o') = true -> h_stop (o_v o') = true -> bound11 (o_incs o2) a b = true).
    { intros X Y. exact (bound_after st' bl o2 a b s' CX X Y Hc Ha Hb). }
    split.
    - intros X Y. rewrite G2, HF2, (V1 (F1 X) (F2 Y)), (HB X Y). reflexivity.
    - intros X Y Z. rewrite G1, HF1, (V2 (F1 X) (F2 Y) (F3 Z)), (HB X Y). cbn [andb].
      assert (Hk : c_k2 (o_v o2) = false).
      { unfold o', o_gauges in Z. destruct st'; [|destruct bl]; oproj; exact Z. }
      pose proof (HB X Y) as B0. unfold bound11 in B0.
      apply andb_true_iff in B0. destruct B0 as [B0 _]. apply andb_true_iff in B0. destruct B0 as [B1 B2].
      apply Nat.leb_le in B1. apply Nat.leb_le in B2.
      destruct st'.
      + specialize (Hst eq_refl). apply andb_true_iff. split; apply Nat.eqb_eq; lia.
      + destruct bl; [|reflexivity]. rewrite (Hbl eq_refl) in Hk. discriminate.
  Qed.

  Lemma VP11_same : forall o o', F11 o' = F11 o -> FL o o' -> VP11 o -> VP11 o'.
  Proof.
    intros o o' HF (F1 & F2 & F3) (V1 & V2).
    pose proof (f_equal fst HF) as HF1. pose proof (f_equal snd HF) as HF2.
    unfold F11 in HF1, HF2. cbn [fst snd] in HF1, HF2.
    split; [intros X Y; rewrite HF2; auto|intros X Y Z; rewrite HF1; auto].
  Qed.

  (* the tail of an op that is not a poll *)
  Lemma v11_tail : forall o o1 (s' : st) body (p : op C),
    ostep lim o p (body ++ gauges s') = otail o1 (snd (split_gauges (body ++ gauges s'))) ->
    forallb plain body = true -> F11 o1 = F11 o ->
    Ctx (ostep lim o p (body ++ gauges s')) s' -> VP11 o -> VP11 (ostep lim o p (body ++ gauges s')).
  Proof.
    intros o o1 s' body p Heq Hpl HF CX HV.
    pose proof (FL_ostep lim o p (body ++ gauges s')) as HFL. rewrite Heq in *. clear Heq.
    destruct (s_dropped s') eqn:ED.
    - unfold gauges in *. rewrite ED, app_nil_r, (split_gauges_plain _ Hpl) in *. cbn [snd otail] in *.
      apply (VP11_same o); [|exact HFL|exact HV]. destruct (o_dropped o1); [exact HF|unfold F11, mark_bad; oproj; exact HF].
    - rewrite (split_gauges_app body s' ED) in *. cbn [snd otail] in *.
      destruct (o_dropped o1).
      { apply (VP11_same o); [|exact HFL|exact HV]. unfold F11, mark_bad; oproj; exact HF. }
      destruct (c_err (o_v o1)) eqn:EC.
      { apply (VP11_same o); [exact HF|exact HFL|exact HV]. }
      apply (VP11_gauges o false false (chk10 (chk12a o1 true) true) _ _ s'); auto; try discriminate.
      unfold F11 in *. oproj. rewrite ?andb_true_r. exact HF.
  Qed.

  Lemma v11_step : forall o (s : st) p s' l,
    Ctx o s -> Ctx (ostep lim o p l) s' -> step tp ctl tfuel c s p = (s', l) ->
    VP11 o -> VP11 (ostep lim o p l).
  Proof.
    intros o s p s' l CX CX' ES HV.
    destruct (h_stop (o_v o)) eqn:EH; [|unfold ostep; rewrite EH; exact HV].
    destruct (cx_top _ _ CX EH) as (HI & Hnt & Hrest).
    destruct p as [|x|k hs|k|k| |dt].
    - (* a poll *)
      destruct (s_dropped s) eqn:ED.
      { unfold step, poll_requests in ES. rewrite ED in ES. injection ES as <- <-.
        unfold ostep. rewrite EH. cbn [negb]. unfold gauges. rewrite ED.
        assert (Hodt : o_dropped o = true) by (rewrite (u_dropped _ _ HI); exact ED).
        cbn [app split_gauges rev]. rewrite Hodt. cbn iota. rewrite Hodt. exact HV. }
      assert (Hod : o_dropped o = false) by (rewrite (u_dropped _ _ HI); exact ED).
      destruct (c_err (o_v o)) eqn:EC.
      { pose proof (@ostep_poll_after_error C c o l EH Hod EC) as Hf.
        split; intros _ X; rewrite Hf in X; discriminate. }
      destruct (poll_trace tp ctl tfuel TF c s s' l ED (u_timers _ _ HI) ES) as (log & R & -> & Hd1 & HR & _).
      pose proof (FL_ostep lim o (@OPoll C) ([OCalls log; R] ++ gauges s')) as HFL.
      rewrite (ostep_poll_eq c o s' log R EH Hod EC Hd1 HR) in *.
      set (o1 := o_result (o_calls lim (start_poll o) log) R) in *.
      assert (HF1 : F11 o1 = F11 o).
      { unfold o1, o_calls. rewrite oresult_F11, ocs_F11. reflexivity. }
      unfold poll_tail in *. destruct (c_err (o_v o1)) eqn:EC1.
      { apply (VP11_same o); auto. }
      apply (VP11_gauges o _ _ _ _ _ s'); auto.
      + unfold F11 in *. oproj. rewrite ?andb_true_r. exact HF1.
      + (* a complete idle poll settles the table *)
        intros Hst. oproj. apply andb_true_iff in Hst. destruct Hst as [Hid Hnb]. apply negb_true_iff in Hnb.
        unfold o1 in *. destruct R; try discriminate; cbn [o_result] in *.
        * destruct (finish_idle_proj (o_calls lim (start_poll o) log)) as (P1 & _ & _ & _ & _ & _ & _ & P8).
          cbv zeta in P1, P8. rewrite P8 in Hnb. rewrite P1, Hnb. apply count_settle.
        * match goal with |- context [finish_idle ?x] =>
            destruct (finish_idle_proj x) as (P1 & _ & _ & _ & _ & _ & _ & P8) end.
          cbv zeta in P1, P8. rewrite P8 in Hnb. rewrite P1, Hnb. apply count_settle.
      + (* a blocked poll is class K2 *)
        intros Hbl. oproj. apply andb_true_iff in Hbl. destruct Hbl as [Hid Hb].
        unfold o1 in *. destruct R; try discriminate; cbn [o_result] in *.
        * unfold finish_idle in *. oproj. destruct (o_blocked (o_calls lim (start_poll o) log)) eqn:EB;
            [unfold cls_k2; oproj; apply orb_true_r|].
          oproj. rewrite EB in Hb. discriminate.
        * unfold finish_idle in *. oproj. destruct (o_blocked (o_calls lim (start_poll o) log)) eqn:EB;
            [unfold cls_k2; oproj; apply orb_true_r|].
          oproj. rewrite EB in Hb. discriminate.
    - unfold step in ES. injection ES as <- <-.
      change (gauges (set_t s (ctl (s_t s) x))) with ([] ++ gauges (set_t s (ctl (s_t s) x))) in *.
      eapply v11_tail; [apply (ostep_nonpoll c (OCtl x) o _ EH I)|reflexivity| |exact CX'|exact HV].
      cbn [app]. rewrite fst_split_nil'. reflexivity.
    - unfold step in ES. destruct (execute_poll k hs s) as [s1 body] eqn:EE. injection ES as <- <-.
      destruct (nth_error (s_handlers s) k) as [hr|] eqn:Hk.
      2: { unfold execute_poll in EE. rewrite Hk in EE. injection EE as <- <-.
           eapply v11_tail; [apply (ostep_nonpoll c (@OHandlerPoll C k hs) o _ EH I)|reflexivity| |exact CX'|exact HV].
           apply ohevents_F11. }
      destruct (execute_poll_body k hs s s1 body hr EE Hk) as (Hb & _ & _).
      eapply v11_tail; [apply (ostep_nonpoll c (@OHandlerPoll C k hs) o _ EH I)|exact (for_k_plain _ _ Hb)| |exact CX'|exact HV].
      apply ohevents_F11.
    - unfold step in ES. destruct (drop_handler k s) as [s1 body] eqn:EE. injection ES as <- <-.
      assert (Hbody : body = [] \/ body = [OHDropped k]).
      { unfold drop_handler in EE. destruct (nth_error (s_handlers s) k) as [hr|]; [|injection EE as _ <-; auto].
        destruct (h_st hr); injection EE as _ <-; auto. }
      assert (Hpl : forallb plain body = true) by (destruct Hbody as [->| ->]; reflexivity).
      eapply v11_tail; [apply (ostep_nonpoll c (@ODropHandler C k) o _ EH I)|exact Hpl| |exact CX'|exact HV].
      rewrite guard_dropped_F11. apply ohevents_F11.
    - unfold step in ES. destruct (drop_yielded k s) as [s1 body] eqn:EE. injection ES as <- <-.
      assert (Hbody : body = []).
      { unfold drop_yielded in EE. destruct (nth_error (s_handlers s) k) as [[h i stt]|]; [|injection EE as _ <-; auto].
        destruct stt; injection EE as _ <-; auto. }
      subst body.
      eapply v11_tail; [apply (ostep_nonpoll c (@ODropYielded C k) o _ EH I)|reflexivity| |exact CX'|exact HV].
      rewrite guard_dropped_F11. apply ohevents_F11.
    - unfold step in ES. injection ES as <- <-.
      change (gauges (drop_channel s)) with ([] ++ gauges (drop_channel s)) in *.
      eapply v11_tail; [apply (ostep_nonpoll c (@ODropChannel C) o _ EH I)|reflexivity| |exact CX'|exact HV].
      reflexivity.
    - unfold step in ES. injection ES as <- <-.
      change (gauges (set_now s (s_now s + dt)%N)) with ([] ++ gauges (set_now s (s_now s + dt)%N)) in *.
      eapply v11_tail; [apply (ostep_nonpoll c (@OAdvance C dt) o _ EH I)|reflexivity| |exact CX'|exact HV].
      reflexivity.
  Qed.
End V11.

Lemma run_v11 : reachH (@NeedH) ->
  forall (T C : Type) (tp : transport T response cmsg) (ctl : T -> C -> T) (tfuel : T -> nat)
         (c : cfg) (t0 : T) (ops : list (op C)),
    tfuel_ok tp tfuel -> VP11 (orun (cfg_limit c) o_init ops (fst (run tp ctl tfuel c t0 ops))).
Proof.
  intros NH T C tp ctl tfuel c t0 ops TF.
  exact (drive tp ctl tfuel TF c NH t0 (@VP11) (fun o s p s' l => v11_step tp ctl tfuel TF c o s p s' l)
               (conj (fun _ _ => eq_refl) (fun _ _ _ => eq_refl)) ops).
Qed.

Theorem s_v11_rel_from_needh : reachH (@NeedH) -> stmt_s_v11_rel.
Proof.
  intros NH. unfold stmt_s_v11_rel, every_run. intros T C tp ctl tfuel c t0 ops TF. unfold observe.
  exact (proj1 (run_v11 NH T C tp ctl tfuel c t0 ops TF)).
Qed.
Theorem s_v11_from_needh : reachH (@NeedH) -> stmt_s_v11.
Proof.
  intros NH. unfold stmt_s_v11, every_run. intros T C tp ctl tfuel c t0 ops TF. unfold observe.
  exact (proj2 (run_v11 NH T C tp ctl tfuel c t0 ops TF)).
Qed.
Print Assumptions s_v11_rel_from_needh.
Print Assumptions s_v11_from_needh.

Theorem s11_rel_from_needh : reachH (@NeedH) -> stmt_s11_rel.
Proof.
  intros NH. unfold stmt_s11_rel, every_run_mon. intros T C tp ctl tfuel c t0 ops TF. unfold c11s_rel_ok.
  destruct (server_never_early T C tp ctl tfuel c t0 ops TF) as (Hb & _). cbv zeta in Hb.
  rewrite Hb. cbn [negb andb].
  destruct (h_b1 _ && h_stop _) eqn:E; [|reflexivity]. cbn [negb orb].
  apply andb_true_iff in E. destruct E as [E1 E2].
  exact (s_v11_rel_from_needh NH T C tp ctl tfuel c t0 ops TF E1 E2).
Qed.
Theorem s11_from_needh : reachH (@NeedH) -> stmt_s11.
Proof.
  intros NH. unfold stmt_s11, every_run_mon. intros T C tp ctl tfuel c t0 ops TF Hk. unfold c11s_ok.
  destruct (server_never_early T C tp ctl tfuel c t0 ops TF) as (Hb & _). cbv zeta in Hb.
  rewrite Hb. cbn [negb andb].
  destruct (h_b1 _ && h_stop _) eqn:E; [|reflexivity]. cbn [negb orb].
  apply andb_true_iff in E. destruct E as [E1 E2].
  exact (s_v11_from_needh NH T C tp ctl tfuel c t0 ops TF E1 E2 Hk).
Qed.
Print Assumptions s11_rel_from_needh.
Print Assumptions s11_from_needh.
