(* Chain proofs, cascade: how the elementary effects of the client and of the server (on their
   tables and on the link) preserve `cross`.  No model function appears here: the effects are
   described by what they do to the in-flight ids, the timers, the tables and the link. *)
From Coq Require Import List Bool Arith NArith Lia.
Import ListNotations.
From TarpcV Require Import Base Transport TimerWheel Chain ChainInv.
From TarpcV Require Client Server.

(* ------------------------------------------------------------------------------------------ *)
(* lists *)
Lemma req_ids_app l1 l2 : req_ids (l1 ++ l2) = req_ids l1 ++ req_ids l2.
Proof. unfold req_ids. apply flat_map_app. Qed.

Lemma in_req_ids id l : In id (req_ids l) <-> exists dl tr b, In (Server.MReq id dl tr b) l.
Proof.
  unfold req_ids. rewrite in_flat_map. split.
  - intros (m & Hm & Hi). destruct m as [id' dl tr b|]; [|destruct Hi].
    destruct Hi as [<-|[]]. eauto.
  - intros (dl & tr & b & H). eexists. split; [exact H|]. left. reflexivity.
Qed.

Lemma has_cancel_app_l id l1 l2 : has_cancel id l1 -> has_cancel id (l1 ++ l2).
Proof. intros (tr & H). exists tr. apply in_or_app. left. exact H. Qed.

Lemma reqs_ok_mono (P Q : N -> N -> list Server.cmsg -> Prop) l :
  (forall id dl rest, P id dl rest -> Q id dl rest) -> reqs_ok P l -> reqs_ok Q l.
Proof.
  intro H. induction l as [|m r IH]; cbn; [auto|]. destruct m; [|exact IH].
  intros [A B]. split; [apply H, A|apply IH, B].
Qed.

Lemma reqs_ok_and (P Q : N -> N -> list Server.cmsg -> Prop) l :
  reqs_ok P l -> reqs_ok Q l -> reqs_ok (fun id dl rest => P id dl rest /\ Q id dl rest) l.
Proof.
  induction l as [|m r IH]; cbn; [auto|]. destruct m; [|exact IH].
  intros [A B] [A' B']. split; [split; assumption|apply IH; assumption].
Qed.

(* an element is appended: every request sees one more element behind it *)
Lemma reqs_ok_snoc (P Q : N -> N -> list Server.cmsg -> Prop) l m :
  (forall id dl rest, P id dl rest -> Q id dl (rest ++ [m])) ->
  (match m with Server.MReq id dl _ _ => Q id dl [] | _ => True end) ->
  reqs_ok P l -> reqs_ok Q (l ++ [m]).
Proof.
  intros H Hm. induction l as [|x r IH]; cbn.
  - intros _. destruct m; [split; [exact Hm|exact I]|exact I].
  - destruct x; [|exact IH]. intros [A B]. split; [apply H, A|apply IH, B].
Qed.

(* whatever holds of all requests of a list holds of each *)
Lemma reqs_ok_in (P : N -> N -> list Server.cmsg -> Prop) l id dl tr b :
  reqs_ok P l -> In (Server.MReq id dl tr b) l -> exists rest, P id dl rest.
Proof.
  induction l as [|m r IH]; cbn; [intros _ []|]. destruct m as [id' dl' tr' b'|id' tr'].
  - intros [A B] [E|Hin]; [injection E as -> -> _ _; eauto|apply IH; assumption].
  - intros B [E|Hin]; [discriminate|apply IH; assumption].
Qed.

Lemma reqs_ok_all (P : N -> N -> list Server.cmsg -> Prop) l :
  (forall id dl rest, P id dl rest) -> reqs_ok P l.
Proof. intro H. induction l as [|m r IH]; cbn; [exact I|]. destruct m; [split; [apply H|exact IH]|exact IH]. Qed.

Lemma NoDup_mid {A} (a b : list A) x : NoDup (a ++ b) -> ~ In x (a ++ b) -> NoDup (a ++ x :: b).
Proof.
  induction a as [|y r IH]; cbn; intros H Hn.
  - constructor; assumption.
  - inversion H as [|? ? Hy Hr]; subst. constructor.
    + intro Hin. apply in_app_or in Hin. destruct Hin as [Hin|[->|Hin]].
      * apply Hy, in_or_app. left. exact Hin.
      * apply Hn. left. reflexivity.
      * apply Hy, in_or_app. right. exact Hin.
    + apply IH; [exact Hr|]. intro Hin. apply Hn. right. exact Hin.
Qed.

Lemma NoDup_mid_inv {A} (a b : list A) x : NoDup (a ++ x :: b) -> NoDup (a ++ b) /\ ~ In x (a ++ b).
Proof. intro H. split; [eapply NoDup_remove_1, H|eapply NoDup_remove_2, H]. Qed.

Lemma NoDup_app_l {A} (a b : list A) : NoDup (a ++ b) -> NoDup a.
Proof.
  induction a as [|y r IH]; cbn; intro H; [constructor|].
  inversion H as [|? ? Hy Hr]; subst. constructor; [|apply IH, Hr].
  intro Hin. apply Hy, in_or_app. left. exact Hin.
Qed.

(* ------------------------------------------------------------------------------------------ *)
(* the link with one field replaced *)
Definition with_c2s (l : link) (q : list Server.cmsg) : link := mklink q (l_s2c l) (l_cgone l) (l_sgone l).
Definition with_s2c (l : link) (q : list Client.resp) : link := mklink (l_c2s l) q (l_cgone l) (l_sgone l).

Section Effects.
  Variable T : N.
  Implicit Types (c : cstate) (l : link) (s : sstate) (p : list N).

  Definition ids_down l s p : list N := req_ids (l_c2s l) ++ hids s ++ p.

  (* ---- the client changes, nothing `cross` looks at does ---- *)
  Lemma cross_cframe p c c' l s :
    ifl c' = ifl c -> Client.timers c' = Client.timers c ->
    (forall id, sent_id c id -> sent_id c' id) ->
    cross T p c l s -> cross T p c' l s.
  Proof.
    intros E1 E2 E3 X. destruct X as [x_cgone0 x_sgone0 x_req0 x_trk0 x_t00 x_t10 x_clamp0 x_nodup0 x_sent0 x_keys0 x_trk_h0 x_s2c_h0 x_s2c_u0]. constructor; rewrite ?E1, ?E2; auto.
  Qed.

  (* ---- a response is taken off the link ---- *)
  Lemma cross_pop_s2c p c l s x r :
    l_s2c l = x :: r -> cross T p c l s -> cross T p c (with_s2c l r) s.
  Proof.
    intros E X. destruct X as [x_cgone0 x_sgone0 x_req0 x_trk0 x_t00 x_t10 x_clamp0 x_nodup0 x_sent0 x_keys0 x_trk_h0 x_s2c_h0 x_s2c_u0]. constructor; cbn; auto.
    - intros y Hy. apply x_s2c_h0. rewrite E. right. exact Hy.
    - intros y Hy. apply x_s2c_u0. rewrite E. right. exact Hy.
  Qed.

  (* ---- the client forgets id (response read / expired) ---- *)
  Lemma cross_remove p c c' l s id :
    (forall x, In x (ifl c') <-> In x (ifl c) /\ x <> id) ->
    (forall x w, In (x, w) (Client.timers c') -> In (x, w) (Client.timers c)) ->
    (forall i, sent_id c i -> sent_id c' i) ->
    reqs_ok (fun id' dl rest => id' = id -> has_cancel id rest \/ (dl <= T)%N) (l_c2s l) ->
    (forall e, In e (Server.s_inflight s) -> Server.e_id e = id ->
       has_cancel id (l_c2s l) \/ exists w, In (id, w) (Server.s_timers s) /\ (w <= T)%N) ->
    cross T p c l s -> cross T p c' l s.
  Proof.
    intros HI HT HS J1 J2 X. destruct X as [x_cgone0 x_sgone0 x_req0 x_trk0 x_t00 x_t10 x_clamp0 x_nodup0 x_sent0 x_keys0 x_trk_h0 x_s2c_h0 x_s2c_u0]. constructor; auto.
    - eapply reqs_ok_mono; [|apply (reqs_ok_and _ _ _ x_req0 J1)].
      cbn. intros id' dl rest [[A|[A|A]] B]; auto.
      destruct (N.eq_dec id' id) as [->|Hne]; [destruct (B eq_refl); auto|].
      left. apply HI. auto.
    - intros e He. destruct (x_trk0 e He) as [A|[A|A]]; auto.
      destruct (N.eq_dec (Server.e_id e) id) as [Heq|Hne].
      + rewrite Heq. destruct (J2 e He Heq) as [B|B]; auto.
      + left. apply HI. auto.
    - intros id' dl tr b w Hm Hw. eapply x_t00; [exact Hm|apply HT, Hw].
    - intros id' ws w Hs Hw. eapply x_t10; [exact Hs|apply HT, Hw].
  Qed.

  (* ---- the client registers request id and writes it ---- *)
  Lemma cross_send_req p c c' l s id dl tr b w :
    (forall x, In x (ifl c') <-> x = id \/ In x (ifl c)) ->
    (forall x w', In (x, w') (Client.timers c') ->
       (x = id /\ w' = w) \/ (x <> id /\ In (x, w') (Client.timers c))) ->
    (forall i, sent_id c i -> sent_id c' i) -> sent_id c' id ->
    ~ In id (ids_down l s p) -> (dl <= w)%N -> (dl <= T + MAXT)%N ->
    cross T p c l s ->
    cross T p c' (with_c2s l (l_c2s l ++ [Server.MReq id dl tr b])) s.
  Proof.
    intros HI HT HS Hid Hn Hw Hcl X. destruct X as [x_cgone0 x_sgone0 x_req0 x_trk0 x_t00 x_t10 x_clamp0 x_nodup0 x_sent0 x_keys0 x_trk_h0 x_s2c_h0 x_s2c_u0]. unfold ids_down in Hn.
    assert (Hnt : ~ In id (tids s)).
    { intro Hin. apply Hn. apply in_or_app. right. apply x_trk_h0, Hin. }
    constructor; cbn [l_c2s l_s2c l_cgone l_sgone with_c2s]; auto.
    - eapply reqs_ok_snoc; [| |exact x_req0].
      + cbn. intros id' dl' rest [A|[A|A]]; auto.
        * left. apply HI. auto.
        * right. left. apply has_cancel_app_l, A.
      + cbn. left. apply HI. auto.
    - intros e He. destruct (x_trk0 e He) as [A|[A|A]]; auto.
      + left. apply HI. auto.
      + right. left. apply has_cancel_app_l, A.
    - intros id' dl' tr' b' w' Hm Hw'. apply in_app_or in Hm.
      destruct (HT _ _ Hw') as [[-> ->]|[Hne Hold]].
      + destruct Hm as [Hm|[Hm|[]]]; [|injection Hm as <- _ _; exact Hw].
        exfalso. apply Hn, in_or_app. left. apply in_req_ids. eauto.
      + destruct Hm as [Hm|[Hm|[]]]; [eapply x_t00; eassumption|].
        injection Hm as -> _ _ _. congruence.
    - intros id' ws w' Hs Hw'. destruct (HT _ _ Hw') as [[-> ->]|[Hne Hold]].
      + exfalso. apply Hnt. rewrite <- x_keys0. apply (in_map fst _ _ Hs).
      + eapply x_t10; eassumption.
    - intros id' dl' tr' b' Hm. apply in_app_or in Hm. destruct Hm as [Hm|[Hm|[]]].
      + eapply x_clamp0, Hm.
      + injection Hm as _ <- _ _. exact Hcl.
    - rewrite req_ids_app. cbn. rewrite <- app_assoc. cbn. apply NoDup_mid; assumption.
    - intros i Hi. rewrite req_ids_app in Hi. cbn in Hi. rewrite <- app_assoc in Hi. cbn in Hi.
      apply in_app_or in Hi. destruct Hi as [Hi|[<-|Hi]]; [|exact Hid|].
      + apply HS, x_sent0, in_or_app. left. exact Hi.
      + apply HS, x_sent0, in_or_app. right. exact Hi.
  Qed.

  (* ---- the client forgets id and writes its cancellation ---- *)
  Lemma cross_send_cancel p c c' l s id tr :
    (forall x, In x (ifl c') <-> In x (ifl c) /\ x <> id) ->
    (forall x w, In (x, w) (Client.timers c') -> In (x, w) (Client.timers c)) ->
    (forall i, sent_id c i -> sent_id c' i) ->
    cross T p c l s ->
    cross T p c' (with_c2s l (l_c2s l ++ [Server.MCancel id tr])) s.
  Proof.
    intros HI HT HS X. destruct X as [x_cgone0 x_sgone0 x_req0 x_trk0 x_t00 x_t10 x_clamp0 x_nodup0 x_sent0 x_keys0 x_trk_h0 x_s2c_h0 x_s2c_u0].
    assert (HC : forall rest, has_cancel id (rest ++ [Server.MCancel id tr])).
    { intro rest. exists tr. apply in_or_app. right. left. reflexivity. }
    constructor; cbn [l_c2s l_s2c l_cgone l_sgone with_c2s]; auto.
    - eapply reqs_ok_snoc; [|exact I|exact x_req0].
      cbn. intros id' dl' rest [A|[A|A]]; auto.
      + destruct (N.eq_dec id' id) as [->|Hne]; [right; left; apply HC|left; apply HI; auto].
      + right. left. apply has_cancel_app_l, A.
    - intros e He. destruct (x_trk0 e He) as [A|[A|A]]; auto.
      + destruct (N.eq_dec (Server.e_id e) id) as [->|Hne]; [right; left; apply HC|left; apply HI; auto].
      + right. left. apply has_cancel_app_l, A.
    - intros id' dl' tr' b' w' Hm Hw'. apply in_app_or in Hm. destruct Hm as [Hm|[Hm|[]]]; [|discriminate].
      eapply x_t00; [exact Hm|apply HT, Hw'].
    - intros id' ws w' Hs Hw'. eapply x_t10; [exact Hs|apply HT, Hw'].
    - intros id' dl' tr' b' Hm. apply in_app_or in Hm. destruct Hm as [Hm|[Hm|[]]]; [|discriminate].
      eapply x_clamp0, Hm.
    - rewrite req_ids_app. cbn. rewrite app_nil_r. exact x_nodup0.
    - intros i Hi. rewrite req_ids_app in Hi. cbn in Hi. rewrite app_nil_r in Hi. apply HS, x_sent0, Hi.
  Qed.

  (* ---- the server changes, nothing `cross` looks at does ---- *)
  Lemma cross_sframe p c l s s' :
    Server.s_inflight s' = Server.s_inflight s -> Server.s_timers s' = Server.s_timers s ->
    hids s' = hids s -> cross T p c l s -> cross T p c l s'.
  Proof.
    intros E1 E2 E3 X. destruct X as [x_cgone0 x_sgone0 x_req0 x_trk0 x_t00 x_t10 x_clamp0 x_nodup0 x_sent0 x_keys0 x_trk_h0 x_s2c_h0 x_s2c_u0].
    constructor; unfold tids in *; rewrite ?E1, ?E2, ?E3; auto.
  Qed.

  (* ---- the server takes a message off the link and does nothing with it ---- *)
  Lemma cross_pop_c2s p c l s m r :
    l_c2s l = m :: r -> (forall id tr, m = Server.MCancel id tr -> ~ In id (tids s)) ->
    cross T p c l s -> cross T p c (with_c2s l r) s.
  Proof.
    intros E Hc X. destruct X as [x_cgone0 x_sgone0 x_req0 x_trk0 x_t00 x_t10 x_clamp0 x_nodup0 x_sent0 x_keys0 x_trk_h0 x_s2c_h0 x_s2c_u0].
    rewrite E in *.
    constructor; cbn [l_c2s l_s2c l_cgone l_sgone with_c2s]; auto.
    - destruct m; cbn in x_req0; [apply x_req0|exact x_req0].
    - intros e He. destruct (x_trk0 e He) as [A|[A|A]]; auto.
      destruct A as (tr & [A|A]); [|right; left; exists tr; exact A].
      exfalso. eapply Hc; [exact A|]. apply in_map, He.
    - intros id dl tr b w Hm. apply (x_t00 id dl tr b). right. exact Hm.
    - intros id dl tr b Hm. eapply x_clamp0. right. exact Hm.
    - destruct m; cbn in x_nodup0; [inversion x_nodup0; assumption|exact x_nodup0].
    - intros i Hi. apply x_sent0. destruct m; cbn; [right; exact Hi|exact Hi].
  Qed.

  (* ---- the server takes request id off the link and registers it ---- *)
  Lemma cross_start p c l s s' id dl tr b r e ws :
    l_c2s l = Server.MReq id dl tr b :: r ->
    Server.s_inflight s' = Server.s_inflight s ++ [e] -> Server.e_id e = id ->
    Server.s_timers s' = Server.s_timers s ++ [(id, ws)] -> (ws = T + N.min (dl - T) MAXT)%N ->
    hids s' = hids s ->
    cross T p c l s -> cross T (id :: p) c (with_c2s l r) s'.
  Proof.
    intros E Ei Ee Et Ew Eh X. destruct X as [x_cgone0 x_sgone0 x_req0 x_trk0 x_t00 x_t10 x_clamp0 x_nodup0 x_sent0 x_keys0 x_trk_h0 x_s2c_h0 x_s2c_u0].
    rewrite E in *. cbn in x_req0, x_nodup0, x_sent0. destruct x_req0 as [Hid Hrest].
    assert (Hnh : ~ In id (hids s)).
    { inversion x_nodup0 as [|? ? Hn _]; subst. intro Hin. apply Hn, in_or_app. right. apply in_or_app. left. exact Hin. }
    constructor; cbn [l_c2s l_s2c l_cgone l_sgone with_c2s]; unfold tids in *; rewrite ?Ei, ?Et, ?Eh; auto.
    - intros e' He'. apply in_app_or in He'. destruct He' as [He'|[<-|[]]].
      + destruct (x_trk0 e' He') as [A|[A|A]]; auto.
        * destruct A as (tr' & [A|A]); [discriminate|right; left; exists tr'; exact A].
        * destruct A as (w & A & B). right. right. exists w. split; [apply in_or_app; left; exact A|exact B].
      + rewrite Ee. destruct Hid as [A|[A|A]]; auto.
        right. right. exists ws. split; [apply in_or_app; right; left; reflexivity|]. lia.
    - intros id' dl' tr' b' w Hm. apply (x_t00 id' dl' tr' b'). right. exact Hm.
    - intros id' ws' w Hs Hw. apply in_app_or in Hs. destruct Hs as [Hs|[Hs|[]]].
      + eapply x_t10; eassumption.
      + injection Hs as <- <-. assert (dl <= w)%N by (eapply x_t00; [left; reflexivity|exact Hw]). lia.
    - intros id' dl' tr' b' Hm. eapply x_clamp0. right. exact Hm.
    - inversion x_nodup0 as [|? ? Hn Hd]; subst.
      rewrite app_assoc. apply NoDup_mid; rewrite <- app_assoc; assumption.
    - intros i Hi. apply x_sent0. rewrite app_assoc in Hi. apply in_app_or in Hi.
      destruct Hi as [Hi|[<-|Hi]]; [right; rewrite app_assoc; apply in_or_app; left; exact Hi|left; reflexivity|].
      right. rewrite app_assoc. apply in_or_app. right. exact Hi.
    - rewrite !map_app. cbn. rewrite x_keys0, Ee. reflexivity.
    - intros i Hi. rewrite map_app in Hi. apply in_app_or in Hi. destruct Hi as [Hi|[<-|[]]].
      + specialize (x_trk_h0 i Hi). apply in_app_or in x_trk_h0. apply in_or_app.
        destruct x_trk_h0; [left|right; right]; assumption.
      + rewrite Ee. apply in_or_app. right. left. reflexivity.
    - intros x Hx Hin. rewrite map_app in Hin. apply in_app_or in Hin. destruct Hin as [Hin|[Hin|[]]].
      + eapply x_s2c_u0; eassumption.
      + apply Hnh. rewrite Ee in Hin. rewrite Hin. apply x_s2c_h0, Hx.
  Qed.

  (* ---- the server forgets id (cancel read / expired / response handed to the sink) ---- *)
  Lemma cross_untrack p c l s s' id :
    Server.s_inflight s' = Server.drop_entry id (Server.s_inflight s) ->
    Server.s_timers s' = Server.drop_timer id (Server.s_timers s) ->
    hids s' = hids s -> cross T p c l s -> cross T p c l s'.
  Proof.
    intros Ei Et Eh X. destruct X as [x_cgone0 x_sgone0 x_req0 x_trk0 x_t00 x_t10 x_clamp0 x_nodup0 x_sent0 x_keys0 x_trk_h0 x_s2c_h0 x_s2c_u0].
    assert (Hsub : forall e, In e (Server.s_inflight s') -> In e (Server.s_inflight s) /\ Server.e_id e <> id).
    { intros e He. rewrite Ei in He. unfold Server.drop_entry in He. apply filter_In in He.
      destruct He as [He Hb]. split; [exact He|]. intro Heq. rewrite Heq, N.eqb_refl in Hb. discriminate. }
    constructor; unfold tids in *; rewrite ?Eh; auto.
    - intros e He. destruct (Hsub e He) as [He0 Hne]. destruct (x_trk0 e He0) as [A|[A|A]]; auto.
      destruct A as (w & A & B). right. right. exists w. split; [|exact B].
      rewrite Et. unfold Server.drop_timer. apply filter_In. split; [exact A|]. cbn.
      apply negb_true_iff, N.eqb_neq. exact Hne.
    - intros id' ws w Hs Hw. rewrite Et in Hs. unfold Server.drop_timer in Hs. apply filter_In in Hs.
      eapply x_t10; [apply Hs|exact Hw].
    - rewrite Ei, Et. unfold Server.drop_entry, Server.drop_timer.
      clear - x_keys0. revert x_keys0. generalize (Server.s_timers s) (Server.s_inflight s).
      intros lt. induction lt as [|[k w] r IH]; intros [|e li]; cbn; try discriminate; [reflexivity|].
      intros [= -> H]. destruct (N.eqb (Server.e_id e) id); cbn; [apply IH, H|f_equal; apply IH, H].
    - intros i Hi. apply x_trk_h0. apply in_map_iff in Hi. destruct Hi as (e & <- & He).
      apply in_map. apply Hsub, He.
    - intros x Hx Hin. apply (x_s2c_u0 x Hx). apply in_map_iff in Hin. destruct Hin as (e & <- & He).
      apply in_map. apply Hsub, He.
  Qed.

  (* ---- the server writes the response of an untracked incarnation ---- *)
  Lemma cross_send_resp p c l s x :
    In (Client.r_id x) (hids s) -> ~ In (Client.r_id x) (tids s) ->
    cross T p c l s -> cross T p c (with_s2c l (l_s2c l ++ [x])) s.
  Proof.
    intros Hh Hu X. destruct X as [x_cgone0 x_sgone0 x_req0 x_trk0 x_t00 x_t10 x_clamp0 x_nodup0 x_sent0 x_keys0 x_trk_h0 x_s2c_h0 x_s2c_u0].
    constructor; cbn [l_c2s l_s2c l_cgone l_sgone with_s2c]; auto.
    - intros y Hy. apply in_app_or in Hy. destruct Hy as [Hy|[<-|[]]]; auto.
    - intros y Hy. apply in_app_or in Hy. destruct Hy as [Hy|[<-|[]]]; auto.
  Qed.

  (* ---- the registered request is handed to the application: a new incarnation ---- *)
  Lemma cross_yield p c l s s' id :
    Server.s_inflight s' = Server.s_inflight s -> Server.s_timers s' = Server.s_timers s ->
    hids s' = hids s ++ [id] -> cross T (id :: p) c l s -> cross T p c l s'.
  Proof.
    intros E1 E2 E3 X. destruct X as [x_cgone0 x_sgone0 x_req0 x_trk0 x_t00 x_t10 x_clamp0 x_nodup0 x_sent0 x_keys0 x_trk_h0 x_s2c_h0 x_s2c_u0].
    assert (EA : forall {A} (a : list A) x b, (a ++ [x]) ++ b = a ++ x :: b).
    { intros A a x b. rewrite <- app_assoc. reflexivity. }
    constructor; unfold tids in *; rewrite ?E1, ?E2, ?E3, ?EA; auto.
    intros x Hx. apply in_or_app. left. apply x_s2c_h0, Hx.
  Qed.
End Effects.

(* ---- the clock advances ---- *)
Lemma cross_advance T dt p c l s : cross T p c l s -> cross (T + dt) p c l s.
Proof.
  intro X. destruct X as [x_cgone0 x_sgone0 x_req0 x_trk0 x_t00 x_t10 x_clamp0 x_nodup0 x_sent0 x_keys0 x_trk_h0 x_s2c_h0 x_s2c_u0].
  constructor; auto.
  - eapply reqs_ok_mono; [|exact x_req0]. cbn. intros id dl rest [A|[A|A]]; auto. right. right. lia.
  - intros e He. destruct (x_trk0 e He) as [A|[A|(w & A & B)]]; auto.
    right. right. exists w. split; [exact A|lia].
  - intros id ws w Hs Hw. specialize (x_t10 id ws w Hs Hw). lia.
  - intros id dl tr b Hm. specialize (x_clamp0 id dl tr b Hm). lia.
Qed.
