(* Server side of tarpc: executable model of
     tarpc/src/server.rs                       BaseChannel (Stream + Sink), Requests, ResponseGuard,
                                               InFlightRequest::execute (Abortable(handler; send))
     tarpc/src/server/in_flight_requests.rs    InFlightRequests (request table + DelayQueue timers)
     tarpc/src/server/limits/requests_per_channel.rs   MaxRequests::poll_next
     tarpc/src/cancellations.rs                server-side cancel queue
   One Gallina function per Rust function, same order of effects.  No proofs in this file.

   The transport is ABSTRACT: everything is parameterised by a state type T, a `transport T`
   (Transport.v), a remote-control function `ctl : T -> C -> T` (what the environment may do to
   the transport between polls) and a fuel measure `tfuel : T -> nat` (how many inbound items the
   transport can still hand out; only used to bound the polling loops).  The scripted transport
   of Transport.v is the instance used by the correspondence check.

   Third-party behaviour that is modelled, not verified: tokio bounded mpsc (FIFO permit waiters,
   a permit returns when the receiver pops), tokio unbounded mpsc, futures Abortable (abort flag
   checked before the inner future is polled), tokio-util DelayQueue (ms granularity; a timer is
   due when clock >= start + when_ms; order among due timers: TimerWheel.v). *)
From Coq Require Import List Bool Arith NArith.
Import ListNotations.
From TarpcV Require Import Base Transport TimerWheel.

(* ------------------------------------------------------------------------------------------ *)
(* messages *)
Inductive cmsg := MReq (id dl tr body : N) | MCancel (id tr : N).
(* response bodies: handler value, handler ServerError, the throttle reply
   ServerError{kind: WouldBlock, detail: "server throttled the request."}, anything else *)
Inductive rbody := BOk (v : N) | BErr | BThrottle | BOther.
Record response := mkresp { resp_id : N; resp_body : rbody }.

Definition rbody_eqb (a b : rbody) : bool :=
  match a, b with
  | BOk x, BOk y => N.eqb x y
  | BErr, BErr | BThrottle, BThrottle | BOther, BOther => true
  | _, _ => false
  end.
Definition response_eqb (a b : response) : bool :=
  N.eqb (resp_id a) (resp_id b) && rbody_eqb (resp_body a) (resp_body b).
Definition cmsg_eqb (a b : cmsg) : bool :=
  match a, b with
  | MReq i d t b, MReq i' d' t' b' => N.eqb i i' && N.eqb d d' && N.eqb t t' && N.eqb b b'
  | MCancel i t, MCancel i' t' => N.eqb i i' && N.eqb t t'
  | _, _ => false
  end.

Notation call := (tcall response cmsg).

(* util.rs: MAX_TIMEOUT = 365 days, in ms *)
Definition MAX_TIMEOUT : N := 31536000000%N.

(* one tracked request: request_data entry.  e_h identifies the AbortHandle/AbortRegistration
   pair created by start_request (model-only numbering) *)
Record sentry := { e_id : N; e_h : nat; e_dl : N }.

(* a TrackedRequest as it leaves BaseChannel::poll_next *)
Record treq := { q_id : N; q_h : nat; q_dl : N; q_tr : N; q_body : N }.

(* handler incarnations: one per InFlightRequest yielded to the application, numbered in yield
   order (the harness numbers them the same way) *)
Inductive hstate :=
| HYielded                 (* InFlightRequest held by the application, execute() not polled yet *)
| HRunning                 (* handler polled at least once, not finished *)
| HWait (b : rbody)        (* handler finished; response_tx.send queued for a permit *)
| HPermit (b : rbody)      (* a permit was assigned to the queued send, not polled since *)
| HDone                    (* execute() returned: response buffered, or aborted *)
| HGone.                   (* dropped by the application before execute() returned *)
Record hrec := { h_h : nat; h_id : N; h_st : hstate }.

Inductive hstep := SRun | SFinish (v : N) | SFail.

Inductive pres (A : Type) := PReady (x : A) | PEnd | PErr (a : activity) | PPending | PFuel.
Arguments PReady {A}. Arguments PEnd {A}. Arguments PErr {A}. Arguments PPending {A}.
Arguments PFuel {A}.

Inductive obs :=
| OCalls (l : list call)                       (* the transport calls of one Requests poll *)
| OYield (k : nat) (id dl tr body : N)
| OPending | OStreamEnd | OStreamErr (a : activity) | OFuel | OPanic
| OHPolled (k : nat) | OHDone (k : nat) (b : rbody) | OHDropped (k : nat)
| OExecReady (k : nat) | OExecPending (k : nat)
| OGauges (inflight timers : nat)
| OOracle.                                     (* the timer-order oracle disagreed (see TimerWheel.v) *)

Inductive op (C : Type) :=
| OPoll | OCtl (c : C) | OHandlerPoll (k : nat) (st : hstep) | ODropHandler (k : nat)
| ODropYielded (k : nat) | ODropChannel | OAdvance (dt : N).
Arguments OPoll {C}. Arguments OCtl {C}. Arguments OHandlerPoll {C}. Arguments ODropHandler {C}.
Arguments ODropYielded {C}. Arguments ODropChannel {C}. Arguments OAdvance {C}.

Record cfg := mkcfg { cfg_limit : option nat; cfg_buf : nat }.
Definition wf (c : cfg) : Prop := 1 <= cfg_buf c.

Inductive rstatus := RSReady | RSPending | RSClosed.
(* ReceiverStatus::combine *)
Definition combine (a b : rstatus) : rstatus :=
  match a, b with
  | RSReady, _ | _, RSReady => RSReady
  | RSClosed, RSClosed => RSClosed
  | _, _ => RSPending
  end.

Section Server.
  Context {T C : Type}.
  Variable tp : transport T response cmsg.
  Variable ctl : T -> C -> T.
  Variable tfuel : T -> nat.

  Record sstate := mkst {
    s_t : T;
    s_fused : bool;
    s_inflight : list sentry;
    s_timers : list (N * N);
    s_dq : dqueue;
    s_cancels : list N;
    s_aborted : list nat;
    s_next_h : nat;
    s_respq : list response;
    s_permits : nat;
    s_waiters : list nat;
    s_handlers : list hrec;
    s_now : N;
    s_dropped : bool;
    s_bad : bool;
    s_log : list call
  }.
  Definition set_t (s : sstate) (v : T) : sstate :=
    mkst v (s_fused s) (s_inflight s) (s_timers s) (s_dq s) (s_cancels s) (s_aborted s) (s_next_h s) (s_respq s) (s_permits s) (s_waiters s) (s_handlers s) (s_now s) (s_dropped s) (s_bad s) (s_log s).
  Definition set_fused (s : sstate) (v : bool) : sstate :=
    mkst (s_t s) v (s_inflight s) (s_timers s) (s_dq s) (s_cancels s) (s_aborted s) (s_next_h s) (s_respq s) (s_permits s) (s_waiters s) (s_handlers s) (s_now s) (s_dropped s) (s_bad s) (s_log s).
  Definition set_inflight (s : sstate) (v : list sentry) : sstate :=
    mkst (s_t s) (s_fused s) v (s_timers s) (s_dq s) (s_cancels s) (s_aborted s) (s_next_h s) (s_respq s) (s_permits s) (s_waiters s) (s_handlers s) (s_now s) (s_dropped s) (s_bad s) (s_log s).
  Definition set_timers (s : sstate) (v : list (N * N)) : sstate :=
    mkst (s_t s) (s_fused s) (s_inflight s) v (s_dq s) (s_cancels s) (s_aborted s) (s_next_h s) (s_respq s) (s_permits s) (s_waiters s) (s_handlers s) (s_now s) (s_dropped s) (s_bad s) (s_log s).
  Definition set_dq (s : sstate) (v : dqueue) : sstate :=
    mkst (s_t s) (s_fused s) (s_inflight s) (s_timers s) v (s_cancels s) (s_aborted s) (s_next_h s) (s_respq s) (s_permits s) (s_waiters s) (s_handlers s) (s_now s) (s_dropped s) (s_bad s) (s_log s).
  Definition set_cancels (s : sstate) (v : list N) : sstate :=
    mkst (s_t s) (s_fused s) (s_inflight s) (s_timers s) (s_dq s) v (s_aborted s) (s_next_h s) (s_respq s) (s_permits s) (s_waiters s) (s_handlers s) (s_now s) (s_dropped s) (s_bad s) (s_log s).
  Definition set_aborted (s : sstate) (v : list nat) : sstate :=
    mkst (s_t s) (s_fused s) (s_inflight s) (s_timers s) (s_dq s) (s_cancels s) v (s_next_h s) (s_respq s) (s_permits s) (s_waiters s) (s_handlers s) (s_now s) (s_dropped s) (s_bad s) (s_log s).
  Definition set_next_h (s : sstate) (v : nat) : sstate :=
    mkst (s_t s) (s_fused s) (s_inflight s) (s_timers s) (s_dq s) (s_cancels s) (s_aborted s) v (s_respq s) (s_permits s) (s_waiters s) (s_handlers s) (s_now s) (s_dropped s) (s_bad s) (s_log s).
  Definition set_respq (s : sstate) (v : list response) : sstate :=
    mkst (s_t s) (s_fused s) (s_inflight s) (s_timers s) (s_dq s) (s_cancels s) (s_aborted s) (s_next_h s) v (s_permits s) (s_waiters s) (s_handlers s) (s_now s) (s_dropped s) (s_bad s) (s_log s).
  Definition set_permits (s : sstate) (v : nat) : sstate :=
    mkst (s_t s) (s_fused s) (s_inflight s) (s_timers s) (s_dq s) (s_cancels s) (s_aborted s) (s_next_h s) (s_respq s) v (s_waiters s) (s_handlers s) (s_now s) (s_dropped s) (s_bad s) (s_log s).
  Definition set_waiters (s : sstate) (v : list nat) : sstate :=
    mkst (s_t s) (s_fused s) (s_inflight s) (s_timers s) (s_dq s) (s_cancels s) (s_aborted s) (s_next_h s) (s_respq s) (s_permits s) v (s_handlers s) (s_now s) (s_dropped s) (s_bad s) (s_log s).
  Definition set_handlers (s : sstate) (v : list hrec) : sstate :=
    mkst (s_t s) (s_fused s) (s_inflight s) (s_timers s) (s_dq s) (s_cancels s) (s_aborted s) (s_next_h s) (s_respq s) (s_permits s) (s_waiters s) v (s_now s) (s_dropped s) (s_bad s) (s_log s).
  Definition set_now (s : sstate) (v : N) : sstate :=
    mkst (s_t s) (s_fused s) (s_inflight s) (s_timers s) (s_dq s) (s_cancels s) (s_aborted s) (s_next_h s) (s_respq s) (s_permits s) (s_waiters s) (s_handlers s) v (s_dropped s) (s_bad s) (s_log s).
  Definition set_dropped (s : sstate) (v : bool) : sstate :=
    mkst (s_t s) (s_fused s) (s_inflight s) (s_timers s) (s_dq s) (s_cancels s) (s_aborted s) (s_next_h s) (s_respq s) (s_permits s) (s_waiters s) (s_handlers s) (s_now s) v (s_bad s) (s_log s).
  Definition set_bad (s : sstate) (v : bool) : sstate :=
    mkst (s_t s) (s_fused s) (s_inflight s) (s_timers s) (s_dq s) (s_cancels s) (s_aborted s) (s_next_h s) (s_respq s) (s_permits s) (s_waiters s) (s_handlers s) (s_now s) (s_dropped s) v (s_log s).
  Definition set_log (s : sstate) (v : list call) : sstate :=
    mkst (s_t s) (s_fused s) (s_inflight s) (s_timers s) (s_dq s) (s_cancels s) (s_aborted s) (s_next_h s) (s_respq s) (s_permits s) (s_waiters s) (s_handlers s) (s_now s) (s_dropped s) (s_bad s) v.

  (* -------------------------------------------------------------------------------------- *)
  (* transport calls, logged *)
  Definition do_ready (s : sstate) : tres * sstate :=
    let '(r, t') := t_ready tp (s_t s) in (r, set_log (set_t s t') (CReady r :: s_log s)).
  Definition do_flush (s : sstate) : tres * sstate :=
    let '(r, t') := t_flush tp (s_t s) in (r, set_log (set_t s t') (CFlush r :: s_log s)).
  Definition do_send (m : response) (s : sstate) : sres * sstate :=
    let '(r, t') := t_send tp (s_t s) m in (r, set_log (set_t s t') (CSend m r :: s_log s)).
  Definition do_next (s : sstate) : rres cmsg * sstate :=
    let '(r, t') := t_next tp (s_t s) in (r, set_log (set_t s t') (CNext r :: s_log s)).

  (* -------------------------------------------------------------------------------------- *)
  (* InFlightRequests *)
  Definition tracked (id : N) (s : sstate) : bool :=
    existsb (fun e => N.eqb (e_id e) id) (s_inflight s).
  Definition find_entry (id : N) (s : sstate) : option sentry :=
    find (fun e => N.eqb (e_id e) id) (s_inflight s).
  Definition drop_entry (id : N) (l : list sentry) : list sentry :=
    filter (fun e => negb (N.eqb (e_id e) id)) l.
  Definition drop_timer (id : N) (l : list (N * N)) : list (N * N) :=
    filter (fun p => negb (N.eqb (fst p) id)) l.

  (* in_flight_requests.rs: start_request.  timeout = min(deadline.time_until(), MAX_TIMEOUT);
     deadlines.insert(id, timeout): the timer is due at now + timeout *)
  Definition start_request (id dl : N) (s : sstate) : option (nat * sstate) :=
    if tracked id s then None
    else
      let timeout := N.min (dl - s_now s) MAX_TIMEOUT in
      let when := (s_now s + timeout)%N in
      let h := s_next_h s in
      let s1 := set_inflight s (s_inflight s ++ [{| e_id := id; e_h := h; e_dl := dl |}]) in
      let s2 := set_timers s1 (s_timers s1 ++ [(id, when)]) in
      let s3 := set_dq s2 (dq_insert id when (s_dq s2)) in
      Some (h, set_next_h s3 (S h)).

  (* in_flight_requests.rs: cancel_request (a Cancel message from the wire): abort + forget *)
  Definition cancel_request (id : N) (s : sstate) : sstate :=
    match find_entry id s with
    | Some e =>
      let s1 := set_inflight s (drop_entry id (s_inflight s)) in
      let s2 := set_aborted s1 (e_h e :: s_aborted s1) in
      let s3 := set_timers s2 (drop_timer id (s_timers s2)) in
      set_dq s3 (dq_remove id (s_dq s3))
    | None => s
    end.

  (* in_flight_requests.rs: remove_request (response sent, or server-side cancel): forget only *)
  Definition remove_request (id : N) (s : sstate) : bool * sstate :=
    match find_entry id s with
    | Some e =>
      let s1 := set_inflight s (drop_entry id (s_inflight s)) in
      let s2 := set_timers s1 (drop_timer id (s_timers s1)) in
      (true, set_dq s2 (dq_remove id (s_dq s2)))
    | None => (false, s)
    end.

  (* in_flight_requests.rs: poll_expired.  Due timers: when <= now.  The oracle picks among them. *)
  Definition due (s : sstate) : list (N * N) :=
    filter (fun p => N.leb (snd p) (s_now s)) (s_timers s).

  Definition poll_expired (s : sstate) : rstatus * sstate :=
    match s_timers s with
    | [] => (RSClosed, s)                       (* deadlines.is_empty() => Ready(None) *)
    | _ =>
      let '(choice, dq') := dq_poll (s_now s) (s_dq s) in
      let s0 := set_dq s dq' in
      match due s with
      | [] =>
        (RSPending, match choice with DQPending => s0 | _ => set_bad s0 true end)
      | (id0, _) :: _ =>
        let '(victim, agree) :=
          match choice with
          | DQSome i => if existsb (fun p => N.eqb (fst p) i) (due s) then (i, true) else (id0, false)
          | _ => (id0, false)
          end in
        let s1 := if agree then s0 else set_bad (set_dq s0 (dq_remove victim (s_dq s0))) true in
        let s2 := set_timers s1 (drop_timer victim (s_timers s1)) in
        (* request_data.remove(expired id) => abort_handle.abort() *)
        let s3 := match find_entry victim s2 with
                  | Some e => set_aborted (set_inflight s2 (drop_entry victim (s_inflight s2)))
                                          (e_h e :: s_aborted s2)
                  | None => s2
                  end in
        (RSReady, s3)
      end
    end.

  (* -------------------------------------------------------------------------------------- *)
  (* BaseChannel *)

  (* impl Stream for BaseChannel: poll_next *)
  Fixpoint base_poll_next (fuel : nat) (s : sstate) : pres treq * sstate :=
    match fuel with
    | O => (PFuel, s)
    | S f =>
      (* canceled_requests.poll_recv: Ready(Some id) => remove_request; Pending => Closed *)
      let '(cst, s1) :=
        match s_cancels s with
        | id :: r => (RSReady, snd (remove_request id (set_cancels s r)))
        | [] => (RSClosed, s)
        end in
      let '(est, s2) := poll_expired s1 in
      (* transport (Fuse): poll_next *)
      let finish (rst : rstatus) (sx : sstate) :=
        match combine (combine cst est) rst with
        | RSReady => base_poll_next f sx
        | RSClosed => (PEnd, sx)
        | RSPending => (PPending, sx)
        end in
      if s_fused s2 then finish RSClosed s2
      else
        let '(r, s3) := do_next s2 in
        match r with
        | RErr => (PErr ARead, s3)
        | RItem (MReq id dl tr body) =>
          match start_request id dl s3 with
          | Some (h, s4) =>
            (PReady {| q_id := id; q_h := h; q_dl := dl; q_tr := tr; q_body := body |}, s4)
          | None => base_poll_next f s3          (* AlreadyExistsError => continue *)
          end
        | RItem (MCancel id _) => finish RSReady (cancel_request id s3)
        | REof => finish RSClosed (set_fused s3 true)
        | RPending => finish RSPending s3
        end
    end.

  (* impl Sink for BaseChannel: start_send: forward only while the id is tracked *)
  Definition base_start_send (m : response) (s : sstate) : option activity * sstate :=
    let '(was, s1) := remove_request (resp_id m) s in
    if was then
      let '(r, s2) := do_send m s1 in
      (match r with SOk => None | SErr => Some AWrite end, s2)
    else (None, s1).

  (* -------------------------------------------------------------------------------------- *)
  (* bounded response queue (tokio mpsc): a popped message returns its permit, which goes to
     the first queued sender if there is one *)
  Fixpoint set_hst (k : nat) (st : hstate) (l : list hrec) : list hrec :=
    match l, k with
    | [], _ => []
    | x :: r, O => {| h_h := h_h x; h_id := h_id x; h_st := st |} :: r
    | x :: r, S k' => x :: set_hst k' st r
    end.

  Definition add_permit (s : sstate) : sstate :=
    match s_waiters s with
    | k :: r =>
      let s1 := set_waiters s r in
      match nth_error (s_handlers s1) k with
      | Some {| h_st := HWait b |} => set_handlers s1 (set_hst k (HPermit b) (s_handlers s1))
      | _ => s1
      end
    | [] => set_permits s (S (s_permits s))
    end.

  (* -------------------------------------------------------------------------------------- *)
  (* MaxRequests::poll_next *)
  Fixpoint maxreq_poll_next (fuel : nat) (limit : nat) (s : sstate) : pres treq * sstate :=
    match fuel with
    | O => (PFuel, s)
    | S f =>
      if limit <=? length (s_inflight s) then
        let '(r, s1) := do_ready s in
        match r with
        | TErr => (PErr AReady, s1)
        | TPending => (PPending, s1)
        | TOk =>
          let '(x, s2) := base_poll_next (S f) s1 in
          match x with
          | PReady q =>
            let '(e, s3) := base_start_send (mkresp (q_id q) BThrottle) s2 in
            match e with
            | Some a => (PErr a, s3)
            | None => maxreq_poll_next f limit s3
            end
          | other => (other, s2)
          end
        end
      else base_poll_next (S f) s
    end.

  (* -------------------------------------------------------------------------------------- *)
  (* Requests *)
  Inductive wres := WOk | WPending | WErr (a : activity).

  (* Requests::ensure_writeable (the repaired one: ready, else flush once, ready once more) *)
  Definition ensure_writeable (s : sstate) : wres * sstate :=
    let '(r, s1) := do_ready s in
    match r with
    | TErr => (WErr AReady, s1)
    | TOk => (WOk, s1)
    | TPending =>
      let '(f, s2) := do_flush s1 in
      match f with
      | TErr => (WErr AFlush, s2)
      | TPending => (WPending, s2)
      | TOk =>
        let '(r2, s3) := do_ready s2 in
        match r2 with
        | TErr => (WErr AReady, s3)
        | TPending => (WPending, s3)
        | TOk => (WOk, s3)
        end
      end
    end.

  (* Requests::poll_next_response *)
  Definition poll_next_response (s : sstate) : pres response * sstate :=
    let '(w, s1) := ensure_writeable s in
    match w with
    | WErr a => (PErr a, s1)
    | WPending => (PPending, s1)
    | WOk =>
      match s_respq s1 with
      | m :: r => (PReady m, add_permit (set_respq s1 r))
      | [] => (PPending, s1)                   (* Requests itself holds a Sender: never None *)
      end
    end.

  (* Requests::pump_write *)
  Definition pump_write (read_closed : bool) (s : sstate) : pres unit * sstate :=
    let '(x, s1) := poll_next_response s in
    match x with
    | PErr a => (PErr a, s1)
    | PFuel => (PFuel, s1)
    | PReady m =>
      let '(e, s2) := base_start_send m s1 in
      (match e with Some a => PErr a | None => PReady tt end, s2)
    | PEnd | PPending =>
      let '(f, s2) := do_flush s1 in
      match f with
      | TErr => (PErr AFlush, s2)
      | TPending => (PPending, s2)
      | TOk =>
        match x with
        | PEnd => (PEnd, s2)
        | _ => if read_closed && Nat.eqb (length (s_inflight s2)) 0 then (PEnd, s2)
               else (PPending, s2)
        end
      end
    end.

  (* Requests::pump_read: the channel is BaseChannel or MaxRequests<BaseChannel> *)
  Definition pump_read (c : cfg) (fuel : nat) (s : sstate) : pres treq * sstate :=
    match cfg_limit c with
    | None => base_poll_next fuel s
    | Some l => maxreq_poll_next fuel l s
    end.

  (* impl Stream for Requests: poll_next.  A request that was read but is not returned because
     pump_write failed is dropped: its (armed) response guard queues a server-side cancel. *)
  Fixpoint requests_poll_next (c : cfg) (fuel : nat) (s : sstate) : pres treq * sstate :=
    match fuel with
    | O => (PFuel, s)
    | S f =>
      let '(rd, s1) := pump_read c (S f) s in
      match rd with
      | PErr a => (PErr a, s1)
      | PFuel => (PFuel, s1)
      | _ =>
        let read_closed := match rd with PEnd => true | _ => false end in
        let '(wr, s2) := pump_write read_closed s1 in
        match wr with
        | PErr a =>
          (PErr a, match rd with
                   | PReady q => set_cancels s2 (s_cancels s2 ++ [q_id q])
                   | _ => s2 end)
        | PFuel => (PFuel, s2)
        | _ =>
          match rd, wr with
          | PEnd, PEnd => (PEnd, s2)
          | PReady q, _ => (PReady q, s2)
          | _, PReady _ => requests_poll_next c f s2
          | _, _ => (PPending, s2)
          end
        end
      end
    end.

  (* -------------------------------------------------------------------------------------- *)
  (* InFlightRequest::execute = Abortable(handler; response_tx.send(response).await), then
     response_guard.cancel = false *)
  Definition remove_waiter (k : nat) (l : list nat) : list nat :=
    filter (fun x => negb (Nat.eqb x k)) l.

  Definition execute_poll (k : nat) (st : hstep) (s : sstate) : sstate * list obs :=
    match nth_error (s_handlers s) k with
    | None => (s, [])
    | Some hr =>
      let finish (sx : sstate) := set_handlers sx (set_hst k HDone (s_handlers sx)) in
      match h_st hr with
      | HDone | HGone => (s, [])
      | cur =>
        if existsb (Nat.eqb (h_h hr)) (s_aborted s) then
          (* Abortable: the abort flag is checked first; everything inside is dropped *)
          match cur with
          | HRunning => (finish s, [OHDropped k; OExecReady k])
          | HWait _ => (finish (set_waiters s (remove_waiter k (s_waiters s))), [OExecReady k])
          | HPermit _ => (finish (add_permit s), [OExecReady k])
          | _ => (finish s, [OExecReady k])
          end
        else
          let try_send (b : rbody) (pre : list obs) :=
            if s_dropped s then (finish s, pre ++ [OExecReady k])       (* receiver gone: Err, ignored *)
            else match s_permits s with
                 | S p =>
                   (finish (set_respq (set_permits s p) (s_respq s ++ [mkresp (h_id hr) b])),
                    pre ++ [OExecReady k])
                 | O =>
                   (set_handlers (set_waiters s (s_waiters s ++ [k]))
                                 (set_hst k (HWait b) (s_handlers s)),
                    pre ++ [OExecPending k])
                 end in
          match cur with
          | HYielded | HRunning =>
            match st with
            | SRun => (set_handlers s (set_hst k HRunning (s_handlers s)),
                       [OHPolled k; OExecPending k])
            | SFinish v => try_send (BOk v) [OHPolled k; OHDone k (BOk v)]
            | SFail => try_send BErr [OHPolled k; OHDone k BErr]
            end
          | HWait b =>
            if s_dropped s then
              (finish (set_waiters s (remove_waiter k (s_waiters s))), [OExecReady k])
            else (s, [OExecPending k])
          | HPermit b =>
            if s_dropped s then (finish s, [OExecReady k])
            else (finish (set_respq s (s_respq s ++ [mkresp (h_id hr) b])), [OExecReady k])
          | _ => (s, [])
          end
      end
    end.

  (* ResponseGuard::drop with cancel = true: request_cancellation.cancel(id) *)
  Definition guard_cancel (id : N) (s : sstate) : sstate :=
    if s_dropped s then s else set_cancels s (s_cancels s ++ [id]).

  (* the application drops the execute() future of incarnation k (started, not finished) *)
  Definition drop_handler (k : nat) (s : sstate) : sstate * list obs :=
    match nth_error (s_handlers s) k with
    | None => (s, [])
    | Some hr =>
      let gone (sx : sstate) := guard_cancel (h_id hr) (set_handlers sx (set_hst k HGone (s_handlers sx))) in
      match h_st hr with
      | HRunning => (gone s, [OHDropped k])
      | HWait _ => (gone (set_waiters s (remove_waiter k (s_waiters s))), [])
      | HPermit _ => (gone (add_permit s), [])
      | _ => (s, [])
      end
    end.

  (* the application drops an InFlightRequest it never executed *)
  Definition drop_yielded (k : nat) (s : sstate) : sstate * list obs :=
    match nth_error (s_handlers s) k with
    | Some {| h_id := id; h_st := HYielded |} =>
      (guard_cancel id (set_handlers s (set_hst k HGone (s_handlers s))), [])
    | _ => (s, [])
    end.

  (* dropping Requests drops the channel: InFlightRequests::drop aborts everything tracked; the
     response receiver closes *)
  Definition drop_channel (s : sstate) : sstate :=
    if s_dropped s then s
    else set_dropped (set_aborted s (map e_h (s_inflight s) ++ s_aborted s)) true.

  (* -------------------------------------------------------------------------------------- *)
  Definition poll_fuel (s : sstate) : nat :=
    2 + 2 * tfuel (s_t s) + length (s_cancels s) + length (s_timers s) + length (s_respq s).

  Definition gauges (s : sstate) : list obs :=
    if s_dropped s then []
    else OGauges (length (s_inflight s)) (length (s_timers s))
           :: (if s_bad s then [OOracle] else []).

  Definition poll_requests (c : cfg) (s : sstate) : sstate * list obs :=
    if s_dropped s then (s, [])
    else
      let '(r, s1) := requests_poll_next c (poll_fuel s) (set_log s []) in
      let log := rev (s_log s1) in
      match r with
      | PReady q =>
        let k := length (s_handlers s1) in
        (set_handlers s1 (s_handlers s1 ++ [{| h_h := q_h q; h_id := q_id q; h_st := HYielded |}]),
         [OCalls log; OYield k (q_id q) (q_dl q) (q_tr q) (q_body q)])
      | PEnd => (s1, [OCalls log; OStreamEnd])
      | PErr a => (s1, [OCalls log; OStreamErr a])
      | PPending => (s1, [OCalls log; OPending])
      | PFuel => (s1, [OCalls log; OFuel])
      end.

  Definition step (c : cfg) (s : sstate) (o : op C) : sstate * list obs :=
    let '(s1, l) :=
      match o with
      | OPoll => poll_requests c s
      | OCtl x => (set_t s (ctl (s_t s) x), [])
      | OHandlerPoll k st => execute_poll k st s
      | ODropHandler k => drop_handler k s
      | ODropYielded k => drop_yielded k s
      | ODropChannel => (drop_channel s, [])
      | OAdvance dt => (set_now s (s_now s + dt)%N, [])
      end in
    (s1, l ++ gauges s1).

  Definition init (c : cfg) (t0 : T) : sstate :=
    mkst t0 false [] [] dq_init [] [] 0 [] (cfg_buf c) [] [] 0%N false false [].

  Fixpoint run_from (c : cfg) (s : sstate) (ops : list (op C)) : list (list obs) * sstate :=
    match ops with
    | [] => ([], s)
    | o :: r => let '(s1, l) := step c s o in
                let '(ls, s2) := run_from c s1 r in (l :: ls, s2)
    end.
  Definition run (c : cfg) (t0 : T) (ops : list (op C)) := run_from c (init c t0) ops.

End Server.

(* ------------------------------------------------------------------------------------------ *)
(* the instance used by the correspondence check: the scripted transport of Transport.v *)
Definition sop := op (trop cmsg).
Definition srun (c : cfg) (t0 : stransport cmsg) (ops : list sop) :=
  run (@scripted response cmsg) (@s_control cmsg) (fun t => length (st_inbox t)) c t0 ops.

Definition activity_eqb' := activity_eqb.
Definition obs_eqb (a b : obs) : bool :=
  match a, b with
  | OCalls l, OCalls l' => list_eqb (tcall_eqb response_eqb cmsg_eqb) l l'
  | OYield k i d t b, OYield k' i' d' t' b' =>
    Nat.eqb k k' && N.eqb i i' && N.eqb d d' && N.eqb t t' && N.eqb b b'
  | OPending, OPending | OStreamEnd, OStreamEnd | OFuel, OFuel | OPanic, OPanic
  | OOracle, OOracle => true
  | OStreamErr x, OStreamErr y => activity_eqb x y
  | OHPolled k, OHPolled k' | OHDropped k, OHDropped k' | OExecReady k, OExecReady k'
  | OExecPending k, OExecPending k' => Nat.eqb k k'
  | OHDone k b, OHDone k' b' => Nat.eqb k k' && rbody_eqb b b'
  | OGauges x y, OGauges x' y' => Nat.eqb x x' && Nat.eqb y y'
  | _, _ => false
  end.
