(* Chain proofs: a head call resolves at most once and never after it was abandoned
   (stmt_resp_once), for every depth, every op list and EVERY state (tainted or not, wrapped ids
   or not; the hypothesis chain_no_wrap of the pinned statement is not used).
   Invariant on the head client (node 0): the permit-waiter invariant (ClientWaiters), the
   monitor's head-call table is as long as the call table, and a head call the monitor marks
   over (resolved or abandoned) is in phase PClosing, PDone or PGone.  A dispatch poll moves only
   calls in PAcquiring (ClientWaiters.phk), a poll of another call leaves the phase class alone
   (ClientProofsG1Rec.poll_call_eff), and polling a call in such a phase returns nothing. *)
From Coq Require Import List Bool Arith NArith Lia.
Import ListNotations.
From TarpcV Require Import Base Transport TimerWheel Chain ChainSpec ChainBase ChainRespSpec ChainLoops.
From TarpcV Require Client Server ClientSimBase ClientProofsG1Rec ClientWaiters ChainResp3.

Notation cst := (Client.cstate (T := link)).
Notation winv := ClientSimBase.winv.
Notation ph := ClientProofsG1Rec.ph.
Notation phk := ClientWaiters.phk.

Definition fin (p : Client.phase) : Prop := p = Client.PClosing \/ p = Client.PDone \/ p = Client.PGone.
Lemma fin_not_acq p : fin p -> p <> Client.PAcquiring.
Proof. intros [->|[->| ->]]; discriminate. Qed.
Lemma fin_pclass p p' : ClientProofsG1Rec.pclass p = ClientProofsG1Rec.pclass p' -> fin p -> fin p'.
Proof. unfold fin. destruct p, p'; cbv; intros E H; try discriminate; intuition congruence. Qed.

(* the head-call table of the monitor against the head client *)
Record OC (hs : list hcall) (c : cst) : Prop := {
  oc_w : winv c;
  oc_len : length hs = length (Client.calls c);
  oc_over : forall j h, nth_error hs j = Some h -> hc_over h = true -> exists p, ph c j = Some p /\ fin p }.

Lemma oc_phk hs c c' : OC hs c -> winv c' -> phk c c' -> OC hs c'.
Proof.
  intros [W L O] W' (L' & K & _). constructor; [exact W'|congruence|].
  intros j h E H. destruct (O j h E H) as (p & Ep & Fp). exists p. split; [|exact Fp].
  rewrite K; [exact Ep|]. rewrite Ep. intros [= X]. exact (fin_not_acq p Fp X).
Qed.
Lemma oc_eq hs c c' :
  Client.calls c' = Client.calls c -> Client.waiters c' = Client.waiters c -> OC hs c -> OC hs c'.
Proof.
  intros E1 E2 H. eapply oc_phk; [exact H| |apply ClientWaiters.phk_eq, E1].
  eapply ClientSimBase.winv_frame; [apply H|exact E1|exact E2].
Qed.

Lemma length_set_over j l : length (set_over j l) = length l.
Proof. unfold set_over. destruct (nth_error l j); [apply ClientLemmas.set_nth_length|reflexivity]. Qed.
Lemma nth_set_over j l j' h :
  nth_error (set_over j l) j' = Some h -> hc_over h = true -> j' = j \/ nth_error l j' = Some h.
Proof.
  unfold set_over. destruct (nth_error l j) as [h0|] eqn:E; [|auto].
  destruct (Nat.eq_dec j' j) as [->|Hne]; [auto|]. rewrite ClientLemmas.nth_error_set_nth_other by congruence. auto.
Qed.

(* a phase class kept: the cls lists agree at j *)
Lemma fin_cls (c c' : cst) j p :
  nth_error (ClientProofsG1Rec.cls c') j = nth_error (ClientProofsG1Rec.cls c) j ->
  ph c j = Some p -> fin p -> exists p', ph c' j = Some p' /\ fin p'.
Proof.
  unfold ClientProofsG1Rec.cls, ClientProofsG1Rec.ph. rewrite !nth_error_map.
  destruct (nth_error (Client.calls c) j) as [k|]; [|discriminate].
  destruct (nth_error (Client.calls c') j) as [k'|]; [|discriminate]. cbn.
  intros E [= <-] F. exists (Client.c_phase k'). split; [reflexivity|].
  assert (E' : ClientProofsG1Rec.pclass (Client.c_phase k') = ClientProofsG1Rec.pclass (Client.c_phase k)) by congruence.
  eapply fin_pclass; [symmetry; exact E'|exact F].
Qed.

(* polling head call j *)
Lemma oc_poll_call hs c j r c1 :
  Client.poll_call c j = (r, c1) -> OC hs c -> winv c1 ->
  match r with
  | Client.CDone _ =>
    (exists h, nth_error hs j = Some h /\ hc_over h = false) /\ OC (set_over j hs) c1
  | _ => OC hs c1
  end.
Proof.
  intros E [W L O] W1. destruct (ClientProofsG1Rec.poll_call_eff _ _ _ _ E) as [[_ CL CO] PE].
  assert (OTH : forall j' h, j' <> j -> nth_error hs j' = Some h -> hc_over h = true ->
                exists p, ph c1 j' = Some p /\ fin p).
  { intros j' h N Eh Ho. destruct (O j' h Eh Ho) as (p & Ep & Fp). eapply fin_cls; [apply CO, N|exact Ep|exact Fp]. }
  unfold ClientProofsG1Rec.pc_eff in PE.
  destruct (ph c j) as [p0|] eqn:EP.
  - destruct r as [|o|].
    + constructor; [exact W1|congruence|]. intros j' h Eh Ho. destruct (Nat.eq_dec j' j) as [->|N]; [|eapply OTH; eassumption].
      exfalso. destruct (O j h Eh Ho) as (p & Ep & Fp). rewrite EP in Ep. injection Ep as <-.
      destruct PE as [[->|[->|[->| ->]]] _]; destruct Fp as [X|[X|X]]; discriminate.
    + destruct PE as [NF ED].
      assert (Lj : j < length hs).
      { rewrite L. apply nth_error_Some. unfold ClientProofsG1Rec.ph in EP.
        destruct (nth_error (Client.calls c) j); [discriminate|discriminate]. }
      destruct (nth_error hs j) as [h|] eqn:Eh; [|apply nth_error_None in Eh; lia].
      split.
      * exists h. split; [reflexivity|]. destruct (hc_over h) eqn:Ho; [|reflexivity]. exfalso.
        destruct (O j h Eh Ho) as (p & Ep & Fp). rewrite EP in Ep. injection Ep as <-.
        destruct NF as [->|[->|[->| ->]]]; destruct Fp as [X|[X|X]]; discriminate.
      * constructor; [exact W1|rewrite length_set_over; congruence|].
        intros j' h' Eh' Ho'. destruct (nth_set_over _ _ _ _ Eh' Ho') as [->|Eo].
        -- exists Client.PDone. split; [exact ED|right; left; reflexivity].
        -- destruct (Nat.eq_dec j' j) as [->|N]; [exists Client.PDone; split; [exact ED|right; left; reflexivity]|].
           eapply OTH; eassumption.
    + destruct PE as [_ ES]. constructor; [exact W1|congruence|]. intros j' h Eh Ho.
      destruct (Nat.eq_dec j' j) as [->|N]; [|eapply OTH; eassumption].
      destruct (O j h Eh Ho) as (p & Ep & Fp). rewrite EP in Ep. injection Ep as <-. exists p0. split; assumption.
  - destruct PE as [-> EN]. constructor; [exact W1|congruence|]. intros j' h Eh Ho.
    destruct (Nat.eq_dec j' j) as [->|N]; [|eapply OTH; eassumption].
    destruct (O j h Eh Ho) as (p & Ep & _). congruence.
Qed.

(* abandoning head call j *)
Lemma oc_drop_call hs (c : cst) j :
  OC hs c ->
  OC (set_over j hs)
     (match option_map Client.c_phase (nth_error (Client.calls c) j) with
      | Some Client.PClosing => c
      | _ => Client.guard_cancel (Client.guard_close c j) j
      end).
Proof.
  intros [W L O].
  destruct (ClientProofsG1Rec.guard_close_eff c j W) as [[_ CL1 CO1] P1].
  destruct (ClientProofsG1Rec.guard_cancel_eff (Client.guard_close c j) j) as [[_ CL2 CO2] P2].
  set (c2 := Client.guard_cancel (Client.guard_close c j) j) in *.
  assert (W2 : winv c2) by (apply ClientWaiters.winv_guard_cancel, ClientWaiters.winv_guard_close, W).
  destruct (option_map Client.c_phase (nth_error (Client.calls c) j)) as [p0|] eqn:EP.
  - assert (EPH : ph c j = Some p0) by exact EP.
    assert (G : forall cx, winv cx -> length (Client.calls cx) = length (Client.calls c) ->
                (forall j', j' <> j -> nth_error (ClientProofsG1Rec.cls cx) j' = nth_error (ClientProofsG1Rec.cls c) j') ->
                (exists p, ph cx j = Some p /\ fin p) -> OC (set_over j hs) cx).
    { intros cx Wx Lx Cx Fx. constructor; [exact Wx|rewrite length_set_over; congruence|].
      intros j' h' Eh' Ho'. destruct (Nat.eq_dec j' j) as [->|N]; [exact Fx|].
      destruct (nth_set_over _ _ _ _ Eh' Ho') as [->|Eo]; [contradiction|].
      destruct (O j' h' Eo Ho') as (p & Ep & Fp). eapply fin_cls; [apply Cx, N|exact Ep|exact Fp]. }
    assert (G2 : OC (set_over j hs) c2).
    { apply G; [exact W2|congruence|intros j' N; rewrite CO2, CO1 by exact N; reflexivity|].
      rewrite P2, P1, EPH. destruct p0; cbn; eexists; (split; [reflexivity|]); unfold fin; auto. }
    destruct p0; try exact G2.
    apply G; [exact W|reflexivity|reflexivity|exists Client.PClosing; split; [exact EPH|left; reflexivity]].
  - (* no such call: nothing to mark, nothing changes *)
    assert (EN : nth_error (Client.calls c) j = None) by (destruct (nth_error (Client.calls c) j); [discriminate|reflexivity]).
    assert (ES : set_over j hs = hs).
    { unfold set_over. apply nth_error_None in EN. rewrite <- L in EN. apply nth_error_None in EN. rewrite EN. reflexivity. }
    rewrite ES. constructor; [exact W2|congruence|].
    intros j' h Eh Ho. destruct (O j' h Eh Ho) as (p & Ep & Fp).
    assert (N : j' <> j) by (intros ->; unfold ClientProofsG1Rec.ph in Ep; rewrite EN in Ep; discriminate).
    eapply fin_cls; [rewrite CO2, CO1 by exact N; reflexivity|exact Ep|exact Fp].
Qed.

(* ------------------------------------------------------------------------------------------ *)
(* the chain *)
Record OI (x : rmon) (ch : chain) : Prop := {
  oi_once : rm_once x = true;
  oi_c : forall nd0, nth_error ch 0 = Some nd0 -> OC (mo_calls (rm_mon x)) (n_cli nd0) }.

(* the head client of ch' is the head client of ch, up to what a dispatch may do *)
Definition R0 (ch ch' : chain) : Prop :=
  forall nd0', nth_error ch' 0 = Some nd0' ->
    exists nd0, nth_error ch 0 = Some nd0 /\
      (winv (n_cli nd0) -> winv (n_cli nd0') /\ phk (n_cli nd0) (n_cli nd0')).
Lemma R0_refl ch : R0 ch ch.
Proof. intros nd0 E. exists nd0. split; [exact E|]. intro W. split; [exact W|apply ClientWaiters.phk_refl]. Qed.
Lemma R0_trans a b c : R0 a b -> R0 b c -> R0 a c.
Proof.
  intros H1 H2 nd E. destruct (H2 nd E) as (nb & Eb & Kb). destruct (H1 nb Eb) as (na & Ea & Ka).
  exists na. split; [exact Ea|]. intro W. destruct (Ka W) as [Wb Pb]. destruct (Kb Wb) as [Wc Pc].
  split; [exact Wc|eapply ClientWaiters.phk_trans; eassumption].
Qed.
Lemma R0_set_cli i nd nd1 ch :
  nth_error ch i = Some nd -> n_cli nd1 = n_cli nd -> R0 ch (set_node i nd1 ch).
Proof.
  intros E0 EC nd0 E. destruct (Nat.eq_dec i 0) as [->|N].
  - pose proof (nth_error_lt _ _ _ E0) as L. rewrite (nth_set_node_same 0 nd1 ch L) in E. injection E as <-.
    exists nd. split; [exact E0|]. rewrite EC. intro W. split; [exact W|apply ClientWaiters.phk_refl].
  - rewrite (nth_set_node_other i 0 nd1 ch N) in E. apply R0_refl, E.
Qed.
Lemma R0_set_succ i nd1 ch : R0 ch (set_node (S i) nd1 ch).
Proof. intros nd0 E. rewrite (nth_set_node_other (S i) 0 nd1 ch) in E by discriminate. apply R0_refl, E. Qed.

Lemma calls_nocall d l : forall x,
  forallb ChainResp3.nocall l = true -> mo_calls (rm_mon (fold_left (rm_obs d) l x)) = mo_calls (rm_mon x).
Proof.
  induction l as [|e r IH]; intros x H; cbn [fold_left]; [reflexivity|].
  cbn [forallb] in H. apply andb_true_iff in H. destruct H as [H1 H2]. rewrite IH by exact H2.
  cbn [rm_obs rm_mon]. destruct e; try discriminate; cbn [mon_obs mo_calls]; try reflexivity;
    try (apply (fold_mon_wire_inv mo_calls _ (mon_wire_calls _)));
    match goal with |- context [match ?z with _ => _ end] => destruct z; reflexivity end.
Qed.

Lemma oi_nocall d x ch ch' l :
  OI x ch -> forallb ChainResp3.nocall l = true -> R0 ch ch' -> OI (fold_left (rm_obs d) l x) ch'.
Proof.
  intros [O C] N R. constructor.
  - rewrite ChainResp3.once_nocall by exact N. exact O.
  - intros nd0' E. rewrite calls_nocall by exact N. destruct (R nd0' E) as (nd0 & E0 & K).
    pose proof (C nd0 E0) as H. destruct (K (oc_w _ _ H)) as [W' P']. eapply oc_phk; eassumption.
Qed.

Lemma cstep_frame_inj nd :
  let c0 := Client.upd_tr (n_cli nd) (n_link nd) (Client.fused (n_cli nd)) (Client.plog (n_cli nd)) in
  Client.calls c0 = Client.calls (n_cli nd) /\ Client.waiters c0 = Client.waiters (n_cli nd).
Proof. split; reflexivity. Qed.

Lemma oi_poll_dispatch d x i ch ch' l :
  OI x ch -> Chain.poll_dispatch i ch = (ch', l) -> OI (fold_left (rm_obs d) l x) ch'.
Proof.
  intros H E. unfold Chain.poll_dispatch in E. destruct (nth_error ch i) as [nd|] eqn:E0; [|pinj E; exact H].
  destruct (cstep nd Client.PollDispatch) as [nd1 l1] eqn:ES. pinj E.
  apply (oi_nocall d x ch); [exact H|apply ChainResp3.nocall_tr_cobs|].
  intros nd0' E'. destruct (Nat.eq_dec i 0) as [->|N].
  - pose proof (nth_error_lt _ _ _ E0) as L. rewrite (nth_set_node_same 0 nd1 ch L) in E'. injection E' as <-.
    exists nd. split; [exact E0|]. intro W. unfold cstep in ES.
    set (c0 := Client.upd_tr _ _ _ _) in ES. destruct (Client.step ctp cfuel c0 Client.PollDispatch) as [c1 os] eqn:EC.
    pinj ES. cbn [n_cli].
    assert (W0 : winv c0) by (eapply ClientSimBase.winv_frame; [exact W|reflexivity..]).
    split; [eapply ClientWaiters.winv_step; eassumption|].
    eapply ClientWaiters.phk_trans; [apply (ClientWaiters.phk_eq (n_cli nd) c0); reflexivity|].
    eapply ClientWaiters.phk_step_dispatch; eassumption.
  - rewrite (nth_set_node_other i 0 nd1 ch N) in E'. apply R0_refl, E'.
Qed.

Lemma sstep_cli nd o nd' l : sstep nd o = (nd', l) -> n_cli nd' = n_cli nd.
Proof. unfold sstep. destruct (Server.step _ _ _ _ _ _). intros [= <- _]. reflexivity. Qed.

Lemma oi_poll_requests d x i ch ch' l :
  OI x ch -> poll_requests i ch = (ch', l) -> OI (fold_left (rm_obs d) l x) ch'.
Proof.
  intros H E. unfold poll_requests in E. destruct (nth_error ch i) as [nd|] eqn:E0; [|pinj E; exact H].
  destruct (n_over nd || _); [pinj E; exact H|].
  destruct (sstep nd Server.OPoll) as [nd1 l1] eqn:ES. pinj E.
  apply (oi_nocall d x ch); [exact H|apply ChainResp3.nocall_tr_sobs|].
  eapply R0_set_cli; [exact E0|]. cbn [n_cli]. apply (sstep_cli _ _ _ _ ES).
Qed.

Lemma inner_poll_cli k nd nx nd1 nx1 st : inner_poll k nd nx = (nd1, nx1, st) -> n_cli nd1 = n_cli nd.
Proof.
  unfold inner_poll. destruct (nth_error (n_hs nd) k) as [h|]; [|intros [= <- _ _]; reflexivity].
  destruct (hi_call h) as [j|].
  - destruct (cstep nx _). intros [= <- _ _]. reflexivity.
  - destruct (cstep _ _). intros [= <- _ _]. reflexivity.
Qed.

Lemma R0_poll_handler i k st ch : R0 ch (fst (poll_handler i k st ch)).
Proof.
  unfold poll_handler. destruct (nth_error ch i) as [nd|] eqn:E0; [|apply R0_refl].
  destruct (nth_error (Server.s_handlers (n_srv nd)) k) as [hr|]; [|apply R0_refl].
  assert (AB : forall nd1 l1, sstep nd (Server.OHandlerPoll k Server.SRun) = (nd1, l1) ->
               R0 ch (match option_map hi_call (nth_error (n_hs nd) k), nth_error (set_node i nd1 ch) (S i) with
                      | Some (Some j), Some nx => set_node (S i) (fst (cstep nx (Client.DropCall j))) (set_node i nd1 ch)
                      | _, _ => set_node i nd1 ch end)).
  { intros nd1 l1 ES. pose proof (R0_set_cli i nd nd1 ch E0 (sstep_cli _ _ _ _ ES)) as R1.
    destruct (option_map hi_call _) as [[j|]|]; try exact R1.
    destruct (nth_error (set_node i nd1 ch) (S i)); [|exact R1].
    eapply R0_trans; [exact R1|apply R0_set_succ]. }
  assert (RUN : forall first : list cobs,
            R0 ch (fst (match nth_error ch (S i) with
                        | Some nx =>
                          let '(nd1, nx1, st1) := inner_poll k nd nx in
                          let '(nd2, l0) := sstep nd1 (Server.OHandlerPoll k st1) in
                          (set_node (S i) nx1 (set_node i nd2 ch), first ++ flat_map (tr_sobs i) l0)
                        | None =>
                          let '(nd1, l0) := sstep nd (Server.OHandlerPoll k st) in
                          (set_node i nd1 ch, first ++ flat_map (tr_sobs i) l0)
                        end))).
  { intro first. destruct (nth_error ch (S i)) as [nx|].
    - destruct (inner_poll k nd nx) as [[nd1 nx1] st1] eqn:EI.
      destruct (sstep nd1 (Server.OHandlerPoll k st1)) as [nd2 l0] eqn:ES. cbn [fst].
      eapply R0_trans; [|apply R0_set_succ]. eapply R0_set_cli; [exact E0|].
      rewrite (sstep_cli _ _ _ _ ES). eapply inner_poll_cli, EI.
    - destruct (sstep nd (Server.OHandlerPoll k st)) as [nd1 l0] eqn:ES. cbn [fst].
      eapply R0_set_cli; [exact E0|apply (sstep_cli _ _ _ _ ES)]. }
  destruct (Server.h_st hr).
  - destruct (is_aborted _ _); [|apply RUN].
    destruct (sstep nd (Server.OHandlerPoll k Server.SRun)) as [nd1 l1] eqn:ES. cbn [fst]. eapply AB. reflexivity.
  - destruct (is_aborted _ _); [|apply RUN].
    destruct (sstep nd (Server.OHandlerPoll k Server.SRun)) as [nd1 l1] eqn:ES. cbn [fst]. eapply AB. reflexivity.
  - destruct (sstep nd _) as [nd1 l1] eqn:ES. cbn [fst]. eapply R0_set_cli; [exact E0|apply (sstep_cli _ _ _ _ ES)].
  - destruct (sstep nd _) as [nd1 l1] eqn:ES. cbn [fst]. eapply R0_set_cli; [exact E0|apply (sstep_cli _ _ _ _ ES)].
  - apply R0_refl.
  - apply R0_refl.
Qed.

Lemma oi_poll_handler d x i k st ch ch' l :
  OI x ch -> poll_handler i k st ch = (ch', l) -> OI (fold_left (rm_obs d) l x) ch'.
Proof.
  intros H E. apply (oi_nocall d x ch); [exact H| |].
  - pose proof (ChainResp3.nocall_poll_handler i k st ch) as N. rewrite E in N. exact N.
  - pose proof (R0_poll_handler i k st ch) as R. rewrite E in R. exact R.
Qed.

Lemma oi_poll_head d x j ch ch' l :
  OI x ch -> poll_head j ch = (ch', l) -> OI (fold_left (rm_obs d) l x) ch'.
Proof.
  intros [O C] E. unfold poll_head in E. destruct (nth_error ch 0) as [nd|] eqn:E0; [|pinj E; constructor; [exact O|intros nd0 E'; congruence]].
  destruct (cstep nd (Client.PollCall j)) as [nd1 l1] eqn:ES. pinj E.
  unfold cstep in ES. set (c0 := Client.upd_tr _ _ _ _) in ES.
  destruct (Client.step ctp cfuel c0 (Client.PollCall j)) as [c1 os] eqn:EC. pinj ES.
  pose proof (C nd eq_refl) as H.
  assert (H0 : OC (mo_calls (rm_mon x)) c0) by (eapply oc_eq; [..|exact H]; reflexivity).
  pose proof (ClientWaiters.winv_step ctp cfuel _ _ _ _ EC (oc_w _ _ H0)) as W1.
  cbn [Client.step] in EC. destruct (Client.poll_call c0 j) as [r c1'] eqn:EP. pinj EC.
  pose proof (oc_poll_call _ _ _ _ _ EP H0 W1) as K.
  assert (NEW : forall hs, OC hs c1' -> forall nd0, nth_error (set_node 0 (mknode c1' (Client.tr c1') (n_srv nd) (n_hs nd) (n_over nd)) ch) 0 = Some nd0 -> OC hs (n_cli nd0)).
  { intros hs Hc nd0 E'. pose proof (nth_error_lt _ _ _ E0) as L.
    rewrite (nth_set_node_same 0 _ ch L) in E'. injection E' as <-. exact Hc. }
  destruct r as [|o|]; cbn [flat_map app fold_left].
  - constructor; [cbn [rm_obs rm_once once_chk]; rewrite O; reflexivity|]. cbn [rm_obs rm_mon mon_obs]. apply NEW, K.
  - destruct K as [(h & Eh & Ho) K2]. constructor.
    + cbn [rm_obs rm_once once_chk]. rewrite O, Eh, Ho. reflexivity.
    + cbn [rm_obs rm_mon mon_obs mo_calls]. apply NEW, K2.
  - constructor; [exact O|]. apply NEW, K.
Qed.

(* ------------------------------------------------------------------------------------------ *)
(* SettleAll, one op, a run *)
Lemma oi_settle_all d x ch ch' l :
  OI x ch -> settle_all ch = (ch', l) -> OI (fold_left (rm_obs d) l x) ch'.
Proof.
  apply (lp_settle_all rmon (rm_obs d) OI).
  - intros; eapply oi_poll_head; eassumption.
  - intros; eapply oi_poll_dispatch; eassumption.
  - intros; eapply oi_poll_requests; eassumption.
  - intros; eapply oi_poll_handler; eassumption.
  - intros y e Ee. apply ChainResp3.rm_obs_nonevent, Ee.
  - intros y c q H. apply (oi_nocall d y c c); [exact H| |apply R0_refl].
    rewrite forallb_app, ChainResp3.nocall_gauges. destruct q; reflexivity.
Qed.

Lemma mon_op_calls m o :
  mo_calls (mon_op m o) =
  match o with
  | HCall dd tid smp body => mo_calls m ++ [mkhc (mo_now m + dd) (2 * tid + (if smp then 1 else 0)) body false]
  | HDrop j => set_over j (mo_calls m)
  | _ => mo_calls m
  end.
Proof. destruct o; reflexivity. Qed.

Lemma oi_step d x ch o ch' l : OI x ch -> step ch o = (ch', l) -> OI (rm_step d x o l) ch'.
Proof.
  intros [O C] E. unfold rm_step. set (x0 := rm_set_mon x (mon_op (rm_mon x) o)).
  (* ops whose mon_op leaves the head-call table alone *)
  assert (SAME : mo_calls (mon_op (rm_mon x) o) = mo_calls (rm_mon x) -> OI x0 ch).
  { intro EM. constructor; [exact O|]. intros nd0 E0. unfold x0. cbn [rm_set_mon rm_mon]. rewrite EM. apply C, E0. }
  assert (FIN : forall y, OI y ch' -> OI (match o with SettleAll => rm_set_mon y (mon_settled (rm_mon y) l) | _ => y end) ch').
  { intros y [A B]. destruct o; constructor; assumption. }
  apply FIN. destruct o; cbn [step] in E.
  - (* HCall *)
    destruct (nth_error ch 0) as [nd|] eqn:E0; pinj E; cbn [fold_left].
    2: { constructor; [exact O|]. intros nd0 E'. congruence. }
    constructor; [exact O|]. intros nd0 E'. pose proof (nth_error_lt _ _ _ E0) as L.
    rewrite (nth_set_node_same 0 _ ch L) in E'. injection E' as <-.
    unfold x0. cbn [rm_set_mon rm_mon]. rewrite mon_op_calls.
    destruct (cstep nd _) as [nd1 l1] eqn:ES. cbn [fst]. unfold cstep in ES.
    set (c0 := Client.upd_tr _ _ _ _) in ES. cbn [Client.step] in ES. pinj ES. cbn [n_cli].
    destruct (C nd eq_refl) as [W Ln Ov].
    assert (W0 : winv c0) by (eapply ClientSimBase.winv_frame; [exact W|reflexivity..]).
    constructor.
    + eapply (ClientWaiters.winv_step ctp cfuel c0 (Client.Call 0 d0 tid smp body)); [reflexivity|exact W0].
    + cbn [Client.calls Client.upd_calls c0 Client.upd_tr]. rewrite !app_length, Ln. reflexivity.
    + intros j h Eh Ho. destruct (Nat.lt_ge_cases j (length (mo_calls (rm_mon x)))) as [Lt|Ge].
      * rewrite nth_error_app1 in Eh by exact Lt. destruct (Ov j h Eh Ho) as (p & Ep & Fp). exists p. split; [|exact Fp].
        unfold ClientProofsG1Rec.ph in *. cbn [Client.calls Client.upd_calls c0 Client.upd_tr].
        rewrite nth_error_app1; [exact Ep|]. rewrite <- Ln. exact Lt.
      * rewrite nth_error_app2 in Eh by exact Ge. destruct (j - length (mo_calls (rm_mon x))) as [|n]; cbn in Eh.
        -- injection Eh as <-. discriminate.
        -- destruct n; discriminate.
  - eapply oi_poll_head; [apply SAME; reflexivity|exact E].
  - (* HDrop *)
    destruct (nth_error ch 0) as [nd|] eqn:E0; pinj E; cbn [fold_left].
    2: { constructor; [exact O|]. intros nd0 E'. congruence. }
    constructor; [exact O|]. intros nd0 E'. pose proof (nth_error_lt _ _ _ E0) as L.
    rewrite (nth_set_node_same 0 _ ch L) in E'. injection E' as <-.
    unfold x0. cbn [rm_set_mon rm_mon]. rewrite mon_op_calls.
    destruct (cstep nd _) as [nd1 l1] eqn:ES. cbn [fst]. unfold cstep in ES.
    set (c0 := Client.upd_tr _ _ _ _) in ES. cbn [Client.step] in ES. pinj ES. cbn [n_cli].
    assert (H0 : OC (mo_calls (rm_mon x)) c0) by (eapply oc_eq; [..|apply (C nd eq_refl)]; reflexivity).
    exact (oc_drop_call _ c0 j H0).
  - eapply oi_poll_dispatch; [apply SAME; reflexivity|exact E].
  - eapply oi_poll_requests; [apply SAME; reflexivity|exact E].
  - eapply oi_poll_handler; [apply SAME; reflexivity|exact E].
  - (* DropDispatch *)
    destruct (nth_error ch i) as [nd|] eqn:E0; [|pinj E; apply SAME; reflexivity].
    destruct (Client.dropped _); [pinj E; apply SAME; reflexivity|].
    destruct (cstep nd Client.DropDispatch) as [nd1 l1] eqn:ES. pinj E. cbn [fold_left].
    apply (oi_nocall d x0 ch _ []); [apply SAME; reflexivity|reflexivity|].
    intros nd0' E'. destruct (Nat.eq_dec i 0) as [->|N].
    + pose proof (nth_error_lt _ _ _ E0) as L. rewrite (nth_set_node_same 0 _ ch L) in E'. injection E' as <-.
      exists nd. split; [exact E0|]. intro W. cbn [n_cli]. unfold cstep in ES.
      set (c0 := Client.upd_tr _ _ _ _) in ES. destruct (Client.step ctp cfuel c0 Client.DropDispatch) as [c1 os] eqn:EC.
      pinj ES. cbn [n_cli].
      assert (W0 : winv c0) by (eapply ClientSimBase.winv_frame; [exact W|reflexivity..]).
      split; [eapply ClientWaiters.winv_step; eassumption|].
      cbn [Client.step] in EC. pinj EC.
      eapply ClientWaiters.phk_trans; [apply (ClientWaiters.phk_eq (n_cli nd) c0); reflexivity|].
      destruct (Client.dropped c0); [apply ClientWaiters.phk_refl|apply ClientWaiters.phk_drop_dispatch, W0].
    + rewrite (nth_set_node_other i 0 _ ch N) in E'. apply R0_refl, E'.
  - (* DropServer *)
    destruct (nth_error ch i) as [nd|] eqn:E0; [|pinj E; apply SAME; reflexivity].
    destruct (Server.s_dropped _); [pinj E; apply SAME; reflexivity|].
    destruct (sstep nd Server.ODropChannel) as [nd1 l1] eqn:ES. pinj E. cbn [fold_left].
    apply (oi_nocall d x0 ch _ []); [apply SAME; reflexivity|reflexivity|].
    eapply R0_set_cli; [exact E0|]. cbn [n_cli]. apply (sstep_cli _ _ _ _ ES).
  - (* Advance *)
    pinj E. cbn [fold_left]. apply (oi_nocall d x0 ch _ []); [apply SAME; reflexivity|reflexivity|].
    intros nd0' E'. rewrite nth_error_map in E'. destruct (nth_error ch 0) as [nd|] eqn:E0; [|discriminate].
    injection E' as <-. exists nd. split; [reflexivity|]. intro W.
    unfold advance_node. destruct (cstep nd (Client.Advance dt)) as [nd1 l1] eqn:E1.
    destruct (sstep nd1 (Server.OAdvance dt)) as [nd2 l2] eqn:E2. rewrite (sstep_cli _ _ _ _ E2).
    unfold cstep in E1. cbn [Client.step] in E1. pinj E1. cbn [n_cli].
    split; [eapply ClientSimBase.winv_frame; [exact W|reflexivity..]|apply ClientWaiters.phk_eq; reflexivity].
  - eapply oi_settle_all; [apply SAME; reflexivity|exact E].
Qed.

Lemma oi_run d : forall ops x ch,
  OI x ch -> exists x', rm_run d x ops (fst (run_from ch ops)) = Some x' /\ rm_once x' = true.
Proof.
  induction ops as [|o r IH]; intros x ch H; cbn [run_from].
  - exists x. split; [reflexivity|apply H].
  - destruct (step ch o) as [ch1 l] eqn:ES. destruct (run_from ch1 r) as [ls ch2] eqn:ER.
    cbn [fst rm_run]. specialize (IH (rm_step d x o l) ch1 (oi_step d _ _ _ _ _ H ES)). rewrite ER in IH. exact IH.
Qed.

Lemma oi_init d : OI rmon0 (init d).
Proof.
  constructor; [reflexivity|]. intros nd0 E. apply nth_error_In in E. unfold init in E. apply repeat_spec in E. subst nd0.
  constructor; [apply ClientWaiters.winv_init|reflexivity|intros j h Eh; destruct j; discriminate].
Qed.

(* every state; chain_no_wrap is not used *)
Theorem chain_resp_once_all : forall d ops, c01c_once d ops (fst (run d ops)) = true.
Proof.
  intros d ops. unfold c01c_once, rm_flag, run.
  destruct (oi_run d ops rmon0 (init d) (oi_init d)) as (x' & -> & A). exact A.
Qed.
Theorem chain_resp_once : stmt_resp_once.
Proof. intros d ops _. apply chain_resp_once_all. Qed.
Print Assumptions chain_resp_once.
