(* Server proofs, engineer B, part 0: the shape of `ostep` on the trace of one model step, and the
   generic induction that threads a predicate on (observer state, model state) through a run on
   top of ServerSim6.run_top. *)
From Coq Require Import List Bool Arith NArith Lia.
Import ListNotations.
From TarpcV Require Import Base Transport TimerWheel Server ServerMon ServerFuel ServerContract
     ServerSim ServerSim2 ServerSim3 ServerSim4 ServerSim5 ServerSim6 ServerSim7 ServerState.

Definition rshape (R : obs) : Prop :=
  match R with OYield _ _ _ _ _ | OPending | OStreamEnd | OStreamErr _ => True | _ => False end.
Definition is_oyield (R : obs) : bool := match R with OYield _ _ _ _ _ => true | _ => false end.
Definition is_idle (R : obs) : bool := match R with OPending | OStreamEnd => true | _ => false end.
Definition is_end (R : obs) : bool := match R with OStreamEnd => true | _ => false end.

Section Shape.
  Context {T C : Type}.
  Variable tp : transport T response cmsg.
  Variable ctl : T -> C -> T.
  Variable tfuel : T -> nat.
  Hypothesis TF : tfuel_ok tp tfuel.
  Variable c : cfg.
  Notation st := (@sstate T).
  Notation lim := (cfg_limit c).

  (* the observer's step on the trace of a poll of a live channel that has not failed *)
  Definition poll_tail (o1 : ostate) (R : obs) (a b : nat) : ostate :=
    if c_err (o_v o1) then o1
    else o_gauges (is_idle R && negb (o_blocked o1)) (is_idle R && o_blocked o1)
           (chk10 (chk12a o1 (negb (is_oyield R)
                              || match lim with Some l => Nat.leb a l | None => true end))
                  (negb (is_end R) || Nat.eqb a 0)) a b.

  Lemma ostep_poll_eq : forall o (s1 : st) log R,
    h_stop (o_v o) = true -> o_dropped o = false -> c_err (o_v o) = false ->
    s_dropped s1 = false -> rshape R ->
    ostep lim o (@OPoll C) ([OCalls log; R] ++ gauges s1)
    = poll_tail (o_result (o_calls lim (start_poll o) log) R) R
                (length (s_inflight s1)) (length (s_timers s1)).
  Proof.
    intros o s1 log R EH Hod EC Hd1 HR. unfold ostep. rewrite EH. cbn [negb].
    rewrite (split_gauges_poll s1 log R Hd1); [|destruct R; try contradiction; exact I].
    rewrite Hod, EC. unfold o_calls.
    set (oc := fold_left (o_call lim) log (start_poll o)).
    destruct (ocs_proj lim log (start_poll o)) as (_ & Pd & _). fold oc in Pd.
    cbn [start_poll o_dropped] in Pd.
    destruct (oresult_dropped oc R HR) as (X1 & _).
    cbv iota beta. rewrite X1, Pd, Hod. unfold poll_tail.
    destruct (c_err (o_v (o_result oc R))); [reflexivity|].
    destruct R; try contradiction; cbn [is_idle is_oyield is_end negb orb andb]; reflexivity.
  Qed.

  (* what a poll of the model emits *)
  Lemma poll_trace : forall (s : st) s' l,
    s_dropped s = false -> keys_ok s -> step tp ctl tfuel c s OPoll = (s', l) ->
    exists log R, l = [OCalls log; R] ++ gauges s' /\ s_dropped s' = false /\ rshape R
      /\ (is_oyield R = true -> match lim with Some L => length (s_inflight s') <= L | None => True end).
  Proof.
    intros s s' l ED K H. unfold step in H.
    destruct (poll_requests tp tfuel c s) as [s1 l0] eqn:EP. injection H as <- <-.
    unfold poll_requests in EP. rewrite ED in EP.
    destruct (requests_poll_next tp c (poll_fuel tfuel s) (set_log s [])) as [r s2] eqn:ER.
    pose proof (requests_not_fuel tp tfuel TF c _ _ _ ER) as Hnf.
    pose proof (dropped_requests tp _ _ _ _ _ ER) as Hd. sproj.
    assert (K0 : keys_ok (set_log s [])) by exact K.
    destruct (requests_keys_limit tp _ _ _ _ _ ER K0) as (_ & B1).
    destruct r; [| | | |exfalso; apply Hnf; reflexivity]; injection EP as <- <-; do 2 eexists;
      (split; [reflexivity|split; [sproj; congruence|split; [exact I|]]]); cbn [is_oyield]; try discriminate.
    intros _. sproj. exact B1.
  Qed.

  (* ---- the generic run ------------------------------------------------------------------------ *)
  Variable Q : ostate -> st -> Prop.
  Hypothesis Qstep : forall o (s : st) p s' l,
    Top o s -> hb_ok s -> Q o s -> step tp ctl tfuel c s p = (s', l) -> Q (ostep lim o p l) s'.

  Theorem run_gen : forall ops o (s : st),
    Top o s -> hb_ok s -> Q o s ->
    Q (orun lim o ops (fst (run_from tp ctl tfuel c s ops))) (snd (run_from tp ctl tfuel c s ops)).
  Proof.
    induction ops as [|p ops IH]; intros o s HT Hb HQ; cbn [run_from]; [exact HQ|].
    destruct (step tp ctl tfuel c s p) as [s1 l] eqn:ES.
    pose proof (top_step tp ctl tfuel TF c o s p s1 l HT Hb ES) as HT1.
    pose proof (hb_ok_step tp ctl tfuel c s p Hb) as Hb1. rewrite ES in Hb1. cbn [fst] in Hb1.
    pose proof (Qstep o s p s1 l HT Hb HQ ES) as HQ1.
    specialize (IH (ostep lim o p l) s1 HT1 Hb1 HQ1).
    destruct (run_from tp ctl tfuel c s1 ops) as [ls s2]. cbn [fst snd orun] in *. exact IH.
  Qed.
End Shape.
